/-
Lemmas for C15, closed-form constructions: what a fold of `add_edge` calls does to a directed /
simple graph object, and the closed forms of the call lists of `dag_pyramid`,
`dag_complete_binary_tree`, `dag_path`, `complete_graph`, `star_graph`, `bipartite_shift`.
No Mathlib.
-/
import Lemmas.GraphBuildSamplers
namespace Cnfgen
open GRand

/-! ### directed graphs -/
namespace DiG

theorem hasEdge_nat (G : DiG) (u v : Nat) : G.hasEdge (u : Int) (v : Int) = true ↔ (u, v) ∈ G.edgeset := by
  simp [hasEdge]

/-- the `add_edge` calls `es` (natural numbers) made on `G` -/
def addNat (G : DiG) (es : List (Nat × Nat)) : Except Err DiG :=
  G.addEdgesFrom (es.map (fun e => ((e.1 : Int), (e.2 : Int))))

theorem addNat_nil (G : DiG) : G.addNat [] = .ok G := rfl

theorem addNat_cons (G : DiG) (e : Nat × Nat) (es : List (Nat × Nat)) :
    G.addNat (e :: es) = (G.addEdge e.1 e.2 >>= fun g => g.addNat es) := by
  simp [addNat, addEdgesFrom]

theorem addEdge_nat (G : DiG) (u v : Nat) (h : 1 ≤ u ∧ u ≤ G.n ∧ 1 ≤ v ∧ v ≤ G.n) :
    ∃ G', G.addEdge u v = .ok G' ∧ G'.n = G.n ∧
      (∀ e, e ∈ G'.edgeset ↔ e = (u, v) ∨ e ∈ G.edgeset) ∧
      G'.stillDag = (G.stillDag && (decide (u < v) || decide ((u, v) ∈ G.edgeset))) ∧
      G'.m = G.m + (if (u, v) ∈ G.edgeset then 0 else 1) := by
  unfold addEdge
  rw [if_neg (by simp only [Decidable.not_not]; omega)]
  by_cases he : G.hasEdge (u : Int) (v : Int) = true
  · have hm := (hasEdge_nat G u v).1 he
    rw [if_pos he]
    refine ⟨G, rfl, rfl, ?_, ?_, by simp [hm]⟩
    · intro e; constructor
      · exact Or.inr
      · rintro (rfl | h); exact hm; exact h
    · simp [hm]
  · have hm : (u, v) ∉ G.edgeset := fun h => he ((hasEdge_nat G u v).2 h)
    rw [if_neg he]
    refine ⟨_, rfl, rfl, ?_, ?_, by simp [hm]⟩
    · intro e; simp
    · simp [hm]

/-- a list of in-range `add_edge` calls on a directed graph: it returns; the vertex count is
unchanged; the stored edges are the old ones and the ones asked for; the graph is still flagged
acyclic iff it was and every NEW edge goes upwards -/
theorem addNat_spec (es : List (Nat × Nat)) (G : DiG)
    (hin : ∀ e ∈ es, 1 ≤ e.1 ∧ e.1 ≤ G.n ∧ 1 ≤ e.2 ∧ e.2 ≤ G.n) :
    ∃ G', G.addNat es = .ok G' ∧ G'.n = G.n ∧
      (∀ e, e ∈ G'.edgeset ↔ e ∈ G.edgeset ∨ e ∈ es) ∧
      ((∀ e ∈ es, e.1 < e.2) → G'.stillDag = G.stillDag) ∧
      (es.Nodup → (∀ e ∈ es, e ∉ G.edgeset) → G'.m = G.m + es.length) := by
  induction es generalizing G with
  | nil => exact ⟨G, rfl, rfl, by simp, by simp, by simp⟩
  | cons e es ih =>
    obtain ⟨G1, h1, hn1, hm1, hd1, hc1⟩ := addEdge_nat G e.1 e.2 (hin e (by simp))
    obtain ⟨G', h', hn', hm', hd', hc'⟩ := ih G1 (by
      intro x hx; rw [hn1]; exact hin x (by simp [hx]))
    refine ⟨G', ?_, by omega, ?_, ?_, ?_⟩
    · rw [addNat_cons, h1]; exact h'
    · intro x; rw [hm' x, hm1 x]
      simp only [List.mem_cons]
      constructor
      · rintro ((h | h) | h)
        · exact Or.inr (Or.inl h)
        · exact Or.inl h
        · exact Or.inr (Or.inr h)
      · rintro (h | h | h)
        · exact Or.inl (Or.inr h)
        · exact Or.inl (Or.inl h)
        · exact Or.inr h
    · intro hup
      rw [hd' (fun x hx => hup x (by simp [hx])), hd1]
      simp [hup e (by simp)]
    · intro hnd hnew
      simp only [List.nodup_cons] at hnd
      rw [hc' hnd.2 (by
        intro x hx hx'
        rcases (hm1 x).1 hx' with rfl | hx'
        · exact hnd.1 hx
        · exact hnew x (by simp [hx]) hx'), hc1]
      have : (e.1, e.2) ∉ G.edgeset := hnew e (by simp)
      simp [this]; omega

theorem ofEdges_eq (n : Nat) (es : List (Nat × Nat)) : ofEdges n es = (init n).addNat es := rfl

/-- `DirectedGraph(n)` followed by in-range `add_edge` calls that all go upwards -/
theorem ofEdges_spec_gb (n : Nat) (es : List (Nat × Nat))
    (hin : ∀ e ∈ es, 1 ≤ e.1 ∧ e.1 ≤ n ∧ 1 ≤ e.2 ∧ e.2 ≤ n) (hup : ∀ e ∈ es, e.1 < e.2) :
    ∃ G, ofEdges n es = .ok G ∧ G.n = n ∧ (∀ e, e ∈ G.edgeset ↔ e ∈ es) ∧ G.stillDag = true ∧
      (es.Nodup → G.m = es.length) := by
  obtain ⟨G, h, hn, hm, hd, hc⟩ := addNat_spec es (init n) hin
  refine ⟨G, h, hn, ?_, ?_, ?_⟩
  · intro e; rw [hm e]; simp [init]
  · rw [hd hup]; rfl
  · intro hnd; rw [hc hnd (by simp [init])]; simp [init]

end DiG

/-! ### simple graphs -/
namespace SimpleG

theorem hasEdge_nat (G : SimpleG) (u v : Nat) : G.hasEdge (u : Int) (v : Int) = true ↔ (u, v) ∈ G.edgeset := by
  simp [hasEdge]

/-- the edge set is symmetric -/
def Sym (G : SimpleG) : Prop := ∀ a b, (a, b) ∈ G.edgeset → (b, a) ∈ G.edgeset

def addNat (G : SimpleG) (es : List (Nat × Nat)) : Except Err SimpleG :=
  G.addEdgesFrom (es.map (fun e => ((e.1 : Int), (e.2 : Int))))

theorem addNat_nil (G : SimpleG) : G.addNat [] = .ok G := rfl

theorem addNat_cons (G : SimpleG) (e : Nat × Nat) (es : List (Nat × Nat)) :
    G.addNat (e :: es) = (G.addEdge e.1 e.2 >>= fun g => g.addNat es) := by
  simp [addNat, addEdgesFrom]

/-- one `add_edge(u, v)` on a simple graph, `u ≠ v` inside the graph -/
theorem addEdge_nat (G : SimpleG) (u v : Nat) (h : 1 ≤ u ∧ u ≤ G.n ∧ 1 ≤ v ∧ v ≤ G.n ∧ u ≠ v) :
    ∃ G', G.addEdge u v = .ok G' ∧ G'.n = G.n ∧
      (∀ e, e ∈ G'.edgeset ↔ (((u, v) ∉ G.edgeset) ∧ (e = (u, v) ∨ e = (v, u))) ∨ e ∈ G.edgeset) ∧
      G'.m = G.m + (if (u, v) ∈ G.edgeset then 0 else 1) := by
  unfold addEdge
  rw [if_neg (by simp only [Decidable.not_not]; omega)]
  simp only [Int.toNat_natCast]
  by_cases he : G.edgeset.contains (u, v) = true
  · have hm : (u, v) ∈ G.edgeset := by simpa using he
    rw [if_pos he]
    exact ⟨G, rfl, rfl, by intro e; simp [hm], by simp [hm]⟩
  · have hm : (u, v) ∉ G.edgeset := by simpa using he
    rw [if_neg he]
    refine ⟨_, rfl, rfl, ?_, by simp [hm]⟩
    intro e
    simp only [List.mem_cons, hm, not_false_eq_true, true_and]
    rcases Nat.lt_or_ge u v with hlt | hge
    · rw [Nat.min_eq_left (by omega), Nat.max_eq_right (by omega)]
      constructor
      · rintro (h | h | h) <;> simp [h]
      · rintro ((h | h) | h) <;> simp [h]
    · rw [Nat.min_eq_right (by omega), Nat.max_eq_left (by omega)]
      constructor
      · rintro (h | h | h) <;> simp [h]
      · rintro ((h | h) | h) <;> simp [h]

theorem addEdge_error (G : SimpleG) (u v : Int) (e : Err) (h : G.addEdge u v = .error e) : e = .valueError := by
  unfold addEdge at h
  split at h
  · simp at h; exact h.symm
  · simp only at h
    split at h <;> simp at h

theorem addEdgesFrom_error_gb (es : List (Int × Int)) (G : SimpleG) (e : Err)
    (h : G.addEdgesFrom es = .error e) : e = .valueError := by
  induction es generalizing G with
  | nil => simp [addEdgesFrom, List.foldlM, pure, Except.pure] at h
  | cons x es ih =>
    simp only [addEdgesFrom, List.foldlM] at h
    rw [except_bind_error] at h
    rcases h with h | ⟨G1, _, h⟩
    · exact addEdge_error _ _ _ _ h
    · exact ih G1 h

theorem sym_addEdge (G G' : SimpleG) (u v : Nat) (h : 1 ≤ u ∧ u ≤ G.n ∧ 1 ≤ v ∧ v ≤ G.n ∧ u ≠ v)
    (hS : G.Sym) (hadd : G.addEdge u v = .ok G') : G'.Sym := by
  obtain ⟨G1, h1, _, hm, _⟩ := addEdge_nat G u v h
  rw [hadd] at h1; cases h1
  intro a b hab
  rcases (hm (a, b)).1 hab with ⟨hn, h | h⟩ | h
  · simp only [Prod.mk.injEq] at h; obtain ⟨rfl, rfl⟩ := h
    exact (hm _).2 (Or.inl ⟨hn, Or.inr rfl⟩)
  · simp only [Prod.mk.injEq] at h; obtain ⟨rfl, rfl⟩ := h
    exact (hm _).2 (Or.inl ⟨hn, Or.inl rfl⟩)
  · exact (hm _).2 (Or.inr (hS a b h))

/-- a list of in-range `add_edge(u, v)` calls with `u < v` on a simple graph -/
theorem addNat_spec (es : List (Nat × Nat)) (G : SimpleG)
    (hin : ∀ e ∈ es, 1 ≤ e.1 ∧ e.1 < e.2 ∧ e.2 ≤ G.n) :
    ∃ G', G.addNat es = .ok G' ∧ G'.n = G.n ∧
      (∀ e, e ∈ G'.edgeset → e ∈ G.edgeset ∨ e ∈ es ∨ (e.2, e.1) ∈ es) ∧
      (∀ e, e ∈ G.edgeset → e ∈ G'.edgeset) ∧
      (G.Sym → G'.Sym ∧ ∀ e ∈ es, e ∈ G'.edgeset ∧ (e.2, e.1) ∈ G'.edgeset) ∧
      (es.Nodup → (∀ e ∈ es, e ∉ G.edgeset) → G'.m = G.m + es.length) := by
  induction es generalizing G with
  | nil => exact ⟨G, rfl, rfl, fun e h => Or.inl h, fun e h => h, fun h => ⟨h, by simp⟩, by simp⟩
  | cons e es ih =>
    have he := hin e (by simp)
    have hr : 1 ≤ e.1 ∧ e.1 ≤ G.n ∧ 1 ≤ e.2 ∧ e.2 ≤ G.n ∧ e.1 ≠ e.2 := by omega
    obtain ⟨G1, h1, hn1, hm1, hc1⟩ := addEdge_nat G e.1 e.2 hr
    obtain ⟨G', h', hn', hsub', hmono', hsym', hc'⟩ := ih G1 (by
      intro x hx; rw [hn1]; exact hin x (by simp [hx]))
    refine ⟨G', ?_, by omega, ?_, ?_, ?_, ?_⟩
    · rw [addNat_cons, h1]; exact h'
    · intro x hx
      rcases hsub' x hx with h | h | h
      · rcases (hm1 x).1 h with ⟨_, h | h⟩ | h
        · right; left; simp [h]
        · right; right; subst h; simp
        · left; exact h
      · right; left; simp [h]
      · right; right; simp [h]
    · intro x hx; exact hmono' x ((hm1 x).2 (Or.inr hx))
    · intro hS
      have hS1 := sym_addEdge G G1 e.1 e.2 hr hS h1
      obtain ⟨hS', hall⟩ := hsym' hS1
      refine ⟨hS', ?_⟩
      intro x hx
      rcases List.mem_cons.1 hx with rfl | hx
      · have h1' : (x.1, x.2) ∈ G1.edgeset := by
          by_cases hh : (x.1, x.2) ∈ G.edgeset
          · exact (hm1 _).2 (Or.inr hh)
          · exact (hm1 _).2 (Or.inl ⟨hh, Or.inl rfl⟩)
        exact ⟨hmono' _ h1', hmono' _ (hS1 _ _ h1')⟩
      · exact hall x hx
    · intro hnd hnew
      simp only [List.nodup_cons] at hnd
      have hfresh : (e.1, e.2) ∉ G.edgeset := hnew e (by simp)
      rw [hc' hnd.2 (by
        intro x hx hx'
        have hxin := hin x (by simp [hx])
        rcases (hm1 x).1 hx' with ⟨_, h | h⟩ | h
        · have hxe : x = e := h
          exact hnd.1 (hxe ▸ hx)
        · have : x.1 = e.2 ∧ x.2 = e.1 := by rw [h]; exact ⟨rfl, rfl⟩
          omega
        · exact hnew x (by simp [hx]) h), hc1]
      simp [hfresh]; omega

theorem ofEdges_eq (n : Nat) (es : List (Nat × Nat)) : ofEdges n es = (init n).addNat es := rfl

theorem sym_init (n : Nat) : (init n).Sym := by intro a b h; simp [init] at h

/-- `Graph(n)` followed by in-range `add_edge(u, v)` calls with `u < v`, no call repeated -/
theorem ofEdges_spec_gb (n : Nat) (es : List (Nat × Nat))
    (hin : ∀ e ∈ es, 1 ≤ e.1 ∧ e.1 < e.2 ∧ e.2 ≤ n) (hnd : es.Nodup) :
    ∃ G, ofEdges n es = .ok G ∧ G.n = n ∧ G.m = es.length ∧ G.Sym ∧
      (∀ e, e ∈ G.edgeset ↔ e ∈ es ∨ (e.2, e.1) ∈ es) := by
  obtain ⟨G, h, hn, hsub, _, hsym, hc⟩ := addNat_spec es (init n) hin
  obtain ⟨hS, hall⟩ := hsym (sym_init n)
  refine ⟨G, h, hn, ?_, hS, ?_⟩
  · rw [hc hnd (by simp [init])]; simp [init]
  · intro e
    constructor
    · intro he
      rcases hsub e he with h | h | h
      · simp [init] at h
      · exact Or.inl h
      · exact Or.inr h
    · rintro (h | h)
      · exact (hall e h).1
      · exact (hall _ h).2

end SimpleG

namespace GBuild

/-! ### dag_pyramid -/
/-- first vertex of layer `k` (layers counted from the bottom, layer `k` has `h + 1 - k` vertices) -/
def layerStart (h : Nat) : Nat → Nat
  | 0 => 1
  | k + 1 => layerStart h k + (h + 1 - k)

/-- the `i`-th vertex (from 0) of layer `k` -/
def pvtx (h k i : Nat) : Nat := layerStart h k + i

/-- the documented edges: `(k, i)` and `(k, i+1)` both point to `(k+1, i)` -/
def pyramidSpecRow (h k : Nat) : List (Nat × Nat) :=
  (List.range (h - k)).flatMap (fun i => [(pvtx h k i, pvtx h (k + 1) i), (pvtx h k (i + 1), pvtx h (k + 1) i)])

def pyramidSpec (h : Nat) : List (Nat × Nat) := (List.range h).flatMap (pyramidSpecRow h)

theorem flatMap_congr' {α β} {l : List α} {f g : α → List β} (h : ∀ a ∈ l, f a = g a) :
    l.flatMap f = l.flatMap g := by
  induction l with
  | nil => rfl
  | cons x xs ih =>
    simp only [List.flatMap_cons]
    rw [h x (by simp), ih (fun a ha => h a (by simp [ha]))]

theorem even_consec (n : Nat) : n * (n + 1) % 2 = 0 := by
  induction n with
  | zero => rfl
  | succ n ih =>
    have : (n + 1) * (n + 1 + 1) = n * (n + 1) + 2 * (n + 1) := by grind
    omega

theorem range_succ_flatMap {β} (n : Nat) (f : Nat → List β) :
    (List.range (n + 1)).flatMap f = f 0 ++ (List.range n).flatMap (fun i => f (i + 1)) := by
  rw [List.range_succ_eq_map, List.flatMap_cons, List.flatMap_map]

theorem pyramidRow_eq (ls dest c : Nat) :
    pyramidRow ls dest c = (List.range c).flatMap (fun i => [(ls + i, dest + i), (ls + i + 1, dest + i)]) := by
  induction c generalizing ls dest with
  | zero => rfl
  | succ c ih =>
    rw [range_succ_flatMap, pyramidRow, ih]
    simp only [Nat.add_zero, List.cons_append, List.nil_append, List.cons.injEq, true_and]
    apply flatMap_congr'
    intro i _
    simp only [List.cons.injEq, Prod.mk.injEq, and_true]
    omega

theorem pyramidLayers_eq (h rem k0 : Nat) (hk : k0 + rem = h) :
    pyramidLayers (layerStart h k0) (layerStart h (k0 + 1)) rem =
      (List.range rem).flatMap (fun j => pyramidSpecRow h (k0 + j)) := by
  induction rem generalizing k0 with
  | zero => rfl
  | succ rem ih =>
    rw [range_succ_flatMap, pyramidLayers, pyramidRow_eq]
    have e1 : layerStart h k0 + rem + 2 = layerStart h (k0 + 1) := by
      simp only [layerStart]; omega
    have e2 : layerStart h (k0 + 1) + rem + 1 = layerStart h (k0 + 1 + 1) := by
      rw [show layerStart h (k0 + 1 + 1) = layerStart h (k0 + 1) + (h + 1 - (k0 + 1)) from rfl]; omega
    rw [e1, e2, ih (k0 + 1) (by omega)]
    congr 1
    · simp only [pyramidSpecRow, pvtx, Nat.add_zero]
      rw [show h - k0 = rem + 1 by omega]
      apply flatMap_congr'
      intro i _
      simp only [List.cons.injEq, Prod.mk.injEq, and_true, true_and]
      omega
    · apply flatMap_congr'
      intro j _
      rw [show k0 + 1 + j = k0 + (j + 1) by omega]

/-- T-C15.1 (pyramid): the `add_edge` calls of `dag_pyramid(h)` are the documented edges -/
theorem pyramidCalls_eq (h : Nat) : pyramidCalls h = pyramidSpec h := by
  have := pyramidLayers_eq h h 0 (by omega)
  simp only [layerStart, Nat.zero_add, Nat.sub_zero] at this
  rw [pyramidCalls, show h + 2 = 1 + (h + 1) by omega, this, pyramidSpec]

theorem layerStart_closed (h k : Nat) (hk : k ≤ h + 1) : 2 * layerStart h k + k * k = 2 + k * (2 * h + 3) := by
  induction k with
  | zero => simp [layerStart]
  | succ k ih =>
    have := ih (by omega)
    simp only [layerStart]
    have hk' : k ≤ h := by omega
    grind

theorem layerStart_mono (h : Nat) {a b : Nat} (hab : a ≤ b) : layerStart h a ≤ layerStart h b := by
  induction b with
  | zero => have : a = 0 := by omega
            subst this; exact Nat.le_refl _
  | succ b ih =>
    rcases Nat.lt_or_ge a (b + 1) with h1 | h1
    · have := ih (by omega); simp only [layerStart]; omega
    · have : a = b + 1 := by omega
      subst this; exact Nat.le_refl _

theorem layerStart_top (h : Nat) : layerStart h (h + 1) = pyramidOrder h + 1 := by
  have := layerStart_closed h (h + 1) (Nat.le_refl _)
  unfold pyramidOrder
  have h2 : (h + 1) * (h + 2) % 2 = 0 := even_consec (h + 1)
  have h3 : 2 * layerStart h (h + 1) = 2 + (h + 1) * (h + 2) := by grind
  omega

theorem layerStart_pos (h k : Nat) : 1 ≤ layerStart h k := by
  have := layerStart_mono h (Nat.zero_le k); simpa [layerStart] using this

theorem mem_pyramidSpec (h : Nat) (e : Nat × Nat) :
    e ∈ pyramidSpec h ↔ ∃ k i, k < h ∧ i < h - k ∧
      (e = (pvtx h k i, pvtx h (k + 1) i) ∨ e = (pvtx h k (i + 1), pvtx h (k + 1) i)) := by
  simp only [pyramidSpec, pyramidSpecRow, List.mem_flatMap, List.mem_range, List.mem_cons,
    List.not_mem_nil, or_false]
  constructor
  · rintro ⟨k, hk, i, hi, h⟩; exact ⟨k, i, hk, hi, h⟩
  · rintro ⟨k, i, hk, hi, h⟩; exact ⟨k, hk, i, hi, h⟩

/-- every documented edge goes upwards and stays inside `1..(h+1)(h+2)/2` -/
theorem pyramidSpec_range (h : Nat) (e : Nat × Nat) (he : e ∈ pyramidSpec h) :
    1 ≤ e.1 ∧ e.1 < e.2 ∧ e.2 ≤ pyramidOrder h := by
  rw [mem_pyramidSpec] at he
  obtain ⟨k, i, hk, hi, he⟩ := he
  have h1 := layerStart_pos h k
  have h2 : layerStart h (k + 1) = layerStart h k + (h + 1 - k) := rfl
  have h3 : layerStart h (k + 1 + 1) = layerStart h (k + 1) + (h + 1 - (k + 1)) := rfl
  have h4 := layerStart_mono h (show k + 1 + 1 ≤ h + 1 by omega)
  have h5 := layerStart_top h
  rcases he with rfl | rfl <;> simp only [pvtx] <;> omega

/-! ### dag_complete_binary_tree -/
/-- the documented edges of the tree of height `h`, numbered from the leaves: the `j`-th internal
vertex `2^h + 1 + j` has the children `2j + 1` and `2j + 2` -/
def treeSpec (h : Nat) : List (Nat × Nat) :=
  (List.range (2 ^ h - 1)).flatMap (fun j => [(2 * j + 1, 2 ^ h + 1 + j), (2 * j + 2, 2 ^ h + 1 + j)])

theorem treeLoop_eq (ls dest c : Nat) :
    treeLoop ls dest c = (List.range c).flatMap (fun j => [(ls + 2 * j, dest + j), (ls + 2 * j + 1, dest + j)]) := by
  induction c generalizing ls dest with
  | zero => rfl
  | succ c ih =>
    rw [range_succ_flatMap, treeLoop, ih]
    simp only [Nat.mul_zero, Nat.add_zero, List.cons_append, List.nil_append, List.cons.injEq, true_and]
    apply flatMap_congr'
    intro i _
    simp only [List.cons.injEq, Prod.mk.injEq, and_true]
    omega

/-- T-C15.1 (tree): the `add_edge` calls of `dag_complete_binary_tree(h)` are the documented edges -/
theorem treeCalls_eq (h : Nat) : treeCalls h = treeSpec h := by
  have hp : 0 < 2 ^ h := Nat.two_pow_pos h
  simp only [treeCalls, treeSpec]
  rw [treeLoop_eq]
  have e1 : 2 * 2 ^ h / 2 = 2 ^ h := by omega
  rw [e1, show 2 * 2 ^ h - (2 ^ h + 1) = 2 ^ h - 1 by omega]
  apply flatMap_congr'
  intro j _
  simp only [List.cons.injEq, Prod.mk.injEq, and_true]
  omega

theorem mem_treeSpec (h : Nat) (e : Nat × Nat) :
    e ∈ treeSpec h ↔ ∃ j, j < 2 ^ h - 1 ∧ (e = (2 * j + 1, 2 ^ h + 1 + j) ∨ e = (2 * j + 2, 2 ^ h + 1 + j)) := by
  simp only [treeSpec, List.mem_flatMap, List.mem_range, List.mem_cons, List.not_mem_nil, or_false]

theorem treeSpec_range (h : Nat) (e : Nat × Nat) (he : e ∈ treeSpec h) :
    1 ≤ e.1 ∧ e.1 < e.2 ∧ e.2 ≤ treeOrder h := by
  rw [mem_treeSpec] at he
  obtain ⟨j, hj, he⟩ := he
  unfold treeOrder
  rcases he with rfl | rfl <;> simp only <;> omega

/-! ### dag_path -/
theorem mem_pathCalls (len : Nat) (e : Nat × Nat) :
    e ∈ pathCalls len ↔ 1 ≤ e.1 ∧ e.1 ≤ len ∧ e.2 = e.1 + 1 := by
  obtain ⟨a, b⟩ := e
  simp only [pathCalls, List.mem_map, mem_rangeN, Prod.mk.injEq]
  constructor
  · rintro ⟨i, hi, rfl, rfl⟩; omega
  · intro h; exact ⟨a, by omega, rfl, by omega⟩

/-! ### complete_graph, star_graph -/
theorem mem_completeCalls (n : Nat) (e : Nat × Nat) :
    e ∈ completeCalls n ↔ 1 ≤ e.1 ∧ e.1 < e.2 ∧ e.2 ≤ n := by
  obtain ⟨a, b⟩ := e
  simp only [completeCalls, List.mem_flatMap, List.mem_map, mem_rangeN, Prod.mk.injEq]
  constructor
  · rintro ⟨u, hu, v, hv, rfl, rfl⟩; omega
  · intro h; exact ⟨a, by omega, b, by omega, rfl, rfl⟩

theorem nodup_completeCalls (n : Nat) : (completeCalls n).Nodup := by
  unfold completeCalls
  -- same argument as `nodup_pairs`, the inner list depending on `u`
  have : ∀ us : List Nat, us.Nodup →
      (us.flatMap (fun u => (rangeN (u + 1) (n + 1)).map (fun v => (u, v)))).Nodup := by
    intro us hus
    induction us with
    | nil => simp
    | cons u us ih =>
      simp only [List.flatMap_cons, List.nodup_cons] at hus ⊢
      rw [List.nodup_append]
      refine ⟨nodup_map_inj _ (fun a b hab => by simpa using hab) (nodup_rangeN _ _), ih hus.2, ?_⟩
      intro a ha b hb
      simp only [List.mem_map, List.mem_flatMap] at ha hb
      obtain ⟨v, _, rfl⟩ := ha
      obtain ⟨u', hu', w, _, rfl⟩ := hb
      intro heq
      simp at heq
      exact hus.1 (heq.1 ▸ hu')
  exact this _ (nodup_rangeN _ _)

theorem sum_descending (n a c : Nat) (hc : a + c = n) :
    2 * ((rangeN a n).map (fun u => n - u)).sum = c * (c + 1) := by
  induction c generalizing a with
  | zero => rw [rangeN_empty (by omega)]; simp
  | succ c ih =>
    rw [rangeN_succ_left (by omega)]
    simp only [List.map_cons, List.sum_cons]
    have := ih (a + 1) (by omega)
    have h2 : n - a = c + 1 := by omega
    rw [h2]
    grind

theorem length_completeCalls (n : Nat) : 2 * (completeCalls n).length = n * (n - 1) := by
  unfold completeCalls
  rw [List.length_flatMap]
  have : (List.map (fun u => ((rangeN (u + 1) (n + 1)).map (fun v => (u, v))).length) (rangeN 1 n)) =
      (rangeN 1 n).map (fun u => n - u) := by
    apply List.map_congr_left
    intro u _; rw [List.length_map, length_rangeN]; omega
  rw [this]
  rcases Nat.eq_zero_or_pos n with rfl | hn
  · simp [rangeN]
  · have := sum_descending n 1 (n - 1) (by omega)
    rw [this]
    rw [show n - 1 + 1 = n by omega, Nat.mul_comm]

theorem mem_starCalls (n : Nat) (e : Nat × Nat) : e ∈ starCalls n ↔ 1 ≤ e.1 ∧ e.1 ≤ n ∧ e.2 = n + 1 := by
  obtain ⟨a, b⟩ := e
  simp only [starCalls, List.mem_map, mem_rangeN, Prod.mk.injEq]
  constructor
  · rintro ⟨u, hu, rfl, rfl⟩; omega
  · intro h; exact ⟨a, by omega, rfl, by omega⟩

theorem nodup_starCalls (n : Nat) : (starCalls n).Nodup :=
  nodup_map_inj _ (fun a b hab => by simpa using hab) (nodup_rangeN _ _)

/-! ### bipartite_shift -/
theorem perm_insertInt (l : List Int) (v : Int) : (insertInt l v).Perm (v :: l) := by
  induction l with
  | nil => exact List.Perm.refl _
  | cons y ys ih =>
    simp only [insertInt]
    split
    · exact (List.Perm.cons y ih).trans (List.Perm.swap v y ys)
    · exact List.Perm.refl _

theorem perm_sortInt_aux (l acc : List Int) : (l.foldl insertInt acc).Perm (l.reverse ++ acc) := by
  induction l generalizing acc with
  | nil => simp
  | cons x xs ih =>
    simp only [List.foldl_cons, List.reverse_cons, List.append_assoc, List.singleton_append]
    exact (ih _).trans (List.Perm.append_left _ (perm_insertInt acc x))

theorem perm_sortInt (l : List Int) : (sortInt l).Perm l := by
  have := perm_sortInt_aux l []
  simp only [List.append_nil] at this
  exact this.trans (List.reverse_perm l)

theorem mem_shiftCalls (N M : Nat) (p : List Int) (e : Int × Int) :
    e ∈ shiftCalls N M p ↔ ∃ u : Nat, 1 ≤ u ∧ u ≤ N ∧ ∃ o ∈ p, e = ((u : Int), 1 + ((u : Int) - 1 + o) % (M : Int)) := by
  simp only [shiftCalls, List.mem_flatMap, List.mem_map, mem_rangeN]
  constructor
  · rintro ⟨u, hu, o, ho, rfl⟩; exact ⟨u, hu.1, by omega, o, ho, rfl⟩
  · rintro ⟨u, h1, h2, o, ho, rfl⟩; exact ⟨u, ⟨h1, by omega⟩, o, ho, rfl⟩

end GBuild
end Cnfgen
