/-
Flags and the extended parser: an ungrouped flag put in front of ANY command line (abbreviations, `=`, clusters,
`--`, unknown options, `-h` …) changes nothing but its own binding.

  * the engine never reads the bindings while parsing: a binding placed under all the others stays there
    (`runSegs_frame` …);
  * `engine_flag_cons`: `f :: argv` parses like `argv`, with the flag's binding added at the bottom;
  * `flagX_noninterference_lemma`: same path of the helper, same value of every expression that does not mention it.
-/
import CnfgenModel.Cli.Argparse
import CnfgenModel.Cli.DispatchChecks
import Lemmas.DispatchFlag
import Lemmas.ArgparseTokens
namespace Cnfgen.Cli.AP
open Cnfgen.Gen Cnfgen.Cli

/-- a binding placed under all the others -/
def pushB (x : String × Val) (st : PState) : PState := { st with ns := st.ns ++ [x] }

def mapOk {α β : Type} (f : α → β) : Except PErr α → Except PErr β
  | .ok a => .ok (f a)
  | .error e => .error e

section frame
variable (bind : Bind) (x : String × Val)

theorem takeAction_frame (o : OptSpec) (toks : List String) (st : PState) :
    takeAction bind o toks (pushB x st) = mapOk (pushB x) (takeAction bind o toks st) := by
  unfold takeAction pushB
  dsimp only
  split
  · rfl
  · cases bind o toks with
    | error e => rfl
    | ok b => simp [mapOk, pushB]

theorem applyPosX_frame : ∀ (ps : List OptSpec) (sls : List (List String)) (i : Nat) (ddg : Option Nat)
    (st : PState), applyPosX bind ps sls i ddg (pushB x st) = mapOk (pushB x) (applyPosX bind ps sls i ddg st) := by
  intro ps
  induction ps with
  | nil => intro sls i ddg st; simp [applyPosX, mapOk]
  | cons o os ih =>
    intro sls i ddg st
    cases sls with
    | nil => simp [applyPosX, mapOk]
    | cons sl sls =>
      simp only [applyPosX]
      rw [takeAction_frame]
      cases takeAction bind o (if ddg == some i then sl else sl.erase "--") st with
      | error e => rfl
      | ok st' => simp only [mapOk]; exact ih sls (i + 1) ddg st'

theorem consumePosX_frame (run : Run) (final : Bool) (st : PState) :
    consumePosX bind run final (pushB x st) = mapOk (pushB x) (consumePosX bind run final st) := by
  unfold consumePosX
  have hps : (pushB x st).ps = st.ps := rfl
  split
  · rfl
  · rw [hps, applyPosX_frame]
    cases applyPosX bind st.ps
        (slices (matchPartial (st.ps.map OptSpec.arity) run.args.length st.ps.length) run.args) 0
        (ddgOf (matchPartial (st.ps.map OptSpec.arity) run.args.length st.ps.length) run) st with
    | error e => rfl
    | ok st' => simp [mapOk, pushB]

theorem runFlags_frame : ∀ (l : List Target) (st : PState),
    runFlags bind l (pushB x st) = mapOk (pushB x) (runFlags bind l st) := by
  intro l
  induction l with
  | nil => intro st; simp [runFlags, mapOk]
  | cons tg rest ih =>
    intro st
    cases tg with
    | help => simp [runFlags, mapOk]
    | opt o =>
      simp only [runFlags]
      rw [takeAction_frame]
      cases takeAction bind o [] st with
      | error e => rfl
      | ok st' => simp only [mapOk]; exact ih st'

theorem stepOpt_frame (strs : List (String × Target)) (oi : OptItem) (run : Run) (st : PState) :
    stepOpt bind strs oi run (pushB x st) =
      mapOk (fun p => (pushB x p.1, p.2)) (stepOpt bind strs oi run st) := by
  unfold stepOpt
  cases oi with
  | unknown => simp [mapOk, pushB]
  | known tg os ex =>
    dsimp only
    unfold consumeOptX
    cases chainOf strs tg os ex with
    | error e => rfl
    | ok c =>
      obtain ⟨flags, last, lex⟩ := c
      dsimp only
      cases takeArgs last lex run with
      | error e => rfl
      | ok r =>
        obtain ⟨toks, run'⟩ := r
        dsimp only
        rw [runFlags_frame]
        cases runFlags bind flags st with
        | error e => rfl
        | ok st1 =>
          simp only [mapOk]
          cases last with
          | help => rfl
          | opt o =>
            simp only [lastAction]
            rw [takeAction_frame]
            by_cases hdd : (toks == ["--"]) = true
            · simp only [hdd, if_true]
            · simp only [hdd, Bool.false_eq_true, if_false]
              cases takeAction bind o (toks.erase "--") st1 with
              | error e => rfl
              | ok st2 => rfl

theorem runSegs_frame (strs : List (String × Target)) : ∀ (ss : List (OptItem × Run)) (st : PState),
    runSegs bind strs ss (pushB x st) = mapOk (pushB x) (runSegs bind strs ss st) := by
  intro ss
  induction ss with
  | nil => intro st; simp [runSegs, mapOk]
  | cons s rest ih =>
    intro st
    obtain ⟨oi, run⟩ := s
    simp only [runSegs]
    rw [stepOpt_frame]
    cases stepOpt bind strs oi run st with
    | error e => rfl
    | ok p =>
      obtain ⟨st1, run1⟩ := p
      simp only [mapOk]
      rw [consumePosX_frame]
      cases consumePosX bind run1 rest.isEmpty st1 with
      | error e => rfl
      | ok st2 => simp only [mapOk]; exact ih st2

end frame

/-- AN UNGROUPED FLAG IN FRONT.  For any parser, any action function and ANY list of tokens: a token read as a flag `o`
(no argument, no mutually exclusive group) whose action binds `x`, put in front, leaves the parse as it was and adds `x`
under the other bindings — provided no required option is satisfied by that binding. -/
theorem engine_flag_cons (bind : Bind) (p : PSpec) (f : String) (o : OptSpec) (x : String × Val)
    (argv : List String) (hf : f ≠ "--") (hc : classifyTok p.strings f = .opt (.opt o) f none)
    (h0 : o.arity = .zero) (hg : o.group = "") (hb : bind o [] = .ok [x])
    (hreq : ∀ ns, requiredOK p (ns ++ [x]) = requiredOK p ns) :
    engine bind p (f :: argv) = mapOk (fun ns => ns ++ [x]) (engine bind p argv) := by
  unfold engine
  rw [itemize_cons_ne _ _ _ hf, hc]
  unfold engineItems
  rw [segs_cons]
  simp only [List.any_cons, Item.isAmbiguous, Bool.false_or, stepItem]
  split
  · rfl
  · -- the empty leading run is skipped; the flag's action; then the run that was leading
    have hskip : consumePosX bind ⟨[], none⟩ false ⟨p.poss, [], false, []⟩ = .ok ⟨p.poss, [], false, []⟩ := by
      simp [consumePosX]
    simp only [List.isEmpty_cons, hskip, runSegs]
    have hstep : stepOpt bind p.strings (.known (.opt o) f none) (segs (itemize p.strings argv)).1
        ⟨p.poss, [], false, []⟩ = .ok (pushB x ⟨p.poss, [], false, []⟩, (segs (itemize p.strings argv)).1) := by
      simp only [stepOpt, consumeOptX, chainOf]
      have : takeArgs (.opt o) none (segs (itemize p.strings argv)).1 =
          .ok ([], (segs (itemize p.strings argv)).1) := by simp [takeArgs, arityT, h0]
      rw [this]
      simp only [runFlags, lastAction, List.erase_nil, takeAction, hg, bne_self_eq_false, Bool.false_and,
        Bool.false_eq_true, if_false, hb]
      simp [pushB]
    rw [hstep]
    dsimp only
    rw [consumePosX_frame]
    cases consumePosX bind (segs (itemize p.strings argv)).1 (segs (itemize p.strings argv)).2.isEmpty
        ⟨p.poss, [], false, []⟩ with
    | error e => rfl
    | ok st0 =>
      simp only [mapOk]
      rw [runSegs_frame]
      cases runSegs bind p.strings (segs (itemize p.strings argv)).2 st0 with
      | error e => rfl
      | ok st =>
        simp only [mapOk, finish, pushB, hreq]
        split <;> rfl

/-! ### the sub-command's parser -/

theorem flag_mainBind (s : CliSpec) (o : OptSpec) (h0 : o.arity = .zero) (hty : isFileType o.ty = false) :
    mainBind s o [] = .ok [(o.dest, o.flagVal)] := by
  unfold mainBind
  simp only [dflag_arity_zero_action o h0, dflag_arity_zero_action_compose o h0, Bool.false_eq_true, if_false]
  unfold bindBase
  simp only [hty, Bool.false_eq_true, if_false, h0]
  simp [liftE, dflag_bindOne o h0]

theorem requiredOK_flag (s : CliSpec) (o : OptSpec) (hwf : specWF s = true) (ho : o ∈ s.opts)
    (hfl : isFlag o = true) (ns : Ns) :
    requiredOK (mainSpec s) (ns ++ [(o.dest, o.flagVal)]) = requiredOK (mainSpec s) ns := by
  unfold requiredOK
  apply dflag_all_congr
  intro o' ho'
  have ho's : o' ∈ s.opts := by
    unfold mainSpec mainOpts at ho'
    exact (List.mem_filter.1 (List.mem_filter.1 ho').1).1
  have hnp : o'.positional = false := by
    unfold mainSpec at ho'
    simpa using (List.mem_filter.1 ho').2
  unfold specWF at hwf
  simp only [Bool.and_eq_true] at hwf
  have h3 := hwf.1.2
  rw [List.all_eq_true] at h3
  have h3' := h3 o' ho's
  by_cases hr : o'.required = true
  · simp only [hr, Bool.not_true, Bool.false_or, hnp, Bool.and_eq_true, Bool.not_eq_true'] at h3'
    have h4 := h3'.2
    rw [List.all_eq_true] at h4
    have h5 := h4 o (List.mem_filter.2 ⟨ho, hfl⟩)
    have hne : ((o.dest, o.flagVal).1 == o'.dest) = false := by simpa using h5
    rw [dflag_any_append ns _ _ hne]
  · simp [hr]

/-- the parser of a sub-command: an ungrouped flag in front of ANY list of tokens -/
theorem parseX_flag_cons (s : CliSpec) (o : OptSpec) (f : String) (argv : List String) (hwf : specWF s = true)
    (ho : o ∈ s.opts) (hfl : isFlag o = true) (hg : o.group = "") (hty : isFileType o.ty = false)
    (hf : f ≠ "--") (hc : classifyTok (mainSpec s).strings f = .opt (.opt o) f none) :
    parseX s (f :: argv) = mapOk (fun ns => ns ++ [(o.dest, o.flagVal)]) (parseX s argv) := by
  have h0 : o.arity = .zero := by simpa [isFlag] using hfl
  unfold parseX
  exact engine_flag_cons (mainBind s) (mainSpec s) f o (o.dest, o.flagVal) argv hf hc h0 hg
    (flag_mainBind s o h0 hty) (requiredOK_flag s o hwf ho hfl)

/-! ### the helper's path -/

/-- the option names under the `G.order()` of an expression -/
def orderDeps : Expr → List String
  | .order g => g.deps
  | .getattr _ e => orderDeps e
  | .not e => orderDeps e
  | .isNone e => orderDeps e
  | .isNotNone e => orderDeps e
  | .star e => orderDeps e
  | .and a b => orderDeps a ++ orderDeps b
  | .or a b => orderDeps a ++ orderDeps b
  | .cmp _ a b => orderDeps a ++ orderDeps b
  | .ite c t e => orderDeps c ++ orderDeps t ++ orderDeps e
  | .binop _ a b => orderDeps a ++ orderDeps b
  | .cons h t => orderDeps h ++ orderDeps t
  | .mkgraph _ sp => orderDeps sp
  | _ => []

theorem fixOrder_frame (ord : List String → Nat) (ns ns' : Ns) (d : String)
    (h : ∀ k, k ≠ d → ns.lookup k = ns'.lookup k) :
    ∀ e : Expr, d ∉ orderDeps e → fixOrder ord ns e = fixOrder ord ns' e := by
  intro e
  induction e with
  | order g _ =>
    intro hd
    simp only [orderDeps] at hd
    simp only [fixOrder, evalE_frame ns ns' d h g hd]
  | getattr k e ih => intro hd; simp only [orderDeps] at hd; simp [fixOrder, ih hd]
  | not e ih => intro hd; simp only [orderDeps] at hd; simp [fixOrder, ih hd]
  | isNone e ih => intro hd; simp only [orderDeps] at hd; simp [fixOrder, ih hd]
  | isNotNone e ih => intro hd; simp only [orderDeps] at hd; simp [fixOrder, ih hd]
  | star e ih => intro hd; simp only [orderDeps] at hd; simp [fixOrder, ih hd]
  | and a b iha ihb =>
    intro hd; simp only [orderDeps, List.mem_append, not_or] at hd; simp [fixOrder, iha hd.1, ihb hd.2]
  | or a b iha ihb =>
    intro hd; simp only [orderDeps, List.mem_append, not_or] at hd; simp [fixOrder, iha hd.1, ihb hd.2]
  | cmp op a b iha ihb =>
    intro hd; simp only [orderDeps, List.mem_append, not_or] at hd; simp [fixOrder, iha hd.1, ihb hd.2]
  | ite c t e ihc iht ihe =>
    intro hd
    simp only [orderDeps, List.mem_append, not_or] at hd
    simp [fixOrder, ihc hd.1.1, iht hd.1.2, ihe hd.2]
  | binop op a b iha ihb =>
    intro hd; simp only [orderDeps, List.mem_append, not_or] at hd; simp [fixOrder, iha hd.1, ihb hd.2]
  | cons a b iha ihb =>
    intro hd; simp only [orderDeps, List.mem_append, not_or] at hd; simp [fixOrder, iha hd.1, ihb hd.2]
  | mkgraph k sp ih => intro hd; simp only [orderDeps] at hd; simp [fixOrder, ih hd]
  | arg k => intro _; rfl
  | hasattr k => intro _; rfl
  | none => intro _; rfl
  | bool b => intro _; rfl
  | int i => intro _; rfl
  | str s => intro _; rfl
  | name n => intro _; rfl
  | nil => intro _; rfl
  | «opaque» src ds => intro _; rfl

/-- replacing a `G.order()` by a number does not add option names -/
theorem fixOrder_deps (ord : List String → Nat) (ns : Ns) : ∀ (e : Expr) (d : String),
    d ∈ (fixOrder ord ns e).deps → d ∈ e.deps := by
  intro e
  induction e with
  | order g _ =>
    intro d hd
    simp only [fixOrder] at hd
    split at hd
    · split at hd
      · exact hd
      · simp [Expr.deps] at hd
    · simp [Expr.deps] at hd
    · exact hd
  | getattr k e ih =>
    intro d hd
    simp only [fixOrder, Expr.deps, List.mem_cons] at hd ⊢
    rcases hd with hd | hd
    · exact Or.inl hd
    · exact Or.inr (ih d hd)
  | not e ih => intro d hd; simp only [fixOrder, Expr.deps] at hd ⊢; exact ih d hd
  | isNone e ih => intro d hd; simp only [fixOrder, Expr.deps] at hd ⊢; exact ih d hd
  | isNotNone e ih => intro d hd; simp only [fixOrder, Expr.deps] at hd ⊢; exact ih d hd
  | star e ih => intro d hd; simp only [fixOrder, Expr.deps] at hd ⊢; exact ih d hd
  | and a b iha ihb =>
    intro d hd
    simp only [fixOrder, Expr.deps, List.mem_append] at hd ⊢
    rcases hd with hd | hd
    · exact Or.inl (iha d hd)
    · exact Or.inr (ihb d hd)
  | or a b iha ihb =>
    intro d hd
    simp only [fixOrder, Expr.deps, List.mem_append] at hd ⊢
    rcases hd with hd | hd
    · exact Or.inl (iha d hd)
    · exact Or.inr (ihb d hd)
  | cmp op a b iha ihb =>
    intro d hd
    simp only [fixOrder, Expr.deps, List.mem_append] at hd ⊢
    rcases hd with hd | hd
    · exact Or.inl (iha d hd)
    · exact Or.inr (ihb d hd)
  | ite c t e ihc iht ihe =>
    intro d hd
    simp only [fixOrder, Expr.deps, List.mem_append] at hd ⊢
    rcases hd with (hd | hd) | hd
    · exact Or.inl (Or.inl (ihc d hd))
    · exact Or.inl (Or.inr (iht d hd))
    · exact Or.inr (ihe d hd)
  | binop op a b iha ihb =>
    intro d hd
    simp only [fixOrder, Expr.deps, List.mem_append] at hd ⊢
    rcases hd with hd | hd
    · exact Or.inl (iha d hd)
    · exact Or.inr (ihb d hd)
  | cons a b iha ihb =>
    intro d hd
    simp only [fixOrder, Expr.deps, List.mem_append] at hd ⊢
    rcases hd with hd | hd
    · exact Or.inl (iha d hd)
    · exact Or.inr (ihb d hd)
  | mkgraph k sp ih => intro d hd; simp only [fixOrder, Expr.deps] at hd ⊢; exact ih d hd
  | arg k => intro d hd; exact hd
  | hasattr k => intro d hd; exact hd
  | none => intro d hd; exact hd
  | bool b => intro d hd; exact hd
  | int i => intro d hd; exact hd
  | str s => intro d hd; exact hd
  | name n => intro d hd; exact hd
  | nil => intro d hd; exact hd
  | «opaque» src ds => intro d hd; exact hd

/-- the option is under no `G.order()` of the helper -/
def notUnderOrder (s : CliSpec) (d : String) : Bool :=
  s.templates.all (fun t => !(orderDeps t.guard).contains d && t.pos.all (fun e => !(orderDeps e).contains d) &&
    t.kw.all (fun p => !(orderDeps p.2).contains d))

theorem fixTemplate_frame (ord : List String → Nat) (ns ns' : Ns) (d : String)
    (h : ∀ k, k ≠ d → ns.lookup k = ns'.lookup k) (s : CliSpec) (hno : notUnderOrder s d = true) :
    s.templates.map (fixTemplate ord ns) = s.templates.map (fixTemplate ord ns') := by
  apply List.map_congr_left
  intro t ht
  have := (List.all_eq_true.1 hno) t ht
  simp only [Bool.and_eq_true, Bool.not_eq_true', List.all_eq_true, List.contains_eq_mem,
    decide_eq_false_iff_not] at this
  obtain ⟨⟨h1, h2⟩, h3⟩ := this
  unfold fixTemplate
  have e1 := fixOrder_frame ord ns ns' d h t.guard h1
  have e2 : t.pos.map (fixOrder ord ns) = t.pos.map (fixOrder ord ns') :=
    List.map_congr_left (fun e he => fixOrder_frame ord ns ns' d h e (h2 e he))
  have e3 : t.kw.map (fun p => (p.1, fixOrder ord ns p.2)) = t.kw.map (fun p => (p.1, fixOrder ord ns' p.2)) :=
    List.map_congr_left (fun p hp => by rw [fixOrder_frame ord ns ns' d h p.2 (h3 p hp)])
  rw [e1, e2, e3]

/-- T-C17.5a′ on the extended interpreter.  An ungrouped flag `o` that no guard tests, spelled by ANY token `f` that
the parser reads as `o` (its option strings, their unique prefixes), in front of ANY list of tokens: the run fails as
it failed without it (CLIError, help exit, …) or the helper takes the SAME path, in a namespace where every expression
that does not mention `o.dest` has the same value. -/
theorem flagX_noninterference_lemma (ord : List String → Nat) (s : CliSpec) (o : OptSpec) (f : String)
    (argv : List String) (hwf : specWF s = true) (ho : o ∈ s.opts) (hfl : isFlag o = true) (hg : o.group = "")
    (hty : isFileType o.ty = false) (hf : f ≠ "--")
    (hc : classifyTok (mainSpec s).strings f = .opt (.opt o) f none)
    (hng : (guardDeps s).contains o.dest = false) (hno : notUnderOrder s o.dest = true) :
    match dispatchTemplateX ord s argv with
    | .error e => dispatchTemplateX ord s (f :: argv) = .error e
    | .ok (t, ns) =>
      ∃ ns', dispatchTemplateX ord s (f :: argv) = .ok (t, ns') ∧
        ∀ e : Expr, o.dest ∉ e.deps → evalE ns' e = evalE ns e := by
  unfold dispatchTemplateX
  rw [parseX_flag_cons s o f argv hwf ho hfl hg hty hf hc]
  cases hp : parseX s argv with
  | error e => simp [mapOk]
  | ok b =>
    simp only [mapOk, namespaceOf]
    have hag : ∀ k, k ≠ o.dest →
        ((b ++ [(o.dest, o.flagVal)]) ++ defaults s).lookup k = (b ++ defaults s).lookup k :=
      fun k hk => dflag_lookup_insert k o.dest o.flagVal b (defaults s) hk
    rw [fixTemplate_frame ord _ _ o.dest hag s hno]
    have hguards : ∀ t ∈ s.templates.map (fixTemplate ord (b ++ defaults s)), o.dest ∉ t.guard.deps := by
      intro t ht hd
      obtain ⟨t0, ht0, rfl⟩ := List.mem_map.1 ht
      exact dflag_guardDeps s o.dest hng t0 ht0 (fixOrder_deps ord _ t0.guard o.dest hd)
    rw [selectTemplate_frame _ _ o.dest hag _ hguards]
    cases hsel : selectTemplate (b ++ defaults s) (s.templates.map (fixTemplate ord (b ++ defaults s))) with
    | error e => simp
    | ok t =>
      refine ⟨_, rfl, ?_⟩
      intro e he
      exact evalE_frame _ _ o.dest hag e he

end Cnfgen.Cli.AP
