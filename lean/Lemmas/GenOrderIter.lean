/-
The closed forms of `Fam/Ordering.lean` (`verts`, `perm3`, `comb3`, `comb2`, `permId`, `combId`)
against the generic itertools model of `Core/Iter.lean` (`combos`, `permsK`, `picks`, `rangeN`),
for every `n`.
-/
import Lemmas.FamOrdering
import Lemmas.C01Combos
import Lemmas.FamIter
import Lemmas.FamRamsey
import Lemmas.VarsWords
namespace Cnfgen.GenOrderIter
open Cnfgen Cnfgen.Fam.Ordering Cnfgen.Vars

/-! ### generic list facts -/

theorem flatMap_filter_eq {α β : Type} (p : α → Bool) (f : α → List β) (l : List α) :
    (l.filter p).flatMap f = l.flatMap (fun a => if p a then f a else []) := by
  induction l with
  | nil => rfl
  | cons x xs ih =>
    by_cases h : p x = true
    · simp [h, ih]
    · simp [h, ih]

/-- `picks` of a duplicate-free list: remove the element by a filter -/
theorem picks_eq_of_nodup {α : Type} [DecidableEq α] {l : List α} (hl : l.Nodup) :
    picks l = l.map (fun a => (a, l.filter (· != a))) := by
  induction l with
  | nil => rfl
  | cons x xs ih =>
    rw [List.nodup_cons] at hl
    rw [picks, ih hl.2, List.map_cons, List.map_map]
    congr 1
    · have : xs.filter (· != x) = xs := by
        rw [List.filter_eq_self]
        intro a ha
        simp only [bne_iff_ne, ne_eq]
        rintro rfl; exact hl.1 ha
      simp [this]
    · apply List.map_congr_left
      intro a ha
      have hxa : x ≠ a := by rintro rfl; exact hl.1 ha
      simp [hxa]

theorem permsK_one {α : Type} (l : List α) : permsK 1 l = l.map (fun a => [a]) := by
  rw [permsK_succ]
  simp only [permsK_zero, List.map_cons, List.map_nil]
  rw [← List.map_eq_flatMap]
  conv_rhs => rw [← picks_map_fst l]
  simp [List.map_map, Function.comp_def]

/-- `permutations(l, k+1)` of a duplicate-free list, as a loop over the first element -/
theorem permsK_succ_of_nodup {α : Type} [DecidableEq α] {l : List α} (hl : l.Nodup) (k : Nat) :
    permsK (k + 1) l = l.flatMap (fun a => (permsK k (l.filter (· != a))).map (a :: ·)) := by
  rw [permsK_succ, picks_eq_of_nodup hl, List.flatMap_map]

theorem permsK_two_of_nodup {α : Type} [DecidableEq α] {l : List α} (hl : l.Nodup) :
    permsK 2 l = l.flatMap (fun a => (l.filter (· != a)).map (fun b => [a, b])) := by
  rw [permsK_succ_of_nodup hl]
  simp only [permsK_one, List.map_map, Function.comp_def]

theorem permsK_three_of_nodup {α : Type} [DecidableEq α] {l : List α} (hl : l.Nodup) :
    permsK 3 l = l.flatMap (fun a => l.flatMap (fun b =>
      (l.filter (fun c => a != b && a != c && b != c)).map (fun c => [a, b, c]))) := by
  rw [permsK_succ_of_nodup hl]
  apply List.flatMap_congr
  intro a _
  rw [permsK_two_of_nodup (hl.filter _), flatMap_filter_eq, List.map_flatMap]
  apply List.flatMap_congr
  intro b _
  by_cases hab : a = b
  · subst hab; simp
  · have hba : b ≠ a := fun h => hab h.symm
    simp only [bne_iff_ne, ne_eq, hba, not_false_eq_true, if_true, List.filter_filter, List.map_map,
      Function.comp_def]
    congr 1
    apply List.filter_congr
    intro c _
    have h1 : (a != b) = true := by simp [hab]
    rw [h1, Bool.true_and, Bool.and_comm, bne_comm (a := c), bne_comm (a := c)]

/-- `combinations(l, k+1)` of a strictly increasing list, as a loop over the first element -/
theorem combos_succ_of_sorted {l : List Nat} (hl : l.Pairwise (· < ·)) (k : Nat) :
    combos l (k + 1) =
      l.flatMap (fun a => (combos (l.filter (fun b => decide (a < b))) k).map (a :: ·)) := by
  induction l with
  | nil => simp [combos]
  | cons x xs ih =>
    rw [List.pairwise_cons] at hl
    rw [combos, ih hl.2, List.flatMap_cons]
    congr 1
    · have : (x :: xs).filter (fun b => decide (x < b)) = xs := by
        rw [List.filter_cons, if_neg (by simp), List.filter_eq_self]
        intro a ha
        simpa using hl.1 a ha
      rw [this]
    · apply List.flatMap_congr
      intro a ha
      have h1 : ¬ a < x := by have := hl.1 a ha; omega
      simp [h1]

theorem combos_two_loop {l : List Nat} (hl : l.Pairwise (· < ·)) :
    combos l 2 = l.flatMap (fun a => (l.filter (fun b => decide (a < b))).map (fun b => [a, b])) := by
  rw [combos_succ_of_sorted hl]
  simp only [Fam.combos_singletons, List.map_map, Function.comp_def]

theorem combos_three_loop {l : List Nat} (hl : l.Pairwise (· < ·)) :
    combos l 3 = l.flatMap (fun a => l.flatMap (fun b =>
      (l.filter (fun c => decide (a < b) && decide (b < c))).map (fun c => [a, b, c]))) := by
  rw [combos_succ_of_sorted hl]
  apply List.flatMap_congr
  intro a _
  rw [combos_two_loop (hl.filter _), flatMap_filter_eq, List.map_flatMap]
  apply List.flatMap_congr
  intro b _
  by_cases hab : a < b
  · simp only [hab, decide_true, if_true, List.filter_filter, List.map_map, Function.comp_def,
      Bool.true_and]
    congr 1
    apply List.filter_congr
    intro c _
    by_cases hbc : b < c
    · have : a < c := by omega
      simp [hbc, this]
    · simp [hbc]
  · simp [hab]

/-! ### the enumerations of `Fam/Ordering.lean` -/

theorem rangeN_eq_verts (n : Nat) : rangeN 1 (n + 1) = verts n := by
  simp [rangeN, verts]

theorem verts_sorted (n : Nat) : (verts n).Pairwise (· < ·) := by
  rw [← rangeN_eq_verts]; exact rangeN_sorted _ _

theorem verts_nodup (n : Nat) : (verts n).Nodup := by
  rw [← rangeN_eq_verts]; exact rangeN_nodup _ _

theorem combosSeqs_two_eq (n : Nat) : combosSeqs n 2 = (comb2 n).map (fun p => [p.1, p.2]) := by
  rw [combosSeqs, rangeN_eq_verts, combos_two_loop (verts_sorted n), comb2]
  simp only [List.map_flatMap, List.map_map, Function.comp_def]

theorem combosSeqs_three_eq (n : Nat) :
    combosSeqs n 3 = (comb3 n).map (fun t => [t.1, t.2.1, t.2.2]) := by
  rw [combosSeqs, rangeN_eq_verts, combos_three_loop (verts_sorted n), comb3]
  simp only [List.map_flatMap, List.map_map, Function.comp_def]

theorem permsSeqs_three_eq (n : Nat) :
    permsSeqs n 3 = (perm3 n).map (fun t => [t.1, t.2.1, t.2.2]) := by
  rw [permsSeqs, rangeN_eq_verts, permsK_three_of_nodup (verts_nodup n), perm3]
  simp only [List.map_flatMap, List.map_map, Function.comp_def]

/-- `permutations(range(1,n+1), 2)` as a nested loop -/
theorem permsSeqs_two_eq (n : Nat) :
    permsSeqs n 2 = (verts n).flatMap (fun a => ((verts n).filter (· != a)).map (fun b => [a, b])) := by
  rw [permsSeqs, rangeN_eq_verts, permsK_two_of_nodup (verts_nodup n)]

/-! ### identifiers are 1-based positions -/

/-- a strictly increasing list of naturals that fits in `[a, a + length)` is `range' a length` -/
theorem eq_range'_of_sorted {m : List Nat} (a : Nat) (hs : m.Pairwise (· < ·))
    (hr : ∀ x ∈ m, a ≤ x ∧ x < a + m.length) : m = List.range' a m.length :=
  (sublist_range'_of_sorted m a m.length hs hr).eq_of_length (by simp)

/-- a strictly increasing numbering of a list with values in `[1, length]` is the 1-based position -/
theorem idxOf_of_strictMono {α : Type} [BEq α] [LawfulBEq α] (l : List α) (f : α → Nat)
    (hs : (l.map f).Pairwise (· < ·)) (hr : ∀ x ∈ l, 1 ≤ f x ∧ f x ≤ l.length) {x : α} (hx : x ∈ l) :
    1 + l.idxOf x = f x := by
  have h := eq_range'_of_sorted (m := l.map f) 1 hs (by
    intro y hy
    obtain ⟨x, hx, rfl⟩ := List.mem_map.mp hy
    have := hr x hx
    simp only [List.length_map]; omega)
  have hi : l.idxOf x < l.length := List.idxOf_lt_length_of_mem hx
  have h2 : (l.map f)[l.idxOf x]? = (List.range' 1 (l.map f).length)[l.idxOf x]? := by rw [← h]
  simp only [List.length_map, List.getElem?_range', hi, List.getElem?_eq_getElem,
    List.getElem_map, List.getElem_idxOf, Option.some.injEq] at h2
  omega

theorem mem_permsSeqs_two {n u v : Nat} :
    [u, v] ∈ permsSeqs n 2 ↔ (1 ≤ u ∧ u ≤ n) ∧ (1 ≤ v ∧ v ≤ n) ∧ u ≠ v := by
  rw [mem_permsSeqs]
  simp only [List.length_cons, List.length_nil, List.nodup_cons, List.mem_cons, List.not_mem_nil,
    or_false, not_false_eq_true, List.nodup_nil, and_true, true_and, forall_eq_or_imp, forall_eq]
  constructor
  · rintro ⟨h, hu, hv⟩; exact ⟨hu, hv, h⟩
  · rintro ⟨hu, hv, h⟩; exact ⟨h, hu, hv⟩

theorem length_permsK_two {α : Type} (l : List α) :
    (permsK 2 l).length = l.length * (l.length - 1) := by
  rw [permsK_succ, List.length_flatMap]
  have : (picks l).map (fun p => ((permsK 1 p.2).map (p.1 :: ·)).length)
      = (picks l).map (fun _ => l.length - 1) := by
    apply List.map_congr_left
    intro p hp
    have := (picks_perm hp).length_eq
    simp only [List.length_cons] at this
    simp only [permsK_one, List.length_map]; omega
  rw [this]
  simp [length_picks]

theorem length_permsSeqs_two (n : Nat) : (permsSeqs n 2).length = n * (n - 1) := by
  rw [permsSeqs, length_permsK_two, length_rangeN]; simp

theorem permId_lt_same {n a b b' : Nat} (hb : 1 ≤ b) (hb'a : b' ≠ a) (h : b < b') :
    permId n a b < permId n a b' := by
  unfold permId; split <;> split <;> omega

/-- the identifiers `permId` increase strictly along `permutations(range(1,n+1), 2)` -/
theorem permIds_sorted (n : Nat) :
    ((permsSeqs n 2).map (fun w => permId n (w.getD 0 0) (w.getD 1 0))).Pairwise (· < ·) := by
  rw [permsSeqs_two_eq]
  simp only [List.map_flatMap, List.map_map, Function.comp_def, List.getD_cons_zero,
    List.getD_cons_succ]
  rw [List.pairwise_flatMap]
  constructor
  · intro a _
    rw [List.pairwise_map]
    apply List.Pairwise.imp_of_mem _ ((verts_sorted n).filter _)
    intro b b' hb hb' hlt
    simp only [List.mem_filter, mem_verts, bne_iff_ne, ne_eq] at hb hb'
    exact permId_lt_same hb.1.1 hb'.2 hlt
  · apply List.Pairwise.imp_of_mem _ (verts_sorted n)
    intro a a' ha ha' hlt x hx y hy
    simp only [List.mem_map, List.mem_filter, mem_verts, bne_iff_ne, ne_eq] at hx hy ha ha'
    obtain ⟨b, ⟨hb, hba⟩, rfl⟩ := hx
    obtain ⟨b', ⟨hb', hba'⟩, rfl⟩ := hy
    exact permId_lt_of_lt ha.1 hb.1 hb.2 (fun h => hba h.symm) hb'.1 (fun h => hba' h.symm) hlt ha.2

theorem permId_eq_idxOf {n u v : Nat} (hu : 1 ≤ u ∧ u ≤ n) (hv : 1 ≤ v ∧ v ≤ n) (h : u ≠ v) :
    1 + (permsSeqs n 2).idxOf [u, v] = permId n u v := by
  have := idxOf_of_strictMono (permsSeqs n 2) (fun w => permId n (w.getD 0 0) (w.getD 1 0))
    (permIds_sorted n) (by
      intro w hw
      rw [mem_permsSeqs] at hw
      obtain ⟨hl, hn, hr⟩ := hw
      match w, hl with
      | [a, b], _ =>
        have ha := hr a (by simp)
        have hb := hr b (by simp)
        have hab : a ≠ b := by simpa using hn
        rw [length_permsSeqs_two]
        exact ⟨permId_pos ha.1 hb.1 hab, permId_le ha.1 ha.2 hb.1 hb.2 hab⟩)
    (mem_permsSeqs_two.mpr ⟨hu, hv, h⟩)
  simpa using this

/-- the identifiers `combId` increase strictly along `combinations(range(1,n+1), 2)` -/
theorem combIds_sorted (n : Nat) :
    ((combosSeqs n 2).map (fun w => combId n (w.getD 0 0) (w.getD 1 0))).Pairwise (· < ·) := by
  rw [combosSeqs_two_eq, comb2]
  simp only [List.map_flatMap, List.map_map, Function.comp_def, List.getD_cons_zero,
    List.getD_cons_succ]
  rw [List.pairwise_flatMap]
  constructor
  · intro a _
    rw [List.pairwise_map]
    apply List.Pairwise.imp_of_mem _ ((verts_sorted n).filter _)
    intro b b' hb _ hlt
    simp only [List.mem_filter, mem_verts, decide_eq_true_eq] at hb
    unfold combId; omega
  · apply List.Pairwise.imp_of_mem _ (verts_sorted n)
    intro a a' ha _ hlt x hx y hy
    simp only [List.mem_map, List.mem_filter, mem_verts, decide_eq_true_eq] at hx hy ha
    obtain ⟨b, ⟨hb, hab⟩, rfl⟩ := hx
    obtain ⟨b', ⟨_, hab'⟩, rfl⟩ := hy
    exact combId_lt_of_lt ha.1 hab hb.2 hab' hlt

theorem combId_eq_idxOf {n u v : Nat} (hu : 1 ≤ u) (h : u < v) (hv : v ≤ n) :
    1 + (combosSeqs n 2).idxOf [u, v] = combId n u v := by
  have := idxOf_of_strictMono (combosSeqs n 2) (fun w => combId n (w.getD 0 0) (w.getD 1 0))
    (combIds_sorted n) (by
      intro w hw
      rw [mem_combosSeqs] at hw
      obtain ⟨hl, hs, hr⟩ := hw
      match w, hl with
      | [a, b], _ =>
        have ha := hr a (by simp)
        have hb := hr b (by simp)
        have hab : a < b := by simpa using hs
        have h2 := FamRamsey.two_mul_length_pairs n
        have h3 : (combosSeqs n 2).length = n * (n - 1) / 2 := by omega
        rw [h3]
        exact ⟨combId_pos hab, combId_le ha.1 hab hb.2⟩)
    (FamRamsey.mem_pairs.mpr ⟨hu, h, hv⟩)
  simpa using this

end Cnfgen.GenOrderIter
