/-
Lemmas for the text a successful run writes (CnfgenModel/Cli/Text.lean, Props/C18/Text.lean):
* a well-formed `Formula` renders to a well-formed CNF and to a pseudo-Boolean formula whose constraints are
  `GoodPBC` (relation `>=` / `=`, literals non-zero and within `nvars`) — the hypotheses of the text round trips;
* `evalCallF` is `evalCall` with the formula kept.
-/
import CnfgenModel.Cli.Text
import Lemmas.Outcome
import Lemmas.IOOpb
import Props.C10.Builders
namespace Cnfgen.Cli
open Cnfgen Cnfgen.Gen Cnfgen.IO

/-! ### renderings of a well-formed formula -/

theorem ctext_toCNF_wf (F : Formula) (h : F.WF) : F.toCNF.WF := by
  intro cl hcl l hl
  simp only [Formula.toCNF, List.mem_flatMap] at hcl
  obtain ⟨c, hc, hcl⟩ := hcl
  have hm := C10.constraint_mentions_only_given c cl hcl l hl
  simp only [C10.varsOf, List.mem_map] at hm
  obtain ⟨l', hl', he⟩ := hm
  have := h c hc l' hl'
  constructor
  · intro h0; subst h0; simp at he; exact this.1 he
  · show l.natAbs ≤ F.nvars
    rw [← he]; exact this.2

/-- `normTerms` keeps the literals up to sign -/
theorem ctext_normTerms_lits (Q : Int → Prop) (hneg : ∀ l, Q l → Q (-l)) (ts : List (Int × Int)) (v : Int)
    (h : ∀ t ∈ ts, Q t.2) : ∀ t ∈ (PB.normTerms ts v).1, Q t.2 := by
  induction ts generalizing v with
  | nil => simp [PB.normTerms]
  | cons t ts ih =>
    obtain ⟨c, l⟩ := t
    have hl : Q l := h (c, l) (by simp)
    have ih' := fun v => ih v (fun t ht => h t (by simp [ht]))
    unfold PB.normTerms
    by_cases hc : c < 0
    · simp only [hc, if_true]
      intro t ht
      rcases List.mem_cons.1 ht with rfl | ht
      · exact hneg l hl
      · exact ih' _ t ht
    · by_cases hz : c = 0
      · simp only [hc, if_false, hz, if_true]
        exact ih' _
      · simp only [hc, if_false, hz]
        intro t ht
        rcases List.mem_cons.1 ht with rfl | ht
        · exact hl
        · exact ih' _ t ht

def ctext_InRange (n : Nat) (l : Int) : Prop := l ≠ 0 ∧ l.natAbs ≤ n

theorem ctext_inRange_neg (n : Nat) (l : Int) (h : ctext_InRange n l) : ctext_InRange n (-l) := by
  unfold ctext_InRange at *
  constructor
  · omega
  · rw [Int.natAbs_neg]; exact h.2

theorem ctext_normalize_good (n : Nat) (c : PBC) (hop : c.op ≠ .ne) (h : ∀ t ∈ c.terms, ctext_InRange n t.2) :
    GoodPBC n (PB.normalize c) := by
  obtain ⟨ts, o, v⟩ := c
  have hm : ∀ t ∈ ts.map (fun t => (-t.1, t.2)), ctext_InRange n t.2 := by
    intro t ht; simp only [List.mem_map] at ht; obtain ⟨t', ht', rfl⟩ := ht; exact h t' ht'
  cases o with
  | le => exact ⟨Or.inl rfl, ctext_normTerms_lits _ (ctext_inRange_neg n) _ _ hm⟩
  | lt => exact ⟨Or.inl rfl, ctext_normTerms_lits _ (ctext_inRange_neg n) _ _ hm⟩
  | ge => exact ⟨Or.inl rfl, ctext_normTerms_lits _ (ctext_inRange_neg n) _ _ h⟩
  | gt => exact ⟨Or.inl rfl, ctext_normTerms_lits _ (ctext_inRange_neg n) _ _ h⟩
  | eq => exact ⟨Or.inr rfl, ctext_normTerms_lits _ (ctext_inRange_neg n) _ _ h⟩
  | ne => exact absurd rfl hop

theorem ctext_card_good (n : Nat) (ls : List Int) (o : Op) (k : Int) (ho : o ≠ .ne)
    (h : ∀ l ∈ ls, ctext_InRange n l) : GoodPBC n (PB.card ls o k) := by
  unfold PB.card
  apply ctext_normalize_good n _ ho
  intro t ht
  simp only [PB.unit, List.mem_map] at ht
  obtain ⟨l, hl, rfl⟩ := ht
  exact h l hl

theorem ctext_ofClause_good (n : Nat) (cl : Clause) (h : ∀ l ∈ cl, ctext_InRange n l) :
    GoodPBC n (PBC.ofClause cl) := by
  refine ⟨Or.inl rfl, ?_⟩
  intro t ht
  simp only [PBC.ofClause, List.mem_map] at ht
  obtain ⟨l, hl, rfl⟩ := ht
  exact h l hl

/-- the clauses of a constraint mention only its literals, up to sign -/
theorem ctext_con_clauses (n : Nat) (c : Con) (h : ∀ l ∈ c.lits, ctext_InRange n l) :
    ∀ cl ∈ c.toCNF, ∀ l ∈ cl, ctext_InRange n l := by
  intro cl hcl l hl
  have hm := C10.constraint_mentions_only_given c cl hcl l hl
  simp only [C10.varsOf, List.mem_map] at hm
  obtain ⟨l', hl', he⟩ := hm
  have := h l' hl'
  unfold ctext_InRange at *
  constructor
  · intro h0; subst h0; simp at he; exact this.1 he
  · rw [← he]; exact this.2

theorem ctext_con_good (n : Nat) (c : Con) (h : ∀ l ∈ c.lits, ctext_InRange n l) :
    ∀ p ∈ c.toOPB, GoodPBC n p := by
  intro p hp
  cases c with
  | clause cl =>
    simp only [Con.toOPB, List.mem_singleton] at hp
    subst hp
    exact ctext_ofClause_good n cl h
  | lin ls o k =>
    simp only [Con.toOPB] at hp
    cases o
    case ne =>
      simp only [PB.add, List.mem_map] at hp
      obtain ⟨cl, hcl, rfl⟩ := hp
      exact ctext_ofClause_good n cl (ctext_con_clauses n (.lin ls .ne k) h cl (by simpa [Con.toCNF, Linear.add] using hcl))
    all_goals
      simp only [PB.add, List.mem_singleton] at hp
      subst hp
      exact ctext_card_good n ls _ k (by simp) h
  | parity ls b =>
    simp only [Con.toOPB, PB.parity, List.mem_map] at hp
    obtain ⟨cl, hcl, rfl⟩ := hp
    exact ctext_ofClause_good n cl (ctext_con_clauses n (.parity ls b) h cl (by simpa [Con.toCNF] using hcl))
  | maj kind ls =>
    cases kind <;>
      simp only [Con.toOPB, PB.looseMajority, PB.looseMinority, PB.strictMajority, PB.strictMinority,
        List.mem_singleton] at hp <;> subst hp <;> exact ctext_card_good n ls _ _ (by simp) h

theorem ctext_toOPB_good (F : Formula) (h : F.WF) : ∀ p ∈ F.toOPB.constraints, GoodPBC F.toOPB.nvars p := by
  intro p hp
  simp only [Formula.toOPB, List.mem_flatMap] at hp
  obtain ⟨c, hc, hp⟩ := hp
  exact ctext_con_good F.nvars c (fun l hl => h c hc l hl) p hp

/-! ### `evalCallF` is `evalCall` with the formula kept -/

theorem ctext_pitfall_forget (v d ny nz k : Int) (g : SimpleG) :
    forget (Fam.Pitfall.pitfall v d ny nz k g) = Fam.Pitfall.check v d ny nz k := by
  unfold Fam.Pitfall.pitfall forget
  cases h : Fam.Pitfall.check v d ny nz k with
  | error e => simp [bind, Except.bind, Except.map]
  | ok u => cases u; simp [bind, Except.bind, Except.map, pure, Except.pure]

theorem ctext_evalCall_of_F (g : SimpleG) (c : Call) :
    evalCall c = (evalCallF g c).map forget := by
  obtain ⟨fn, pos, kw⟩ := c
  unfold evalCall evalCallF
  simp only
  by_cases h1 : (fn == "PigeonholePrinciple") = true
  · simp only [h1, if_true]; split <;> simp_all
  simp only [h1, Bool.false_eq_true, if_false]
  by_cases h2 : (fn == "BinaryPigeonholePrinciple") = true
  · simp only [h2, if_true]; split <;> simp_all
  simp only [h2, Bool.false_eq_true, if_false]
  by_cases h3 : (fn == "RelativizedPigeonholePrinciple") = true
  · simp only [h3, if_true]; split <;> simp_all
  simp only [h3, Bool.false_eq_true, if_false]
  by_cases h4 : (fn == "CountingPrinciple") = true
  · simp only [h4, if_true]; split <;> simp_all
  simp only [h4, Bool.false_eq_true, if_false]
  by_cases h5 : (fn == "CliqueColoring") = true
  · simp only [h5, if_true]; split <;> simp_all
  simp only [h5, Bool.false_eq_true, if_false]
  by_cases h6 : (fn == "OrderingPrinciple") = true
  · simp only [h6, if_true]; split <;> simp_all
  simp only [h6, Bool.false_eq_true, if_false]
  by_cases h7 : (fn == "PythagoreanTriples") = true
  · simp only [h7, if_true]; split <;> simp_all
  simp only [h7, Bool.false_eq_true, if_false]
  by_cases h8 : (fn == "RamseyNumber") = true
  · simp only [h8, if_true]; split <;> simp_all
  simp only [h8, Bool.false_eq_true, if_false]
  by_cases h9 : (fn == "VanDerWaerden") = true
  · simp only [h9, if_true]; split <;> simp_all
  simp only [h9, Bool.false_eq_true, if_false]
  by_cases h10 : (fn == "CPLSFormula") = true
  · simp only [h10, if_true]; split <;> simp_all
  simp only [h10, Bool.false_eq_true, if_false]
  by_cases h11 : (fn == "PitfallFormula") = true
  · simp only [h11, if_true]; split <;> simp_all [ctext_pitfall_forget]
  simp only [h11, Bool.false_eq_true, if_false]
  rfl

theorem ctext_evalCallF_some (g : SimpleG) (c : Call) (u : Except Err Unit) (h : evalCall c = some u) :
    ∃ r, evalCallF g c = some r ∧ forget r = u := by
  rw [ctext_evalCall_of_F g c] at h
  cases hr : evalCallF g c with
  | none => rw [hr] at h; cases h
  | some r => rw [hr] at h; simp only [Option.map_some, Option.some.injEq] at h; exact ⟨r, rfl, h⟩

end Cnfgen.Cli
