/-
RelativizedPigeonholePrinciple: meaning of the clause shapes 3.1c–3.1e, the witness assignment.
-/
import Lemmas.C01Pigeon
import CnfgenModel.Fam.Php
namespace Cnfgen.Fam
open Cnfgen

/-- the variable `r_v` -/
def rphpRVar (m r n v : Nat) : Nat := 1 + m * r + r * n + (v - 1)

theorem rphpR_eq (m r n v : Nat) : rphpR m r n v = ((rphpRVar m r n v : Nat) : Int) := by
  simp [rphpR, rphpRVar, Vars.blockId, Vars.weights]

theorem rphpRVar_pos (m r n v : Nat) : 0 < rphpRVar m r n v := by simp only [rphpRVar]; omega

theorem clause_two (α : Assign) (a b : Int) :
    clauseHolds α [a, b] = (litHolds α a || litHolds α b) := by simp [clauseHolds]

theorem clause_four (α : Assign) (a b c d : Int) :
    clauseHolds α [a, b, c, d] = (litHolds α a || litHolds α b || litHolds α c || litHolds α d) := by
  simp [clauseHolds, Bool.or_assoc]

/-- 3.1c -/
theorem rphp_c_holds (α : Assign) (p : UMap) (m r n u v : Nat) :
    clauseHolds α [-(p.lit u v), rphpR m r n v] = true ↔
      (α (p.var u v) = true → α (rphpRVar m r n v) = true) := by
  rw [clause_two, rphpR_eq, litHolds_natCast α (rphpRVar_pos m r n v)]
  simp only [UMap.lit, litHolds_neg_natCast]
  cases α (p.var u v) <;> simp

/-- 3.1d -/
theorem rphp_d_holds (α : Assign) (q : UMap) (hq : 0 < q.start) (m r n v : Nat) :
    clauseHolds α (-(rphpR m r n v) :: q.row v) = true ↔
      (α (rphpRVar m r n v) = true → ∃ w, 1 ≤ w ∧ w ≤ q.rng ∧ α (q.var v w) = true) := by
  rw [clauseHolds_cons, rphpR_eq, litHolds_neg_natCast, Bool.or_eq_true, q.clause_row hq]
  cases α (rphpRVar m r n v) <;> simp

/-- 3.1e -/
theorem rphp_e_holds (α : Assign) (q : UMap) (m r n v₁ v₂ w : Nat) :
    clauseHolds α [-(rphpR m r n v₁), -(rphpR m r n v₂), -(q.lit v₁ w), -(q.lit v₂ w)] = true ↔
      ¬ (α (rphpRVar m r n v₁) = true ∧ α (rphpRVar m r n v₂) = true ∧
         α (q.var v₁ w) = true ∧ α (q.var v₂ w) = true) := by
  rw [clause_four, rphpR_eq, rphpR_eq]
  simp only [UMap.lit, litHolds_neg_natCast]
  cases α (rphpRVar m r n v₁) <;> cases α (rphpRVar m r n v₂) <;>
    cases α (q.var v₁ w) <;> cases α (q.var v₂ w) <;> simp

theorem rphpR_wf (m r n v : Nat) (hv : v ∈ idx r) :
    rphpR m r n v ≠ 0 ∧ (rphpR m r n v).natAbs ≤ m * r + r * n + r ∧
    -(rphpR m r n v) ≠ 0 ∧ (-(rphpR m r n v)).natAbs ≤ m * r + r * n + r := by
  rw [mem_idx] at hv
  rw [rphpR_eq]; simp only [rphpRVar]; omega

end Cnfgen.Fam

namespace Cnfgen.Fam
open Cnfgen

/-- the assignment describing resting relation `P`, flying relation `Q` and active set `A` -/
def rphpAssign (m r n : Nat) (P Q : Nat → Nat → Bool) (A : Nat → Bool) : Assign := fun x =>
  if x < 1 + m * r then (UMap.mk 1 m r).assignOf P x
  else if x < 1 + m * r + r * n then (UMap.mk (1 + m * r) r n).assignOf Q x
  else A (x - (m * r + r * n))

theorem rphpAssign_p (m r n : Nat) (P Q : Nat → Nat → Bool) (A : Nat → Bool) {u v : Nat}
    (hu1 : 1 ≤ u) (hu : u ≤ m) (hv1 : 1 ≤ v) (hv : v ≤ r) :
    rphpAssign m r n P Q A (Vars.mapId 1 r u v) = P u v := by
  have hlt := (UMap.mk 1 m r).var_lt hu1 hu hv1 hv
  have := (UMap.mk 1 m r).assignOf_var P hu1 hv1 hv
  simp only [UMap.var] at hlt this
  simp only [rphpAssign, if_pos hlt, this]

theorem rphpAssign_q (m r n : Nat) (P Q : Nat → Nat → Bool) (A : Nat → Bool) {v w : Nat}
    (hv1 : 1 ≤ v) (hv : v ≤ r) (hw1 : 1 ≤ w) (hw : w ≤ n) :
    rphpAssign m r n P Q A (Vars.mapId (1 + m * r) n v w) = Q v w := by
  have hlt := (UMap.mk (1 + m * r) r n).var_lt hv1 hv hw1 hw
  have hge := (UMap.mk (1 + m * r) r n).var_ge v w
  have := (UMap.mk (1 + m * r) r n).assignOf_var Q hv1 hw1 hw
  simp only [UMap.var] at hlt hge this
  have h1 : ¬ Vars.mapId (1 + m * r) n v w < 1 + m * r := by omega
  simp only [rphpAssign, if_neg h1, if_pos hlt, this]

theorem rphpAssign_r (m r n : Nat) (P Q : Nat → Nat → Bool) (A : Nat → Bool) {v : Nat} (hv1 : 1 ≤ v) :
    rphpAssign m r n P Q A (1 + m * r + r * n + (v - 1)) = A v := by
  have h1 : ¬ 1 + m * r + r * n + (v - 1) < 1 + m * r := by omega
  have h2 : ¬ 1 + m * r + r * n + (v - 1) < 1 + m * r + r * n := by omega
  have h3 : 1 + m * r + r * n + (v - 1) - (m * r + r * n) = v := by omega
  simp only [rphpAssign, if_neg h1, if_neg h2, h3]

end Cnfgen.Fam
