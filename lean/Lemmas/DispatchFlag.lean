/-
Lemmas about `Cnfgen.Cli.dispatchTemplate` (CnfgenModel/Cli/Dispatch.lean): a flag put in front of a command
line adds one binding and changes nothing else.
-/
import CnfgenModel.Cli.DispatchChecks
namespace Cnfgen.Cli
open Cnfgen.Gen

/-- the shape of a flag: one of the three constant-storing actions, not positional -/
theorem dflag_arity_zero_shape (o : OptSpec) (h : o.arity = .zero) :
    (o.action = "store_true" ∨ o.action = "store_false" ∨ o.action = "store_const") ∧
      o.positional = false := by
  unfold OptSpec.arity at h
  split at h
  · rename_i hc
    simp only [Bool.or_eq_true, beq_iff_eq] at hc
    split at h
    · rename_i hc2
      simp only [Bool.and_eq_true, Bool.not_eq_true'] at hc2
      exact ⟨by rcases hc with (hc | hc) | hc <;> simp [hc], hc2.2⟩
    · simp at h
  · exfalso
    repeat' split at h
    all_goals simp at h

theorem dflag_arity_zero_action (o : OptSpec) (h : o.arity = .zero) :
    (o.action == "PHPArgs") = false := by
  rcases (dflag_arity_zero_shape o h).1 with hc | hc | hc <;> simp [hc]

theorem dflag_arity_zero_action_compose (o : OptSpec) (h : o.arity = .zero) :
    (o.action == "compose_two_parsers") = false := by
  rcases (dflag_arity_zero_shape o h).1 with hc | hc | hc <;> simp [hc]

theorem dflag_bindOne (o : OptSpec) (h : o.arity = .zero) : bindOne o [] = .ok [(o.dest, o.flagVal)] := by
  unfold bindOne
  simp [dflag_arity_zero_action o h, dflag_arity_zero_action_compose o h, h]

theorem dflag_consumeOpt (o : OptSpec) (h : o.arity = .zero) (chunk : List String) :
    consumeOpt o chunk = .ok ([(o.dest, o.flagVal)], chunk) := by
  unfold consumeOpt
  simp [h, dflag_bindOne o h, Except.map]

theorem dflag_optOf_mem (s : CliSpec) (f : String) (o : OptSpec) (h : optOf s f = some o) :
    o ∈ s.opts ∧ o.positional = false := by
  unfold optOf at h
  refine ⟨List.mem_of_find?_eq_some h, ?_⟩
  have := List.find?_some h
  simp only [Bool.and_eq_true, Bool.not_eq_true'] at this
  exact this.1

theorem dflag_segments_cons (s : CliSpec) (f : String) (o : OptSpec) (argv : List String)
    (hres : optOf s f = some o) :
    segments s (f :: argv) =
      match segments s argv with
      | .error e => .error e
      | .ok (c, segs) => .ok ([], (o, c) :: segs) := by
  simp only [segments, classify, hres]
  cases segments s argv with
  | error e => rfl
  | ok p => rfl

theorem dflag_any_append (b : Ns) (x : String × Val) (k : String) (hk : (x.1 == k) = false) :
    (b ++ [x]).any (fun p => p.1 == k) = b.any (fun p => p.1 == k) := by
  simp [List.any_append, hk]

theorem dflag_all_congr {α : Type} (l : List α) (p q : α → Bool) (h : ∀ x ∈ l, p x = q x) :
    l.all p = l.all q := by
  induction l with
  | nil => rfl
  | cons a rest ih =>
    simp only [List.all_cons]
    rw [h a (List.mem_cons_self ..), ih (fun x hx => h x (List.mem_cons_of_mem _ hx))]

theorem dflag_requiredSeen (s : CliSpec) (o : OptSpec) (b : Ns) (hwf : specWF s = true) (ho : o ∈ s.opts)
    (hfl : isFlag o = true) :
    requiredSeen s (b ++ [(o.dest, o.flagVal)]) = requiredSeen s b := by
  unfold requiredSeen
  apply dflag_all_congr
  intro o' ho'
  unfold specWF at hwf
  simp only [Bool.and_eq_true] at hwf
  have h3 := hwf.1.2
  rw [List.all_eq_true] at h3
  have h3' := h3 o' ho'
  by_cases hp : o'.positional = true
  · simp [hp]
  · by_cases hr : o'.required = true
    · simp only [hr, Bool.not_true, Bool.false_or, hp, Bool.and_eq_true,
        Bool.not_eq_true'] at h3'
      have h4 := h3'.2
      rw [List.all_eq_true] at h4
      have h5 := h4 o (List.mem_filter.2 ⟨ho, hfl⟩)
      have hne : ((o.dest, o.flagVal).1 == o'.dest) = false := by
        simpa using h5
      rw [dflag_any_append b _ _ hne]
    · simp [hr]

/-! ### the mutually exclusive groups -/

/-- every option of a segment is the option of some token of the command line -/
theorem dflag_segments_mem (s : CliSpec) :
    ∀ (argv : List String) (c : List String) (segs : List (OptSpec × List String)),
      segments s argv = .ok (c, segs) → ∀ p ∈ segs, ∃ t ∈ argv, optOf s t = some p.1 := by
  intro argv
  induction argv with
  | nil =>
    intro c segs h p hp
    simp only [segments, Except.ok.injEq, Prod.mk.injEq] at h
    rw [← h.2] at hp
    exact absurd hp (List.not_mem_nil)
  | cons t rest ih =>
    intro c segs h p hp
    simp only [segments] at h
    cases hr : segments s rest with
    | error e => rw [hr] at h; exact absurd h (by simp)
    | ok q =>
      obtain ⟨c', segs'⟩ := q
      rw [hr] at h
      cases ho : optOf s t with
      | none =>
        by_cases hd : dashLike t = true
        · simp [classify, ho, hd] at h
        · simp only [classify, ho, hd, Bool.false_eq_true, if_false, Except.ok.injEq, Prod.mk.injEq] at h
          rw [← h.2] at hp
          obtain ⟨t', ht', hopt⟩ := ih c' segs' hr p hp
          exact ⟨t', List.mem_cons_of_mem _ ht', hopt⟩
      | some o' =>
        simp only [classify, ho, Except.ok.injEq, Prod.mk.injEq] at h
        rw [← h.2] at hp
        rcases List.mem_cons.1 hp with hp | hp
        · exact ⟨t, List.mem_cons_self .., by rw [ho, hp]⟩
        · obtain ⟨t', ht', hopt⟩ := ih c' segs' hr p hp
          exact ⟨t', List.mem_cons_of_mem _ ht', hopt⟩

theorem dflag_noRival (s : CliSpec) (o : OptSpec) (argv : List String) (hnr : noRival s o argv = true)
    (t : String) (ht : t ∈ argv) (o' : OptSpec) (ho' : optOf s t = some o') :
    o.group = "" ∨ o'.group ≠ o.group ∨ o' = o := by
  unfold noRival at hnr
  simp only [Bool.or_eq_true, beq_iff_eq, List.all_eq_true] at hnr
  rcases hnr with h | h
  · exact Or.inl h
  · have := h t ht
    rw [ho'] at this
    simp only [Bool.or_eq_true, bne_iff_ne, ne_eq, beq_iff_eq] at this
    exact Or.inr this

theorem dflag_mutexOK_cons (o : OptSpec) (c0 : List String) (segs : List (OptSpec × List String))
    (h : ∀ p ∈ segs, o.group = "" ∨ p.1.group ≠ o.group ∨ p.1 = o) :
    mutexOK ((o, c0) :: segs) = mutexOK segs := by
  rw [Bool.eq_iff_iff]
  simp only [mutexOK, List.all_cons, List.all_eq_true, Bool.and_eq_true, Bool.or_eq_true, beq_iff_eq,
    bne_iff_ne, ne_eq]
  constructor
  · intro hh p hp q hq
    exact (hh.2 p hp).2 q hq
  · intro hh
    refine ⟨⟨?_, ?_⟩, ?_⟩
    · exact Or.inr trivial
    · intro q hq
      rcases h q hq with h1 | h1 | h1
      · exact Or.inl (Or.inl h1)
      · exact Or.inl (Or.inr (fun e => h1 e.symm))
      · exact Or.inr h1.symm
    · intro p hp
      refine ⟨?_, hh p hp⟩
      rcases h p hp with h1 | h1 | h1
      · by_cases hg : p.1.group = ""
        · exact Or.inl (Or.inl hg)
        · exact Or.inl (Or.inr (by rw [h1]; exact hg))
      · exact Or.inl (Or.inr h1)
      · exact Or.inr h1

/-! ### `expand` and a binding that is not a token list -/

theorem dflag_expand_cons (s : CliSpec) (d : String) (v : Val) (rest : Ns) (hv : ∀ l, v ≠ .toks l) :
    expand s ((d, v) :: rest) =
      match expand s rest with
      | .error e => .error e
      | .ok more => .ok ((d, v) :: more) := by
  cases v with
  | toks l => exact absurd rfl (hv l)
  | _ => simp only [expand] <;> cases expand s rest <;> rfl

theorem dflag_expand_append (s : CliSpec) (d : String) (v : Val) (hv : ∀ l, v ≠ .toks l) (b : Ns) :
    expand s (b ++ [(d, v)]) = (expand s b).map (fun b' => b' ++ [(d, v)]) := by
  induction b with
  | nil => simp [dflag_expand_cons s d v [] hv, expand, Except.map]
  | cons p rest ih =>
    obtain ⟨d', v'⟩ := p
    by_cases hv' : ∃ l, v' = .toks l
    · obtain ⟨l, rfl⟩ := hv'
      simp only [List.cons_append, expand, ih]
      cases composeOpt s d' with
      | none => simp [Except.map]
      | some o' =>
        cases hcp : composeParse s o' l with
        | error e => simp [hcp, Except.map]
        | ok inner =>
          cases expand s rest with
          | error e => simp [hcp, Except.map]
          | ok more => simp [hcp, Except.map]
    · have hv'' : ∀ l, v' ≠ .toks l := fun l e => hv' ⟨l, e⟩
      rw [List.cons_append, dflag_expand_cons s d' v' _ hv'', dflag_expand_cons s d' v' _ hv'', ih]
      cases expand s rest with
      | error e => simp [Except.map]
      | ok more => simp [Except.map]

theorem dflag_constVal_not_toks (e : Expr) (l : List String) : constVal e ≠ .toks l := by
  cases e <;> simp [constVal]

theorem dflag_flagVal_not_toks (o : OptSpec) (l : List String) : o.flagVal ≠ .toks l := by
  unfold OptSpec.flagVal
  split
  · simp
  · split
    · simp
    · exact dflag_constVal_not_toks _ l

/-- a flag in front of the command line, before `expand` -/
theorem dflag_parseRaw_flag_cons (s : CliSpec) (o : OptSpec) (f : String) (argv : List String)
    (hwf : specWF s = true) (hfl : isFlag o = true) (hres : optOf s f = some o)
    (hnr : noRival s o argv = true) :
    parseRaw s (f :: argv) = (parseRaw s argv).map (fun b => b ++ [(o.dest, o.flagVal)]) := by
  have hz : o.arity = .zero := by simpa [isFlag] using hfl
  have ho := (dflag_optOf_mem s f o hres).1
  unfold parseRaw
  rw [dflag_segments_cons s f o argv hres]
  cases hseg : segments s argv with
  | error e => simp [Except.map]
  | ok p =>
    obtain ⟨c0, segs⟩ := p
    have hmx : mutexOK ((o, c0) :: segs) = mutexOK segs := by
      apply dflag_mutexOK_cons
      intro p hp
      obtain ⟨t, ht, hopt⟩ := dflag_segments_mem s argv c0 segs hseg p hp
      exact dflag_noRival s o argv hnr t ht p.1 hopt
    simp only [hmx]
    by_cases hm : mutexOK segs = true
    · simp only [hm, Bool.not_true, Bool.false_eq_true, if_false]
      simp only [consumePos, List.isEmpty_nil, List.isEmpty_cons, Bool.not_false, Bool.and_self, if_true,
        parseSegs, dflag_consumeOpt o hz]
      cases hcp : consumePos (positionals s) c0 segs.isEmpty with
      | error e => simp [consumePos] at hcp ⊢; simp [hcp, Except.map]
      | ok q =>
        obtain ⟨ps', bs⟩ := q
        simp only [consumePos] at hcp
        simp only [hcp]
        cases hps : parseSegs ps' segs with
        | error e => simp [Except.map]
        | ok more =>
          simp only [List.append_nil, List.append_assoc]
          have := dflag_requiredSeen s o (more ++ bs) hwf ho hfl
          simp only [List.append_assoc] at this
          rw [this]
          by_cases hr : requiredSeen s (more ++ bs) = true
          · simp [hr, Except.map]
          · simp [hr, Except.map]
    · simp [hm, Except.map]

/-- a flag in front of the command line: the same parse, with one more (earliest) binding -/
theorem parseArgs_flag_cons (s : CliSpec) (o : OptSpec) (f : String) (argv : List String)
    (hwf : specWF s = true) (hfl : isFlag o = true) (hres : optOf s f = some o)
    (hnr : noRival s o argv = true) :
    parseArgs s (f :: argv) = (parseArgs s argv).map (fun b => b ++ [(o.dest, o.flagVal)]) := by
  unfold parseArgs
  rw [dflag_parseRaw_flag_cons s o f argv hwf hfl hres hnr]
  cases parseRaw s argv with
  | error e => simp [Except.map]
  | ok b =>
    simp only [Except.map]
    exact dflag_expand_append s o.dest o.flagVal (dflag_flagVal_not_toks o) b

/-! ### frame: evaluation does not depend on options it does not mention -/

theorem dflag_lookup_append (k : String) (l1 l2 : Ns) :
    (l1 ++ l2).lookup k = match l1.lookup k with | some v => some v | none => l2.lookup k := by
  induction l1 with
  | nil => simp [List.lookup]
  | cons p rest ih =>
    obtain ⟨k', v⟩ := p
    simp only [List.cons_append, List.lookup]
    cases hk : k == k' <;> simp [ih]

theorem dflag_lookup_insert (k d : String) (v : Val) (b dflt : Ns) (hk : k ≠ d) :
    ((b ++ [(d, v)]) ++ dflt).lookup k = (b ++ dflt).lookup k := by
  rw [List.append_assoc, dflag_lookup_append, dflag_lookup_append k b dflt]
  cases b.lookup k with
  | some x => rfl
  | none =>
    have : (k == d) = false := by simpa using hk
    simp [List.lookup, this]

theorem evalE_frame (ns ns' : Ns) (d : String) (h : ∀ k, k ≠ d → ns.lookup k = ns'.lookup k) :
    ∀ e : Expr, d ∉ e.deps → evalE ns e = evalE ns' e := by
  intro e
  induction e with
  | arg k => intro hd; simp only [Expr.deps, List.mem_singleton] at hd; simp [evalE, h k (Ne.symm hd)]
  | hasattr k => intro hd; simp only [Expr.deps, List.mem_singleton] at hd; simp [evalE, h k (Ne.symm hd)]
  | getattr k e ih =>
    intro hd
    simp only [Expr.deps, List.mem_cons, not_or] at hd
    simp [evalE, h k (Ne.symm hd.1), ih hd.2]
  | none => intro _; rfl
  | bool b => intro _; rfl
  | int i => intro _; rfl
  | str s => intro _; rfl
  | name n => intro _; rfl
  | not e ih => intro hd; simp only [Expr.deps] at hd; simp [evalE, ih hd]
  | and a b iha ihb =>
    intro hd
    simp only [Expr.deps, List.mem_append, not_or] at hd
    simp [evalE, iha hd.1, ihb hd.2]
  | or a b iha ihb =>
    intro hd
    simp only [Expr.deps, List.mem_append, not_or] at hd
    simp [evalE, iha hd.1, ihb hd.2]
  | isNone e ih => intro hd; simp only [Expr.deps] at hd; simp [evalE, ih hd]
  | isNotNone e ih => intro hd; simp only [Expr.deps] at hd; simp [evalE, ih hd]
  | cmp op a b iha ihb =>
    intro hd
    simp only [Expr.deps, List.mem_append, not_or] at hd
    simp [evalE, iha hd.1, ihb hd.2]
  | ite c t e ihc iht ihe =>
    intro hd
    simp only [Expr.deps, List.mem_append, not_or] at hd
    simp [evalE, ihc hd.1.1, iht hd.1.2, ihe hd.2]
  | star e ih => intro hd; simp only [Expr.deps] at hd; simp [evalE, ih hd]
  | binop op a b iha ihb =>
    intro hd
    simp only [Expr.deps, List.mem_append, not_or] at hd
    simp [evalE, iha hd.1, ihb hd.2]
  | order g ih => intro hd; simp only [Expr.deps] at hd; simp [evalE, ih hd]
  | nil => intro _; rfl
  | cons a b iha ihb =>
    intro hd
    simp only [Expr.deps, List.mem_append, not_or] at hd
    simp [evalE, iha hd.1, ihb hd.2]
  | mkgraph k sp ih => intro hd; simp only [Expr.deps] at hd; simp [evalE, ih hd]
  | «opaque» src ds => intro _; rfl

theorem selectTemplate_frame (ns ns' : Ns) (d : String) (h : ∀ k, k ≠ d → ns.lookup k = ns'.lookup k)
    (ts : List CallTemplate) (hts : ∀ t ∈ ts, d ∉ t.guard.deps) :
    selectTemplate ns ts = selectTemplate ns' ts := by
  induction ts with
  | nil => rfl
  | cons t rest ih =>
    have ht := hts t (List.mem_cons_self ..)
    have hr := ih (fun t' ht' => hts t' (List.mem_cons_of_mem _ ht'))
    simp only [selectTemplate, evalGuard, evalE_frame ns ns' d h t.guard ht, hr]

theorem dflag_guardDeps (s : CliSpec) (d : String) (h : (guardDeps s).contains d = false) :
    ∀ t ∈ s.templates, d ∉ t.guard.deps := by
  intro t ht hd
  have : d ∈ guardDeps s := by
    unfold guardDeps
    exact List.mem_flatMap.2 ⟨t, ht, hd⟩
  have h' : (guardDeps s).contains d = true := by simpa using this
  rw [h] at h'
  exact Bool.noConfusion h'

/-- (a) a flag that no guard tests, put in front of a command line: the parser fails iff it failed without
it, otherwise the helper takes the SAME path (same template: same generator), in a namespace that evaluates
every expression not mentioning the flag's dest to the same value -/
theorem flag_noninterference_lemma (s : CliSpec) (o : OptSpec) (f : String) (argv : List String)
    (hwf : specWF s = true) (hfl : isFlag o = true) (hres : optOf s f = some o)
    (hnr : noRival s o argv = true)
    (hng : (guardDeps s).contains o.dest = false) :
    match dispatchTemplate s argv with
    | .error e => dispatchTemplate s (f :: argv) = .error e
    | .ok (t, ns) =>
      ∃ ns', dispatchTemplate s (f :: argv) = .ok (t, ns') ∧
        ∀ e : Expr, o.dest ∉ e.deps → evalE ns' e = evalE ns e := by
  unfold dispatchTemplate
  by_cases hsup : s.supported = true
  · simp only [hsup, Bool.not_true, Bool.false_eq_true, if_false]
    rw [parseArgs_flag_cons s o f argv hwf hfl hres hnr]
    cases hp : parseArgs s argv with
    | error e => simp [Except.map]
    | ok b =>
      simp only [Except.map, namespaceOf]
      have hag : ∀ k, k ≠ o.dest →
          ((b ++ [(o.dest, o.flagVal)]) ++ defaults s).lookup k = (b ++ defaults s).lookup k :=
        fun k hk => dflag_lookup_insert k o.dest o.flagVal b (defaults s) hk
      rw [selectTemplate_frame _ _ o.dest hag s.templates (dflag_guardDeps s o.dest hng)]
      cases hsel : selectTemplate (b ++ defaults s) s.templates with
      | error e => simp
      | ok t =>
        refine ⟨_, rfl, ?_⟩
        intro e he
        exact evalE_frame _ _ o.dest hag e he
  · simp [hsup]

theorem selectTemplate_mem (ns : Ns) (ts : List CallTemplate) (t : CallTemplate)
    (h : selectTemplate ns ts = .ok t) : t ∈ ts := by
  induction ts with
  | nil => simp [selectTemplate] at h
  | cons a rest ih =>
    simp only [selectTemplate] at h
    split at h
    · exact absurd h (by simp)
    · simp only [Except.ok.injEq] at h; subst h; exact List.mem_cons_self ..
    · exact List.mem_cons_of_mem _ (ih h)

theorem dispatchTemplate_mem (s : CliSpec) (argv : List String) (t : CallTemplate) (ns : Ns)
    (h : dispatchTemplate s argv = .ok (t, ns)) : t ∈ s.templates := by
  unfold dispatchTemplate at h
  split at h
  · exact absurd h (by simp)
  · split at h
    · exact absurd h (by simp)
    · split at h
      · exact absurd h (by simp)
      · rename_i t' hsel
        simp only [Except.ok.injEq, Prod.mk.injEq] at h
        rw [← h.1]
        exact selectTemplate_mem _ _ _ hsel

/-- any flag (also one that guards test) put in front of a command line: when both command lines are
accepted, the two namespaces evaluate every expression not mentioning the flag's dest to the same value -/
theorem flag_namespace_frame (s : CliSpec) (o : OptSpec) (f : String) (argv : List String)
    (hwf : specWF s = true) (hfl : isFlag o = true) (hres : optOf s f = some o)
    (hnr : noRival s o argv = true)
    (t t' : CallTemplate) (ns ns' : Ns)
    (h : dispatchTemplate s argv = .ok (t, ns)) (h' : dispatchTemplate s (f :: argv) = .ok (t', ns')) :
    ∀ e : Expr, o.dest ∉ e.deps → evalE ns' e = evalE ns e := by
  unfold dispatchTemplate at h h'
  by_cases hsup : s.supported = true
  · simp only [hsup, Bool.not_true, Bool.false_eq_true, if_false] at h h'
    rw [parseArgs_flag_cons s o f argv hwf hfl hres hnr] at h'
    cases hp : parseArgs s argv with
    | error e => simp [hp] at h
    | ok b =>
      simp only [hp, Except.map, namespaceOf] at h h'
      have hag : ∀ k, k ≠ o.dest →
          ((b ++ [(o.dest, o.flagVal)]) ++ defaults s).lookup k = (b ++ defaults s).lookup k :=
        fun k hk => dflag_lookup_insert k o.dest o.flagVal b (defaults s) hk
      split at h
      · exact absurd h (by simp)
      · split at h'
        · exact absurd h' (by simp)
        · simp only [Except.ok.injEq, Prod.mk.injEq] at h h'
          rw [← h.2, ← h'.2]
          intro e he
          exact evalE_frame _ _ o.dest hag e he
  · simp [hsup] at h

/-- the parser's verdict does not depend on a flag in front -/
theorem flag_parse_verdict (s : CliSpec) (o : OptSpec) (f : String) (argv : List String)
    (hwf : specWF s = true) (hfl : isFlag o = true) (hres : optOf s f = some o)
    (hnr : noRival s o argv = true) (e : CliErr) :
    parseArgs s (f :: argv) = .error e ↔ parseArgs s argv = .error e := by
  rw [parseArgs_flag_cons s o f argv hwf hfl hres hnr]
  cases parseArgs s argv <;> simp [Except.map]

theorem dflag_zero_nonpositional (o : OptSpec) (h : isFlag o = true) : o.positional = false := by
  have hz : o.arity = .zero := by simpa [isFlag] using h
  exact (dflag_arity_zero_shape o hz).2

end Cnfgen.Cli
