/-
Lemmas about `Cnfgen.Cli.dispatchTemplate` (CnfgenModel/Cli/Dispatch.lean): a flag put in front of a command
line adds one binding and changes nothing else.
-/
import CnfgenModel.Cli.DispatchChecks
namespace Cnfgen.Cli
open Cnfgen.Gen

theorem dflag_arity_zero_action (o : OptSpec) (h : o.arity = .zero) :
    (o.action == "PHPArgs") = false := by
  unfold OptSpec.arity at h
  split at h
  · rename_i hc
    simp only [Bool.or_eq_true, beq_iff_eq] at hc
    rcases hc with (hc | hc) | hc <;> simp [hc]
  · split at h
    · split at h <;> simp at h
    · split at h
      · split at h
        · simp at h
        · split at h <;> simp at h
      · split at h <;> simp at h

theorem dflag_bindOne (o : OptSpec) (h : o.arity = .zero) : bindOne o [] = .ok [(o.dest, o.flagVal)] := by
  unfold bindOne
  simp [dflag_arity_zero_action o h, h]

theorem dflag_consumeOpt (o : OptSpec) (h : o.arity = .zero) (chunk : List String) :
    consumeOpt o chunk = .ok ([(o.dest, o.flagVal)], chunk) := by
  unfold consumeOpt
  simp [h, dflag_bindOne o h, Except.map]

theorem dflag_optOf_mem (s : CliSpec) (f : String) (o : OptSpec) (h : optOf s f = some o) :
    o ∈ s.opts ∧ o.positional = false := by
  unfold optOf at h
  refine ⟨List.mem_of_find?_eq_some h, ?_⟩
  have := List.find?_some h
  simp only [Bool.and_eq_true, Bool.not_eq_true'] at this
  exact this.1

theorem dflag_segments_cons (s : CliSpec) (f : String) (o : OptSpec) (argv : List String)
    (hres : optOf s f = some o) :
    segments s (f :: argv) =
      match segments s argv with
      | .error e => .error e
      | .ok (c, segs) => .ok ([], (o, c) :: segs) := by
  simp only [segments, classify, hres]
  cases segments s argv with
  | error e => rfl
  | ok p => rfl

theorem dflag_any_append (b : Ns) (x : String × Val) (k : String) (hk : (x.1 == k) = false) :
    (b ++ [x]).any (fun p => p.1 == k) = b.any (fun p => p.1 == k) := by
  simp [List.any_append, hk]

theorem dflag_all_congr {α : Type} (l : List α) (p q : α → Bool) (h : ∀ x ∈ l, p x = q x) :
    l.all p = l.all q := by
  induction l with
  | nil => rfl
  | cons a rest ih =>
    simp only [List.all_cons]
    rw [h a (List.mem_cons_self ..), ih (fun x hx => h x (List.mem_cons_of_mem _ hx))]

theorem dflag_requiredSeen (s : CliSpec) (o : OptSpec) (b : Ns) (hwf : specWF s = true) (ho : o ∈ s.opts)
    (hfl : isFlag o = true) :
    requiredSeen s (b ++ [(o.dest, o.flagVal)]) = requiredSeen s b := by
  unfold requiredSeen
  apply dflag_all_congr
  intro o' ho'
  unfold specWF at hwf
  simp only [Bool.and_eq_true] at hwf
  have h3 := hwf.1.2
  rw [List.all_eq_true] at h3
  have h3' := h3 o' ho'
  by_cases hp : o'.positional = true
  · simp [hp]
  · by_cases hr : o'.required = true
    · simp only [hr, Bool.not_true, Bool.false_or, hp, Bool.and_eq_true,
        Bool.not_eq_true'] at h3'
      have h4 := h3'.2
      rw [List.all_eq_true] at h4
      have h5 := h4 o (List.mem_filter.2 ⟨ho, hfl⟩)
      have hne : ((o.dest, o.flagVal).1 == o'.dest) = false := by
        simpa using h5
      rw [dflag_any_append b _ _ hne]
    · simp [hr]

/-- a flag in front of the command line: the same parse, with one more (earliest) binding -/
theorem parseArgs_flag_cons (s : CliSpec) (o : OptSpec) (f : String) (argv : List String)
    (hwf : specWF s = true) (hfl : isFlag o = true) (hres : optOf s f = some o) :
    parseArgs s (f :: argv) = (parseArgs s argv).map (fun b => b ++ [(o.dest, o.flagVal)]) := by
  have hz : o.arity = .zero := by simpa [isFlag] using hfl
  have ho := (dflag_optOf_mem s f o hres).1
  unfold parseArgs
  rw [dflag_segments_cons s f o argv hres]
  cases hseg : segments s argv with
  | error e => simp [Except.map]
  | ok p =>
    obtain ⟨c0, segs⟩ := p
    simp only [consumePos, List.isEmpty_nil, List.isEmpty_cons, Bool.not_false, Bool.and_self, if_true,
      parseSegs, dflag_consumeOpt o hz]
    cases hcp : consumePos (positionals s) c0 segs.isEmpty with
    | error e => simp [consumePos] at hcp ⊢; simp [hcp, Except.map]
    | ok q =>
      obtain ⟨ps', bs⟩ := q
      simp only [consumePos] at hcp
      simp only [hcp]
      cases hps : parseSegs ps' segs with
      | error e => simp [Except.map]
      | ok more =>
        simp only [List.append_nil, List.append_assoc]
        have := dflag_requiredSeen s o (more ++ bs) hwf ho hfl
        simp only [List.append_assoc] at this
        rw [this]
        by_cases hr : requiredSeen s (more ++ bs) = true
        · simp [hr, Except.map]
        · simp [hr, Except.map]

/-! ### frame: evaluation does not depend on options it does not mention -/

theorem dflag_lookup_append (k : String) (l1 l2 : Ns) :
    (l1 ++ l2).lookup k = match l1.lookup k with | some v => some v | none => l2.lookup k := by
  induction l1 with
  | nil => simp [List.lookup]
  | cons p rest ih =>
    obtain ⟨k', v⟩ := p
    simp only [List.cons_append, List.lookup]
    cases hk : k == k' <;> simp [ih]

theorem dflag_lookup_insert (k d : String) (v : Val) (b dflt : Ns) (hk : k ≠ d) :
    ((b ++ [(d, v)]) ++ dflt).lookup k = (b ++ dflt).lookup k := by
  rw [List.append_assoc, dflag_lookup_append, dflag_lookup_append k b dflt]
  cases b.lookup k with
  | some x => rfl
  | none =>
    have : (k == d) = false := by simpa using hk
    simp [List.lookup, this]

theorem evalE_frame (ns ns' : Ns) (d : String) (h : ∀ k, k ≠ d → ns.lookup k = ns'.lookup k) :
    ∀ e : Expr, d ∉ e.deps → evalE ns e = evalE ns' e := by
  intro e
  induction e with
  | arg k => intro hd; simp only [Expr.deps, List.mem_singleton] at hd; simp [evalE, h k (Ne.symm hd)]
  | hasattr k => intro hd; simp only [Expr.deps, List.mem_singleton] at hd; simp [evalE, h k (Ne.symm hd)]
  | getattr k e ih =>
    intro hd
    simp only [Expr.deps, List.mem_cons, not_or] at hd
    simp [evalE, h k (Ne.symm hd.1), ih hd.2]
  | none => intro _; rfl
  | bool b => intro _; rfl
  | int i => intro _; rfl
  | str s => intro _; rfl
  | name n => intro _; rfl
  | not e ih => intro hd; simp only [Expr.deps] at hd; simp [evalE, ih hd]
  | and a b iha ihb =>
    intro hd
    simp only [Expr.deps, List.mem_append, not_or] at hd
    simp [evalE, iha hd.1, ihb hd.2]
  | or a b iha ihb =>
    intro hd
    simp only [Expr.deps, List.mem_append, not_or] at hd
    simp [evalE, iha hd.1, ihb hd.2]
  | isNone e ih => intro hd; simp only [Expr.deps] at hd; simp [evalE, ih hd]
  | isNotNone e ih => intro hd; simp only [Expr.deps] at hd; simp [evalE, ih hd]
  | cmp op a b iha ihb =>
    intro hd
    simp only [Expr.deps, List.mem_append, not_or] at hd
    simp [evalE, iha hd.1, ihb hd.2]
  | ite c t e ihc iht ihe =>
    intro hd
    simp only [Expr.deps, List.mem_append, not_or] at hd
    simp [evalE, ihc hd.1.1, iht hd.1.2, ihe hd.2]
  | star e ih => intro hd; simp only [Expr.deps] at hd; simp [evalE, ih hd]
  | «opaque» src ds => intro _; rfl

theorem selectTemplate_frame (ns ns' : Ns) (d : String) (h : ∀ k, k ≠ d → ns.lookup k = ns'.lookup k)
    (ts : List CallTemplate) (hts : ∀ t ∈ ts, d ∉ t.guard.deps) :
    selectTemplate ns ts = selectTemplate ns' ts := by
  induction ts with
  | nil => rfl
  | cons t rest ih =>
    have ht := hts t (List.mem_cons_self ..)
    have hr := ih (fun t' ht' => hts t' (List.mem_cons_of_mem _ ht'))
    simp only [selectTemplate, evalGuard, evalE_frame ns ns' d h t.guard ht, hr]

theorem dflag_guardDeps (s : CliSpec) (d : String) (h : (guardDeps s).contains d = false) :
    ∀ t ∈ s.templates, d ∉ t.guard.deps := by
  intro t ht hd
  have : d ∈ guardDeps s := by
    unfold guardDeps
    exact List.mem_flatMap.2 ⟨t, ht, hd⟩
  have h' : (guardDeps s).contains d = true := by simpa using this
  rw [h] at h'
  exact Bool.noConfusion h'

/-- (a) a flag that no guard tests, put in front of a command line: the parser fails iff it failed without
it, otherwise the helper takes the SAME path (same template: same generator), in a namespace that evaluates
every expression not mentioning the flag's dest to the same value -/
theorem flag_noninterference_lemma (s : CliSpec) (o : OptSpec) (f : String) (argv : List String)
    (hwf : specWF s = true) (hfl : isFlag o = true) (hres : optOf s f = some o)
    (hng : (guardDeps s).contains o.dest = false) :
    match dispatchTemplate s argv with
    | .error e => dispatchTemplate s (f :: argv) = .error e
    | .ok (t, ns) =>
      ∃ ns', dispatchTemplate s (f :: argv) = .ok (t, ns') ∧
        ∀ e : Expr, o.dest ∉ e.deps → evalE ns' e = evalE ns e := by
  unfold dispatchTemplate
  by_cases hsup : s.supported = true
  · simp only [hsup, Bool.not_true, Bool.false_eq_true, if_false]
    rw [parseArgs_flag_cons s o f argv hwf hfl hres]
    cases hp : parseArgs s argv with
    | error e => simp [Except.map]
    | ok b =>
      simp only [Except.map, namespaceOf]
      have hag : ∀ k, k ≠ o.dest →
          ((b ++ [(o.dest, o.flagVal)]) ++ defaults s).lookup k = (b ++ defaults s).lookup k :=
        fun k hk => dflag_lookup_insert k o.dest o.flagVal b (defaults s) hk
      rw [selectTemplate_frame _ _ o.dest hag s.templates (dflag_guardDeps s o.dest hng)]
      cases hsel : selectTemplate (b ++ defaults s) s.templates with
      | error e => simp
      | ok t =>
        refine ⟨_, rfl, ?_⟩
        intro e he
        exact evalE_frame _ _ o.dest hag e he
  · simp [hsup]

theorem selectTemplate_mem (ns : Ns) (ts : List CallTemplate) (t : CallTemplate)
    (h : selectTemplate ns ts = .ok t) : t ∈ ts := by
  induction ts with
  | nil => simp [selectTemplate] at h
  | cons a rest ih =>
    simp only [selectTemplate] at h
    split at h
    · exact absurd h (by simp)
    · simp only [Except.ok.injEq] at h; subst h; exact List.mem_cons_self ..
    · exact List.mem_cons_of_mem _ (ih h)

theorem dispatchTemplate_mem (s : CliSpec) (argv : List String) (t : CallTemplate) (ns : Ns)
    (h : dispatchTemplate s argv = .ok (t, ns)) : t ∈ s.templates := by
  unfold dispatchTemplate at h
  split at h
  · exact absurd h (by simp)
  · split at h
    · exact absurd h (by simp)
    · split at h
      · exact absurd h (by simp)
      · rename_i t' hsel
        simp only [Except.ok.injEq, Prod.mk.injEq] at h
        rw [← h.1]
        exact selectTemplate_mem _ _ _ hsel

/-- any flag (also one that guards test) put in front of a command line: when both command lines are
accepted, the two namespaces evaluate every expression not mentioning the flag's dest to the same value -/
theorem flag_namespace_frame (s : CliSpec) (o : OptSpec) (f : String) (argv : List String)
    (hwf : specWF s = true) (hfl : isFlag o = true) (hres : optOf s f = some o)
    (t t' : CallTemplate) (ns ns' : Ns)
    (h : dispatchTemplate s argv = .ok (t, ns)) (h' : dispatchTemplate s (f :: argv) = .ok (t', ns')) :
    ∀ e : Expr, o.dest ∉ e.deps → evalE ns' e = evalE ns e := by
  unfold dispatchTemplate at h h'
  by_cases hsup : s.supported = true
  · simp only [hsup, Bool.not_true, Bool.false_eq_true, if_false] at h h'
    rw [parseArgs_flag_cons s o f argv hwf hfl hres] at h'
    cases hp : parseArgs s argv with
    | error e => simp [hp] at h
    | ok b =>
      simp only [hp, Except.map, namespaceOf] at h h'
      have hag : ∀ k, k ≠ o.dest →
          ((b ++ [(o.dest, o.flagVal)]) ++ defaults s).lookup k = (b ++ defaults s).lookup k :=
        fun k hk => dflag_lookup_insert k o.dest o.flagVal b (defaults s) hk
      split at h
      · exact absurd h (by simp)
      · split at h'
        · exact absurd h' (by simp)
        · simp only [Except.ok.injEq, Prod.mk.injEq] at h h'
          rw [← h.2, ← h'.2]
          intro e he
          exact evalE_frame _ _ o.dest hag e he
  · simp [hsup] at h

/-- the parser's verdict does not depend on a flag in front -/
theorem flag_parse_verdict (s : CliSpec) (o : OptSpec) (f : String) (argv : List String)
    (hwf : specWF s = true) (hfl : isFlag o = true) (hres : optOf s f = some o) (e : CliErr) :
    parseArgs s (f :: argv) = .error e ↔ parseArgs s argv = .error e := by
  rw [parseArgs_flag_cons s o f argv hwf hfl hres]
  cases parseArgs s argv <;> simp [Except.map]

theorem dflag_zero_nonpositional (o : OptSpec) (h : isFlag o = true) : o.positional = false := by
  have hz : o.arity = .zero := by simpa [isFlag] using h
  unfold OptSpec.arity at hz
  split at hz
  · split at hz
    · rename_i hc; simp only [Bool.and_eq_true, Bool.not_eq_true'] at hc; exact hc.2
    · simp at hz
  · split at hz
    · split at hz <;> simp at hz
    · split at hz
      · split at hz
        · simp at hz
        · split at hz <;> simp at hz
      · split at hz <;> simp at hz

end Cnfgen.Cli
