/-
C14 (GML) — lemmas about the character level of `IO/Gml.lean`: line splitting, the tokenizer
(consumption, fuel independence, the lines `generate_gml` produces), `escape` / `unescape`.
-/
import CnfgenModel.IO.Gml
import Lemmas.GraphIORelabel
namespace Cnfgen.Gml
open Cnfgen GraphLex GraphFmt

/-! ### lines -/

theorem splitNL_line (l rest : Str) (h : '\n' ∉ l) : splitNL (l ++ '\n' :: rest) = l :: splitNL rest := by
  induction l with
  | nil => simp [splitNL]
  | cons c l ih =>
    have hc : c ≠ '\n' := fun e => h (e ▸ List.mem_cons_self ..)
    have hl : '\n' ∉ l := fun e => h (List.mem_cons_of_mem _ e)
    simp only [List.cons_append, splitNL, hc, if_false, ih hl]

theorem splitNL_lines (ls : List Str) (rest : Str) (h : ∀ l ∈ ls, '\n' ∉ l) :
    splitNL (ls.flatMap (fun l => l ++ ['\n']) ++ rest) = ls ++ splitNL rest := by
  induction ls with
  | nil => rfl
  | cons l ls ih =>
    simp only [List.flatMap_cons, List.append_assoc, List.cons_append, List.nil_append]
    rw [splitNL_line l _ (h l (List.mem_cons_self ..)), ih (fun x hx => h x (List.mem_cons_of_mem _ hx))]

theorem universalNLAux_id (s : Str) (h : '\r' ∉ s) : universalNLAux false s = s := by
  induction s with
  | nil => rfl
  | cons c s ih =>
    have hc : c ≠ '\r' := fun e => h (e ▸ List.mem_cons_self ..)
    have hs : '\r' ∉ s := fun e => h (List.mem_cons_of_mem _ e)
    simp only [universalNLAux, hc, if_false, ih hs]
    split <;> simp_all

theorem universalNL_id (s : Str) (h : '\r' ∉ s) : universalNL s = s := universalNLAux_id s h

/-! ### the tokenizer consumes -/

theorem dropSign_le (s : Str) : (dropSign s).length ≤ s.length := by
  cases s with
  | nil => simp [dropSign]
  | cons c r => simp only [dropSign]; split <;> simp

theorem dropWhile_le (p : Char → Bool) (s : Str) : (s.dropWhile p).length ≤ s.length :=
  (List.dropWhile_sublist p).length_le

theorem dropExponent_le (s : Str) : (dropExponent s).length ≤ s.length := by
  cases s with
  | nil => simp [dropExponent]
  | cons c r =>
    simp only [dropExponent]
    split
    · split
      · exact Nat.le_refl _
      · have := dropWhile_le isDigit (dropSign r)
        have := dropSign_le r
        simp only [List.length_cons]; omega
    · exact Nat.le_refl _

theorem matchReal_lt {s rest : Str} (h : matchReal s = some rest) : rest.length < s.length := by
  unfold matchReal at h
  have h1 := dropSign_le s
  have h2 := dropWhile_le isDigit (dropSign s)
  simp only at h
  split at h
  · rename_i r2 heq
    rw [heq] at h2
    simp only [List.length_cons] at h2
    split at h
    · cases h
      have := dropExponent_le (List.dropWhile isDigit r2)
      have := dropWhile_le isDigit r2
      omega
    · split at h
      · cases h
        have := dropExponent_le r2
        omega
      · cases h
  · split at h
    · rename_i r heq
      cases h
      rw [heq] at h1
      have := dropExponent_le r
      simp only [List.length_cons] at h1
      omega
    · cases h

theorem takeWhile_dropWhile_length (p : Char → Bool) (s : Str) :
    (s.takeWhile p).length + (s.dropWhile p).length = s.length := by
  rw [← List.length_append, List.takeWhile_append_dropWhile]

theorem matchInt_lt {s : Str} {neg d rest} (h : matchInt s = some (neg, d, rest)) :
    rest.length < s.length ∧ d = (dropSign s).takeWhile isDigit ∧ d ≠ [] := by
  unfold matchInt at h
  simp only at h
  split at h
  · cases h
  · rename_i hne
    cases h
    have h1 := dropSign_le s
    have h2 := takeWhile_dropWhile_length isDigit (dropSign s)
    have h3 : (List.takeWhile isDigit (dropSign s)).length ≠ 0 := by
      intro e; apply hne; simp [List.eq_nil_of_length_eq_zero e]
    refine ⟨by omega, rfl, ?_⟩
    intro e; apply hne; simp [e]

theorem matchString_lt {s content rest : Str} (h : matchString s = some (content, rest)) :
    rest.length < s.length := by
  unfold matchString at h
  split at h
  · rename_i c r heq
    cases h
    have := dropWhile_le (fun c => c != '"') s
    rw [heq] at this
    simp only [List.length_cons] at this
    omega
  · cases h

theorem tokStep_lt {s : Str} {t : Option Tok} {r : Str} (h : tokStep s = some (t, r)) : r.length < s.length := by
  cases s with
  | nil => simp [tokStep] at h
  | cons c cs =>
    simp only [tokStep] at h
    split at h
    · rename_i ha
      cases h
      have hw : isWord c = true := by simp [isWord, ha]
      simp only [List.dropWhile_cons, hw, if_true, List.length_cons]
      have := dropWhile_le isWord cs
      omega
    · split at h
      · rename_i rest hr
        cases h
        exact matchReal_lt hr
      · split at h
        · rename_i neg d rest hi
          have := (matchInt_lt hi).1
          split at h <;> (cases h; exact this)
        · split at h
          · split at h
            · rename_i content rest hs
              cases h
              have := matchString_lt hs
              simp only [List.length_cons]; omega
            · cases h
          · split at h
            · cases h; simp
            · split at h
              · cases h; simp
              · split at h
                · cases h; simp
                · split at h
                  · rename_i hw
                    cases h
                    simp only [List.dropWhile_cons, hw, if_true, List.length_cons]
                    have := dropWhile_le isWs cs
                    omega
                  · cases h

theorem tokLine_fuel2 (f : Nat) : ∀ (g : Nat) (s : Str), s.length ≤ f → s.length ≤ g → tokLine f s = tokLine g s := by
  induction f with
  | zero =>
    intro g s h _
    cases s with
    | nil => cases g <;> rfl
    | cons c cs => simp at h
  | succ f ih =>
    intro g s h hg
    cases s with
    | nil => cases g <;> rfl
    | cons c cs =>
      obtain ⟨g', rfl⟩ : ∃ g', g = g' + 1 := ⟨g - 1, by simp only [List.length_cons] at hg; omega⟩
      simp only [tokLine]
      cases hst : tokStep (c :: cs) with
      | none => rfl
      | some p =>
        obtain ⟨t, r⟩ := p
        have hlt := tokStep_lt hst
        simp only [List.length_cons] at hlt h hg
        have e1 := ih g' r (by omega) (by omega)
        cases t with
        | none => simp only [e1]
        | some t => cases t <;> simp only [e1]

/-- enough fuel is as good as the length -/
theorem tokLine_fuel (f : Nat) (s : Str) (h : s.length ≤ f) : tokLine f s = tokLine s.length s :=
  tokLine_fuel2 f s.length s h (Nat.le_refl _)

theorem tokenizeLine_nil : tokenizeLine [] = [] := rfl

theorem tokenizeLine_skip {s r : Str} (h : tokStep s = some (none, r)) : tokenizeLine s = tokenizeLine r := by
  have hlt := tokStep_lt h
  cases s with
  | nil => simp [tokStep] at h
  | cons c cs =>
    simp only [tokenizeLine, List.length_cons, tokLine, h]
    exact tokLine_fuel _ _ (by simp only [List.length_cons] at hlt; omega)

theorem tokenizeLine_tok {s r : Str} {t : Tok} (h : tokStep s = some (some t, r)) (hb : ∀ e, t ≠ .bad e) :
    tokenizeLine s = t :: tokenizeLine r := by
  have hlt := tokStep_lt h
  cases s with
  | nil => simp [tokStep] at h
  | cons c cs =>
    have := tokLine_fuel cs.length r (by simp only [List.length_cons] at hlt; omega)
    simp only [tokenizeLine, List.length_cons, tokLine, h]
    cases t with
    | bad e => exact absurd rfl (hb e)
    | _ => simp only [this, tokenizeLine]

/-! ### character facts -/

theorem isDigit_iff (c : Char) : isDigit c = true ↔ 48 ≤ c.toNat ∧ c.toNat ≤ 57 := by
  simp [isDigit]

theorem isDigit_not_alpha {c : Char} (h : isDigit c = true) : isAlpha c = false := by
  rw [isDigit_iff] at h
  simp only [isAlpha, Bool.or_eq_false_iff, Bool.and_eq_false_iff, decide_eq_false_iff_not]
  constructor <;> omega

theorem isDigit_not_sign {c : Char} (h : isDigit c = true) : isSign c = false := by
  rw [isDigit_iff] at h
  simp only [isSign, Bool.or_eq_false_iff, beq_eq_false_iff_ne, ne_eq]
  constructor <;> (intro e; rw [e] at h; revert h; decide)

theorem isDigit_ne {c d : Char} (h : isDigit c = true) (hd : isDigit d = false) : c ≠ d := by
  intro e; rw [e] at h; rw [h] at hd; cases hd

theorem natStr_digits (n : Nat) : ∀ c ∈ natStr n, isDigit c = true := by
  have h := isDigitStr_natStr n
  simp only [isDigitStr, Bool.and_eq_true, List.all_eq_true] at h
  intro c hc
  have := h.2 c hc
  simp only [digit?] at this
  split at this
  · rename_i hh; rw [isDigit_iff]; exact hh
  · cases this

theorem natStr_ne_nil (n : Nat) : natStr n ≠ [] := by
  have h := isDigitStr_natStr n
  simp only [isDigitStr, Bool.and_eq_true, Bool.not_eq_true', List.isEmpty_eq_false_iff] at h
  exact h.1

theorem takeWhile_all {p : Char → Bool} {s : Str} (h : ∀ c ∈ s, p c = true) : s.takeWhile p = s := by
  induction s with
  | nil => rfl
  | cons c s ih =>
    simp only [List.takeWhile_cons, h c (List.mem_cons_self ..), if_true,
      ih (fun x hx => h x (List.mem_cons_of_mem _ hx))]

theorem dropWhile_all {p : Char → Bool} {s : Str} (h : ∀ c ∈ s, p c = true) : s.dropWhile p = [] := by
  induction s with
  | nil => rfl
  | cons c s ih =>
    simp only [List.dropWhile_cons, h c (List.mem_cons_self ..), if_true,
      ih (fun x hx => h x (List.mem_cons_of_mem _ hx))]

theorem takeWhile_append_stop {p : Char → Bool} {s : Str} {c : Char} {r : Str} (h : ∀ x ∈ s, p x = true) (hc : p c = false) :
    (s ++ c :: r).takeWhile p = s := by
  induction s with
  | nil => simp [hc]
  | cons d s ih =>
    simp only [List.cons_append, List.takeWhile_cons, h d (List.mem_cons_self ..), if_true,
      ih (fun x hx => h x (List.mem_cons_of_mem _ hx))]

theorem dropWhile_append_stop {p : Char → Bool} {s : Str} {c : Char} {r : Str} (h : ∀ x ∈ s, p x = true) (hc : p c = false) :
    (s ++ c :: r).dropWhile p = c :: r := by
  induction s with
  | nil => simp [hc]
  | cons d s ih =>
    simp only [List.cons_append, List.dropWhile_cons, h d (List.mem_cons_self ..), if_true,
      ih (fun x hx => h x (List.mem_cons_of_mem _ hx))]

/-! ### the token steps on the shapes `generate_gml` writes -/

/-- a run of blanks is skipped -/
theorem tokenizeLine_blank (r : Str) : tokenizeLine (' ' :: r) = tokenizeLine (r.dropWhile isWs) := by
  apply tokenizeLine_skip
  have : isWs ' ' = true := by decide
  simp [tokStep, matchReal, matchInt, dropSign, isAlpha, isDigit, isSign, this]

theorem matchReal_none_of {s : Str} (h1 : dropSign s = s) (h2 : s.dropWhile isDigit = [])
    (_h3 : ∀ r, s ≠ 'I' :: 'N' :: 'F' :: r) : matchReal s = none := by
  unfold matchReal
  simp only [h1, h2]

theorem matchInt_of {s : Str} (h1 : dropSign s = s) (h2 : s.takeWhile isDigit = s) (h3 : s.dropWhile isDigit = [])
    (hne : s ≠ []) (hm : s.head? ≠ some '-') : matchInt s = some (false, s, []) := by
  unfold matchInt
  simp only [h1, h2, h3]
  cases s with
  | nil => exact absurd rfl hne
  | cons c cs =>
    have : (c == '-') = false := by
      simp only [beq_eq_false_iff_ne, ne_eq]; intro e; apply hm; simp [e]
    simp [this]

/-- a decimal number at the end of the line -/
theorem tokStep_digits (ds : Str) (hne : ds ≠ []) (hd : ∀ c ∈ ds, isDigit c = true) (hl : ds.length ≤ maxStrDigits) :
    tokStep ds = some (some (.int (digitsVal ds)), []) := by
  have htk : ds.takeWhile isDigit = ds := takeWhile_all hd
  have hdk : ds.dropWhile isDigit = [] := dropWhile_all hd
  cases ds with
  | nil => exact absurd rfl hne
  | cons c cs =>
    have hc := hd c (List.mem_cons_self ..)
    have ha := isDigit_not_alpha hc
    have hs := isDigit_not_sign hc
    have hI : c ≠ 'I' := isDigit_ne hc (by decide)
    have hm : c ≠ '-' := isDigit_ne hc (by decide)
    have hsg : dropSign (c :: cs) = c :: cs := by simp [dropSign, hs]
    have hr : matchReal (c :: cs) = none :=
      matchReal_none_of hsg hdk (by intro r e; cases e; exact hI rfl)
    have hi : matchInt (c :: cs) = some (false, c :: cs, []) :=
      matchInt_of hsg htk hdk hne (by simp [hm])
    have hlen : ¬ (maxStrDigits < (c :: cs).length) := by omega
    simp only [tokStep, ha, hr, hi, hlen]
    simp

theorem tokenizeLine_digits (ds : Str) (hne : ds ≠ []) (hd : ∀ c ∈ ds, isDigit c = true) (hl : ds.length ≤ maxStrDigits) :
    tokenizeLine ds = [.int (digitsVal ds)] := by
  rw [tokenizeLine_tok (tokStep_digits ds hne hd hl) (by intro e h; cases h), tokenizeLine_nil]

theorem tokenizeLine_nat (n : Nat) (hl : (natStr n).length ≤ maxStrDigits) :
    tokenizeLine (natStr n) = [.int (n : Int)] := by
  rw [tokenizeLine_digits _ (natStr_ne_nil n) (natStr_digits n) hl, digitsVal_natStr]

/-- a quoted string at the end of the line -/
theorem tokenizeLine_string (s : Str) (h : '"' ∉ s) : tokenizeLine ('"' :: (s ++ ['"'])) = [.str s] := by
  have hall : ∀ x ∈ s, (fun c : Char => c != '"') x = true := by
    intro x hx
    simp only [bne_iff_ne, ne_eq]
    intro e; exact h (e ▸ hx)
  have hms : matchString (s ++ ['"']) = some (s, []) := by
    unfold matchString
    rw [dropWhile_append_stop hall (by simp), takeWhile_append_stop hall (by simp)]
  have : tokStep ('"' :: (s ++ ['"'])) = some (some (.str s), []) := by
    simp [tokStep, matchReal, matchInt, dropSign, isAlpha, isDigit, isSign, hms]
  rw [tokenizeLine_tok this (by intro e h; cases h), tokenizeLine_nil]

/-- a key followed by a blank -/
theorem tokenizeLine_key (c : Char) (k rest : Str) (hc : isAlpha c = true) (hk : ∀ x ∈ k, isWord x = true) :
    tokenizeLine (c :: (k ++ ' ' :: rest)) = .key (c :: k) :: tokenizeLine (rest.dropWhile isWs) := by
  have hw : isWord c = true := by simp [isWord, hc]
  have hall : ∀ x ∈ c :: k, isWord x = true := by
    intro x hx
    rcases List.mem_cons.1 hx with rfl | hx
    · exact hw
    · exact hk x hx
  have hsp : isWord ' ' = false := by decide
  have h1 : (c :: (k ++ ' ' :: rest)).takeWhile isWord = c :: k := by
    rw [← List.cons_append]; exact takeWhile_append_stop hall hsp
  have h2 : (c :: (k ++ ' ' :: rest)).dropWhile isWord = ' ' :: rest := by
    rw [← List.cons_append]; exact dropWhile_append_stop hall hsp
  have : tokStep (c :: (k ++ ' ' :: rest)) = some (some (.key (c :: k)), ' ' :: rest) := by
    simp only [tokStep, hc, if_true, h1, h2]
  rw [tokenizeLine_tok this (by intro e h; cases h), tokenizeLine_blank]

/-! ### the lines of `generate_gml` -/

/-- no line break inside -/
def NoNL (s : Str) : Prop := ∀ c ∈ s, c ≠ '\n' ∧ c ≠ '\r'

instance (s : Str) : Decidable (NoNL s) := by unfold NoNL; infer_instance

theorem NoNL.append {a b : Str} (ha : NoNL a) (hb : NoNL b) : NoNL (a ++ b) := by
  intro c hc
  rcases List.mem_append.1 hc with h | h
  · exact ha c h
  · exact hb c h

theorem NoNL.cons {c : Char} {b : Str} (hc : c ≠ '\n' ∧ c ≠ '\r') (hb : NoNL b) : NoNL (c :: b) := by
  intro x hx
  rcases List.mem_cons.1 hx with rfl | h
  · exact hc
  · exact hb x h

theorem noNL_of_digits {s : Str} (h : ∀ c ∈ s, isDigit c = true) : NoNL s := by
  intro c hc
  have := (isDigit_iff c).1 (h c hc)
  constructor <;> (intro e; rw [e] at this; revert this; decide)

theorem noNL_of_word {s : Str} (h : ∀ c ∈ s, isWord c = true) : NoNL s := by
  intro c hc
  have := h c hc
  constructor <;> (intro e; rw [e] at this; revert this; decide)

/-- a line that the tokenizer takes by itself (no multi-line string) and turns into `toks` -/
structure LineOK (l : Str) (toks : List Tok) : Prop where
  nonl : NoNL l
  ascii : isAscii l = true
  quotes : countQuotes l ≠ 1
  tokens : tokenizeLine l = toks
  good : endsBad toks = false

theorem isAscii_append (a b : Str) : isAscii (a ++ b) = (isAscii a && isAscii b) := by
  simp [isAscii, List.all_append]

theorem countQuotes_append (a b : Str) : countQuotes (a ++ b) = countQuotes a + countQuotes b := by
  simp [countQuotes, List.count_append]

theorem isAscii_of_digits {s : Str} (h : ∀ c ∈ s, isDigit c = true) : isAscii s = true := by
  simp only [isAscii, List.all_eq_true, decide_eq_true_eq]
  intro c hc
  have := (isDigit_iff c).1 (h c hc)
  omega

theorem countQuotes_of_digits {s : Str} (h : ∀ c ∈ s, isDigit c = true) : countQuotes s = 0 := by
  simp only [countQuotes, List.count_eq_zero]
  intro hc
  have := h _ hc
  revert this; decide

theorem quote_not_mem_digits {s : Str} (h : ∀ c ∈ s, isDigit c = true) : '"' ∉ s := by
  intro hc
  have := h _ hc
  revert this; decide

/-- `    <key> <n>` -/
theorem lineOK_keyNat (c : Char) (k : Str) (hc : isAlpha c = true) (hk : ∀ x ∈ k, isWord x = true)
    (hasc : isAscii (c :: k) = true) (hq : countQuotes (c :: k) = 0)
    (n : Nat) (hl : (natStr n).length ≤ maxStrDigits) :
    LineOK (' ' :: ' ' :: ' ' :: ' ' :: c :: (k ++ ' ' :: natStr n)) [.key (c :: k), .int (n : Int)] := by
  have hd := natStr_digits n
  have hnws : (natStr n).dropWhile isWs = natStr n := by
    cases hn : natStr n with
    | nil => rfl
    | cons d ds =>
      have : isDigit d = true := hd d (hn ▸ List.mem_cons_self ..)
      have hw : isWs d = false := by
        rw [isDigit_iff] at this
        simp only [isWs, Bool.or_eq_false_iff, Bool.and_eq_false_iff, decide_eq_false_iff_not]
        constructor <;> omega
      simp [hw]
  have hcw0 : isWord c = true := by simp [isWord, hc]
  have hsp : (' ' : Char) ≠ '\n' ∧ (' ' : Char) ≠ '\r' := by decide
  refine ⟨?_, ?_, ?_, ?_, rfl⟩
  · refine .cons hsp (.cons hsp (.cons hsp (.cons hsp ?_)))
    have : NoNL (c :: k) := noNL_of_word (fun x hx => by
      rcases List.mem_cons.1 hx with rfl | hx
      · exact hcw0
      · exact hk x hx)
    rw [← List.cons_append]
    exact this.append (.cons hsp (noNL_of_digits hd))
  · have e : (' ' :: ' ' :: ' ' :: ' ' :: c :: (k ++ ' ' :: natStr n)) = [' ', ' ', ' ', ' '] ++ ((c :: k) ++ ([' '] ++ natStr n)) := by simp
    rw [e, isAscii_append, isAscii_append, isAscii_append, hasc, isAscii_of_digits hd]; rfl
  · have e : (' ' :: ' ' :: ' ' :: ' ' :: c :: (k ++ ' ' :: natStr n)) = [' ', ' ', ' ', ' '] ++ ((c :: k) ++ ([' '] ++ natStr n)) := by simp
    rw [e, countQuotes_append, countQuotes_append, countQuotes_append, hq, countQuotes_of_digits hd]; decide
  · have hws : isWs ' ' = true := by decide
    have hcw : isWs c = false := by
      have : isAlpha c = true := hc
      simp only [isAlpha, Bool.or_eq_true, Bool.and_eq_true, decide_eq_true_eq] at this
      simp only [isWs, Bool.or_eq_false_iff, Bool.and_eq_false_iff, decide_eq_false_iff_not]
      constructor <;> omega
    rw [tokenizeLine_blank]
    simp only [List.dropWhile_cons, hws, if_true, hcw, Bool.false_eq_true, if_false]
    rw [tokenizeLine_key c k _ hc hk, hnws, tokenizeLine_nat n hl]

/-- `    label "<n>"`, `  name "<s>"`: a key and a quoted string without a quote inside -/
theorem lineOK_keyStr (ind : Str) (hind : ∀ x ∈ ind, x = ' ') (hne : ind ≠ [])
    (c : Char) (k : Str) (hc : isAlpha c = true) (hk : ∀ x ∈ k, isWord x = true)
    (hasc : isAscii (c :: k) = true) (hq : countQuotes (c :: k) = 0)
    (s : Str) (hs : '"' ∉ s) (hsa : isAscii s = true) (hsn : NoNL s) :
    LineOK (ind ++ c :: (k ++ ' ' :: '"' :: (s ++ ['"']))) [.key (c :: k), .str s] := by
  have hcw0 : isWord c = true := by simp [isWord, hc]
  have hsp : (' ' : Char) ≠ '\n' ∧ (' ' : Char) ≠ '\r' := by decide
  have hqu : ('"' : Char) ≠ '\n' ∧ ('"' : Char) ≠ '\r' := by decide
  have hia : isAscii ind = true := by
    simp only [isAscii, List.all_eq_true, decide_eq_true_eq]
    intro x hx; rw [hind x hx]; decide
  have hiq : countQuotes ind = 0 := by
    simp only [countQuotes, List.count_eq_zero]
    intro hx; have := hind _ hx; revert this; decide
  have hsq : countQuotes s = 0 := by
    simp only [countQuotes, List.count_eq_zero]; exact hs
  refine ⟨?_, ?_, ?_, ?_, rfl⟩
  · have h1 : NoNL ind := fun x hx => by rw [hind x hx]; exact hsp
    have h2 : NoNL (c :: k) := noNL_of_word (fun x hx => by
      rcases List.mem_cons.1 hx with rfl | hx
      · exact hcw0
      · exact hk x hx)
    refine h1.append ?_
    rw [← List.cons_append]
    exact h2.append (.cons hsp (.cons hqu (hsn.append (.cons hqu (fun _ h => by cases h)))))
  · have e : (ind ++ c :: (k ++ ' ' :: '"' :: (s ++ ['"']))) = ind ++ ((c :: k) ++ ([' ', '"'] ++ (s ++ ['"']))) := by simp
    rw [e, isAscii_append, isAscii_append, isAscii_append, isAscii_append, hia, hasc, hsa]; rfl
  · have e : (ind ++ c :: (k ++ ' ' :: '"' :: (s ++ ['"']))) = ind ++ ((c :: k) ++ ([' ', '"'] ++ (s ++ ['"']))) := by simp
    rw [e, countQuotes_append, countQuotes_append, countQuotes_append, countQuotes_append, hiq, hq, hsq]; decide
  · have hws : isWs ' ' = true := by decide
    have hcw : isWs c = false := by
      have : isAlpha c = true := hc
      simp only [isAlpha, Bool.or_eq_true, Bool.and_eq_true, decide_eq_true_eq] at this
      simp only [isWs, Bool.or_eq_false_iff, Bool.and_eq_false_iff, decide_eq_false_iff_not]
      constructor <;> omega
    have hdrop : (ind ++ c :: (k ++ ' ' :: '"' :: (s ++ ['"']))).dropWhile isWs = c :: (k ++ ' ' :: '"' :: (s ++ ['"'])) :=
      dropWhile_append_stop (fun x hx => by rw [hind x hx]; exact hws) hcw
    cases ind with
    | nil => exact absurd rfl hne
    | cons i ind' =>
      have hi : i = ' ' := hind i (List.mem_cons_self ..)
      subst hi
      rw [List.cons_append, tokenizeLine_blank]
      have hdrop' : (ind' ++ c :: (k ++ ' ' :: '"' :: (s ++ ['"']))).dropWhile isWs = c :: (k ++ ' ' :: '"' :: (s ++ ['"'])) :=
        dropWhile_append_stop (fun x hx => by rw [hind x (List.mem_cons_of_mem _ hx)]; exact hws) hcw
      rw [hdrop', tokenizeLine_key c k _ hc hk]
      have : ('"' :: (s ++ ['"'])).dropWhile isWs = '"' :: (s ++ ['"']) := by
        have : isWs '"' = false := by decide
        simp [this]
      rw [this, tokenizeLine_string s hs]

/-! ### the line loop on lines that are taken one by one -/

theorem lexLines_ok (lts : List (Str × List Tok)) (rest : List Str) (h : ∀ p ∈ lts, LineOK p.1 p.2) :
    lexLines none (lts.map (·.1) ++ rest) = lts.flatMap (·.2) ++ lexLines none rest := by
  induction lts with
  | nil => rfl
  | cons p lts ih =>
    have hp := h p (List.mem_cons_self ..)
    have hq : (countQuotes p.1 == 1) = false := by
      simp only [beq_eq_false_iff_ne, ne_eq]; exact hp.quotes
    simp only [List.map_cons, List.cons_append, lexLines, hp.ascii, Bool.not_true, Bool.false_eq_true, if_false,
      hq, Bool.false_and, hp.tokens, hp.good, List.flatMap_cons, List.append_assoc]
    rw [ih (fun x hx => h x (List.mem_cons_of_mem _ hx))]

theorem lexLines_last : lexLines none [[]] = [.eof] := by rfl

/-! ### `escape` / `unescape` -/

/-- printable ASCII other than the double quote: what `escape` emits -/
def Plain (x : Char) : Prop := 32 ≤ x.toNat ∧ x.toNat ≤ 126 ∧ x ≠ '"'

theorem plain_of_digit {x : Char} (h : isDigit x = true) : Plain x := by
  rw [isDigit_iff] at h
  refine ⟨by omega, by omega, ?_⟩
  intro e; rw [e] at h; revert h; decide

theorem escapeChar_plain (c : Char) : ∀ x ∈ escapeChar c, Plain x := by
  intro x hx
  unfold escapeChar at hx
  split at hx
  · simp only [List.mem_cons, List.mem_append, List.not_mem_nil, or_false] at hx
    rcases hx with rfl | rfl | hx | rfl
    · exact ⟨by decide, by decide, by decide⟩
    · exact ⟨by decide, by decide, by decide⟩
    · exact plain_of_digit (natStr_digits _ x hx)
    · exact ⟨by decide, by decide, by decide⟩
  · rename_i hc
    simp only [List.mem_cons, List.not_mem_nil, or_false] at hx
    subst hx
    simp only [not_or, Nat.not_lt] at hc
    exact ⟨hc.1, hc.2.1, hc.2.2.2⟩

theorem escape_plain (s : Str) : ∀ x ∈ escape s, Plain x := by
  intro x hx
  simp only [escape, List.mem_flatMap] at hx
  obtain ⟨c, _, hx⟩ := hx
  exact escapeChar_plain c x hx

theorem isAscii_of_plain {s : Str} (h : ∀ x ∈ s, Plain x) : isAscii s = true := by
  simp only [isAscii, List.all_eq_true, decide_eq_true_eq]
  intro c hc
  have := (h c hc).2.1
  omega

theorem not_mem_of_plain {s : Str} (h : ∀ x ∈ s, Plain x) {c : Char} (hc : ¬ Plain c) : c ∉ s :=
  fun hm => hc (h c hm)

theorem natStr_length_le (k : Nat) : ∀ n, n < 10 ^ (k + 1) → (natStr n).length ≤ k + 1 := by
  induction k with
  | zero => intro n hn; rw [natStr_lt10 (by simpa using hn)]; simp
  | succ k ih =>
    intro n hn
    by_cases h10 : n < 10
    · rw [natStr_lt10 h10]; simp
    · rw [natStr_ge10 (by omega)]
      have : n / 10 < 10 ^ (k + 1) := by
        rw [Nat.div_lt_iff_lt_mul (by decide)]
        rw [Nat.pow_succ] at hn; omega
      have := ih (n / 10) this
      simp only [List.length_append, List.length_cons, List.length_nil]; omega

theorem noNL_of_plain {s : Str} (h : ∀ x ∈ s, Plain x) : NoNL s := by
  intro c hc
  have := (h c hc).1
  constructor <;> (intro e; rw [e] at this; revert this; decide)

theorem natStr_length_pos (n : Nat) : 1 ≤ (natStr n).length := by
  have := natStr_ne_nil n
  cases h : natStr n with
  | nil => exact absurd h this
  | cons _ _ => simp

theorem natStr_length_mono : ∀ (n i : Nat), i ≤ n → (natStr i).length ≤ (natStr n).length := by
  intro n
  induction n using Nat.strongRecOn with
  | _ n ih =>
    intro i hi
    by_cases hn : n < 10
    · rw [natStr_lt10 hn, natStr_lt10 (by omega : i < 10)]; simp
    · by_cases h10 : i < 10
      · rw [natStr_lt10 h10]; simpa using natStr_length_pos n
      · rw [natStr_ge10 (by omega : 10 ≤ i), natStr_ge10 (by omega : 10 ≤ n)]
        have := ih (n / 10) (Nat.div_lt_self (by omega) (by decide)) (i / 10) (Nat.div_le_div_right hi)
        simp only [List.length_append, List.length_cons, List.length_nil]; omega

theorem char_toNat_lt (c : Char) : c.toNat < 1114112 := by
  have := c.valid
  simp only [UInt32.isValidChar, Nat.isValidChar] at this
  show c.val.toNat < 1114112
  omega

theorem char_not_surrogate (c : Char) : ¬ (0xD800 ≤ c.toNat ∧ c.toNat ≤ 0xDFFF) := by
  have := c.valid
  simp only [UInt32.isValidChar, Nat.isValidChar] at this
  show ¬ (0xD800 ≤ c.val.toNat ∧ c.val.toNat ≤ 0xDFFF)
  omega

theorem unescapeAux_escape (s : Str) : ∀ (f : Nat) (tail : Str), (escape s).length ≤ f →
    unescapeAux f (escape s) = .ok s := by
  induction s with
  | nil => intro f _ _; cases f <;> rfl
  | cons c s ih =>
    intro f tail hf
    have hesc : escape (c :: s) = escapeChar c ++ escape s := by simp [escape]
    rw [hesc] at hf ⊢
    by_cases hc : c.toNat < 32 ∨ 126 < c.toNat ∨ c = '&' ∨ c = '"'
    · -- a character reference
      simp only [escapeChar, if_pos hc] at hf ⊢
      simp only [List.cons_append, List.append_assoc, List.length_cons, List.length_append, List.length_nil] at hf ⊢
      obtain ⟨f', rfl⟩ : ∃ f', f = f' + 1 := ⟨f - 1, by omega⟩
      have hd := natStr_digits c.toNat
      have hsemi : isDigit ';' = false := by decide
      have hlen : (natStr c.toNat).length ≤ 7 := natStr_length_le 6 c.toNat (by have := char_toNat_lt c; omega)
      have hmr : matchRef ('#' :: (natStr c.toNat ++ ';' :: escape s)) =
          .code c.toNat ((natStr c.toNat).length + 2) (escape s) := by
        unfold matchRef
        simp only [takeWhile_append_stop hd hsemi, dropWhile_append_stop hd hsemi]
        have : (natStr c.toNat).isEmpty = false := by
          simp only [List.isEmpty_eq_false_iff]; exact natStr_ne_nil _
        simp only [this, Bool.not_false, if_true]
        have : ¬ (maxStrDigits < (natStr c.toNat).length) := by simp only [maxStrDigits]; omega
        simp only [this, if_false, digitsVal_natStr]
      have hns := char_not_surrogate c
      have hle : ¬ (0x10FFFF < c.toNat) := by have := char_toNat_lt c; omega
      have ihs := ih f' tail (by omega)
      simp only [unescapeAux, beq_self_eq_true, if_true, List.nil_append, hmr, hns, if_false, hle, ihs]
      rw [Char.ofNat_toNat]
    · simp only [escapeChar, if_neg hc] at hf ⊢
      simp only [not_or] at hc
      simp only [List.cons_append, List.nil_append, List.length_cons] at hf ⊢
      obtain ⟨f', rfl⟩ : ∃ f', f = f' + 1 := ⟨f - 1, by omega⟩
      have hne : (c == '&') = false := by simp only [beq_eq_false_iff_ne, ne_eq]; exact hc.2.2.1
      simp only [unescapeAux, hne, Bool.false_eq_true, if_false, ih f' tail (by omega)]

theorem unescape_escape (s : Str) : unescape (escape s) = .ok s :=
  unescapeAux_escape s _ [] (Nat.le_refl _)

/-- a string without `&` is left alone -/
theorem unescapeAux_plain (s : Str) (h : '&' ∉ s) : ∀ f, s.length ≤ f → unescapeAux f s = .ok s := by
  induction s with
  | nil => intro f _; cases f <;> rfl
  | cons c s ih =>
    intro f hf
    obtain ⟨f', rfl⟩ : ∃ f', f = f' + 1 := ⟨f - 1, by simp only [List.length_cons] at hf; omega⟩
    have hne : (c == '&') = false := by
      simp only [beq_eq_false_iff_ne, ne_eq]; intro e; exact h (e ▸ List.mem_cons_self ..)
    simp only [unescapeAux, hne, Bool.false_eq_true, if_false,
      ih (fun e => h (List.mem_cons_of_mem _ e)) f' (by simp only [List.length_cons] at hf; omega)]

theorem unescape_natStr (n : Nat) : unescape (natStr n) = .ok (natStr n) :=
  unescapeAux_plain _ (fun h => by have := natStr_digits n _ h; revert this; decide) _ (Nat.le_refl _)

end Cnfgen.Gml
