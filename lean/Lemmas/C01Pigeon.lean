/-
The finite pigeonhole principle in the index-range form used by the family corollaries,
and the truth assignment that realises a given relation on a mapping group.
-/
import Lemmas.C01Map
import Mathlib.Data.Fintype.Pigeonhole
namespace Cnfgen.Fam
open Cnfgen

/-- a total relation from `[1..m]` to `[1..n]` with at most one preimage per element needs `m ≤ n` -/
theorem le_of_total_injective (m n : Nat) (R : Nat → Nat → Prop)
    (ht : ∀ u, 1 ≤ u → u ≤ m → ∃ v, 1 ≤ v ∧ v ≤ n ∧ R u v)
    (hi : ∀ v, 1 ≤ v → v ≤ n → ∀ u, 1 ≤ u → u ≤ m → ∀ u', 1 ≤ u' → u' ≤ m → R u v → R u' v → u = u') :
    m ≤ n := by
  by_contra hlt
  have hlt : n < m := by omega
  have hex : ∀ i : Fin m, ∃ v, 1 ≤ v ∧ v ≤ n ∧ R (i.val + 1) v := fun i => ht (i.val + 1) (by omega) (by omega)
  let g : Fin m → Fin n := fun i =>
    ⟨Classical.choose (hex i) - 1, by have := Classical.choose_spec (hex i); omega⟩
  obtain ⟨i, j, hij, hg⟩ := Fintype.exists_ne_map_eq_of_card_lt g (by simpa using hlt)
  have hi' := Classical.choose_spec (hex i)
  have hj' := Classical.choose_spec (hex j)
  have hv : Classical.choose (hex i) = Classical.choose (hex j) := by
    have := congrArg Fin.val hg
    simp only [g] at this; omega
  have := hi _ hi'.1 hi'.2.1 (i.val + 1) (by omega) (by omega) (j.val + 1) (by omega) (by omega) hi'.2.2
    (hv ▸ hj'.2.2)
  exact hij (Fin.ext (by omega))

namespace UMap

/-- the assignment (on the identifiers of the group) that realises the relation `R` -/
def assignOf (f : UMap) (R : Nat → Nat → Bool) : Assign := fun x => R (f.decU x) (f.decV x)

theorem assignOf_var (f : UMap) (R : Nat → Nat → Bool) {u v : Nat} (hu1 : 1 ≤ u) (hv1 : 1 ≤ v)
    (hv : v ≤ f.rng) : f.assignOf R (f.var u v) = R u v := by
  simp only [assignOf, f.decU_var hu1 hv1 hv, f.decV_var (u := u) hv1 hv]

end UMap
end Cnfgen.Fam
