/-
C15: evaluation lemmas for the `obtain_*` models of Cli/GraphArgs.lean on the constructions whose
third-party part is now computed (`GCli.nxExt`, Cli/GraphArgsNx.lean).
(Self-contained: the lemma files `GraphBuild*.lean` of the in-house samplers and `GraphInv.lean` use
the same lemma names and are never imported together.)
-/
import Lemmas.C15NxGrid
import Lemmas.C15NxMulti
import Lemmas.C15NxRand
import CnfgenModel.Cli.GraphArgsNx
namespace Cnfgen.GCli
open Cnfgen Cnfgen.GRand Cnfgen.Nx

theorem bind_apply {α β} (x : RM α) (f : α → RM β) (ds : List Draw) :
    (x >>= f) ds = match x ds with
      | .ok a rest => f a rest
      | .exc e => .exc e
      | .foreign => .foreign
      | .stuck => .stuck := rfl

theorem pure_apply {α} (a : α) (ds : List Draw) : (pure a : RM α) ds = .ok a ds := rfl

theorem valueError_apply {α} (ds : List Draw) : (valueError : RM α) ds = .exc .valueError := rfl

theorem guard_apply (b : Bool) (ds : List Draw) :
    guard b ds = if b then .ok () ds else .exc .valueError := by
  unfold guard; split <;> rfl

theorem argInt_apply (a : Arg) (ds : List Draw) :
    argInt a ds = match a.int? with | some i => .ok i ds | none => .exc .valueError := by
  unfold argInt; cases a.int? <;> rfl

theorem argInts_apply (args : List Arg) (ds : List Draw) :
    argInts args ds = match intsOf args with | some is => .ok is ds | none => .exc .valueError := by
  induction args with
  | nil => rfl
  | cons a as ih =>
    simp only [argInts, bind_apply, argInt_apply, intsOf]
    cases ha : a.int? with
    | none => rfl
    | some i =>
      simp only [ih]
      cases intsOf as with
      | none => rfl
      | some is => rfl

theorem ext_apply (e : Option CG) (ds : List Draw) :
    ext e ds = match e with | some g => .ok g ds | none => .stuck := by
  unfold ext; cases e <;> rfl

/-- `obtain_grid_or_torus`, evaluated -/
theorem obtainGridOrTorus_apply (args : List Arg) (p : Bool) (e : Option CG) (ds : List Draw) :
    obtainGridOrTorus args p e ds =
      match intsOf args with
      | none => .exc .valueError
      | some dims =>
        if gridDimsGiven dims = true ∧ gridGuard dims = true ∧ ¬ (p = true ∧ torusPre dims = false) then ext e ds
        else .exc .valueError := by
  simp only [obtainGridOrTorus, bind_apply, argInts_apply]
  cases intsOf args with
  | none => rfl
  | some dims =>
    simp only [guard_apply]
    by_cases h1 : gridDimsGiven dims = true
    · by_cases h2 : gridGuard dims = true
      · simp only [h1, h2, ↓reduceIte, true_and]
        by_cases h3 : p = true ∧ torusPre dims = false
        · simp [h3, valueError_apply]
        · have : (p && !torusPre dims) = false := by
            cases p <;> cases h : torusPre dims <;> simp_all
          simp [this, h3]
      · simp [h1, h2]
    · simp [h1]

theorem mem_map_toNat_one {dims : List Int} (hpos : ∀ d ∈ dims, 0 < d) : 1 ∈ dims.map Int.toNat ↔ (1 : Int) ∈ dims := by
  simp only [List.mem_map]
  constructor
  · rintro ⟨d, hd, h⟩
    have := hpos d hd
    have : d = 1 := by omega
    exact this ▸ hd
  · intro h; exact ⟨1, h, rfl⟩

theorem gridGuard_iff (dims : List Int) : gridGuard dims = true ↔ ∀ d ∈ dims, 0 < d := by
  simp [gridGuard]

theorem torusPre_iff (dims : List Int) : torusPre dims = true ↔ (1 : Int) ∉ dims := by
  simp [torusPre]

end Cnfgen.GCli
