/-
C15, `gnp` / `gnm`: the draw loops of `networkx.gnp_random_graph` and `networkx.gnm_random_graph`
as modelled in `Rand/NxDraws.lean`, for EVERY draw list on which the run is not `stuck`.
-/
import Lemmas.C15NxBase
import CnfgenModel.Rand.NxDraws
import Mathlib.Tactic.Ring
namespace Cnfgen.Nx
open Cnfgen

/-! ### `combinations(range(n), 2)` -/
theorem mem_allPairs {n u v : Nat} : (u, v) ∈ allPairs n ↔ u < v ∧ v < n := by
  simp only [allPairs, List.mem_flatMap, List.mem_range, List.mem_map, List.mem_range'_1, Prod.mk.injEq]
  constructor
  · rintro ⟨a, ha, b, hb, rfl, rfl⟩; omega
  · rintro ⟨h1, h2⟩; exact ⟨u, by omega, v, by omega, rfl, rfl⟩

theorem nodup_allPairs (n : Nat) : (allPairs n).Nodup := by
  unfold allPairs
  rw [List.nodup_flatMap]
  constructor
  · intro u _
    exact List.Nodup.map (fun a b h => by simp only [Prod.mk.injEq] at h; exact h.2) List.nodup_range'
  · apply List.nodup_range.pairwise_of_forall_ne
    intro a _ b _ hne
    simp only [Function.onFun]
    intro z hz1 hz2
    simp only [List.mem_map] at hz1 hz2
    obtain ⟨x, _, rfl⟩ := hz1
    obtain ⟨y, _, h⟩ := hz2
    simp only [Prod.mk.injEq] at h
    exact hne h.1.symm

theorem length_allPairs (n : Nat) : 2 * (allPairs n).length = n * (n - 1) := by
  induction n with
  | zero => simp [allPairs]
  | succ k ih =>
    have hperm : (allPairs (k + 1)).Perm (allPairs k ++ (List.range k).map (fun u => (u, k))) := by
      rw [List.perm_ext_iff_of_nodup (nodup_allPairs _)]
      · rintro ⟨u, v⟩
        simp only [List.mem_append, mem_allPairs, List.mem_map, List.mem_range, Prod.mk.injEq]
        constructor
        · rintro ⟨h1, h2⟩
          by_cases hv : v < k
          · exact Or.inl ⟨h1, hv⟩
          · exact Or.inr ⟨u, by omega, rfl, by omega⟩
        · rintro (⟨h1, h2⟩ | ⟨a, ha, rfl, rfl⟩) <;> omega
      · apply List.Nodup.append (nodup_allPairs k)
        · exact List.Nodup.map (fun a b h => by simp only [Prod.mk.injEq] at h; exact h.1) List.nodup_range
        · rintro ⟨u, v⟩ h1 h2
          have := mem_allPairs.1 h1
          simp only [List.mem_map, Prod.mk.injEq] at h2
          obtain ⟨a, _, _, rfl⟩ := h2
          omega
    rw [hperm.length_eq, List.length_append, List.length_map, List.length_range, Nat.mul_add, ih]
    cases k with
    | zero => simp
    | succ j =>
      simp only [Nat.add_sub_cancel]
      ring

theorem completeGraph_E {n u v : Nat} : (completeGraph n).E u v ↔ u < n ∧ v < n ∧ u ≠ v := by
  unfold NxG.E completeGraph
  simp only [mem_allPairs]; omega

theorem completeGraph_WF (n : Nat) : (completeGraph n).WF := by
  rintro ⟨u, v⟩ he
  have := mem_allPairs.1 he
  simp only [completeGraph]; omega

theorem completeGraph_oriented (n : Nat) : (completeGraph n).Oriented := by
  rintro ⟨u, v⟩ he
  exact (mem_allPairs.1 he).1

theorem completeGraph_edges_length (n : Nat) : 2 * (completeGraph n).edges.length = n * (n - 1) := by
  rw [NxG.length_edges (completeGraph_WF n) (completeGraph_oriented n) (nodup_allPairs n)]
  exact length_allPairs n

theorem emptyGraph_edges (n : Nat) : (emptyGraph n).edges = [] := by
  apply List.eq_nil_iff_forall_not_mem.2
  rintro ⟨u, v⟩ h
  have := (NxG.mem_edges.1 h).2.2
  simp [NxG.E, emptyGraph] at this

/-! ### gnp -/

/-- the pairs kept by the draws `nums`, in order -/
def keep (pn : Int) (pd : Nat) : List (Nat × Nat) → List Nat → List (Nat × Nat)
  | e :: es, x :: xs => if unitLt x pn pd then e :: keep pn pd es xs else keep pn pd es xs
  | _, _ => []

/-- every run of the loop consumes exactly one legal `random()` draw per pair and keeps the pair iff
its own draw is below `p` -/
theorem gnpLoop_ok {pn : Int} {pd : Nat} {pairs : List (Nat × Nat)} {ds : List NxDraw} {l : List (Nat × Nat)}
    {rest : List NxDraw} (h : gnpLoop pn pd pairs ds = .ok l rest) :
    ∃ nums : List Nat, nums.length = pairs.length ∧ ds = nums.map NxDraw.unit ++ rest ∧
      (∀ x ∈ nums, x < unitDen) ∧ l = keep pn pd pairs nums := by
  induction pairs generalizing ds l with
  | nil =>
    simp only [gnpLoop] at h
    cases h
    exact ⟨[], rfl, rfl, by simp, rfl⟩
  | cons e es ih =>
    match ds, h with
    | .unit num :: ds', h =>
      simp only [gnpLoop] at h
      split at h
      · rename_i hlt
        split at h
        · rename_i l' rest' hrec
          cases h
          obtain ⟨nums, h1, h2, h3, h4⟩ := ih hrec
          refine ⟨num :: nums, by simp [h1], by simp [h2], ?_, ?_⟩
          · intro x hx
            rcases List.mem_cons.1 hx with rfl | hx
            · exact hlt
            · exact h3 x hx
          · simp only [keep, h4]
        · cases h
      · cases h
    | [], h => simp [gnpLoop] at h
    | .choice _ :: _, h => simp [gnpLoop] at h
    | .shuffle _ _ :: _, h => simp [gnpLoop] at h

/-- conversely, every list of legal `random()` draws, one per pair, is a run of the loop -/
theorem gnpLoop_complete (pn : Int) (pd : Nat) (pairs : List (Nat × Nat)) (nums : List Nat) (rest : List NxDraw)
    (hlen : nums.length = pairs.length) (hleg : ∀ x ∈ nums, x < unitDen) :
    gnpLoop pn pd pairs (nums.map NxDraw.unit ++ rest) = .ok (keep pn pd pairs nums) rest := by
  induction pairs generalizing nums with
  | nil =>
    have : nums = [] := List.eq_nil_of_length_eq_zero hlen
    subst this; rfl
  | cons e es ih =>
    match nums, hlen with
    | x :: xs, hlen =>
      simp only [List.length_cons, Nat.add_right_cancel_iff] at hlen
      simp only [List.map_cons, List.cons_append, gnpLoop, if_pos (hleg x (by simp)),
        ih xs hlen (fun y hy => hleg y (by simp [hy])), keep]

theorem keep_sublist (pn : Int) (pd : Nat) (pairs : List (Nat × Nat)) (nums : List Nat) :
    (keep pn pd pairs nums).Sublist pairs := by
  induction pairs generalizing nums with
  | nil => cases nums <;> simp [keep]
  | cons e es ih =>
    cases nums with
    | nil => simp [keep]
    | cons x xs =>
      simp only [keep]
      split
      · exact (ih xs).cons_cons e
      · exact (ih xs).cons e

/-- pair number `k` is kept iff draw number `k` is below `p` -/
theorem mem_keep {pn : Int} {pd : Nat} {pairs : List (Nat × Nat)} {nums : List Nat} (hnd : pairs.Nodup)
    (hlen : nums.length = pairs.length) (k : Nat) (hk : k < pairs.length) :
    pairs[k] ∈ keep pn pd pairs nums ↔ unitLt (nums[k]'(by omega)) pn pd = true := by
  induction pairs generalizing nums k with
  | nil => simp at hk
  | cons e es ih =>
    match nums, hlen with
    | x :: xs, hlen =>
      simp only [List.length_cons, Nat.add_right_cancel_iff] at hlen
      rw [List.nodup_cons] at hnd
      cases k with
      | zero =>
        simp only [List.getElem_cons_zero, keep]
        split
        · rename_i h; simp [h]
        · rename_i h
          constructor
          · intro hm; exact absurd ((keep_sublist pn pd es xs).subset hm) hnd.1
          · intro h'; exact absurd h' h
      | succ j =>
        have hj : j < es.length := by simpa using hk
        simp only [List.getElem_cons_succ, keep]
        have hne : es[j] ≠ e := fun h => hnd.1 (h ▸ List.getElem_mem hj)
        split
        · simp only [List.mem_cons, hne, false_or]; exact ih hnd.2 hlen j hj
        · exact ih hnd.2 hlen j hj

theorem length_keep (pn : Int) (pd : Nat) (pairs : List (Nat × Nat)) (nums : List Nat)
    (hlen : nums.length = pairs.length) :
    (keep pn pd pairs nums).length = (nums.filter (fun x => unitLt x pn pd)).length := by
  induction pairs generalizing nums with
  | nil => have : nums = [] := List.eq_nil_of_length_eq_zero hlen; subst this; rfl
  | cons e es ih =>
    match nums, hlen with
    | x :: xs, hlen =>
      simp only [List.length_cons, Nat.add_right_cancel_iff] at hlen
      simp only [keep, List.filter_cons]
      split <;> simp [ih xs hlen]

/-! ### gnm -/

/-- what the loop of `gnm_random_graph` maintains: the edges chosen so far join two different nodes
and no unordered pair occurs twice -/
structure GnmInv (n : Nat) (te : List (Nat × Nat)) : Prop where
  range : ∀ e ∈ te, e.1 < n ∧ e.2 < n ∧ e.1 ≠ e.2
  nodup : (te.map NxG.norm).Nodup

theorem norm_mem_iff {te : List (Nat × Nat)} {u v : Nat} :
    NxG.norm (u, v) ∈ te.map NxG.norm ↔ (u, v) ∈ te ∨ (v, u) ∈ te := by
  rcases Nat.le_total u v with h | h
  · have : NxG.norm (u, v) = (u, v) := by simp [NxG.norm, Nat.min_eq_left h, Nat.max_eq_right h]
    rw [this, NxG.mem_map_norm h]
  · have : NxG.norm (u, v) = (v, u) := by simp [NxG.norm, Nat.min_eq_right h, Nat.max_eq_left h]
    rw [this, NxG.mem_map_norm h]; exact Or.comm

theorem hasEdge_iff {te : List (Nat × Nat)} {u v : Nat} : hasEdge te u v = true ↔ (u, v) ∈ te ∨ (v, u) ∈ te := by
  simp [hasEdge]

theorem GnmInv.snoc {n : Nat} {te : List (Nat × Nat)} (h : GnmInv n te) {u v : Nat} (hu : u < n) (hv : v < n)
    (hne : u ≠ v) (hnew : ¬ hasEdge te u v = true) : GnmInv n (te ++ [(u, v)]) := by
  constructor
  · intro e he
    rcases List.mem_append.1 he with he | he
    · exact h.range e he
    · simp only [List.mem_singleton] at he; subst he; exact ⟨hu, hv, hne⟩
  · rw [List.map_append, List.nodup_append]
    refine ⟨h.nodup, by simp, ?_⟩
    intro a ha b hb
    simp only [List.map_cons, List.map_nil, List.mem_singleton] at hb
    subst hb
    intro hab
    subst hab
    exact hnew (hasEdge_iff.2 (norm_mem_iff.1 ha))

/-- EVERY run of the loop that ends has chosen exactly `m` distinct non-loop edges (extending what it
started from), whatever was drawn -/
theorem gnmLoop_ok {n m : Nat} : ∀ (ds : List NxDraw) (te : List (Nat × Nat)) (te' : List (Nat × Nat))
    (rest : List NxDraw), GnmInv n te → te.length ≤ m → gnmLoop n m te ds = .ok te' rest →
    GnmInv n te' ∧ te'.length = m ∧ ∃ used, ds = used ++ rest := by
  suffices H : ∀ (k : Nat) (ds : List NxDraw), ds.length ≤ k → ∀ (te te' : List (Nat × Nat)) (rest : List NxDraw),
      GnmInv n te → te.length ≤ m → gnmLoop n m te ds = .ok te' rest →
      GnmInv n te' ∧ te'.length = m ∧ ∃ used, ds = used ++ rest from fun ds => H ds.length ds (Nat.le_refl _)
  intro k
  induction k with
  | zero =>
    intro ds hlen te te' rest hI hle h
    have : ds = [] := List.eq_nil_of_length_eq_zero (by omega)
    subst this
    simp only [gnmLoop] at h
    split at h
    · cases h; exact ⟨hI, by omega, [], rfl⟩
    · cases h
  | succ k ih =>
    intro ds hlen te te' rest hI hle h
    match ds, hlen, h with
    | .choice u :: .choice v :: ds', hlen, h =>
      simp only [gnmLoop] at h
      split at h
      · cases h
        exact ⟨hI, by omega, [], rfl⟩
      · split at h
        · rename_i hnot hr
          split at h
          · obtain ⟨g1, g2, used, g3⟩ := ih ds' (by simp at hlen; omega) te te' rest hI hle h
            exact ⟨g1, g2, .choice u :: .choice v :: used, by simp [g3]⟩
          · rename_i hfresh
            have hne : u ≠ v := fun e => hfresh (Or.inl e)
            have hnew : ¬ hasEdge te u v = true := fun e => hfresh (Or.inr e)
            obtain ⟨g1, g2, used, g3⟩ := ih ds' (by simp at hlen; omega) (te ++ [(u, v)]) te' rest
              (hI.snoc hr.1 hr.2 hne hnew) (by simp; omega) h
            exact ⟨g1, g2, .choice u :: .choice v :: used, by simp [g3]⟩
        · cases h
    | [], _, h =>
      simp only [gnmLoop] at h
      split at h
      · cases h; exact ⟨hI, by omega, [], rfl⟩
      · cases h
    | [d], _, h =>
      simp only [gnmLoop] at h
      split at h
      · cases h; exact ⟨hI, by omega, [], rfl⟩
      · cases h
    | .unit _ :: d :: ds', _, h =>
      simp only [gnmLoop] at h
      split at h
      · cases h; exact ⟨hI, by omega, [], rfl⟩
      · cases h
    | .choice _ :: .unit _ :: ds', _, h =>
      simp only [gnmLoop] at h
      split at h
      · cases h; exact ⟨hI, by omega, [], rfl⟩
      · cases h
    | .choice _ :: .shuffle _ _ :: ds', _, h =>
      simp only [gnmLoop] at h
      split at h
      · cases h; exact ⟨hI, by omega, [], rfl⟩
      · cases h
    | .shuffle _ _ :: d :: ds', _, h =>
      simp only [gnmLoop] at h
      split at h
      · cases h; exact ⟨hI, by omega, [], rfl⟩
      · cases h

theorem gnmInv_nil (n : Nat) : GnmInv n [] := ⟨by simp, by simp⟩

/-- `gnm_random_graph(n, m)` with `n ≥ 1` and `m ≤ n(n-1)/2` (cnfgen's guard): whatever is drawn, a run
that ends returns a loop-free graph on `n` nodes for which `G.edges()` reports exactly `m` edges -/
theorem gnmGraph_ok {n m : Nat} (hm : 2 * m ≤ n * (n - 1)) {ds : List NxDraw} {G : NxG}
    {rest : List NxDraw} (h : gnmGraph n m ds = .ok G rest) :
    G.n = n ∧ G.WF ∧ G.Loopless ∧ G.edges.length = m ∧ ∃ used, ds = used ++ rest := by
  unfold gnmGraph at h
  split at h
  · rename_i h1
    cases h
    subst h1
    refine ⟨rfl, by intro e he; simp [emptyGraph] at he, by intro e he; simp [emptyGraph] at he, ?_, [], rfl⟩
    rw [emptyGraph_edges]; simp at hm ⊢; omega
  · split at h
    · rename_i hge
      cases h
      refine ⟨rfl, completeGraph_WF n, (completeGraph_oriented n).loopless, ?_, [], rfl⟩
      have := completeGraph_edges_length n
      omega
    · split at h
      · rename_i te rest' hloop
        cases h
        obtain ⟨g1, g2, g3⟩ := gnmLoop_ok ds [] te rest (gnmInv_nil n) (by simp) hloop
        have hW : NxG.WF ⟨n, te⟩ := fun e he => ⟨(g1.range e he).1, (g1.range e he).2.1⟩
        have hL : NxG.Loopless ⟨n, te⟩ := fun e he => (g1.range e he).2.2
        refine ⟨rfl, hW, hL, ?_, g3⟩
        rw [NxG.length_edges_of_norm hW hL g1.nodup]; exact g2
      · cases h

end Cnfgen.Nx
