/-
Lemmas for T-C11.1 — `BlockOfVariables`: mixed-radix index ↔ identifier arithmetic.
-/
import CnfgenModel.Vars.Patterns
import Lemmas.IterNodup
import Mathlib.Data.List.Range
namespace Cnfgen
namespace Vars

/-- `idx` is a legal index of a block with the given ranges: same arity, `1 ≤ iⱼ ≤ rangesⱼ` -/
def LegalIdx (ranges idx : List Nat) : Prop := List.Forall₂ (fun i r => 1 ≤ i ∧ i ≤ r) idx ranges

/-- all legal indices, in the order of `indices()` (itertools.product of the ranges) -/
def blockAll (ranges : List Nat) : List (List Nat) := product (ranges.map (fun r => rangeN 1 (r + 1)))

/-- an index matches a pattern: same length, equal wherever the pattern is not `None` -/
def patMatches : Pattern → List Nat → Bool
  | [], [] => true
  | none :: ps, _ :: is => patMatches ps is
  | some x :: ps, i :: is => decide (x = (i : Int)) && patMatches ps is
  | _, _ => false

/-! ### helpers -/

theorem foldl_mul_eq (a : Nat) (l : List Nat) :
    l.foldl (· * ·) a = a * l.foldl (· * ·) 1 := by
  induction l generalizing a with
  | nil => simp
  | cons x xs ih =>
    simp only [List.foldl_cons]
    rw [ih (a * x), ih (1 * x)]
    simp [Nat.mul_assoc]

theorem foldl_add_eq (a : Nat) (l : List Nat) :
    l.foldl (· + ·) a = a + l.foldl (· + ·) 0 := by
  induction l generalizing a with
  | nil => simp
  | cons x xs ih =>
    simp only [List.foldl_cons]
    rw [ih (a + x), ih (0 + x)]
    omega

theorem blockSize_nil : blockSize [] = 1 := rfl
theorem blockSize_cons (r : Nat) (rs : List Nat) : blockSize (r :: rs) = r * blockSize rs := by
  unfold blockSize
  rw [List.foldl_cons, foldl_mul_eq]
  simp
theorem weights_cons (r : Nat) (rs : List Nat) : weights (r :: rs) = blockSize rs :: weights rs := rfl
theorem blockId_nil (start : Nat) (ranges : List Nat) : blockId start ranges [] = start := by
  simp [blockId]
theorem blockId_cons (start r : Nat) (rs : List Nat) (i : Nat) (is : List Nat) :
    blockId start (r :: rs) (i :: is) = (i - 1) * blockSize rs + blockId start rs is := by
  simp only [blockId, weights_cons, List.zip_cons_cons, List.map_cons, List.foldl_cons]
  rw [foldl_add_eq]
  omega

/-- the start identifier is a pure offset -/
theorem blockId_eq_start_add (start : Nat) (ranges idx : List Nat) :
    blockId start ranges idx = start + blockId 0 ranges idx := by
  simp [blockId]

theorem blockId_start_add (start k : Nat) (ranges idx : List Nat) :
    blockId (start + k) ranges idx = k + blockId start ranges idx := by
  rw [blockId_eq_start_add (start + k), blockId_eq_start_add start]
  omega

theorem blockAll_nil : blockAll [] = [[]] := rfl

theorem blockAll_cons (r : Nat) (rs : List Nat) :
    blockAll (r :: rs) = (rangeN 1 (r + 1)).flatMap (fun x => (blockAll rs).map (x :: ·)) := rfl

theorem mem_blockAll {ranges idx : List Nat} : idx ∈ blockAll ranges ↔ LegalIdx ranges idx := by
  unfold blockAll LegalIdx
  rw [mem_product, List.forall₂_map_right_iff]
  constructor <;> intro h <;> refine h.imp ?_ <;> intro a b hab
  · rw [mem_rangeN] at hab; omega
  · rw [mem_rangeN]; omega

theorem blockAll_nodup (ranges : List Nat) : (blockAll ranges).Nodup := by
  unfold blockAll
  apply product_nodup
  intro l hl
  rw [List.mem_map] at hl
  obtain ⟨r, _, rfl⟩ := hl
  exact rangeN_nodup _ _

/-- `range'` splits into consecutive blocks -/
theorem range'_mul_eq_flatMap (s a b : Nat) :
    List.range' s (a * b) = (List.range a).flatMap (fun i => List.range' (s + i * b) b) := by
  induction a with
  | zero => simp
  | succ a ih =>
    rw [List.range_succ, List.flatMap_append, ← ih, Nat.succ_mul]
    simp only [List.flatMap_cons, List.flatMap_nil, List.append_nil]
    rw [← List.range'_append]
    simp [Nat.mul_comm]

/-- contiguity, in enumeration order -/
theorem blockAll_ids (start : Nat) (ranges : List Nat) :
    (blockAll ranges).map (blockId start ranges) = List.range' start (blockSize ranges) := by
  induction ranges generalizing start with
  | nil => simp [blockAll_nil, blockId_nil, blockSize_nil]
  | cons r rs ih =>
    rw [blockAll_cons, blockSize_cons, range'_mul_eq_flatMap, List.map_flatMap]
    unfold rangeN
    rw [List.flatMap_map]
    simp only [Nat.add_sub_cancel, List.map_map]
    apply List.flatMap_congr
    intro i _
    rw [← ih]
    apply List.map_congr_left
    intro is _
    simp only [Function.comp, blockId_cons, Nat.add_sub_cancel]
    rw [blockId_start_add]

theorem length_blockAll (ranges : List Nat) : (blockAll ranges).length = blockSize ranges := by
  have h := congrArg List.length (blockAll_ids 0 ranges)
  simpa using h

/-- identifiers of legal indices stay inside the group's range -/
theorem blockId_range {ranges idx : List Nat} (start : Nat) (h : LegalIdx ranges idx) :
    start ≤ blockId start ranges idx ∧ blockId start ranges idx < start + blockSize ranges := by
  have hm : blockId start ranges idx ∈ (blockAll ranges).map (blockId start ranges) :=
    List.mem_map_of_mem (mem_blockAll.2 h)
  rw [blockAll_ids, List.mem_range'_1] at hm
  exact hm

/-! ### `to_index` -/

theorem blockIndexAux_blockId {ranges idx : List Nat} (h : LegalIdx ranges idx) :
    blockIndexAux (weights ranges) (blockId 0 ranges idx) = idx := by
  unfold LegalIdx at h
  induction h with
  | nil => simp [weights, blockIndexAux]
  | @cons i r is rs hir ht ih =>
    have hlt := (blockId_range 0 ht).2
    rw [Nat.zero_add] at hlt
    have hB : 0 < blockSize rs := by omega
    rw [weights_cons, blockId_cons, blockIndexAux]
    rw [Nat.add_comm ((i - 1) * blockSize rs), Nat.add_mul_div_right _ _ hB, Nat.div_eq_of_lt hlt,
      Nat.add_mul_mod_self_right, Nat.mod_eq_of_lt hlt, ih]
    congr 1
    omega

theorem blockIndexAux_legal {ranges : List Nat} {k : Nat} (h : k < blockSize ranges) :
    LegalIdx ranges (blockIndexAux (weights ranges) k) ∧
      blockId 0 ranges (blockIndexAux (weights ranges) k) = k := by
  induction ranges generalizing k with
  | nil =>
    rw [blockSize_nil] at h
    refine ⟨List.Forall₂.nil, ?_⟩
    simp [weights, blockIndexAux, blockId_nil]
    omega
  | cons r rs ih =>
    rw [blockSize_cons] at h
    have hB : 0 < blockSize rs := by
      rcases Nat.eq_zero_or_pos (blockSize rs) with h0 | h0
      · rw [h0] at h; omega
      · exact h0
    have hmod : k % blockSize rs < blockSize rs := Nat.mod_lt _ hB
    have hdiv : k / blockSize rs < r := (Nat.div_lt_iff_lt_mul hB).2 h
    obtain ⟨h1, h2⟩ := ih hmod
    rw [weights_cons, blockIndexAux]
    refine ⟨List.Forall₂.cons ⟨Nat.succ_le_succ (Nat.zero_le _), Nat.succ_le_of_lt hdiv⟩ h1, ?_⟩
    rw [blockId_cons, h2, Nat.add_sub_cancel]
    exact Nat.div_add_mod' k (blockSize rs)

/-- index → id → index, for the positive and the negative literal -/
theorem blockIndex_blockId {ranges idx : List Nat} (start : Nat) (h : LegalIdx ranges idx) :
    blockIndex start ranges (blockId start ranges idx : Int) = .ok idx ∧
    blockIndex start ranges (-(blockId start ranges idx : Int)) = .ok idx := by
  have hr := blockId_range start h
  have hsub : blockId start ranges idx - start = blockId 0 ranges idx := by
    rw [blockId_eq_start_add]; omega
  constructor
  · unfold blockIndex
    simp only [Int.natAbs_natCast]
    rw [if_pos hr, hsub, blockIndexAux_blockId h]
  · unfold blockIndex
    simp only [Int.natAbs_neg, Int.natAbs_natCast]
    rw [if_pos hr, hsub, blockIndexAux_blockId h]

/-- id → index → id -/
theorem blockId_blockIndex {ranges idx : List Nat} {start : Nat} {lit : Int}
    (h : blockIndex start ranges lit = .ok idx) :
    LegalIdx ranges idx ∧ blockId start ranges idx = lit.natAbs := by
  unfold blockIndex at h
  simp only at h
  split at h
  · rename_i hc
    injection h with h
    subst h
    have hk : lit.natAbs - start < blockSize ranges := by omega
    obtain ⟨h1, h2⟩ := blockIndexAux_legal hk
    refine ⟨h1, ?_⟩
    rw [blockId_eq_start_add, h2]
    omega
  · cases h

/-- `to_index` is defined exactly on the literals of the group, ValueError otherwise -/
theorem blockIndex_isOk_iff (start : Nat) (ranges : List Nat) (lit : Int) :
    (∃ idx, blockIndex start ranges lit = .ok idx) ↔
      (start ≤ lit.natAbs ∧ lit.natAbs < start + blockSize ranges) := by
  unfold blockIndex
  simp only
  split
  · rename_i hc
    exact ⟨fun _ => hc, fun _ => ⟨_, rfl⟩⟩
  · rename_i hc
    constructor
    · rintro ⟨idx, h⟩; cases h
    · intro h; exact absurd h hc
theorem blockIndex_error {start : Nat} {ranges : List Nat} {lit : Int} {e : Err}
    (h : blockIndex start ranges lit = .error e) : e = .valueError := by
  unfold blockIndex at h
  simp only at h
  split at h
  · cases h
  · injection h with h; exact h.symm

/-- the ids of a filtered enumeration are strictly increasing (id order) -/
theorem blockAll_filter_ids_sorted (start : Nat) (ranges : List Nat) (p : List Nat → Bool) :
    (((blockAll ranges).filter p).map (blockId start ranges)).Pairwise (· < ·) := by
  have hs : (((blockAll ranges).filter p).map (blockId start ranges)).Sublist
      ((blockAll ranges).map (blockId start ranges)) := List.filter_sublist.map _
  rw [blockAll_ids] at hs
  exact (List.pairwise_lt_range' 1).sublist hs

/-! ### `indices(*pattern)` -/

/-- a pattern is acceptable iff it has the right arity and every fixed entry is within its range -/
def LegalPat (ranges : List Nat) (pat : Pattern) : Prop :=
  List.Forall₂ (fun (p : Option Int) (r : Nat) => ∀ x, p = some x → 1 ≤ x ∧ x ≤ (r : Int)) pat ranges

/-- one coordinate of `patMatches` -/
def colMatch (p : Option Int) (i : Nat) : Bool :=
  match p with
  | none => true
  | some x => decide (x = (i : Int))

/-- the column function of `blockIndices` -/
def blockCol (p : Option Int × Nat) : Except Err (List Nat) :=
  match p.1 with
  | none => .ok (rangeN 1 (p.2 + 1))
  | some i => if 1 ≤ i ∧ i ≤ p.2 then .ok [i.toNat] else .error .valueError

theorem patMatches_cons (p : Option Int) (ps : Pattern) (i : Nat) (is : List Nat) :
    patMatches (p :: ps) (i :: is) = (colMatch p i && patMatches ps is) := by
  cases p <;> simp [patMatches, colMatch]

theorem eq_singleton_of_nodup {α : Type} {l : List α} {a : α} (hn : l.Nodup)
    (h : ∀ x, x ∈ l ↔ x = a) : l = [a] := by
  match l, hn, h with
  | [], _, h => exact absurd ((h a).2 rfl) (by simp)
  | [b], _, h =>
    have := (h b).1 (by simp)
    rw [this]
  | b :: c :: t, hn, h =>
    have hb := (h b).1 (by simp)
    have hc := (h c).1 (by simp)
    rw [List.nodup_cons] at hn
    exact absurd (by simp [hb, hc]) hn.1

/-- filtering a product coordinatewise -/
theorem filter_flatMap_cons {α : Type} (l : List α) (L : List (List α)) (q : α → Bool)
    (P R : List α → Bool) (hR : ∀ x is, R (x :: is) = (q x && P is)) :
    (l.flatMap (fun x => L.map (x :: ·))).filter R =
      (l.filter q).flatMap (fun x => (L.filter P).map (x :: ·)) := by
  induction l with
  | nil => simp
  | cons a t ih =>
    rw [List.flatMap_cons, List.filter_append, ih, List.filter_map]
    have hcomp : (R ∘ fun x => a :: x) = fun is => (q a && P is) := by
      funext is; simp [hR]
    rw [hcomp]
    cases hq : q a
    · simp [hq]
    · simp [hq]

theorem blockCol_ok {p : Option Int} {r : Nat} (h : ∀ x, p = some x → 1 ≤ x ∧ x ≤ (r : Int)) :
    blockCol (p, r) = .ok ((rangeN 1 (r + 1)).filter (colMatch p)) := by
  cases p with
  | none =>
    have : colMatch none = fun _ => true := by funext i; rfl
    simp [blockCol, this]
  | some x =>
    have hx := h x rfl
    simp only [blockCol]
    rw [if_pos hx]
    congr 1
    symm
    apply eq_singleton_of_nodup ((rangeN_nodup _ _).filter _)
    intro i
    simp only [List.mem_filter, mem_rangeN, colMatch, decide_eq_true_eq]
    omega

theorem blockCol_error {p : Option Int} {r : Nat}
    (h : ¬ ∀ x, p = some x → 1 ≤ x ∧ x ≤ (r : Int)) : blockCol (p, r) = .error .valueError := by
  cases p with
  | none => exact absurd (by intro x hx; cases hx) h
  | some x =>
    have hx : ¬ (1 ≤ x ∧ x ≤ (r : Int)) := fun hx => h (by intro y hy; cases hy; exact hx)
    simp only [blockCol]
    rw [if_neg hx]

theorem mapM_blockCol_ok {ranges : List Nat} {pat : Pattern} (h : LegalPat ranges pat) :
    ∃ cs, (pat.zip ranges).mapM blockCol = .ok cs ∧
      product cs = (blockAll ranges).filter (patMatches pat) := by
  unfold LegalPat at h
  induction h with
  | nil => exact ⟨[], rfl, rfl⟩
  | @cons p r ps rs hp ht ih =>
    obtain ⟨cs, h1, h2⟩ := ih
    refine ⟨(rangeN 1 (r + 1)).filter (colMatch p) :: cs, ?_, ?_⟩
    · rw [List.zip_cons_cons, List.mapM_cons, blockCol_ok hp, h1]
      rfl
    · rw [blockAll_cons, filter_flatMap_cons _ _ (colMatch p) (patMatches ps) _
        (patMatches_cons p ps), ← h2]
      rfl

theorem mapM_blockCol_error {ranges : List Nat} {pat : Pattern}
    (hlen : pat.length = ranges.length) (h : ¬ LegalPat ranges pat) :
    (pat.zip ranges).mapM blockCol = .error .valueError := by
  induction pat generalizing ranges with
  | nil =>
    cases ranges with
    | nil => exact absurd List.Forall₂.nil h
    | cons r rs => simp at hlen
  | cons p ps ih =>
    cases ranges with
    | nil => simp at hlen
    | cons r rs =>
      rw [List.zip_cons_cons, List.mapM_cons]
      by_cases hp : ∀ x, p = some x → 1 ≤ x ∧ x ≤ (r : Int)
      · have ht : ¬ LegalPat rs ps := fun ht => h (List.Forall₂.cons hp ht)
        rw [blockCol_ok hp, ih (by simpa using hlen) ht]
        rfl
      · rw [blockCol_error hp]
        rfl

theorem blockIndices_eq (ranges : List Nat) (pattern : Pattern) :
    blockIndices ranges pattern =
      if ¬ pattern.isEmpty ∧ pattern.length ≠ ranges.length then .error .valueError
      else (((if pattern.isEmpty then ranges.map (fun _ => none) else pattern).zip ranges).mapM
        blockCol).map product := rfl

theorem patMatches_none {ranges idx : List Nat} (h : LegalIdx ranges idx) :
    patMatches (ranges.map (fun _ => (none : Option Int))) idx = true := by
  unfold LegalIdx at h
  induction h with
  | nil => rfl
  | cons _ _ ih => exact ih

/-- `indices()` without arguments: all legal indices -/
theorem blockIndices_nil (ranges : List Nat) : blockIndices ranges [] = .ok (blockAll ranges) := by
  have hl : LegalPat ranges (ranges.map (fun _ => (none : Option Int))) := by
    unfold LegalPat
    rw [List.forall₂_map_left_iff]
    exact List.forall₂_same.2 (fun r _ x hx => by cases hx)
  obtain ⟨cs, h1, h2⟩ := mapM_blockCol_ok hl
  rw [blockIndices_eq]
  simp only [List.isEmpty_nil, not_true_eq_false, false_and, if_false, if_true, h1]
  have hall : (blockAll ranges).filter (patMatches (ranges.map (fun _ => (none : Option Int)))) =
      blockAll ranges := by
    rw [List.filter_eq_self]
    intro idx hidx
    exact patMatches_none (mem_blockAll.1 hidx)
  rw [← hall, ← h2]
  rfl

/-- wildcard patterns enumerate exactly the matching indices, in identifier order -/
theorem blockIndices_pattern {ranges : List Nat} {pat : Pattern} (hp : pat ≠ []) :
    (LegalPat ranges pat → blockIndices ranges pat = .ok ((blockAll ranges).filter (patMatches pat))) ∧
    (¬ LegalPat ranges pat → blockIndices ranges pat = .error .valueError) := by
  have he : pat.isEmpty = false := by
    cases pat with
    | nil => exact absurd rfl hp
    | cons _ _ => rfl
  rw [blockIndices_eq]
  simp only [he, Bool.false_eq_true, not_false_eq_true, true_and, if_false]
  constructor
  · intro hl
    have hlen : pat.length = ranges.length := hl.length_eq
    obtain ⟨cs, h1, h2⟩ := mapM_blockCol_ok hl
    rw [if_neg (by simpa using hlen), h1, ← h2]
    rfl
  · intro hl
    by_cases hlen : pat.length = ranges.length
    · rw [if_neg (by simpa using hlen), mapM_blockCol_error hlen hl]
      rfl
    · rw [if_pos hlen]

theorem patMatches_full {idx w : List Nat} :
    patMatches (idx.map (fun (i : Nat) => some (i : Int))) w = true ↔ w = idx := by
  induction idx generalizing w with
  | nil => cases w <;> simp [patMatches]
  | cons i is ih =>
    cases w with
    | nil => simp [patMatches]
    | cons j js =>
      simp only [List.map_cons, patMatches, Bool.and_eq_true, decide_eq_true_eq, ih,
        List.cons.injEq]
      constructor
      · rintro ⟨h1, h2⟩; exact ⟨by omega, h2⟩
      · rintro ⟨h1, h2⟩; exact ⟨by omega, h2⟩

theorem legalPat_full {ranges idx : List Nat} :
    LegalPat ranges (idx.map (fun (i : Nat) => some (i : Int))) ↔ LegalIdx ranges idx := by
  unfold LegalPat LegalIdx
  rw [List.forall₂_map_left_iff]
  constructor <;> intro h <;> refine h.imp ?_ <;> intro i r hir
  · have := hir i rfl
    omega
  · intro x hx
    cases hx
    omega

/-- a full index (no `None`) is accepted iff it is legal, and then it is the only result -/
theorem blockIndices_full {ranges : List Nat} {idx : List Nat} (hne : idx ≠ []) :
    (LegalIdx ranges idx → blockIndices ranges (idx.map (fun (i : Nat) => some (i : Int))) = .ok [idx]) ∧
    (¬ LegalIdx ranges idx → blockIndices ranges (idx.map (fun (i : Nat) => some (i : Int))) = .error .valueError) := by
  have hp : idx.map (fun (i : Nat) => some (i : Int)) ≠ [] := by
    cases idx with
    | nil => exact absurd rfl hne
    | cons _ _ => simp
  obtain ⟨h1, h2⟩ := blockIndices_pattern (ranges := ranges) hp
  constructor
  · intro hl
    rw [h1 (legalPat_full.2 hl)]
    congr 1
    apply eq_singleton_of_nodup ((blockAll_nodup ranges).filter _)
    intro w
    rw [List.mem_filter, patMatches_full, mem_blockAll]
    constructor
    · exact fun h => h.2
    · rintro rfl; exact ⟨hl, rfl⟩
  · intro hl
    exact h2 (fun h => hl (legalPat_full.1 h))

end Vars
end Cnfgen
