/-
Lemmas for T-C11.1 — `BlockOfVariables`: mixed-radix index ↔ identifier arithmetic.
-/
import CnfgenModel.Vars.Patterns
import Lemmas.IterNodup
namespace Cnfgen
namespace Vars

/-- `idx` is a legal index of a block with the given ranges: same arity, `1 ≤ iⱼ ≤ rangesⱼ` -/
def LegalIdx (ranges idx : List Nat) : Prop := List.Forall₂ (fun i r => 1 ≤ i ∧ i ≤ r) idx ranges

/-- all legal indices, in the order of `indices()` (itertools.product of the ranges) -/
def blockAll (ranges : List Nat) : List (List Nat) := product (ranges.map (fun r => rangeN 1 (r + 1)))

/-- an index matches a pattern: same length, equal wherever the pattern is not `None` -/
def patMatches : Pattern → List Nat → Bool
  | [], [] => true
  | none :: ps, _ :: is => patMatches ps is
  | some x :: ps, i :: is => decide (x = (i : Int)) && patMatches ps is
  | _, _ => false

theorem blockSize_nil : blockSize [] = 1 := sorry
theorem blockSize_cons (r : Nat) (rs : List Nat) : blockSize (r :: rs) = r * blockSize rs := sorry
theorem weights_cons (r : Nat) (rs : List Nat) : weights (r :: rs) = blockSize rs :: weights rs := sorry
theorem blockId_nil (start : Nat) (ranges : List Nat) : blockId start ranges [] = start := sorry
theorem blockId_cons (start r : Nat) (rs : List Nat) (i : Nat) (is : List Nat) :
    blockId start (r :: rs) (i :: is) = (i - 1) * blockSize rs + blockId start rs is := sorry

theorem mem_blockAll {ranges idx : List Nat} : idx ∈ blockAll ranges ↔ LegalIdx ranges idx := sorry
theorem blockAll_nodup (ranges : List Nat) : (blockAll ranges).Nodup := sorry
theorem length_blockAll (ranges : List Nat) : (blockAll ranges).length = blockSize ranges := sorry

/-- identifiers of legal indices stay inside the group's range -/
theorem blockId_range {ranges idx : List Nat} (start : Nat) (h : LegalIdx ranges idx) :
    start ≤ blockId start ranges idx ∧ blockId start ranges idx < start + blockSize ranges := sorry

/-- contiguity, in enumeration order -/
theorem blockAll_ids (start : Nat) (ranges : List Nat) :
    (blockAll ranges).map (blockId start ranges) = List.range' start (blockSize ranges) := sorry

/-- index → id → index, for the positive and the negative literal -/
theorem blockIndex_blockId {ranges idx : List Nat} (start : Nat) (h : LegalIdx ranges idx) :
    blockIndex start ranges (blockId start ranges idx : Int) = .ok idx ∧
    blockIndex start ranges (-(blockId start ranges idx : Int)) = .ok idx := sorry

/-- id → index → id -/
theorem blockId_blockIndex {ranges idx : List Nat} {start : Nat} {lit : Int}
    (h : blockIndex start ranges lit = .ok idx) :
    LegalIdx ranges idx ∧ blockId start ranges idx = lit.natAbs := sorry

/-- `to_index` is defined exactly on the literals of the group, ValueError otherwise -/
theorem blockIndex_isOk_iff (start : Nat) (ranges : List Nat) (lit : Int) :
    (∃ idx, blockIndex start ranges lit = .ok idx) ↔
      (start ≤ lit.natAbs ∧ lit.natAbs < start + blockSize ranges) := sorry
theorem blockIndex_error {start : Nat} {ranges : List Nat} {lit : Int} {e : Err}
    (h : blockIndex start ranges lit = .error e) : e = .valueError := sorry

/-- `indices()` without arguments: all legal indices -/
theorem blockIndices_nil (ranges : List Nat) : blockIndices ranges [] = .ok (blockAll ranges) := sorry

/-- a pattern is acceptable iff it has the right arity and every fixed entry is within its range -/
def LegalPat (ranges : List Nat) (pat : Pattern) : Prop :=
  List.Forall₂ (fun (p : Option Int) r => ∀ x, p = some x → 1 ≤ x ∧ x ≤ (r : Int)) pat ranges

/-- wildcard patterns enumerate exactly the matching indices, in identifier order -/
theorem blockIndices_pattern {ranges : List Nat} {pat : Pattern} (hp : pat ≠ []) :
    (LegalPat ranges pat → blockIndices ranges pat = .ok ((blockAll ranges).filter (patMatches pat))) ∧
    (¬ LegalPat ranges pat → blockIndices ranges pat = .error .valueError) := sorry

/-- a full index (no `None`) is accepted iff it is legal, and then it is the only result -/
theorem blockIndices_full {ranges : List Nat} {idx : List Nat} (hne : idx ≠ []) :
    (LegalIdx ranges idx → blockIndices ranges (idx.map (fun i => some (i : Int))) = .ok [idx]) ∧
    (¬ LegalIdx ranges idx → blockIndices ranges (idx.map (fun i => some (i : Int))) = .error .valueError) := sorry

/-- the ids of a filtered enumeration are strictly increasing (id order) -/
theorem blockAll_filter_ids_sorted (start : Nat) (ranges : List Nat) (p : List Nat → Bool) :
    (((blockAll ranges).filter p).map (blockId start ranges)).Pairwise (· < ·) := sorry

end Vars
end Cnfgen
