/-
Lemmas about the pebbling formula model (`Fam/Pebbling.lean`): well-formedness, variable count,
exact axioms, unsatisfiability on every DAG in topological order with at least one vertex.
-/
import CnfgenModel.Fam.Pebbling
import Lemmas.FamC03aBasic
namespace Cnfgen.Fam.Pebbling
open Cnfgen.FamC03a

theorem mem_verts {n v : Nat} : v ∈ verts n ↔ 1 ≤ v ∧ v ≤ n := by
  simp only [verts, List.mem_map, List.mem_range]
  constructor
  · rintro ⟨a, ha, rfl⟩; omega
  · intro h; exact ⟨v - 1, by omega, by omega⟩

/-- the facts about a directed graph object that the pebbling theorems use: it is a DAG whose
vertex numbering is a topological order, and its predecessor / successor lists stay inside
`1..n`.  (Every `DirectedGraph` built by `add_edge` with `is_dag()` true satisfies this; that is
C16's invariant, assumed here as a hypothesis.) -/
structure TopoDAG (D : DiG) : Prop where
  pred_lt : ∀ v, 1 ≤ v → v ≤ D.n → ∀ p ∈ D.preds v, 1 ≤ p ∧ p < v
  succ_gt : ∀ v, 1 ≤ v → v ≤ D.n → ∀ s ∈ D.succs v, v < s ∧ s ≤ D.n

/-- identifier of `x(v)` -/
def xvar (n v : Nat) : Nat := Vars.blockId 1 [n] [v]

theorem xvar_eq (n v : Nat) (h : 1 ≤ v) : xvar n v = v := by
  simp [xvar, Vars.blockId, Vars.weights]; omega

theorem xvar_pos (n v : Nat) : 1 ≤ xvar n v := by
  simp [xvar, Vars.blockId, Vars.weights]

theorem x_eq (n v : Nat) : x n v = (xvar n v : Int) := rfl

/-- the documented axioms: a vertex all of whose predecessors are pebbled is pebbled (sources:
no predecessor), and no sink is pebbled -/
def PebSpec (D : DiG) (pebbled : Nat → Prop) : Prop :=
  ∀ v, 1 ≤ v → v ≤ D.n →
    ((∀ p ∈ D.preds v, pebbled p) → pebbled v) ∧ (D.succs v = [] → ¬ pebbled v)

theorem propClause_holds (D : DiG) (α : Assign) (v : Nat) :
    clauseHolds α ((D.preds v).map (fun p => - x D.n p) ++ [x D.n v]) = true ↔
      ((∀ p ∈ D.preds v, α (xvar D.n p) = true) → α (xvar D.n v) = true) := by
  rw [cl_append, Bool.or_eq_true]
  simp only [x_eq]
  rw [cl_map_neg, cl_cons, cl_nil, Bool.or_false, lit_pos _ _ (xvar_pos _ _)]
  constructor
  · rintro (⟨p, hp, hf⟩ | h) hall
    · rw [hall p hp] at hf; cases hf
    · exact h
  · intro h
    by_cases hex : ∃ p ∈ D.preds v, α (xvar D.n p) = false
    · exact Or.inl hex
    · right
      refine h (fun p hp => ?_)
      cases hα : α (xvar D.n p)
      · exact absurd ⟨p, hp, hα⟩ hex
      · rfl

theorem sinkClause_holds (D : DiG) (α : Assign) (v : Nat) :
    clauseHolds α [- x D.n v] = true ↔ ¬ (α (xvar D.n v) = true) := by
  rw [cl_cons, cl_nil, Bool.or_false, x_eq, lit_neg]
  cases α (xvar D.n v) <;> simp

theorem peb_holds_iff (D : DiG) (α : Assign) :
    (peb D).holds α = true ↔ PebSpec D (fun v => α (xvar D.n v) = true) := by
  simp only [Formula.holds, peb, List.all_eq_true, List.mem_flatMap, mem_verts, PebSpec]
  constructor
  · intro h v hv1 hv2
    constructor
    · exact (propClause_holds D α v).1 (h (Con.clause _) ⟨v, ⟨hv1, hv2⟩, List.mem_cons_self ..⟩)
    · intro hs
      refine (sinkClause_holds D α v).1 (h (Con.clause _) ⟨v, ⟨hv1, hv2⟩, ?_⟩)
      simp [hs]
  · rintro h c ⟨v, ⟨hv1, hv2⟩, hc⟩
    obtain ⟨h1, h2⟩ := h v hv1 hv2
    rw [List.mem_cons] at hc
    rcases hc with rfl | hc
    · exact (propClause_holds D α v).2 h1
    · split at hc
      · rename_i hlen
        simp only [List.mem_singleton] at hc
        subst hc
        refine (sinkClause_holds D α v).2 (h2 ?_)
        simpa using hlen
      · simp at hc

theorem peb_nvars (D : DiG) : (peb D).nvars = D.n := rfl

theorem peb_wf (D : DiG) (h : TopoDAG D) : (peb D).WF := by
  intro c hc l hl
  simp only [peb, List.mem_flatMap, mem_verts] at hc
  obtain ⟨v, ⟨hv1, hv2⟩, hc⟩ := hc
  have hx : ∀ u, 1 ≤ u → u ≤ D.n → (x D.n u ≠ 0 ∧ (x D.n u).natAbs ≤ D.n) ∧
      (- x D.n u ≠ 0 ∧ (- x D.n u).natAbs ≤ D.n) := by
    intro u h1 h2
    rw [x_eq, xvar_eq _ _ h1]; omega
  rw [List.mem_cons] at hc
  rcases hc with rfl | hc
  · simp only [Con.lits, List.mem_append, List.mem_map, List.mem_singleton] at hl
    rcases hl with ⟨p, hp, rfl⟩ | rfl
    · have := h.pred_lt v hv1 hv2 p hp
      exact (hx p this.1 (by omega)).2
    · exact (hx v hv1 hv2).1
  · split at hc
    · simp only [List.mem_singleton] at hc
      subst hc
      simp only [Con.lits, List.mem_singleton] at hl
      subst hl
      exact (hx v hv1 hv2).2
    · simp at hc

/-- strong induction along the topological order: every vertex is pebbled -/
theorem all_pebbled (D : DiG) (h : TopoDAG D) (pebbled : Nat → Prop) (hs : PebSpec D pebbled) :
    ∀ v, 1 ≤ v → v ≤ D.n → pebbled v := by
  intro v
  induction v using Nat.strongRecOn with
  | _ v ih =>
    intro hv1 hv2
    refine (hs v hv1 hv2).1 (fun p hp => ?_)
    have := h.pred_lt v hv1 hv2 p hp
    exact ih p this.2 this.1 (by omega)

theorem pebSpec_false (D : DiG) (h : TopoDAG D) (hn : 1 ≤ D.n) (pebbled : Nat → Prop) :
    ¬ PebSpec D pebbled := by
  intro hs
  have hp := all_pebbled D h pebbled hs D.n hn (Nat.le_refl _)
  have hsink : D.succs D.n = [] := by
    cases hsu : D.succs D.n with
    | nil => rfl
    | cons s t =>
      have := h.succ_gt D.n hn (Nat.le_refl _) s (by rw [hsu]; exact List.mem_cons_self ..)
      omega
  exact (hs D.n hn (Nat.le_refl _)).2 hsink hp

theorem peb_unsat (D : DiG) (h : TopoDAG D) (hn : 1 ≤ D.n) : ¬ ∃ α, (peb D).holds α = true := by
  rintro ⟨α, hα⟩
  exact pebSpec_false D h hn _ ((peb_holds_iff D α).1 hα)

end Cnfgen.Fam.Pebbling
