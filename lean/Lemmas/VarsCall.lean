/-
`vg(*index)` (`Group.call`): a legal full index gives its identifier, anything else is rejected;
a projection pattern gives the identifiers of `indices(*pattern)`.
-/
import Lemmas.VarsGroup
namespace Cnfgen
namespace Vars

/-- a full index written as a pattern (no `None`) -/
def natPat (idx : List Nat) : Pattern := idx.map (fun (i : Nat) => some (i : Int))

theorem isProjection_natPat {idx : List Nat} (hne : idx ≠ []) : isProjection (natPat idx) = false := by
  cases idx with
  | nil => exact absurd rfl hne
  | cons a as =>
    simp only [isProjection, natPat, List.map_cons, List.isEmpty_cons, Bool.false_or]
    induction as generalizing a with
    | nil => simp
    | cons b bs ih =>
      have := ih b
      simp only [List.contains_cons, List.map_cons] at this ⊢
      simp at this ⊢

theorem patternNats_natPat (w : List Nat) : patternNats (natPat w) = some w := patternNats_map_some' w

/-- a projection pattern: the identifiers of the matching indices, in the order of `indices` -/
theorem baseCall_of_projection {g : Group} {pat : Pattern} (hp : isProjection pat = true) :
    g.baseCall pat = (g.indices pat).map (fun L => Res.many (L.map g.unsafeId)) := by
  simp only [Group.baseCall, hp, if_true, bind, Except.bind, pure, Except.pure, Except.map]

/-- `vg()` on a well-formed group that is not a word group: all identifiers, in order -/
theorem call_nil_base {g : Group} (h : g.WF) (hb : g.call [] = g.baseCall []) :
    g.call [] = .ok (.many (List.range' g.start g.len)) := by
  obtain ⟨idxs, h1, h2⟩ := Group.indices_nil h
  rw [hb, baseCall_of_projection (by rfl), h1]
  simp [Except.map, h2]

/-! ### block -/

theorem block_call_full (s : Nat) (ranges : List Nat) (f : String) {idx : List Nat} (hne : idx ≠ []) :
    (LegalIdx ranges idx → (Group.block s ranges f).call (natPat idx) = .ok (.one (blockId s ranges idx))) ∧
    (¬ LegalIdx ranges idx → (Group.block s ranges f).call (natPat idx) = .error .valueError) := by
  have hp := isProjection_natPat hne
  have hf := blockIndices_full (ranges := ranges) hne
  constructor
  · intro hl
    have := hf.1 hl
    have hp' : isProjection (List.map (fun (i : Nat) => some (i : Int)) idx) = false := hp
    simp only [Group.call, Group.baseCall, Group.indices, natPat, this, hp', bind, Except.bind, pure, Except.pure]
    simp [Group.unsafeId]
  · intro hl
    have := hf.2 hl
    simp only [Group.call, Group.baseCall, Group.indices, natPat, this, bind, Except.bind]

/-! ### words -/

theorem word_call_full {s : Nat} {seqs : List (List Nat)} (f : String) (hnd : seqs.Nodup) (w : List Nat) (hne : w ≠ []) :
    (w ∈ seqs → (Group.word s seqs f).call (natPat w) = .ok (.one (s + seqs.idxOf w))) ∧
    (w ∉ seqs → (Group.word s seqs f).call (natPat w) = .error .valueError) := by
  have hpn := patternNats_natPat w
  have hne' : (natPat w).isEmpty = false := by
    cases w with
    | nil => exact absurd rfl hne
    | cons a as => rfl
  constructor
  · intro hm
    have : seq2vid s seqs w = some (s + seqs.idxOf w) := by
      rw [seq2vid_eq_wordId hnd]
      simp [wordId, List.idxOf_lt_length_iff.2 hm]
    simp [Group.call, hpn, this]
  · intro hm
    have : seq2vid s seqs w = none := by
      cases hh : seq2vid s seqs w with
      | none => rfl
      | some v =>
        have := (seq2vid_isSome_iff s seqs w).1 (by simp [hh])
        exact absurd this hm
    simp [Group.call, hpn, this, hne']

/-- a pattern with `None` or a negative entry is never an index of a word group -/
theorem word_call_wildcard (s : Nat) (seqs : List (List Nat)) (f : String) {pat : Pattern}
    (hne : pat ≠ []) (hp : patternNats pat = none) :
    (Group.word s seqs f).call pat = .error .valueError ∧ (Group.word s seqs f).indices pat = .error .valueError := by
  have hne' : pat.isEmpty = false := by cases pat <;> simp_all
  simp [Group.call, Group.indices, hp, hne']

/-! ### edges -/

theorem bip_call_full {G : BipG} (h : G.WF) (s : Nat) (f : String) (un : Bool) (u v : Int) :
    (Group.bip s G f un).call [some u, some v] =
      if 0 ≤ u ∧ 0 ≤ v ∧ (u.toNat, v.toNat) ∈ G.edgeset then .ok (.one (bipId G s u.toNat v.toNat))
      else .error .valueError := by
  have := bipIndices_edge h u v
  simp only [Group.call, Group.baseCall, Group.indices, this, bind, Except.bind, pure, Except.pure]
  by_cases hc : 0 ≤ u ∧ 0 ≤ v ∧ (u.toNat, v.toNat) ∈ G.edgeset
  · simp [hc, Except.map, pairList, isProjection, Group.unsafeId]
  · simp [hc, Except.map]

/-- simple graphs: the pair is unordered -/
theorem graph_call_sym (s : Nat) (B : BipG) (f : String) (u v : Int) :
    (Group.graph s B f).call [some u, some v] = (Group.graph s B f).call [some v, some u] ∧
    (Group.graph s B f).indices [some u, some v] = (Group.graph s B f).indices [some v, some u] := by
  have h1 : isProjection [some u, some v] = isProjection [some v, some u] := by simp [isProjection]
  simp only [Group.call, Group.baseCall, Group.indices, graphIndices_two, Int.min_comm u v, Int.max_comm u v, h1]
  exact ⟨trivial, trivial⟩

end Vars
end Cnfgen
