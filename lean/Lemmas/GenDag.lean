/-
Helper lemmas for the translated DAG constructions (`Props/C15/Generated.lean`): each translated loop appends the
model's list of `add_edge` calls to the log.
-/
import CnfgenModel.Generated.Funcs
import CnfgenModel.Graph.Build
import Lemmas.PyFold
import Lemmas.GenBinary
set_option linter.unusedSimpArgs false
namespace Cnfgen.GenDag
open Cnfgen Cnfgen.PyGen Cnfgen.GBuild Cnfgen.GenVars

/-- `range(a, a + c + 1)` starts with `a` -/
theorem rangeI_succ (a : Int) (c : Nat) : rangeI a (a + ((c + 1 : Nat) : Int)) = a :: rangeI (a + 1) (a + 1 + (c : Int)) := by
  simp only [rangeI]
  have h1 : (a + ((c + 1 : Nat) : Int) - a).toNat = c + 1 := by omega
  have h2 : (a + 1 + (c : Int) - (a + 1)).toNat = c := by omega
  rw [h1, h2, List.range_succ_eq_map, List.map_cons, List.map_map]
  congr 1
  · simp
  · apply List.map_congr_left
    intro i _
    simp only [Function.comp]
    push_cast
    omega

theorem rangeI_empty (a : Int) : rangeI a a = [] := by simp [rangeI]

/-! ### dag_path -/

theorem path_loop (n : Int) (log : List (Int × Int)) (l : List Int) :
    List.foldl (fun (D : Int × List (Int × Int)) (i : Int) => (D.1, D.2 ++ [(i, i + 1)])) (n, log) l =
      (n, log ++ l.map (fun i => (i, i + 1))) := by
  induction l generalizing log with
  | nil => simp
  | cons x xs ih => simp [ih]

/-! ### dag_complete_binary_tree -/

/-- one round of the loop: two `add_edge` calls, `leftsrc += 2` -/
def treeStep (st : (Int × List (Int × Int)) × Int) (dest : Int) : (Int × List (Int × Int)) × Int :=
  ((st.1.1, st.1.2 ++ [(st.2, dest)] ++ [(st.2 + 1, dest)]), st.2 + 2)

theorem tree_loop (n : Int) (c : Nat) (log : List (Int × Int)) (ls d : Nat) :
    List.foldl treeStep ((n, log), (ls : Int)) (rangeI (d : Int) ((d : Int) + (c : Int))) =
      ((n, log ++ intPairs (treeLoop ls d c)), ((ls + 2 * c : Nat) : Int)) := by
  induction c generalizing log ls d with
  | zero => simp [rangeI_empty, treeLoop, intPairs]
  | succ c ih =>
    rw [rangeI_succ, List.foldl_cons]
    have hstep : treeStep ((n, log), (ls : Int)) (d : Int) =
        ((n, log ++ [((ls : Int), (d : Int)), ((ls : Int) + 1, (d : Int))]), ((ls + 2 : Nat) : Int)) := by
      simp [treeStep]
    have hd : ((d : Int) + 1) = ((d + 1 : Nat) : Int) := by push_cast; rfl
    rw [hstep, hd, ih]
    have e1 : ls + 2 + 2 * c = ls + 2 * (c + 1) := by omega
    rw [e1]
    simp [treeLoop, intPairs]

/-! ### dag_pyramid -/

/-- one round of the inner loop: two `add_edge` calls, `leftsrc += 1`, `dest += 1` -/
def rowStep (st : (Int × List (Int × Int)) × Int × Int) (_i : Int) : (Int × List (Int × Int)) × Int × Int :=
  ((st.1.1, st.1.2 ++ [(st.2.1, st.2.2)] ++ [(st.2.1 + 1, st.2.2)]), st.2.1 + 1, st.2.2 + 1)

theorem row_loop (n : Int) (c : Nat) (log : List (Int × Int)) (ls d : Nat) (l : List Int) (hl : l.length = c) :
    List.foldl rowStep ((n, log), (ls : Int), (d : Int)) l =
      ((n, log ++ intPairs (pyramidRow ls d c)), ((ls + c : Nat) : Int), ((d + c : Nat) : Int)) := by
  induction c generalizing log ls d l with
  | zero =>
    have : l = [] := List.length_eq_zero_iff.1 hl
    subst this
    simp [pyramidRow, intPairs]
  | succ c ih =>
    cases l with
    | nil => simp at hl
    | cons x xs =>
      rw [List.foldl_cons]
      have hstep : rowStep ((n, log), (ls : Int), (d : Int)) x =
          ((n, log ++ [((ls : Int), (d : Int)), ((ls : Int) + 1, (d : Int))]), ((ls + 1 : Nat) : Int), ((d + 1 : Nat) : Int)) := by
        simp [rowStep]
      rw [hstep, ih _ _ _ xs (by simpa using hl)]
      have e1 : ls + 1 + c = ls + (c + 1) := by omega
      have e2 : d + 1 + c = d + (c + 1) := by omega
      rw [e1, e2]
      simp [pyramidRow, intPairs]

/-- one round of the outer loop: a row of `height - layer + 1` steps, then `leftsrc += 1` -/
def layerStep (height : Int) (st : (Int × List (Int × Int)) × Int × Int) (layer : Int) :
    (Int × List (Int × Int)) × Int × Int :=
  let r := List.foldl rowStep st (Py.Range.toList (Py.Range.mk 1 (height - layer + 2)))
  (r.1, r.2.1 + 1, r.2.2)

theorem layers_loop (n : Int) (h : Nat) (rem : Nat) (log : List (Int × Int)) (ls d : Nat) (hrem : rem ≤ h) :
    (List.foldl (layerStep h) ((n, log), (ls : Int), (d : Int))
        (rangeI (((h - rem + 1 : Nat) : Int)) (((h - rem + 1 : Nat) : Int) + (rem : Int)))).1 =
      (n, log ++ intPairs (pyramidLayers ls d rem)) := by
  induction rem generalizing log ls d with
  | zero => simp [rangeI_empty, pyramidLayers, intPairs]
  | succ rem ih =>
    rw [rangeI_succ, List.foldl_cons]
    have hrow : Py.Range.toList (Py.Range.mk 1 ((h : Int) - ((h - (rem + 1) + 1 : Nat) : Int) + 2)) =
        rangeI 1 (1 + ((rem + 1 : Nat) : Int)) := by
      simp only [Py.Range.toList]; congr 1; omega
    have hstep : layerStep h ((n, log), (ls : Int), (d : Int)) ((h - (rem + 1) + 1 : Nat) : Int) =
        ((n, log ++ intPairs (pyramidRow ls d (rem + 1))), ((ls + rem + 2 : Nat) : Int), ((d + rem + 1 : Nat) : Int)) := by
      simp only [layerStep, hrow]
      rw [row_loop n (rem + 1) log ls d _ (by simp [rangeI])]
      congr 2
    have hnext : (((h - (rem + 1) + 1 : Nat) : Int) + 1) = ((h - rem + 1 : Nat) : Int) := by omega
    rw [hstep, hnext, ih _ _ _ (by omega)]
    simp [pyramidLayers, intPairs]

/-! ### bipartite_shift -/

theorem insertSorted_eq (l : List Int) (v : Int) : Py.insertSorted v l = insertInt l v := by
  induction l with
  | nil => rfl
  | cons x xs ih =>
    simp only [Py.insertSorted, insertInt, ih]
    by_cases h : v < x
    · have : ¬ x ≤ v := by omega
      simp [h, this]
    · have : x ≤ v := by omega
      simp [h, this]

theorem sorted_eq (l : List Int) : Py.sorted l = sortInt l := by
  unfold Py.sorted sortInt
  congr 1
  funext acc x
  exact insertSorted_eq acc x

/-- `a % M` for a positive `M`: Python's `%` is the mathematical one -/
theorem mod_pos (a : Int) (M : Nat) (hM : 0 < M) : Py.mod a (M : Int) = Except.ok (a % (M : Int)) := by
  have hne : ¬ ((M : Int) = 0) := by omega
  simp only [Py.mod, hne, if_false]
  rw [Int.fmod_eq_emod_of_nonneg _ (by omega)]

/-- the inner loop: one `add_edge(u, 1 + (u - 1 + offset) % M)` per offset -/
theorem shift_inner (M : Nat) (hM : 0 < M) (u : Int) (c : Int × Int) (log : List (Int × Int)) (pat : List Int) :
    List.foldlM (fun (G : (Int × Int) × List (Int × Int)) (offset : Int) =>
        (Py.mod (u - 1 + offset) (M : Int)) >>= fun r3 => Except.ok (G.1, G.2 ++ [(u, 1 + r3)])) (c, log) pat =
      Except.ok (c, log ++ pat.map (fun o => (u, 1 + (u - 1 + o) % (M : Int)))) := by
  induction pat generalizing log with
  | nil => simp
  | cons o os ih =>
    rw [List.foldlM_cons, mod_pos _ M hM, Py.ok_bind, Py.ok_bind, ih]
    simp

theorem shift_outer (M : Nat) (hM : 0 < M) (c : Int × Int) (log : List (Int × Int)) (pat : List Int) (us : List Nat) :
    List.foldlM (fun (G : (Int × Int) × List (Int × Int)) (u : Int) =>
        (List.foldlM (fun (G : (Int × Int) × List (Int × Int)) (offset : Int) =>
          (Py.mod (u - 1 + offset) (M : Int)) >>= fun r3 => Except.ok (G.1, G.2 ++ [(u, 1 + r3)])) G pat) >>=
          fun G => Except.ok G) (c, log) (ints us) =
      Except.ok (c, log ++ us.flatMap (fun (u : Nat) => pat.map (fun (o : Int) => ((u : Int), 1 + ((u : Int) - 1 + o) % (M : Int))))) := by
  induction us generalizing log with
  | nil => simp [ints]
  | cons u us ih =>
    simp only [ints, List.map_cons, List.foldlM_cons, Int.ofNat_eq_natCast] at ih ⊢
    rw [shift_inner M hM, Py.ok_bind, Py.ok_bind, ih]
    simp

end Cnfgen.GenDag
