/-
CliqueColoring: the pair enumeration `combinations(range(1, n+1), 2)` and its identifiers,
meaning of the clause shapes, the witness assignment.
-/
import Lemmas.C01Pigeon
import Lemmas.C01Combos
import CnfgenModel.Fam.CliqueColoring
namespace Cnfgen.Fam
open Cnfgen

theorem mem_pairs_mem {β : Type} (l : List β) (a b : β) (h : (a, b) ∈ pairs l) : a ∈ l ∧ b ∈ l := by
  have := mem_pairs_of_pairwise (R := fun _ _ => True) l (by simp [List.pairwise_iff_forall_sublist]) a b h
  exact ⟨this.1, this.2.1⟩

theorem nodup_pairs {β : Type} : ∀ (l : List β), l.Nodup → (pairs l).Nodup
  | [], _ => by simp [pairs]
  | x :: xs, h => by
    have hx : x ∉ xs := (List.nodup_cons.1 h).1
    have hxs := (List.nodup_cons.1 h).2
    simp only [pairs]
    rw [List.nodup_append]
    refine ⟨List.Nodup.map (fun a b hab => by simpa using hab) hxs, nodup_pairs xs hxs, ?_⟩
    intro a ha b hb hab
    simp only [List.mem_map] at ha
    obtain ⟨y, _, rfl⟩ := ha
    subst hab
    exact hx (mem_pairs_mem xs x y hb).1

theorem length_pairs {β : Type} : ∀ (l : List β), (pairs l).length = Nat.choose l.length 2
  | [] => by simp [pairs]
  | x :: xs => by
    simp only [pairs, List.length_append, List.length_map, length_pairs xs, List.length_cons,
      Nat.choose_succ_succ, Nat.choose_one_right]

/-- the variable `e_{u,v}` (`u < v`) of `new_combinations(n, 2)` -/
def ccEVar (n u v : Nat) : Nat := 1 + (pairs (idx n)).idxOf (u, v)

theorem ccEdges_eq (n : Nat) :
    ccEdges n = (pairs (idx n)).map (fun e => (e, (pairs (idx n)).idxOf e)) := by
  simp only [ccEdges]
  rw [zipIdx_eq_map_idxOf _ 0 (nodup_pairs _ (idx_nodup n))]
  simp

theorem ccEVar_le (n u v : Nat) (h : (u, v) ∈ pairs (idx n)) :
    1 ≤ ccEVar n u v ∧ ccEVar n u v ≤ (pairs (idx n)).length := by
  have := List.idxOf_lt_length_iff.2 h
  simp only [ccEVar]; omega

theorem ccEVar_inj (n : Nat) {u v u' v' : Nat} (h : (u, v) ∈ pairs (idx n))
    (he : ccEVar n u v = ccEVar n u' v') : u = u' ∧ v = v' := by
  have : (pairs (idx n)).idxOf (u, v) = (pairs (idx n)).idxOf (u', v') := by
    simp only [ccEVar] at he; omega
  have := (List.idxOf_inj h).1 this
  exact ⟨congrArg Prod.fst this, congrArg Prod.snd this⟩

theorem clause_three (α : Assign) (a b c : Int) :
    clauseHolds α [a, b, c] = (litHolds α a || litHolds α b || litHolds α c) := by
  simp [clauseHolds, Bool.or_assoc]

/-- the clique clauses -/
theorem cc_clique_holds (α : Assign) (q : UMap) (e : Nat) (i u j v : Nat) :
    clauseHolds α [((1 + e : Nat) : Int), -(q.lit i u), -(q.lit j v)] = true ↔
      (α (q.var i u) = true → α (q.var j v) = true → α (1 + e) = true) := by
  rw [clause_three, litHolds_natCast α (by omega)]
  simp only [UMap.lit, litHolds_neg_natCast]
  cases α (q.var i u) <;> cases α (q.var j v) <;> cases α (1 + e) <;> simp

/-- the colouring clauses -/
theorem cc_proper_holds (α : Assign) (r : UMap) (e : Nat) (u v l : Nat) :
    clauseHolds α [-((e : Nat) : Int), -(r.lit u l), -(r.lit v l)] = true ↔
      (α e = true → ¬ (α (r.var u l) = true ∧ α (r.var v l) = true)) := by
  rw [clause_three]
  simp only [UMap.lit, litHolds_neg_natCast]
  cases α (r.var u l) <;> cases α (r.var v l) <;> cases α e <;> simp

end Cnfgen.Fam

namespace Cnfgen.Fam
open Cnfgen

/-- the assignment describing a graph `E` (on pairs `u < v`), clique map `Q` and colouring `R` -/
def ccAssign (n k c : Nat) (E Q R : Nat → Nat → Bool) : Assign := fun x =>
  if x < 1 + (pairs (idx n)).length then
    E ((pairs (idx n)).getD (x - 1) (0, 0)).1 ((pairs (idx n)).getD (x - 1) (0, 0)).2
  else if x < 1 + (pairs (idx n)).length + k * n then (ccQ n k).assignOf Q x
  else (ccR n k c).assignOf R x

theorem ccAssign_e (n k c : Nat) (E Q R : Nat → Nat → Bool) {u v : Nat} (h : (u, v) ∈ pairs (idx n)) :
    ccAssign n k c E Q R (ccEVar n u v) = E u v := by
  have hlt := List.idxOf_lt_length_iff.2 h
  have h1 : ccEVar n u v < 1 + (pairs (idx n)).length := by simp only [ccEVar]; omega
  have h2 : ccEVar n u v - 1 = (pairs (idx n)).idxOf (u, v) := by simp only [ccEVar]; omega
  simp only [ccAssign, if_pos h1, h2]
  rw [List.getD_eq_getElem?_getD, List.getElem?_eq_getElem hlt, List.getElem_idxOf]
  rfl

theorem ccAssign_q (n k c : Nat) (E Q R : Nat → Nat → Bool) {i v : Nat}
    (hi1 : 1 ≤ i) (hi : i ≤ k) (hv1 : 1 ≤ v) (hv : v ≤ n) :
    ccAssign n k c E Q R ((ccQ n k).var i v) = Q i v := by
  have hlt := (ccQ n k).var_lt hi1 hi hv1 hv
  have hge := (ccQ n k).var_ge i v
  have := (ccQ n k).assignOf_var Q hi1 hv1 hv
  simp only [ccQ] at hlt hge
  have h1 : ¬ (ccQ n k).var i v < 1 + (pairs (idx n)).length := by simp only [ccQ]; omega
  have h2 : (ccQ n k).var i v < 1 + (pairs (idx n)).length + k * n := by simp only [ccQ]; omega
  simp only [ccAssign, if_neg h1, if_pos h2, this]

theorem ccAssign_r (n k c : Nat) (E Q R : Nat → Nat → Bool) {v l : Nat}
    (hv1 : 1 ≤ v) (hl1 : 1 ≤ l) (hl : l ≤ c) :
    ccAssign n k c E Q R ((ccR n k c).var v l) = R v l := by
  have hge := (ccR n k c).var_ge v l
  have := (ccR n k c).assignOf_var R hv1 hl1 hl
  simp only [ccR] at hge
  have h1 : ¬ (ccR n k c).var v l < 1 + (pairs (idx n)).length := by simp only [ccR]; omega
  have h2 : ¬ (ccR n k c).var v l < 1 + (pairs (idx n)).length + k * n := by simp only [ccR]; omega
  simp only [ccAssign, if_neg h1, if_neg h2, this]

end Cnfgen.Fam
