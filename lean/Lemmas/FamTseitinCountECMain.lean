/-
Even colouring, converse direction — assembly: colour the Euler circuit of every component
alternately.  If the circuit had odd length the base vertex would see two more `true` edges and
the handshake lemma (`closed_count_even`) would make the sum of the half-degrees over the
component odd; so under the parity hypothesis every circuit has even length and every vertex is
balanced.
-/
import Lemmas.FamTseitinCountECTrail
import Lemmas.FamTseitinCountECAlt
import Mathlib.Data.Sym.Sym2.Order
namespace Cnfgen
namespace Fam

variable {G : SimpleG}

/-- the edges of a trail at a vertex all of whose incident edges lie on the trail, counted through
the neighbour list -/
theorem trail_edges_at (hG : GoodGraph G) {u v : ℕ} (p : (toSG G).Walk u v) (ht : p.IsTrail)
    {x : ℕ} (hx : x ≤ G.n) (hcov : ∀ w ∈ G.nbrs x, s(x, w) ∈ p.edges) (P : Sym2 ℕ → Bool) :
    p.edges.countP (fun e => decide (x ∈ e) && P e) = (G.nbrs x).countP (fun w => P s(x, w)) := by
  have hperm : (p.edges.filter (fun e => decide (x ∈ e))).Perm ((G.nbrs x).map (fun w => s(x, w))) := by
    apply (List.perm_ext_iff_of_nodup (ht.edges_nodup.filter _) _).2
    · intro e
      simp only [List.mem_filter, decide_eq_true_eq, List.mem_map]
      constructor
      · rintro ⟨he, hxe⟩
        obtain ⟨w, rfl⟩ := Sym2.mem_iff_exists.1 hxe
        exact ⟨w, ((toSG_adj hG).1 (p.adj_of_mem_edges he)).2, rfl⟩
      · rintro ⟨w, hw, rfl⟩
        exact ⟨hcov w hw, Sym2.mem_mk_left x w⟩
    · exact (hG.nodup hx).map (fun a b h => Sym2.congr_right.1 h)
  have h1 : p.edges.countP (fun e => decide (x ∈ e) && P e) =
      (p.edges.filter (fun e => decide (x ∈ e))).countP P := by
    rw [List.countP_filter]
    apply List.countP_congr
    intro e _
    simp [Bool.and_comm]
  rw [h1, hperm.countP_eq, List.countP_map]
  rfl

open Classical in
/-- the assignment of the edge variables that gives the edge `{a,b}` the value `c s(a,b)` -/
noncomputable def assignOf (G : SimpleG) (c : Sym2 ℕ → Bool) : Assign :=
  fun i => decide (∃ a b, a ≤ G.n ∧ b ∈ G.nbrs a ∧ edgeId G 1 b a = i ∧ c s(a, b) = true)

open Classical in
theorem assignOf_edge (hG : GoodGraph G) (c : Sym2 ℕ → Bool) {x w : ℕ} (hx : x ≤ G.n)
    (hw : w ∈ G.nbrs x) : assignOf G c (edgeId G 1 w x) = c s(x, w) := by
  unfold assignOf
  by_cases hc : c s(x, w) = true
  · rw [hc, decide_eq_true_eq]
    exact ⟨x, w, hx, hw, rfl, hc⟩
  · rw [Bool.not_eq_true] at hc
    rw [hc, decide_eq_false_iff_not]
    rintro ⟨a, b, ha, hb, he, hcab⟩
    rcases edgeId_inj' hG 1 ha hb hx hw he with ⟨rfl, rfl⟩ | ⟨rfl, rfl⟩
    · rw [hc] at hcab; cases hcab
    · rw [Sym2.eq_swap, hc] at hcab; cases hcab

theorem vcount_assignOf (hG : GoodGraph G) (c : Sym2 ℕ → Bool) {x : ℕ} (hx : x ≤ G.n) :
    vcount G (assignOf G c) x = (G.nbrs x).countP (fun w => c s(x, w)) := by
  unfold vcount
  apply List.countP_congr
  intro w hw
  rw [assignOf_edge hG c hx hw]

/-- handshake over a closed vertex set, vertices `1..n` -/
theorem closed_vcount_even (hG : GoodGraph G) (α : Assign) (C : Nat → Bool)
    (hC : ∀ v u, C v = true → u ∈ G.nbrs v → C u = true) :
    Even (∑ v ∈ (Finset.Icc 1 G.n).filter (fun v => C v = true), vcount G α v) := by
  have heven := closed_count_even G hG α C hC
  have : ∑ v ∈ (Finset.Icc 1 G.n).filter (fun v => C v = true), vcount G α v =
      ∑ a ∈ Finset.range (G.n + 1),
        (if C a = true then (G.nbrs a).countP (fun u => α (edgeId G 1 u a)) else 0) := by
    rw [Finset.sum_filter]
    have hsub : Finset.Icc 1 G.n ⊆ Finset.range (G.n + 1) := by
      intro x hx; simp only [Finset.mem_Icc] at hx; simp only [Finset.mem_range]; omega
    rw [← Finset.sum_subset hsub]
    · rfl
    · intro x hx hnx
      simp only [Finset.mem_range] at hx
      simp only [Finset.mem_Icc, not_and, not_le] at hnx
      have : x = 0 := by
        rcases Nat.eq_zero_or_pos x with h0 | h0
        · exact h0
        · have := hnx h0; omega
      subst this
      simp [hG.1]
  rw [this]
  exact heven

/-- one component: a colouring of the edges that balances every vertex of the component -/
theorem comp_colouring (hG : GoodGraph G)
    (hdeg : ∀ v, 1 ≤ v → v ≤ G.n → (G.nbrs v).length % 2 = 0) {r : ℕ} (hr : r ∈ reps G)
    (hpar : Even (∑ v ∈ (Finset.Icc 1 G.n).filter (fun v => compSet G r v = true),
      (G.nbrs v).length / 2)) :
    ∃ c : Sym2 ℕ → Bool, ∀ x, Reach G r x →
      (G.nbrs x).countP (fun w => c s(x, w)) = (G.nbrs x).length / 2 := by
  have hr' := (mem_reps.1 hr).1
  obtain ⟨u, p, hru, ht, hcov⟩ := exists_euler_circuit hG hdeg hr'
  refine ⟨altCol p.edges, ?_⟩
  -- the balance equation at every vertex of the component
  have hbal : ∀ x, Reach G r x →
      2 * (G.nbrs x).countP (fun w => altCol p.edges s(x, w)) =
        (G.nbrs x).length + (if x = u ∧ p.length % 2 = 1 then 2 else 0) := by
    intro x hx
    have hxr := reach_range hG hr' hx
    have hc : ∀ w ∈ G.nbrs x, s(x, w) ∈ p.edges := fun w hw => hcov x w hx hw
    have h1 := alt_balance p ht x
    rw [trail_edges_at hG p ht hxr.2 hc, trail_edges_at hG p ht hxr.2 hc (fun e => !altCol p.edges e)]
      at h1
    have h2 := List.length_eq_countP_add_countP (fun w => altCol p.edges s(x, w)) (l := G.nbrs x)
    have h3 : (G.nbrs x).countP (fun w => !altCol p.edges s(x, w)) =
        (G.nbrs x).countP (fun a => decide ¬(fun w => altCol p.edges s(x, w)) a = true) := by
      apply List.countP_congr
      intro w _
      simp
    rw [← h3] at h2
    omega
  by_cases hodd : p.length % 2 = 1
  · -- impossible: the handshake lemma contradicts the parity hypothesis
    exfalso
    have hur := reach_range hG hr' hru
    have hev := closed_vcount_even hG (assignOf G (altCol p.edges)) (compSet G r) (compSet_closed hG r)
    have hsum : ∑ v ∈ (Finset.Icc 1 G.n).filter (fun v => compSet G r v = true),
          vcount G (assignOf G (altCol p.edges)) v =
        ∑ v ∈ (Finset.Icc 1 G.n).filter (fun v => compSet G r v = true),
          ((G.nbrs v).length / 2 + (if v = u then 1 else 0)) := by
      apply Finset.sum_congr rfl
      intro v hv
      rw [Finset.mem_filter, Finset.mem_Icc] at hv
      have hv' := (compSet_iff_reach hG hr v).1 hv.2
      rw [vcount_assignOf hG _ hv.1.2]
      have hb := hbal v hv'
      have hd := hdeg v hv.1.1 hv.1.2
      by_cases hvu : v = u
      · rw [if_pos ⟨hvu, hodd⟩] at hb; rw [if_pos hvu]; omega
      · rw [if_neg (fun h => hvu h.1)] at hb; rw [if_neg hvu]; omega
    rw [hsum, Finset.sum_add_distrib, Finset.sum_ite_eq'] at hev
    have hu : u ∈ (Finset.Icc 1 G.n).filter (fun v => compSet G r v = true) := by
      rw [Finset.mem_filter, Finset.mem_Icc]
      exact ⟨hur, (compSet_iff_reach hG hr u).2 hru⟩
    rw [if_pos hu] at hev
    rw [Nat.even_iff] at hev hpar
    omega
  · intro x hx
    have hb := hbal x hx
    rw [if_neg (fun h => hodd h.2)] at hb
    omega

/-- the converse for the even-colouring formula: if all degrees are even and over every closed
vertex set the half-degrees add up to an even number, the formula is satisfiable -/
theorem evenColoring_converse (hG : GoodGraph G)
    (hdeg : ∀ v, 1 ≤ v → v ≤ G.n → (G.nbrs v).length % 2 = 0)
    (hpar : ∀ C : Nat → Bool, (∀ v u, C v = true → u ∈ G.nbrs v → C u = true) →
      Even (∑ v ∈ (Finset.Icc 1 G.n).filter (fun v => C v = true), (G.nbrs v).length / 2)) :
    ∃ α, EvenColoringSpec G α := by
  have h : ∀ r, ∃ c : Sym2 ℕ → Bool, r ∈ reps G → ∀ x, Reach G r x →
      (G.nbrs x).countP (fun w => c s(x, w)) = (G.nbrs x).length / 2 := by
    intro r
    by_cases hr : r ∈ reps G
    · obtain ⟨c, hc⟩ := comp_colouring hG hdeg hr (hpar _ (compSet_closed hG r))
      exact ⟨c, fun _ => hc⟩
    · exact ⟨fun _ => false, fun h => absurd h hr⟩
  choose cf hcf using h
  refine ⟨assignOf G (fun e => cf (rep G (Sym2.inf e)) e), ?_⟩
  intro x h1 h2
  change vcount G _ x = _
  rw [vcount_assignOf hG _ h2]
  have hrx := rep_mem_reps hG ⟨h1, h2⟩
  rw [← hcf (rep G x) hrx x (reach_symm hG (rep_reach x))]
  apply List.countP_congr
  intro w hw
  have : rep G (Sym2.inf s(x, w)) = rep G x := by
    rw [Sym2.inf_mk]
    rcases Nat.le_total x w with h | h
    · rw [inf_of_le_left h]
    · rw [inf_of_le_right h]
      exact rep_congr hG (reach_symm hG (reach_adj h2 hw))
  simp only [this]

end Fam
end Cnfgen
