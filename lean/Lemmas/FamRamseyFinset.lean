/-
Vertex sets as `Finset`s: the list-based statement of the Ramsey-number specification
(strictly increasing lists) is the same as the statement over finite sets of vertices.
-/
import Lemmas.FamRamsey
import Mathlib.Data.Finset.Sort
namespace Cnfgen.FamRamsey
open Cnfgen Cnfgen.Fam

/-- for a symmetric relation `R`: "every strictly increasing list of length `n` inside `1..N` contains
`u < v` with `R u v`" iff "every `n`-element set of vertices of `1..N` contains `u ≠ v` with `R u v`" -/
theorem sorted_lists_iff_finsets (N n : Nat) (R : Nat → Nat → Prop) (hsym : ∀ u v, R u v → R v u) :
    (∀ S : List Nat, (S.Pairwise (· < ·) ∧ ∀ x ∈ S, 1 ≤ x ∧ x ≤ N) → S.length = n →
        ∃ u ∈ S, ∃ v ∈ S, u < v ∧ R u v) ↔
    (∀ S : Finset Nat, (∀ x ∈ S, 1 ≤ x ∧ x ≤ N) → S.card = n → ∃ u ∈ S, ∃ v ∈ S, u ≠ v ∧ R u v) := by
  constructor
  · intro h S hS hcard
    have hp : (S.sort).Pairwise (· < ·) := (Finset.sortedLT_sort S).pairwise
    obtain ⟨u, hu, v, hv, huv, hR⟩ := h S.sort ⟨hp, fun x hx => hS x ((Finset.mem_sort _).1 hx)⟩
      (by rw [Finset.length_sort]; exact hcard)
    exact ⟨u, (Finset.mem_sort _).1 hu, v, (Finset.mem_sort _).1 hv, by omega, hR⟩
  · intro h S hS hlen
    have hnd : S.Nodup := hS.1.imp (by intro a b hab; omega)
    obtain ⟨u, hu, v, hv, huv, hR⟩ := h S.toFinset (fun x hx => hS.2 x (List.mem_toFinset.1 hx))
      (by rw [List.toFinset_card_of_nodup hnd]; exact hlen)
    rw [List.mem_toFinset] at hu hv
    rcases Nat.lt_or_gt_of_ne huv with hlt | hgt
    · exact ⟨u, hu, v, hv, hlt, hR⟩
    · exact ⟨v, hv, u, hu, hgt, hsym u v hR⟩

end Cnfgen.FamRamsey
