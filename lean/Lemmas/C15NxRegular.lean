/-
C15, `gnd`: `networkx.random_regular_graph(d, n)` as modelled in `Rand/NxDraws.lean` (pairing of stubs
after a shuffle, left-over stubs re-shuffled, restart when `_suitable` says no), for EVERY list of
shuffles on which the run is not `stuck`: what comes out is `d`-regular.  The proof does not look inside
`suitable` (whose quirk is modelled as written): restarting is always harmless.
-/
import Lemmas.C15NxBase
import CnfgenModel.Rand.NxDraws
namespace Cnfgen.Nx
open Cnfgen

/-- number of edges of the list incident to `v` -/
def inc (es : List (Nat × Nat)) (v : Nat) : Nat := es.countP (fun e => e.1 == v || e.2 == v)

theorem inc_append (es fs : List (Nat × Nat)) (v : Nat) : inc (es ++ fs) v = inc es v + inc fs v := by
  simp [inc, List.countP_append]

/-! ### `potential_edges` -/
theorem count_stubsOf_bump (pot : List (Nat × Nat)) (s v : Nat) :
    (stubsOf (bump pot s)).count v = (stubsOf pot).count v + (if s = v then 1 else 0) := by
  induction pot with
  | nil => simp [bump, stubsOf, List.count_cons]
  | cons p rest ih =>
    obtain ⟨k, c⟩ := p
    simp only [bump]
    split
    · rename_i hk
      subst hk
      simp only [stubsOf, List.flatMap_cons, List.count_append, List.count_replicate, beq_iff_eq]
      split <;> omega
    · simp only [stubsOf, List.flatMap_cons, List.count_append] at ih ⊢
      rw [ih]; omega

theorem length_stubsOf_bump (pot : List (Nat × Nat)) (s : Nat) :
    (stubsOf (bump pot s)).length = (stubsOf pot).length + 1 := by
  induction pot with
  | nil => simp [bump, stubsOf]
  | cons p rest ih =>
    obtain ⟨k, c⟩ := p
    simp only [bump]
    split
    · simp only [stubsOf, List.flatMap_cons, List.length_append, List.length_replicate]; omega
    · simp only [stubsOf, List.flatMap_cons, List.length_append] at ih ⊢
      rw [ih]; omega

/-! ### one round of pairing -/

/-- the pairing loop keeps the edges oriented, in range and distinct, and moves every stub either into
an edge or into `potential_edges` -/
theorem pairUp_spec (n : Nat) : ∀ (k : Nat) (l : List Nat) (edges pot : List (Nat × Nat)), l.length = 2 * k →
    (∀ e ∈ edges, e.1 < e.2 ∧ e.2 < n) → edges.Nodup → (∀ x ∈ l, x < n) →
    (∀ e ∈ (pairUp edges pot l).1, e.1 < e.2 ∧ e.2 < n) ∧ (pairUp edges pot l).1.Nodup ∧
    (∀ v, inc (pairUp edges pot l).1 v + (stubsOf (pairUp edges pot l).2).count v =
      inc edges v + (stubsOf pot).count v + l.count v) ∧
    2 * (pairUp edges pot l).1.length + (stubsOf (pairUp edges pot l).2).length =
      2 * edges.length + (stubsOf pot).length + l.length := by
  intro k
  induction k with
  | zero =>
    intro l edges pot hl hO hN _
    have : l = [] := List.eq_nil_of_length_eq_zero (by omega)
    subst this
    simp only [pairUp]
    exact ⟨hO, hN, by intro v; simp, by simp⟩
  | succ k ih =>
    intro l edges pot hl hO hN hR
    match l, hl with
    | a :: b :: rest, hl =>
      have hrest : rest.length = 2 * k := by simp at hl; omega
      have ha : a < n := hR a (by simp)
      have hb : b < n := hR b (by simp)
      have hRr : ∀ x ∈ rest, x < n := fun x hx => hR x (by simp [hx])
      simp only [pairUp]
      split
      · rename_i hacc
        obtain ⟨hne, hnew⟩ := hacc
        have hnew' : (min a b, max a b) ∉ edges := by simpa using hnew
        have hO' : ∀ e ∈ edges ++ [(min a b, max a b)], e.1 < e.2 ∧ e.2 < n := by
          intro e he
          rcases List.mem_append.1 he with he | he
          · exact hO e he
          · simp only [List.mem_singleton] at he; subst he; simp only; omega
        have hN' : (edges ++ [(min a b, max a b)]).Nodup := by
          rw [List.nodup_append]
          exact ⟨hN, by simp, by intro x hx y hy; simp only [List.mem_singleton] at hy; subst hy; intro h; subst h; exact hnew' hx⟩
        obtain ⟨g1, g2, g3, g4⟩ := ih rest (edges ++ [(min a b, max a b)]) pot hrest hO' hN' hRr
        refine ⟨g1, g2, ?_, ?_⟩
        · intro v
          rw [g3 v, inc_append]
          simp only [inc, List.countP_cons, List.countP_nil, List.count_cons, beq_iff_eq, Bool.or_eq_true]
          have h1 : (if (min a b = v ∨ max a b = v) then 1 else 0) = (if a = v then 1 else 0) + (if b = v then 1 else 0) := by
            split <;> split <;> split <;> omega
          simp only [Nat.zero_add]
          omega
        · rw [g4]; simp only [List.length_append, List.length_cons, List.length_nil]; omega
      · obtain ⟨g1, g2, g3, g4⟩ := ih rest edges (bump (bump pot (min a b)) (max a b)) hrest hO hN hRr
        refine ⟨g1, g2, ?_, ?_⟩
        · intro v
          rw [g3 v, count_stubsOf_bump, count_stubsOf_bump]
          simp only [List.count_cons, beq_iff_eq]
          have h1 : (if min a b = v then 1 else 0) + (if max a b = v then 1 else 0) =
              (if a = v then 1 else 0) + (if b = v then 1 else 0) := by
            split <;> split <;> split <;> split <;> omega
          omega
        · rw [g4, length_stubsOf_bump, length_stubsOf_bump]; simp only [List.length_cons]; omega

/-! ### the invariant of the run -/

/-- what every state of `random_regular_graph` satisfies: edges oriented, in range, distinct; every
node has `d` incidences, counting its edges and its remaining stubs -/
structure RegInv (n d : Nat) (es : List (Nat × Nat)) (stubs : List Nat) : Prop where
  orient : ∀ e ∈ es, e.1 < e.2 ∧ e.2 < n
  nodup : es.Nodup
  bal : ∀ v, inc es v + stubs.count v = if v < n then d else 0
  tot : 2 * es.length + stubs.length = n * d

theorem count_initialStubs (n d v : Nat) : (initialStubs n d).count v = if v < n then d else 0 := by
  unfold initialStubs
  induction d with
  | zero => simp
  | succ k ih =>
    rw [List.replicate_succ, List.flatten_cons, List.count_append, ih]
    have : (List.range n).count v = if v < n then 1 else 0 := by
      split
      · rename_i h; exact List.count_eq_one_of_mem List.nodup_range (List.mem_range.2 h)
      · rename_i h; exact List.count_eq_zero_of_not_mem (by simpa using h)
    rw [this]; split <;> omega

theorem length_initialStubs (n d : Nat) : (initialStubs n d).length = n * d := by
  unfold initialStubs
  induction d with
  | zero => simp
  | succ k ih => rw [List.replicate_succ, List.flatten_cons, List.length_append, ih, List.length_range, Nat.mul_succ]; omega

theorem regInv_init (n d : Nat) : RegInv n d [] (initialStubs n d) :=
  ⟨by simp, by simp, by intro v; simp [inc, count_initialStubs], by simp [length_initialStubs]⟩

/-- EVERY run that ends — after any number of rounds and restarts — ends in a state without stubs that
satisfies the invariant -/
theorem regularLoop_ok {n d : Nat} (heven : (n * d) % 2 = 0) : ∀ (ds : List NxDraw) (es : List (Nat × Nat))
    (stubs : List Nat) (es' : List (Nat × Nat)) (rest : List NxDraw), RegInv n d es stubs →
    regularLoop n d es stubs ds = .ok es' rest → RegInv n d es' [] ∧ ∃ used, ds = used ++ rest := by
  intro ds
  induction ds with
  | nil =>
    intro es stubs es' rest hI h
    simp only [regularLoop] at h
    split at h
    · rename_i he
      cases h
      have : stubs = [] := by simpa using he
      subst this
      exact ⟨hI, [], rfl⟩
    · cases h
  | cons dr ds ih =>
    intro es stubs es' rest hI h
    have hstop : ∀ (x : NxDraw), stubs.isEmpty = true → (NxOut.ok es (x :: ds) : NxOut _) = .ok es' rest →
        RegInv n d es' [] ∧ ∃ used, x :: ds = used ++ rest := by
      intro x he h
      cases h
      have : stubs = [] := by simpa using he
      subst this
      exact ⟨hI, [], rfl⟩
    match dr, h with
    | .shuffle before after, h =>
      simp only [regularLoop] at h
      split at h
      · rename_i he; exact hstop _ he h
      · split at h
        · rename_i hleg
          obtain ⟨_, hperm⟩ := hleg
          have hperm : after.Perm stubs := List.isPerm_iff.1 hperm
          have hlen : after.length = stubs.length := hperm.length_eq
          have hrange : ∀ x ∈ after, x < n := by
            intro x hx
            by_contra hge
            have hb := hI.bal x
            rw [if_neg hge] at hb
            have : 0 < stubs.count x := List.count_pos_iff.2 (hperm.subset hx)
            omega
          have hev : after.length = 2 * (after.length / 2) := by
            have := hI.tot; omega
          obtain ⟨g1, g2, g3, g4⟩ := pairUp_spec n (after.length / 2) after es [] hev hI.orient hI.nodup hrange
          have hnext : RegInv n d (pairUp es [] after).1 (stubsOf (pairUp es [] after).2) := by
            refine ⟨g1, g2, ?_, ?_⟩
            · intro v
              rw [g3 v, hperm.count_eq v]
              simp only [stubsOf, List.flatMap_nil, List.count_nil, Nat.add_zero]
              exact hI.bal v
            · rw [g4, hlen]
              simp only [stubsOf, List.flatMap_nil, List.length_nil, Nat.add_zero]
              exact hI.tot
          split at h
          · obtain ⟨r1, used, r2⟩ := ih _ _ _ _ hnext h
            exact ⟨r1, .shuffle before after :: used, by simp [r2]⟩
          · obtain ⟨r1, used, r2⟩ := ih _ _ _ _ (regInv_init n d) h
            exact ⟨r1, .shuffle before after :: used, by simp [r2]⟩
        · cases h
    | .unit x, h =>
      simp only [regularLoop] at h
      split at h
      · rename_i he; exact hstop _ he h
      · cases h
    | .choice x, h =>
      simp only [regularLoop] at h
      split at h
      · rename_i he; exact hstop _ he h
      · cases h

/-! ### degrees from incidences -/

/-- in a graph built by distinct oriented calls the degree of a node is the number of calls it occurs in -/
theorem deg_eq_inc {G : NxG} (hW : G.WF) (hO : G.Oriented) (hN : G.tedges.Nodup) (v : Nat) :
    G.deg v = inc G.tedges v := by
  unfold NxG.deg inc
  rw [List.countP_eq_length_filter,
    ← List.length_map (f := fun e : Nat × Nat => if e.1 = v then e.2 else e.1)
      (as := G.tedges.filter (fun e => e.1 == v || e.2 == v))]
  apply List.Perm.length_eq
  rw [List.perm_ext_iff_of_nodup (NxG.nodup_nbrList _ _)]
  · intro s
    rw [NxG.mem_nbrList]
    simp only [List.mem_map, List.mem_filter, Bool.or_eq_true, beq_iff_eq, NxG.E]
    constructor
    · rintro ⟨_, h | h⟩
      · exact ⟨(v, s), ⟨h, Or.inl rfl⟩, by simp⟩
      · refine ⟨(s, v), ⟨h, Or.inr rfl⟩, ?_⟩
        have := hO _ h
        simp only at this ⊢
        rw [if_neg (by omega)]
    · rintro ⟨⟨a, b⟩, ⟨he, hinc⟩, rfl⟩
      have hr := hW _ he
      simp only at hinc hr ⊢
      by_cases hav : a = v
      · subst hav; rw [if_pos rfl]; exact ⟨hr.2, Or.inl he⟩
      · rw [if_neg hav]
        have hbv : b = v := by rcases hinc with h | h; exact absurd h hav; exact h
        subst hbv
        exact ⟨hr.1, Or.inr he⟩
  · apply List.Nodup.map_on _ (hN.filter _)
    rintro ⟨a, b⟩ h1 ⟨a', b'⟩ h2 heq
    simp only [List.mem_filter, Bool.or_eq_true, beq_iff_eq] at h1 h2
    have o1 := hO _ h1.1
    have o2 := hO _ h2.1
    have e1 := h1.2
    have e2 := h2.2
    by_cases ha : a = v <;> by_cases ha' : a' = v
    · rw [if_pos ha, if_pos ha'] at heq; subst ha; subst ha'
      have hb : b = b' := heq
      rw [hb]
    · rw [if_pos ha, if_neg ha'] at heq
      have : b' = v := by rcases e2 with h | h; exact absurd h ha'; exact h
      omega
    · rw [if_neg ha, if_pos ha'] at heq
      have : b = v := by rcases e1 with h | h; exact absurd h ha; exact h
      omega
    · rw [if_neg ha, if_neg ha'] at heq
      have h3 : b = v := by rcases e1 with h | h; exact absurd h ha; exact h
      have h4 : b' = v := by rcases e2 with h | h; exact absurd h ha'; exact h
      have haa : a = a' := heq
      rw [haa, h3, h4]

/-- `random_regular_graph(d, n)` with `n·d` even and `d < n`, for EVERY list of shuffles: a run that ends
returns a loop-free graph on `n` nodes in which every node has degree `d`, with `n·d/2` edges -/
theorem regularGraph_ok {n d : Nat} (heven : (n * d) % 2 = 0) (hd : d < n) {ds : List NxDraw} {r : Option NxG}
    {rest : List NxDraw} (h : regularGraph d n ds = .ok r rest) :
    ∃ G, r = some G ∧ G.n = n ∧ G.WF ∧ G.Loopless ∧ (∀ v, v < n → G.deg v = d) ∧ 2 * G.edges.length = n * d ∧
      ∃ used, ds = used ++ rest := by
  unfold regularGraph at h
  rw [if_neg (by omega)] at h
  split at h
  · rename_i h0
    cases h
    subst h0
    refine ⟨emptyGraph n, rfl, rfl, by intro e he; simp [emptyGraph] at he, by intro e he; simp [emptyGraph] at he, ?_, ?_, [], rfl⟩
    · intro v _
      unfold NxG.deg NxG.nbrList
      simp [NxG.E, emptyGraph]
    · have : (emptyGraph n).edges = [] := by
        apply List.eq_nil_iff_forall_not_mem.2
        rintro ⟨u, v⟩ hm
        have := (NxG.mem_edges.1 hm).2.2
        simp [NxG.E, emptyGraph] at this
      rw [this]; simp
  · split at h
    · rename_i es rest' hloop
      cases h
      obtain ⟨hI, hused⟩ := regularLoop_ok heven ds [] _ es rest (regInv_init n d) hloop
      have hW : NxG.WF ⟨n, es⟩ := fun e he => by
        have := hI.orient e he
        show e.1 < n ∧ e.2 < n
        omega
      have hO : NxG.Oriented ⟨n, es⟩ := fun e he => (hI.orient e he).1
      refine ⟨⟨n, es⟩, rfl, rfl, hW, hO.loopless, ?_, ?_, hused⟩
      · intro v hv
        rw [deg_eq_inc hW hO hI.nodup v]
        have := hI.bal v
        simp only [List.count_nil, Nat.add_zero, if_pos hv] at this
        exact this
      · rw [NxG.length_edges hW hO hI.nodup]
        have := hI.tot
        simpa using this
    · cases h

end Cnfgen.Nx
