/-
Lemmas for T-C11.5 — `all_variable_labels`: for every state reachable by a manager history the
i-th reported name is the name of variable i (the label of its index in the owning group, or the
default name).
-/
import Lemmas.VarsGroup
import Lemmas.VarsManager
namespace Cnfgen
namespace Vars

/-! ### `List.mapM` in `Except` -/

theorem mapM_ok_forall₂ {α β : Type} {f : α → Except Err β} {l : List α} {r : List β}
    (h : l.mapM f = .ok r) : List.Forall₂ (fun a b => f a = .ok b) l r := by
  induction l generalizing r with
  | nil => simp [List.mapM_nil, pure, Except.pure] at h; subst h; exact .nil
  | cons a l ih =>
    rw [List.mapM_cons] at h
    simp only [bind, Except.bind, pure, Except.pure] at h
    split at h
    · cases h
    · rename_i b hb
      split at h
      · cases h
      · rename_i bs hbs
        cases h
        exact .cons hb (ih hbs)

theorem forall₂_getElem {α β : Type} {R : α → β → Prop} {l : List α} {r : List β}
    (h : List.Forall₂ R l r) : l.length = r.length ∧ ∀ i (h1 : i < l.length) (h2 : i < r.length), R l[i] r[i] := by
  induction h with
  | nil => exact ⟨rfl, fun i h1 => absurd h1 (Nat.not_lt_zero _)⟩
  | cons hab _ ih =>
    refine ⟨by simp [ih.1], fun i h1 h2 => ?_⟩
    cases i with
    | zero => simpa using hab
    | succ i => simpa using ih.2 i (by simpa using h1) (by simpa using h2)

/-! ### the name of a variable (specification) -/

/-- the name of variable `v`: the owning group's label of its index — for a single variable its
name, or the default name if it was created without one —, the default name outside every group -/
def varName (gs : List Group) (dfmt : String) (v : Nat) : Except Err (Option String) :=
  match gs.find? (fun g => g.contains (v : Int)) with
  | none => (defaultName dfmt v).map some
  | some (.single _ (some name)) => .ok (some name)
  | some (.single _ none) => (defaultName dfmt v).map some
  | some g => do let idx ← g.toIndex (v : Int); let l ← g.labelOf idx; pure (some l)

/-! ### the groups of a reachable state: increasing, disjoint, well formed -/

def Chain : Nat → List Group → Prop
  | _, [] => True
  | lo, g :: gs => lo ≤ g.start ∧ g.WF ∧ Chain (g.start + g.len) gs

def chainEnd : Nat → List Group → Nat
  | lo, [] => lo
  | _, g :: gs => chainEnd (g.start + g.len) gs

theorem chain_append {lo : Nat} {gs : List Group} {g : Group} :
    Chain lo (gs ++ [g]) ↔ Chain lo gs ∧ chainEnd lo gs ≤ g.start ∧ g.WF := by
  induction gs generalizing lo with
  | nil => simp [Chain, chainEnd]
  | cons a gs ih => simp [Chain, chainEnd, ih, and_assoc]

theorem chainEnd_append (lo : Nat) (gs : List Group) (g : Group) :
    chainEnd lo (gs ++ [g]) = g.start + g.len := by
  induction gs generalizing lo with
  | nil => simp [chainEnd]
  | cons a gs ih => simp [chainEnd, ih]

theorem chain_mono {lo lo' : Nat} {gs : List Group} (h : Chain lo gs) (hle : lo' ≤ lo) : Chain lo' gs := by
  cases gs with
  | nil => trivial
  | cons g gs => exact ⟨by have := h.1; omega, h.2⟩

theorem chain_le_chainEnd {lo : Nat} {gs : List Group} (h : Chain lo gs) : lo ≤ chainEnd lo gs := by
  induction gs generalizing lo with
  | nil => simp [chainEnd]
  | cons g gs ih => have := ih h.2.2; have := h.1; simp only [chainEnd]; omega

/-- no group of a chain starting at `lo` contains a variable below `lo` -/
theorem chain_find_below {lo : Nat} {gs : List Group} (h : Chain lo gs) {u : Nat} (hu : u < lo) :
    gs.find? (fun g => g.contains (u : Int)) = none := by
  induction gs generalizing lo with
  | nil => rfl
  | cons g gs ih =>
    have h1 := h.1
    have : g.contains (u : Int) = false := by simp [Group.contains]; omega
    simp [List.find?_cons, this, ih h.2.2 (by omega)]

theorem contains_iff (g : Group) (u : Nat) :
    g.contains (u : Int) = true ↔ g.start ≤ u ∧ u < g.start + g.len := by
  simp [Group.contains]

/-! ### the labels of one group -/

/-- `list(vg.label())` of a group that is not a single variable: the labels of the enumerated
indices -/
theorem allLabels_eq {g : Group} (hns : g.isSingle = false) :
    g.allLabels = (do let idxs ← g.indices []; let ls ← idxs.mapM g.labelOf; pure (ls.map some)) := by
  cases g with
  | single s name => simp [Group.isSingle] at hns
  | word s seqs f =>
    have hf : (Group.word s seqs f).labelOf = fun w => pyFormat f [commaJoin w] := by funext w; rfl
    rw [hf]
    simp only [Group.allLabels, Group.label, Group.indices, List.isEmpty_nil, if_true]
    simp only [bind, Except.bind, pure, Except.pure]
    cases (List.mapM (fun w => pyFormat f [commaJoin w]) seqs) <;> rfl
  | block s ranges f =>
    simp only [Group.allLabels, Group.label, Group.baseLabel, isProjection, List.isEmpty_nil, Bool.true_or, if_true]
    simp only [bind, Except.bind, pure, Except.pure]
    cases (Group.indices (.block s ranges f) []) with
    | error e => rfl
    | ok idxs => simp only []; cases (List.mapM (Group.labelOf (.block s ranges f)) idxs) <;> rfl
  | bip s G f un =>
    simp only [Group.allLabels, Group.label, Group.baseLabel, isProjection, List.isEmpty_nil, Bool.true_or, if_true]
    simp only [bind, Except.bind, pure, Except.pure]
    cases (Group.indices (.bip s G f un) []) with
    | error e => rfl
    | ok idxs => simp only []; cases (List.mapM (Group.labelOf (.bip s G f un)) idxs) <;> rfl
  | graph s B f =>
    simp only [Group.allLabels, Group.label, Group.baseLabel, isProjection, List.isEmpty_nil, Bool.true_or, if_true]
    simp only [bind, Except.bind, pure, Except.pure]
    cases (Group.indices (.graph s B f) []) with
    | error e => rfl
    | ok idxs => simp only []; cases (List.mapM (Group.labelOf (.graph s B f)) idxs) <;> rfl
  | digraph s B su f =>
    simp only [Group.allLabels, Group.label, Group.baseLabel, isProjection, List.isEmpty_nil, Bool.true_or, if_true]
    simp only [bind, Except.bind, pure, Except.pure]
    cases (Group.indices (.digraph s B su f) []) with
    | error e => rfl
    | ok idxs => simp only []; cases (List.mapM (Group.labelOf (.digraph s B su f)) idxs) <;> rfl
  | binary s n m f =>
    simp only [Group.allLabels, Group.label, Group.baseLabel, isProjection, List.isEmpty_nil, Bool.true_or, if_true]
    simp only [bind, Except.bind, pure, Except.pure]
    cases (Group.indices (.binary s n m f) []) with
    | error e => rfl
    | ok idxs => simp only []; cases (List.mapM (Group.labelOf (.binary s n m f)) idxs) <;> rfl

/-- the `i`-th label of a group is the label of the index of its `i`-th variable -/
theorem allLabels_spec {g : Group} (h : g.WF) (hns : g.isSingle = false) {ls : List (Option String)}
    (hl : g.allLabels = .ok ls) :
    ls.length = g.len ∧ ∀ i (hi : i < ls.length),
      ∃ idx l, g.toIndex ((g.start + i : Nat) : Int) = .ok idx ∧ g.labelOf idx = .ok l ∧ ls[i] = some l := by
  rw [allLabels_eq hns] at hl
  obtain ⟨idxs, h1, _⟩ := Group.indices_nil h
  simp only [h1, bind, Except.bind, pure, Except.pure] at hl
  split at hl
  · cases hl
  · rename_i ls' hm
    cases hl
    have hf := forall₂_getElem (mapM_ok_forall₂ hm)
    have hlen := Group.length_indices h h1
    refine ⟨by simp [← hf.1, hlen], fun i hi => ?_⟩
    have hi' : i < ls'.length := by simpa using hi
    have hi'' : i < idxs.length := by omega
    exact ⟨idxs[i], ls'[i], (Group.toIndex_nth h h1 hi'').1, hf.2 i hi'' hi', by simp⟩

/-! ### default names -/

theorem defaultNames_spec {dfmt : String} {a b : Nat} {ls : List (Option String)}
    (h : defaultNames dfmt a b = .ok ls) :
    ls.length = b - a ∧ ∀ i (hi : i < ls.length), (defaultName dfmt (a + i)).map some = .ok ls[i] := by
  have hf := forall₂_getElem (mapM_ok_forall₂ h)
  have hlen : (rangeN a b).length = b - a := length_rangeN a b
  refine ⟨by omega, fun i hi => ?_⟩
  have hi' : i < (rangeN a b).length := by omega
  have := hf.2 i hi' hi
  have hg : (rangeN a b)[i] = a + i := by
    simp [rangeN]; omega
  rw [hg] at this
  exact this

/-! ### the loop of `all_variable_labels` -/

theorem groupNames_nonsingle {dfmt : String} {g : Group} (hns : g.isSingle = false) (v : Nat) :
    groupNames dfmt g v = g.allLabels := by
  cases g <;> first | rfl | simp [Group.isSingle] at hns

theorem varName_owner_nonsingle {g : Group} {gs : List Group} {dfmt : String} {v : Nat}
    (hc : g.contains (v : Int) = true) (hns : g.isSingle = false) :
    varName (g :: gs) dfmt v = (do let idx ← g.toIndex (v : Int); let l ← g.labelOf idx; pure (some l)) := by
  cases g <;> first
    | (simp [Group.isSingle] at hns; done)
    | (simp only [varName, List.find?_cons, hc])

/-- specification of `groupNames` for a non-empty, well-formed group whose gap has been filled -/
theorem groupNames_spec {dfmt : String} {g : Group} {gs : List Group} (h : g.WF) (hne : g.len ≠ 0)
    {ls : List (Option String)} (hl : groupNames dfmt g g.start = .ok ls) :
    ls.length = g.len ∧ ∀ i (hi : i < ls.length), varName (g :: gs) dfmt (g.start + i) = .ok ls[i] := by
  by_cases hsg : g.isSingle = true
  · cases g with
    | single s name =>
      cases name with
      | none =>
        simp only [groupNames, Group.start, bind, Except.bind, pure, Except.pure] at hl
        split at hl
        · cases hl
        · rename_i d hd
          cases hl
          refine ⟨rfl, fun i hi => ?_⟩
          have hi0 : i = 0 := by simpa using hi
          subst hi0
          simp [varName, Group.contains, Group.start, Group.len, hd, Except.map]
      | some nm =>
        simp only [groupNames, pure, Except.pure] at hl
        cases hl
        refine ⟨rfl, fun i hi => ?_⟩
        have hi0 : i = 0 := by simpa using hi
        subst hi0
        simp [varName, Group.contains, Group.start, Group.len]
    | _ => simp [Group.isSingle] at hsg
  · have hns : g.isSingle = false := by simpa using hsg
    rw [groupNames_nonsingle hns] at hl
    obtain ⟨hlen, hsp⟩ := allLabels_spec h hns hl
    refine ⟨hlen, fun i hi => ?_⟩
    obtain ⟨idx, l, h1, h2, h3⟩ := hsp i hi
    have hc : g.contains ((g.start + i : Nat) : Int) = true :=
      (contains_iff _ _).2 ⟨Nat.le_add_right _ _, by omega⟩
    rw [varName_owner_nonsingle hc hns]
    simp only [h1, h2, h3, bind, Except.bind, pure, Except.pure]

theorem varName_cons_of_not_contains {g : Group} {gs : List Group} {dfmt : String} {v : Nat}
    (hc : g.contains (v : Int) = false) : varName (g :: gs) dfmt v = varName gs dfmt v := by
  simp only [varName, List.find?_cons, hc]

theorem varName_of_find_none {gs : List Group} {dfmt : String} {v : Nat}
    (h : gs.find? (fun g => g.contains (v : Int)) = none) :
    varName gs dfmt v = (defaultName dfmt v).map some := by
  simp only [varName, h]

theorem find_cons_of_not_contains {g : Group} {gs : List Group} {u : Nat}
    (hc : g.contains (u : Int) = false) :
    (g :: gs).find? (fun g => g.contains (u : Int)) = gs.find? (fun g => g.contains (u : Int)) := by
  simp only [List.find?_cons, hc]

theorem loop_spec {dfmt : String} {gs : List Group} {lo varid : Nat} (hc : Chain lo gs) (hv : varid ≤ lo)
    {ls : List (Option String)} {v : Nat} (h : allLabelsLoop dfmt gs varid = .ok (ls, v)) :
    varid ≤ v ∧ v ≤ chainEnd lo gs ∧ ls.length = v - varid ∧
    (∀ i (hi : i < ls.length), varName gs dfmt (varid + i) = .ok ls[i]) ∧
    (∀ u, v ≤ u → gs.find? (fun g => g.contains (u : Int)) = none) := by
  induction gs generalizing lo varid ls v with
  | nil =>
    simp only [allLabelsLoop] at h
    cases h
    exact ⟨Nat.le_refl _, by simpa [chainEnd] using hv, by simp, fun i hi => absurd hi (by simp), fun _ _ => rfl⟩
  | cons g gs ih =>
    obtain ⟨hlo, hwf, hrest⟩ := hc
    simp only [allLabelsLoop] at h
    by_cases hz : g.len = 0
    · simp only [hz, if_true] at h
      have hc' : Chain g.start gs := by simpa [hz] using hrest
      obtain ⟨a1, a2, a3, a4, a5⟩ := ih hc' (by omega) h
      have hcf : ∀ u : Nat, g.contains (u : Int) = false := by
        intro u; simp [Group.contains, hz]
      refine ⟨a1, by simpa [chainEnd, hz] using a2, a3, fun i hi => ?_, fun u hu => ?_⟩
      · rw [varName_cons_of_not_contains (hcf _)]; exact a4 i hi
      · rw [find_cons_of_not_contains (hcf _)]; exact a5 u hu
    · simp only [hz, if_false, bind, Except.bind, pure, Except.pure] at h
      have hmax : max varid g.start = g.start := by omega
      rw [hmax] at h
      split at h
      · cases h
      · rename_i gap hgap
        split at h
        · cases h
        · rename_i names hnames
          split at h
          · cases h
          · rename_i rv hrv
            obtain ⟨rest, v'⟩ := rv
            cases h
            obtain ⟨g1, g2⟩ := defaultNames_spec hgap
            obtain ⟨n1, n2⟩ := groupNames_spec (gs := gs) hwf hz hnames
            obtain ⟨a1, a2, a3, a4, a5⟩ := ih hrest (Nat.le_refl _) hrv
            have hchain : Chain g.start (g :: gs) := ⟨Nat.le_refl _, hwf, hrest⟩
            refine ⟨by omega, by simpa [chainEnd] using a2, by simp [g1, n1, a3]; omega, fun i hi => ?_, fun u hu => ?_⟩
            · by_cases hi1 : i < gap.length
              · -- a variable of the gap before `g`: in no group
                have hnone : (g :: gs).find? (fun g => g.contains ((varid + i : Nat) : Int)) = none :=
                  chain_find_below hchain (by omega)
                rw [varName_of_find_none hnone, g2 i hi1]
                congr 1
                simp only [List.append_assoc]
                rw [List.getElem_append_left hi1]
              · by_cases hi2 : i < gap.length + names.length
                · have hidx : varid + i = g.start + (i - gap.length) := by omega
                  rw [hidx, n2 (i - gap.length) (by omega)]
                  congr 1
                  simp only [List.append_assoc]
                  rw [List.getElem_append_right (by omega), List.getElem_append_left (by omega)]
                · have hidx : varid + i = g.start + g.len + (i - gap.length - names.length) := by omega
                  have hlt : i - gap.length - names.length < rest.length := by
                    simp at hi; omega
                  have hcf : g.contains ((varid + i : Nat) : Int) = false := by
                    simp [Group.contains]; omega
                  rw [varName_cons_of_not_contains hcf, hidx, a4 _ hlt]
                  congr 1
                  simp only [List.append_assoc]
                  rw [List.getElem_append_right (by omega), List.getElem_append_right (by omega)]
            · have hcf : g.contains (u : Int) = false := by
                simp [Group.contains]; omega
              rw [find_cons_of_not_contains hcf]; exact a5 u hu

/-! ### reachable states -/

/-- the graph arguments of the operation are well-formed `BipartiteGraph` objects -/
def SpecWF : GroupSpec → Prop
  | .bipartite G _ => G.WF
  | .sparseMapping G _ => G.WF
  | _ => True

def OpWF : MOp → Prop
  | .newGroup spec => SpecWF spec
  | _ => True

/-- invariant of the manager: the groups form an increasing chain of well-formed groups inside
`1 … numvar` -/
def SInv (s : MState) : Prop := Chain 1 s.groups ∧ chainEnd 1 s.groups ≤ s.numvar + 1

theorem sinv_init : SInv MState.init := by simp [SInv, MState.init, Chain, chainEnd]

theorem mkGroup_wf {numvar : Nat} {spec : GroupSpec} {g : Group} (hs : SpecWF spec)
    (h : mkGroup numvar spec = .ok g) : g.WF := by
  cases spec <;> simp only [mkGroup, wordChecks, bind, Except.bind, pure, Except.pure, throw, throwThe,
      MonadExceptOf.throw] at h <;> (repeat' split at h) <;> first
    | (cases h; simp [Group.WF]; done)
    | (simp at h; done)
    | skip
  · cases h; exact ⟨by omega, combosSeqs_nodup _ _⟩
  · cases h; exact ⟨by omega, combosReplSeqs_nodup _ _⟩
  · cases h; exact ⟨by omega, permsSeqs_nodup _ _⟩
  · cases h; exact ⟨by omega, wordsSeqs_nodup _ _⟩
  · cases h; exact ⟨by omega, hs⟩
  · cases h
    rename_i B hB _ _ _
    have := graphAux_spec hB
    exact ⟨by omega, this.1, by rw [this.2.1, this.2.2.1], graphAux_le hB⟩
  · cases h
    rename_i _ _ _ _ B hB
    exact ⟨by omega, (digraphAux_spec hB).1⟩
  · cases h; exact ⟨by omega, BipG.wf_complete _ _⟩
  · cases h; exact ⟨by omega, hs⟩

theorem addGroup_sinv {s : MState} {g : Group} (h : SInv s) (hg : g.WF) (hst : g.start = s.numvar + 1) :
    SInv (addGroup s g).1 := by
  obtain ⟨hc, he⟩ := h
  unfold addGroup
  by_cases hz : g.len = 0
  · simp only [hz, if_true]
    refine ⟨chain_append.2 ⟨hc, by omega, hg⟩, ?_⟩
    simp only [chainEnd_append, hz]; omega
  · have hnot : ¬ g.start ≤ s.numvar := by omega
    simp only [hz, if_false, hnot]
    refine ⟨chain_append.2 ⟨hc, by omega, hg⟩, ?_⟩
    simp only [chainEnd_append]; omega

theorem step_sinv {s : MState} {op : MOp} (h : SInv s) (hw : OpWF op) : SInv (step s op).1 := by
  obtain ⟨hc, he⟩ := h
  cases op with
  | addClause c check =>
    simp only [step, addClause]
    split
    · exact ⟨hc, he⟩
    · split
      · split
        · exact ⟨hc, he⟩
        · exact ⟨hc, by simp only []; omega⟩
      · exact ⟨hc, he⟩
  | updateVarNum n =>
    simp only [step, updateVarNum]
    split
    · exact ⟨hc, he⟩
    · exact ⟨hc, by simp only []; omega⟩
  | newGroup spec =>
    simp only [step, newGroup]
    split
    · exact ⟨hc, he⟩
    · rename_i g hg
      exact addGroup_sinv ⟨hc, he⟩ (mkGroup_wf hw hg) (mkGroup_start hg)


theorem run_sinv {s : MState} {ops : List MOp} (h : SInv s) (hw : ∀ op ∈ ops, OpWF op) : SInv (run s ops) := by
  induction ops generalizing s with
  | nil => exact h
  | cons op ops ih =>
    rw [run_cons]
    exact ih (step_sinv h (hw op (by simp))) (fun o ho => hw o (by simp [ho]))

/-- T-C11.5 on a state satisfying the invariant -/
theorem allLabels_aligned {s : MState} (hs : SInv s) {dfmt : String} {names : List (Option String)}
    (h : allLabels s dfmt = .ok names) :
    names.length = s.numvar ∧ ∀ i (hi : i < names.length), varName s.groups dfmt (i + 1) = .ok names[i] := by
  obtain ⟨hc, he⟩ := hs
  simp only [allLabels, bind, Except.bind, pure, Except.pure] at h
  split at h
  · cases h
  · rename_i lv hlv
    obtain ⟨ls, v⟩ := lv
    simp only [] at h
    split at h
    · cases h
    · rename_i tail htail
      obtain ⟨a1, a2, a3, a4, a5⟩ := loop_spec hc (Nat.le_refl 1) hlv
      have hv : v ≤ s.numvar + 1 := by omega
      have hmax : max v (s.numvar + 1) = s.numvar + 1 := by omega
      simp only [hmax, ne_eq, not_true_eq_false, if_false] at h
      cases h
      obtain ⟨t1, t2⟩ := defaultNames_spec htail
      refine ⟨by simp [a3, t1]; omega, fun i hi => ?_⟩
      by_cases hi1 : i < ls.length
      · have := a4 i hi1
        rw [Nat.add_comm] at this
        rw [this]
        congr 1
        rw [List.getElem_append_left hi1]
      · have hlt : i - ls.length < tail.length := by simp at hi; omega
        have hnone := a5 (i + 1) (by omega)
        rw [varName_of_find_none hnone]
        have := t2 (i - ls.length) hlt
        have hidx : v + (i - ls.length) = i + 1 := by omega
        rw [hidx] at this
        rw [this]
        congr 1
        rw [List.getElem_append_right (by omega)]


/-! ### totality: `all_variable_labels` fails only if a name cannot be formatted -/

theorem mapM_ok_of_forall {α β : Type} {f : α → Except Err β} {l : List α}
    (h : ∀ a ∈ l, ∃ b, f a = .ok b) : ∃ r, l.mapM f = .ok r := by
  induction l with
  | nil => exact ⟨[], by simp [List.mapM_nil, pure, Except.pure]⟩
  | cons a l ih =>
    obtain ⟨b, hb⟩ := h a (by simp)
    obtain ⟨r, hr⟩ := ih (fun x hx => h x (by simp [hx]))
    exact ⟨b :: r, by rw [List.mapM_cons]; simp only [hb, hr, bind, Except.bind, pure, Except.pure]⟩

theorem defaultNames_defined {dfmt : String} {a b : Nat}
    (h : ∀ u, a ≤ u → u < b → ∃ n, (defaultName dfmt u).map some = .ok n) :
    ∃ ls, defaultNames dfmt a b = .ok ls :=
  mapM_ok_of_forall (fun u hu => h u (mem_rangeN.1 hu).1 (mem_rangeN.1 hu).2)

/-- converse of `groupNames_spec`: if every variable of the group has a name, `groupNames` succeeds -/
theorem groupNames_defined {dfmt : String} {g : Group} {gs : List Group} (h : g.WF) (hne : g.len ≠ 0)
    (hn : ∀ i, i < g.len → ∃ n, varName (g :: gs) dfmt (g.start + i) = .ok n) :
    ∃ ls, groupNames dfmt g g.start = .ok ls := by
  by_cases hsg : g.isSingle = true
  · cases g with
    | single s name =>
      cases name with
      | none =>
        obtain ⟨n, hn0⟩ := hn 0 (by simp [Group.len])
        simp only [groupNames, Group.start, bind, Except.bind, pure, Except.pure]
        cases hd : defaultName dfmt s with
        | error e => simp [varName, Group.contains, Group.start, Group.len, Except.map, hd] at hn0
        | ok d => exact ⟨_, rfl⟩
      | some nm => exact ⟨[some nm], rfl⟩
    | _ => simp [Group.isSingle] at hsg
  · have hns : g.isSingle = false := by simpa using hsg
    rw [groupNames_nonsingle hns, allLabels_eq hns]
    obtain ⟨idxs, h1, _⟩ := Group.indices_nil h
    have hlen := Group.length_indices h h1
    have hm : ∃ ls, idxs.mapM g.labelOf = .ok ls := by
      apply mapM_ok_of_forall
      intro idx hidx
      obtain ⟨i, hi, rfl⟩ := List.mem_iff_getElem.1 hidx
      obtain ⟨n, hn'⟩ := hn i (by omega)
      have hc : g.contains ((g.start + i : Nat) : Int) = true :=
        (contains_iff _ _).2 ⟨Nat.le_add_right _ _, by omega⟩
      rw [varName_owner_nonsingle hc hns, (Group.toIndex_nth h h1 hi).1] at hn'
      simp only [bind, Except.bind, pure, Except.pure] at hn'
      cases hl : g.labelOf idxs[i] with
      | error e => rw [hl] at hn'; cases hn'
      | ok l => exact ⟨l, rfl⟩
    obtain ⟨ls, hls⟩ := hm
    exact ⟨ls.map some, by simp only [h1, hls, bind, Except.bind, pure, Except.pure]⟩

/-- converse of `loop_spec`: if every variable from `varid` up to a bound past the last group has
a name, the loop succeeds -/
theorem loop_defined {dfmt : String} {gs : List Group} {lo varid hi : Nat} (hc : Chain lo gs)
    (hv : varid ≤ lo) (hhi : chainEnd lo gs ≤ hi)
    (hn : ∀ u, varid ≤ u → u < hi → ∃ n, varName gs dfmt u = .ok n) :
    ∃ r, allLabelsLoop dfmt gs varid = .ok r := by
  induction gs generalizing lo varid with
  | nil => exact ⟨_, rfl⟩
  | cons g gs ih =>
    obtain ⟨hlo, hwf, hrest⟩ := hc
    simp only [allLabelsLoop]
    by_cases hz : g.len = 0
    · simp only [hz, if_true]
      have hc' : Chain g.start gs := by simpa [hz] using hrest
      have hcf : ∀ u : Nat, g.contains (u : Int) = false := by
        intro u; simp [Group.contains, hz]
      refine ih hc' (by omega) (by simpa [chainEnd, hz] using hhi) (fun u h1 h2 => ?_)
      rw [← varName_cons_of_not_contains (g := g) (hcf u)]; exact hn u h1 h2
    · simp only [hz, if_false, bind, Except.bind, pure, Except.pure]
      have hmax : max varid g.start = g.start := by omega
      rw [hmax]
      have hchain : Chain g.start (g :: gs) := ⟨Nat.le_refl _, hwf, hrest⟩
      have hhi' : chainEnd (g.start + g.len) gs ≤ hi := by simpa [chainEnd] using hhi
      have hend : g.start + g.len ≤ hi := Nat.le_trans (chain_le_chainEnd hrest) hhi'
      obtain ⟨gap, hgap⟩ := defaultNames_defined (dfmt := dfmt) (a := varid) (b := g.start) (fun u h1 h2 => by
        have := hn u h1 (by omega)
        rwa [varName_of_find_none (chain_find_below hchain h2)] at this)
      obtain ⟨names, hnames⟩ := groupNames_defined (dfmt := dfmt) (gs := gs) hwf hz
        (fun i hi' => hn _ (by omega) (by omega))
      obtain ⟨⟨rest, v⟩, hr⟩ := ih hrest (Nat.le_refl _) hhi' (fun u h1 h2 => by
        have hcf : g.contains (u : Int) = false := by
          simp [Group.contains]; omega
        rw [← varName_cons_of_not_contains (g := g) hcf]; exact hn u (by omega) h2)
      exact ⟨(gap ++ names ++ rest, v), by simp only [hgap, hnames, hr]⟩

/-- on a state satisfying the invariant, if every variable has a name (its label / default name
can be formatted) then `all_variable_labels` succeeds — in particular its final `assert` never fires -/
theorem allLabels_defined {s : MState} (hs : SInv s) {dfmt : String}
    (hn : ∀ v, 1 ≤ v → v ≤ s.numvar → ∃ n, varName s.groups dfmt v = .ok n) :
    ∃ names, allLabels s dfmt = .ok names := by
  obtain ⟨hc, he⟩ := hs
  obtain ⟨⟨ls, v⟩, hlv⟩ := loop_defined (dfmt := dfmt) (hi := s.numvar + 1) hc (Nat.le_refl 1) he
    (fun u h1 h2 => hn u h1 (by omega))
  obtain ⟨a1, a2, a3, a4, a5⟩ := loop_spec hc (Nat.le_refl 1) hlv
  have hv : v ≤ s.numvar + 1 := by omega
  have hmax : max v (s.numvar + 1) = s.numvar + 1 := by omega
  obtain ⟨tail, htail⟩ := defaultNames_defined (dfmt := dfmt) (a := v) (b := s.numvar + 1) (fun u h1 h2 => by
    have := hn u (by omega) (by omega)
    rwa [varName_of_find_none (a5 u h1)] at this)
  refine ⟨ls ++ tail, ?_⟩
  simp only [allLabels, bind, Except.bind, pure, Except.pure, hlv, htail, hmax, ne_eq, not_true_eq_false,
    if_false]

end Vars
end Cnfgen
