/-
The abstract specification of the graph objects (C16): a vertex count and a duplicate-free
list of pairs (unordered, normalised `u < v`, for simple graphs), updated by the obvious set
operations; the refinement relation between the concrete object and the specification;
its preservation by every operation, lifted to histories; and the equality of every view
with the specification's answer (T-C16.2).
Core Lean only.
-/
import Lemmas.GraphInv
namespace Cnfgen

theorem mem_takeWhile_imp {α} {p : α → Bool} {l : List α} {x : α} (h : x ∈ l.takeWhile p) :
    p x = true := by
  induction l with
  | nil => cases h
  | cons a as ih =>
    rw [List.takeWhile_cons] at h
    split at h
    · rcases List.mem_cons.1 h with rfl | h'
      · assumption
      · exact ih h'
    · cases h

/-- the outcomes of a whole history (what the caller observes, call by call) -/
def traceOf {σ} (step : σ → GOp → σ × Outcome) : σ → List GOp → List Outcome
  | _, [] => []
  | s, o :: os => (step s o).2 :: traceOf step (step s o).1 os

/-! ## simple graphs -/
namespace SimpleG

structure Spec where
  n : Nat
  /-- normalised pairs `(u, v)`, `u < v`; duplicate-free -/
  E : List (Nat × Nat)
  deriving Repr, DecidableEq

namespace Spec
def init (n : Nat) : Spec := ⟨n, []⟩

/-- set insertion -/
def insert (a : Spec) (p : Nat × Nat) : Spec := if p ∈ a.E then a else { a with E := p :: a.E }

/-- set removal of the unordered pair `{u, v}` -/
def remove (a : Spec) (u v : Int) : Spec :=
  { a with E := a.E.filter (fun e => !(decide ((e.1 : Int) = min u v) && decide ((e.2 : Int) = max u v))) }

/-- `add_edges_from`: insert until the first pair that is not a legal edge -/
def addEdges (a : Spec) : List (Int × Int) → Spec × Outcome
  | [] => (a, .ok)
  | e :: es =>
    if Valid a.n e.1 e.2 then (a.insert (norm e.1.toNat e.2.toNat)).addEdges es
    else (a, .raised .valueError)

def step (a : Spec) : GOp → Spec × Outcome
  | .addEdge u v =>
    if Valid a.n u v then (a.insert (norm u.toNat v.toNat), .ok) else (a, .raised .valueError)
  | .removeEdge u v => (a.remove u v, .ok)
  | .updateVertexNumber k =>
    if k < 0 then (a, .raised .valueError) else ({ a with n := max a.n k.toNat }, .ok)
  | .addEdgesFrom es => a.addEdges es

def run (a : Spec) (ops : List GOp) : Spec := ops.foldl (fun s o => (s.step o).1) a

/-! the specification's answer for every view -/
def numberOfEdges (a : Spec) : Nat := a.E.length
/-- the edges in lexicographic order, each once -/
def edges (a : Spec) : List (Nat × Nat) := a.E.mergeSort lexLe
def hasEdge (a : Spec) (u v : Int) : Bool :=
  a.E.any (fun e => decide ((e.1 : Int) = min u v) && decide ((e.2 : Int) = max u v))
/-- the vertices `v` with `{u, v}` an edge, in increasing order -/
def nbrs (a : Spec) (u : Nat) : List Nat :=
  (List.range (a.n + 1)).filter (fun v => decide (norm u v ∈ a.E))
def neighbors (a : Spec) (u : Int) : Except Err (List Nat) :=
  if 1 ≤ u ∧ u ≤ a.n then .ok (a.nbrs u.toNat) else .error .valueError
def degree (a : Spec) (u : Int) : Except Err Nat :=
  if 1 ≤ u ∧ u ≤ a.n then .ok (a.nbrs u.toNat).length else .error .valueError

theorem insert_n (a : Spec) (p : Nat × Nat) : (a.insert p).n = a.n := by
  unfold insert; split <;> rfl

theorem mem_insert (a : Spec) (p e : Nat × Nat) : e ∈ (a.insert p).E ↔ e = p ∨ e ∈ a.E := by
  unfold insert
  split
  · rename_i hp
    constructor
    · exact Or.inr
    · rintro (rfl | he)
      · exact hp
      · exact he
  · simp

theorem insert_nodup {a : Spec} (h : a.E.Nodup) (p : Nat × Nat) : (a.insert p).E.Nodup := by
  unfold insert
  split
  · exact h
  · rename_i hp; exact List.nodup_cons.2 ⟨hp, h⟩

/-- inserting twice is inserting once -/
theorem insert_insert (a : Spec) (p : Nat × Nat) : (a.insert p).insert p = a.insert p := by
  have : p ∈ (a.insert p).E := (mem_insert a p p).2 (Or.inl rfl)
  generalize a.insert p = b at this ⊢
  unfold insert; rw [if_pos this]

theorem nbrs_sorted (a : Spec) (u : Nat) : SortedLt (a.nbrs u) :=
  List.Pairwise.filter _ List.pairwise_lt_range

theorem mem_nbrs (a : Spec) (u v : Nat) : v ∈ a.nbrs u ↔ v ≤ a.n ∧ norm u v ∈ a.E := by
  simp [nbrs, List.mem_filter, List.mem_range]; omega
end Spec

/-- the concrete object `G` represents the abstract state `a` -/
structure Refines (G : SimpleG) (a : Spec) : Prop where
  inv : Inv G
  n_eq : G.n = a.n
  nodup : a.E.Nodup
  mem : ∀ e, e ∈ a.E ↔ e ∈ abs G

theorem refines_init (n : Nat) : Refines (init n) (Spec.init n) :=
  ⟨inv_init n, rfl, by simp [Spec.init], by simp [Spec.init, abs, init]⟩

/-- every object satisfying the invariant represents its own abstraction -/
theorem Inv.refines {G : SimpleG} (h : Inv G) : Refines G ⟨G.n, abs G⟩ :=
  ⟨h, rfl, h.abs_nodup, fun _ => Iff.rfl⟩

theorem addEdge_invalid {G : SimpleG} {u v : Int} (hv : ¬ Valid G.n u v) :
    G.addEdge u v = .error .valueError := by
  rcases addEdge_cases G u v with ⟨_, h1⟩ | ⟨hv', _⟩ | ⟨hv', _⟩
  · exact h1
  · exact absurd hv' hv
  · exact absurd hv' hv

theorem norm_lt {a b : Nat} (hab : a ≠ b) : (norm a b).1 < (norm a b).2 := by
  simp only [norm]; omega

theorem refines_addEdge {G : SimpleG} {a : Spec} (h : Refines G a) {u v : Int} (hv : Valid G.n u v) :
    ∃ G', G.addEdge u v = .ok G' ∧ Refines G' (a.insert (norm u.toNat v.toNat)) := by
  have hab : u.toNat ≠ v.toNat := by obtain ⟨h1, h2, h3, h4, h5⟩ := hv; omega
  rcases addEdge_cases G u v with ⟨hv', _⟩ | ⟨_, hc, h1⟩ | ⟨_, hc, h1⟩
  · exact absurd hv hv'
  · refine ⟨G, h1, ?_⟩
    have hp : norm u.toNat v.toNat ∈ a.E := (h.mem _).2 (h.inv.mem_edgeset_iff.1 hc)
    have : a.insert (norm u.toNat v.toNat) = a := by unfold Spec.insert; rw [if_pos hp]
    rw [this]; exact h
  · refine ⟨_, h1, ?_⟩
    have hp : norm u.toNat v.toNat ∉ a.E := fun hm => hc (h.inv.mem_edgeset_iff.2 ((h.mem _).1 hm))
    have e1 : a.insert (norm u.toNat v.toNat) = { a with E := norm u.toNat v.toNat :: a.E } := by
      unfold Spec.insert; rw [if_neg hp]
    rw [e1]
    refine ⟨inv_addEdge h.inv h1, h.n_eq, List.nodup_cons.2 ⟨hp, h.nodup⟩, fun e => ?_⟩
    have := abs_insertNew G (norm_lt hab)
    simp only [norm] at this ⊢
    rw [this, List.mem_cons, List.mem_cons, h.mem]

/-- the state after deleting the present edge `{a, b}` -/
def deleteOld (G : SimpleG) (a b : Nat) : SimpleG :=
  ⟨G.n, G.m - 1, (G.adj.modify a (removeFirst · b)).modify b (removeFirst · a),
   G.edgeset.filter (fun e => e != (a, b) && e != (b, a))⟩

theorem removeEdge_of_has {G : SimpleG} {u v : Int} (hh : G.hasEdge u v = true) :
    G.removeEdge u v = deleteOld G u.toNat v.toNat := by
  unfold removeEdge; rw [if_neg (by simp [hh])]; rfl

theorem removeEdge_of_not {G : SimpleG} {u v : Int} (hh : ¬ G.hasEdge u v = true) :
    G.removeEdge u v = G := by
  unfold removeEdge; rw [if_pos (by simpa using hh)]

theorem refines_removeEdge {G : SimpleG} {a : Spec} (h : Refines G a) (u v : Int) :
    Refines (G.removeEdge u v) (a.remove u v) := by
  refine ⟨inv_removeEdge h.inv u v, by rw [removeEdge_n]; exact h.n_eq,
    h.nodup.sublist List.filter_sublist, fun e => ?_⟩
  simp only [Spec.remove, List.mem_filter, Bool.not_eq_true', Bool.and_eq_false_iff,
    decide_eq_false_iff_not, h.mem]
  by_cases he : G.hasEdge u v = true
  · obtain ⟨hu, hv, hm⟩ := (hasEdge_iff G u v).1 he
    have hr := h.inv.range _ _ hm
    rw [removeEdge_of_has he]
    have e2 : abs (deleteOld G u.toNat v.toNat) =
        (abs G).filter (fun e => e != (min u.toNat v.toNat, max u.toNat v.toNat)) :=
      abs_filter _ hr.2.2.2.2
    rw [e2, List.mem_filter, bne_iff_ne, ne_eq, Prod.ext_iff]
    simp only
    constructor
    · rintro ⟨h1, h2⟩; exact ⟨h1, by omega⟩
    · rintro ⟨h1, h2⟩; exact ⟨h1, by omega⟩
  · rw [removeEdge_of_not he]
    constructor
    · exact fun hh => hh.1
    · intro hm
      refine ⟨hm, ?_⟩
      have hm' := mem_abs.1 hm
      have hr := h.inv.range _ _ hm'.2
      apply Classical.byContradiction
      intro hcon
      have hc1 : (e.1 : Int) = min u v := by omega
      have hc2 : (e.2 : Int) = max u v := by omega
      apply he
      rw [hasEdge_iff]
      refine ⟨by omega, by omega, ?_⟩
      by_cases huv : u < v
      · have : (u.toNat, v.toNat) = e := Prod.ext (by simp only; omega) (by simp only; omega)
        rw [this]; exact hm'.2
      · have : (u.toNat, v.toNat) = (e.2, e.1) := Prod.ext (by simp only; omega) (by simp only; omega)
        rw [this]; exact h.inv.symm _ _ hm'.2

theorem refines_addEdgesFromP {G : SimpleG} {a : Spec} (h : Refines G a) (es : List (Int × Int)) :
    Refines (G.addEdgesFromP es).1 (a.addEdges es).1 ∧
      Outcome.ofOpt (G.addEdgesFromP es).2 = (a.addEdges es).2 := by
  induction es generalizing G a with
  | nil => exact ⟨h, by trivial⟩
  | cons e es ih =>
    by_cases hv : Valid G.n e.1 e.2
    · obtain ⟨G', e', r'⟩ := refines_addEdge h hv
      have hv' : Valid a.n e.1 e.2 := h.n_eq ▸ hv
      simp only [addEdgesFromP, e', Spec.addEdges, if_pos hv']
      exact ih r'
    · have hv' : ¬ Valid a.n e.1 e.2 := h.n_eq ▸ hv
      simp only [addEdgesFromP, addEdge_invalid hv, Spec.addEdges, if_neg hv']
      exact ⟨h, by trivial⟩

/-- T-C16.1/2, one step: the object keeps representing the specification, and the caller
observes the same outcome (normal return / ValueError), for every operation and arguments -/
theorem refines_step {G : SimpleG} {a : Spec} (h : Refines G a) (op : GOp) :
    Refines (G.step op).1 (a.step op).1 ∧ (G.step op).2 = (a.step op).2 := by
  cases op with
  | addEdge u v =>
    by_cases hv : Valid G.n u v
    · obtain ⟨G', e', r'⟩ := refines_addEdge h hv
      have hv' : Valid a.n u v := h.n_eq ▸ hv
      simp only [step, e', Spec.step, if_pos hv']
      exact ⟨r', by trivial⟩
    · have hv' : ¬ Valid a.n u v := h.n_eq ▸ hv
      simp only [step, addEdge_invalid hv, Spec.step, if_neg hv']
      exact ⟨h, by trivial⟩
  | removeEdge u v => exact ⟨refines_removeEdge h u v, rfl⟩
  | updateVertexNumber k =>
    rcases updateVertexNumber_cases G k with ⟨hk, e1⟩ | ⟨hk, G', e1, hn, hm, hes⟩
    · simp only [step, e1, Spec.step, if_pos hk]; exact ⟨h, by trivial⟩
    · simp only [step, e1, Spec.step, if_neg (show ¬ k < 0 by omega)]
      refine ⟨⟨inv_updateVertexNumber h.inv e1, by rw [hn, h.n_eq], h.nodup, fun e => ?_⟩, by trivial⟩
      rw [h.mem]; simp only [abs, hes]
  | addEdgesFrom es => exact refines_addEdgesFromP h es

theorem refines_run {G : SimpleG} {a : Spec} (h : Refines G a) (ops : List GOp) :
    Refines (G.run ops) (a.run ops) := by
  induction ops generalizing G a with
  | nil => exact h
  | cons o os ih => exact ih (refines_step h o).1

theorem trace_eq {G : SimpleG} {a : Spec} (h : Refines G a) (ops : List GOp) :
    traceOf step G ops = traceOf Spec.step a ops := by
  induction ops generalizing G a with
  | nil => rfl
  | cons o os ih =>
    simp only [traceOf]
    rw [(refines_step h o).2, ih (refines_step h o).1]

/-! ### every view is the specification's answer -/
namespace Refines
variable {G : SimpleG} {a : Spec} (h : Refines G a)
include h

theorem numberOfVertices_eq : G.numberOfVertices = a.n := h.n_eq

theorem numberOfEdges_eq : G.numberOfEdges = a.numberOfEdges := by
  show G.m = a.E.length
  rw [← h.inv.count]
  exact ((List.perm_ext_iff_of_nodup h.nodup h.inv.abs_nodup).2 h.mem).length_eq.symm

theorem mem_edges (e : Nat × Nat) : e ∈ G.edges ↔ e ∈ a.E :=
  h.inv.mem_edges'.trans (mem_abs.symm.trans (h.mem e).symm)

/-- `edges()` is the sorted list of the abstract edge set, each edge once -/
theorem edges_eq : G.edges = a.edges :=
  h.inv.edges_sorted.eq_mergeSort h.nodup h.mem_edges

theorem hasEdge_eq (u v : Int) : G.hasEdge u v = a.hasEdge u v := by
  rw [Bool.eq_iff_iff, hasEdge_iff, Spec.hasEdge, List.any_eq_true]
  constructor
  · rintro ⟨hu, hv, hm⟩
    have hr := h.inv.range _ _ hm
    refine ⟨norm u.toNat v.toNat, (h.mem _).2 (h.inv.mem_edgeset_iff.1 hm), ?_⟩
    simp only [norm, Bool.and_eq_true]
    exact ⟨decide_eq_true (by omega), decide_eq_true (by omega)⟩
  · rintro ⟨e, he, hcond⟩
    simp only [Bool.and_eq_true, decide_eq_true_iff] at hcond
    have hm' := mem_abs.1 ((h.mem e).1 he)
    have hr := h.inv.range _ _ hm'.2
    refine ⟨by omega, by omega, ?_⟩
    by_cases huv : u < v
    · have : (u.toNat, v.toNat) = e := Prod.ext (by simp only; omega) (by simp only; omega)
      rw [this]; exact hm'.2
    · have : (u.toNat, v.toNat) = (e.2, e.1) := Prod.ext (by simp only; omega) (by simp only; omega)
      rw [this]; exact h.inv.symm _ _ hm'.2

/-- the adjacency list of `u` is the increasing list of the abstract neighbours -/
theorem nbrs_eq (u : Nat) : G.nbrs u = a.nbrs u := by
  apply SortedLt.ext (h.inv.nbrs_sorted u) (a.nbrs_sorted u)
  intro v
  rw [h.inv.mem_nbrs, Spec.mem_nbrs, h.mem, ← h.inv.mem_edgeset_iff, ← h.n_eq]
  constructor
  · intro hm; exact ⟨(h.inv.range _ _ hm).2.2.2.1, hm⟩
  · exact fun hh => hh.2

theorem neighbors_eq (u : Int) : G.neighbors u = a.neighbors u := by
  unfold neighbors Spec.neighbors
  rw [← h.n_eq]
  by_cases hu : 1 ≤ u ∧ u ≤ G.n
  · rw [if_neg (fun hn => hn hu), if_pos hu]
    exact congrArg _ (h.nbrs_eq u.toNat)
  · rw [if_pos hu, if_neg hu]

theorem degree_eq (u : Int) : G.degree u = a.degree u := by
  unfold degree Spec.degree
  rw [h.neighbors_eq]
  unfold Spec.neighbors
  split <;> rfl

omit h in
theorem isDag_eq : G.isDag = false := rfl

end Refines

/-- T-C16.2: inserting an edge that is present (in either orientation) changes nothing -/
theorem step_addEdge_present {G : SimpleG} (h : Inv G) {u v : Int} (he : G.hasEdge u v = true) :
    G.step (.addEdge u v) = (G, .ok) ∧ G.step (.addEdge v u) = (G, .ok) := by
  have key : ∀ u v : Int, G.hasEdge u v = true → G.step (.addEdge u v) = (G, .ok) := by
    intro u v he
    obtain ⟨hu, hv, hm⟩ := (hasEdge_iff G u v).1 he
    rcases addEdge_cases G u v with ⟨hv', _⟩ | ⟨_, _, h1⟩ | ⟨_, hc, _⟩
    · have := h.range _ _ hm
      exact absurd ⟨by omega, by omega, by omega, by omega, by omega⟩ hv'
    · simp only [step, h1]
    · exact absurd hm hc
  exact ⟨key u v he, key v u (by rw [← h.hasEdge_comm]; exact he)⟩

/-- T-C16.2: an insertion the class does not allow is refused with ValueError, no side effect -/
theorem step_addEdge_invalid {G : SimpleG} {u v : Int} (hv : ¬ Valid G.n u v) :
    G.step (.addEdge u v) = (G, .raised .valueError) := by
  simp only [step, addEdge_invalid hv]

/-- … and only then -/
theorem step_addEdge_valid {G : SimpleG} {u v : Int} (hv : Valid G.n u v) :
    (G.step (.addEdge u v)).2 = .ok := by
  rcases addEdge_cases G u v with ⟨hv', _⟩ | ⟨_, _, h1⟩ | ⟨_, _, h1⟩
  · exact absurd hv hv'
  · simp only [step, h1]
  · simp only [step, h1]

end SimpleG


/-! ## directed graphs -/
namespace DiG

structure Spec where
  n : Nat
  /-- ordered pairs; duplicate-free -/
  E : List (Nat × Nat)
  deriving Repr, DecidableEq

namespace Spec
def init (n : Nat) : Spec := ⟨n, []⟩
def insert (a : Spec) (p : Nat × Nat) : Spec := if p ∈ a.E then a else { a with E := p :: a.E }

def addEdges (a : Spec) : List (Int × Int) → Spec × Outcome
  | [] => (a, .ok)
  | e :: es =>
    if Valid a.n e.1 e.2 then (a.insert (e.1.toNat, e.2.toNat)).addEdges es
    else (a, .raised .valueError)

/-- `DirectedGraph` has no `remove_edge` / `update_vertex_number` -/
def step (a : Spec) : GOp → Spec × Outcome
  | .addEdge u v =>
    if Valid a.n u v then (a.insert (u.toNat, v.toNat), .ok) else (a, .raised .valueError)
  | .removeEdge _ _ => (a, .noSuchMethod)
  | .updateVertexNumber _ => (a, .noSuchMethod)
  | .addEdgesFrom es => a.addEdges es

def run (a : Spec) (ops : List GOp) : Spec := ops.foldl (fun s o => (s.step o).1) a

def numberOfEdges (a : Spec) : Nat := a.E.length
def edges (a : Spec) : List (Nat × Nat) := a.E.mergeSort lexLe
/-- sorted by (destination, source) -/
def edgesBySucc (a : Spec) : List (Nat × Nat) := ((a.E.map Prod.swap).mergeSort lexLe).map Prod.swap
def hasEdge (a : Spec) (u v : Int) : Bool :=
  a.E.any (fun e => decide ((e.1 : Int) = u) && decide ((e.2 : Int) = v))
def succs (a : Spec) (u : Nat) : List Nat := (List.range (a.n + 1)).filter (fun v => decide ((u, v) ∈ a.E))
def preds (a : Spec) (v : Nat) : List Nat := (List.range (a.n + 1)).filter (fun u => decide ((u, v) ∈ a.E))
def successors (a : Spec) (u : Int) : Except Err (List Nat) :=
  if 1 ≤ u ∧ u ≤ a.n then .ok (a.succs u.toNat) else .error .valueError
def predecessors (a : Spec) (u : Int) : Except Err (List Nat) :=
  if 1 ≤ u ∧ u ≤ a.n then .ok (a.preds u.toNat) else .error .valueError
def outDegree (a : Spec) (u : Int) : Except Err Nat :=
  if 1 ≤ u ∧ u ≤ a.n then .ok (a.succs u.toNat).length else .error .valueError
def inDegree (a : Spec) (u : Int) : Except Err Nat :=
  if 1 ≤ u ∧ u ≤ a.n then .ok (a.preds u.toNat).length else .error .valueError
/-- every edge goes from a lower to a higher vertex -/
def isDag (a : Spec) : Bool := a.E.all (fun e => decide (e.1 < e.2))

theorem insert_n (a : Spec) (p : Nat × Nat) : (a.insert p).n = a.n := by
  unfold insert; split <;> rfl

theorem mem_insert (a : Spec) (p e : Nat × Nat) : e ∈ (a.insert p).E ↔ e = p ∨ e ∈ a.E := by
  unfold insert
  split
  · rename_i hp
    constructor
    · exact Or.inr
    · rintro (rfl | he)
      · exact hp
      · exact he
  · simp

theorem insert_insert (a : Spec) (p : Nat × Nat) : (a.insert p).insert p = a.insert p := by
  have : p ∈ (a.insert p).E := (mem_insert a p p).2 (Or.inl rfl)
  generalize a.insert p = b at this ⊢
  unfold insert; rw [if_pos this]

theorem succs_sorted (a : Spec) (u : Nat) : SortedLt (a.succs u) :=
  List.Pairwise.filter _ List.pairwise_lt_range
theorem preds_sorted (a : Spec) (u : Nat) : SortedLt (a.preds u) :=
  List.Pairwise.filter _ List.pairwise_lt_range
theorem mem_succs (a : Spec) (u v : Nat) : v ∈ a.succs u ↔ v ≤ a.n ∧ (u, v) ∈ a.E := by
  simp [succs, List.mem_filter, List.mem_range]; omega
theorem mem_preds (a : Spec) (u v : Nat) : u ∈ a.preds v ↔ u ≤ a.n ∧ (u, v) ∈ a.E := by
  simp [preds, List.mem_filter, List.mem_range]; omega
end Spec

structure Refines (G : DiG) (a : Spec) : Prop where
  inv : Inv G
  n_eq : G.n = a.n
  nodup : a.E.Nodup
  mem : ∀ e, e ∈ a.E ↔ e ∈ G.edgeset

theorem refines_init (n : Nat) : Refines (init n) (Spec.init n) :=
  ⟨inv_init n, rfl, by simp [Spec.init], by simp [Spec.init, init]⟩

theorem Inv.refines {G : DiG} (h : Inv G) : Refines G ⟨G.n, G.edgeset⟩ :=
  ⟨h, rfl, h.nodup, fun _ => Iff.rfl⟩

theorem addEdge_invalid {G : DiG} {u v : Int} (hv : ¬ Valid G.n u v) :
    G.addEdge u v = .error .valueError := by
  rcases addEdge_cases G u v with ⟨_, h1⟩ | ⟨hv', _⟩ | ⟨hv', _⟩
  · exact h1
  · exact absurd hv' hv
  · exact absurd hv' hv

theorem refines_addEdge {G : DiG} {a : Spec} (h : Refines G a) {u v : Int} (hv : Valid G.n u v) :
    ∃ G', G.addEdge u v = .ok G' ∧ Refines G' (a.insert (u.toNat, v.toNat)) := by
  rcases addEdge_cases G u v with ⟨hv', _⟩ | ⟨_, hc, h1⟩ | ⟨_, hc, h1⟩
  · exact absurd hv hv'
  · refine ⟨G, h1, ?_⟩
    have hp : (u.toNat, v.toNat) ∈ a.E := (h.mem _).2 hc
    have : a.insert (u.toNat, v.toNat) = a := by unfold Spec.insert; rw [if_pos hp]
    rw [this]; exact h
  · refine ⟨_, h1, ?_⟩
    have hp : (u.toNat, v.toNat) ∉ a.E := fun hm => hc ((h.mem _).1 hm)
    have e1 : a.insert (u.toNat, v.toNat) = { a with E := (u.toNat, v.toNat) :: a.E } := by
      unfold Spec.insert; rw [if_neg hp]
    rw [e1]
    refine ⟨inv_addEdge h.inv h1, h.n_eq, List.nodup_cons.2 ⟨hp, h.nodup⟩, fun e => ?_⟩
    simp only [insertNew, List.mem_cons, h.mem]

theorem refines_addEdgesFromP {G : DiG} {a : Spec} (h : Refines G a) (es : List (Int × Int)) :
    Refines (G.addEdgesFromP es).1 (a.addEdges es).1 ∧
      Outcome.ofOpt (G.addEdgesFromP es).2 = (a.addEdges es).2 := by
  induction es generalizing G a with
  | nil => exact ⟨h, rfl⟩
  | cons e es ih =>
    by_cases hv : Valid G.n e.1 e.2
    · obtain ⟨G', e', r'⟩ := refines_addEdge h hv
      have hv' : Valid a.n e.1 e.2 := h.n_eq ▸ hv
      simp only [addEdgesFromP, e', Spec.addEdges, if_pos hv']
      exact ih r'
    · have hv' : ¬ Valid a.n e.1 e.2 := h.n_eq ▸ hv
      simp only [addEdgesFromP, addEdge_invalid hv, Spec.addEdges, if_neg hv']
      exact ⟨h, rfl⟩

theorem refines_step {G : DiG} {a : Spec} (h : Refines G a) (op : GOp) :
    Refines (G.step op).1 (a.step op).1 ∧ (G.step op).2 = (a.step op).2 := by
  cases op with
  | addEdge u v =>
    by_cases hv : Valid G.n u v
    · obtain ⟨G', e', r'⟩ := refines_addEdge h hv
      have hv' : Valid a.n u v := h.n_eq ▸ hv
      simp only [step, e', Spec.step, if_pos hv']
      exact ⟨r', by trivial⟩
    · have hv' : ¬ Valid a.n u v := h.n_eq ▸ hv
      simp only [step, addEdge_invalid hv, Spec.step, if_neg hv']
      exact ⟨h, by trivial⟩
  | removeEdge u v => exact ⟨h, rfl⟩
  | updateVertexNumber k => exact ⟨h, rfl⟩
  | addEdgesFrom es => exact refines_addEdgesFromP h es

theorem refines_run {G : DiG} {a : Spec} (h : Refines G a) (ops : List GOp) :
    Refines (G.run ops) (a.run ops) := by
  induction ops generalizing G a with
  | nil => exact h
  | cons o os ih => exact ih (refines_step h o).1

theorem trace_eq {G : DiG} {a : Spec} (h : Refines G a) (ops : List GOp) :
    traceOf step G ops = traceOf Spec.step a ops := by
  induction ops generalizing G a with
  | nil => rfl
  | cons o os ih =>
    simp only [traceOf]
    rw [(refines_step h o).2, ih (refines_step h o).1]

theorem nodup_map_swap {l : List (Nat × Nat)} (h : l.Nodup) : (l.map Prod.swap).Nodup := by
  rw [List.nodup_iff_pairwise_ne] at h ⊢
  exact h.map _ (fun a b hab heq => hab (by
    have := congrArg Prod.swap heq; simpa using this))

namespace Refines
variable {G : DiG} {a : Spec} (h : Refines G a)
include h

theorem numberOfVertices_eq : G.numberOfVertices = a.n := h.n_eq

theorem numberOfEdges_eq : G.numberOfEdges = a.numberOfEdges := by
  show G.m = a.E.length
  rw [← h.inv.count]
  exact ((List.perm_ext_iff_of_nodup h.nodup h.inv.nodup).2 h.mem).length_eq.symm

theorem mem_edges (e : Nat × Nat) : e ∈ G.edges ↔ e ∈ a.E := h.inv.mem_edges.trans (h.mem e).symm

theorem edges_eq : G.edges = a.edges := h.inv.edges_sorted.eq_mergeSort h.nodup h.mem_edges

theorem edgesBySucc_eq : G.edgesBySucc = a.edgesBySucc := by
  have key : G.edgesBySucc.map Prod.swap = (a.E.map Prod.swap).mergeSort lexLe := by
    apply SortedLex.eq_mergeSort h.inv.edgesBySucc_sorted (nodup_map_swap h.nodup)
    intro x
    simp only [List.mem_map]
    constructor
    · rintro ⟨e, he, rfl⟩; exact ⟨e, (h.mem e).2 (h.inv.mem_edgesBySucc.1 he), rfl⟩
    · rintro ⟨e, he, rfl⟩; exact ⟨e, h.inv.mem_edgesBySucc.2 ((h.mem e).1 he), rfl⟩
  unfold Spec.edgesBySucc
  rw [← key, List.map_map]
  have : (Prod.swap ∘ Prod.swap : Nat × Nat → Nat × Nat) = id := by funext x; rfl
  rw [this, List.map_id]

theorem hasEdge_eq (u v : Int) : G.hasEdge u v = a.hasEdge u v := by
  rw [Bool.eq_iff_iff, hasEdge_iff, Spec.hasEdge, List.any_eq_true]
  constructor
  · rintro ⟨hu, hv, hm⟩
    refine ⟨(u.toNat, v.toNat), (h.mem _).2 hm, ?_⟩
    simp only [Bool.and_eq_true]
    exact ⟨decide_eq_true (by omega), decide_eq_true (by omega)⟩
  · rintro ⟨e, he, hcond⟩
    simp only [Bool.and_eq_true, decide_eq_true_iff] at hcond
    refine ⟨by omega, by omega, ?_⟩
    have : (u.toNat, v.toNat) = e := Prod.ext (by simp only; omega) (by simp only; omega)
    rw [this]; exact (h.mem e).1 he

theorem succs_eq (u : Nat) : G.succs u = a.succs u := by
  apply SortedLt.ext (h.inv.succs_sorted u) (a.succs_sorted u)
  intro v
  rw [h.inv.mem_succs, Spec.mem_succs, h.mem, ← h.n_eq]
  constructor
  · intro hm; exact ⟨(h.inv.range _ _ hm).2.2.2, hm⟩
  · exact fun hh => hh.2

theorem preds_eq (v : Nat) : G.preds v = a.preds v := by
  apply SortedLt.ext (h.inv.preds_sorted v) (a.preds_sorted v)
  intro u
  rw [h.inv.mem_preds, Spec.mem_preds, h.mem, ← h.n_eq]
  constructor
  · intro hm; exact ⟨(h.inv.range _ _ hm).2.1, hm⟩
  · exact fun hh => hh.2

theorem successors_eq (u : Int) : G.successors u = a.successors u := by
  unfold successors Spec.successors
  rw [← h.n_eq]
  by_cases hu : 1 ≤ u ∧ u ≤ G.n
  · rw [if_neg (fun hn => hn hu), if_pos hu]
    exact congrArg _ (h.succs_eq u.toNat)
  · rw [if_pos hu, if_neg hu]

theorem predecessors_eq (u : Int) : G.predecessors u = a.predecessors u := by
  unfold predecessors Spec.predecessors
  rw [← h.n_eq]
  by_cases hu : 1 ≤ u ∧ u ≤ G.n
  · rw [if_neg (fun hn => hn hu), if_pos hu]
    exact congrArg _ (h.preds_eq u.toNat)
  · rw [if_pos hu, if_neg hu]

theorem outDegree_eq (u : Int) : G.outDegree u = a.outDegree u := by
  unfold outDegree Spec.outDegree
  rw [h.successors_eq]
  unfold Spec.successors
  split <;> rfl

theorem inDegree_eq (u : Int) : G.inDegree u = a.inDegree u := by
  unfold inDegree Spec.inDegree
  rw [h.predecessors_eq]
  unfold Spec.predecessors
  split <;> rfl

/-- T-C16.3 (state form): the flag is on iff every edge of the abstract set is increasing -/
theorem isDag_eq : G.isDag = a.isDag := by
  rw [Bool.eq_iff_iff]
  show G.stillDag = true ↔ _
  rw [h.inv.dag, Spec.isDag, List.all_eq_true]
  constructor
  · intro hh e he; exact decide_eq_true (hh e ((h.mem e).1 he))
  · intro hh e he; exact of_decide_eq_true (hh e ((h.mem e).2 he))

end Refines

theorem step_addEdge_present {G : DiG} (h : Inv G) {u v : Int} (he : G.hasEdge u v = true) :
    G.step (.addEdge u v) = (G, .ok) := by
  obtain ⟨hu, hv, hm⟩ := (hasEdge_iff G u v).1 he
  rcases addEdge_cases G u v with ⟨hv', _⟩ | ⟨_, _, h1⟩ | ⟨_, hc, _⟩
  · have := h.range _ _ hm
    exact absurd ⟨by omega, by omega, by omega, by omega⟩ hv'
  · simp only [step, h1]
  · exact absurd hm hc

theorem step_addEdge_invalid {G : DiG} {u v : Int} (hv : ¬ Valid G.n u v) :
    G.step (.addEdge u v) = (G, .raised .valueError) := by
  simp only [step, addEdge_invalid hv]

theorem step_addEdge_valid {G : DiG} {u v : Int} (hv : Valid G.n u v) :
    (G.step (.addEdge u v)).2 = .ok := by
  rcases addEdge_cases G u v with ⟨hv', _⟩ | ⟨_, _, h1⟩ | ⟨_, _, h1⟩
  · exact absurd hv hv'
  · simp only [step, h1]
  · simp only [step, h1]

/-! ### T-C16.3 in history form: the edges ever inserted -/

/-- the argument pairs accepted by one call (for `add_edges_from`: those before the first
rejected pair) -/
def acceptedOf (n : Nat) : GOp → List (Int × Int)
  | .addEdge u v => if Valid n u v then [(u, v)] else []
  | .addEdgesFrom es => es.takeWhile (fun e => decide (Valid n e.1 e.2))
  | _ => []

/-- every edge ever inserted by the history (duplicates included) -/
def inserted (n : Nat) (ops : List GOp) : List (Int × Int) := ops.flatMap (acceptedOf n)

theorem Spec.addEdges_n (a : Spec) (es : List (Int × Int)) : (a.addEdges es).1.n = a.n := by
  induction es generalizing a with
  | nil => rfl
  | cons e es ih =>
    simp only [Spec.addEdges]
    split
    · rw [ih, Spec.insert_n]
    · rfl

theorem Spec.step_n (a : Spec) (op : GOp) : (a.step op).1.n = a.n := by
  cases op with
  | addEdge u v => simp only [Spec.step]; split <;> simp [Spec.insert_n]
  | removeEdge u v => rfl
  | updateVertexNumber k => rfl
  | addEdgesFrom es => exact Spec.addEdges_n a es

theorem Spec.mem_addEdges (a : Spec) (es : List (Int × Int)) (p : Nat × Nat) :
    p ∈ (a.addEdges es).1.E ↔ p ∈ a.E ∨
      ((p.1 : Int), (p.2 : Int)) ∈ es.takeWhile (fun e => decide (Valid a.n e.1 e.2)) := by
  induction es generalizing a with
  | nil => simp [Spec.addEdges]
  | cons e es ih =>
    simp only [Spec.addEdges, List.takeWhile_cons]
    by_cases hv : Valid a.n e.1 e.2
    · rw [if_pos hv, if_pos (decide_eq_true hv), ih, Spec.mem_insert, Spec.insert_n, List.mem_cons]
      obtain ⟨h1, h2, h3, h4⟩ := hv
      constructor
      · rintro ((rfl | hp) | hp)
        · right; left; exact Prod.ext (by simp only; omega) (by simp only; omega)
        · left; exact hp
        · right; right; exact hp
      · rintro (hp | hp | hp)
        · left; right; exact hp
        · left; left
          have := congrArg Prod.fst hp; have := congrArg Prod.snd hp
          exact Prod.ext (by simp only at *; omega) (by simp only at *; omega)
        · right; exact hp
    · rw [if_neg hv, if_neg (by simpa using hv)]; simp

theorem Spec.mem_step (a : Spec) (op : GOp) (p : Nat × Nat) :
    p ∈ (a.step op).1.E ↔ p ∈ a.E ∨ ((p.1 : Int), (p.2 : Int)) ∈ acceptedOf a.n op := by
  cases op with
  | addEdge u v =>
    simp only [Spec.step, acceptedOf]
    by_cases hv : Valid a.n u v
    · rw [if_pos hv, if_pos hv, Spec.mem_insert, List.mem_singleton]
      obtain ⟨h1, h2, h3, h4⟩ := hv
      constructor
      · rintro (rfl | hp)
        · right; exact Prod.ext (by simp only; omega) (by simp only; omega)
        · left; exact hp
      · rintro (hp | hp)
        · right; exact hp
        · left
          have := congrArg Prod.fst hp; have := congrArg Prod.snd hp
          exact Prod.ext (by simp only at *; omega) (by simp only at *; omega)
    · rw [if_neg hv, if_neg hv]; simp
  | removeEdge u v => simp [Spec.step, acceptedOf]
  | updateVertexNumber k => simp [Spec.step, acceptedOf]
  | addEdgesFrom es => exact Spec.mem_addEdges a es p

/-- the abstract edge set after a history is the set of all edges ever inserted -/
theorem Spec.mem_run (a : Spec) (ops : List GOp) (p : Nat × Nat) :
    p ∈ (a.run ops).E ↔ p ∈ a.E ∨ ((p.1 : Int), (p.2 : Int)) ∈ inserted a.n ops := by
  induction ops generalizing a with
  | nil => simp [Spec.run, inserted]
  | cons o os ih =>
    have : (a.run (o :: os)) = (a.step o).1.run os := rfl
    rw [this, ih, Spec.mem_step, Spec.step_n]
    simp only [inserted, List.flatMap_cons, List.mem_append]
    exact or_assoc

theorem inserted_nonneg {n : Nat} {ops : List GOp} {e : Int × Int} (he : e ∈ inserted n ops) :
    Valid n e.1 e.2 := by
  simp only [inserted, List.mem_flatMap] at he
  obtain ⟨op, _, hop⟩ := he
  cases op with
  | addEdge u v =>
    simp only [acceptedOf] at hop
    split at hop
    · rename_i hv; rw [List.mem_singleton] at hop; subst hop; exact hv
    · cases hop
  | removeEdge u v => cases hop
  | updateVertexNumber k => cases hop
  | addEdgesFrom es =>
    simp only [acceptedOf] at hop
    have := mem_takeWhile_imp hop
    simpa using this

end DiG

/-! ## bipartite graphs -/
namespace BipG

structure Spec where
  l : Nat
  r : Nat
  /-- pairs (left vertex, right vertex); duplicate-free -/
  E : List (Nat × Nat)
  deriving Repr, DecidableEq

namespace Spec
def init (l r : Nat) : Spec := ⟨l, r, []⟩
def insert (a : Spec) (p : Nat × Nat) : Spec := if p ∈ a.E then a else { a with E := p :: a.E }

def addEdges (a : Spec) : List (Int × Int) → Spec × Outcome
  | [] => (a, .ok)
  | e :: es =>
    if Valid a.l a.r e.1 e.2 then (a.insert (e.1.toNat, e.2.toNat)).addEdges es
    else (a, .raised .valueError)

def step (a : Spec) : GOp → Spec × Outcome
  | .addEdge u v =>
    if Valid a.l a.r u v then (a.insert (u.toNat, v.toNat), .ok) else (a, .raised .valueError)
  | .removeEdge _ _ => (a, .noSuchMethod)
  | .updateVertexNumber _ => (a, .noSuchMethod)
  | .addEdgesFrom es => a.addEdges es

def run (a : Spec) (ops : List GOp) : Spec := ops.foldl (fun s o => (s.step o).1) a

def numberOfVertices (a : Spec) : Nat := a.l + a.r
def numberOfEdges (a : Spec) : Nat := a.E.length
def edges (a : Spec) : List (Nat × Nat) := a.E.mergeSort lexLe
def hasEdge (a : Spec) (u v : Int) : Bool :=
  a.E.any (fun e => decide ((e.1 : Int) = u) && decide ((e.2 : Int) = v))
def rnbrs (a : Spec) (u : Nat) : List Nat := (List.range (a.r + 1)).filter (fun v => decide ((u, v) ∈ a.E))
def lnbrs (a : Spec) (v : Nat) : List Nat := (List.range (a.l + 1)).filter (fun u => decide ((u, v) ∈ a.E))
def rightNeighbors (a : Spec) (u : Int) : Except Err (List Nat) :=
  if 1 ≤ u ∧ u ≤ a.l then .ok (a.rnbrs u.toNat) else .error .valueError
def leftNeighbors (a : Spec) (v : Int) : Except Err (List Nat) :=
  if 1 ≤ v ∧ v ≤ a.r then .ok (a.lnbrs v.toNat) else .error .valueError
def rightDegree (a : Spec) (u : Int) : Except Err Nat :=
  if 1 ≤ u ∧ u ≤ a.l then .ok (a.rnbrs u.toNat).length else .error .valueError
def leftDegree (a : Spec) (v : Int) : Except Err Nat :=
  if 1 ≤ v ∧ v ≤ a.r then .ok (a.lnbrs v.toNat).length else .error .valueError

theorem insert_lr (a : Spec) (p : Nat × Nat) : (a.insert p).l = a.l ∧ (a.insert p).r = a.r := by
  unfold insert; split <;> exact ⟨rfl, rfl⟩

theorem mem_insert (a : Spec) (p e : Nat × Nat) : e ∈ (a.insert p).E ↔ e = p ∨ e ∈ a.E := by
  unfold insert
  split
  · rename_i hp
    constructor
    · exact Or.inr
    · rintro (rfl | he)
      · exact hp
      · exact he
  · simp

theorem insert_insert (a : Spec) (p : Nat × Nat) : (a.insert p).insert p = a.insert p := by
  have : p ∈ (a.insert p).E := (mem_insert a p p).2 (Or.inl rfl)
  generalize a.insert p = b at this ⊢
  unfold insert; rw [if_pos this]

theorem rnbrs_sorted (a : Spec) (u : Nat) : SortedLt (a.rnbrs u) :=
  List.Pairwise.filter _ List.pairwise_lt_range
theorem lnbrs_sorted (a : Spec) (u : Nat) : SortedLt (a.lnbrs u) :=
  List.Pairwise.filter _ List.pairwise_lt_range
theorem mem_rnbrs (a : Spec) (u v : Nat) : v ∈ a.rnbrs u ↔ v ≤ a.r ∧ (u, v) ∈ a.E := by
  simp [rnbrs, List.mem_filter, List.mem_range]; omega
theorem mem_lnbrs (a : Spec) (u v : Nat) : u ∈ a.lnbrs v ↔ u ≤ a.l ∧ (u, v) ∈ a.E := by
  simp [lnbrs, List.mem_filter, List.mem_range]; omega
end Spec

structure Refines (G : BipG) (a : Spec) : Prop where
  inv : Inv G
  l_eq : G.l = a.l
  r_eq : G.r = a.r
  nodup : a.E.Nodup
  mem : ∀ e, e ∈ a.E ↔ e ∈ G.edgeset

theorem refines_init (l r : Nat) : Refines (init l r) (Spec.init l r) :=
  ⟨inv_init l r, rfl, rfl, by simp [Spec.init], by simp [Spec.init, init]⟩

theorem Inv.refines {G : BipG} (h : Inv G) : Refines G ⟨G.l, G.r, G.edgeset⟩ :=
  ⟨h, rfl, rfl, h.nodup, fun _ => Iff.rfl⟩

theorem addEdge_invalid {G : BipG} {u v : Int} (hv : ¬ Valid G.l G.r u v) :
    G.addEdge u v = .error .valueError := by
  rcases addEdge_cases G u v with ⟨_, h1⟩ | ⟨hv', _⟩ | ⟨hv', _⟩
  · exact h1
  · exact absurd hv' hv
  · exact absurd hv' hv

theorem refines_addEdge {G : BipG} {a : Spec} (h : Refines G a) {u v : Int} (hv : Valid G.l G.r u v) :
    ∃ G', G.addEdge u v = .ok G' ∧ Refines G' (a.insert (u.toNat, v.toNat)) := by
  rcases addEdge_cases G u v with ⟨hv', _⟩ | ⟨_, hc, h1⟩ | ⟨_, hc, h1⟩
  · exact absurd hv hv'
  · refine ⟨G, h1, ?_⟩
    have hp : (u.toNat, v.toNat) ∈ a.E := (h.mem _).2 hc
    have : a.insert (u.toNat, v.toNat) = a := by unfold Spec.insert; rw [if_pos hp]
    rw [this]; exact h
  · refine ⟨_, h1, ?_⟩
    have hp : (u.toNat, v.toNat) ∉ a.E := fun hm => hc ((h.mem _).1 hm)
    have e1 : a.insert (u.toNat, v.toNat) = { a with E := (u.toNat, v.toNat) :: a.E } := by
      unfold Spec.insert; rw [if_neg hp]
    rw [e1]
    refine ⟨inv_addEdge h.inv h1, h.l_eq, h.r_eq, List.nodup_cons.2 ⟨hp, h.nodup⟩, fun e => ?_⟩
    simp only [insertNew, List.mem_cons, h.mem]

theorem refines_addEdgesFromP {G : BipG} {a : Spec} (h : Refines G a) (es : List (Int × Int)) :
    Refines (G.addEdgesFromP es).1 (a.addEdges es).1 ∧
      Outcome.ofOpt (G.addEdgesFromP es).2 = (a.addEdges es).2 := by
  induction es generalizing G a with
  | nil => exact ⟨h, rfl⟩
  | cons e es ih =>
    by_cases hv : Valid G.l G.r e.1 e.2
    · obtain ⟨G', e', r'⟩ := refines_addEdge h hv
      have hv' : Valid a.l a.r e.1 e.2 := h.l_eq ▸ h.r_eq ▸ hv
      simp only [addEdgesFromP, e', Spec.addEdges, if_pos hv']
      exact ih r'
    · have hv' : ¬ Valid a.l a.r e.1 e.2 := h.l_eq ▸ h.r_eq ▸ hv
      simp only [addEdgesFromP, addEdge_invalid hv, Spec.addEdges, if_neg hv']
      exact ⟨h, rfl⟩

theorem refines_step {G : BipG} {a : Spec} (h : Refines G a) (op : GOp) :
    Refines (G.step op).1 (a.step op).1 ∧ (G.step op).2 = (a.step op).2 := by
  cases op with
  | addEdge u v =>
    by_cases hv : Valid G.l G.r u v
    · obtain ⟨G', e', r'⟩ := refines_addEdge h hv
      have hv' : Valid a.l a.r u v := h.l_eq ▸ h.r_eq ▸ hv
      simp only [step, e', Spec.step, if_pos hv']
      exact ⟨r', by trivial⟩
    · have hv' : ¬ Valid a.l a.r u v := h.l_eq ▸ h.r_eq ▸ hv
      simp only [step, addEdge_invalid hv, Spec.step, if_neg hv']
      exact ⟨h, by trivial⟩
  | removeEdge u v => exact ⟨h, rfl⟩
  | updateVertexNumber k => exact ⟨h, rfl⟩
  | addEdgesFrom es => exact refines_addEdgesFromP h es

theorem refines_run {G : BipG} {a : Spec} (h : Refines G a) (ops : List GOp) :
    Refines (G.run ops) (a.run ops) := by
  induction ops generalizing G a with
  | nil => exact h
  | cons o os ih => exact ih (refines_step h o).1

theorem trace_eq {G : BipG} {a : Spec} (h : Refines G a) (ops : List GOp) :
    traceOf step G ops = traceOf Spec.step a ops := by
  induction ops generalizing G a with
  | nil => rfl
  | cons o os ih =>
    simp only [traceOf]
    rw [(refines_step h o).2, ih (refines_step h o).1]

namespace Refines
variable {G : BipG} {a : Spec} (h : Refines G a)
include h

theorem numberOfVertices_eq : G.numberOfVertices = a.numberOfVertices := by
  simp only [numberOfVertices, Spec.numberOfVertices, h.l_eq, h.r_eq]

theorem numberOfEdges_eq : G.numberOfEdges = a.numberOfEdges :=
  ((List.perm_ext_iff_of_nodup h.nodup h.inv.nodup).2 h.mem).length_eq.symm

theorem mem_edges (e : Nat × Nat) : e ∈ G.edges ↔ e ∈ a.E := h.inv.mem_edges.trans (h.mem e).symm

theorem edges_eq : G.edges = a.edges := h.inv.edges_sorted.eq_mergeSort h.nodup h.mem_edges

theorem hasEdge_eq (u v : Int) : G.hasEdge u v = a.hasEdge u v := by
  rw [Bool.eq_iff_iff, hasEdge_iff, Spec.hasEdge, List.any_eq_true]
  constructor
  · rintro ⟨hu, hv, hm⟩
    refine ⟨(u.toNat, v.toNat), (h.mem _).2 hm, ?_⟩
    simp only [Bool.and_eq_true]
    exact ⟨decide_eq_true (by omega), decide_eq_true (by omega)⟩
  · rintro ⟨e, he, hcond⟩
    simp only [Bool.and_eq_true, decide_eq_true_iff] at hcond
    refine ⟨by omega, by omega, ?_⟩
    have : (u.toNat, v.toNat) = e := Prod.ext (by simp only; omega) (by simp only; omega)
    rw [this]; exact (h.mem e).1 he

theorem rnbrs_eq (u : Nat) : G.rnbrs u = a.rnbrs u := by
  apply SortedLt.ext (h.inv.rnbrs_sorted u) (a.rnbrs_sorted u)
  intro v
  rw [h.inv.mem_rnbrs, Spec.mem_rnbrs, h.mem, ← h.r_eq]
  constructor
  · intro hm; exact ⟨(h.inv.range _ _ hm).2.2.2, hm⟩
  · exact fun hh => hh.2

theorem lnbrs_eq (v : Nat) : G.lnbrs v = a.lnbrs v := by
  apply SortedLt.ext (h.inv.lnbrs_sorted v) (a.lnbrs_sorted v)
  intro u
  rw [h.inv.mem_lnbrs, Spec.mem_lnbrs, h.mem, ← h.l_eq]
  constructor
  · intro hm; exact ⟨(h.inv.range _ _ hm).2.1, hm⟩
  · exact fun hh => hh.2

theorem rightNeighbors_eq (u : Int) : G.rightNeighbors u = a.rightNeighbors u := by
  unfold rightNeighbors Spec.rightNeighbors
  rw [← h.l_eq]
  by_cases hu : 1 ≤ u ∧ u ≤ G.l
  · rw [if_neg (fun hn => hn hu), if_pos hu]
    exact congrArg _ (h.rnbrs_eq u.toNat)
  · rw [if_pos hu, if_neg hu]

theorem leftNeighbors_eq (v : Int) : G.leftNeighbors v = a.leftNeighbors v := by
  unfold leftNeighbors Spec.leftNeighbors
  rw [← h.r_eq]
  by_cases hv : 1 ≤ v ∧ v ≤ G.r
  · rw [if_neg (fun hn => hn hv), if_pos hv]
    exact congrArg _ (h.lnbrs_eq v.toNat)
  · rw [if_pos hv, if_neg hv]

theorem rightDegree_eq (u : Int) : G.rightDegree u = a.rightDegree u := by
  unfold rightDegree Spec.rightDegree
  rw [h.rightNeighbors_eq]
  unfold Spec.rightNeighbors
  split <;> rfl

theorem leftDegree_eq (v : Int) : G.leftDegree v = a.leftDegree v := by
  unfold leftDegree Spec.leftDegree
  rw [h.leftNeighbors_eq]
  unfold Spec.leftNeighbors
  split <;> rfl

end Refines

theorem step_addEdge_present {G : BipG} (h : Inv G) {u v : Int} (he : G.hasEdge u v = true) :
    G.step (.addEdge u v) = (G, .ok) := by
  obtain ⟨hu, hv, hm⟩ := (hasEdge_iff G u v).1 he
  rcases addEdge_cases G u v with ⟨hv', _⟩ | ⟨_, _, h1⟩ | ⟨_, hc, _⟩
  · have := h.range _ _ hm
    exact absurd ⟨by omega, by omega, by omega, by omega⟩ hv'
  · simp only [step, h1]
  · exact absurd hm hc

theorem step_addEdge_invalid {G : BipG} {u v : Int} (hv : ¬ Valid G.l G.r u v) :
    G.step (.addEdge u v) = (G, .raised .valueError) := by
  simp only [step, addEdge_invalid hv]

theorem step_addEdge_valid {G : BipG} {u v : Int} (hv : Valid G.l G.r u v) :
    (G.step (.addEdge u v)).2 = .ok := by
  rcases addEdge_cases G u v with ⟨hv', _⟩ | ⟨_, _, h1⟩ | ⟨_, _, h1⟩
  · exact absurd hv hv'
  · simp only [step, h1]
  · simp only [step, h1]

end BipG

end Cnfgen
