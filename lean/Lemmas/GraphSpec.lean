/-
The abstract specification of the graph objects (C16): a vertex count and a duplicate-free
list of pairs (unordered, normalised `u < v`, for simple graphs), updated by the obvious set
operations; the refinement relation between the concrete object and the specification;
its preservation by every operation, lifted to histories; and the equality of every view
with the specification's answer (T-C16.2).
Core Lean only.
-/
import Lemmas.GraphInv
namespace Cnfgen

/-- the outcomes of a whole history (what the caller observes, call by call) -/
def traceOf {σ} (step : σ → GOp → σ × Outcome) : σ → List GOp → List Outcome
  | _, [] => []
  | s, o :: os => (step s o).2 :: traceOf step (step s o).1 os

/-! ## simple graphs -/
namespace SimpleG

structure Spec where
  n : Nat
  /-- normalised pairs `(u, v)`, `u < v`; duplicate-free -/
  E : List (Nat × Nat)
  deriving Repr, DecidableEq

namespace Spec
def init (n : Nat) : Spec := ⟨n, []⟩

/-- set insertion -/
def insert (a : Spec) (p : Nat × Nat) : Spec := if p ∈ a.E then a else { a with E := p :: a.E }

/-- set removal of the unordered pair `{u, v}` -/
def remove (a : Spec) (u v : Int) : Spec :=
  { a with E := a.E.filter (fun e => !(decide ((e.1 : Int) = min u v) && decide ((e.2 : Int) = max u v))) }

/-- `add_edges_from`: insert until the first pair that is not a legal edge -/
def addEdges (a : Spec) : List (Int × Int) → Spec × Outcome
  | [] => (a, .ok)
  | e :: es =>
    if Valid a.n e.1 e.2 then (a.insert (norm e.1.toNat e.2.toNat)).addEdges es
    else (a, .raised .valueError)

def step (a : Spec) : GOp → Spec × Outcome
  | .addEdge u v =>
    if Valid a.n u v then (a.insert (norm u.toNat v.toNat), .ok) else (a, .raised .valueError)
  | .removeEdge u v => (a.remove u v, .ok)
  | .updateVertexNumber k =>
    if k < 0 then (a, .raised .valueError) else ({ a with n := max a.n k.toNat }, .ok)
  | .addEdgesFrom es => a.addEdges es

def run (a : Spec) (ops : List GOp) : Spec := ops.foldl (fun s o => (s.step o).1) a

/-! the specification's answer for every view -/
def numberOfEdges (a : Spec) : Nat := a.E.length
/-- the edges in lexicographic order, each once -/
def edges (a : Spec) : List (Nat × Nat) := a.E.mergeSort lexLe
def hasEdge (a : Spec) (u v : Int) : Bool :=
  a.E.any (fun e => decide ((e.1 : Int) = min u v) && decide ((e.2 : Int) = max u v))
/-- the vertices `v` with `{u, v}` an edge, in increasing order -/
def nbrs (a : Spec) (u : Nat) : List Nat :=
  (List.range (a.n + 1)).filter (fun v => decide (norm u v ∈ a.E))
def neighbors (a : Spec) (u : Int) : Except Err (List Nat) :=
  if 1 ≤ u ∧ u ≤ a.n then .ok (a.nbrs u.toNat) else .error .valueError
def degree (a : Spec) (u : Int) : Except Err Nat :=
  if 1 ≤ u ∧ u ≤ a.n then .ok (a.nbrs u.toNat).length else .error .valueError

theorem insert_n (a : Spec) (p : Nat × Nat) : (a.insert p).n = a.n := by
  unfold insert; split <;> rfl

theorem mem_insert (a : Spec) (p e : Nat × Nat) : e ∈ (a.insert p).E ↔ e = p ∨ e ∈ a.E := by
  unfold insert
  split
  · rename_i hp
    constructor
    · exact Or.inr
    · rintro (rfl | he)
      · exact hp
      · exact he
  · simp

theorem insert_nodup {a : Spec} (h : a.E.Nodup) (p : Nat × Nat) : (a.insert p).E.Nodup := by
  unfold insert
  split
  · exact h
  · rename_i hp; exact List.nodup_cons.2 ⟨hp, h⟩

/-- inserting twice is inserting once -/
theorem insert_insert (a : Spec) (p : Nat × Nat) : (a.insert p).insert p = a.insert p := by
  have : p ∈ (a.insert p).E := (mem_insert a p p).2 (Or.inl rfl)
  generalize a.insert p = b at this ⊢
  unfold insert; rw [if_pos this]

theorem nbrs_sorted (a : Spec) (u : Nat) : SortedLt (a.nbrs u) :=
  List.Pairwise.filter _ List.pairwise_lt_range

theorem mem_nbrs (a : Spec) (u v : Nat) : v ∈ a.nbrs u ↔ v ≤ a.n ∧ norm u v ∈ a.E := by
  simp [nbrs, List.mem_filter, List.mem_range]; omega
end Spec

/-- the concrete object `G` represents the abstract state `a` -/
structure Refines (G : SimpleG) (a : Spec) : Prop where
  inv : Inv G
  n_eq : G.n = a.n
  nodup : a.E.Nodup
  mem : ∀ e, e ∈ a.E ↔ e ∈ abs G

theorem refines_init (n : Nat) : Refines (init n) (Spec.init n) :=
  ⟨inv_init n, rfl, by simp [Spec.init], by simp [Spec.init, abs, init]⟩

/-- every object satisfying the invariant represents its own abstraction -/
theorem Inv.refines {G : SimpleG} (h : Inv G) : Refines G ⟨G.n, abs G⟩ :=
  ⟨h, rfl, h.abs_nodup, fun _ => Iff.rfl⟩

theorem addEdge_invalid {G : SimpleG} {u v : Int} (hv : ¬ Valid G.n u v) :
    G.addEdge u v = .error .valueError := by
  rcases addEdge_cases G u v with ⟨_, h1⟩ | ⟨hv', _⟩ | ⟨hv', _⟩
  · exact h1
  · exact absurd hv' hv
  · exact absurd hv' hv

theorem norm_lt {a b : Nat} (hab : a ≠ b) : (norm a b).1 < (norm a b).2 := by
  simp only [norm]; omega

theorem refines_addEdge {G : SimpleG} {a : Spec} (h : Refines G a) {u v : Int} (hv : Valid G.n u v) :
    ∃ G', G.addEdge u v = .ok G' ∧ Refines G' (a.insert (norm u.toNat v.toNat)) := by
  have hab : u.toNat ≠ v.toNat := by obtain ⟨h1, h2, h3, h4, h5⟩ := hv; omega
  rcases addEdge_cases G u v with ⟨hv', _⟩ | ⟨_, hc, h1⟩ | ⟨_, hc, h1⟩
  · exact absurd hv hv'
  · refine ⟨G, h1, ?_⟩
    have hp : norm u.toNat v.toNat ∈ a.E := (h.mem _).2 (h.inv.mem_edgeset_iff.1 hc)
    have : a.insert (norm u.toNat v.toNat) = a := by unfold Spec.insert; rw [if_pos hp]
    rw [this]; exact h
  · refine ⟨_, h1, ?_⟩
    have hp : norm u.toNat v.toNat ∉ a.E := fun hm => hc (h.inv.mem_edgeset_iff.2 ((h.mem _).1 hm))
    have e1 : a.insert (norm u.toNat v.toNat) = { a with E := norm u.toNat v.toNat :: a.E } := by
      unfold Spec.insert; rw [if_neg hp]
    rw [e1]
    refine ⟨inv_addEdge h.inv h1, h.n_eq, List.nodup_cons.2 ⟨hp, h.nodup⟩, fun e => ?_⟩
    have := abs_insertNew G (norm_lt hab)
    simp only [norm] at this ⊢
    rw [this, List.mem_cons, List.mem_cons, h.mem]

/-- the state after deleting the present edge `{a, b}` -/
def deleteOld (G : SimpleG) (a b : Nat) : SimpleG :=
  ⟨G.n, G.m - 1, (G.adj.modify a (removeFirst · b)).modify b (removeFirst · a),
   G.edgeset.filter (fun e => e != (a, b) && e != (b, a))⟩

theorem removeEdge_of_has {G : SimpleG} {u v : Int} (hh : G.hasEdge u v = true) :
    G.removeEdge u v = deleteOld G u.toNat v.toNat := by
  unfold removeEdge; rw [if_neg (by simp [hh])]; rfl

theorem removeEdge_of_not {G : SimpleG} {u v : Int} (hh : ¬ G.hasEdge u v = true) :
    G.removeEdge u v = G := by
  unfold removeEdge; rw [if_pos (by simpa using hh)]

theorem refines_removeEdge {G : SimpleG} {a : Spec} (h : Refines G a) (u v : Int) :
    Refines (G.removeEdge u v) (a.remove u v) := by
  refine ⟨inv_removeEdge h.inv u v, by rw [removeEdge_n]; exact h.n_eq,
    h.nodup.sublist List.filter_sublist, fun e => ?_⟩
  simp only [Spec.remove, List.mem_filter, Bool.not_eq_true', Bool.and_eq_false_iff,
    decide_eq_false_iff_not, h.mem]
  by_cases he : G.hasEdge u v = true
  · obtain ⟨hu, hv, hm⟩ := (hasEdge_iff G u v).1 he
    have hr := h.inv.range _ _ hm
    rw [removeEdge_of_has he]
    have e2 : abs (deleteOld G u.toNat v.toNat) =
        (abs G).filter (fun e => e != (min u.toNat v.toNat, max u.toNat v.toNat)) :=
      abs_filter _ hr.2.2.2.2
    rw [e2, List.mem_filter, bne_iff_ne, ne_eq, Prod.ext_iff]
    simp only
    constructor
    · rintro ⟨h1, h2⟩; exact ⟨h1, by omega⟩
    · rintro ⟨h1, h2⟩; exact ⟨h1, by omega⟩
  · rw [removeEdge_of_not he]
    constructor
    · exact fun hh => hh.1
    · intro hm
      refine ⟨hm, ?_⟩
      have hm' := mem_abs.1 hm
      have hr := h.inv.range _ _ hm'.2
      apply Classical.byContradiction
      intro hcon
      have hc1 : (e.1 : Int) = min u v := by omega
      have hc2 : (e.2 : Int) = max u v := by omega
      apply he
      rw [hasEdge_iff]
      refine ⟨by omega, by omega, ?_⟩
      by_cases huv : u < v
      · have : (u.toNat, v.toNat) = e := Prod.ext (by simp only; omega) (by simp only; omega)
        rw [this]; exact hm'.2
      · have : (u.toNat, v.toNat) = (e.2, e.1) := Prod.ext (by simp only; omega) (by simp only; omega)
        rw [this]; exact h.inv.symm _ _ hm'.2

theorem refines_addEdgesFromP {G : SimpleG} {a : Spec} (h : Refines G a) (es : List (Int × Int)) :
    Refines (G.addEdgesFromP es).1 (a.addEdges es).1 ∧
      Outcome.ofOpt (G.addEdgesFromP es).2 = (a.addEdges es).2 := by
  induction es generalizing G a with
  | nil => exact ⟨h, by trivial⟩
  | cons e es ih =>
    by_cases hv : Valid G.n e.1 e.2
    · obtain ⟨G', e', r'⟩ := refines_addEdge h hv
      have hv' : Valid a.n e.1 e.2 := h.n_eq ▸ hv
      simp only [addEdgesFromP, e', Spec.addEdges, if_pos hv']
      exact ih r'
    · have hv' : ¬ Valid a.n e.1 e.2 := h.n_eq ▸ hv
      simp only [addEdgesFromP, addEdge_invalid hv, Spec.addEdges, if_neg hv']
      exact ⟨h, by trivial⟩

/-- T-C16.1/2, one step: the object keeps representing the specification, and the caller
observes the same outcome (normal return / ValueError), for every operation and arguments -/
theorem refines_step {G : SimpleG} {a : Spec} (h : Refines G a) (op : GOp) :
    Refines (G.step op).1 (a.step op).1 ∧ (G.step op).2 = (a.step op).2 := by
  cases op with
  | addEdge u v =>
    by_cases hv : Valid G.n u v
    · obtain ⟨G', e', r'⟩ := refines_addEdge h hv
      have hv' : Valid a.n u v := h.n_eq ▸ hv
      simp only [step, e', Spec.step, if_pos hv']
      exact ⟨r', by trivial⟩
    · have hv' : ¬ Valid a.n u v := h.n_eq ▸ hv
      simp only [step, addEdge_invalid hv, Spec.step, if_neg hv']
      exact ⟨h, by trivial⟩
  | removeEdge u v => exact ⟨refines_removeEdge h u v, rfl⟩
  | updateVertexNumber k =>
    rcases updateVertexNumber_cases G k with ⟨hk, e1⟩ | ⟨hk, G', e1, hn, hm, hes⟩
    · simp only [step, e1, Spec.step, if_pos hk]; exact ⟨h, by trivial⟩
    · simp only [step, e1, Spec.step, if_neg (show ¬ k < 0 by omega)]
      refine ⟨⟨inv_updateVertexNumber h.inv e1, by rw [hn, h.n_eq], h.nodup, fun e => ?_⟩, by trivial⟩
      rw [h.mem]; simp only [abs, hes]
  | addEdgesFrom es => exact refines_addEdgesFromP h es

theorem refines_run {G : SimpleG} {a : Spec} (h : Refines G a) (ops : List GOp) :
    Refines (G.run ops) (a.run ops) := by
  induction ops generalizing G a with
  | nil => exact h
  | cons o os ih => exact ih (refines_step h o).1

theorem trace_eq {G : SimpleG} {a : Spec} (h : Refines G a) (ops : List GOp) :
    traceOf step G ops = traceOf Spec.step a ops := by
  induction ops generalizing G a with
  | nil => rfl
  | cons o os ih =>
    simp only [traceOf]
    rw [(refines_step h o).2, ih (refines_step h o).1]

/-! ### every view is the specification's answer -/
namespace Refines
variable {G : SimpleG} {a : Spec} (h : Refines G a)
include h

theorem numberOfVertices_eq : G.numberOfVertices = a.n := h.n_eq

theorem numberOfEdges_eq : G.numberOfEdges = a.numberOfEdges := by
  show G.m = a.E.length
  rw [← h.inv.count]
  exact ((List.perm_ext_iff_of_nodup h.nodup h.inv.abs_nodup).2 h.mem).length_eq.symm

theorem mem_edges (e : Nat × Nat) : e ∈ G.edges ↔ e ∈ a.E :=
  h.inv.mem_edges'.trans (mem_abs.symm.trans (h.mem e).symm)

/-- `edges()` is the sorted list of the abstract edge set, each edge once -/
theorem edges_eq : G.edges = a.edges :=
  h.inv.edges_sorted.eq_mergeSort h.nodup h.mem_edges

theorem hasEdge_eq (u v : Int) : G.hasEdge u v = a.hasEdge u v := by
  rw [Bool.eq_iff_iff, hasEdge_iff, Spec.hasEdge, List.any_eq_true]
  constructor
  · rintro ⟨hu, hv, hm⟩
    have hr := h.inv.range _ _ hm
    refine ⟨norm u.toNat v.toNat, (h.mem _).2 (h.inv.mem_edgeset_iff.1 hm), ?_⟩
    simp only [norm, Bool.and_eq_true]
    exact ⟨decide_eq_true (by omega), decide_eq_true (by omega)⟩
  · rintro ⟨e, he, hcond⟩
    simp only [Bool.and_eq_true, decide_eq_true_iff] at hcond
    have hm' := mem_abs.1 ((h.mem e).1 he)
    have hr := h.inv.range _ _ hm'.2
    refine ⟨by omega, by omega, ?_⟩
    by_cases huv : u < v
    · have : (u.toNat, v.toNat) = e := Prod.ext (by simp only; omega) (by simp only; omega)
      rw [this]; exact hm'.2
    · have : (u.toNat, v.toNat) = (e.2, e.1) := Prod.ext (by simp only; omega) (by simp only; omega)
      rw [this]; exact h.inv.symm _ _ hm'.2

/-- the adjacency list of `u` is the increasing list of the abstract neighbours -/
theorem nbrs_eq (u : Nat) : G.nbrs u = a.nbrs u := by
  apply SortedLt.ext (h.inv.nbrs_sorted u) (a.nbrs_sorted u)
  intro v
  rw [h.inv.mem_nbrs, Spec.mem_nbrs, h.mem, ← h.inv.mem_edgeset_iff, ← h.n_eq]
  constructor
  · intro hm; exact ⟨(h.inv.range _ _ hm).2.2.2.1, hm⟩
  · exact fun hh => hh.2

theorem neighbors_eq (u : Int) : G.neighbors u = a.neighbors u := by
  unfold neighbors Spec.neighbors
  rw [← h.n_eq]
  by_cases hu : 1 ≤ u ∧ u ≤ G.n
  · rw [if_neg (fun hn => hn hu), if_pos hu]
    exact congrArg _ (h.nbrs_eq u.toNat)
  · rw [if_pos hu, if_neg hu]

theorem degree_eq (u : Int) : G.degree u = a.degree u := by
  unfold degree Spec.degree
  rw [h.neighbors_eq]
  unfold Spec.neighbors
  split <;> rfl

omit h in
theorem isDag_eq : G.isDag = false := rfl

end Refines

/-- T-C16.2: inserting an edge that is present (in either orientation) changes nothing -/
theorem step_addEdge_present {G : SimpleG} (h : Inv G) {u v : Int} (he : G.hasEdge u v = true) :
    G.step (.addEdge u v) = (G, .ok) ∧ G.step (.addEdge v u) = (G, .ok) := by
  have key : ∀ u v : Int, G.hasEdge u v = true → G.step (.addEdge u v) = (G, .ok) := by
    intro u v he
    obtain ⟨hu, hv, hm⟩ := (hasEdge_iff G u v).1 he
    rcases addEdge_cases G u v with ⟨hv', _⟩ | ⟨_, _, h1⟩ | ⟨_, hc, _⟩
    · have := h.range _ _ hm
      exact absurd ⟨by omega, by omega, by omega, by omega, by omega⟩ hv'
    · simp only [step, h1]
    · exact absurd hm hc
  exact ⟨key u v he, key v u (by rw [← h.hasEdge_comm]; exact he)⟩

/-- T-C16.2: an insertion the class does not allow is refused with ValueError, no side effect -/
theorem step_addEdge_invalid {G : SimpleG} {u v : Int} (hv : ¬ Valid G.n u v) :
    G.step (.addEdge u v) = (G, .raised .valueError) := by
  simp only [step, addEdge_invalid hv]

/-- … and only then -/
theorem step_addEdge_valid {G : SimpleG} {u v : Int} (hv : Valid G.n u v) :
    (G.step (.addEdge u v)).2 = .ok := by
  rcases addEdge_cases G u v with ⟨hv', _⟩ | ⟨_, _, h1⟩ | ⟨_, _, h1⟩
  · exact absurd hv hv'
  · simp only [step, h1]
  · simp only [step, h1]

end SimpleG

end Cnfgen
