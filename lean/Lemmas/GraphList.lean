/-
List-level facts behind the graph objects (C16): sorted insertion (`bisect_right` + `insert`),
`list.remove`, the `bisect_right` cut used by the edge iterator of simple graphs, adjacency
tables (`List (List Nat)` indexed by vertex) and the edge listing of a table.
Core Lean only.
-/
import CnfgenModel.Graph.Ops
namespace Cnfgen

/-! ### strictly sorted lists of naturals -/

/-- strictly increasing (so: sorted and duplicate-free) -/
abbrev SortedLt (l : List Nat) : Prop := l.Pairwise (· < ·)

theorem SortedLt.nodup {l : List Nat} (h : SortedLt l) : l.Nodup :=
  List.nodup_iff_pairwise_ne.2 (h.imp (fun hab => Nat.ne_of_lt hab))

/-- a strictly sorted list is determined by its members -/
theorem SortedLt.ext {l₁ l₂ : List Nat} (h₁ : SortedLt l₁) (h₂ : SortedLt l₂)
    (h : ∀ x, x ∈ l₁ ↔ x ∈ l₂) : l₁ = l₂ := by
  apply List.Perm.eq_of_pairwise (le := (· < ·)) _ h₁ h₂
  · exact (List.perm_ext_iff_of_nodup h₁.nodup h₂.nodup).2 h
  · intro a b _ _ hab hba; omega

theorem mem_insertSorted {l : List Nat} {v x : Nat} : x ∈ insertSorted l v ↔ x = v ∨ x ∈ l := by
  induction l with
  | nil => simp [insertSorted]
  | cons y ys ih =>
    simp only [insertSorted]
    split
    · simp only [List.mem_cons, ih]
      constructor
      · rintro (h | h | h) <;> simp [h]
      · rintro (h | h | h) <;> simp [h]
    · simp [List.mem_cons]

theorem length_insertSorted (l : List Nat) (v : Nat) : (insertSorted l v).length = l.length + 1 := by
  induction l with
  | nil => simp [insertSorted]
  | cons y ys ih => simp only [insertSorted]; split <;> simp [ih]

theorem sorted_insertSorted {l : List Nat} {v : Nat} (h : SortedLt l) (hv : v ∉ l) :
    SortedLt (insertSorted l v) := by
  induction l with
  | nil => simp [insertSorted]
  | cons y ys ih =>
    have hy := List.pairwise_cons.1 h
    simp only [List.mem_cons, not_or] at hv
    simp only [insertSorted]
    split
    · rename_i hle
      apply List.Pairwise.cons
      · intro a ha
        rcases mem_insertSorted.1 ha with rfl | ha
        · omega
        · exact hy.1 a ha
      · exact ih hy.2 hv.2
    · rename_i hle
      apply List.Pairwise.cons
      · intro a ha
        rcases List.mem_cons.1 ha with rfl | ha
        · omega
        · have := hy.1 a ha; omega
      · exact h

theorem removeFirst_eq_erase (l : List Nat) (v : Nat) : removeFirst l v = l.erase v := by
  induction l with
  | nil => simp [removeFirst]
  | cons y ys ih => simp only [removeFirst, List.erase_cons, ih]

theorem mem_removeFirst {l : List Nat} (h : SortedLt l) {v x : Nat} :
    x ∈ removeFirst l v ↔ x ∈ l ∧ x ≠ v := by
  rw [removeFirst_eq_erase, h.nodup.mem_erase_iff]; exact And.comm

theorem sorted_removeFirst {l : List Nat} (h : SortedLt l) (v : Nat) : SortedLt (removeFirst l v) := by
  rw [removeFirst_eq_erase]; exact h.sublist List.erase_sublist

theorem length_removeFirst {l : List Nat} {v : Nat} (h : v ∈ l) :
    (removeFirst l v).length = l.length - 1 := by
  rw [removeFirst_eq_erase]; exact List.length_erase_of_mem h

/-- the tail cut off by `bisect_right(l, u)` is exactly the members above `u` -/
theorem mem_drop_bisectRight {l : List Nat} (h : SortedLt l) (u v : Nat) :
    v ∈ l.drop (bisectRight l u) ↔ v ∈ l ∧ u < v := by
  induction l with
  | nil => simp [bisectRight]
  | cons y ys ih =>
    have hy := List.pairwise_cons.1 h
    simp only [bisectRight]
    split
    · rename_i hle
      simp only [List.drop_succ_cons, ih hy.2, List.mem_cons]
      constructor
      · rintro ⟨h1, h2⟩; exact ⟨Or.inr h1, h2⟩
      · rintro ⟨h1 | h1, h2⟩
        · omega
        · exact ⟨h1, h2⟩
    · rename_i hle
      simp only [List.drop_zero, List.mem_cons]
      constructor
      · rintro (rfl | h1)
        · exact ⟨Or.inl rfl, by omega⟩
        · exact ⟨Or.inr h1, by have := hy.1 v h1; omega⟩
      · exact fun h1 => h1.1

theorem sorted_drop {l : List Nat} (h : SortedLt l) (k : Nat) : SortedLt (l.drop k) :=
  h.sublist (List.drop_sublist k l)

/-! ### adjacency tables -/

/-- the list stored for vertex `u` (`[]` outside the table) -/
def row (t : List (List Nat)) (u : Nat) : List Nat := t.getD u []

theorem row_of_ge {t : List (List Nat)} {u : Nat} (h : t.length ≤ u) : row t u = [] := by
  simp [row, List.getD_eq_getElem?_getD, List.getElem?_eq_none h]

theorem row_modify (t : List (List Nat)) (i : Nat) (f : List Nat → List Nat) (j : Nat) :
    row (t.modify i f) j = if i = j ∧ j < t.length then f (row t j) else row t j := by
  simp only [row, List.getD_eq_getElem?_getD, List.getElem?_modify]
  by_cases hj : j < t.length
  · simp [hj]
  · simp [hj]

theorem row_append_replicate (t : List (List Nat)) (k j : Nat) :
    row (t ++ List.replicate k []) j = row t j := by
  simp only [row, List.getD_eq_getElem?_getD, List.getElem?_append]
  split
  · rfl
  · rename_i h
    rw [List.getElem?_eq_none (Nat.le_of_not_lt h), List.getElem?_replicate]
    split <;> rfl

theorem row_replicate (k j : Nat) : row (List.replicate k []) j = [] := by
  simp only [row, List.getD_eq_getElem?_getD, List.getElem?_replicate]
  split <;> rfl

/-- the table `t` (rows `0..k`) stores the relation `P`: every row strictly sorted, `v` is in
row `u` iff `P u v` -/
structure Rep (t : List (List Nat)) (k : Nat) (P : Nat → Nat → Prop) : Prop where
  len : t.length = k + 1
  sorted : ∀ u, SortedLt (row t u)
  mem : ∀ u v, v ∈ row t u ↔ P u v

namespace Rep
variable {t : List (List Nat)} {k : Nat} {P Q : Nat → Nat → Prop}

theorem init (k : Nat) : Rep (List.replicate (k + 1) []) k (fun _ _ => False) :=
  ⟨by simp, fun u => by simp [row_replicate], fun u v => by simp [row_replicate]⟩

theorem congr (h : Rep t k P) (hpq : ∀ u v, P u v ↔ Q u v) : Rep t k Q :=
  ⟨h.len, h.sorted, fun u v => (h.mem u v).trans (hpq u v)⟩

theorem le_of (h : Rep t k P) {u v : Nat} (hp : P u v) : u ≤ k := by
  apply Nat.le_of_not_lt; intro hlt
  have : row t u = [] := row_of_ge (by rw [h.len]; omega)
  have := (h.mem u v).2 hp
  simp_all

theorem insert (h : Rep t k P) {u v : Nat} (hu : u ≤ k) (hn : ¬ P u v) :
    Rep (t.modify u (insertSorted · v)) k (fun a b => (a = u ∧ b = v) ∨ P a b) := by
  have hlen : u < t.length := by rw [h.len]; omega
  refine ⟨by rw [List.length_modify, h.len], fun a => ?_, fun a b => ?_⟩
  · rw [row_modify]
    split
    · exact sorted_insertSorted (h.sorted a) (fun hm => hn (by rename_i hh; rw [hh.1]; exact (h.mem a v).1 hm))
    · exact h.sorted a
  · rw [row_modify]
    split
    · rename_i hh
      rw [mem_insertSorted, h.mem]
      constructor
      · rintro (rfl | hp)
        · exact Or.inl ⟨hh.1.symm, rfl⟩
        · exact Or.inr hp
      · rintro (⟨_, rfl⟩ | hp)
        · exact Or.inl rfl
        · exact Or.inr hp
    · rename_i hh
      rw [h.mem]
      constructor
      · exact Or.inr
      · rintro (⟨rfl, _⟩ | hp)
        · exact absurd ⟨rfl, hlen⟩ hh
        · exact hp

theorem erase (h : Rep t k P) (u v : Nat) :
    Rep (t.modify u (removeFirst · v)) k (fun a b => P a b ∧ ¬ (a = u ∧ b = v)) := by
  refine ⟨by rw [List.length_modify, h.len], fun a => ?_, fun a b => ?_⟩
  · rw [row_modify]
    split
    · exact sorted_removeFirst (h.sorted a) v
    · exact h.sorted a
  · rw [row_modify]
    split
    · rename_i hh
      rw [mem_removeFirst (h.sorted a), h.mem]
      constructor
      · rintro ⟨hp, hne⟩; exact ⟨hp, fun hx => hne hx.2⟩
      · rintro ⟨hp, hne⟩; exact ⟨hp, fun hx => hne ⟨hh.1.symm, hx⟩⟩
    · rename_i hh
      rw [h.mem]
      constructor
      · intro hp
        refine ⟨hp, fun hx => hh ⟨hx.1.symm, ?_⟩⟩
        have := h.le_of hp; rw [h.len]; omega
      · exact fun hp => hp.1

theorem extend (h : Rep t k P) (j : Nat) : Rep (t ++ List.replicate j []) (k + j) P :=
  ⟨by simp [h.len]; omega, fun u => by rw [row_append_replicate]; exact h.sorted u,
   fun u v => by rw [row_append_replicate]; exact h.mem u v⟩

/-- two tables storing the same relation are equal -/
theorem unique {t' : List (List Nat)} (h : Rep t k P) (h' : Rep t' k P) : t = t' := by
  apply List.ext_getElem (by rw [h.len, h'.len])
  intro i h₁ h₂
  have e1 : row t i = t[i] := by simp [row, List.getD_eq_getElem?_getD, List.getElem?_eq_getElem h₁]
  have e2 : row t' i = t'[i] := by simp [row, List.getD_eq_getElem?_getD, List.getElem?_eq_getElem h₂]
  rw [← e1, ← e2]
  exact SortedLt.ext (h.sorted i) (h'.sorted i) (fun x => (h.mem i x).trans (h'.mem i x).symm)

end Rep

/-! ### the edge listing of a table -/

/-- lexicographic strict order on pairs: the order of every `edges()` iterator -/
def lexLt (a b : Nat × Nat) : Prop := a.1 < b.1 ∨ (a.1 = b.1 ∧ a.2 < b.2)

instance : DecidableRel lexLt := fun a b => by unfold lexLt; exact inferInstance

/-- `a ≤ b` lexicographically, as a Boolean (for `List.mergeSort`) -/
def lexLe (a b : Nat × Nat) : Bool := decide (a.1 < b.1 ∨ (a.1 = b.1 ∧ a.2 ≤ b.2))

abbrev SortedLex (l : List (Nat × Nat)) : Prop := l.Pairwise lexLt

theorem SortedLex.nodup {l : List (Nat × Nat)} (h : SortedLex l) : l.Nodup :=
  List.nodup_iff_pairwise_ne.2 (h.imp (fun {a b} hab heq => by subst heq; unfold lexLt at hab; omega))

theorem SortedLex.ext {l₁ l₂ : List (Nat × Nat)} (h₁ : SortedLex l₁) (h₂ : SortedLex l₂)
    (h : ∀ x, x ∈ l₁ ↔ x ∈ l₂) : l₁ = l₂ := by
  apply List.Perm.eq_of_pairwise (le := lexLt) _ h₁ h₂
  · exact (List.perm_ext_iff_of_nodup h₁.nodup h₂.nodup).2 h
  · intro a b _ _ hab hba; unfold lexLt at hab hba; omega

/-- a strictly lex-sorted list with the members of a duplicate-free list `E` is the sorted
`E`, each element once -/
theorem SortedLex.eq_mergeSort {l E : List (Nat × Nat)} (hl : SortedLex l) (hE : E.Nodup)
    (h : ∀ x, x ∈ l ↔ x ∈ E) : l = E.mergeSort lexLe := by
  have hperm : l.Perm (E.mergeSort lexLe) :=
    ((List.perm_ext_iff_of_nodup hl.nodup hE).2 h).trans (List.mergeSort_perm E lexLe).symm
  have hs : (E.mergeSort lexLe).Pairwise (fun a b => lexLe a b = true) :=
    List.pairwise_mergeSort
      (by intro a b c; simp only [lexLe, decide_eq_true_eq]; omega)
      (by intro a b; simp only [lexLe, Bool.or_eq_true, decide_eq_true_eq]; omega) E
  have hl' : l.Pairwise (fun a b => lexLe a b = true) :=
    hl.imp (fun {a b} hab => by simp only [lexLe, decide_eq_true_eq]; unfold lexLt at hab; omega)
  apply List.Perm.eq_of_pairwise (le := fun a b => lexLe a b = true) _ hl' hs hperm
  intro a b _ _ hab hba
  simp only [lexLe, decide_eq_true_eq] at hab hba
  exact Prod.ext (by omega) (by omega)

/-- `for u in 1..k: for v in f u: yield (u, v)` -/
def tableEdges (f : Nat → List Nat) (k : Nat) : List (Nat × Nat) :=
  (List.range k).flatMap (fun i => (f (i + 1)).map (fun v => (i + 1, v)))

theorem mem_tableEdges {f : Nat → List Nat} {k : Nat} {e : Nat × Nat} :
    e ∈ tableEdges f k ↔ 1 ≤ e.1 ∧ e.1 ≤ k ∧ e.2 ∈ f e.1 := by
  obtain ⟨u, v⟩ := e
  simp only [tableEdges, List.mem_flatMap, List.mem_range, List.mem_map, Prod.mk.injEq]
  constructor
  · rintro ⟨i, hi, w, hw, rfl, rfl⟩; exact ⟨by omega, by omega, hw⟩
  · rintro ⟨h1, h2, h3⟩
    exact ⟨u - 1, by omega, v, by rw [show u - 1 + 1 = u by omega]; exact h3, by omega, rfl⟩

theorem sorted_tableEdges {f : Nat → List Nat} (h : ∀ u, SortedLt (f u)) (k : Nat) :
    SortedLex (tableEdges f k) := by
  unfold tableEdges SortedLex
  rw [List.pairwise_flatMap]
  constructor
  · intro i _
    rw [List.pairwise_map]
    exact (h (i + 1)).imp (fun hab => Or.inr ⟨rfl, hab⟩)
  · apply List.pairwise_lt_range.imp
    intro i j hij x hx y hy
    simp only [List.mem_map] at hx hy
    obtain ⟨_, _, rfl⟩ := hx
    obtain ⟨_, _, rfl⟩ := hy
    exact Or.inl (by simp only; omega)

/-- listing by second component (`edges_ordered_by_successors`) -/
def tableEdgesT (f : Nat → List Nat) (k : Nat) : List (Nat × Nat) :=
  (List.range k).flatMap (fun i => (f (i + 1)).map (fun s => (s, i + 1)))

theorem tableEdgesT_eq (f : Nat → List Nat) (k : Nat) :
    tableEdgesT f k = (tableEdges f k).map Prod.swap := by
  simp [tableEdgesT, tableEdges, List.map_flatMap, Function.comp_def]

end Cnfgen
