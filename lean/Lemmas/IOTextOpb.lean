/-
Character level, OPB: lexing the text `to_opb_file` writes gives exactly the token rows
`renderOpb` / `renderOpbCNF` the token-level theorems of C12 speak about.
-/
import Lemmas.IOTextDimacs
import Lemmas.IOOpb
namespace Cnfgen.IO

/-- every number the OPB writer has to print for `G` has at most `maxStrDigits` digits -/
def OpbPrintable (G : OPB) : Prop :=
  G.nvars < 10 ^ maxStrDigits ∧ G.constraints.length < 10 ^ maxStrDigits ∧
  ∀ c ∈ G.constraints, c.rhs.natAbs < 10 ^ maxStrDigits ∧
    ∀ t ∈ c.terms, t.1.natAbs < 10 ^ maxStrDigits ∧ t.2.natAbs < 10 ^ maxStrDigits

/-! string constants as character lists -/

theorem starVar_lit : "* #variable= ".toList =
    ['*', ' ', '#', 'v', 'a', 'r', 'i', 'a', 'b', 'l', 'e', '=', ' '] := by decide
theorem con_lit : " #constraint= ".toList =
    [' ', '#', 'c', 'o', 'n', 's', 't', 'r', 'a', 'i', 'n', 't', '=', ' '] := by decide
theorem varW_lit : "#variable=".toList = ['#', 'v', 'a', 'r', 'i', 'a', 'b', 'l', 'e', '='] := by decide
theorem conW_lit : "#constraint=".toList = ['#', 'c', 'o', 'n', 's', 't', 'r', 'a', 'i', 'n', 't', '='] := by decide
theorem plus1_lit : "+1 ".toList = ['+', '1', ' '] := by decide
theorem ge1_lit : ">= 1\n".toList = ['>', '=', ' ', '1', '\n'] := by decide
theorem ge_lit : ">=".toList = ['>', '='] := by decide
theorem eq_lit : "=".toList = ['='] := by decide

/-! the declaration line -/

def opbSpecLine (n m : Nat) : Str :=
  [['*'], "#variable=".toList, natStr n, "#constraint=".toList].flatMap (fun t => t ++ [' ']) ++ natStr m

theorem opbSpecText_eq (n m : Nat) : opbSpecText n m = opbSpecLine n m ++ ['\n'] := by
  unfold opbSpecText opbSpecLine
  rw [starVar_lit, con_lit, varW_lit, conW_lit]
  simp only [List.flatMap_cons, List.flatMap_nil, List.append_assoc, List.append_nil, List.cons_append,
    List.nil_append]

theorem opbSpecLine_noNL (n m : Nat) : NoNL (opbSpecLine n m) := by
  apply NoNL.append _ (natStr_noNL m)
  apply noNL_flatMap
  intro t ht
  simp only [List.mem_cons, List.not_mem_nil, or_false] at ht
  rcases ht with rfl | rfl | rfl | rfl
  · exact noNL_lit _ (by decide)
  · exact noNL_lit _ (by decide)
  · exact (natStr_noNL n).append (noNL_lit _ (by decide))
  · exact noNL_lit _ (by decide)

theorem lexLine_opbSpec (n m : Nat) (hn : n < 10 ^ maxStrDigits) (hm : m < 10 ^ maxStrDigits) :
    lexLine (opbSpecLine n m) = opbSpecRow n m := by
  have h : ∀ t ∈ [['*'], "#variable=".toList, natStr n, "#constraint=".toList], IsTok t := by
    intro t ht
    simp only [List.mem_cons, List.not_mem_nil, or_false] at ht
    rcases ht with rfl | rfl | rfl | rfl
    · exact isTok_lit _ (by decide)
    · exact isTok_lit _ (by decide)
    · exact isTok_natStr n
    · exact isTok_lit _ (by decide)
  have c1 : classify ['*'] = .word ['*'] := by decide
  have c2 : classify "#variable=".toList = .word "#variable=".toList := by decide
  have c3 : classify "#constraint=".toList = .word "#constraint=".toList := by decide
  unfold opbSpecLine
  rw [lexLine_toks _ _ h (isTok_natStr m)]
  simp only [List.map_cons, List.map_nil, c1, c2, c3, classify_natStr n hn, classify_natStr m hm]
  rfl

/-- beyond the digit limit the declaration line is not read as a declaration -/
theorem lexLine_opbSpec_big (n m : Nat) (hn : 10 ^ maxStrDigits ≤ n) :
    ∃ w b, lexLine (opbSpecLine n m) =
      [.word ['*'], .word "#variable=".toList, .word w, .word "#constraint=".toList, b] := by
  have h : ∀ t ∈ [['*'], "#variable=".toList, natStr n, "#constraint=".toList], IsTok t := by
    intro t ht
    simp only [List.mem_cons, List.not_mem_nil, or_false] at ht
    rcases ht with rfl | rfl | rfl | rfl
    · exact isTok_lit _ (by decide)
    · exact isTok_lit _ (by decide)
    · exact isTok_natStr n
    · exact isTok_lit _ (by decide)
  have c1 : classify ['*'] = .word ['*'] := by decide
  have c2 : classify "#variable=".toList = .word "#variable=".toList := by decide
  have c3 : classify "#constraint=".toList = .word "#constraint=".toList := by decide
  refine ⟨natStr n, classify (natStr m), ?_⟩
  unfold opbSpecLine
  rw [lexLine_toks _ _ h (isTok_natStr m)]
  simp only [List.map_cons, List.map_nil, c1, c2, c3, classify_natStr_big n hn]
  rfl

/-- the line structure of the text, whatever the sizes of the numbers -/
theorem lex_renderOpbText_lines (u : Bool) (G : OPB) (hdr : Option Header) (names : Option (List Str)) :
    lex u (renderOpbText G hdr names) =
      lexLine (opbSpecLine G.nvars G.constraints.length) ::
        (opbCommentRows u hdr names ++ lex u (G.constraints.flatMap opbConstraintText)) := by
  unfold renderOpbText
  rw [opbSpecText_eq]
  simp only [List.append_assoc, List.cons_append, List.nil_append]
  rw [lex_cons_line u _ _ (opbSpecLine_noNL _ _),
    lex_chunks u _ _ (fun ch hch => isLineChunk_of_comment (by decide) (opb_chunks hdr names ch hch))]
  rfl

/-! constraint lines -/

theorem opbOpText_cases (o : Op) : opbOpText o = ['>', '='] ∨ opbOpText o = ['='] := by
  unfold opbOpText
  split
  · exact Or.inl ge_lit
  · exact Or.inr eq_lit

theorem isTok_opbOp (o : Op) : IsTok (opbOpText o) := by
  rcases opbOpText_cases o with h | h <;> rw [h] <;> exact isTok_lit _ (by decide)

theorem opbOp_noNL (o : Op) : NoNL (opbOpText o) := by
  rcases opbOpText_cases o with h | h <;> rw [h] <;> exact noNL_lit _ (by decide)

theorem classify_opbOp (o : Op) : classify (opbOpText o) = .word (opbOpText o) := by
  rcases opbOpText_cases o with h | h <;> rw [h] <;> decide

/-- the tokens of the terms, as texts -/
def opbTermToks (ts : List (Int × Int)) : List Str := ts.flatMap (fun t => [intStrPlus t.1, opbLitText t.2])

def opbConstraintLine (c : PBC) : Str :=
  (opbTermToks c.terms ++ [opbOpText c.op]).flatMap (fun t => t ++ [' ']) ++ intStr c.rhs

theorem opbTerms_text (ts : List (Int × Int)) :
    ts.flatMap (fun t => intStrPlus t.1 ++ [' '] ++ opbLitText t.2 ++ [' ']) =
      (opbTermToks ts).flatMap (fun t => t ++ [' ']) := by
  induction ts with
  | nil => rfl
  | cons t ts ih =>
    simp only [opbTermToks, List.flatMap_cons, List.flatMap_append, List.flatMap_nil, List.append_nil,
      List.append_assoc] at ih ⊢
    rw [ih]

theorem opbConstraintText_eq (c : PBC) : opbConstraintText c = opbConstraintLine c ++ ['\n'] := by
  unfold opbConstraintText opbConstraintLine
  rw [opbTerms_text]
  simp only [List.flatMap_append, List.flatMap_cons, List.flatMap_nil, List.append_nil, List.append_assoc]

theorem opbConstraintLine_noNL (c : PBC) : NoNL (opbConstraintLine c) := by
  apply NoNL.append _ (intStr_noNL _)
  apply noNL_flatMap
  intro t ht
  apply NoNL.append _ (noNL_lit _ (by decide))
  rcases List.mem_append.1 ht with h | h
  · simp only [opbTermToks, List.mem_flatMap] at h
    obtain ⟨x, _, hx⟩ := h
    simp only [List.mem_cons, List.not_mem_nil, or_false] at hx
    rcases hx with rfl | rfl
    · exact intStrPlus_noNL _
    · exact opbLitText_noNL _
  · simp at h; subst h; exact opbOp_noNL _

theorem isTok_opbTermToks (ts : List (Int × Int)) : ∀ t ∈ opbTermToks ts, IsTok t := by
  intro t ht
  simp only [opbTermToks, List.mem_flatMap] at ht
  obtain ⟨x, _, hx⟩ := ht
  simp only [List.mem_cons, List.not_mem_nil, or_false] at hx
  rcases hx with rfl | rfl
  · exact isTok_intStrPlus _
  · exact isTok_opbLit _

theorem classify_opbTermToks (ts : List (Int × Int))
    (h : ∀ t ∈ ts, t.1.natAbs < 10 ^ maxStrDigits ∧ t.2.natAbs < 10 ^ maxStrDigits) :
    (opbTermToks ts).map classify = ts.flatMap (fun t => [.int t.1, opbLitTok t.2]) := by
  induction ts with
  | nil => rfl
  | cons t ts ih =>
    have ht := h t (by simp)
    simp only [opbTermToks, List.flatMap_cons, List.map_append, List.map_cons, List.map_nil] at ih ⊢
    rw [ih (fun x hx => h x (by simp [hx])), classify_intStrPlus _ ht.1, classify_opbLit _ ht.2]

theorem lexLine_opbConstraint (c : PBC) (hr : c.rhs.natAbs < 10 ^ maxStrDigits)
    (h : ∀ t ∈ c.terms, t.1.natAbs < 10 ^ maxStrDigits ∧ t.2.natAbs < 10 ^ maxStrDigits) :
    lexLine (opbConstraintLine c) = opbConstraintRow c := by
  have ht : ∀ t ∈ opbTermToks c.terms ++ [opbOpText c.op], IsTok t := by
    intro t ht
    rcases List.mem_append.1 ht with h | h
    · exact isTok_opbTermToks _ t h
    · simp at h; subst h; exact isTok_opbOp _
  unfold opbConstraintLine
  rw [lexLine_toks _ _ ht (isTok_intStr _), List.map_append, classify_opbTermToks _ h,
    classify_intStr _ hr]
  simp [opbConstraintRow, classify_opbOp]

theorem lex_opbConstraints (u : Bool) (cs : List PBC)
    (h : ∀ c ∈ cs, c.rhs.natAbs < 10 ^ maxStrDigits ∧
      ∀ t ∈ c.terms, t.1.natAbs < 10 ^ maxStrDigits ∧ t.2.natAbs < 10 ^ maxStrDigits) :
    lex u (cs.flatMap opbConstraintText) = cs.map opbConstraintRow := by
  induction cs with
  | nil => simp [lex_nil]
  | cons c cs ih =>
    have hc := h c (by simp)
    simp only [List.flatMap_cons, List.map_cons, opbConstraintText_eq c, List.append_assoc, List.singleton_append]
    rw [lex_cons_line u _ _ (opbConstraintLine_noNL c), lexLine_opbConstraint c hc.1 hc.2,
      ih (fun c' hc' => h c' (by simp [hc']))]

/-- lexing the characters the OPB writer emits gives the token rows of `renderOpb` -/
theorem lex_renderOpbText (u : Bool) (G : OPB) (hdr : Option Header) (names : Option (List Str))
    (hp : OpbPrintable G) : lex u (renderOpbText G hdr names) = renderOpb u G hdr names := by
  obtain ⟨hn, hm, hc⟩ := hp
  unfold renderOpbText
  rw [opbSpecText_eq]
  simp only [List.append_assoc, List.cons_append, List.nil_append]
  rw [lex_cons_line u _ _ (opbSpecLine_noNL _ _), lexLine_opbSpec _ _ hn hm,
    lex_chunks u _ _ (fun ch hch => isLineChunk_of_comment (by decide) (opb_chunks hdr names ch hch)),
    lex_opbConstraints u _ hc]
  rfl

/-! the CNF branch of the writer prints every clause as the constraint `Σ lits ≥ 1` -/

theorem opbClauseText_eq (c : Clause) : opbClauseText c = opbConstraintText (PBC.ofClause c) := by
  have h1 : intStrPlus 1 = ['+', '1'] := by decide
  have h2 : intStr 1 = ['1'] := by decide
  have h3 : opbOpText .ge = ['>', '='] := by decide
  unfold opbClauseText opbConstraintText PBC.ofClause
  rw [plus1_lit, ge1_lit]
  simp only [List.flatMap_map, h1, h2, h3, List.append_assoc, List.cons_append, List.nil_append]

theorem renderOpbTextCNF_eq (F : CNF) (hdr : Option Header) (names : Option (List Str)) :
    renderOpbTextCNF F hdr names = renderOpbText ⟨F.nvars, F.clauses.map PBC.ofClause⟩ hdr names := by
  have : opbClauseText = fun a => opbConstraintText (PBC.ofClause a) := funext opbClauseText_eq
  simp only [renderOpbTextCNF, renderOpbText, List.length_map, List.flatMap_map, this]

theorem opbPrintable_ofCNF (F : CNF) (h : DimacsPrintable F) :
    OpbPrintable ⟨F.nvars, F.clauses.map PBC.ofClause⟩ := by
  obtain ⟨hn, hm, hl⟩ := h
  have one : (1 : Int).natAbs < 10 ^ maxStrDigits := lt_limit_of_le (by decide)
  refine ⟨hn, by simpa using hm, ?_⟩
  intro c hc
  obtain ⟨cl, hcl, rfl⟩ := List.mem_map.1 hc
  refine ⟨one, ?_⟩
  intro t ht
  simp only [PBC.ofClause, List.mem_map] at ht
  obtain ⟨l, hl', rfl⟩ := ht
  exact ⟨one, hl cl hcl l hl'⟩

/-- lexing the characters the OPB writer emits for a CNF gives the token rows of `renderOpbCNF` -/
theorem lex_renderOpbTextCNF (u : Bool) (F : CNF) (hdr : Option Header) (names : Option (List Str))
    (hp : DimacsPrintable F) : lex u (renderOpbTextCNF F hdr names) = renderOpbCNF u F hdr names := by
  rw [renderOpbTextCNF_eq, renderOpbCNF_eq, lex_renderOpbText u _ hdr names (opbPrintable_ofCNF F hp)]

/-- a well-formed pseudo-Boolean formula is printable as soon as its counts, coefficients and degrees are -/
theorem opbPrintable_of_wf (G : OPB) (hG : ∀ c ∈ G.constraints, GoodPBC G.nvars c)
    (hn : G.nvars < 10 ^ maxStrDigits) (hm : G.constraints.length < 10 ^ maxStrDigits)
    (hc : ∀ c ∈ G.constraints, c.rhs.natAbs < 10 ^ maxStrDigits ∧ ∀ t ∈ c.terms, t.1.natAbs < 10 ^ maxStrDigits) :
    OpbPrintable G :=
  ⟨hn, hm, fun c hcm => ⟨(hc c hcm).1, fun t ht =>
    ⟨(hc c hcm).2 t ht, Nat.lt_of_le_of_lt ((hG c hcm).2 t ht).2 hn⟩⟩⟩

end Cnfgen.IO
