/-
Lemmas about the argparse engine (CnfgenModel/Cli/Argparse.lean): spellings that argparse documents as equivalent
are equivalent in the model, inside ANY command line.

  * `engine_same_items`  — the engine depends on the tokens only through their classification;
  * `engineItems_block`  — replacing a block of items by another one that the loop cannot tell apart;
  * `eqform_one`, `eqform_plus` — `--opt=v` is `--opt v`;
  * `cluster_flags` — `-xyz` is `-x -y -z`.
-/
import CnfgenModel.Cli.Argparse
namespace Cnfgen.Cli.AP
open Cnfgen.Gen Cnfgen.Cli

/-! ### tokens → items → segments -/

theorem itemize_append (strs : List (String × Target)) (pre rest : List String) (h : "--" ∉ pre) :
    itemize strs (pre ++ rest) = pre.map (classifyTok strs) ++ itemize strs rest := by
  induction pre with
  | nil => simp
  | cons t pre ih =>
    have ht : (t == "--") = false := by
      have : t ≠ "--" := fun e => h (by simp [e])
      simpa using this
    have hp : "--" ∉ pre := fun e => h (by simp [e])
    simp only [List.cons_append, itemize, ht, Bool.false_eq_true, if_false, List.map_cons, ih hp]

/-- one step of `segs` -/
def stepItem (it : Item) (acc : Run × List (OptItem × Run)) : Run × List (OptItem × Run) :=
  match it with
  | .arg t => (⟨t :: acc.1.args, acc.1.dd.map (· + 1)⟩, acc.2)
  | .dd => (⟨acc.1.args, some 0⟩, acc.2)
  | .opt tg os ex => (⟨[], none⟩, (.known tg os ex, acc.1) :: acc.2)
  | .unknown _ => (⟨[], none⟩, (.unknown, acc.1) :: acc.2)
  | .ambiguous _ => (⟨[], none⟩, (.unknown, acc.1) :: acc.2)

theorem segs_cons (it : Item) (rest : List Item) : segs (it :: rest) = stepItem it (segs rest) := by
  conv => lhs; unfold segs
  cases hs : segs rest with
  | mk r ss => cases it <;> simp [stepItem]

def pushItems (xs : List Item) (acc : Run × List (OptItem × Run)) : Run × List (OptItem × Run) :=
  xs.foldr stepItem acc

theorem segs_append (xs ys : List Item) : segs (xs ++ ys) = pushItems xs (segs ys) := by
  induction xs with
  | nil => simp [pushItems]
  | cons x xs ih => rw [List.cons_append, segs_cons, ih]; simp [pushItems]

theorem stepItem_tail (it : Item) (r : Run) (ss tl : List (OptItem × Run)) :
    stepItem it (r, ss ++ tl) = ((stepItem it (r, ss)).1, (stepItem it (r, ss)).2 ++ tl) := by
  cases it <;> simp [stepItem]

theorem pushItems_tail (xs : List Item) (r : Run) (tl : List (OptItem × Run)) :
    pushItems xs (r, tl) = ((pushItems xs (r, [])).1, (pushItems xs (r, [])).2 ++ tl) := by
  induction xs with
  | nil => simp [pushItems]
  | cons x xs ih =>
    have : pushItems (x :: xs) (r, tl) = stepItem x (pushItems xs (r, tl)) := by simp [pushItems]
    rw [this, ih]
    have h2 : pushItems (x :: xs) (r, []) = stepItem x (pushItems xs (r, [])) := by simp [pushItems]
    rw [h2]
    have := stepItem_tail x (pushItems xs (r, [])).1 (pushItems xs (r, [])).2 tl
    simpa using this

/-! ### the loop on a block of segments -/

/-- `runSegs` where "this is the last segment" is `fin` at the end of the list -/
def runSegsF (bind : Bind) (strs : List (String × Target)) (fin : Bool) :
    List (OptItem × Run) → PState → Except PErr PState
  | [], st => .ok st
  | (oi, run) :: rest, st =>
    match stepOpt bind strs oi run st with
    | .error x => .error x
    | .ok (st1, run1) =>
      match consumePosX bind run1 (rest.isEmpty && fin) st1 with
      | .error x => .error x
      | .ok st2 => runSegsF bind strs fin rest st2

theorem runSegsF_true (bind : Bind) (strs : List (String × Target)) :
    ∀ (ss : List (OptItem × Run)) (st : PState), runSegsF bind strs true ss st = runSegs bind strs ss st := by
  intro ss
  induction ss with
  | nil => intro st; simp [runSegsF, runSegs]
  | cons x rest ih =>
    intro st
    obtain ⟨oi, run⟩ := x
    simp only [runSegsF, runSegs, Bool.and_true]
    cases stepOpt bind strs oi run st with
    | error e => rfl
    | ok p =>
      obtain ⟨st1, run1⟩ := p
      dsimp only
      cases consumePosX bind run1 rest.isEmpty st1 with
      | error e => rfl
      | ok st2 => exact ih st2

theorem runSegsF_append (bind : Bind) (strs : List (String × Target)) (fin : Bool) :
    ∀ (a b : List (OptItem × Run)) (st : PState),
      runSegsF bind strs fin (a ++ b) st =
        match runSegsF bind strs (b.isEmpty && fin) a st with
        | .error x => .error x
        | .ok st' => runSegsF bind strs fin b st' := by
  intro a
  induction a with
  | nil => intro b st; simp [runSegsF]
  | cons x rest ih =>
    intro b st
    obtain ⟨oi, run⟩ := x
    simp only [List.cons_append, runSegsF]
    cases stepOpt bind strs oi run st with
    | error e => rfl
    | ok p =>
      obtain ⟨st1, run1⟩ := p
      dsimp only
      have hflag : ((rest ++ b).isEmpty && fin) = (rest.isEmpty && (b.isEmpty && fin)) := by
        cases rest <;> simp
      rw [hflag]
      cases consumePosX bind run1 (rest.isEmpty && (b.isEmpty && fin)) st1 with
      | error e => rfl
      | ok st2 => exact ih b st2

/-- REPLACING A BLOCK.  Two lists of items that both start a new segment list `B r` in front of whatever follows
(`r`: the run that follows) and whose segment lists the loop cannot tell apart give the same result inside any
command line. -/
theorem engineItems_block (bind : Bind) (p : PSpec) (pre post X Y : List Item)
    (BX BY : Run → List (OptItem × Run))
    (hX : ∀ r, pushItems X (r, []) = (⟨[], none⟩, BX r)) (hY : ∀ r, pushItems Y (r, []) = (⟨[], none⟩, BY r))
    (hneX : ∀ r, BX r ≠ []) (hneY : ∀ r, BY r ≠ [])
    (hamb : X.any Item.isAmbiguous = Y.any Item.isAmbiguous)
    (heq : ∀ fin st, runSegsF bind p.strings fin (BX (segs post).1) st =
      runSegsF bind p.strings fin (BY (segs post).1) st) :
    engineItems bind p (pre ++ X ++ post) = engineItems bind p (pre ++ Y ++ post) := by
  have key : ∀ (Z : List Item) (BZ : Run → List (OptItem × Run)),
      (∀ r, pushItems Z (r, []) = (⟨[], none⟩, BZ r)) →
      segs (pre ++ Z ++ post) =
        ((pushItems pre (⟨[], none⟩, [])).1,
         (pushItems pre (⟨[], none⟩, [])).2 ++ (BZ (segs post).1 ++ (segs post).2)) := by
    intro Z BZ hZ
    rw [List.append_assoc, segs_append, segs_append]
    have h1 : pushItems Z (segs post) = (⟨[], none⟩, BZ (segs post).1 ++ (segs post).2) := by
      have := pushItems_tail Z (segs post).1 (segs post).2
      rw [hZ] at this
      simpa using this
    rw [h1, pushItems_tail]
  unfold engineItems
  rw [key X BX hX, key Y BY hY]
  have hambs : (pre ++ X ++ post).any Item.isAmbiguous = (pre ++ Y ++ post).any Item.isAmbiguous := by
    simp only [List.any_append, hamb]
  rw [hambs]
  split
  · rfl
  · dsimp only
    have he : ∀ (B : List (OptItem × Run)), B ≠ [] →
        ((pushItems pre (⟨[], none⟩, [])).2 ++ (B ++ (segs post).2)).isEmpty = false := by
      intro B hB
      cases B with
      | nil => exact absurd rfl hB
      | cons b bs => simp
    rw [he _ (hneX _), he _ (hneY _)]
    cases consumePosX bind (pushItems pre (⟨[], none⟩, [])).1 false ⟨p.poss, [], false, []⟩ with
    | error e => rfl
    | ok st0 =>
      dsimp only
      have hrun : ∀ (B : List (OptItem × Run)), B ≠ [] →
          runSegs bind p.strings ((pushItems pre (⟨[], none⟩, [])).2 ++ (B ++ (segs post).2)) st0 =
          match runSegsF bind p.strings false (pushItems pre (⟨[], none⟩, [])).2 st0 with
          | .error x => .error x
          | .ok st' =>
            match runSegsF bind p.strings ((segs post).2.isEmpty) B st' with
            | .error x => .error x
            | .ok st'' => runSegs bind p.strings (segs post).2 st'' := by
        intro B hB
        rw [← runSegsF_true, runSegsF_append]
        have : ((B ++ (segs post).2).isEmpty && true) = false := by
          cases B with
          | nil => exact absurd rfl hB
          | cons b bs => simp
        rw [this]
        cases runSegsF bind p.strings false (pushItems pre (⟨[], none⟩, [])).2 st0 with
        | error e => rfl
        | ok st' =>
          dsimp only
          rw [runSegsF_append]
          simp only [Bool.and_true]
          cases runSegsF bind p.strings ((segs post).2.isEmpty) B st' with
          | error e => rfl
          | ok st'' => dsimp only; rw [runSegsF_true]
      rw [hrun _ (hneX _), hrun _ (hneY _)]
      simp only [heq]

/-! ### `--opt=v` is `--opt v` -/

theorem cluster_valued (strs : List (String × Target)) (tg : Target) (single : Bool) (v : String)
    (h : arityT tg = .one ∨ arityT tg = .plus) : cluster strs tg single v.toList = .ok ([], tg, some v) := by
  cases hv : v.toList with
  | nil =>
    have : v = "" := by
      have := String.ofList_toList (s := v)
      rw [hv] at this
      exact this.symm
    subst this
    unfold cluster
    rcases h with h | h <;> rw [h]
  | cons c e' =>
    have : String.ofList (c :: e') = v := by rw [← hv]; exact String.ofList_toList
    unfold cluster
    rcases h with h | h <;> rw [h] <;> simp [this]

/-- an option that takes ONE argument: explicit argument = next argument -/
theorem eqform_one_step (bind : Bind) (strs : List (String × Target)) (tg : Target) (os v : String)
    (h1 : arityT tg = .one) (r : Run) (st : PState) :
    stepOpt bind strs (.known tg os (some v)) r st =
      stepOpt bind strs (.known tg os none) ⟨v :: r.args, r.dd.map (· + 1)⟩ st := by
  simp only [stepOpt, consumeOptX, chainOf]
  rw [cluster_valued strs tg _ v (Or.inl h1)]
  dsimp only
  have ht1 : takeArgs tg (some v) r = .ok ([v], r) := by simp [takeArgs]
  have ht2 : takeArgs tg none ⟨v :: r.args, r.dd.map (· + 1)⟩ = .ok ([v], r) := by
    obtain ⟨args, dd⟩ := r
    cases dd <;> simp [takeArgs, h1, Run.avail, Run.dropFront]
  rw [ht1, ht2]

/-- an option that takes ONE OR MORE arguments: explicit argument = next argument, when nothing that it could
take follows -/
theorem eqform_plus_step (bind : Bind) (strs : List (String × Target)) (tg : Target) (os v : String)
    (h1 : arityT tg = .plus) (r : Run) (hr : r.avail = []) (st : PState) :
    stepOpt bind strs (.known tg os (some v)) r st =
      stepOpt bind strs (.known tg os none) ⟨v :: r.args, r.dd.map (· + 1)⟩ st := by
  simp only [stepOpt, consumeOptX, chainOf]
  rw [cluster_valued strs tg _ v (Or.inr h1)]
  dsimp only
  have ht1 : takeArgs tg (some v) r = .ok ([v], r) := by simp [takeArgs]
  have ht2 : takeArgs tg none ⟨v :: r.args, r.dd.map (· + 1)⟩ = .ok ([v], r) := by
    obtain ⟨args, dd⟩ := r
    cases dd with
    | none =>
      simp [Run.avail] at hr
      subst hr
      simp [takeArgs, h1, Run.avail, Run.dropFront]
    | some a =>
      simp [Run.avail] at hr
      rcases hr with hr | hr
      · subst hr
        simp [takeArgs, h1, Run.avail, Run.dropFront]
      · subst hr
        simp [takeArgs, h1, Run.avail, Run.dropFront]
  rw [ht1, ht2]

theorem eqform_one_items (bind : Bind) (p : PSpec) (pre post : List Item) (tg : Target) (os v : String)
    (h1 : arityT tg = .one) :
    engineItems bind p (pre ++ [Item.opt tg os (some v)] ++ post) =
      engineItems bind p (pre ++ [Item.opt tg os none, Item.arg v] ++ post) := by
  apply engineItems_block bind p pre post _ _
    (fun r => [(OptItem.known tg os (some v), r)])
    (fun r => [(OptItem.known tg os none, ⟨v :: r.args, r.dd.map (· + 1)⟩)])
  · intro r; simp [pushItems, stepItem]
  · intro r; simp [pushItems, stepItem]
  · intro r; simp
  · intro r; simp
  · simp [Item.isAmbiguous]
  · intro fin st
    simp only [runSegsF]
    rw [eqform_one_step bind p.strings tg os v h1 _ st]

theorem eqform_plus_items (bind : Bind) (p : PSpec) (pre post : List Item) (tg : Target) (os v : String)
    (h1 : arityT tg = .plus) (hpost : (segs post).1.avail = []) :
    engineItems bind p (pre ++ [Item.opt tg os (some v)] ++ post) =
      engineItems bind p (pre ++ [Item.opt tg os none, Item.arg v] ++ post) := by
  apply engineItems_block bind p pre post _ _
    (fun r => [(OptItem.known tg os (some v), r)])
    (fun r => [(OptItem.known tg os none, ⟨v :: r.args, r.dd.map (· + 1)⟩)])
  · intro r; simp [pushItems, stepItem]
  · intro r; simp [pushItems, stepItem]
  · intro r; simp
  · intro r; simp
  · simp [Item.isAmbiguous]
  · intro fin st
    simp only [runSegsF]
    rw [eqform_plus_step bind p.strings tg os v h1 _ hpost st]

/-! ### `-xyz` is `-x -y -z` -/

/-- the segments of a sequence of options without argument, the last one followed by the run `r` -/
def flagSegs : List (Target × String) → Run → List (OptItem × Run)
  | [], _ => []
  | [t], r => [(.known t.1 t.2 none, r)]
  | t :: t' :: ts, r => (.known t.1 t.2 none, ⟨[], none⟩) :: flagSegs (t' :: ts) r

theorem flagSegs_ne (ts : List (Target × String)) (h : ts ≠ []) (r : Run) : flagSegs ts r ≠ [] := by
  cases ts with
  | nil => exact absurd rfl h
  | cons t ts => cases ts <;> simp [flagSegs]

theorem flagSegs_isEmpty (t : Target × String) (ts : List (Target × String)) (r : Run) :
    (flagSegs (t :: ts) r).isEmpty = false := by
  cases ts <;> simp [flagSegs]

theorem stepOpt_flag (bind : Bind) (strs : List (String × Target)) (tg : Target) (os : String)
    (h0 : arityT tg = .zero) (r : Run) (st : PState) :
    stepOpt bind strs (.known tg os none) r st =
      match runFlags bind [tg] st with
      | .error x => .error x
      | .ok st' => .ok (st', r) := by
  simp only [stepOpt, consumeOptX, chainOf]
  have : takeArgs tg none r = .ok ([], r) := by simp [takeArgs, h0]
  rw [this]
  dsimp only
  cases tg with
  | help => simp [runFlags, lastAction]
  | opt o =>
    simp only [runFlags, lastAction, List.erase_nil]
    cases h : takeAction bind o [] st with
    | error e => rfl
    | ok st' => rfl

theorem runFlags_append (bind : Bind) : ∀ (a b : List Target) (st : PState),
    runFlags bind (a ++ b) st =
      match runFlags bind a st with
      | .error x => .error x
      | .ok st' => runFlags bind b st' := by
  intro a
  induction a with
  | nil => intro b st; simp [runFlags]
  | cons t a ih =>
    intro b st
    cases t with
    | help => simp [runFlags]
    | opt o =>
      simp only [List.cons_append, runFlags]
      cases takeAction bind o [] st with
      | error e => rfl
      | ok st' => exact ih b st'

theorem consumePosX_skip (bind : Bind) (st : PState) : consumePosX bind ⟨[], none⟩ false st = .ok st := by
  simp [consumePosX]

/-- a sequence of separate options without argument: their actions in order, then the positionals on the run that
follows the last one -/
theorem runSegsF_flagSegs (bind : Bind) (strs : List (String × Target)) (fin : Bool) :
    ∀ (ts : List (Target × String)) (r : Run) (st : PState), ts ≠ [] → (∀ t ∈ ts, arityT t.1 = .zero) →
      runSegsF bind strs fin (flagSegs ts r) st =
        match runFlags bind (ts.map (·.1)) st with
        | .error x => .error x
        | .ok st' => consumePosX bind r fin st' := by
  intro ts
  induction ts with
  | nil => intro r st h; exact absurd rfl h
  | cons t ts ih =>
    intro r st _ hz
    cases ts with
    | nil =>
      simp only [flagSegs, runSegsF, List.map_cons, List.map_nil, List.isEmpty_nil, Bool.true_and]
      rw [stepOpt_flag bind strs t.1 t.2 (hz t (by simp)) r st]
      cases runFlags bind [t.1] st with
      | error e => rfl
      | ok st' =>
        dsimp only
        cases consumePosX bind r fin st' with
        | error e => rfl
        | ok st'' => rfl
    | cons t' ts =>
      simp only [flagSegs, runSegsF]
      rw [stepOpt_flag bind strs t.1 t.2 (hz t (by simp)) ⟨[], none⟩ st]
      have hsplit : (t :: t' :: ts).map (·.1) = [t.1] ++ (t' :: ts).map (·.1) := by simp
      rw [hsplit, runFlags_append]
      cases runFlags bind [t.1] st with
      | error e => rfl
      | ok st' =>
        dsimp only
        rw [flagSegs_isEmpty, Bool.false_and, consumePosX_skip]
        dsimp only
        exact ih r st' (by simp) (fun x hx => hz x (by simp [hx]))

/-- every character stands for an option without argument -/
def FlagsOf (strs : List (String × Target)) : List Char → List Target → Prop
  | [], [] => True
  | c :: e, t :: ts =>
    (lookupOS strs (String.ofList ['-', c]) = some t ∧ arityT t = .zero) ∧ FlagsOf strs e ts
  | _, _ => False

theorem FlagsOf_zero (strs : List (String × Target)) : ∀ (e : List Char) (ts : List Target), FlagsOf strs e ts →
    ∀ t ∈ ts, arityT t = .zero := by
  intro e
  induction e with
  | nil => intro ts h t ht; cases ts with | nil => simp at ht | cons a b => simp [FlagsOf] at h
  | cons c e ih =>
    intro ts h t ht
    cases ts with
    | nil => simp at ht
    | cons a b =>
      simp only [FlagsOf] at h
      rcases List.mem_cons.1 ht with rfl | ht
      · exact h.1.2
      · exact ih b h.2 t ht

/-- what `cluster` returns on a string of option characters that all stand for options without argument -/
theorem cluster_flags_chain (strs : List (String × Target)) :
    ∀ (e : List Char) (tgs : List Target) (tg : Target), e ≠ [] → arityT tg = .zero →
      FlagsOf strs e tgs →
      ∃ l last, cluster strs tg true e = .ok (l, last, none) ∧ l ++ [last] = tg :: tgs ∧ arityT last = .zero := by
  intro e
  induction e with
  | nil => intro tgs tg h; exact absurd rfl h
  | cons c e' ih =>
    intro tgs tg _ h0 hall
    cases tgs with
    | nil => simp [FlagsOf] at hall
    | cons t tgs' =>
      simp only [FlagsOf] at hall
      obtain ⟨hc, hrest⟩ := hall
      unfold cluster
      simp only [h0, Bool.not_true, Bool.false_eq_true, if_false, hc.1]
      cases e' with
      | nil =>
        cases tgs' with
        | nil => exact ⟨[tg], t, by simp, by simp, hc.2⟩
        | cons a b => simp [FlagsOf] at hrest
      | cons c2 e2 =>
        obtain ⟨l, last, h1, h2, h3⟩ := ih tgs' t (by simp) hc.2 hrest
        refine ⟨tg :: l, last, ?_, ?_, h3⟩
        · simp [h1]
        · simp [h2]

/-- `-xyz` as one token: the actions of `-x`, `-y`, `-z` in order, then the positionals on the run that follows -/
theorem stepOpt_cluster (bind : Bind) (strs : List (String × Target)) (tg : Target) (os : String) (e : String)
    (tgs : List Target) (hs : singleDash os = true) (he : e.toList ≠ []) (h0 : arityT tg = .zero)
    (hall : FlagsOf strs e.toList tgs) (r : Run) (st : PState) :
    stepOpt bind strs (.known tg os (some e)) r st =
      match runFlags bind (tg :: tgs) st with
      | .error x => .error x
      | .ok st' => .ok (st', r) := by
  obtain ⟨l, last, h1, h2, h3⟩ := cluster_flags_chain strs e.toList tgs tg he h0 hall
  simp only [stepOpt, consumeOptX, chainOf]
  rw [hs, h1]
  dsimp only
  have : takeArgs last none r = .ok ([], r) := by simp [takeArgs, h3]
  rw [this]
  dsimp only
  rw [← h2, runFlags_append]
  cases runFlags bind l st with
  | error x => rfl
  | ok st1 =>
    dsimp only
    cases last with
    | help => simp [lastAction, runFlags]
    | opt o =>
      simp only [lastAction, List.erase_nil, runFlags]
      cases takeAction bind o [] st1 with
      | error x => rfl
      | ok st2 => rfl

theorem pushItems_flags (ts : List (Target × String)) (h : ts ≠ []) (r : Run) :
    pushItems (ts.map (fun t => Item.opt t.1 t.2 none)) (r, []) = (⟨[], none⟩, flagSegs ts r) := by
  induction ts with
  | nil => exact absurd rfl h
  | cons t ts ih =>
    cases ts with
    | nil => simp [pushItems, stepItem, flagSegs]
    | cons t' ts =>
      have := ih (by simp)
      simp only [pushItems, List.map_cons, List.foldr_cons] at this ⊢
      rw [this]
      simp [stepItem, flagSegs]

/-- CLUSTER.  Inside any command line, the item of a token `-x<e>` whose characters all stand for options without
argument can be replaced by the items of the separate options. -/
theorem cluster_items (bind : Bind) (p : PSpec) (pre post : List Item) (tg : Target) (os e : String)
    (ts : List (Target × String)) (hs : singleDash os = true) (he : e.toList ≠ []) (h0 : arityT tg = .zero)
    (hall : FlagsOf p.strings e.toList (ts.map (·.1))) :
    engineItems bind p (pre ++ [Item.opt tg os (some e)] ++ post) =
      engineItems bind p (pre ++ ((tg, os) :: ts).map (fun t => Item.opt t.1 t.2 none) ++ post) := by
  apply engineItems_block bind p pre post _ _
    (fun r => [(OptItem.known tg os (some e), r)])
    (fun r => flagSegs ((tg, os) :: ts) r)
  · intro r; simp [pushItems, stepItem]
  · intro r; exact pushItems_flags _ (by simp) r
  · intro r; simp
  · intro r; exact flagSegs_ne _ (by simp) r
  · simp [Item.isAmbiguous, List.any_map, Function.comp_def]
  · intro fin st
    generalize (segs post).1 = r
    have hz : ∀ t ∈ (tg, os) :: ts, arityT t.1 = .zero := by
      intro t ht
      rcases List.mem_cons.1 ht with rfl | ht
      · exact h0
      · exact FlagsOf_zero p.strings e.toList (ts.map (·.1)) hall t.1 (List.mem_map.2 ⟨t, ht, rfl⟩)
    rw [runSegsF_flagSegs bind p.strings fin _ r st (by simp) hz]
    simp only [runSegsF, List.isEmpty_nil, Bool.true_and]
    rw [stepOpt_cluster bind p.strings tg os e (ts.map (·.1)) hs he h0 hall r st]
    simp only [List.map_cons]
    cases runFlags bind (tg :: ts.map (·.1)) st with
    | error x => rfl
    | ok st' =>
      dsimp only
      cases consumePosX bind r fin st' with
      | error x => rfl
      | ok st'' => rfl

end Cnfgen.Cli.AP
