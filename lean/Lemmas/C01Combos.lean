/-
`combos` (= itertools.combinations): membership, duplicate-freeness, length; sorted sublists of
an index range; indexed enumerations (`zipIdx`).
-/
import Lemmas.C01Basic
import Mathlib.Data.List.Basic
import Mathlib.Data.List.Nodup
import Mathlib.Data.Nat.Choose.Basic
namespace Cnfgen.Fam
open Cnfgen

theorem mem_combos {β : Type} : ∀ (l : List β) (k : Nat) (c : List β),
    c ∈ combos l k ↔ c.Sublist l ∧ c.length = k
  | l, 0, c => by
    simp only [combos, List.mem_singleton]
    constructor
    · rintro rfl; exact ⟨List.nil_sublist _, rfl⟩
    · rintro ⟨_, h⟩; exact List.length_eq_zero_iff.1 h
  | [], k + 1, c => by
    simp only [combos, List.not_mem_nil, false_iff, List.sublist_nil]
    rintro ⟨rfl, h⟩; simp at h
  | x :: xs, k + 1, c => by
    simp only [combos, List.mem_append, List.mem_map, mem_combos xs k, mem_combos xs (k + 1),
      List.sublist_cons_iff]
    constructor
    · rintro (⟨c', ⟨h1, h2⟩, rfl⟩ | ⟨h1, h2⟩)
      · exact ⟨Or.inr ⟨c', rfl, h1⟩, by simp [h2]⟩
      · exact ⟨Or.inl h1, h2⟩
    · rintro ⟨h1 | ⟨r, rfl, h1⟩, h2⟩
      · exact Or.inr ⟨h1, h2⟩
      · exact Or.inl ⟨r, ⟨h1, by simpa using h2⟩, rfl⟩

theorem nodup_combos {β : Type} : ∀ (l : List β) (k : Nat), l.Nodup → (combos l k).Nodup
  | _, 0, _ => by simp [combos]
  | [], _ + 1, _ => by simp [combos]
  | x :: xs, k + 1, h => by
    have hx : x ∉ xs := (List.nodup_cons.1 h).1
    have hxs := (List.nodup_cons.1 h).2
    simp only [combos]
    rw [List.nodup_append]
    refine ⟨List.Nodup.map (fun a b hab => by simpa using hab) (nodup_combos xs k hxs), nodup_combos xs (k + 1) hxs, ?_⟩
    intro a ha b hb
    simp only [List.mem_map] at ha
    obtain ⟨c', _, rfl⟩ := ha
    rw [mem_combos] at hb
    intro hab
    exact hx (hb.1.subset (hab ▸ List.mem_cons_self))

theorem length_combos {β : Type} : ∀ (l : List β) (k : Nat), (combos l k).length = Nat.choose l.length k
  | l, 0 => by cases l <;> simp [combos]
  | [], k + 1 => by simp [combos]
  | x :: xs, k + 1 => by
    simp only [combos, List.length_append, List.length_map, length_combos xs k, length_combos xs (k + 1),
      List.length_cons, Nat.choose_succ_succ]

/-- the sublists of `[1..M]` are the strictly increasing lists over `1..M` -/
theorem sublist_idx_iff (M : Nat) (c : List Nat) :
    c.Sublist (idx M) ↔ c.Pairwise (· < ·) ∧ ∀ x ∈ c, 1 ≤ x ∧ x ≤ M := by
  constructor
  · intro h
    exact ⟨(idx_pairwise_lt M).sublist h, fun x hx => mem_idx.1 (h.subset hx)⟩
  · rintro ⟨hp, hr⟩
    -- a strictly increasing list whose members lie in a strictly increasing list is a sublist of it
    have key : ∀ (l c : List Nat), l.Pairwise (· < ·) → c.Pairwise (· < ·) → (∀ x ∈ c, x ∈ l) → c.Sublist l := by
      intro l
      induction l with
      | nil =>
        intro c _ _ hc
        cases c with
        | nil => exact List.Sublist.refl _
        | cons a as => exact absurd (hc a (by simp)) (by simp)
      | cons y ys ih =>
        intro c hl hc hsub
        have hl' := List.pairwise_cons.1 hl
        cases c with
        | nil => exact List.nil_sublist _
        | cons a as =>
          have hc' := List.pairwise_cons.1 hc
          by_cases hay : a = y
          · subst hay
            refine List.Sublist.cons_cons a (ih as hl'.2 hc'.2 ?_)
            intro x hx
            have h1 := hc'.1 x hx
            rcases List.mem_cons.1 (hsub x (by simp [hx])) with h2 | h2
            · omega
            · exact h2
          · refine List.Sublist.cons y (ih (a :: as) hl'.2 hc ?_)
            intro x hx
            rcases List.mem_cons.1 (hsub x hx) with h2 | h2
            · -- x = y, but a ∈ ys is larger than y and a ≤ x
              subst h2
              have ha : a ∈ ys := by
                rcases List.mem_cons.1 (hsub a (by simp)) with h3 | h3
                · exact absurd h3 hay
                · exact h3
              have h4 := hl'.1 a ha
              rcases List.mem_cons.1 hx with h5 | h5
              · omega
              · have := hc'.1 x h5; omega
            · exact h2
    exact key (idx M) c (idx_pairwise_lt M) hp (fun x hx => mem_idx.2 (hr x hx))

/-- `S` is (the sorted list of) a `p`-subset of `[1..M]` -/
def IsSubset (M p : Nat) (S : List Nat) : Prop :=
  S.Pairwise (· < ·) ∧ S.length = p ∧ ∀ x ∈ S, 1 ≤ x ∧ x ≤ M

theorem mem_combosSeqs (M p : Nat) (S : List Nat) : S ∈ Vars.combosSeqs M p ↔ IsSubset M p S := by
  have : Vars.combosSeqs M p = combos (idx M) p := rfl
  rw [this, mem_combos, sublist_idx_iff]
  simp only [IsSubset]; constructor
  · rintro ⟨⟨a, b⟩, c⟩; exact ⟨a, c, b⟩
  · rintro ⟨a, c, b⟩; exact ⟨⟨a, b⟩, c⟩

theorem nodup_combosSeqs (M p : Nat) : (Vars.combosSeqs M p).Nodup := nodup_combos _ _ (idx_nodup M)

theorem length_combosSeqs (M p : Nat) : (Vars.combosSeqs M p).length = Nat.choose M p := by
  have : Vars.combosSeqs M p = combos (idx M) p := rfl
  rw [this, length_combos, length_idx]

/-! ### indexed enumerations -/

theorem zipIdx_eq_map_idxOf {β : Type} [BEq β] [LawfulBEq β] : ∀ (l : List β) (k : Nat), l.Nodup →
    l.zipIdx k = l.map (fun a => (a, k + l.idxOf a))
  | [], _, _ => by simp
  | x :: xs, k, h => by
    have hx : x ∉ xs := (List.nodup_cons.1 h).1
    rw [List.zipIdx_cons, zipIdx_eq_map_idxOf xs (k + 1) (List.nodup_cons.1 h).2]
    simp only [List.map_cons, List.idxOf_cons_self, Nat.add_zero, List.cons.injEq, true_and]
    apply List.map_congr_left
    intro a ha
    have : x ≠ a := fun h' => hx (h' ▸ ha)
    rw [List.idxOf_cons_ne _ this]
    simp; omega

theorem filterMap_ite {β γ : Type} (l : List β) (c : β → Bool) (g : β → γ) :
    l.filterMap (fun a => if c a then some (g a) else none) = (l.filter c).map g := by
  induction l with
  | nil => simp
  | cons x xs ih =>
    by_cases h : c x <;> simp [h, ih]

end Cnfgen.Fam

namespace Cnfgen.Fam
open Cnfgen

theorem combos_singletons {β : Type} : ∀ (l : List β), combos l 1 = l.map (fun y => [y])
  | [] => rfl
  | x :: xs => by simp [combos, combos_singletons xs]

/-- `pairs` is `itertools.combinations(·, 2)` (as modelled by `combos`) -/
theorem pairs_eq_combos {β : Type} : ∀ (l : List β), (pairs l).map (fun p => [p.1, p.2]) = combos l 2
  | [] => rfl
  | x :: xs => by
    simp only [pairs, combos, List.map_append, List.map_map, pairs_eq_combos xs, combos_singletons]
    rfl

end Cnfgen.Fam
