/-
Helper lemmas for C05: the substitution engine (`apply_substitution` = OR of CNFs by
distribution), the faithful `run` loop on well-formed input, literal ranges of the builders.
-/
import CnfgenModel.Trans.Subst
import Lemmas.Linear
namespace Cnfgen
namespace Subst
open Linear

theorem clauseHolds_append (β : Assign) (a b : Clause) :
    clauseHolds β (a ++ b) = (clauseHolds β a || clauseHolds β b) := by
  simp [clauseHolds]

theorem mem_distribute_cons (D : List Clause) (Ds : List (List Clause)) (d : Clause) :
    d ∈ distribute (D :: Ds) ↔ ∃ x ∈ D, ∃ e ∈ distribute Ds, d = x ++ e := by
  simp only [distribute, product, List.mem_map, List.mem_flatMap]
  constructor
  · rintro ⟨t, ⟨x, hx, t', ht', rfl⟩, rfl⟩
    exact ⟨x, hx, t'.flatten, ⟨t', ht', rfl⟩, by simp⟩
  · rintro ⟨x, hx, e, ⟨t', ht', rfl⟩, rfl⟩
    exact ⟨x :: t', ⟨x, hx, t', ht', rfl⟩, by simp⟩

/-- the OR of CNFs: the distributed clauses all hold iff one of the CNFs holds entirely -/
theorem distribute_holds (β : Assign) (doms : List (List Clause)) :
    (∀ d ∈ distribute doms, clauseHolds β d = true) ↔
      ∃ D ∈ doms, ∀ c ∈ D, clauseHolds β c = true := by
  induction doms with
  | nil => simp [distribute, product, clauseHolds]
  | cons D Ds ih =>
    simp only [List.mem_cons, exists_eq_or_imp, ← ih]
    constructor
    · intro h
      by_cases hD : ∀ c ∈ D, clauseHolds β c = true
      · exact Or.inl hD
      · right
        simp only [Classical.not_forall] at hD
        obtain ⟨c, hc, hcf⟩ := hD
        intro e he
        have := h (c ++ e) ((mem_distribute_cons D Ds _).2 ⟨c, hc, e, he, rfl⟩)
        rw [clauseHolds_append] at this
        simpa [hcf] using this
    · intro h d hd
      obtain ⟨x, hx, e, he, rfl⟩ := (mem_distribute_cons D Ds d).1 hd
      rw [clauseHolds_append]
      rcases h with h | h
      · simp [h x hx]
      · simp [h e he]

theorem mem_substClauses (enc : Int → List Clause) (cs : List Clause) (d : Clause) :
    d ∈ substClauses enc cs ↔ ∃ c ∈ cs, d ∈ distribute (c.map enc) := by
  simp [substClauses, List.mem_flatMap]

theorem litHolds_ofNat (g : Assign) (v : Nat) (hv : 1 ≤ v) : litHolds g (v : Int) = g v := by
  have : (0 : Int) < (v : Int) := by omega
  simp only [litHolds, this, if_true, Int.natAbs_natCast]

theorem litHolds_negOfNat (g : Assign) (v : Nat) (hv : 1 ≤ v) : litHolds g (-(v : Int)) = !g v := by
  have : ¬ (0 : Int) < -(v : Int) := by omega
  simp only [litHolds, this, if_false, Int.natAbs_neg, Int.natAbs_natCast]

/-- T-C05.0, clause-list form.  `enc` is any per-literal encoder that means `g v` on the positive
literal of `v` and `¬ g v` on the negative one, for the variables of the formula (under this `β`). -/
theorem substClauses_holds (β g : Assign) (enc : Int → List Clause) (N : Nat) (cs : List Clause)
    (hF : ∀ c ∈ cs, ∀ l ∈ c, l ≠ 0 ∧ l.natAbs ≤ N)
    (hpos : ∀ v, 1 ≤ v → v ≤ N → ((∀ c ∈ enc (v : Int), clauseHolds β c = true) ↔ g v = true))
    (hneg : ∀ v, 1 ≤ v → v ≤ N → ((∀ c ∈ enc (-(v : Int)), clauseHolds β c = true) ↔ g v = false)) :
    (∀ d ∈ substClauses enc cs, clauseHolds β d = true) ↔ ∀ c ∈ cs, clauseHolds g c = true := by
  have key : ∀ c ∈ cs, (∀ d ∈ distribute (c.map enc), clauseHolds β d = true) ↔ clauseHolds g c = true := by
    intro c hc
    have hg : clauseHolds g c = true ↔ ∃ l ∈ c, litHolds g l = true := by simp [clauseHolds]
    rw [distribute_holds, hg]
    constructor
    · rintro ⟨D, hD, h⟩
      obtain ⟨l, hl, rfl⟩ := List.mem_map.1 hD
      refine ⟨l, hl, ?_⟩
      obtain ⟨h0, hN⟩ := hF c hc l hl
      by_cases hp : 0 < l
      · have e : l = ((l.natAbs : Nat) : Int) := by omega
        rw [e] at h ⊢
        rw [litHolds_ofNat g _ (by omega)]
        exact (hpos l.natAbs (by omega) hN).1 h
      · have e : l = -((l.natAbs : Nat) : Int) := by omega
        rw [e] at h ⊢
        rw [litHolds_negOfNat g _ (by omega)]
        simpa using (hneg l.natAbs (by omega) hN).1 h
    · rintro ⟨l, hl, h⟩
      refine ⟨enc l, List.mem_map.2 ⟨l, hl, rfl⟩, ?_⟩
      obtain ⟨h0, hN⟩ := hF c hc l hl
      by_cases hp : 0 < l
      · have e : l = ((l.natAbs : Nat) : Int) := by omega
        rw [e] at h ⊢
        rw [litHolds_ofNat g _ (by omega)] at h
        exact (hpos l.natAbs (by omega) hN).2 h
      · have e : l = -((l.natAbs : Nat) : Int) := by omega
        rw [e] at h ⊢
        rw [litHolds_negOfNat g _ (by omega)] at h
        exact (hneg l.natAbs (by omega) hN).2 (by simpa using h)
  constructor
  · intro h c hc
    exact (key c hc).1 (fun d hd => h d ((mem_substClauses enc cs d).2 ⟨c, hc, hd⟩))
  · intro h d hd
    obtain ⟨c, hc, hd⟩ := (mem_substClauses enc cs d).1 hd
    exact (key c hc).2 (h c hc) d hd

/-! ### literal ranges -/

/-- every literal of every clause is non-zero and mentions a variable `≤ M` -/
def Bounded (M : Nat) (cs : List Clause) : Prop := ∀ c ∈ cs, ∀ x ∈ c, x ≠ 0 ∧ x.natAbs ≤ M

/-- the encoder maps the literals of a formula over `N` variables to clauses over `M` variables -/
def EncB (N M : Nat) (enc : Int → List Clause) : Prop :=
  ∀ l : Int, l ≠ 0 → l.natAbs ≤ N → Bounded M (enc l)

theorem mem_distribute_lits (doms : List (List Clause)) (d : Clause) (l : Int)
    (hd : d ∈ distribute doms) (hl : l ∈ d) : ∃ D ∈ doms, ∃ c ∈ D, l ∈ c := by
  induction doms generalizing d with
  | nil => simp [distribute, product] at hd; subst hd; simp at hl
  | cons D Ds ih =>
    obtain ⟨x, hx, e, he, rfl⟩ := (mem_distribute_cons D Ds d).1 hd
    rcases List.mem_append.1 hl with h | h
    · exact ⟨D, by simp, x, hx, h⟩
    · obtain ⟨D', hD', c, hc, hlc⟩ := ih e he h
      exact ⟨D', by simp [hD'], c, hc, hlc⟩

theorem substClauses_bounded (N M : Nat) (enc : Int → List Clause) (cs : List Clause)
    (hF : ∀ c ∈ cs, ∀ l ∈ c, l ≠ 0 ∧ l.natAbs ≤ N) (henc : EncB N M enc) :
    Bounded M (substClauses enc cs) := by
  intro d hd x hx
  obtain ⟨c, hc, hd⟩ := (mem_substClauses enc cs d).1 hd
  obtain ⟨D, hD, c', hc', hx'⟩ := mem_distribute_lits _ d x hd hx
  obtain ⟨l, hl, rfl⟩ := List.mem_map.1 hD
  exact henc l (hF c hc l hl).1 (hF c hc l hl).2 c' hc' x hx'

theorem Bounded.append {M : Nat} {a b : List Clause} (ha : Bounded M a) (hb : Bounded M b) :
    Bounded M (a ++ b) := by
  intro c hc
  rcases List.mem_append.1 hc with h | h
  · exact ha c h
  · exact hb c h

/-! ### `_check_and_update` and the variable count -/

theorem foldl_max_init (ls : List Int) (a : Nat) :
    ls.foldl (fun m l => max m l.natAbs) a = max a (clauseMax ls) := by
  unfold clauseMax
  induction ls generalizing a with
  | nil => simp
  | cons x xs ih =>
    simp only [List.foldl_cons]
    rw [ih (max a x.natAbs), ih (max 0 x.natAbs)]
    omega

theorem clauseMax_cons (x : Int) (xs : List Int) :
    clauseMax (x :: xs) = max x.natAbs (clauseMax xs) := by
  have := foldl_max_init xs (max 0 x.natAbs)
  simp only [clauseMax, List.foldl_cons] at this ⊢
  rw [this]; omega

theorem le_clauseMax (c : Clause) (x : Int) (hx : x ∈ c) : x.natAbs ≤ clauseMax c := by
  induction c with
  | nil => simp at hx
  | cons y ys ih =>
    rw [clauseMax_cons]
    rcases List.mem_cons.1 hx with h | h
    · subst h; omega
    · have := ih h; omega

theorem clauseMax_le (c : Clause) (M : Nat) (h : ∀ x ∈ c, x.natAbs ≤ M) : clauseMax c ≤ M := by
  induction c with
  | nil => simp [clauseMax]
  | cons y ys ih =>
    rw [clauseMax_cons]
    have := ih (fun x hx => h x (by simp [hx]))
    have := h y (by simp)
    omega

theorem foldl_maxVar_init (cs : List Clause) (a : Nat) :
    cs.foldl (fun m c => max m (clauseMax c)) a = max a (maxVar cs) := by
  unfold maxVar
  induction cs generalizing a with
  | nil => simp
  | cons x xs ih =>
    simp only [List.foldl_cons]
    rw [ih (max a (clauseMax x)), ih (max 0 (clauseMax x))]
    omega

theorem maxVar_cons (c : Clause) (cs : List Clause) :
    maxVar (c :: cs) = max (clauseMax c) (maxVar cs) := by
  have := foldl_maxVar_init cs (max 0 (clauseMax c))
  simp only [maxVar, List.foldl_cons] at this ⊢
  rw [this]; omega

theorem maxVar_nil : maxVar [] = 0 := rfl

theorem maxVar_append (a b : List Clause) : maxVar (a ++ b) = max (maxVar a) (maxVar b) := by
  induction a with
  | nil => simp [maxVar_nil]
  | cons x xs ih => rw [List.cons_append, maxVar_cons, maxVar_cons, ih]; omega

theorem le_maxVar (cs : List Clause) (c : Clause) (x : Int) (hc : c ∈ cs) (hx : x ∈ c) :
    x.natAbs ≤ maxVar cs := by
  induction cs with
  | nil => simp at hc
  | cons y ys ih =>
    rw [maxVar_cons]
    rcases List.mem_cons.1 hc with h | h
    · subst h; have := le_clauseMax c x hx; omega
    · have := ih h; omega

theorem maxVar_le (cs : List Clause) (M : Nat) (h : ∀ c ∈ cs, ∀ x ∈ c, x.natAbs ≤ M) :
    maxVar cs ≤ M := by
  induction cs with
  | nil => simp [maxVar_nil]
  | cons y ys ih =>
    rw [maxVar_cons]
    have := ih (fun c hc => h c (by simp [hc]))
    have := clauseMax_le y M (h y (by simp))
    omega

theorem checkLits_ok (n : Nat) (c : Clause) (h : ∀ l ∈ c, l ≠ 0) :
    checkLits n c = .ok (max n (clauseMax c)) := by
  unfold checkLits
  have : ¬ (0 : Int) ∈ c := fun h0 => h 0 h0 rfl
  simp [this, foldl_max_init]

theorem addClause_ok (G : CNF) (c : Clause) (h : ∀ l ∈ c, l ≠ 0) :
    G.addClause c true = .ok ⟨max G.nvars (clauseMax c), G.clauses ++ [c]⟩ := by
  unfold CNF.addClause
  cases c with
  | nil => simp [clauseMax]
  | cons x xs => simp [checkLits_ok G.nvars (x :: xs) h]

theorem addAll_ok (G : CNF) (cs : List Clause) (h : ∀ c ∈ cs, ∀ l ∈ c, l ≠ 0) :
    addAll G cs = .ok ⟨max G.nvars (maxVar cs), G.clauses ++ cs⟩ := by
  induction cs generalizing G with
  | nil => simp [addAll, maxVar_nil]
  | cons c cs ih =>
    simp only [addAll, addClause_ok G c (h c (by simp))]
    rw [ih _ (fun c' hc' => h c' (by simp [hc']))]
    simp only [maxVar_cons, List.append_assoc, List.singleton_append]
    congr 2
    omega

/-! ### the `substitutions[lit]` table on a well-formed formula -/

theorem pyIndex_table (N : Nat) (enc : Int → List Clause) (l : Int) (h0 : l ≠ 0) (hN : l.natAbs ≤ N) :
    pyIndex (table N enc) l = .ok (some (enc l)) := by
  unfold pyIndex table
  simp only [List.length_map, List.length_range]
  by_cases hp : 0 < l
  · have hneg : ¬ l < 0 := by omega
    simp only [hneg, if_false]
    have h1 : l.toNat < 2 * N + 1 := by omega
    have h2 : ¬ l.toNat = 0 := by omega
    have h3 : l.toNat ≤ N := by omega
    have h4 : ((l.toNat : Nat) : Int) = l := by omega
    simp [List.getElem?_map, List.getElem?_range h1, h2, h3, h4]
  · have hneg : l < 0 := by omega
    simp only [hneg, if_true]
    obtain ⟨j, hj⟩ : ∃ j : Nat, l + ((2 * N + 1 : Nat) : Int) = (j : Int) :=
      ⟨(l + ((2 * N + 1 : Nat) : Int)).toNat, by omega⟩
    rw [hj]
    have hj0 : ¬ ((j : Int) < 0) := by omega
    have h1 : j < 2 * N + 1 := by omega
    have h2 : ¬ j = 0 := by omega
    have h3 : ¬ j ≤ N := by omega
    have h4 : -(((2 * N + 1 - j : Nat)) : Int) = l := by omega
    simp only [hj0, if_false, Int.toNat_natCast]
    simp [List.getElem?_map, List.getElem?_range h1, h2, h3, h4]

theorem lookupAll_ok (N : Nat) (enc : Int → List Clause) (c : Clause)
    (h : ∀ l ∈ c, l ≠ 0 ∧ l.natAbs ≤ N) :
    lookupAll (table N enc) c = .ok (c.map (fun l => some (enc l))) := by
  induction c with
  | nil => simp [lookupAll]
  | cons x xs ih =>
    simp only [lookupAll, pyIndex_table N enc x (h x (by simp)).1 (h x (by simp)).2,
      ih (fun l hl => h l (by simp [hl])), List.map_cons]

theorem allSome_map_some {α β : Type} (f : α → β) (l : List α) :
    allSome (l.map (fun x => some (f x))) = some (l.map f) := by
  induction l with
  | nil => simp [allSome]
  | cons x xs ih => simp [allSome, ih]

theorem substClausePy_ok (N : Nat) (enc : Int → List Clause) (c : Clause)
    (h : ∀ l ∈ c, l ≠ 0 ∧ l.natAbs ≤ N) :
    substClausePy (table N enc) c = .ok (distribute (c.map enc)) := by
  simp only [substClausePy, lookupAll_ok N enc c h, allSome_map_some]

/-- the faithful loop on a well-formed formula: no exception, the clauses are the closed form,
the variable count is what `_check_and_update` accumulates -/
theorem run_ok (init : CNF) (N M : Nat) (enc : Int → List Clause) (cs : List Clause)
    (hF : ∀ c ∈ cs, ∀ l ∈ c, l ≠ 0 ∧ l.natAbs ≤ N) (henc : EncB N M enc) :
    run init N enc cs =
      .ok ⟨max init.nvars (maxVar (substClauses enc cs)), init.clauses ++ substClauses enc cs⟩ := by
  induction cs generalizing init with
  | nil => simp [run, substClauses, maxVar_nil]
  | cons c cs ih =>
    have hc := hF c (by simp)
    have hb : Bounded M (distribute (c.map enc)) := by
      have := substClauses_bounded N M enc [c] (by simpa using hc) henc
      simpa [substClauses] using this
    simp only [run, substClausePy_ok N enc c hc,
      addAll_ok init _ (fun d hd l hl => (hb d hd l hl).1)]
    rw [ih _ (fun c' hc' => hF c' (by simp [hc']))]
    have e : substClauses enc (c :: cs) = distribute (c.map enc) ++ substClauses enc cs := by
      simp [substClauses]
    simp only [e, maxVar_append, List.append_assoc]
    congr 2
    omega

/-! ### the builders only use the literals they are given (up to sign) -/

/-- every literal of every clause of `cs` is a literal of `ls` or the negation of one -/
def Uses (ls : List Int) (cs : List Clause) : Prop := ∀ c ∈ cs, ∀ x ∈ c, x ∈ ls ∨ -x ∈ ls

theorem Uses.bounded {ls : List Int} {cs : List Clause} {M : Nat} (h : Uses ls cs)
    (hl : ∀ y ∈ ls, y ≠ 0 ∧ y.natAbs ≤ M) : Bounded M cs := by
  intro c hc x hx
  rcases h c hc x hx with h' | h'
  · exact hl x h'
  · have := hl (-x) h'; constructor <;> omega

theorem mem_combos_sub {α : Type} (ls : List α) (j : Nat) (c : List α) (hc : c ∈ combos ls j) :
    ∀ x ∈ c, x ∈ ls := by
  induction ls generalizing j c with
  | nil => cases j <;> simp [combos] at hc <;> subst hc <;> simp
  | cons y ys ih =>
    cases j with
    | zero => simp [combos] at hc; subst hc; simp
    | succ j =>
      simp only [combos, List.mem_append, List.mem_map] at hc
      rcases hc with ⟨c', hc', rfl⟩ | hc
      · intro x hx
        rcases List.mem_cons.1 hx with h | h
        · simp [h]
        · exact List.mem_cons_of_mem _ (ih j c' hc' x h)
      · intro x hx; exact List.mem_cons_of_mem _ (ih (j+1) c hc x hx)

theorem geq_mem (ls : List Int) (k : Int) : ∀ c ∈ geq ls k, ∀ x ∈ c, x ∈ ls := by
  intro c hc x hx
  unfold geq at hc
  split at hc
  · simp at hc
  · split at hc
    · simp at hc; subst hc; simp at hx
    · exact mem_combos_sub ls _ c hc x hx

theorem geq_uses (ls : List Int) (k : Int) : Uses ls (geq ls k) :=
  fun c hc x hx => Or.inl (geq_mem ls k c hc x hx)

theorem leq_uses (ls : List Int) (k : Int) : Uses ls (leq ls k) := by
  intro c hc x hx
  have := geq_mem _ _ c hc x hx
  obtain ⟨y, hy, rfl⟩ := List.mem_map.1 this
  right; simpa using hy

theorem neqClauses_uses (ls : List Int) (k : Nat) : Uses ls (neqClauses ls k) := by
  induction ls generalizing k with
  | nil =>
    cases k with
    | zero => intro c hc x hx; simp [neqClauses] at hc; subst hc; simp at hx
    | succ k => intro c hc; simp [neqClauses] at hc
  | cons y ys ih =>
    cases k with
    | zero => intro c hc x hx; simp [neqClauses] at hc; subst hc; exact Or.inl hx
    | succ k =>
      intro c hc x hx
      simp only [neqClauses, List.mem_append, List.mem_map] at hc
      rcases hc with ⟨c', hc', rfl⟩ | ⟨c', hc', rfl⟩
      · rcases List.mem_cons.1 hx with h | h
        · right; simp [h]
        · rcases ih k c' hc' x h with h' | h'
          · exact Or.inl (List.mem_cons_of_mem _ h')
          · exact Or.inr (List.mem_cons_of_mem _ h')
      · rcases List.mem_cons.1 hx with h | h
        · left; simp [h]
        · rcases ih (k+1) c' hc' x h with h' | h'
          · exact Or.inl (List.mem_cons_of_mem _ h')
          · exact Or.inr (List.mem_cons_of_mem _ h')

theorem neq_uses (ls : List Int) (k : Int) : Uses ls (neq ls k) := by
  unfold neq
  split
  · intro c hc; simp at hc
  · exact neqClauses_uses ls _

theorem add_uses (ls : List Int) (o : Op) (k : Int) : Uses ls (Linear.add ls o k) := by
  cases o <;> simp only [Linear.add]
  · exact leq_uses ls k
  · exact geq_uses ls k
  · exact leq_uses ls _
  · exact geq_uses ls _
  · intro c hc
    rcases List.mem_append.1 hc with h | h
    · exact leq_uses ls k c h
    · exact geq_uses ls k c h
  · exact neq_uses ls k

theorem parityClauses_uses (ls : List Int) (w : Bool) : Uses ls (parityClauses ls w) := by
  induction ls generalizing w with
  | nil => intro c hc x hx; cases w <;> simp [parityClauses] at hc; subst hc; simp at hx
  | cons y ys ih =>
    intro c hc x hx
    simp only [parityClauses, List.mem_append, List.mem_map] at hc
    rcases hc with ⟨c', hc', rfl⟩ | ⟨c', hc', rfl⟩
    · rcases List.mem_cons.1 hx with h | h
      · left; simp [h]
      · rcases ih w c' hc' x h with h' | h'
        · exact Or.inl (List.mem_cons_of_mem _ h')
        · exact Or.inr (List.mem_cons_of_mem _ h')
    · rcases List.mem_cons.1 hx with h | h
      · right; simp [h]
      · rcases ih (!w) c' hc' x h with h' | h'
        · exact Or.inl (List.mem_cons_of_mem _ h')
        · exact Or.inr (List.mem_cons_of_mem _ h')

theorem parity_uses (ls : List Int) (b : Int) : Uses ls (Linear.parity ls b) :=
  parityClauses_uses ls _

/-- the loop of `oneify` on a negative literal is the `!= 1` loop of `add_linear` -/
theorem flipEach_eq (ls : List Int) : flipEach ls = neqClauses ls 1 := by
  induction ls with
  | nil => simp [flipEach, neqClauses]
  | cons x xs ih => simp [flipEach, neqClauses, ih]

end Subst
end Cnfgen
