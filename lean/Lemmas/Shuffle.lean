/-
Helper lemmas for C09 (model: `CnfgenModel/Trans/Shuffle.lean`).
-/
import CnfgenModel.Trans.Shuffle
import Lemmas.Linear
import Std.Data.String.ToNat
namespace Cnfgen.Shuffle
open Cnfgen

/-! ### specification predicates -/

/-- "a list of `-1` and `+1` of length equal to the number of variables" -/
def ValidFlips (N : Nat) (fl : List Int) : Prop := fl.length = N ∧ ∀ x ∈ fl, x = 1 ∨ x = -1

/-- the integers `base, base+1, …, base+n-1` -/
def iota (base : Int) (n : Nat) : List Int := (List.range n).map (fun (i : Nat) => (i : Int) + base)

/-- "a permutation of `[base, …, base+n-1]`" -/
def ValidPerm (base : Int) (n : Nat) (p : List Int) : Prop := List.Perm p (iota base n)

/-- all three explicit arguments are what the docstring of `Shuffle` asks for -/
def Valid (F : CNF) (fl vp cp : List Int) : Prop :=
  ValidFlips F.nvars fl ∧ ValidPerm 1 F.nvars vp ∧ ValidPerm 0 F.clauses.length cp

/-- the literal map: `σ(l) = sign(l) · flips[|l|-1] · vperm[|l|-1]` -/
def sigma (fl vp : List Int) (l : Int) : Int :=
  l.sign * (fl.getD (l.natAbs - 1) 0 * vp.getD (l.natAbs - 1) 0)

/-! ### generic list facts -/

theorem any_range_getD {α : Type} (l : List α) (d : α) (p : α → Bool) :
    (List.range l.length).any (fun i => p (l.getD i d)) = l.any p := by
  rw [Bool.eq_iff_iff]
  simp only [List.any_eq_true, List.mem_range]
  constructor
  · rintro ⟨i, hi, h⟩
    refine ⟨l[i], List.getElem_mem hi, ?_⟩
    simpa [List.getD_eq_getElem?_getD, hi] using h
  · rintro ⟨x, hx, h⟩
    obtain ⟨i, hi, rfl⟩ := List.getElem_of_mem hx
    exact ⟨i, hi, by simpa [List.getD_eq_getElem?_getD, hi] using h⟩

theorem iota_length (base : Int) (n : Nat) : (iota base n).length = n := by simp [iota]

theorem mem_iota {base : Int} {n : Nat} {x : Int} : x ∈ iota base n ↔ base ≤ x ∧ x < base + n := by
  simp only [iota, List.mem_map, List.mem_range]
  constructor
  · rintro ⟨i, hi, rfl⟩; omega
  · rintro ⟨h1, h2⟩; exact ⟨(x - base).toNat, by omega, by omega⟩

theorem iota_pairwise_lt (base : Int) (n : Nat) : (iota base n).Pairwise (· < ·) := by
  unfold iota
  rw [List.pairwise_map]
  exact (List.pairwise_lt_range (n := n)).imp (by intro a b h; omega)

theorem iota_nodup (base : Int) (n : Nat) : (iota base n).Nodup :=
  (iota_pairwise_lt base n).imp (by intro a b h; omega)

theorem iota_getD (base : Int) (n i : Nat) (h : i < n) : (iota base n).getD i 0 = (i : Int) + base := by
  simp [iota, List.getD_eq_getElem?_getD, h]

/-! ### validation -/

theorem checkFlips_cases (N : Nat) (fl : List Int) :
    checkFlips N fl = .ok () ∨ checkFlips N fl = .error .valueError := by
  unfold checkFlips; split <;> (try split) <;> simp

theorem checkFlips_ok_iff (N : Nat) (fl : List Int) :
    checkFlips N fl = .ok () ↔ ValidFlips N fl := by
  unfold checkFlips ValidFlips
  by_cases hl : fl.length = N
  · subst hl
    rw [any_range_getD fl 0 (fun x => x.natAbs != 1)]
    simp only [ne_eq, not_true_eq_false, ↓reduceIte, true_and]
    by_cases ha : fl.any (fun x => x.natAbs != 1) = true
    · simp only [ha, ↓reduceIte, reduceCtorEq, false_iff]
      simp only [List.any_eq_true, bne_iff_ne] at ha
      obtain ⟨x, hx, h⟩ := ha
      intro hall; have := hall x hx; omega
    · simp only [ha, Bool.false_eq_true, ↓reduceIte, true_iff]
      intro x hx
      simp only [List.any_eq_true, bne_iff_ne, not_exists, not_and, Decidable.not_not] at ha
      have := ha x hx; omega
  · simp [hl]

theorem sortInt_perm (p : List Int) : (sortInt p).Perm p := List.mergeSort_perm p _

theorem sortInt_length (p : List Int) : (sortInt p).length = p.length := by simp [sortInt]

theorem sortInt_pairwise (p : List Int) : (sortInt p).Pairwise (· ≤ ·) := by
  have := List.pairwise_mergeSort (le := fun (a b : Int) => decide (a ≤ b))
    (by intro a b c; simp only [decide_eq_true_eq]; omega)
    (by intro a b; simp only [Bool.or_eq_true, decide_eq_true_eq]; omega) p
  exact this.imp (by intro a b h; simpa using h)

theorem sortInt_eq_iota_iff (base : Int) (n : Nat) (p : List Int) :
    sortInt p = iota base n ↔ ValidPerm base n p := by
  unfold ValidPerm
  constructor
  · intro h; exact (sortInt_perm p).symm.trans (h ▸ List.Perm.refl _)
  · intro h
    refine List.Perm.eq_of_pairwise (le := (· ≤ ·)) (by intro a b _ _ h1 h2; omega)
      (sortInt_pairwise p) ((iota_pairwise_lt base n).imp (by intro a b h; omega))
      ((sortInt_perm p).trans h)

theorem checkPerm_cases (base : Int) (n : Nat) (p : List Int) :
    checkPerm base n p = .ok () ∨ checkPerm base n p = .error .valueError := by
  unfold checkPerm; split
  · simp
  · dsimp only; split <;> simp

theorem checkPerm_ok_iff (base : Int) (n : Nat) (p : List Int) :
    checkPerm base n p = .ok () ↔ ValidPerm base n p := by
  rw [← sortInt_eq_iota_iff]
  unfold checkPerm
  by_cases hl : p.length = n
  · simp only [hl, ne_eq, not_true_eq_false, ↓reduceIte]
    by_cases ha : (List.range n).any (fun i => (i : Int) + base != (sortInt p).getD i 0) = true
    · simp only [ha, ↓reduceIte, reduceCtorEq, false_iff]
      simp only [List.any_eq_true, List.mem_range, bne_iff_ne] at ha
      obtain ⟨i, hi, h⟩ := ha
      intro heq; rw [heq, iota_getD base n i hi] at h; exact h rfl
    · simp only [ha, Bool.false_eq_true, ↓reduceIte, true_iff]
      simp only [List.any_eq_true, List.mem_range, bne_iff_ne, not_exists, not_and,
        Decidable.not_not] at ha
      apply List.ext_getElem
      · rw [sortInt_length, iota_length, hl]
      · intro i h1 h2
        rw [iota_length] at h2
        have e1 := ha i h2
        have e2 := iota_getD base n i h2
        simp only [List.getD_eq_getElem?_getD, List.getElem?_eq_getElem h1, Option.getD_some] at e1
        have h2' : i < (iota base n).length := by rw [iota_length]; exact h2
        simp only [List.getD_eq_getElem?_getD, List.getElem?_eq_getElem h2', Option.getD_some] at e2
        omega
  · simp only [hl, ne_eq, not_false_eq_true, ↓reduceIte, reduceCtorEq, false_iff]
    intro heq
    have := sortInt_length p
    rw [heq, iota_length] at this
    exact hl this.symm

theorem vals_getElem? (fl vp : List Int) (N : Nat) (hf : fl.length = N) (hv : vp.length = N) (i : Nat) (hi : i < N) :
    (List.zipWith (· * ·) fl vp)[i]? = some (fl.getD i 0 * vp.getD i 0) := by
  have h1 : i < fl.length := by omega
  have h2 : i < vp.length := by omega
  simp [List.getElem?_zipWith, List.getD_eq_getElem?_getD, List.getElem?_eq_getElem h1, List.getElem?_eq_getElem h2]

/-- the finished substitution table, looked up the Python way, is `σ` on every literal of a
variable in `1..N` -/
theorem pyIndex_table (fl vp : List Int) (N : Nat) (hf : fl.length = N) (hv : vp.length = N)
    (l : Int) (h0 : l ≠ 0) (hN : l.natAbs ≤ N) :
    pyIndex (none :: ((List.zipWith (· * ·) fl vp).map some ++
      (List.zipWith (· * ·) fl vp).reverse.map (fun x => some (-x)))) l = .ok (some (sigma fl vp l)) := by
  have hlen : (List.zipWith (· * ·) fl vp).length = N := by simp [hf, hv]
  generalize hvals : List.zipWith (· * ·) fl vp = vals at hlen
  have hget : ∀ i, i < N → vals[i]? = some (fl.getD i 0 * vp.getD i 0) := by
    intro i hi; rw [← hvals]; exact vals_getElem? fl vp N hf hv i hi
  unfold pyIndex sigma
  simp only [List.length_cons, List.length_append, List.length_map, List.length_reverse, hlen]
  by_cases hneg : l < 0
  · have hj : ¬ (l + ((N + N + 1 : Nat) : Int) < 0) := by omega
    simp only [hneg, ↓reduceIte, hj]
    have hk : (l + ((N + N + 1 : Nat) : Int)).toNat = (N + (N - l.natAbs)) + 1 := by omega
    rw [hk, List.getElem?_cons_succ, List.getElem?_append_right (by simp [hlen])]
    simp only [List.length_map, hlen, Nat.add_sub_cancel_left, List.getElem?_map]
    rw [List.getElem?_reverse (by omega), hlen]
    have : N - 1 - (N - l.natAbs) = l.natAbs - 1 := by omega
    rw [this, hget _ (by omega)]
    have hs : l.sign = -1 := Int.sign_eq_neg_one_of_neg hneg
    simp [hs]
  · have hpos : 0 < l := by omega
    have hj : ¬ (l < 0) := hneg
    simp only [hneg, ↓reduceIte]
    have hk : l.toNat = (l.natAbs - 1) + 1 := by omega
    rw [hk, List.getElem?_cons_succ, List.getElem?_append_left (by simp [hlen]; omega)]
    simp only [List.getElem?_map]
    rw [hget _ (by omega)]
    have hs : l.sign = 1 := Int.sign_eq_one_of_pos hpos
    simp [hs]

/-! ### the clause loop -/

theorem pyIndex_nat {α : Type} (l : List α) (i : Nat) (h : i < l.length) :
    pyIndex l (i : Int) = .ok l[i] := by
  unfold pyIndex
  have h1 : ¬ ((i : Int) < 0) := by omega
  simp [h1, List.getElem?_eq_getElem h]

theorem mapE_ok_map {α β : Type} (f : α → Except Err β) (g : α → β) (l : List α)
    (h : ∀ x ∈ l, f x = .ok (g x)) : mapE f l = .ok (l.map g) := by
  induction l with
  | nil => rfl
  | cons x xs ih =>
    have hx := h x (by simp)
    have hxs := ih (fun y hy => h y (by simp [hy]))
    simp [mapE, hx, hxs]

theorem substClause_ok (tbl : List (Option Int)) (σ : Int → Int) (c : Clause)
    (h : ∀ l ∈ c, pyIndex tbl l = .ok (some (σ l))) : substClause tbl c = .ok (c.map σ) := by
  unfold substClause
  rw [mapE_ok_map (pyIndex tbl) (fun l => some (σ l)) c h]
  simp [List.filterMap_map]

theorem foldl_max_natAbs (c : List Int) (n : Nat) (h : ∀ l ∈ c, l.natAbs ≤ n) :
    c.foldl (fun m l => max m l.natAbs) n = n := by
  induction c with
  | nil => rfl
  | cons x xs ih =>
    have hx := h x (by simp)
    simp only [List.foldl_cons]
    rw [Nat.max_eq_left hx]
    exact ih (fun y hy => h y (by simp [hy]))

theorem addClause_in (out : CNF) (c : Clause) (h : ∀ l ∈ c, l ≠ 0 ∧ l.natAbs ≤ out.nvars) :
    out.addClause c = .ok ⟨out.nvars, out.clauses ++ [c]⟩ := by
  unfold CNF.addClause
  cases c with
  | nil => simp
  | cons x xs =>
    have h0 : ((x :: xs).contains 0) = false := by
      rw [Bool.eq_false_iff]; intro hc
      simp only [List.contains_iff_mem] at hc
      exact (h 0 hc).1 rfl
    simp only [List.isEmpty_cons, Bool.false_eq_true, ↓reduceIte, checkLits, h0]
    rw [foldl_max_natAbs _ _ (fun l hl => (h l hl).2)]

theorem foldE_load (F : CNF) (tbl : List (Option Int)) (σ : Int → Int) (N : Nat)
    (hσ : ∀ c ∈ F.clauses, ∀ l ∈ c,
      pyIndex tbl l = .ok (some (σ l)) ∧ σ l ≠ 0 ∧ (σ l).natAbs ≤ N) :
    ∀ (S : List (Nat × Int)) (out : CNF), out.nvars = N →
      (∀ j (h : j < S.length), S[j].2 = (out.clauses.length : Int) + j) →
      (∀ m ∈ S, m.1 < F.clauses.length) →
      foldE (loadStep F tbl) out S =
        .ok ⟨N, out.clauses ++ S.map (fun m => (F.clauses.getD m.1 []).map σ)⟩ := by
  intro S
  induction S with
  | nil => intro out hN _ _; cases out; simp_all [foldE]
  | cons m S ih =>
    intro out hN hidx hlt
    have hm := hlt m (by simp)
    have h0 := hidx 0 (by simp)
    simp only [List.getElem_cons_zero, Int.natCast_zero, Int.add_zero] at h0
    have hc : F.clauses[m.1] ∈ F.clauses := List.getElem_mem hm
    have hs : substClause tbl F.clauses[m.1] = .ok (F.clauses[m.1].map σ) :=
      substClause_ok tbl σ _ (fun l hl => (hσ _ hc l hl).1)
    have ha : out.addClause (F.clauses[m.1].map σ) = .ok ⟨N, out.clauses ++ [F.clauses[m.1].map σ]⟩ := by
      rw [← hN]
      apply addClause_in
      intro l hl
      simp only [List.mem_map] at hl
      obtain ⟨l', hl', rfl⟩ := hl
      have := hσ _ hc l' hl'
      exact ⟨this.2.1, by rw [hN]; exact this.2.2⟩
    have hstep : loadStep F tbl out m = .ok ⟨N, out.clauses ++ [F.clauses[m.1].map σ]⟩ := by
      unfold loadStep
      simp [h0, pyIndex_nat F.clauses m.1 hm, hs, ha]
    simp only [foldE, hstep]
    rw [ih ⟨N, out.clauses ++ [F.clauses[m.1].map σ]⟩ rfl]
    · simp [List.getD_eq_getElem?_getD, List.getElem?_eq_getElem hm]
    · intro j hj
      have := hidx (j + 1) (by simp; omega)
      simp only [List.getElem_cons_succ] at this
      simp only [List.length_append, List.length_cons, List.length_nil]
      rw [this]; push_cast; omega
    · intro m' hm'; exact hlt m' (by simp [hm'])

/-! ### `sorted(enumerate(perm), key=…)` for a permutation of `0..M-1` -/

theorem enumerate_map_snd (l : List Int) : (enumerate l).map Prod.snd = l := by
  simp [enumerate, List.map_map, Function.comp_def, List.zipIdx_map_fst]

theorem enumerate_map_fst (l : List Int) : (enumerate l).map Prod.fst = List.range l.length := by
  simp only [enumerate, List.map_map, Function.comp_def]
  rw [List.range_eq_range']
  exact List.zipIdx_map_snd 0 l

theorem mem_enumerate {l : List Int} {m : Nat × Int} : m ∈ enumerate l ↔ l[m.1]? = some m.2 := by
  simp only [enumerate, List.mem_map]
  constructor
  · rintro ⟨p, hp, rfl⟩; exact List.mem_zipIdx_iff_getElem?.1 hp
  · intro h; exact ⟨(m.2, m.1), List.mem_zipIdx_iff_getElem?.2 h, rfl⟩

theorem sortedMapping_perm (cp : List Int) : (sortedMapping cp).Perm (enumerate cp) :=
  List.mergeSort_perm _ _

theorem sortedMapping_snd (cp : List Int) (M : Nat) (h : ValidPerm 0 M cp) :
    (sortedMapping cp).map Prod.snd = iota 0 M := by
  have hp : ((sortedMapping cp).map Prod.snd).Perm (iota 0 M) := by
    have := (sortedMapping_perm cp).map Prod.snd
    rw [enumerate_map_snd] at this
    exact this.trans h
  have hs : ((sortedMapping cp).map Prod.snd).Pairwise (· ≤ ·) := by
    rw [List.pairwise_map]
    have := List.pairwise_mergeSort (le := fun (a b : Nat × Int) => decide (a.2 ≤ b.2))
      (by intro a b c; simp only [decide_eq_true_eq]; omega)
      (by intro a b; simp only [Bool.or_eq_true, decide_eq_true_eq]; omega) (enumerate cp)
    exact this.imp (by intro a b h; simpa using h)
  exact List.Perm.eq_of_pairwise (le := (· ≤ ·)) (by intro a b _ _ h1 h2; omega) hs
    ((iota_pairwise_lt 0 M).imp (by intro a b h; omega)) hp

theorem sortedMapping_length (cp : List Int) (M : Nat) (h : ValidPerm 0 M cp) :
    (sortedMapping cp).length = M := by
  have := congrArg List.length (sortedMapping_snd cp M h)
  simpa [iota_length] using this

theorem sortedMapping_getElem_snd (cp : List Int) (M : Nat) (h : ValidPerm 0 M cp) (j : Nat)
    (hj : j < (sortedMapping cp).length) : (sortedMapping cp)[j].2 = (j : Int) := by
  have hM := sortedMapping_length cp M h
  have h1 : ((sortedMapping cp).map Prod.snd)[j]? = (iota 0 M)[j]? := by rw [sortedMapping_snd cp M h]
  have h2 := iota_getD 0 M j (by omega)
  rw [List.getD_eq_getElem?_getD, ← h1] at h2
  simpa [List.getElem?_eq_getElem hj] using h2

theorem sortedMapping_fst_lt (cp : List Int) (M : Nat) (h : ValidPerm 0 M cp) :
    ∀ m ∈ sortedMapping cp, m.1 < M := by
  intro m hm
  have := (sortedMapping_perm cp).mem_iff.1 hm
  rw [mem_enumerate] at this
  have hl : cp.length = M := by rw [h.length_eq, iota_length]
  have := (List.getElem?_eq_some_iff.1 this).1
  omega

theorem sortedMapping_fst_perm (cp : List Int) (M : Nat) (h : ValidPerm 0 M cp) :
    ((sortedMapping cp).map Prod.fst).Perm (List.range M) := by
  have := (sortedMapping_perm cp).map Prod.fst
  rw [enumerate_map_fst] at this
  have hl : cp.length = M := by rw [h.length_eq, iota_length]
  rwa [hl] at this

/-! ### `σ` is a signed permutation of the literals over `1..N` -/

/-- a literal of a variable in `1..N` -/
def LitIn (N : Nat) (l : Int) : Prop := l ≠ 0 ∧ l.natAbs ≤ N

theorem sigma_neg (fl vp : List Int) (l : Int) : sigma fl vp (-l) = -sigma fl vp l := by
  simp [sigma, Int.sign_neg, Int.natAbs_neg, Int.neg_mul]

theorem sigma_pos (fl vp : List Int) (l : Int) (h : 0 < l) :
    sigma fl vp l = fl.getD (l.natAbs - 1) 0 * vp.getD (l.natAbs - 1) 0 := by
  simp [sigma, Int.sign_eq_one_of_pos h]

theorem sigma_of_neg (fl vp : List Int) (l : Int) (h : l < 0) :
    sigma fl vp l = -(fl.getD (l.natAbs - 1) 0 * vp.getD (l.natAbs - 1) 0) := by
  simp [sigma, Int.sign_eq_neg_one_of_neg h]

theorem ValidPerm.length_eq {base : Int} {n : Nat} {p : List Int} (h : ValidPerm base n p) :
    p.length = n := by rw [List.Perm.length_eq h, iota_length]

theorem ValidPerm.mem_iff {base : Int} {n : Nat} {p : List Int} (h : ValidPerm base n p) {x : Int} :
    x ∈ p ↔ base ≤ x ∧ x < base + n := by rw [List.Perm.mem_iff h, mem_iota]

theorem ValidPerm.nodup {base : Int} {n : Nat} {p : List Int} (h : ValidPerm base n p) : p.Nodup :=
  (List.Perm.nodup_iff h).2 (iota_nodup base n)

theorem getD_flip {N : Nat} {fl : List Int} (h : ValidFlips N fl) (i : Nat) (hi : i < N) :
    fl.getD i 0 = 1 ∨ fl.getD i 0 = -1 := by
  have hl : i < fl.length := by rw [h.1]; exact hi
  rw [List.getD_eq_getElem?_getD, List.getElem?_eq_getElem hl]
  exact h.2 _ (List.getElem_mem hl)

theorem getD_perm {N : Nat} {vp : List Int} (h : ValidPerm 1 N vp) (i : Nat) (hi : i < N) :
    1 ≤ vp.getD i 0 ∧ vp.getD i 0 ≤ N := by
  have hl : i < vp.length := by rw [h.length_eq]; exact hi
  rw [List.getD_eq_getElem?_getD, List.getElem?_eq_getElem hl]
  have := h.mem_iff.1 (List.getElem_mem hl)
  simp only [Option.getD_some]; omega

/-- `σ` maps literals over `1..N` to literals over `1..N` -/
theorem sigma_litIn {N : Nat} {fl vp : List Int} (hf : ValidFlips N fl) (hv : ValidPerm 1 N vp)
    {l : Int} (hl : LitIn N l) : LitIn N (sigma fl vp l) := by
  obtain ⟨h0, hN⟩ := hl
  have hi : l.natAbs - 1 < N := by omega
  have h1 := getD_flip hf _ hi
  have h2 := getD_perm hv _ hi
  unfold LitIn
  rcases Int.lt_or_gt_of_ne h0 with hneg | hpos
  · rw [sigma_of_neg fl vp l hneg]
    rcases h1 with h1 | h1 <;> rw [h1] <;> constructor <;> omega
  · rw [sigma_pos fl vp l hpos]
    rcases h1 with h1 | h1 <;> rw [h1] <;> constructor <;> omega

/-- the inverse literal map: look the variable up in `vperm`, undo the flip of that position -/
def sigmaInv (fl vp : List Int) (m : Int) : Int :=
  m.sign * (fl.getD (vp.idxOf (m.natAbs : Int)) 0 * ((vp.idxOf (m.natAbs : Int) : Int) + 1))

theorem sigmaInv_neg (fl vp : List Int) (m : Int) : sigmaInv fl vp (-m) = -sigmaInv fl vp m := by
  simp [sigmaInv, Int.sign_neg, Int.natAbs_neg, Int.neg_mul]

theorem idxOf_lt {N : Nat} {vp : List Int} (hv : ValidPerm 1 N vp) {m : Int} (hm : LitIn N m) :
    vp.idxOf (m.natAbs : Int) < N := by
  have : (m.natAbs : Int) ∈ vp := hv.mem_iff.2 (by have := hm.1; have := hm.2; omega)
  have := List.idxOf_lt_length_of_mem this
  rwa [hv.length_eq] at this

theorem getD_idxOf {N : Nat} {vp : List Int} (hv : ValidPerm 1 N vp) {m : Int} (hm : LitIn N m) :
    vp.getD (vp.idxOf (m.natAbs : Int)) 0 = (m.natAbs : Int) := by
  have hmem : (m.natAbs : Int) ∈ vp := hv.mem_iff.2 (by have := hm.1; have := hm.2; omega)
  have hlt := List.idxOf_lt_length_of_mem hmem
  rw [List.getD_eq_getElem?_getD, List.getElem?_eq_getElem hlt]
  simp [List.getElem_idxOf]

theorem sigmaInv_litIn {N : Nat} {fl vp : List Int} (hf : ValidFlips N fl) (hv : ValidPerm 1 N vp)
    {m : Int} (hm : LitIn N m) : LitIn N (sigmaInv fl vp m) := by
  have hi := idxOf_lt hv hm
  have h1 := getD_flip hf _ hi
  obtain ⟨h0, _⟩ := hm
  unfold LitIn sigmaInv
  rcases Int.lt_or_gt_of_ne h0 with hneg | hpos
  · rw [Int.sign_eq_neg_one_of_neg hneg]
    rcases h1 with h1 | h1 <;> rw [h1] <;> constructor <;> omega
  · rw [Int.sign_eq_one_of_pos hpos]
    rcases h1 with h1 | h1 <;> rw [h1] <;> constructor <;> omega

/-- right inverse: `σ (σ⁻¹ m) = m` on the literals over `1..N` -/
theorem sigma_sigmaInv {N : Nat} {fl vp : List Int} (hf : ValidFlips N fl) (hv : ValidPerm 1 N vp)
    {m : Int} (hm : LitIn N m) : sigma fl vp (sigmaInv fl vp m) = m := by
  have hi := idxOf_lt hv hm
  have h1 := getD_flip hf _ hi
  have h2 := getD_idxOf hv hm
  obtain ⟨h0, _⟩ := hm
  generalize hidx : vp.idxOf (m.natAbs : Int) = i at hi h1 h2
  have key : ∀ x : Int, x.natAbs - 1 = i → 0 < x → sigma fl vp x = fl.getD i 0 * (m.natAbs : Int) := by
    intro x hx hp; rw [sigma_pos fl vp x hp, hx, h2]
  have key' : ∀ x : Int, x.natAbs - 1 = i → x < 0 → sigma fl vp x = -(fl.getD i 0 * (m.natAbs : Int)) := by
    intro x hx hp; rw [sigma_of_neg fl vp x hp, hx, h2]
  unfold sigmaInv
  rw [hidx]
  rcases Int.lt_or_gt_of_ne h0 with hneg | hpos
  · rw [Int.sign_eq_neg_one_of_neg hneg]
    rcases h1 with h1 | h1 <;> rw [h1]
    · rw [key' _ (by omega) (by omega), h1]; omega
    · rw [key _ (by omega) (by omega), h1]; omega
  · rw [Int.sign_eq_one_of_pos hpos]
    rcases h1 with h1 | h1 <;> rw [h1]
    · rw [key _ (by omega) (by omega), h1]; omega
    · rw [key' _ (by omega) (by omega), h1]; omega

/-- left inverse: `σ⁻¹ (σ l) = l` on the literals over `1..N` -/
theorem sigmaInv_sigma {N : Nat} {fl vp : List Int} (hf : ValidFlips N fl) (hv : ValidPerm 1 N vp)
    {l : Int} (hl : LitIn N l) : sigmaInv fl vp (sigma fl vp l) = l := by
  obtain ⟨h0, hN⟩ := hl
  have hi : l.natAbs - 1 < N := by omega
  have h1 := getD_flip hf _ hi
  have h2 := getD_perm hv _ hi
  have hlen : l.natAbs - 1 < vp.length := by rw [hv.length_eq]; exact hi
  have hidx : vp.idxOf (vp.getD (l.natAbs - 1) 0) = l.natAbs - 1 := by
    rw [List.getD_eq_getElem?_getD, List.getElem?_eq_getElem hlen]
    exact hv.nodup.idxOf_getElem _ hlen
  generalize hv' : vp.getD (l.natAbs - 1) 0 = v at h2 hidx
  generalize hf' : fl.getD (l.natAbs - 1) 0 = f at h1
  have key : ∀ x : Int, (x.natAbs : Int) = v →
      sigmaInv fl vp x = x.sign * (f * (((l.natAbs - 1 : Nat) : Int) + 1)) := by
    intro x hx; unfold sigmaInv; rw [hx, hidx, hf']
  rcases Int.lt_or_gt_of_ne h0 with hneg | hpos
  · rw [sigma_of_neg fl vp l hneg, hf', hv']
    rcases h1 with h1 | h1 <;> subst h1
    · rw [key _ (by omega), Int.sign_eq_neg_one_of_neg (by omega)]; omega
    · rw [key _ (by omega), Int.sign_eq_one_of_pos (by omega)]; omega
  · rw [sigma_pos fl vp l hpos, hf', hv']
    rcases h1 with h1 | h1 <;> subst h1
    · rw [key _ (by omega), Int.sign_eq_one_of_pos (by omega)]; omega
    · rw [key _ (by omega), Int.sign_eq_neg_one_of_neg (by omega)]; omega

theorem sigma_injective {N : Nat} {fl vp : List Int} (hf : ValidFlips N fl) (hv : ValidPerm 1 N vp)
    {l l' : Int} (hl : LitIn N l) (hl' : LitIn N l') (h : sigma fl vp l = sigma fl vp l') : l = l' := by
  rw [← sigmaInv_sigma hf hv hl, ← sigmaInv_sigma hf hv hl', h]

/-! ### semantics: assignments are pulled back along `σ` -/

/-- `pull α` gives variable `v` the value that `α` gives to the literal `σ(v)` -/
def pull (fl vp : List Int) (α : Assign) : Assign := fun v => litHolds α (sigma fl vp (v : Int))

/-- `push β` gives variable `w` the value that `β` gives to the literal `σ⁻¹(w)` -/
def push (fl vp : List Int) (β : Assign) : Assign := fun w => litHolds β (sigmaInv fl vp (w : Int))

theorem litHolds_of_odd (g : Int → Int) (hneg : ∀ x, g (-x) = -g x) (α : Assign) (l : Int)
    (h0 : l ≠ 0) (hg : g (l.natAbs : Int) ≠ 0) :
    litHolds α (g l) = litHolds (fun v => litHolds α (g (v : Int))) l := by
  rcases Int.lt_or_gt_of_ne h0 with hn | hp
  · have e : l = -((l.natAbs : Nat) : Int) := by omega
    have hl : litHolds (fun v => litHolds α (g (v : Int))) l = !litHolds α (g (l.natAbs : Int)) := by
      have : ¬ (0 < l) := by omega
      simp [litHolds, this]
    rw [hl]
    conv => lhs; rw [e, hneg]
    exact litHolds_neg α _ hg
  · have e : l = ((l.natAbs : Nat) : Int) := by omega
    have hl : litHolds (fun v => litHolds α (g (v : Int))) l = litHolds α (g (l.natAbs : Int)) := by
      simp [litHolds, hp]
    rw [hl]
    conv => lhs; rw [e]

theorem natAbs_litIn {N : Nat} {l : Int} (h : LitIn N l) : LitIn N (l.natAbs : Int) := by
  unfold LitIn at *; omega

theorem litHolds_sigma {N : Nat} {fl vp : List Int} (hf : ValidFlips N fl) (hv : ValidPerm 1 N vp)
    (α : Assign) {l : Int} (hl : LitIn N l) :
    litHolds α (sigma fl vp l) = litHolds (pull fl vp α) l :=
  litHolds_of_odd (sigma fl vp) (sigma_neg fl vp) α l hl.1 (sigma_litIn hf hv (natAbs_litIn hl)).1

theorem litHolds_sigmaInv {N : Nat} {fl vp : List Int} (hf : ValidFlips N fl) (hv : ValidPerm 1 N vp)
    (β : Assign) {m : Int} (hm : LitIn N m) :
    litHolds β (sigmaInv fl vp m) = litHolds (push fl vp β) m :=
  litHolds_of_odd (sigmaInv fl vp) (sigmaInv_neg fl vp) β m hm.1 (sigmaInv_litIn hf hv (natAbs_litIn hm)).1

theorem litHolds_natCast (α : Assign) (v : Nat) (h : 1 ≤ v) : litHolds α (v : Int) = α v := by
  simp [litHolds]; omega

theorem pull_push {N : Nat} {fl vp : List Int} (hf : ValidFlips N fl) (hv : ValidPerm 1 N vp)
    (β : Assign) (v : Nat) (h1 : 1 ≤ v) (h2 : v ≤ N) : pull fl vp (push fl vp β) v = β v := by
  have hl : LitIn N (v : Int) := by unfold LitIn; omega
  unfold pull
  rw [← litHolds_sigmaInv hf hv β (sigma_litIn hf hv hl), sigmaInv_sigma hf hv hl]
  exact litHolds_natCast β v h1

theorem push_pull {N : Nat} {fl vp : List Int} (hf : ValidFlips N fl) (hv : ValidPerm 1 N vp)
    (α : Assign) (w : Nat) (h1 : 1 ≤ w) (h2 : w ≤ N) : push fl vp (pull fl vp α) w = α w := by
  have hl : LitIn N (w : Int) := by unfold LitIn; omega
  unfold push
  rw [← litHolds_sigma hf hv α (sigmaInv_litIn hf hv hl), sigma_sigmaInv hf hv hl]
  exact litHolds_natCast α w h1

theorem clauseHolds_map_sigma {N : Nat} {fl vp : List Int} (hf : ValidFlips N fl)
    (hv : ValidPerm 1 N vp) (α : Assign) (c : Clause) (hc : ∀ l ∈ c, LitIn N l) :
    clauseHolds α (c.map (sigma fl vp)) = clauseHolds (pull fl vp α) c := by
  induction c with
  | nil => rfl
  | cons x xs ih =>
    rw [List.map_cons, clauseHolds_cons, clauseHolds_cons, litHolds_sigma hf hv α (hc x (by simp)),
      ih (fun l hl => hc l (by simp [hl]))]

/-! ### the whole call on explicit arguments -/

/-- clause list of the result: the sorted mapping read off position by position -/
def resultClauses (F : CNF) (fl vp : List Int) (S : List (Nat × Int)) : List Clause :=
  S.map (fun m => (F.clauses.getD m.1 []).map (sigma fl vp))

theorem core_ok (F : CNF) (hwf : F.WF) (fl vp : List Int) (hf : ValidFlips F.nvars fl)
    (hv : ValidPerm 1 F.nvars vp) (S : List (Nat × Int))
    (hidx : ∀ j (h : j < S.length), S[j].2 = (j : Int)) (hlt : ∀ m ∈ S, m.1 < F.clauses.length) :
    core F fl vp S = .ok ⟨F.nvars, resultClauses F fl vp S⟩ := by
  unfold core substTable
  have h1 : ¬ (fl.length < F.nvars ∨ vp.length < F.nvars) := by rw [hf.1, hv.length_eq]; omega
  have htake : (List.zipWith (· * ·) fl vp).take F.nvars = List.zipWith (· * ·) fl vp := by
    apply List.take_of_length_le; simp [hf.1, hv.length_eq]
  simp only [h1, ↓reduceIte, htake]
  have := foldE_load F
    (none :: ((List.zipWith (· * ·) fl vp).map some ++
      (List.zipWith (· * ·) fl vp).reverse.map (fun x => some (-x)))) (sigma fl vp) F.nvars
    (by
      intro c hc l hl
      have hl' : LitIn F.nvars l := hwf c hc l hl
      have hs := sigma_litIn hf hv hl'
      exact ⟨pyIndex_table fl vp F.nvars hf.1 hv.length_eq l hl'.1 hl'.2, hs.1, hs.2⟩)
    S ⟨F.nvars, []⟩ rfl (by intro j h; simp [hidx j h]) hlt
  simpa [resultClauses] using this

theorem shuffle_ok (F : CNF) (hwf : F.WF) (fl vp cp : List Int) (h : Valid F fl vp cp) :
    shuffle F fl vp cp = .ok ⟨F.nvars, resultClauses F fl vp (sortedMapping cp)⟩ := by
  obtain ⟨hf, hv, hc⟩ := h
  unfold shuffle
  rw [(checkFlips_ok_iff _ _).2 hf, (checkPerm_ok_iff _ _ _).2 hv, (checkPerm_ok_iff _ _ _).2 hc]
  exact core_ok F hwf fl vp hf hv _ (sortedMapping_getElem_snd cp _ hc) (sortedMapping_fst_lt cp _ hc)

theorem shuffle_invalid (F : CNF) (fl vp cp : List Int) (h : ¬ Valid F fl vp cp) :
    shuffle F fl vp cp = .error .valueError := by
  unfold shuffle
  rcases checkFlips_cases F.nvars fl with h1 | h1 <;> rw [h1]
  rcases checkPerm_cases 1 F.nvars vp with h2 | h2 <;> rw [h2]
  rcases checkPerm_cases 0 F.clauses.length cp with h3 | h3 <;> rw [h3]
  exact absurd ⟨(checkFlips_ok_iff _ _).1 h1, (checkPerm_ok_iff _ _ _).1 h2, (checkPerm_ok_iff _ _ _).1 h3⟩ h

/-! ### shape of the result -/

theorem resultClauses_length (F : CNF) (fl vp cp : List Int) (hc : ValidPerm 0 F.clauses.length cp) :
    (resultClauses F fl vp (sortedMapping cp)).length = F.clauses.length := by
  simp [resultClauses, sortedMapping_length cp _ hc]

/-- clause `i` of the input lands at position `cp[i]`, mapped literal by literal, order kept -/
theorem resultClauses_at (F : CNF) (fl vp cp : List Int) (hc : ValidPerm 0 F.clauses.length cp)
    (i : Nat) (hi : i < F.clauses.length) :
    ∃ j : Nat, cp[i]? = some (j : Int) ∧ j < F.clauses.length ∧
      (resultClauses F fl vp (sortedMapping cp))[j]? = some (F.clauses[i].map (sigma fl vp)) := by
  have hlen : cp.length = F.clauses.length := hc.length_eq
  have hicp : i < cp.length := by omega
  have hmem : (i, cp[i]) ∈ sortedMapping cp := by
    rw [(sortedMapping_perm cp).mem_iff, mem_enumerate]; simp [hicp]
  obtain ⟨j, hj, hjeq⟩ := List.getElem_of_mem hmem
  have hsnd := sortedMapping_getElem_snd cp _ hc j hj
  rw [hjeq] at hsnd
  have hjM : j < F.clauses.length := by rw [← sortedMapping_length cp _ hc]; exact hj
  refine ⟨j, ?_, hjM, ?_⟩
  · rw [List.getElem?_eq_getElem hicp]; simpa using hsnd
  · simp [resultClauses, List.getElem?_map, List.getElem?_eq_getElem hj, hjeq,
      List.getD_eq_getElem?_getD, List.getElem?_eq_getElem hi]

/-- the result is the literal-wise image of the input, up to the order of the clauses -/
theorem resultClauses_perm (F : CNF) (fl vp cp : List Int) (hc : ValidPerm 0 F.clauses.length cp) :
    (resultClauses F fl vp (sortedMapping cp)).Perm (F.clauses.map (fun c => c.map (sigma fl vp))) := by
  have h1 : resultClauses F fl vp (sortedMapping cp) =
      ((sortedMapping cp).map Prod.fst).map (fun i => (F.clauses.getD i []).map (sigma fl vp)) := by
    simp [resultClauses, List.map_map, Function.comp_def]
  have h2 : (List.range F.clauses.length).map (fun i => (F.clauses.getD i []).map (sigma fl vp)) =
      F.clauses.map (fun c => c.map (sigma fl vp)) := by
    apply List.ext_getElem
    · simp
    · intro i h1 h2
      have : i < F.clauses.length := by simpa using h1
      simp [List.getD_eq_getElem?_getD, List.getElem?_eq_getElem this]
  rw [h1, ← h2]
  exact (sortedMapping_fst_perm cp _ hc).map _

theorem resultClauses_widths (F : CNF) (fl vp cp : List Int) (hc : ValidPerm 0 F.clauses.length cp) :
    ((resultClauses F fl vp (sortedMapping cp)).map List.length).Perm (F.clauses.map List.length) := by
  have := (resultClauses_perm F fl vp cp hc).map List.length
  simpa [List.map_map, Function.comp_def] using this

theorem holds_of_perm (α : Assign) (n m : Nat) (cs ds : List Clause) (h : cs.Perm ds) :
    CNF.holds α ⟨n, cs⟩ = CNF.holds α ⟨m, ds⟩ := by
  unfold CNF.holds
  rw [Bool.eq_iff_iff]
  simp only [List.all_eq_true]
  exact ⟨fun hh c hc => hh c (h.mem_iff.2 hc), fun hh c hc => hh c (h.mem_iff.1 hc)⟩

/-- `G.holds α ↔ F.holds (pull α)` -/
theorem result_holds (F : CNF) (hwf : F.WF) (fl vp cp : List Int) (h : Valid F fl vp cp) (α : Assign) :
    CNF.holds α ⟨F.nvars, resultClauses F fl vp (sortedMapping cp)⟩ = F.holds (pull fl vp α) := by
  obtain ⟨hf, hv, hc⟩ := h
  rw [holds_of_perm α F.nvars F.nvars _ _ (resultClauses_perm F fl vp cp hc)]
  unfold CNF.holds
  rw [Bool.eq_iff_iff]
  simp only [List.all_eq_true, List.mem_map, forall_exists_index, and_imp, forall_apply_eq_imp_iff₂]
  constructor
  · intro hh c hc'; rw [← clauseHolds_map_sigma hf hv α c (hwf c hc')]; exact hh c hc'
  · intro hh c hc'; rw [clauseHolds_map_sigma hf hv α c (hwf c hc')]; exact hh c hc'

/-- the result is well formed again -/
theorem result_wf (F : CNF) (hwf : F.WF) (fl vp cp : List Int) (h : Valid F fl vp cp) :
    CNF.WF ⟨F.nvars, resultClauses F fl vp (sortedMapping cp)⟩ := by
  obtain ⟨hf, hv, hc⟩ := h
  intro c hcm l hl
  have hcm' := (resultClauses_perm F fl vp cp hc).mem_iff.1 hcm
  simp only [List.mem_map] at hcm'
  obtain ⟨c0, hc0, rfl⟩ := hcm'
  simp only [List.mem_map] at hl
  obtain ⟨l0, hl0, rfl⟩ := hl
  exact sigma_litIn hf hv (hwf c0 hc0 l0 hl0)

/-! ### `'fixed'`, `'shuffle'` and the draws -/

/-- `ds` is what the first block of `Shuffle` draws for the argument, and `fl` the flips it ends up with.
For `'shuffle'` the only thing assumed about `random.choice([-1,1])` is that it returns `-1` or `1`. -/
def FlipsFrom (N : Nat) : Arg → List Draw → List Int → Prop
  | .fixed, ds, fl => ds = [] ∧ fl = List.replicate N 1
  | .shuffle, ds, fl => ds = fl.map Draw.choice ∧ ValidFlips N fl
  | .explicit l, ds, fl => ds = [] ∧ fl = l

/-- the same for a permutation block; for `'shuffle'` the only thing assumed about `random.shuffle`
is that it permutes its list. -/
def PermFrom (base : Int) (n : Nat) : Arg → List Draw → List Int → Prop
  | .fixed, ds, p => ds = [] ∧ p = iota base n
  | .shuffle, ds, p => ds = [Draw.shuffled p] ∧ ValidPerm base n p
  | .explicit l, ds, p => ds = [] ∧ p = l

/-- the draw stream `ds` is legal for the call `Shuffle(F, pa, va, ca)` and resolves the three arguments
to `fl`, `vp`, `cp` -/
def Resolves (F : CNF) (pa va ca : Arg) (ds : List Draw) (fl vp cp : List Int) : Prop :=
  ∃ d1 d2 d3, ds = d1 ++ (d2 ++ d3) ∧ FlipsFrom F.nvars pa d1 fl ∧
    PermFrom 1 F.nvars va d2 vp ∧ PermFrom 0 F.clauses.length ca d3 cp

theorem takeChoices_map (fl : List Int) (r : List Draw) :
    takeChoices fl.length (fl.map Draw.choice ++ r) = some (fl, r) := by
  induction fl with
  | nil => rfl
  | cons x xs ih => simp [takeChoices, ih]

theorem validFlips_replicate (N : Nat) : ValidFlips N (List.replicate N 1) := by
  refine ⟨by simp, ?_⟩
  intro x hx; left; exact (List.mem_replicate.1 hx).2

theorem validPerm_iota (base : Int) (n : Nat) : ValidPerm base n (iota base n) := List.Perm.refl _

theorem iota1_eq (N : Nat) : iota1 N = iota 1 N := rfl
theorem iota0_eq (M : Nat) : iota0 M = iota 0 M := by simp [iota0, iota]

/-- the `'fixed'` clause mapping `((i,i) for i in range(M))` is the sorted mapping of the identity -/
theorem sortedMapping_iota (M : Nat) :
    sortedMapping (iota 0 M) = (List.range M).map (fun (i : Nat) => (i, (i : Int))) := by
  have he : enumerate (iota 0 M) = (List.range M).map (fun (i : Nat) => (i, (i : Int))) := by
    apply List.ext_getElem
    · simp [enumerate, iota]
    · intro i h1 h2
      simp [enumerate, iota]
  unfold sortedMapping
  rw [he]
  apply List.mergeSort_of_pairwise
  rw [List.pairwise_map]
  exact (List.pairwise_le_range (n := M)).imp (by intro a b h; simp; omega)

theorem resolveFlips_from (N : Nat) (pa : Arg) (d r : List Draw) (fl : List Int)
    (h : FlipsFrom N pa d fl) :
    resolveFlips N pa (d ++ r) =
      some (match checkFlips N fl with | .ok _ => .ok fl | .error e => .error e, r) := by
  cases pa with
  | fixed =>
    obtain ⟨rfl, rfl⟩ := h
    simp [resolveFlips, (checkFlips_ok_iff _ _).2 (validFlips_replicate N)]
  | shuffle =>
    obtain ⟨rfl, hv⟩ := h
    have := takeChoices_map fl r
    rw [hv.1] at this
    simp [resolveFlips, this, (checkFlips_ok_iff _ _).2 hv]
  | explicit l =>
    obtain ⟨rfl, rfl⟩ := h
    simp only [resolveFlips, List.nil_append]
    cases checkFlips N fl <;> rfl

theorem resolveVperm_from (N : Nat) (va : Arg) (d r : List Draw) (vp : List Int)
    (h : PermFrom 1 N va d vp) :
    resolveVperm N va (d ++ r) =
      some (match checkPerm 1 N vp with | .ok _ => .ok vp | .error e => .error e, r) := by
  cases va with
  | fixed =>
    obtain ⟨rfl, rfl⟩ := h
    simp [resolveVperm, iota1_eq, (checkPerm_ok_iff _ _ _).2 (validPerm_iota 1 N)]
  | shuffle =>
    obtain ⟨rfl, hv⟩ := h
    simp [resolveVperm, takeShuffled, (checkPerm_ok_iff _ _ _).2 hv]
  | explicit l =>
    obtain ⟨rfl, rfl⟩ := h
    simp only [resolveVperm, List.nil_append]
    cases checkPerm 1 N vp <;> rfl

theorem resolveCperm_from (M : Nat) (ca : Arg) (d r : List Draw) (cp : List Int)
    (h : PermFrom 0 M ca d cp) :
    resolveCperm M ca (d ++ r) =
      some (match checkPerm 0 M cp with | .ok _ => .ok (sortedMapping cp) | .error e => .error e, r) := by
  cases ca with
  | fixed =>
    obtain ⟨rfl, rfl⟩ := h
    simp [resolveCperm, sortedMapping_iota, (checkPerm_ok_iff _ _ _).2 (validPerm_iota 0 M)]
  | shuffle =>
    obtain ⟨rfl, hv⟩ := h
    simp [resolveCperm, takeShuffled, (checkPerm_ok_iff _ _ _).2 hv]
  | explicit l =>
    obtain ⟨rfl, rfl⟩ := h
    simp only [resolveCperm, List.nil_append]
    cases checkPerm 0 M cp <;> rfl

/-- the general call equals the explicit call on the resolved arguments -/
theorem run_fst (F : CNF) (pa va ca : Arg) (ds : List Draw) (fl vp cp : List Int)
    (h : Resolves F pa va ca ds fl vp cp) :
    (run F pa va ca ds).map Prod.fst = some (shuffle F fl vp cp) := by
  obtain ⟨d1, d2, d3, rfl, h1, h2, h3⟩ := h
  unfold run shuffle
  rw [resolveFlips_from _ _ _ _ _ h1]
  cases checkFlips F.nvars fl with
  | error e => rfl
  | ok _ =>
    simp only []
    rw [resolveVperm_from _ _ _ _ _ h2]
    cases checkPerm 1 F.nvars vp with
    | error e => rfl
    | ok _ =>
      simp only []
      have := resolveCperm_from _ _ _ [] _ h3
      rw [List.append_nil] at this
      rw [this]
      cases checkPerm 0 F.clauses.length cp with
      | error e => rfl
      | ok _ => rfl

/-- … and when the resolved arguments are valid, every draw has been consumed -/
theorem run_valid (F : CNF) (pa va ca : Arg) (ds : List Draw) (fl vp cp : List Int)
    (h : Resolves F pa va ca ds fl vp cp) (hV : Valid F fl vp cp) :
    run F pa va ca ds = some (shuffle F fl vp cp, []) := by
  obtain ⟨d1, d2, d3, rfl, h1, h2, h3⟩ := h
  obtain ⟨hf, hv, hc⟩ := hV
  unfold run shuffle
  rw [resolveFlips_from _ _ _ _ _ h1, (checkFlips_ok_iff _ _).2 hf]
  simp only []
  rw [resolveVperm_from _ _ _ _ _ h2, (checkPerm_ok_iff _ _ _).2 hv]
  simp only []
  have := resolveCperm_from _ _ _ [] _ h3
  rw [List.append_nil] at this
  rw [this, (checkPerm_ok_iff _ _ _).2 hc]

/-! ### header -/

theorem tkey_injective {i j : Nat} (h : tkey i = tkey j) : i = j := by
  unfold tkey at h
  exact Nat.repr_injective ((String.append_right_inj _).1 h)

theorem hasKey_iff (h : Header) (k : String) : hasKey h k = true ↔ k ∈ h.map Prod.fst := by
  simp only [hasKey, List.any_eq_true, beq_iff_eq, List.mem_map]

theorem firstFreeFrom_spec (h : Header) : ∀ fuel i,
    i ≤ firstFreeFrom h fuel i ∧ firstFreeFrom h fuel i ≤ i + fuel ∧
    (∀ j, i ≤ j → j < firstFreeFrom h fuel i → hasKey h (tkey j) = true) ∧
    (firstFreeFrom h fuel i < i + fuel → hasKey h (tkey (firstFreeFrom h fuel i)) = false) := by
  intro fuel
  induction fuel with
  | zero => intro i; simp [firstFreeFrom]; intro j h1 h2; omega
  | succ f ih =>
    intro i
    unfold firstFreeFrom
    by_cases hk : hasKey h (tkey i) = true
    · simp only [hk, ↓reduceIte]
      obtain ⟨a, b, c, d⟩ := ih (i + 1)
      refine ⟨by omega, by omega, ?_, fun hlt => d (by omega)⟩
      intro j h1 h2
      by_cases hj : j = i
      · subst hj; exact hk
      · exact c j (by omega) h2
    · simp only [hk, Bool.false_eq_true, ↓reduceIte]
      refine ⟨by omega, by omega, fun j h1 h2 => by omega, fun _ => by simp⟩

/-- the index chosen by the `while` loop is free, and it is the first free one -/
theorem firstFree_spec (h : Header) :
    1 ≤ firstFree h ∧ hasKey h (tkey (firstFree h)) = false ∧
    ∀ j, 1 ≤ j → j < firstFree h → hasKey h (tkey j) = true := by
  obtain ⟨a, b, c, d⟩ := firstFreeFrom_spec h (h.length + 1) 1
  refine ⟨a, ?_, c⟩
  apply d
  apply Decidable.byContradiction
  intro hge
  have hr : firstFreeFrom h (h.length + 1) 1 = h.length + 2 := by omega
  -- pigeonhole: the keys `tkey 1 … tkey (n+1)` are distinct and all in a header with `n` entries
  have hsub : (List.range (h.length + 1)).map (fun j => tkey (j + 1)) ⊆ h.map Prod.fst := by
    intro k hk
    simp only [List.mem_map, List.mem_range] at hk
    obtain ⟨j, hj, rfl⟩ := hk
    exact (hasKey_iff h _).1 (c (j + 1) (by omega) (by omega))
  have hnd : ((List.range (h.length + 1)).map (fun j => tkey (j + 1))).Nodup := by
    unfold List.Nodup
    rw [List.pairwise_map]
    exact (List.pairwise_lt_range (n := h.length + 1)).imp
      (by intro x y hxy heq; have := tkey_injective heq; omega)
  have := hnd.length_le_of_subset hsub
  simp only [List.length_map, List.length_range] at this
  omega

theorem hasKey_suffix (h : Header) (k : String) :
    hasKey (h.map (fun p => if p.1 == "description" then (p.1, p.2 ++ " (reshuffled)") else p)) k =
      hasKey h k := by
  unfold hasKey
  rw [List.any_map]
  apply List.any_congr rfl
  intro p
  by_cases hp : p.1 = "description" <;> simp [hp]

end Cnfgen.Shuffle
