/-
Lemmas for C15: `bipartite_random_regular`.  The arrays `A`, `B` stay rearrangements of the
initial multisets; after iteration `i` the stored edges are exactly `A[0..i) × B[0..i)` position by
position.  Hence, when the loop ends, the left degree of `u` is the multiplicity of `u` in `A`.
No Mathlib.
-/
import Lemmas.GraphBuildSamplers
namespace Cnfgen
namespace GRand

/-! ### swapping two cells -/
theorem getD_eq_getElem' (A : List Nat) (i : Nat) (h : i < A.length) : A.getD i 0 = A[i] := by
  simp [List.getD_eq_getElem?_getD, List.getElem?_eq_getElem h]

theorem length_swapAt (A : List Nat) (i j : Nat) : (swapAt A i j).length = A.length := by
  simp [swapAt]

theorem count_swapAt (A : List Nat) (i j x : Nat) (hi : i < A.length) (hj : j < A.length) :
    (swapAt A i j).count x = A.count x := by
  unfold swapAt
  rw [getD_eq_getElem' A i hi, getD_eq_getElem' A j hj]
  rw [List.count_set (by simpa using hj), List.count_set hi]
  have hci : A[i] = x → 1 ≤ A.count x := fun h => List.one_le_count_iff.2 (h ▸ List.getElem_mem hi)
  have hcj : A[j] = x → 1 ≤ A.count x := fun h => List.one_le_count_iff.2 (h ▸ List.getElem_mem hj)
  by_cases hij : i = j
  · subst hij
    simp only [List.getElem_set_self, beq_iff_eq]
    by_cases h : A[i] = x
    · have := hci h; simp [h]; omega
    · simp [h]
  · rw [List.getElem_set_ne hij]
    simp only [beq_iff_eq]
    by_cases h1 : A[i] = x <;> by_cases h2 : A[j] = x <;> simp [h1, h2]
    · have := hci h1; omega
    · have := hci h1; omega

theorem mem_swapAt (A : List Nat) (i j x : Nat) (hi : i < A.length) (hj : j < A.length)
    (h : x ∈ swapAt A i j) : x ∈ A := by
  rw [← List.count_pos_iff] at h ⊢
  rwa [count_swapAt A i j x hi hj] at h

theorem getElem?_swapAt_left (A : List Nat) (i j : Nat) (hij : i ≤ j) (hj : j < A.length) :
    (swapAt A i j)[i]? = some (A.getD j 0) := by
  unfold swapAt
  simp only [List.getElem?_set, List.length_set]
  by_cases h : j = i
  · subst h; simp [hj]
  · have hi : i < A.length := by omega
    simp [h, hi]

theorem take_swapAt (A : List Nat) (i j : Nat) (hij : i ≤ j) (hj : j < A.length) :
    (swapAt A i j).take (i + 1) = A.take i ++ [A.getD j 0] := by
  rw [List.take_add_one, getElem?_swapAt_left A i j hij hj]
  congr 1
  unfold swapAt
  rw [List.take_set_of_le hij, List.take_set_of_le (Nat.le_refl i)]

/-! ### the initial arrays -/
theorem count_repeatRange (n k x : Nat) :
    (repeatRange n k).count x = if 1 ≤ x ∧ x ≤ n then k else 0 := by
  unfold repeatRange
  rw [List.count_flatten, List.map_replicate, List.sum_replicate_nat, (nodup_rangeN 1 (n + 1)).count]
  simp only [mem_rangeN]
  by_cases h : 1 ≤ x ∧ x ≤ n
  · rw [if_pos h, if_pos (by omega)]; simp
  · rw [if_neg h, if_neg (by omega)]; simp

theorem length_repeatRange (n k : Nat) : (repeatRange n k).length = k * n := by
  unfold repeatRange
  rw [List.length_flatten, List.map_replicate, List.sum_replicate_nat, length_rangeN]
  simp

theorem mem_repeatRange (n k x : Nat) (h : x ∈ repeatRange n k) : 1 ≤ x ∧ x ≤ n := by
  rw [← List.count_pos_iff, count_repeatRange] at h
  by_cases hh : 1 ≤ x ∧ x ≤ n
  · exact hh
  · rw [if_neg hh] at h; omega

/-! ### choosing the pair of one iteration -/
theorem regularRetry_ok (G : BipG) (A B : List Nat) (i hi : Int) (t : Nat) (ds rest : List Draw)
    (ea eb : Nat) (h : regularRetry G A B i hi t ds = .ok (some (ea, eb)) rest) :
    ∃ a b : Int, i ≤ a ∧ a ≤ hi ∧ i ≤ b ∧ b ≤ hi ∧ ea = a.toNat ∧ eb = b.toNat ∧
      G.hasEdge (A.getD ea 0) (B.getD eb 0) = false := by
  induction t generalizing ds with
  | zero => simp [regularRetry] at h
  | succ t ih =>
    simp only [regularRetry] at h
    rw [bind_ok] at h
    obtain ⟨a, mid, ha, h⟩ := h
    rw [bind_ok] at h
    obtain ⟨b, mid2, hb, h⟩ := h
    obtain ⟨ha1, ha2, _⟩ := randint_ok _ _ _ _ _ ha
    obtain ⟨hb1, hb2, _⟩ := randint_ok _ _ _ _ _ hb
    split at h
    · rename_i hfree
      simp only [pure_ok, Option.some.injEq, Prod.mk.injEq] at h
      obtain ⟨⟨rfl, rfl⟩, _⟩ := h
      exact ⟨a, b, ha1, ha2, hb1, hb2, rfl, rfl, by simpa using hfree⟩
    · exact ih mid2 h

theorem regularRetry_exc (G : BipG) (A B : List Nat) (i hi : Int) (t : Nat) (ds : List Draw) (e : Err)
    (hle : i ≤ hi) (h : regularRetry G A B i hi t ds = .exc e) : False := by
  induction t generalizing ds with
  | zero => simp [regularRetry] at h
  | succ t ih =>
    simp only [regularRetry] at h
    rw [bind_exc] at h
    rcases h with h | ⟨a, mid, _, h⟩
    · have := (randint_exc _ _ _ _ h).2; omega
    · rw [bind_exc] at h
      rcases h with h | ⟨b, mid2, _, h⟩
      · have := (randint_exc _ _ _ _ h).2; omega
      · split at h
        · exact pure_ne_exc _ _ _ h
        · exact ih mid2 h

theorem regularRetry_noForeign (G : BipG) (A B : List Nat) (i hi : Int) (t : Nat) :
    NoForeign (regularRetry G A B i hi t) := by
  induction t with
  | zero => exact NoForeign.pure _
  | succ t ih =>
    simp only [regularRetry]
    exact NoForeign.bind (NoForeign.randint _ _) (fun a => NoForeign.bind (NoForeign.randint _ _)
      (fun b => NoForeign.ite (NoForeign.pure _) ih))

theorem firstFreePair_some (G : BipG) (A B : List Nat) (i N ea eb : Nat)
    (h : firstFreePair G A B i N = some (ea, eb)) :
    i ≤ ea ∧ ea < N ∧ i ≤ eb ∧ eb < N ∧ G.hasEdge (A.getD ea 0) (B.getD eb 0) = false := by
  unfold firstFreePair at h
  obtain ⟨a, ha, h⟩ := List.exists_of_findSome?_eq_some h
  obtain ⟨b, hb, h⟩ := List.exists_of_findSome?_eq_some h
  rw [mem_rangeN] at ha hb
  split at h
  · rename_i hfree
    simp only [Option.some.injEq, Prod.mk.injEq] at h
    obtain ⟨rfl, rfl⟩ := h
    exact ⟨ha.1, ha.2, hb.1, hb.2, by simpa using hfree⟩
  · simp at h

/-- the pair used in iteration `i`, however it was found (random hit or fallback scan), lies in
the unused part of both arrays and is not yet an edge -/
theorem regularPick_ok (tries N : Nat) (G : BipG) (A B : List Nat) (i : Nat) (ds rest : List Draw)
    (ea eb : Nat) (_hi : i < N) (h : regularPick tries N G A B i ds = .ok (some (ea, eb)) rest) :
    i ≤ ea ∧ ea < N ∧ i ≤ eb ∧ eb < N ∧ G.hasEdge (A.getD ea 0) (B.getD eb 0) = false := by
  unfold regularPick at h
  rw [bind_ok] at h
  obtain ⟨o, mid, hret, h⟩ := h
  cases o with
  | some p =>
    obtain ⟨a', b'⟩ := p
    simp only [pure_ok, Option.some.injEq, Prod.mk.injEq] at h
    obtain ⟨⟨rfl, rfl⟩, _⟩ := h
    obtain ⟨a, b, ha1, ha2, hb1, hb2, rfl, rfl, hfree⟩ := regularRetry_ok _ _ _ _ _ _ _ _ _ _ hret
    refine ⟨by omega, by omega, by omega, by omega, hfree⟩
  | none =>
    simp only [pure_ok] at h
    exact firstFreePair_some _ _ _ _ _ _ _ h.1

theorem regularPick_exc (tries N : Nat) (G : BipG) (A B : List Nat) (i : Nat) (ds : List Draw) (e : Err)
    (hi : i < N) (h : regularPick tries N G A B i ds = .exc e) : False := by
  unfold regularPick at h
  rw [bind_exc] at h
  rcases h with h | ⟨o, mid, _, h⟩
  · exact regularRetry_exc _ _ _ _ _ _ _ _ (by omega) h
  · cases o <;> exact pure_ne_exc _ _ _ h

theorem regularPick_noForeign (tries N : Nat) (G : BipG) (A B : List Nat) (i : Nat) :
    NoForeign (regularPick tries N G A B i) := by
  unfold regularPick
  refine NoForeign.bind (regularRetry_noForeign _ _ _ _ _ _) (fun o => ?_)
  cases o <;> exact NoForeign.pure _

/-! ### the loop -/
/-- invariant of `for i in range(l*d)` at the start of iteration `i` -/
structure RegInv (l r N : Nat) (A0 B0 : List Nat) (i : Nat) (G : BipG) (A B : List Nat) : Prop where
  inv : G.InvGB
  hl : G.l = l
  hr : G.r = r
  lenA : A.length = N
  lenB : B.length = N
  cntA : ∀ x, A.count x = A0.count x
  cntB : ∀ x, B.count x = B0.count x
  edges : G.edgeset = ((A.take i).zip (B.take i)).reverse

theorem RegInv.memA {l r N A0 B0 i G A B} (h : RegInv l r N A0 B0 i G A B) (x : Nat) :
    x ∈ A ↔ x ∈ A0 := by
  rw [← List.count_pos_iff, ← List.count_pos_iff, h.cntA]

theorem RegInv.memB {l r N A0 B0 i G A B} (h : RegInv l r N A0 B0 i G A B) (x : Nat) :
    x ∈ B ↔ x ∈ B0 := by
  rw [← List.count_pos_iff, ← List.count_pos_iff, h.cntB]

/-- one iteration: the chosen free pair is added and moved to position `i` of both arrays -/
theorem RegInv.step {l r N A0 B0 i G A B} (hinv : RegInv l r N A0 B0 i G A B)
    (hA0 : ∀ x ∈ A0, 1 ≤ x ∧ x ≤ l) (hB0 : ∀ x ∈ B0, 1 ≤ x ∧ x ≤ r)
    (ea eb : Nat) (hea : i ≤ ea ∧ ea < N) (heb : i ≤ eb ∧ eb < N)
    (hfree : G.hasEdge (A.getD ea 0) (B.getD eb 0) = false) :
    ∃ G', G.addEdge (A.getD ea 0) (B.getD eb 0) = .ok G' ∧
      RegInv l r N A0 B0 (i + 1) G' (swapAt A i ea) (swapAt B i eb) := by
  have hAea : A.getD ea 0 ∈ A := by
    rw [getD_eq_getElem' A ea (by rw [hinv.lenA]; omega)]; exact List.getElem_mem _
  have hBeb : B.getD eb 0 ∈ B := by
    rw [getD_eq_getElem' B eb (by rw [hinv.lenB]; omega)]; exact List.getElem_mem _
  have ha := hA0 _ ((hinv.memA _).1 hAea)
  have hb := hB0 _ ((hinv.memB _).1 hBeb)
  obtain ⟨G', hadd⟩ := BipG.addEdge_succeeds G (A.getD ea 0) (B.getD eb 0)
    (by rw [hinv.hl, hinv.hr]; omega)
  refine ⟨G', hadd, ?_⟩
  obtain ⟨_, hcase⟩ := BipG.addEdge_ok G G' _ _ hadd
  have hes : G'.edgeset = (A.getD ea 0, B.getD eb 0) :: G.edgeset := by
    rcases hcase with ⟨he, _⟩ | ⟨_, _, _, hes, _⟩
    · rw [hfree] at he; cases he
    · simpa using hes
  obtain ⟨hl', hr'⟩ := BipG.sides_addEdge G G' _ _ hadd
  refine ⟨BipG.inv_addEdge_gb G G' _ _ hinv.inv hadd, by rw [hl', hinv.hl], by rw [hr', hinv.hr],
    by rw [length_swapAt, hinv.lenA], by rw [length_swapAt, hinv.lenB], ?_, ?_, ?_⟩
  · intro x; rw [count_swapAt A i ea x (by rw [hinv.lenA]; omega) (by rw [hinv.lenA]; omega), hinv.cntA]
  · intro x; rw [count_swapAt B i eb x (by rw [hinv.lenB]; omega) (by rw [hinv.lenB]; omega), hinv.cntB]
  · rw [hes, hinv.edges, take_swapAt A i ea hea.1 (by rw [hinv.lenA]; omega),
      take_swapAt B i eb heb.1 (by rw [hinv.lenB]; omega)]
    rw [List.zip_append (by simp [hinv.lenA, hinv.lenB])]
    simp

theorem regularLoop_ok (tries l r N : Nat) (A0 B0 : List Nat)
    (hA0 : ∀ x ∈ A0, 1 ≤ x ∧ x ≤ l) (hB0 : ∀ x ∈ B0, 1 ≤ x ∧ x ≤ r)
    (k i : Nat) (G : BipG) (A B : List Nat) (ds rest : List Draw) (G' : BipG)
    (hinv : RegInv l r N A0 B0 i G A B) (hk : i + k = N)
    (h : regularLoop tries N k i G A B ds = .ok (some G') rest) :
    ∃ A' B', RegInv l r N A0 B0 N G' A' B' := by
  induction k generalizing i G A B ds with
  | zero =>
    simp only [regularLoop, pure_ok, Option.some.injEq] at h
    obtain ⟨rfl, _⟩ := h
    have : i = N := by omega
    subst this
    exact ⟨A, B, hinv⟩
  | succ k ih =>
    simp only [regularLoop] at h
    rw [bind_ok] at h
    obtain ⟨o, mid, hpick, h⟩ := h
    cases o with
    | none => simp at h
    | some p =>
      obtain ⟨ea, eb⟩ := p
      simp only at h
      rw [bind_ok] at h
      obtain ⟨G1, mid2, hadd, h⟩ := h
      rw [lift_ok] at hadd
      obtain ⟨hadd, rfl⟩ := hadd
      obtain ⟨h1, h2, h3, h4, hfree⟩ := regularPick_ok _ _ _ _ _ _ _ _ _ _ (by omega) hpick
      obtain ⟨G2, hadd2, hinv2⟩ := hinv.step hA0 hB0 ea eb ⟨h1, h2⟩ ⟨h3, h4⟩ hfree
      rw [hadd] at hadd2
      cases hadd2
      exact ih (i + 1) G1 _ _ mid hinv2 (by omega) h

theorem regularLoop_exc (tries l r N : Nat) (A0 B0 : List Nat)
    (hA0 : ∀ x ∈ A0, 1 ≤ x ∧ x ≤ l) (hB0 : ∀ x ∈ B0, 1 ≤ x ∧ x ≤ r)
    (k i : Nat) (G : BipG) (A B : List Nat) (ds : List Draw) (e : Err)
    (hinv : RegInv l r N A0 B0 i G A B) (hk : i + k = N)
    (h : regularLoop tries N k i G A B ds = .exc e) : False := by
  induction k generalizing i G A B ds with
  | zero => simp [regularLoop] at h
  | succ k ih =>
    simp only [regularLoop] at h
    rw [bind_exc] at h
    rcases h with h | ⟨o, mid, hpick, h⟩
    · exact regularPick_exc _ _ _ _ _ _ _ _ (by omega) h
    · cases o with
      | none => exact pure_ne_exc _ _ _ h
      | some p =>
        obtain ⟨ea, eb⟩ := p
        simp only at h
        obtain ⟨h1, h2, h3, h4, hfree⟩ := regularPick_ok _ _ _ _ _ _ _ _ _ _ (by omega) hpick
        obtain ⟨G2, hadd2, hinv2⟩ := hinv.step hA0 hB0 ea eb ⟨h1, h2⟩ ⟨h3, h4⟩ hfree
        rw [bind_exc] at h
        rcases h with h | ⟨G1, mid2, hadd, h⟩
        · rw [lift_exc, hadd2] at h; cases h
        · rw [lift_ok, hadd2] at hadd
          obtain ⟨hadd, rfl⟩ := hadd
          cases hadd
          exact ih (i + 1) G2 _ _ mid hinv2 (by omega) h

theorem regularLoop_noForeign (tries N k i : Nat) (G : BipG) (A B : List Nat) :
    NoForeign (regularLoop tries N k i G A B) := by
  induction k generalizing i G A B with
  | zero => exact NoForeign.pure _
  | succ k ih =>
    simp only [regularLoop]
    refine NoForeign.bind (regularPick_noForeign _ _ _ _ _ _) (fun o => ?_)
    cases o with
    | none => exact NoForeign.pure _
    | some p =>
      obtain ⟨ea, eb⟩ := p
      exact NoForeign.bind (NoForeign.lift _) (fun G1 => ih _ _ _ _)

/-- at the end of the loop the degrees are the multiplicities in the initial arrays -/
theorem RegInv.degrees {l r N A0 B0 G A B} (h : RegInv l r N A0 B0 N G A B) :
    (∀ u, G.leftDeg u = A0.count u) ∧ (∀ v, G.rightDeg v = B0.count v) := by
  have hA : A.take N = A := by rw [← h.lenA]; exact List.take_length
  have hB : B.take N = B := by rw [← h.lenB]; exact List.take_length
  have hes := h.edges
  rw [hA, hB] at hes
  constructor
  · intro u
    rw [h.inv.ldeg, hes, List.countP_reverse, ← h.cntA, List.count_eq_countP]
    have : List.countP (fun e : Nat × Nat => e.1 == u) (A.zip B) =
        List.countP (· == u) ((A.zip B).map Prod.fst) := by
      rw [List.countP_map]; rfl
    rw [this, List.map_fst_zip (by rw [h.lenA, h.lenB]; exact Nat.le_refl _)]
  · intro v
    rw [h.inv.rdeg, hes, List.countP_reverse, ← h.cntB, List.count_eq_countP]
    have : List.countP (fun e : Nat × Nat => e.2 == v) (A.zip B) =
        List.countP (· == v) ((A.zip B).map Prod.snd) := by
      rw [List.countP_map]; rfl
    rw [this, List.map_snd_zip (by rw [h.lenA, h.lenB]; exact Nat.le_refl _)]

theorem regInv_init (l r N : Nat) (A0 B0 : List Nat) (hA : A0.length = N) (hB : B0.length = N) :
    RegInv l r N A0 B0 0 (BipG.init l r) A0 B0 :=
  ⟨BipG.inv_init_gb l r, rfl, rfl, hA, hB, fun _ => rfl, fun _ => rfl, by simp [BipG.init]⟩

/-- the arrays `A = list(L)*d`, `B = list(R)*(l*d//r)` both have `l*d` cells -/
theorem regular_arrays (l r d : Int) (hl0 : 0 ≤ l) (hr0 : 0 < r) (hd0 : 0 ≤ d) (hdiv : (l * d) % r = 0) :
    (repeatRange l.toNat d.toNat).length = (l * d).toNat ∧
    (repeatRange r.toNat (l * d / r).toNat).length = (l * d).toNat := by
  have hq0 : 0 ≤ l * d / r := Int.ediv_nonneg (Int.mul_nonneg hl0 hd0) (by omega)
  constructor
  · rw [length_repeatRange]
    have : ((d.toNat * l.toNat : Nat) : Int) = l * d := by
      rw [Int.natCast_mul, Int.toNat_of_nonneg hl0, Int.toNat_of_nonneg hd0, Int.mul_comm]
    omega
  · rw [length_repeatRange]
    have h1 : (((l * d / r).toNat * r.toNat : Nat) : Int) = l * d / r * r := by
      rw [Int.natCast_mul, Int.toNat_of_nonneg hq0, Int.toNat_of_nonneg (by omega)]
    have h2 : l * d / r * r = l * d := Int.ediv_mul_cancel (Int.dvd_of_emod_eq_zero hdiv)
    omega

/-- `bipartite_random_regular(l, r, d)`, whenever it returns and whatever was drawn (any number
of restarts): every left vertex has degree `d`, every right vertex has degree `l*d/r` -/
theorem randomRegular_ok (l r d : Int) (fuel : Nat) (ds rest : List Draw) (G : BipG)
    (h : randomRegular l r d fuel ds = .ok G rest) :
    0 ≤ l ∧ 0 ≤ r ∧ 0 ≤ d ∧ d ≤ r ∧ (0 < r → (l * d) % r = 0) ∧ G.InvGB ∧ G.l = l.toNat ∧ G.r = r.toNat ∧
    (∀ u, 1 ≤ u → u ≤ G.l → G.leftDeg u = d.toNat) ∧
    (∀ v, 1 ≤ v → v ≤ G.r → G.rightDeg v = (l * d / r).toNat) := by
  induction fuel generalizing ds with
  | zero => simp [randomRegular] at h
  | succ fuel ih =>
    simp only [randomRegular] at h
    split at h
    · simp at h
    · rename_i hneg
      split at h
      · simp at h
      · rename_i hdr
        split at h
        · simp at h
        · rename_i hdiv
          split at h
          · -- r = 0: the empty graph on (l, 0)
            rename_i hr0
            simp only [pure_ok] at h
            obtain ⟨rfl, _⟩ := h
            have hd : d = 0 := by omega
            refine ⟨by omega, by omega, by omega, by omega, by omega, BipG.inv_init_gb _ _, rfl, rfl, ?_, ?_⟩
            · intro u _ _
              have := (BipG.inv_init_gb l.toNat r.toNat).ldeg u
              rw [this, hd]; simp [BipG.init]
            · intro v h1 h2
              simp only [BipG.init] at h2; omega
          · rename_i hr0
            have hl0 : 0 ≤ l := by omega
            have hr0' : 0 < r := by omega
            have hd0 : 0 ≤ d := by omega
            have hdiv' : (l * d) % r = 0 := by
              by_cases hh : (l * d) % r = 0
              · exact hh
              · exact absurd ⟨hr0', hh⟩ hdiv
            obtain ⟨hNA, hNB⟩ := regular_arrays l r d hl0 hr0' hd0 hdiv'
            rw [bind_ok] at h
            obtain ⟨o, mid, hloop, h⟩ := h
            cases o with
            | none => exact ih mid h
            | some G' =>
              simp only [pure_ok] at h
              obtain ⟨rfl, _⟩ := h
              obtain ⟨A', B', hfin⟩ := regularLoop_ok _ l.toNat r.toNat _ _ _
                (fun x hx => mem_repeatRange _ _ _ hx) (fun x hx => mem_repeatRange _ _ _ hx)
                _ 0 _ _ _ ds mid _ (regInv_init _ _ _ _ _ hNA hNB) (by omega) hloop
              obtain ⟨hdl, hdr'⟩ := hfin.degrees
              refine ⟨hl0, by omega, hd0, by omega, fun _ => hdiv', hfin.inv, hfin.hl, hfin.hr, ?_, ?_⟩
              · intro u h1 h2
                rw [hdl u, count_repeatRange, if_pos ⟨h1, by rw [hfin.hl] at h2; exact h2⟩]
              · intro v h1 h2
                rw [hdr' v, count_repeatRange, if_pos ⟨h1, by rw [hfin.hr] at h2; exact h2⟩]

/-- the exceptions of `bipartite_random_regular`: the documented `ValueError` (negative argument,
`d > r`, or `r > 0` does not divide `l*d`), and `RecursionError` — only for arguments that pass all
these tests with `r > 0`, when every attempt within the restart budget ended in a dead end (or the
budget was empty to begin with).  Nothing is ever raised from inside an attempt; `r = 0` returns. -/
theorem randomRegular_exc (l r d : Int) (fuel : Nat) (ds : List Draw) (e : Err)
    (h : randomRegular l r d fuel ds = .exc e) :
    (e = .valueError ∧ (l < 0 ∨ r < 0 ∨ d < 0 ∨ d > r ∨ (0 < r ∧ (l * d) % r ≠ 0))) ∨
    (e = .recursion ∧ (fuel = 0 ∨ (0 ≤ l ∧ 0 < r ∧ 0 ≤ d ∧ d ≤ r ∧ (l * d) % r = 0))) := by
  induction fuel generalizing ds with
  | zero => simp [randomRegular] at h; exact Or.inr ⟨h.symm, Or.inl rfl⟩
  | succ fuel ih =>
    simp only [randomRegular] at h
    split at h
    · rename_i hneg; simp at h; exact Or.inl ⟨h.symm, by omega⟩
    · rename_i hneg
      split at h
      · rename_i hdr; simp at h; exact Or.inl ⟨h.symm, by omega⟩
      · rename_i hdr
        split at h
        · rename_i hdiv; simp at h; exact Or.inl ⟨h.symm, Or.inr (Or.inr (Or.inr (Or.inr hdiv)))⟩
        · rename_i hdiv
          split at h
          · exact absurd h (pure_ne_exc _ _ _)
          · rename_i hr0
            have hl0 : 0 ≤ l := by omega
            have hr0' : 0 < r := by omega
            have hd0 : 0 ≤ d := by omega
            have hdiv' : (l * d) % r = 0 := by
              by_cases hh : (l * d) % r = 0
              · exact hh
              · exact absurd ⟨hr0', hh⟩ hdiv
            obtain ⟨hNA, hNB⟩ := regular_arrays l r d hl0 hr0' hd0 hdiv'
            rw [bind_exc] at h
            rcases h with h | ⟨o, mid, _, h⟩
            · exfalso
              exact regularLoop_exc _ l.toNat r.toNat _ _ _
                (fun x hx => mem_repeatRange _ _ _ hx) (fun x hx => mem_repeatRange _ _ _ hx)
                _ 0 _ _ _ ds e (regInv_init _ _ _ _ _ hNA hNB) (by omega) h
            · cases o with
              | none =>
                rcases ih mid h with ⟨_, hbad⟩ | ⟨he, _⟩
                · exfalso; omega
                · exact Or.inr ⟨he, Or.inr ⟨hl0, hr0', hd0, by omega, hdiv'⟩⟩
              | some G' => exact absurd h (pure_ne_exc _ _ _)

theorem randomRegular_noForeign (l r d : Int) (fuel : Nat) : NoForeign (randomRegular l r d fuel) := by
  induction fuel with
  | zero => exact NoForeign.raise _
  | succ fuel ih =>
    simp only [randomRegular]
    refine NoForeign.ite (NoForeign.raise _) (NoForeign.ite (NoForeign.raise _)
      (NoForeign.ite (NoForeign.raise _) (NoForeign.ite (NoForeign.pure _)
        (NoForeign.bind (regularLoop_noForeign _ _ _ _ _ _ _) (fun o => ?_)))))
    cases o with
    | none => exact ih
    | some G => exact NoForeign.pure _

end GRand
end Cnfgen
