/-
Helper lemmas for the translated `CNFLinear.add_linear` (`Props/C04/GeneratedLinear.lean`): the in-place flip /
emit / flip-back loop of the `!=` branch produces the model's `neqClauses`.
-/
import CnfgenModel.Generated.Funcs
import CnfgenModel.Build.Linear
import Lemmas.PyFold
import Lemmas.GenWords
set_option linter.unusedSimpArgs false
namespace Cnfgen.GenLinear
open Cnfgen Cnfgen.PyGen Cnfgen.GenVars

/-- `lits[i] *= -1` for the positions of `flips`, one after the other -/
def flipSeq (l : List Int) (flips : List Nat) : List Int :=
  flips.foldl (fun l i => l.set i (l.getD i 0 * -1)) l

/-- the inner loop of the `!=` branch, as translated -/
def flipStepM (lits : List Int) (i : Int) : Except Err (List Int) :=
  (Py.index lits i) >>= fun x => (Py.listSet lits i (x * (-1))) >>= fun l => Except.ok l

theorem flipSeq_length (l : List Int) (flips : List Nat) : (flipSeq l flips).length = l.length := by
  induction flips generalizing l with
  | nil => rfl
  | cons i is ih => simp [flipSeq, List.foldl_cons] at ih ⊢; rw [ih]; simp

theorem flip_loop (l : List Int) (flips : List Nat) (h : ∀ i ∈ flips, i < l.length) :
    List.foldlM flipStepM l (flips.map (fun (i : Nat) => (i : Int))) = Except.ok (flipSeq l flips) := by
  induction flips generalizing l with
  | nil => rfl
  | cons i is ih =>
    have hi : i < l.length := h i (by simp)
    simp only [List.map_cons, List.foldlM_cons, flipStepM]
    rw [Py.index_nat l i hi]
    have hset : Py.listSet l (i : Int) (l[i] * -1) = Except.ok (l.set i (l[i] * -1)) := by
      have h0 : (0 : Int) ≤ (i : Int) := by omega
      simp [Py.listSet, h0, hi]
    simp only [Py.ok_bind, hset]
    have hg : l.getD i 0 = l[i] := by simp [List.getD, hi]
    rw [ih _ (fun j hj => by simpa using h j (by simp [hj]))]
    simp only [flipSeq, List.foldl_cons, hg]

theorem flipSeq_cons_zero (x : Int) (xs : List Int) (f : List Nat) :
    flipSeq (x :: xs) (0 :: f.map Nat.succ) = (-x) :: flipSeq xs f := by
  have hgen : ∀ (y : Int) (ys : List Int), flipSeq (y :: ys) (f.map Nat.succ) = y :: flipSeq ys f := by
    induction f with
    | nil => intro y ys; rfl
    | cons i is ih =>
      intro y ys
      simp only [flipSeq, List.map_cons, List.foldl_cons] at ih ⊢
      have : ((y :: ys).set (i + 1) ((y :: ys).getD (i + 1) 0 * -1)) = y :: ys.set i (ys.getD i 0 * -1) := by
        simp [List.getD]
      rw [this]
      exact ih y _
  simp only [flipSeq, List.foldl_cons]
  have : ((x :: xs).set 0 ((x :: xs).getD 0 0 * -1)) = (-x) :: xs := by simp [List.getD]
  rw [this]
  exact hgen (-x) xs

theorem flipSeq_cons_succ (x : Int) (xs : List Int) (f : List Nat) :
    flipSeq (x :: xs) (f.map Nat.succ) = x :: flipSeq xs f := by
  induction f generalizing x xs with
  | nil => rfl
  | cons i is ih =>
    simp only [flipSeq, List.map_cons, List.foldl_cons] at ih ⊢
    have : ((x :: xs).set (i + 1) ((x :: xs).getD (i + 1) 0 * -1)) = x :: xs.set i (xs.getD i 0 * -1) := by
      simp [List.getD]
    rw [this]
    exact ih x _

/-- the clauses of the `!=` branch: one flipped copy per `k`-subset of positions, in `combinations` order -/
theorem map_flipSeq_combos (l : List Int) (k : Nat) :
    (combos (List.range l.length) k).map (flipSeq l) = Linear.neqClauses l k := by
  induction l generalizing k with
  | nil => cases k <;> simp [combos, Linear.neqClauses, flipSeq]
  | cons x xs ih =>
    cases k with
    | zero => simp [combos, Linear.neqClauses, flipSeq]
    | succ k =>
      rw [List.length_cons, List.range_succ_eq_map]
      simp only [combos, combos_map, List.map_append, List.map_map, Linear.neqClauses, ← ih]
      congr 1
      · apply List.map_congr_left
        intro f _
        simp only [Function.comp, flipSeq_cons_zero]
      · apply List.map_congr_left
        intro f _
        simp only [Function.comp, flipSeq_cons_succ]

/-- `for c in l: self.add_clause(c)` -/
theorem emit_loop {σ β : Type} (u : σ) (log l : List β) :
    List.foldl (fun (self : σ × List β) (c : β) => (self.1, self.2 ++ [c])) (u, log) l = (u, log ++ l) := by
  induction l generalizing log with
  | nil => simp
  | cons x xs ih => simp [ih]

/-- flipping the same positions again restores the list -/
theorem flipSeq_restore (l : List Int) (k : Nat) (f : List Nat) (hf : f ∈ combos (List.range l.length) k) :
    flipSeq (flipSeq l f) f = l := by
  induction l generalizing k f with
  | nil =>
    cases k with
    | zero => simp [combos] at hf; subst hf; rfl
    | succ k => simp [combos] at hf
  | cons x xs ih =>
    cases k with
    | zero => simp [combos] at hf; subst hf; rfl
    | succ k =>
      rw [List.length_cons, List.range_succ_eq_map] at hf
      simp only [combos, combos_map, List.mem_append, List.mem_map] at hf
      rcases hf with ⟨g', ⟨g, hg, rfl⟩, rfl⟩ | ⟨g, hg, rfl⟩
      · rw [flipSeq_cons_zero, flipSeq_cons_zero, ih k g hg]; simp
      · rw [flipSeq_cons_succ, flipSeq_cons_succ, ih (k + 1) g hg]

theorem combos_range_lt (n k : Nat) (f : List Nat) (hf : f ∈ combos (List.range n) k) : ∀ i ∈ f, i < n := by
  intro i hi
  have := (Cnfgen.mem_combos.1 hf).1
  exact List.mem_range.1 (this.subset hi)

/-- one round of the outer loop of the `!=` branch -/
def neqStepM (st : List Int × (Unit × List (List Int))) (flips : List Int) :
    Except Err (List Int × (Unit × List (List Int))) :=
  (List.foldlM flipStepM st.1 flips) >>= fun lits =>
    (List.foldlM flipStepM lits flips) >>= fun lits' => Except.ok (lits', (st.2.1, st.2.2 ++ [lits]))

theorem neq_loop (l : List Int) (k : Nat) (F : List (List Nat)) (hF : ∀ f ∈ F, f ∈ combos (List.range l.length) k)
    (log : List (List Int)) :
    List.foldlM neqStepM (l, ((), log)) (F.map (fun f => f.map (fun (i : Nat) => (i : Int)))) =
      Except.ok (l, ((), log ++ F.map (flipSeq l))) := by
  induction F generalizing log with
  | nil => simp
  | cons f fs ih =>
    have hf := hF f (by simp)
    have hlt := combos_range_lt _ _ _ hf
    simp only [List.map_cons, List.foldlM_cons, neqStepM]
    rw [flip_loop l f hlt, Py.ok_bind,
      flip_loop (flipSeq l f) f (fun i hi => by rw [flipSeq_length]; exact hlt i hi), Py.ok_bind,
      flipSeq_restore l k f hf, Py.ok_bind, ih (fun g hg => hF g (by simp [hg]))]
    simp

end Cnfgen.GenLinear
