/-
C14 (GML) — the reader on ARBITRARY text: what an accepted text guarantees about the parsed
networkx graph (`Parsed`) and about the cnfgen object built from it.
-/
import Lemmas.GmlRead
import Lemmas.GraphIOBase
namespace Cnfgen.Gml
open Cnfgen GraphLex GraphFmt Nx

/-- well-formedness of what `parse_gml_lines` returns: distinct node ids, one `bipartite` class per
node, edges between existing nodes, no edge twice (for an undirected graph: in neither orientation) -/
structure Parsed.WF (P : Parsed) : Prop where
  nodup : P.labels.Nodup
  colours : P.colours.length = P.labels.length
  ends : ∀ e ∈ P.tedges, e.1 < P.labels.length ∧ e.2 < P.labels.length
  distinct : EdgesDistinct P.directed P.tedges

theorem addNodes_spec : ∀ (vs : List Val) (ls : List Label) (cs : List Colour) (ls' : List Label) (cs' : List Colour),
    addNodes vs ls cs = .ok (ls', cs') → ls.Nodup → cs.length = ls.length → ls'.Nodup ∧ cs'.length = ls'.length := by
  intro vs
  induction vs with
  | nil =>
    intro ls cs ls' cs' h hn hc
    simp only [addNodes] at h
    cases h; exact ⟨hn, hc⟩
  | cons v vs ih =>
    intro ls cs ls' cs' h hn hc
    cases v <;> simp only [addNodes] at h <;> try (cases h; done)
    rename_i items
    split at h
    · cases h
    · split at h <;> try (cases h; done)
      rename_i l _
      split at h
      · cases h
      · rename_i hnot
        split at h
        · cases h
        · refine ih _ _ _ _ h ?_ ?_
          · rw [List.nodup_append]
            refine ⟨hn, by simp, ?_⟩
            intro a ha b hb
            simp only [List.mem_cons, List.not_mem_nil, or_false] at hb
            subst hb
            intro e; subst e
            apply hnot
            rw [List.contains_iff_mem]; exact ha
          · simp [hc]

theorem findNode_lt {ls : List Label} {r : NodeRef} {i : Nat} (h : findNode ls r = .ok i) : i < ls.length := by
  cases r <;> simp only [findNode] at h <;> try (cases h; done)
  split at h
  · rename_i hc
    cases h
    rw [List.contains_iff_mem] at hc
    exact List.idxOf_lt_length_of_mem hc
  · cases h

theorem hasEdge_false {d : Bool} {es : List (Nat × Nat)} {s t : Nat} (h : hasEdge d es s t = false) :
    ∀ a ∈ es, a ≠ (s, t) ∧ (d = false → a ≠ (t, s)) := by
  simp only [hasEdge, Bool.or_eq_false_iff, Bool.and_eq_false_iff] at h
  intro a ha
  constructor
  · intro e; subst e
    have := h.1
    rw [Bool.eq_false_iff] at this
    exact this (List.contains_iff_mem.2 ha)
  · intro hd e; subst e
    rcases h.2 with h2 | h2
    · rw [hd] at h2; cases h2
    · rw [Bool.eq_false_iff] at h2
      exact h2 (List.contains_iff_mem.2 ha)

theorem addEdges_spec (d : Bool) (ls : List Label) : ∀ (vs : List Val) (es es' : List (Nat × Nat)),
    addEdges d ls vs es = .ok es' → (∀ e ∈ es, e.1 < ls.length ∧ e.2 < ls.length) → EdgesDistinct d es →
    (∀ e ∈ es', e.1 < ls.length ∧ e.2 < ls.length) ∧ EdgesDistinct d es' := by
  intro vs
  induction vs with
  | nil =>
    intro es es' h hw hd
    simp only [addEdges] at h
    cases h; exact ⟨hw, hd⟩
  | cons v vs ih =>
    intro es es' h hw hd
    cases v <;> simp only [addEdges] at h <;> try (cases h; done)
    rename_i items
    split at h
    · cases h
    · cases h
    · split at h <;> try (cases h; done)
      rename_i s hs
      split at h <;> try (cases h; done)
      rename_i t ht
      split at h
      · cases h
      · rename_i hno
        split at h
        · cases h
        · have hno' : hasEdge d es s t = false := by simpa using hno
          refine ih _ _ h ?_ ?_
          · intro e he
            rcases List.mem_append.1 he with he | he
            · exact hw e he
            · simp only [List.mem_cons, List.not_mem_nil, or_false] at he
              subst he
              exact ⟨findNode_lt hs, findNode_lt ht⟩
          · unfold EdgesDistinct at hd ⊢
            rw [List.pairwise_append]
            refine ⟨hd, by simp, ?_⟩
            intro a ha b hb
            simp only [List.mem_cons, List.not_mem_nil, or_false] at hb
            subst hb
            exact hasEdge_false hno' a ha

theorem buildGraph_wf {top : List (Str × Val)} {P : Parsed} (h : buildGraph top = .ok P) : P.WF := by
  unfold buildGraph at h
  split at h <;> try (cases h; done)
  split at h <;> try (cases h; done)
  rename_i directed _
  split at h <;> try (cases h; done)
  split at h <;> try (cases h; done)
  rename_i ls cs hn
  split at h <;> try (cases h; done)
  rename_i es he
  cases h
  obtain ⟨h1, h2⟩ := addNodes_spec _ _ _ _ _ hn List.nodup_nil rfl
  obtain ⟨h3, h4⟩ := addEdges_spec directed ls _ _ _ he (by intro e he; cases he) (by simp [EdgesDistinct])
  exact ⟨h1, h2, h3, h4⟩

theorem parseGml_wf {u : Bool} {text : Str} {P : Parsed} (h : parseGml u text = .ok P) : P.WF := by
  unfold parseGml at h
  split at h
  · exact buildGraph_wf h
  · cases h
  · cases h

/-! ### the edges cnfgen iterates over -/

/-- the networkx graph after parsing -/
def Parsed.nx (P : Parsed) : NxG := ⟨P.labels.length, P.tedges⟩

theorem mem_calls_undirected {n : Nat} {T : List (Nat × Nat)} (hW : (NxG.mk n T).WF) {i j : Nat} :
    (i, j) ∈ nxEdges false n (nxEdges false n T) ↔ i < n ∧ i ≤ j ∧ ((i, j) ∈ T ∨ (j, i) ∈ T) := by
  rw [nxEdges_false, nxEdges_false]
  show (i, j) ∈ (NxG.mk n T).relabelCopy.edges ↔ _
  rw [NxG.mem_edges, NxG.relabelCopy_E hW]
  rfl

theorem mem_calls_directed {n : Nat} {T : List (Nat × Nat)} {i j : Nat} :
    (i, j) ∈ nxEdges true n (nxEdges true n T) ↔ i < n ∧ (i, j) ∈ T := by
  rw [nxEdges_true, nxEdges_true, mem_diEdges, mem_diEdges]
  constructor
  · intro h; exact ⟨h.1, h.2.2⟩
  · intro h; exact ⟨h.1, h.1, h.2⟩

/-- which pairs (of positions) are joined, whatever the orientation -/
theorem mem_calls_sym {P : Parsed} (hP : P.WF) {i j : Nat} :
    ((i, j) ∈ nxEdges P.directed P.labels.length (nxEdges P.directed P.labels.length P.tedges) ∨
     (j, i) ∈ nxEdges P.directed P.labels.length (nxEdges P.directed P.labels.length P.tedges)) ↔
    ((i, j) ∈ P.tedges ∨ (j, i) ∈ P.tedges) := by
  have hW : (NxG.mk P.labels.length P.tedges).WF := hP.ends
  cases hd : P.directed
  · rw [mem_calls_undirected hW, mem_calls_undirected hW]
    constructor
    · rintro (⟨_, _, h⟩ | ⟨_, _, h⟩)
      · exact h
      · exact h.symm
    · intro h
      have hr : i < P.labels.length ∧ j < P.labels.length := by
        rcases h with h | h
        · exact hP.ends _ h
        · exact (hP.ends _ h).symm
      rcases Nat.le_total i j with hle | hle
      · exact Or.inl ⟨hr.1, hle, h⟩
      · exact Or.inr ⟨hr.2, hle, h.symm⟩
  · rw [mem_calls_directed, mem_calls_directed]
    constructor
    · rintro (⟨_, h⟩ | ⟨_, h⟩)
      · exact Or.inl h
      · exact Or.inr h
    · rintro (h | h)
      · exact Or.inl ⟨(hP.ends _ h).1, h⟩
      · exact Or.inr ⟨(hP.ends _ h).1, h⟩

/-- the new number of the node at position `i` (`normalize_networkx_labels`) -/
def Parsed.rank (P : Parsed) (i : Nat) : Nat := (ranks P.labels).getD i 0

theorem mem_fromNxCalls {P : Parsed} {p : Nat × Nat} :
    p ∈ fromNxCalls P ↔ ∃ i j, (i, j) ∈ nxEdges P.directed P.labels.length (nxEdges P.directed P.labels.length P.tedges) ∧
      p = (P.rank i, P.rank j) := by
  simp only [fromNxCalls, List.mem_map, Parsed.rank]
  constructor
  · rintro ⟨⟨i, j⟩, h, rfl⟩; exact ⟨i, j, h, rfl⟩
  · rintro ⟨i, j, h, rfl⟩; exact ⟨(i, j), h, rfl⟩

/-! ### `Graph.from_networkx` / `DirectedGraph.from_networkx` on an arbitrary parsed graph -/

/-- type `simple`: an accepted graph has one vertex per node and joins exactly the renumbered ends of
the edges of the text (a directed GML graph is taken as its underlying undirected graph) -/
theorem normalize_simple_spec {P : Parsed} (hP : P.WF) {G : AnyG} (h : normalize .simple P = .ok G) :
    ∃ g, G = .simple g ∧ SimpleG.Inv g ∧ g.n = P.labels.length ∧
      ∀ x y, (x, y) ∈ g.edgeset ↔ ∃ i j, ((i, j) ∈ P.tedges ∨ (j, i) ∈ P.tedges) ∧ x = P.rank i ∧ y = P.rank j := by
  simp only [normalize] at h
  cases hof : SimpleG.ofEdges P.labels.length (fromNxCalls P) with
  | error e => rw [hof] at h; cases h
  | ok g =>
    rw [hof] at h
    simp only [liftE, Res.bind] at h
    cases h
    have hall : GSem.addAll simpleClass (SimpleG.init P.labels.length)
        ((fromNxCalls P).map (fun e => ((e.1 : Int), (e.2 : Int)))) = .ok g := hof
    obtain ⟨_, hI, hn, hE⟩ := simpleSem.addAll_ok (SimpleG.inv_init _) hall
    refine ⟨g, rfl, hI, hn, ?_⟩
    intro x y
    have := hE (x, y)
    simp only [simpleSem, SimpleG.init, List.not_mem_nil, false_or, List.mem_map, Prod.exists] at this
    rw [show ((x, y) ∈ g.edgeset ↔ _) from this]
    constructor
    · rintro ⟨_, _, ⟨a, b, hab, rfl, rfl⟩, hp⟩
      obtain ⟨i, j, hij, e⟩ := mem_fromNxCalls.1 hab
      injection e with e1 e2
      simp only [Int.toNat_natCast, Prod.mk.injEq] at hp
      rcases hp with ⟨rfl, rfl⟩ | ⟨rfl, rfl⟩
      · exact ⟨i, j, (mem_calls_sym hP).1 (Or.inl hij), e1, e2⟩
      · exact ⟨j, i, (mem_calls_sym hP).1 (Or.inr hij), e2, e1⟩
    · rintro ⟨i, j, hij, rfl, rfl⟩
      rcases (mem_calls_sym hP).2 hij with h | h
      · exact ⟨(P.rank i : Int), (P.rank j : Int), ⟨_, _, mem_fromNxCalls.2 ⟨i, j, h, rfl⟩, rfl⟩, Or.inl (by simp)⟩
      · exact ⟨(P.rank j : Int), (P.rank i : Int), ⟨_, _, mem_fromNxCalls.2 ⟨j, i, h, rfl⟩, rfl⟩, Or.inr (by simp)⟩

/-- types `digraph` and `dag`: only a directed GML graph is accepted; the object has exactly the
renumbered edges of the text, with their orientation -/
theorem normalize_di_spec (ty : GType) (hty : ty = .digraph ∨ ty = .dag) {P : Parsed} (hP : P.WF) {G : AnyG}
    (h : normalize ty P = .ok G) :
    P.directed = true ∧ ∃ g, G = .di g ∧ DiG.Inv g ∧ g.n = P.labels.length ∧
      ∀ x y, (x, y) ∈ g.edgeset ↔ ∃ i j, (i, j) ∈ P.tedges ∧ x = P.rank i ∧ y = P.rank j := by
  have h' : (if !P.directed then (Res.err Exc.typeError : Res AnyG)
      else (liftE (DiG.ofEdges P.labels.length (fromNxCalls P))).bind (fun g => .ok (.di g))) = .ok G := by
    rcases hty with rfl | rfl <;> simpa only [normalize] using h
  cases hd : P.directed with
  | false => rw [hd] at h'; cases h'
  | true =>
    rw [hd] at h'
    simp only [Bool.not_true, Bool.false_eq_true, if_false] at h'
    refine ⟨rfl, ?_⟩
    cases hof : DiG.ofEdges P.labels.length (fromNxCalls P) with
    | error e => rw [hof] at h'; cases h'
    | ok g =>
      rw [hof] at h'
      simp only [liftE, Res.bind] at h'
      cases h'
      have hall : GSem.addAll diClass (DiG.init P.labels.length)
          ((fromNxCalls P).map (fun e => ((e.1 : Int), (e.2 : Int)))) = .ok g := hof
      obtain ⟨_, hI, hn, hE⟩ := diSem.addAll_ok (DiG.inv_init _) hall
      refine ⟨g, rfl, hI, hn, ?_⟩
      intro x y
      have := hE (x, y)
      simp only [diSem, DiG.init, List.not_mem_nil, false_or, List.mem_map, Prod.exists] at this
      rw [show ((x, y) ∈ g.edgeset ↔ _) from this]
      constructor
      · rintro ⟨_, _, ⟨a, b, hab, rfl, rfl⟩, hp⟩
        obtain ⟨i, j, hij, e⟩ := mem_fromNxCalls.1 hab
        injection e with e1 e2
        simp only [Int.toNat_natCast, Prod.mk.injEq] at hp
        obtain ⟨rfl, rfl⟩ := hp
        rw [hd] at hij
        exact ⟨i, j, (mem_calls_directed.1 hij).2, e1, e2⟩
      · rintro ⟨i, j, hij, rfl, rfl⟩
        have : (i, j) ∈ nxEdges P.directed P.labels.length (nxEdges P.directed P.labels.length P.tedges) := by
          rw [hd]; exact mem_calls_directed.2 ⟨(hP.ends _ hij).1, hij⟩
        exact ⟨(P.rank i : Int), (P.rank j : Int), ⟨_, _, mem_fromNxCalls.2 ⟨i, j, this, rfl⟩, rfl⟩, by simp⟩

/-! ### `sorted(G.nodes())` for integer ids: the rank of a node is 1 + the number of smaller ids -/

theorem insertBy_perm {α} (le : α → α → Bool) (x : α) (l : List α) : (insertBy le x l).Perm (x :: l) := by
  induction l with
  | nil => exact List.Perm.refl _
  | cons y ys ih =>
    simp only [insertBy]
    split
    · exact List.Perm.refl _
    · exact (List.Perm.cons y ih).trans (List.Perm.swap x y ys)

theorem sortBy_perm {α} (le : α → α → Bool) (l : List α) : (sortBy le l).Perm l := by
  induction l with
  | nil => exact List.Perm.refl _
  | cons x xs ih =>
    simp only [sortBy, List.foldr_cons]
    exact (insertBy_perm le x _).trans (List.Perm.cons x ih)

def leI (a b : Int) : Bool := decide (a ≤ b)

theorem insertBy_sorted_int (x : Int) (l : List Int) (h : l.Pairwise (· ≤ ·)) :
    (insertBy leI x l).Pairwise (· ≤ ·) := by
  induction l with
  | nil => simp [insertBy]
  | cons y ys ih =>
    simp only [insertBy]
    rw [List.pairwise_cons] at h
    split
    · rename_i hxy
      simp only [leI, decide_eq_true_eq] at hxy
      rw [List.pairwise_cons]
      refine ⟨?_, List.pairwise_cons.2 h⟩
      intro a ha
      rcases List.mem_cons.1 ha with rfl | ha
      · exact hxy
      · exact Int.le_trans hxy (h.1 a ha)
    · rename_i hxy
      simp only [leI, decide_eq_true_eq] at hxy
      rw [List.pairwise_cons]
      refine ⟨?_, ih h.2⟩
      intro a ha
      have := (insertBy_perm leI x ys).mem_iff.1 ha
      rcases List.mem_cons.1 this with rfl | ha
      · omega
      · exact h.1 a ha

theorem sortBy_sorted_int (l : List Int) : (sortBy leI l).Pairwise (· ≤ ·) := by
  induction l with
  | nil => simp [sortBy]
  | cons x xs ih =>
    simp only [sortBy, List.foldr_cons]
    exact insertBy_sorted_int x _ ih

theorem idxOf_strictly_sorted (s : List Int) (hs : s.Pairwise (· < ·)) (x : Int) (hx : x ∈ s) :
    s.idxOf x = s.countP (fun z => decide (z < x)) := by
  induction s with
  | nil => cases hx
  | cons a t ih =>
    rw [List.pairwise_cons] at hs
    rw [List.idxOf_cons, List.countP_cons]
    by_cases hax : a = x
    · subst hax
      have : List.countP (fun z => decide (z < a)) t = 0 := by
        rw [List.countP_eq_zero]
        intro z hz
        have := hs.1 z hz
        simp only [decide_eq_true_eq]; omega
      simp [this]
    · have hxt : x ∈ t := by
        rcases List.mem_cons.1 hx with h | h
        · exact absurd h.symm hax
        · exact h
      have hlt : a < x := hs.1 x hxt
      have hb : (a == x) = false := beq_eq_false_iff_ne.2 hax
      rw [hb, cond_false, ih hs.2 hxt]
      simp [hlt]

theorem sortBy_map_int (zs : List Int) :
    sortBy Label.le (zs.map Label.int) = (sortBy leI zs).map Label.int := by
  have hins : ∀ (x : Int) (l : List Int), insertBy Label.le (Label.int x) (l.map Label.int) = (insertBy leI x l).map Label.int := by
    intro x l
    induction l with
    | nil => rfl
    | cons y ys ih =>
      by_cases hxy : x ≤ y
      · simp [insertBy, Label.le, leI, hxy]
      · simp [insertBy, Label.le, leI, hxy, ih]
  induction zs with
  | nil => rfl
  | cons z zs ih =>
    simp only [List.map_cons, sortBy, List.foldr_cons] at ih ⊢
    rw [ih, hins]

theorem idxOf_map_int (s : List Int) (z : Int) : (s.map Label.int).idxOf (Label.int z) = s.idxOf z := by
  induction s with
  | nil => rfl
  | cons a t ih =>
    simp only [List.map_cons, List.idxOf_cons, ih]
    by_cases h : a = z
    · subst h; simp
    · have h1 : (a == z) = false := beq_eq_false_iff_ne.2 h
      have h2 : (Label.int a == Label.int z) = false := beq_eq_false_iff_ne.2 (fun e => h (by injection e))
      rw [h1, h2]

/-- ids that are all integers (and distinct): the new number of a node is one more than the number of
nodes with a smaller id — the numbering `1..n` in increasing order of the ids -/
theorem ranks_int (zs : List Int) (hn : zs.Nodup) :
    ranks (zs.map Label.int) = zs.map (fun z => zs.countP (fun y => decide (y < z)) + 1) := by
  have hall : (zs.map Label.int).all Label.isInt = true := by simp [Label.isInt]
  unfold ranks
  simp only [hall, Bool.true_or, if_true, List.map_map]
  apply List.map_congr_left
  intro z hz
  simp only [Function.comp, rank, sortBy_map_int, idxOf_map_int]
  have hperm := sortBy_perm leI zs
  have hnd : (sortBy leI zs).Nodup := hperm.nodup_iff.2 hn
  have hsorted : (sortBy leI zs).Pairwise (· < ·) := by
    have h1 := sortBy_sorted_int zs
    have h2 : (sortBy leI zs).Pairwise (· ≠ ·) := hnd
    exact (h1.and h2).imp (fun h => by omega)
  rw [idxOf_strictly_sorted _ hsorted z (hperm.mem_iff.2 hz), hperm.countP_eq]

/-! ### inversion of `readGml` -/

theorem readGml_ok_inv {u : Bool} {ty : GType} {text : Str} {G : AnyG} {nm : Field}
    (h : readGml u ty text = .ok (G, nm)) :
    ∃ P, parseGml u text = .ok P ∧ normalize ty P = .ok G ∧ nm = nameOf P ∧
      (ty = .dag → ∀ g, G = .di g → g.stillDag = true) := by
  unfold readGml at h
  cases hp : parseGml u text with
  | err e => rw [hp] at h; simp only [Res.bind] at h; cases h
  | unmodelled => rw [hp] at h; simp only [Res.bind] at h; cases h
  | ok P =>
    rw [hp] at h
    simp only [Res.bind] at h
    cases hn : normalize ty P with
    | err e => rw [hn] at h; simp only at h; cases h
    | unmodelled => rw [hn] at h; simp only at h; cases h
    | ok G0 =>
      rw [hn] at h
      simp only at h
      split at h
      · rename_i g
        split at h
        · rename_i hs
          cases h
          exact ⟨P, rfl, hn, rfl, fun _ g' e => by cases e; exact hs⟩
        · cases h
      · rename_i hne
        cases h
        refine ⟨P, rfl, hn, rfl, ?_⟩
        intro hty g e
        subst hty; subst e
        exact (hne g rfl rfl).elim

end Cnfgen.Gml
