/-
C14 (GML) — the reader on ARBITRARY text: what an accepted text guarantees about the parsed
networkx graph (`Parsed`) and about the cnfgen object built from it.
-/
import Lemmas.GmlRead
import Lemmas.GraphIOBase
namespace Cnfgen.Gml
open Cnfgen GraphLex GraphFmt Nx

/-- well-formedness of what `parse_gml_lines` returns: distinct node ids, one `bipartite` class per
node, edges between existing nodes, no edge twice (for an undirected graph: in neither orientation) -/
structure Parsed.WF (P : Parsed) : Prop where
  nodup : P.labels.Nodup
  colours : P.colours.length = P.labels.length
  ends : ∀ e ∈ P.tedges, e.1 < P.labels.length ∧ e.2 < P.labels.length
  distinct : EdgesDistinct P.directed P.tedges

theorem addNodes_spec : ∀ (vs : List Val) (ls : List Label) (cs : List Colour) (ls' : List Label) (cs' : List Colour),
    addNodes vs ls cs = .ok (ls', cs') → ls.Nodup → cs.length = ls.length → ls'.Nodup ∧ cs'.length = ls'.length := by
  intro vs
  induction vs with
  | nil =>
    intro ls cs ls' cs' h hn hc
    simp only [addNodes] at h
    cases h; exact ⟨hn, hc⟩
  | cons v vs ih =>
    intro ls cs ls' cs' h hn hc
    cases v <;> simp only [addNodes] at h <;> try (cases h; done)
    rename_i items
    split at h
    · cases h
    · split at h <;> try (cases h; done)
      rename_i l _
      split at h
      · cases h
      · rename_i hnot
        split at h
        · cases h
        · refine ih _ _ _ _ h ?_ ?_
          · rw [List.nodup_append]
            refine ⟨hn, by simp, ?_⟩
            intro a ha b hb
            simp only [List.mem_cons, List.not_mem_nil, or_false] at hb
            subst hb
            intro e; subst e
            apply hnot
            rw [List.contains_iff_mem]; exact ha
          · simp [hc]

theorem findNode_lt {ls : List Label} {r : NodeRef} {i : Nat} (h : findNode ls r = .ok i) : i < ls.length := by
  cases r <;> simp only [findNode] at h <;> try (cases h; done)
  split at h
  · rename_i hc
    cases h
    rw [List.contains_iff_mem] at hc
    exact List.idxOf_lt_length_of_mem hc
  · cases h

theorem hasEdge_false {d : Bool} {es : List (Nat × Nat)} {s t : Nat} (h : hasEdge d es s t = false) :
    ∀ a ∈ es, a ≠ (s, t) ∧ (d = false → a ≠ (t, s)) := by
  simp only [hasEdge, Bool.or_eq_false_iff, Bool.and_eq_false_iff] at h
  intro a ha
  constructor
  · intro e; subst e
    have := h.1
    rw [Bool.eq_false_iff] at this
    exact this (List.contains_iff_mem.2 ha)
  · intro hd e; subst e
    rcases h.2 with h2 | h2
    · rw [hd] at h2; cases h2
    · rw [Bool.eq_false_iff] at h2
      exact h2 (List.contains_iff_mem.2 ha)

theorem addEdges_spec (d : Bool) (ls : List Label) : ∀ (vs : List Val) (es es' : List (Nat × Nat)),
    addEdges d ls vs es = .ok es' → (∀ e ∈ es, e.1 < ls.length ∧ e.2 < ls.length) → EdgesDistinct d es →
    (∀ e ∈ es', e.1 < ls.length ∧ e.2 < ls.length) ∧ EdgesDistinct d es' := by
  intro vs
  induction vs with
  | nil =>
    intro es es' h hw hd
    simp only [addEdges] at h
    cases h; exact ⟨hw, hd⟩
  | cons v vs ih =>
    intro es es' h hw hd
    cases v <;> simp only [addEdges] at h <;> try (cases h; done)
    rename_i items
    split at h
    · cases h
    · cases h
    · split at h <;> try (cases h; done)
      rename_i s hs
      split at h <;> try (cases h; done)
      rename_i t ht
      split at h
      · cases h
      · rename_i hno
        split at h
        · cases h
        · have hno' : hasEdge d es s t = false := by simpa using hno
          refine ih _ _ h ?_ ?_
          · intro e he
            rcases List.mem_append.1 he with he | he
            · exact hw e he
            · simp only [List.mem_cons, List.not_mem_nil, or_false] at he
              subst he
              exact ⟨findNode_lt hs, findNode_lt ht⟩
          · unfold EdgesDistinct at hd ⊢
            rw [List.pairwise_append]
            refine ⟨hd, by simp, ?_⟩
            intro a ha b hb
            simp only [List.mem_cons, List.not_mem_nil, or_false] at hb
            subst hb
            exact hasEdge_false hno' a ha

theorem buildGraph_wf {top : List (Str × Val)} {P : Parsed} (h : buildGraph top = .ok P) : P.WF := by
  unfold buildGraph at h
  split at h <;> try (cases h; done)
  split at h <;> try (cases h; done)
  rename_i directed _
  split at h <;> try (cases h; done)
  split at h <;> try (cases h; done)
  rename_i ls cs hn
  split at h <;> try (cases h; done)
  rename_i es he
  cases h
  obtain ⟨h1, h2⟩ := addNodes_spec _ _ _ _ _ hn List.nodup_nil rfl
  obtain ⟨h3, h4⟩ := addEdges_spec directed ls _ _ _ he (by intro e he; cases he) (by simp [EdgesDistinct])
  exact ⟨h1, h2, h3, h4⟩

theorem parseGml_wf {u : Bool} {text : Str} {P : Parsed} (h : parseGml u text = .ok P) : P.WF := by
  unfold parseGml at h
  split at h
  · exact buildGraph_wf h
  · cases h
  · cases h

/-! ### the edges cnfgen iterates over -/

/-- the networkx graph after parsing -/
def Parsed.nx (P : Parsed) : NxG := ⟨P.labels.length, P.tedges⟩

theorem mem_calls_undirected {n : Nat} {T : List (Nat × Nat)} (hW : (NxG.mk n T).WF) {i j : Nat} :
    (i, j) ∈ nxEdges false n (nxEdges false n T) ↔ i < n ∧ i ≤ j ∧ ((i, j) ∈ T ∨ (j, i) ∈ T) := by
  rw [nxEdges_false, nxEdges_false]
  show (i, j) ∈ (NxG.mk n T).relabelCopy.edges ↔ _
  rw [NxG.mem_edges, NxG.relabelCopy_E hW]
  rfl

theorem mem_calls_directed {n : Nat} {T : List (Nat × Nat)} {i j : Nat} :
    (i, j) ∈ nxEdges true n (nxEdges true n T) ↔ i < n ∧ (i, j) ∈ T := by
  rw [nxEdges_true, nxEdges_true, mem_diEdges, mem_diEdges]
  constructor
  · intro h; exact ⟨h.1, h.2.2⟩
  · intro h; exact ⟨h.1, h.1, h.2⟩

/-- which pairs (of positions) are joined, whatever the orientation -/
theorem mem_calls_sym {P : Parsed} (hP : P.WF) {i j : Nat} :
    ((i, j) ∈ nxEdges P.directed P.labels.length (nxEdges P.directed P.labels.length P.tedges) ∨
     (j, i) ∈ nxEdges P.directed P.labels.length (nxEdges P.directed P.labels.length P.tedges)) ↔
    ((i, j) ∈ P.tedges ∨ (j, i) ∈ P.tedges) := by
  have hW : (NxG.mk P.labels.length P.tedges).WF := hP.ends
  cases hd : P.directed
  · rw [mem_calls_undirected hW, mem_calls_undirected hW]
    constructor
    · rintro (⟨_, _, h⟩ | ⟨_, _, h⟩)
      · exact h
      · exact h.symm
    · intro h
      have hr : i < P.labels.length ∧ j < P.labels.length := by
        rcases h with h | h
        · exact hP.ends _ h
        · exact (hP.ends _ h).symm
      rcases Nat.le_total i j with hle | hle
      · exact Or.inl ⟨hr.1, hle, h⟩
      · exact Or.inr ⟨hr.2, hle, h.symm⟩
  · rw [mem_calls_directed, mem_calls_directed]
    constructor
    · rintro (⟨_, h⟩ | ⟨_, h⟩)
      · exact Or.inl h
      · exact Or.inr h
    · rintro (h | h)
      · exact Or.inl ⟨(hP.ends _ h).1, h⟩
      · exact Or.inr ⟨(hP.ends _ h).1, h⟩

/-- the new number of the node at position `i` (`normalize_networkx_labels`) -/
def Parsed.rank (P : Parsed) (i : Nat) : Nat := (ranks P.labels).getD i 0

theorem mem_fromNxCalls {P : Parsed} {p : Nat × Nat} :
    p ∈ fromNxCalls P ↔ ∃ i j, (i, j) ∈ nxEdges P.directed P.labels.length (nxEdges P.directed P.labels.length P.tedges) ∧
      p = (P.rank i, P.rank j) := by
  simp only [fromNxCalls, List.mem_map, Parsed.rank]
  constructor
  · rintro ⟨⟨i, j⟩, h, rfl⟩; exact ⟨i, j, h, rfl⟩
  · rintro ⟨i, j, h, rfl⟩; exact ⟨(i, j), h, rfl⟩

/-! ### `Graph.from_networkx` / `DirectedGraph.from_networkx` on an arbitrary parsed graph -/

/-- type `simple`: an accepted graph has one vertex per node and joins exactly the renumbered ends of
the edges of the text (a directed GML graph is taken as its underlying undirected graph) -/
theorem normalize_simple_spec {P : Parsed} (hP : P.WF) {G : AnyG} (h : normalize .simple P = .ok G) :
    ∃ g, G = .simple g ∧ SimpleG.Inv g ∧ g.n = P.labels.length ∧
      ∀ x y, (x, y) ∈ g.edgeset ↔ ∃ i j, ((i, j) ∈ P.tedges ∨ (j, i) ∈ P.tedges) ∧ x = P.rank i ∧ y = P.rank j := by
  simp only [normalize] at h
  cases hof : SimpleG.ofEdges P.labels.length (fromNxCalls P) with
  | error e => rw [hof] at h; cases h
  | ok g =>
    rw [hof] at h
    simp only [liftE, Res.bind] at h
    cases h
    have hall : GSem.addAll simpleClass (SimpleG.init P.labels.length)
        ((fromNxCalls P).map (fun e => ((e.1 : Int), (e.2 : Int)))) = .ok g := hof
    obtain ⟨_, hI, hn, hE⟩ := simpleSem.addAll_ok (SimpleG.inv_init _) hall
    refine ⟨g, rfl, hI, hn, ?_⟩
    intro x y
    have := hE (x, y)
    simp only [simpleSem, SimpleG.init, List.not_mem_nil, false_or, List.mem_map, Prod.exists] at this
    rw [show ((x, y) ∈ g.edgeset ↔ _) from this]
    constructor
    · rintro ⟨_, _, ⟨a, b, hab, rfl, rfl⟩, hp⟩
      obtain ⟨i, j, hij, e⟩ := mem_fromNxCalls.1 hab
      injection e with e1 e2
      simp only [Int.toNat_natCast, Prod.mk.injEq] at hp
      rcases hp with ⟨rfl, rfl⟩ | ⟨rfl, rfl⟩
      · exact ⟨i, j, (mem_calls_sym hP).1 (Or.inl hij), e1, e2⟩
      · exact ⟨j, i, (mem_calls_sym hP).1 (Or.inr hij), e2, e1⟩
    · rintro ⟨i, j, hij, rfl, rfl⟩
      rcases (mem_calls_sym hP).2 hij with h | h
      · exact ⟨(P.rank i : Int), (P.rank j : Int), ⟨_, _, mem_fromNxCalls.2 ⟨i, j, h, rfl⟩, rfl⟩, Or.inl (by simp)⟩
      · exact ⟨(P.rank j : Int), (P.rank i : Int), ⟨_, _, mem_fromNxCalls.2 ⟨j, i, h, rfl⟩, rfl⟩, Or.inr (by simp)⟩

/-- types `digraph` and `dag`: only a directed GML graph is accepted; the object has exactly the
renumbered edges of the text, with their orientation -/
theorem normalize_di_spec (ty : GType) (hty : ty = .digraph ∨ ty = .dag) {P : Parsed} (hP : P.WF) {G : AnyG}
    (h : normalize ty P = .ok G) :
    P.directed = true ∧ ∃ g, G = .di g ∧ DiG.Inv g ∧ g.n = P.labels.length ∧
      ∀ x y, (x, y) ∈ g.edgeset ↔ ∃ i j, (i, j) ∈ P.tedges ∧ x = P.rank i ∧ y = P.rank j := by
  have h' : (if !P.directed then (Res.err Exc.typeError : Res AnyG)
      else (liftE (DiG.ofEdges P.labels.length (fromNxCalls P))).bind (fun g => .ok (.di g))) = .ok G := by
    rcases hty with rfl | rfl <;> simpa only [normalize] using h
  cases hd : P.directed with
  | false => rw [hd] at h'; cases h'
  | true =>
    rw [hd] at h'
    simp only [Bool.not_true, Bool.false_eq_true, if_false] at h'
    refine ⟨rfl, ?_⟩
    cases hof : DiG.ofEdges P.labels.length (fromNxCalls P) with
    | error e => rw [hof] at h'; cases h'
    | ok g =>
      rw [hof] at h'
      simp only [liftE, Res.bind] at h'
      cases h'
      have hall : GSem.addAll diClass (DiG.init P.labels.length)
          ((fromNxCalls P).map (fun e => ((e.1 : Int), (e.2 : Int)))) = .ok g := hof
      obtain ⟨_, hI, hn, hE⟩ := diSem.addAll_ok (DiG.inv_init _) hall
      refine ⟨g, rfl, hI, hn, ?_⟩
      intro x y
      have := hE (x, y)
      simp only [diSem, DiG.init, List.not_mem_nil, false_or, List.mem_map, Prod.exists] at this
      rw [show ((x, y) ∈ g.edgeset ↔ _) from this]
      constructor
      · rintro ⟨_, _, ⟨a, b, hab, rfl, rfl⟩, hp⟩
        obtain ⟨i, j, hij, e⟩ := mem_fromNxCalls.1 hab
        injection e with e1 e2
        simp only [Int.toNat_natCast, Prod.mk.injEq] at hp
        obtain ⟨rfl, rfl⟩ := hp
        rw [hd] at hij
        exact ⟨i, j, (mem_calls_directed.1 hij).2, e1, e2⟩
      · rintro ⟨i, j, hij, rfl, rfl⟩
        have : (i, j) ∈ nxEdges P.directed P.labels.length (nxEdges P.directed P.labels.length P.tedges) := by
          rw [hd]; exact mem_calls_directed.2 ⟨(hP.ends _ hij).1, hij⟩
        exact ⟨(P.rank i : Int), (P.rank j : Int), ⟨_, _, mem_fromNxCalls.2 ⟨i, j, this, rfl⟩, rfl⟩, by simp⟩

/-! ### `sorted(G.nodes())` for integer ids: the rank of a node is 1 + the number of smaller ids -/

theorem insertBy_perm {α} (le : α → α → Bool) (x : α) (l : List α) : (insertBy le x l).Perm (x :: l) := by
  induction l with
  | nil => exact List.Perm.refl _
  | cons y ys ih =>
    simp only [insertBy]
    split
    · exact List.Perm.refl _
    · exact (List.Perm.cons y ih).trans (List.Perm.swap x y ys)

theorem sortBy_perm {α} (le : α → α → Bool) (l : List α) : (sortBy le l).Perm l := by
  induction l with
  | nil => exact List.Perm.refl _
  | cons x xs ih =>
    simp only [sortBy, List.foldr_cons]
    exact (insertBy_perm le x _).trans (List.Perm.cons x ih)

def leI (a b : Int) : Bool := decide (a ≤ b)

theorem insertBy_sorted_int (x : Int) (l : List Int) (h : l.Pairwise (· ≤ ·)) :
    (insertBy leI x l).Pairwise (· ≤ ·) := by
  induction l with
  | nil => simp [insertBy]
  | cons y ys ih =>
    simp only [insertBy]
    rw [List.pairwise_cons] at h
    split
    · rename_i hxy
      simp only [leI, decide_eq_true_eq] at hxy
      rw [List.pairwise_cons]
      refine ⟨?_, List.pairwise_cons.2 h⟩
      intro a ha
      rcases List.mem_cons.1 ha with rfl | ha
      · exact hxy
      · exact Int.le_trans hxy (h.1 a ha)
    · rename_i hxy
      simp only [leI, decide_eq_true_eq] at hxy
      rw [List.pairwise_cons]
      refine ⟨?_, ih h.2⟩
      intro a ha
      have := (insertBy_perm leI x ys).mem_iff.1 ha
      rcases List.mem_cons.1 this with rfl | ha
      · omega
      · exact h.1 a ha

theorem sortBy_sorted_int (l : List Int) : (sortBy leI l).Pairwise (· ≤ ·) := by
  induction l with
  | nil => simp [sortBy]
  | cons x xs ih =>
    simp only [sortBy, List.foldr_cons]
    exact insertBy_sorted_int x _ ih

theorem idxOf_strictly_sorted (s : List Int) (hs : s.Pairwise (· < ·)) (x : Int) (hx : x ∈ s) :
    s.idxOf x = s.countP (fun z => decide (z < x)) := by
  induction s with
  | nil => cases hx
  | cons a t ih =>
    rw [List.pairwise_cons] at hs
    rw [List.idxOf_cons, List.countP_cons]
    by_cases hax : a = x
    · subst hax
      have : List.countP (fun z => decide (z < a)) t = 0 := by
        rw [List.countP_eq_zero]
        intro z hz
        have := hs.1 z hz
        simp only [decide_eq_true_eq]; omega
      simp [this]
    · have hxt : x ∈ t := by
        rcases List.mem_cons.1 hx with h | h
        · exact absurd h.symm hax
        · exact h
      have hlt : a < x := hs.1 x hxt
      have hb : (a == x) = false := beq_eq_false_iff_ne.2 hax
      rw [hb, cond_false, ih hs.2 hxt]
      simp [hlt]

theorem sortBy_map_int (zs : List Int) :
    sortBy Label.le (zs.map Label.int) = (sortBy leI zs).map Label.int := by
  have hins : ∀ (x : Int) (l : List Int), insertBy Label.le (Label.int x) (l.map Label.int) = (insertBy leI x l).map Label.int := by
    intro x l
    induction l with
    | nil => rfl
    | cons y ys ih =>
      by_cases hxy : x ≤ y
      · simp [insertBy, Label.le, leI, hxy]
      · simp [insertBy, Label.le, leI, hxy, ih]
  induction zs with
  | nil => rfl
  | cons z zs ih =>
    simp only [List.map_cons, sortBy, List.foldr_cons] at ih ⊢
    rw [ih, hins]

theorem idxOf_map_int (s : List Int) (z : Int) : (s.map Label.int).idxOf (Label.int z) = s.idxOf z := by
  induction s with
  | nil => rfl
  | cons a t ih =>
    simp only [List.map_cons, List.idxOf_cons, ih]
    by_cases h : a = z
    · subst h; simp
    · have h1 : (a == z) = false := beq_eq_false_iff_ne.2 h
      have h2 : (Label.int a == Label.int z) = false := beq_eq_false_iff_ne.2 (fun e => h (by injection e))
      rw [h1, h2]

/-- ids that are all integers (and distinct): the new number of a node is one more than the number of
nodes with a smaller id — the numbering `1..n` in increasing order of the ids -/
theorem ranks_int (zs : List Int) (hn : zs.Nodup) :
    ranks (zs.map Label.int) = zs.map (fun z => zs.countP (fun y => decide (y < z)) + 1) := by
  have hall : (zs.map Label.int).all Label.isInt = true := by simp [Label.isInt]
  unfold ranks
  simp only [hall, Bool.true_or, if_true, List.map_map]
  apply List.map_congr_left
  intro z hz
  simp only [Function.comp, rank, sortBy_map_int, idxOf_map_int]
  have hperm := sortBy_perm leI zs
  have hnd : (sortBy leI zs).Nodup := hperm.nodup_iff.2 hn
  have hsorted : (sortBy leI zs).Pairwise (· < ·) := by
    have h1 := sortBy_sorted_int zs
    have h2 : (sortBy leI zs).Pairwise (· ≠ ·) := hnd
    exact (h1.and h2).imp (fun h => by omega)
  rw [idxOf_strictly_sorted _ hsorted z (hperm.mem_iff.2 hz), hperm.countP_eq]

/-! ### inversion of `readGml` -/

theorem readGml_ok_inv {u : Bool} {ty : GType} {text : Str} {G : AnyG} {nm : Field}
    (h : readGml u ty text = .ok (G, nm)) :
    ∃ P, parseGml u text = .ok P ∧ normalize ty P = .ok G ∧ nm = nameOf P ∧
      (ty = .dag → ∀ g, G = .di g → g.stillDag = true) := by
  unfold readGml at h
  cases hp : parseGml u text with
  | err e => rw [hp] at h; simp only [Res.bind] at h; cases h
  | unmodelled => rw [hp] at h; simp only [Res.bind] at h; cases h
  | ok P =>
    rw [hp] at h
    simp only [Res.bind] at h
    cases hn : normalize ty P with
    | err e => rw [hn] at h; simp only at h; cases h
    | unmodelled => rw [hn] at h; simp only at h; cases h
    | ok G0 =>
      rw [hn] at h
      simp only at h
      split at h
      · rename_i g
        split at h
        · rename_i hs
          cases h
          exact ⟨P, rfl, hn, rfl, fun _ g' e => by cases e; exact hs⟩
        · cases h
      · rename_i hne
        cases h
        refine ⟨P, rfl, hn, rfl, ?_⟩
        intro hty g e
        subst hty; subst e
        exact (hne g rfl rfl).elim

/-! ### `BipartiteGraph.from_networkx` on an arbitrary parsed graph -/

/-- one edge of the loop of `BipartiteGraph.from_networkx`: which `add_edge` call it makes -/
def bipCall (L R : List Nat) (e : Nat × Nat) : Option (Nat × Nat) :=
  let ucolor := !(L.contains e.1)
  let vcolor := R.contains e.2
  if ucolor == vcolor then none
  else if !ucolor then some (rank L e.1, rank R e.2)
  else some (rank L e.2, rank R e.1)

theorem bip_fold_spec (L R : List Nat) : ∀ (es : List (Nat × Nat)) (g0 g : BipG), BipG.Inv g0 →
    es.foldlM (fun g e =>
        let ucolor := !(L.contains e.1)
        let vcolor := R.contains e.2
        if ucolor == vcolor then Except.error Err.valueError
        else if !ucolor then g.addEdge (rank L e.1 : Nat) (rank R e.2 : Nat)
        else g.addEdge (rank L e.2 : Nat) (rank R e.1 : Nat)) g0 = .ok g →
    BipG.Inv g ∧ g.l = g0.l ∧ g.r = g0.r ∧
      (∀ e ∈ es, ∃ c, bipCall L R e = some c ∧ 1 ≤ c.1 ∧ c.1 ≤ g0.l ∧ 1 ≤ c.2 ∧ c.2 ≤ g0.r) ∧
      ∀ p, p ∈ g.edgeset ↔ (p ∈ g0.edgeset ∨ ∃ e ∈ es, bipCall L R e = some p) := by
  intro es
  induction es with
  | nil =>
    intro g0 g hI h
    simp only [List.foldlM_nil] at h
    cases h
    exact ⟨hI, rfl, rfl, by simp, by simp⟩
  | cons e es ih =>
    intro g0 g hI h
    simp only [List.foldlM_cons] at h
    by_cases hc : (!(L.contains e.1)) == R.contains e.2
    · simp only [hc, if_true] at h
      cases h
    · simp only [hc, Bool.false_eq_true, if_false] at h
      -- the call made for `e`
      have hcall : ∃ c, bipCall L R e = some c ∧
          (if (!(!(L.contains e.1))) = true then g0.addEdge (rank L e.1 : Nat) (rank R e.2 : Nat)
            else g0.addEdge (rank L e.2 : Nat) (rank R e.1 : Nat)) = g0.addEdge (c.1 : Nat) (c.2 : Nat) := by
        unfold bipCall
        simp only [hc, Bool.false_eq_true, if_false]
        split
        · exact ⟨_, rfl, rfl⟩
        · exact ⟨_, rfl, rfl⟩
      obtain ⟨c, hc1, hc2⟩ := hcall
      rw [hc2] at h
      cases ha : g0.addEdge (c.1 : Nat) (c.2 : Nat) with
      | error x => rw [ha] at h; cases h
      | ok g1 =>
        rw [ha] at h
        obtain ⟨hv, hI1, hl1, hr1, hE1⟩ := BipG.addEdge_ok hI ha
        obtain ⟨hI2, hl2, hr2, hall, hE2⟩ := ih g1 g hI1 (by simpa only [bind, Except.bind] using h)
        refine ⟨hI2, by rw [hl2, hl1], by rw [hr2, hr1], ?_, ?_⟩
        · intro x hx
          rcases List.mem_cons.1 hx with rfl | hx
          · unfold BipG.Valid at hv
            exact ⟨c, hc1, by omega, by omega, by omega, by omega⟩
          · obtain ⟨c', h1, h2, h3, h4, h5⟩ := hall x hx
            exact ⟨c', h1, h2, by omega, h4, by omega⟩
        · intro p
          rw [hE2, hE1]
          simp only [Int.toNat_natCast, List.mem_cons, exists_eq_or_imp]
          constructor
          · rintro ((h1 | h1) | h1)
            · exact Or.inl h1
            · exact Or.inr (Or.inl (by rw [hc1, h1]))
            · exact Or.inr (Or.inr h1)
          · rintro (h1 | h1 | h1)
            · exact Or.inl (Or.inl h1)
            · rw [hc1] at h1; injection h1 with h1; exact Or.inl (Or.inr h1.symm)
            · exact Or.inr h1

/-- the positions on one side, in the order of the file -/
def Parsed.side (P : Parsed) (b : Bool) : List Nat :=
  (((List.range P.labels.length).zip (P.colours.map colourBool)).filter (fun p => p.2 == some b)).map (·.1)

/-- type `bipartite`: an accepted text gives every node a side (`0 1 "0" "1"`); the two sides are numbered
separately in the order of the file; every edge of the text joins the two sides and is an edge of the object
(in either orientation of `source` / `target`), and there are no other edges -/
theorem normalize_bip_spec {P : Parsed} (hP : P.WF) {G : AnyG} (h : normalize .bipartite P = .ok G) :
    ∃ g, G = .bip g ∧ BipG.Inv g ∧ g.l = (P.side false).length ∧ g.r = (P.side true).length ∧
      (∀ c ∈ P.colours.map colourBool, c ≠ none) ∧
      ∀ p, p ∈ g.edgeset ↔
        ∃ e ∈ nxEdges P.directed P.labels.length P.tedges, bipCall (P.side false) (P.side true) e = some p := by
  simp only [normalize] at h
  split at h
  · cases h
  · cases hb : bipOfNx ((List.range P.labels.length).zip (P.colours.map colourBool))
        (nxEdges P.directed P.labels.length P.tedges) with
    | error e => rw [hb] at h; cases h
    | ok g =>
      rw [hb] at h
      simp only [liftE, Res.bind] at h
      cases h
      unfold bipOfNx at hb
      split at hb
      · cases hb
      · rename_i hnone
        obtain ⟨h1, h2, h3, _, h5⟩ := bip_fold_spec (P.side false) (P.side true) _ _ g (BipG.inv_init _ _) hb
        refine ⟨g, rfl, h1, by rw [h2]; rfl, by rw [h3]; rfl, ?_, ?_⟩
        · intro c hc hcn
          apply hnone
          rw [List.any_eq_true]
          obtain ⟨k, hk, hk2⟩ := List.mem_iff_getElem.1 hc
          have hkc : k < P.colours.length := by simpa using hk
          have hk' : k < (List.range P.labels.length).length := by
            rw [List.length_range, ← hP.colours]; exact hkc
          refine ⟨((List.range P.labels.length)[k], (P.colours.map colourBool)[k]), ?_, by rw [hk2, hcn]; rfl⟩
          rw [List.mem_iff_getElem]
          exact ⟨k, by rw [List.length_zip]; omega, by rw [List.getElem_zip]⟩
        · intro p
          rw [h5]
          simp [BipG.init]

theorem mem_zip_range {β} {n : Nat} {cols : List β} {i : Nat} {c : β} (h : (i, c) ∈ (List.range n).zip cols) :
    cols[i]? = some c := by
  obtain ⟨k, hk, hk2⟩ := List.mem_iff_getElem.1 h
  rw [List.getElem_zip] at hk2
  injection hk2 with h1 h2
  rw [List.getElem_range] at h1
  subst h1
  rw [← h2]
  rw [List.length_zip] at hk
  exact List.getElem?_eq_getElem (by omega)

theorem mem_side {P : Parsed} {b : Bool} {i : Nat} :
    i ∈ P.side b → (P.colours.map colourBool)[i]? = some (some b) := by
  intro h
  simp only [Parsed.side, List.mem_map, List.mem_filter, beq_iff_eq] at h
  obtain ⟨⟨j, c⟩, ⟨hm, hc⟩, rfl⟩ := h
  simp only at hc
  subst hc
  exact mem_zip_range hm

theorem side_disjoint {P : Parsed} {i : Nat} (h1 : i ∈ P.side false) (h2 : i ∈ P.side true) : False := by
  have a := mem_side h1
  have b := mem_side h2
  rw [a] at b
  cases b

theorem rank_le_iff {L : List Nat} {i : Nat} : rank L i ≤ L.length ↔ i ∈ L := by
  simp only [rank]
  constructor
  · intro h
    exact List.idxOf_lt_length_iff.1 (by omega)
  · intro h
    have := List.idxOf_lt_length_iff.2 h
    omega

/-- `normalize_bip_spec` in terms of the edges of the text -/
theorem normalize_bip_edges {P : Parsed} (hP : P.WF) {G : AnyG} (h : normalize .bipartite P = .ok G) :
    ∃ g, G = .bip g ∧ BipG.Inv g ∧ g.l = (P.side false).length ∧ g.r = (P.side true).length ∧
      (∀ c ∈ P.colours.map colourBool, c ≠ none) ∧
      (∀ e ∈ P.tedges, (e.1 ∈ P.side false ∧ e.2 ∈ P.side true) ∨ (e.2 ∈ P.side false ∧ e.1 ∈ P.side true)) ∧
      ∀ x y, (x, y) ∈ g.edgeset ↔ ∃ i j, ((i, j) ∈ P.tedges ∨ (j, i) ∈ P.tedges) ∧ i ∈ P.side false ∧ j ∈ P.side true ∧
        x = rank (P.side false) i ∧ y = rank (P.side true) j := by
  -- redo the fold to keep the validity of every call
  have h0 := h
  simp only [normalize] at h0
  split at h0
  · cases h0
  · cases hb : bipOfNx ((List.range P.labels.length).zip (P.colours.map colourBool))
        (nxEdges P.directed P.labels.length P.tedges) with
    | error e => rw [hb] at h0; cases h0
    | ok g0 =>
      obtain ⟨g, hg, hI, hl, hr, hcol, hE⟩ := normalize_bip_spec hP h
      rw [hb] at h0
      simp only [liftE, Res.bind] at h0
      cases h0
      cases hg
      unfold bipOfNx at hb
      split at hb
      · cases hb
      · obtain ⟨_, h2, h3, hvalid, _⟩ := bip_fold_spec (P.side false) (P.side true) _ _ g0 (BipG.inv_init _ _) hb
        have hl0 : (BipG.init (P.side false).length (P.side true).length).l = (P.side false).length := rfl
        have hr0 : (BipG.init (P.side false).length (P.side true).length).r = (P.side true).length := rfl
        -- what a successful call says about an edge networkx reports
        have hcase : ∀ e ∈ nxEdges P.directed P.labels.length P.tedges, ∀ p, bipCall (P.side false) (P.side true) e = some p →
            (e.1 ∈ P.side false ∧ e.2 ∈ P.side true ∧ p = (rank (P.side false) e.1, rank (P.side true) e.2)) ∨
            (e.2 ∈ P.side false ∧ e.1 ∈ P.side true ∧ p = (rank (P.side false) e.2, rank (P.side true) e.1)) := by
          intro e he p hp
          obtain ⟨c, hc, v1, v2, v3, v4⟩ := hvalid e he
          rw [hp] at hc
          injection hc with hc
          subst hc
          have v2 : p.1 ≤ (P.side false).length := v2
          have v4 : p.2 ≤ (P.side true).length := v4
          unfold bipCall at hp
          simp only at hp
          split at hp
          · cases hp
          · split at hp
            · injection hp with hp
              subst hp
              exact Or.inl ⟨rank_le_iff.1 v2, rank_le_iff.1 v4, rfl⟩
            · injection hp with hp
              subst hp
              exact Or.inr ⟨rank_le_iff.1 v2, rank_le_iff.1 v4, rfl⟩
        -- membership in what networkx reports, whatever the orientation
        have hmem : ∀ i j, ((i, j) ∈ nxEdges P.directed P.labels.length P.tedges ∨
            (j, i) ∈ nxEdges P.directed P.labels.length P.tedges) ↔ ((i, j) ∈ P.tedges ∨ (j, i) ∈ P.tedges) := by
          intro i j
          have hW : (NxG.mk P.labels.length P.tedges).WF := hP.ends
          cases hd : P.directed
          · rw [nxEdges_false, NxG.mem_edges, NxG.mem_edges]
            constructor
            · rintro (⟨_, _, h⟩ | ⟨_, _, h⟩)
              · exact h
              · exact h.symm
            · intro h
              have hr : i < P.labels.length ∧ j < P.labels.length := by
                rcases h with h | h
                · exact hP.ends _ h
                · exact (hP.ends _ h).symm
              rcases Nat.le_total i j with hle | hle
              · exact Or.inl ⟨hr.1, hle, h⟩
              · exact Or.inr ⟨hr.2, hle, h.symm⟩
          · rw [nxEdges_true, mem_diEdges, mem_diEdges]
            constructor
            · rintro (⟨_, h⟩ | ⟨_, h⟩)
              · exact Or.inl h
              · exact Or.inr h
            · rintro (h | h)
              · exact Or.inl ⟨(hP.ends _ h).1, h⟩
              · exact Or.inr ⟨(hP.ends _ h).1, h⟩
        refine ⟨g0, rfl, hI, hl, hr, hcol, ?_, ?_⟩
        · intro e he
          rcases (hmem e.1 e.2).2 (Or.inl he) with h | h
          · obtain ⟨c, hc, _⟩ := hvalid _ h
            rcases hcase _ h c hc with ⟨a, b, _⟩ | ⟨a, b, _⟩
            · exact Or.inl ⟨a, b⟩
            · exact Or.inr ⟨a, b⟩
          · obtain ⟨c, hc, _⟩ := hvalid _ h
            rcases hcase _ h c hc with ⟨a, b, _⟩ | ⟨a, b, _⟩
            · exact Or.inr ⟨a, b⟩
            · exact Or.inl ⟨a, b⟩
        · intro x y
          rw [hE]
          constructor
          · rintro ⟨e, he, hp⟩
            rcases hcase e he _ hp with ⟨a, b, hxy⟩ | ⟨a, b, hxy⟩
            · injection hxy with hx hy
              exact ⟨e.1, e.2, (hmem _ _).1 (Or.inl he), a, b, hx, hy⟩
            · injection hxy with hx hy
              exact ⟨e.2, e.1, (hmem _ _).1 (Or.inr he), a, b, hx, hy⟩
          · rintro ⟨i, j, hij, hi, hj, rfl, rfl⟩
            have hiR : i ∉ P.side true := fun h => side_disjoint hi h
            have hjL : j ∉ P.side false := fun h => side_disjoint h hj
            rcases (hmem i j).2 hij with h | h
            · refine ⟨(i, j), h, ?_⟩
              simp [bipCall, hi, hj]
            · refine ⟨(j, i), h, ?_⟩
              simp [bipCall, hjL, hiR]

end Cnfgen.Gml
