/-
C19 heap lemmas, part 2 — every transformation follows the region discipline.
-/
import Lemmas.HeapSize
namespace Cnfgen
namespace Heap
local notation "Addr" => Nat

/-- what is proved of every call: the discipline, and the returned address is a new object -/
def Disciplined (s : Store) (res : Store × Except Err Addr) : Prop :=
  Good s res.1 ∧ ∀ r : Nat, res.2 = .ok r → s.size ≤ r ∧ r < res.1.size

theorem good_err {s : Store} (e : Err) : Disciplined s (s, (Except.error e : Except Err Addr)) :=
  ⟨Good.refl s, by intro r h; cases h⟩

theorem good_build {s : Store} (cfg : Cfg) (acts : List Act) : Disciplined s (build cfg s acts) := by
  unfold Disciplined build
  obtain ⟨h1, hr⟩ := good_newCNF cfg none (Good.refl s)
  have hlt := newCNF_addr_lt cfg s none
  have h2 := good_runActs hr acts _ h1
  have hsz := size_runActs (newCNF cfg s).2 acts (newCNF cfg s).1
  simp only []
  split
  · rename_i s2 e heq; rw [heq] at h2; exact ⟨h2, by intro r hr'; cases hr'⟩
  · rename_i s2 u heq; rw [heq] at h2 hsz
    exact ⟨h2, by intro r hr'; cases hr'; exact ⟨hr, by show _ < Array.size s2; simp only [] at hsz; omega⟩⟩

theorem good_kSubst (cfg : Cfg) (s : Store) (f : Addr) (k : Int) (text : String)
    (enc : Nat → Int → List Clause) :
    Disciplined s (kSubst cfg s f k text enc) := by
  unfold kSubst
  split
  · exact good_err _
  · split
    · exact good_err _
    · exact good_build cfg _

/-- every transformation, every store, every argument, normal and exceptional exit -/
theorem good_apply (cfg : Cfg) (t : Tr) (s : Store) (f : Addr) :
    Disciplined s (t.apply cfg s f) := by
  unfold Tr.apply
  split
  · exact good_err _
  · cases t with
    | flip => exact good_build cfg _
    | xor k => exact good_kSubst ..
    | or k => exact good_kSubst ..
    | maj k => exact good_kSubst ..
    | allEqual k => exact good_kSubst ..
    | notAllEqual k => exact good_kSubst ..
    | exactlyOne k => exact good_kSubst ..
    | linear k o C => exact good_kSubst ..
    | ite =>
      simp only []
      split
      · exact good_err _
      · exact good_build cfg _
    | lift k =>
      simp only []
      split
      · exact good_err _
      · split
        · exact good_err _
        · exact good_build cfg _
    | compress b fn =>
      simp only []
      split
      · exact good_err _
      · split
        · exact good_err _
        · split
          · exact good_err _
          · exact good_build cfg _
    | shuffle fl vp cp =>
      simp only []
      split
      · obtain ⟨h1, hr⟩ := good_newCNF cfg none (Good.refl s)
        have hlt := newCNF_addr_lt cfg s none
        have h2' := fun acts => good_runActs hr acts _ h1
        have hsz' := fun acts => size_runActs (newCNF cfg s).2 acts (newCNF cfg s).1
        split
        · rename_i s2 e heq; have h2 := congrArg Prod.fst heq ▸ h2' _; exact ⟨h2, by intro r hr'; cases hr'⟩
        · rename_i s2 u heq; have h2 := congrArg Prod.fst heq ▸ h2' _
          have hsz := congrArg Prod.fst heq ▸ hsz' _
          split
          · exact ⟨h2, by intro r hr'; cases hr'⟩
          · exact ⟨h2, by intro r hr'; cases hr'; exact ⟨hr, by show _ < Array.size s2; simp only [] at hsz; omega⟩⟩
      · exact good_err _

/-! ### reachability -/

/-- `Reach s a y`: the object at `y` can be reached from the object at `a` by following attribute slots
and list elements -/
inductive Reach (s : Store) : Nat → Nat → Prop where
  | refl (a : Nat) : Reach s a a
  | step {a x y : Nat} {c : Cell} : s[a]? = some c → x ∈ c.refsOf → Reach s x y → Reach s a y

theorem reach_closed {b : Nat} {s : Store} (h : Closed b s) {a y : Nat} (hr : Reach s a y) (ha : b ≤ a) :
    b ≤ y := by
  induction hr with
  | refl a => exact ha
  | step hc hx _ ih => exact ih (h _ _ ha hc _ hx).1

theorem reach_inbounds {b : Nat} {s : Store} (h : Closed b s) {a y : Nat} (hr : Reach s a y) (ha : b ≤ a)
    (hlt : a < s.size) : y < s.size := by
  induction hr with
  | refl a => exact hlt
  | step hc hx _ ih => exact ih (h _ _ ha hc _ hx).1 (h _ _ ha hc _ hx).2

end Heap
end Cnfgen
