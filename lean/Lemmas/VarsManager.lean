/-
Lemmas for T-C10.2 — the history invariant of the `VariablesManager` / `BaseCNF` state machine:
the largest variable mentioned by a stored clause never exceeds the declared number of variables,
so that a new group (which starts at `numvar + 1`) is disjoint from everything mentioned before.
-/
import CnfgenModel.Vars.Manager
namespace Cnfgen
namespace Vars

/-- the invariant -/
def Inv (s : MState) : Prop := s.maxMentioned ≤ s.numvar

theorem maxAbs_le_iff (c : Clause) (n : Nat) : maxAbs c ≤ n ↔ ∀ l ∈ c, l.natAbs ≤ n := by
  induction c with
  | nil => simp [maxAbs]
  | cons l ls ih => simp [maxAbs, Nat.max_le, ih]
theorem maxMentionedOf_le_iff (cs : List Clause) (n : Nat) :
    maxMentionedOf cs ≤ n ↔ ∀ c ∈ cs, ∀ l ∈ c, l.natAbs ≤ n := by
  induction cs with
  | nil => simp [maxMentionedOf]
  | cons c cs ih => simp [maxMentionedOf, Nat.max_le, ih, maxAbs_le_iff]
theorem maxMentionedOf_append (cs ds : List Clause) :
    maxMentionedOf (cs ++ ds) = max (maxMentionedOf cs) (maxMentionedOf ds) := by
  induction cs with
  | nil => simp [maxMentionedOf]
  | cons c cs ih => simp [maxMentionedOf, ih, Nat.max_assoc]

theorem maxMentionedOf_singleton (c : Clause) : maxMentionedOf [c] = maxAbs c := by
  simp [maxMentionedOf]

/-- `Inv` says: every stored literal is within the declared number of variables -/
theorem inv_iff (s : MState) : Inv s ↔ ∀ c ∈ s.clauses, ∀ l ∈ c, l.natAbs ≤ s.numvar := by
  simp [Inv, MState.maxMentioned, maxMentionedOf_le_iff]

theorem inv_init : Inv MState.init := by
  simp [Inv, MState.init, MState.maxMentioned, maxMentionedOf]

/-! ### `Except` binds and `mkGroup` -/

theorem bind_ok {α β} {x : Except Err α} {f : α → Except Err β} {b : β} :
    (x >>= f) = .ok b ↔ ∃ a, x = .ok a ∧ f a = .ok b := by
  cases x <;> simp [bind, Except.bind]

theorem bind_error {α β} {x : Except Err α} {f : α → Except Err β} {e : Err} :
    (x >>= f) = .error e ↔ x = .error e ∨ ∃ a, x = .ok a ∧ f a = .error e := by
  cases x <;> simp [bind, Except.bind]

/-- every group handed out by a constructor starts right after the declared variables -/
theorem mkGroup_start {numvar : Nat} {spec : GroupSpec} {g : Group} (h : mkGroup numvar spec = .ok g) :
    g.start = numvar + 1 := by
  cases spec <;> simp only [mkGroup, bind, Except.bind, pure, Except.pure, throw, throwThe,
    MonadExceptOf.throw] at h <;>
    (repeat' split at h) <;> first
      | (cases h; rfl)
      | (simp at h; done)
      | skip

theorem addGroup_numvar_mono (s : MState) (g : Group) : s.numvar ≤ (addGroup s g).1.numvar := by
  unfold addGroup; split
  · simp
  · split <;> simp [Nat.le_max_left]

/-- the number of variables never decreases -/
theorem step_numvar_mono (s : MState) (op : MOp) : s.numvar ≤ (step s op).1.numvar := by
  cases op with
  | addClause c check =>
    simp only [step, addClause]; repeat' split
    all_goals simp [Nat.le_max_left]
  | updateVarNum n =>
    simp only [step, updateVarNum]; split <;> simp [Nat.le_max_left]
  | newGroup spec =>
    simp only [step, newGroup]; split
    · simp
    · exact addGroup_numvar_mono s _
/-- clauses are only appended, groups are only appended -/
theorem step_clauses_prefix (s : MState) (op : MOp) : ∃ cs, (step s op).1.clauses = s.clauses ++ cs := by
  cases op with
  | addClause c check =>
    simp only [step, addClause]; repeat' split
    all_goals first | exact ⟨[c], rfl⟩ | exact ⟨[], by simp⟩
  | updateVarNum n =>
    simp only [step, updateVarNum]; split <;> exact ⟨[], by simp⟩
  | newGroup spec =>
    simp only [step, newGroup]; split
    · exact ⟨[], by simp⟩
    · simp only [addGroup]; repeat' split
      all_goals exact ⟨[], by simp⟩
theorem step_groups_prefix (s : MState) (op : MOp) : ∃ gs, (step s op).1.groups = s.groups ++ gs := by
  cases op with
  | addClause c check =>
    simp only [step, addClause]; repeat' split
    all_goals exact ⟨[], by simp⟩
  | updateVarNum n =>
    simp only [step, updateVarNum]; split <;> exact ⟨[], by simp⟩
  | newGroup spec =>
    simp only [step, newGroup]; split
    · exact ⟨[], by simp⟩
    · rename_i g _
      simp only [addGroup]; repeat' split
      all_goals first | exact ⟨[g], rfl⟩ | exact ⟨[], by simp⟩

/-- a checked insertion (accepted or rejected) preserves the invariant -/
theorem addClause_checked_inv {s : MState} (c : Clause) (h : Inv s) : Inv (addClause s c true).1 := by
  unfold Inv MState.maxMentioned at *
  unfold addClause
  split
  · rename_i hc
    have : c = [] := by simpa using hc
    subst this
    simp [maxMentionedOf_append, maxMentionedOf, maxAbs, h]
  · simp only [if_true]
    split
    · exact h
    · simp only [maxMentionedOf_append, maxMentionedOf_singleton]
      omega
/-- a rejected clause leaves the state unchanged -/
theorem addClause_rejected {s : MState} {c : Clause} {check : Bool} {e : Err}
    (h : (addClause s c check).2 = .error e) : (addClause s c check).1 = s ∧ e = .valueError ∧ check = true := by
  unfold addClause at h ⊢
  repeat' split at h
  all_goals simp_all
  all_goals (cases h; rfl)
/-- an unchecked insertion preserves the invariant iff the clause is within the declared variables -/
theorem addClause_unchecked_inv {s : MState} (c : Clause) (h : Inv s) :
    Inv (addClause s c false).1 ↔ maxAbs c ≤ s.numvar := by
  unfold Inv MState.maxMentioned at *
  have : (addClause s c false).1 = { s with clauses := s.clauses ++ [c] } := by
    unfold addClause; split <;> simp
  rw [this]
  simp only [maxMentionedOf_append, maxMentionedOf_singleton]
  omega
theorem updateVarNum_inv {s : MState} (n : Int) (h : Inv s) : Inv (updateVarNum s n).1 := by
  unfold Inv MState.maxMentioned at *
  unfold updateVarNum; split
  · exact h
  · simp only; omega

theorem addGroup_clauses (s : MState) (g : Group) : (addGroup s g).1.clauses = s.clauses := by
  unfold addGroup; repeat' split
  all_goals rfl

theorem newGroup_clauses (s : MState) (spec : GroupSpec) : (newGroup s spec).1.clauses = s.clauses := by
  unfold newGroup; split
  · rfl
  · exact addGroup_clauses s _

theorem newGroup_numvar_mono (s : MState) (spec : GroupSpec) : s.numvar ≤ (newGroup s spec).1.numvar :=
  step_numvar_mono s (.newGroup spec)

theorem newGroup_inv {s : MState} (spec : GroupSpec) (h : Inv s) : Inv (newGroup s spec).1 := by
  unfold Inv MState.maxMentioned at *
  rw [newGroup_clauses]
  exact Nat.le_trans h (newGroup_numvar_mono s spec)

/-- a successful `newGroup` is a successful `mkGroup` followed by `addGroup` -/
theorem newGroup_ok_mk {s : MState} {spec : GroupSpec} {g : Group} (h : (newGroup s spec).2 = .ok (some g)) :
    mkGroup s.numvar spec = .ok g ∧ newGroup s spec = addGroup s g := by
  unfold newGroup at h ⊢
  split at h
  · simp at h
  · rename_i g' hg'
    have : g' = g := by
      unfold addGroup at h
      repeat' split at h
      all_goals simp_all
    subst this
    simp [hg']

/-- the new group is `[numvar+1, numvar+len]`, the count is raised to its last identifier, and
nothing else changes -/
theorem newGroup_ok {s : MState} {spec : GroupSpec} {g : Group} (h : (newGroup s spec).2 = .ok (some g)) :
    g.start = s.numvar + 1 ∧ g.ids = List.range' (s.numvar + 1) g.len ∧
    (newGroup s spec).1.numvar = s.numvar + g.len ∧
    (newGroup s spec).1.groups = s.groups ++ [g] ∧ (newGroup s spec).1.clauses = s.clauses := by
  obtain ⟨hmk, heq⟩ := newGroup_ok_mk h
  have hs := mkGroup_start hmk
  refine ⟨hs, by simp [Group.ids, hs], ?_, ?_, newGroup_clauses s spec⟩
  · rw [heq]; unfold addGroup; split
    · simp_all
    · split
      · omega
      · simp only; omega
  · rw [heq]; unfold addGroup; split
    · rfl
    · split
      · omega
      · rfl
/-- a failing constructor leaves the state unchanged -/
theorem newGroup_error {s : MState} {spec : GroupSpec} {e : Err} (h : (newGroup s spec).2 = .error e) :
    (newGroup s spec).1 = s := by
  unfold newGroup at h ⊢
  split
  · rfl
  · rename_i g hg
    simp only [hg] at h
    unfold addGroup at h ⊢
    repeat' split at h
    all_goals simp_all
/-- `newGroup` never answers `.ok none` -/
theorem newGroup_not_none (s : MState) (spec : GroupSpec) : (newGroup s spec).2 ≠ .ok none := by
  unfold newGroup; split
  · simp
  · unfold addGroup; repeat' split
    all_goals simp

/-- freshness: under the invariant no identifier of the new group was mentioned by an earlier clause -/
theorem newGroup_fresh {s : MState} {spec : GroupSpec} {g : Group} (hinv : Inv s)
    (h : (newGroup s spec).2 = .ok (some g)) :
    ∀ v ∈ g.ids, s.maxMentioned < v ∧ ∀ c ∈ s.clauses, ∀ l ∈ c, l.natAbs ≠ v := by
  obtain ⟨_, hids, _⟩ := newGroup_ok h
  intro v hv
  rw [hids, List.mem_range'_1] at hv
  have hlt : s.maxMentioned < v := Nat.lt_of_le_of_lt hinv (by omega)
  refine ⟨hlt, ?_⟩
  intro c hc l hl
  have := (inv_iff s).1 hinv c hc l hl
  omega

/-- the obligation of the caller of `add_clause(…, check=False)` -/
def Guarded (s : MState) : MOp → Prop
  | .addClause c false => maxAbs c ≤ s.numvar
  | _ => True

/-- every unchecked insertion of the history is within the variables declared at that moment -/
def GuardedRun : MState → List MOp → Prop
  | _, [] => True
  | s, op :: ops => Guarded s op ∧ GuardedRun (step s op).1 ops

theorem step_inv {s : MState} {op : MOp} (h : Inv s) (hg : Guarded s op) : Inv (step s op).1 := by
  cases op with
  | addClause c check =>
    cases check with
    | true => exact addClause_checked_inv c h
    | false => exact (addClause_unchecked_inv c h).2 hg
  | updateVarNum n => exact updateVarNum_inv n h
  | newGroup spec => exact newGroup_inv spec h

theorem run_nil (s : MState) : run s [] = s := rfl

theorem run_cons (s : MState) (op : MOp) (ops : List MOp) : run s (op :: ops) = run (step s op).1 ops := rfl
theorem run_append (s : MState) (ops ops' : List MOp) : run s (ops ++ ops') = run (run s ops) ops' := by
  simp [run, List.foldl_append]

/-- T-C10.2, histories: the invariant holds after every guarded history -/
theorem run_inv {s : MState} {ops : List MOp} (h : Inv s) (hg : GuardedRun s ops) : Inv (run s ops) := by
  induction ops generalizing s with
  | nil => exact h
  | cons op ops ih => rw [run_cons]; exact ih (step_inv h hg.1) hg.2

theorem guardedRun_append {s : MState} {ops ops' : List MOp} :
    GuardedRun s (ops ++ ops') ↔ GuardedRun s ops ∧ GuardedRun (run s ops) ops' := by
  induction ops generalizing s with
  | nil => simp [GuardedRun, run_nil]
  | cons op ops ih => simp [GuardedRun, run_cons, ih, and_assoc]

/-- T-C10.2, freshness along histories: whenever a guarded history creates a group, none of its
identifiers was mentioned by a clause stored before -/
theorem history_fresh {ops : List MOp} {spec : GroupSpec} {g : Group}
    (hg : GuardedRun MState.init (ops ++ [.newGroup spec]))
    (h : (newGroup (run MState.init ops) spec).2 = .ok (some g)) :
    ∀ v ∈ g.ids, ∀ c ∈ (run MState.init ops).clauses, ∀ l ∈ c, l.natAbs ≠ v := by
  have hinv : Inv (run MState.init ops) := run_inv inv_init (guardedRun_append.1 hg).1
  intro v hv
  exact (newGroup_fresh hinv h v hv).2

/-- the number of variables only grows along a history -/
theorem run_numvar_mono (s : MState) (ops : List MOp) : s.numvar ≤ (run s ops).numvar := by
  induction ops generalizing s with
  | nil => exact Nat.le_refl _
  | cons op ops ih => rw [run_cons]; exact Nat.le_trans (step_numvar_mono s op) (ih _)

end Vars
end Cnfgen
