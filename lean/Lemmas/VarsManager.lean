/-
Lemmas for T-C10.2 — the history invariant of the `VariablesManager` / `BaseCNF` state machine:
the largest variable mentioned by a stored clause never exceeds the declared number of variables,
so that a new group (which starts at `numvar + 1`) is disjoint from everything mentioned before.
-/
import CnfgenModel.Vars.Manager
namespace Cnfgen
namespace Vars

/-- the invariant -/
def Inv (s : MState) : Prop := s.maxMentioned ≤ s.numvar

theorem maxAbs_le_iff (c : Clause) (n : Nat) : maxAbs c ≤ n ↔ ∀ l ∈ c, l.natAbs ≤ n := sorry
theorem maxMentionedOf_le_iff (cs : List Clause) (n : Nat) :
    maxMentionedOf cs ≤ n ↔ ∀ c ∈ cs, ∀ l ∈ c, l.natAbs ≤ n := sorry
theorem maxMentionedOf_append (cs ds : List Clause) :
    maxMentionedOf (cs ++ ds) = max (maxMentionedOf cs) (maxMentionedOf ds) := sorry

/-- `Inv` says: every stored literal is within the declared number of variables -/
theorem inv_iff (s : MState) : Inv s ↔ ∀ c ∈ s.clauses, ∀ l ∈ c, l.natAbs ≤ s.numvar := sorry

theorem inv_init : Inv MState.init := sorry

/-- the number of variables never decreases -/
theorem step_numvar_mono (s : MState) (op : MOp) : s.numvar ≤ (step s op).1.numvar := sorry
/-- clauses are only appended, groups are only appended -/
theorem step_clauses_prefix (s : MState) (op : MOp) : ∃ cs, (step s op).1.clauses = s.clauses ++ cs := sorry
theorem step_groups_prefix (s : MState) (op : MOp) : ∃ gs, (step s op).1.groups = s.groups ++ gs := sorry

/-- a checked insertion (accepted or rejected) preserves the invariant -/
theorem addClause_checked_inv {s : MState} (c : Clause) (h : Inv s) : Inv (addClause s c true).1 := sorry
/-- a rejected clause leaves the state unchanged -/
theorem addClause_rejected {s : MState} {c : Clause} {check : Bool} {e : Err}
    (h : (addClause s c check).2 = .error e) : (addClause s c check).1 = s ∧ e = .valueError ∧ check = true := sorry
/-- an unchecked insertion preserves the invariant iff the clause is within the declared variables -/
theorem addClause_unchecked_inv {s : MState} (c : Clause) (h : Inv s) :
    Inv (addClause s c false).1 ↔ maxAbs c ≤ s.numvar := sorry
theorem updateVarNum_inv {s : MState} (n : Int) (h : Inv s) : Inv (updateVarNum s n).1 := sorry
theorem newGroup_inv {s : MState} (spec : GroupSpec) (h : Inv s) : Inv (newGroup s spec).1 := sorry

/-- every group handed out by a constructor starts right after the declared variables -/
theorem mkGroup_start {numvar : Nat} {spec : GroupSpec} {g : Group} (h : mkGroup numvar spec = .ok g) :
    g.start = numvar + 1 := sorry

/-- the new group is `[numvar+1, numvar+len]`, the count is raised to its last identifier, and
nothing else changes -/
theorem newGroup_ok {s : MState} {spec : GroupSpec} {g : Group} (h : (newGroup s spec).2 = .ok (some g)) :
    g.start = s.numvar + 1 ∧ g.ids = List.range' (s.numvar + 1) g.len ∧
    (newGroup s spec).1.numvar = s.numvar + g.len ∧
    (newGroup s spec).1.groups = s.groups ++ [g] ∧ (newGroup s spec).1.clauses = s.clauses := sorry
/-- a failing constructor leaves the state unchanged -/
theorem newGroup_error {s : MState} {spec : GroupSpec} {e : Err} (h : (newGroup s spec).2 = .error e) :
    (newGroup s spec).1 = s := sorry
/-- `newGroup` never answers `.ok none` -/
theorem newGroup_not_none (s : MState) (spec : GroupSpec) : (newGroup s spec).2 ≠ .ok none := sorry

/-- freshness: under the invariant no identifier of the new group was mentioned by an earlier clause -/
theorem newGroup_fresh {s : MState} {spec : GroupSpec} {g : Group} (hinv : Inv s)
    (h : (newGroup s spec).2 = .ok (some g)) :
    ∀ v ∈ g.ids, s.maxMentioned < v ∧ ∀ c ∈ s.clauses, ∀ l ∈ c, l.natAbs ≠ v := sorry

/-- the obligation of the caller of `add_clause(…, check=False)` -/
def Guarded (s : MState) : MOp → Prop
  | .addClause c false => maxAbs c ≤ s.numvar
  | _ => True

/-- every unchecked insertion of the history is within the variables declared at that moment -/
def GuardedRun : MState → List MOp → Prop
  | _, [] => True
  | s, op :: ops => Guarded s op ∧ GuardedRun (step s op).1 ops

theorem step_inv {s : MState} {op : MOp} (h : Inv s) (hg : Guarded s op) : Inv (step s op).1 := sorry

theorem run_cons (s : MState) (op : MOp) (ops : List MOp) : run s (op :: ops) = run (step s op).1 ops := sorry
theorem run_append (s : MState) (ops ops' : List MOp) : run s (ops ++ ops') = run (run s ops) ops' := sorry

/-- T-C10.2, histories: the invariant holds after every guarded history -/
theorem run_inv {s : MState} {ops : List MOp} (h : Inv s) (hg : GuardedRun s ops) : Inv (run s ops) := sorry

theorem guardedRun_append {s : MState} {ops ops' : List MOp} :
    GuardedRun s (ops ++ ops') ↔ GuardedRun s ops ∧ GuardedRun (run s ops) ops' := sorry

/-- T-C10.2, freshness along histories: whenever a guarded history creates a group, none of its
identifiers was mentioned by a clause stored before -/
theorem history_fresh {ops : List MOp} {spec : GroupSpec} {g : Group}
    (hg : GuardedRun MState.init (ops ++ [.newGroup spec]))
    (h : (newGroup (run MState.init ops) spec).2 = .ok (some g)) :
    ∀ v ∈ g.ids, ∀ c ∈ (run MState.init ops).clauses, ∀ l ∈ c, l.natAbs ≠ v := sorry

/-- the number of variables only grows along a history -/
theorem run_numvar_mono (s : MState) (ops : List MOp) : s.numvar ≤ (run s ops).numvar := sorry

end Vars
end Cnfgen
