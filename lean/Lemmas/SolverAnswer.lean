/-
Vocabulary and helper lemmas for the statements of Props/C20.lean: the pieces of a
well-formed solver answer, the minisat result file, and what "a list of literals satisfies a
formula" means.
-/
import Lemmas.SolverParse
namespace Cnfgen.Solver

/-- the pieces a well-behaved solver prints: comment / blank / other lines, the status line, and
value lines each carrying some literals (with arbitrary blank separators, an optional `0`) -/
inductive Piece where
  | other (text : Str)
  | status
  | values (lits : List (Str × Int)) (zero : Option Str) (trail : Str)

def statusLine (sat : Bool) : Str :=
  if sat then "s SATISFIABLE".toList else "s UNSATISFIABLE".toList

def Piece.render (sat : Bool) : Piece → Str
  | .other t => t
  | .status => statusLine sat
  | .values lits z trail => renderValues lits z trail

def Piece.Good : Piece → Prop
  | .other t => IsOther t
  | .status => True
  | .values lits z trail => GoodLits lits ∧ GoodZero z ∧ AllSpace trail

def Piece.lits : Piece → List Int
  | .values lits _ _ => lits.map (·.2)
  | _ => []

/-- all literals the solver printed, in the order printed -/
def allLits (ps : List Piece) : List Int := ps.flatMap Piece.lits

theorem statusLine_verdict (sat : Bool) : lineVerdict (statusLine sat) = some (some sat) := by
  cases sat <;> decide

theorem statusLine_err (sat : Bool) : lineErr (statusLine sat) = none := by
  cases sat <;> decide

theorem statusLine_lits (sat : Bool) : lineLits (statusLine sat) = [] := by
  cases sat <;> decide

theorem render_err (sat : Bool) (p : Piece) (h : p.Good) : lineErr (p.render sat) = none := by
  cases p with
  | other t => exact lineErr_other t h
  | status => exact statusLine_err sat
  | values lits z trail => exact lineErr_renderValues lits z trail h.1 h.2.1 h.2.2

theorem render_lits (sat : Bool) (p : Piece) (h : p.Good) : lineLits (p.render sat) = p.lits := by
  cases p with
  | other t => exact lineLits_other t h
  | status => exact statusLine_lits sat
  | values lits z trail => exact lineLits_renderValues lits z trail h.1 h.2.1 h.2.2

theorem render_verdict (sat : Bool) (p : Piece) (h : p.Good) :
    lineVerdict (p.render sat) = none ∨ lineVerdict (p.render sat) = some (some sat) := by
  cases p with
  | other t => exact Or.inl (lineVerdict_other t h)
  | status => exact Or.inr (statusLine_verdict sat)
  | values lits z trail => exact Or.inl (lineVerdict_renderValues lits z trail)

theorem flatMap_render_lits (sat : Bool) (ps : List Piece) (h : ∀ p ∈ ps, p.Good) :
    (ps.map (Piece.render sat)).flatMap lineLits = allLits ps := by
  induction ps with
  | nil => rfl
  | cons p r ih =>
    have hp := h p (by simp)
    have hr := ih (fun q hq => h q (by simp [hq]))
    simp only [List.map_cons, List.flatMap_cons, allLits] at hr ⊢
    rw [render_lits sat p hp, hr]

/-- the result file of a minisat-like solver: `SAT`, then the literals separated by any blanks
(newlines included), optional `0` -/
def renderSatFile (lead : Str) (lits : List (Str × Int)) (zero : Option Str) (trail : Str) : Str :=
  lead ++ (tokSat ++ (glue (litSegs lits ++ zeroSeg zero) ++ trail))

/-- the list of literals `A`, read as "these literals are true", satisfies `F` -/
def SatisfiedBy (A : List Int) (F : CNF) : Prop := ∀ c ∈ F.clauses, ∃ l ∈ c, l ∈ A

/-- the assignment induced by a list of literals: variable `v` is true iff `+v` is listed -/
def assignOf (A : List Int) : Assign := fun v => A.contains (v : Int)

/-- no variable both ways, no literal `0` -/
def Consistent (A : List Int) : Prop := (0 : Int) ∉ A ∧ ∀ l ∈ A, -l ∉ A

theorem assignOf_sortByVar (W : List Int) : assignOf (sortByVar W) = assignOf W := by
  funext v
  simp [assignOf, mem_sortByVar]

theorem consistent_sortByVar (W : List Int) (h : Consistent W) : Consistent (sortByVar W) :=
  ⟨fun h0 => h.1 ((mem_sortByVar W 0).mp h0),
   fun l hl hn => h.2 l ((mem_sortByVar W l).mp hl) ((mem_sortByVar W (-l)).mp hn)⟩


end Cnfgen.Solver
