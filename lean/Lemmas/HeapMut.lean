/-
C19 heap lemmas — mutations of a well-typed formula stay inside its footprint.
-/
import Lemmas.HeapSnap
import CnfgenModel.Heap.Mut
namespace Cnfgen
namespace Heap
local notation "Addr" => Nat

/-! ### reading after writing -/

theorem get_alloc_lt {s : Store} {c : Cell} {a : Nat} (h : a < s.size) : (alloc s c).1[a]? = s[a]? := by
  simp only [alloc]; rw [Array.getElem?_push]; split
  · omega
  · rfl

theorem get_alloc_eq {s : Store} {c : Cell} : (alloc s c).1[s.size]? = some c := by
  simp [alloc]

theorem get_write_eq {s : Store} {c : Cell} {a : Nat} (h : a < s.size) : (write s a c)[a]? = some c := by
  simp [write, h]

theorem get_write_ne {s : Store} {c : Cell} {a b : Nat} (h : a ≠ b) : (write s a c)[b]? = s[b]? := by
  simp only [write]; exact Array.getElem?_setIfInBounds_ne h

/-- the formula object at `x` is well typed: its slots hold a list of lists of integers, a dictionary, a list of groups -/
def WT (s : Store) (x : Nat) : Prop :=
  ∃ cl hd gr nv as es gs, s[x]? = some (.cnf cl hd gr nv) ∧ s[cl]? = some (.refs as) ∧
    s[hd]? = some (.dict es) ∧ s[gr]? = some (.groups gs) ∧ ∀ a ∈ as, ∃ xs, s[a]? = some (.ints xs)

theorem readIntsAll_isSome {s : Store} : ∀ {as : List Addr}, (∀ a ∈ as, ∃ xs, s[a]? = some (.ints xs)) →
    ∃ cs, readIntsAll s as = some cs
  | [], _ => ⟨[], rfl⟩
  | a :: as, h => by
    obtain ⟨xs, hx⟩ := h a (by simp)
    obtain ⟨cs, hcs⟩ := readIntsAll_isSome (as := as) (fun b hb => h b (by simp [hb]))
    exact ⟨xs :: cs, by simp [readIntsAll, readInts, hx, hcs]⟩

theorem readIntsAll_typed {s : Store} : ∀ {as : List Addr} {cs : List (List Int)},
    readIntsAll s as = some cs → ∀ a ∈ as, ∃ xs, s[a]? = some (.ints xs)
  | [], _, _ => by simp
  | a :: as, cs, h => by
    unfold readIntsAll at h
    split at h
    · rename_i x xs h1 h2
      intro b hb
      simp at hb
      rcases hb with hb | hb
      · subst hb
        unfold readInts at h1
        split at h1
        · rename_i ys heq; exact ⟨ys, heq⟩
        · cases h1
      · exact readIntsAll_typed h2 b hb
    · cases h

theorem wt_iff_snap {s : Store} {x : Nat} : WT s x ↔ ∃ S, snap s x = some S := by
  constructor
  · rintro ⟨cl, hd, gr, nv, as, es, gs, h1, h2, h3, h4, h5⟩
    obtain ⟨cs, hcs⟩ := readIntsAll_isSome h5
    exact ⟨⟨nv, cs, es, gs⟩, by simp [snap, readCNF, readRefs, readDict, readGroups, h1, h2, h3, h4, hcs]⟩
  · rintro ⟨S, h⟩
    unfold snap at h
    cases ho : readCNF s x with
    | none => simp [ho] at h
    | some o =>
      simp only [ho] at h
      unfold readCNF at ho
      split at ho
      · rename_i cl hd gr nv h1
        cases ho
        split at h
        · rename_i as es gs e1 e2 e3
          split at h
          · rename_i cs e4
            refine ⟨cl, hd, gr, nv, as, es, gs, h1, ?_, ?_, ?_, readIntsAll_typed e4⟩
            · unfold readRefs at e1; split at e1
              · rename_i heq; cases e1; exact heq
              · cases e1
            · unfold readDict at e2; split at e2
              · rename_i heq; cases e2; exact heq
              · cases e2
            · unfold readGroups at e3; split at e3
              · rename_i heq; cases e3; exact heq
              · cases e3
          · cases h
        · cases h
      · cases ho

theorem footprint_eq {s : Store} {x cl hd gr nv : Nat} {as : List Addr} (h1 : s[x]? = some (.cnf cl hd gr nv))
    (h2 : s[cl]? = some (.refs as)) : footprint s x = x :: cl :: hd :: gr :: as := by
  simp [footprint, readCNF, readRefs, h1, h2]

/-- one mutation step of the formula `x`: it stays well typed, only cells of its footprint are written,
and its footprint grows by new cells only -/
structure Step (s : Store) (x : Nat) (s' : Store) : Prop where
  wt : WT s' x
  size_le : s.size ≤ s'.size
  touch : ∀ a : Nat, a < s.size → a ∉ footprint s x → s'[a]? = s[a]?
  grow : ∀ a : Nat, a ∈ footprint s' x → a ∈ footprint s x ∨ (s.size ≤ a ∧ a < s'.size)

theorem Step.refl {s : Store} {x : Nat} (h : WT s x) : Step s x s :=
  ⟨h, Nat.le_refl _, fun _ _ _ => rfl, fun _ ha => Or.inl ha⟩

theorem step_addClauseVals {s : Store} {x : Nat} (xs : List Int) (check : Bool) (h : WT s x) :
    Step s x (addClauseVals s x xs check).1 := by
  obtain ⟨cl, hd, gr, nv, as, es, gs, h1, h2, h3, h4, h5⟩ := h
  have bx := lt_size_of_getElem? h1
  have bcl := lt_size_of_getElem? h2
  have bhd := lt_size_of_getElem? h3
  have bgr := lt_size_of_getElem? h4
  have bas : ∀ a ∈ as, a < s.size := fun a ha => by obtain ⟨_, h⟩ := h5 a ha; exact lt_size_of_getElem? h
  have nxcl : x ≠ cl := by rintro rfl; rw [h1] at h2; cases h2
  have nxhd : x ≠ hd := by rintro rfl; rw [h1] at h3; cases h3
  have nxgr : x ≠ gr := by rintro rfl; rw [h1] at h4; cases h4
  have nclhd : cl ≠ hd := by rintro rfl; rw [h2] at h3; cases h3
  have nclgr : cl ≠ gr := by rintro rfl; rw [h2] at h4; cases h4
  have nxas : ∀ a ∈ as, x ≠ a := by rintro a ha rfl; obtain ⟨_, h⟩ := h5 _ ha; rw [h1] at h; cases h
  have nclas : ∀ a ∈ as, cl ≠ a := by rintro a ha rfl; obtain ⟨_, h⟩ := h5 _ ha; rw [h2] at h; cases h
  have fp := footprint_eq h1 h2
  -- the two shapes of the final store
  have key : ∀ nv' : Nat, ∀ s2 : Store, (s2 = (alloc s (.ints xs)).1 ∨ s2 = write (alloc s (.ints xs)).1 x (.cnf cl hd gr nv')) →
      Step s x (appendRef s2 cl s.size) := by
    intro nv' s2 hs2
    have sz2 : s2.size = s.size + 1 := by rcases hs2 with rfl | rfl <;> simp
    have g2 : ∀ a : Nat, a < s.size → a ≠ x → s2[a]? = s[a]? := by
      intro a ha hne
      rcases hs2 with rfl | rfl
      · exact get_alloc_lt ha
      · rw [get_write_ne (Ne.symm hne)]; exact get_alloc_lt ha
    have g2x : ∃ nv'', s2[x]? = some (.cnf cl hd gr nv'') := by
      rcases hs2 with rfl | rfl
      · exact ⟨nv, by rw [get_alloc_lt bx]; exact h1⟩
      · exact ⟨nv', get_write_eq (by simp; omega)⟩
    have g2d : s2[s.size]? = some (.ints xs) := by
      rcases hs2 with rfl | rfl
      · exact get_alloc_eq
      · rw [get_write_ne (by omega)]; exact get_alloc_eq
    have g2cl : s2[cl]? = some (.refs as) := by rw [g2 cl bcl (Ne.symm nxcl)]; exact h2
    have e3 : appendRef s2 cl s.size = write s2 cl (.refs (as ++ [s.size])) := by
      simp [appendRef, g2cl]
    rw [e3]
    obtain ⟨nv'', g2x⟩ := g2x
    have f1 : (write s2 cl (.refs (as ++ [s.size])))[x]? = some (.cnf cl hd gr nv'') := by
      rw [get_write_ne (Ne.symm nxcl)]; exact g2x
    have f2 : (write s2 cl (.refs (as ++ [s.size])))[cl]? = some (.refs (as ++ [s.size])) :=
      get_write_eq (by omega)
    refine ⟨⟨cl, hd, gr, nv'', as ++ [s.size], es, gs, f1, f2, ?_, ?_, ?_⟩, by simp; omega, ?_, ?_⟩
    · rw [get_write_ne nclhd, g2 hd bhd (Ne.symm nxhd)]; exact h3
    · rw [get_write_ne nclgr, g2 gr bgr (Ne.symm nxgr)]; exact h4
    · intro a ha
      simp at ha
      rcases ha with ha | ha
      · obtain ⟨ys, hy⟩ := h5 a ha
        exact ⟨ys, by rw [get_write_ne (nclas a ha), g2 a (bas a ha) (Ne.symm (nxas a ha))]; exact hy⟩
      · subst ha; exact ⟨xs, by rw [get_write_ne (by omega)]; exact g2d⟩
    · intro a ha hnot
      rw [fp] at hnot
      simp at hnot
      rw [get_write_ne (Ne.symm hnot.2.1), g2 a ha hnot.1]
    · intro a ha
      rw [footprint_eq f1 f2] at ha
      rw [fp]
      simp at ha ⊢
      rcases ha with ha | ha | ha | ha | ha | ha
      · simp [ha]
      · simp [ha]
      · simp [ha]
      · simp [ha]
      · simp [ha]
      · right; omega
  unfold addClauseVals
  simp only [readCNF, h1, alloc]
  split
  · exact key nv _ (Or.inl rfl)
  · split
    · split
      · -- the check failed: only the (unreachable) copy was allocated
        refine ⟨?_, by simp, ?_, ?_⟩
        · refine ⟨cl, hd, gr, nv, as, es, gs, ?_, ?_, ?_, ?_, ?_⟩
          · rw [← h1]; exact get_alloc_lt bx
          · rw [← h2]; exact get_alloc_lt bcl
          · rw [← h3]; exact get_alloc_lt bhd
          · rw [← h4]; exact get_alloc_lt bgr
          · intro a ha; obtain ⟨ys, hy⟩ := h5 a ha; exact ⟨ys, by rw [← hy]; exact get_alloc_lt (bas a ha)⟩
        · intro a ha _; exact get_alloc_lt ha
        · intro a ha
          have e1 : (s.push (Cell.ints xs))[x]? = some (.cnf cl hd gr nv) := by rw [← h1]; exact get_alloc_lt bx
          have e2 : (s.push (Cell.ints xs))[cl]? = some (.refs as) := by rw [← h2]; exact get_alloc_lt bcl
          rw [footprint_eq e1 e2] at ha
          rw [fp]; exact Or.inl ha
      · rename_i nv' _
        exact key nv' _ (Or.inr rfl)
    · exact key nv _ (Or.inl rfl)

/-- same constructor, same addresses inside: only the non-address content differs -/
def sameShape : Cell → Cell → Prop
  | .cnf cl hd gr _, .cnf cl' hd' gr' _ => cl = cl' ∧ hd = hd' ∧ gr = gr'
  | .dict _, .dict _ => True
  | .groups _, .groups _ => True
  | .ints _, .ints _ => True
  | c, c' => c = c'

theorem sameShape_refl (c : Cell) : sameShape c c := by cases c <;> simp [sameShape]

theorem sameShape_refs {as : List Addr} {c : Cell} (h : sameShape (.refs as) c) : c = .refs as := by
  cases c <;> simp [sameShape] at h <;> simp [h]

theorem sameShape_cnf {cl hd gr nv : Nat} {c : Cell} (h : sameShape (.cnf cl hd gr nv) c) :
    ∃ nv', c = .cnf cl hd gr nv' := by
  cases c <;> simp [sameShape] at h
  obtain ⟨rfl, rfl, rfl⟩ := h
  exact ⟨_, rfl⟩

theorem sameShape_dict {es : Hdr} {c : Cell} (h : sameShape (.dict es) c) : ∃ es', c = .dict es' := by
  cases c <;> simp [sameShape] at h
  exact ⟨_, rfl⟩

theorem sameShape_groups {gs : List Vars.Group} {c : Cell} (h : sameShape (.groups gs) c) : ∃ gs', c = .groups gs' := by
  cases c <;> simp [sameShape] at h
  exact ⟨_, rfl⟩

theorem sameShape_ints {xs : List Int} {c : Cell} (h : sameShape (.ints xs) c) : ∃ xs', c = .ints xs' := by
  cases c <;> simp [sameShape] at h
  exact ⟨_, rfl⟩

/-- overwriting a cell of the footprint by a cell of the same shape is a step -/
theorem step_write {s : Store} {x a : Nat} {c0 c : Cell} (h : WT s x) (ha : a ∈ footprint s x)
    (h0 : s[a]? = some c0) (hs : sameShape c0 c) : Step s x (write s a c) := by
  obtain ⟨cl, hd, gr, nv, as, es, gs, h1, h2, h3, h4, h5⟩ := h
  have ba := lt_size_of_getElem? h0
  have fp := footprint_eq h1 h2
  have look : ∀ b : Nat, ∀ cb : Cell, s[b]? = some cb →
      ∃ cb', (write s a c)[b]? = some cb' ∧ sameShape cb cb' := by
    intro b cb hb
    by_cases hba : b = a
    · subst hba
      rw [h0] at hb; cases hb
      exact ⟨c, get_write_eq ba, hs⟩
    · exact ⟨cb, by rw [get_write_ne (Ne.symm hba)]; exact hb, sameShape_refl cb⟩
  obtain ⟨ccl, gcl, scl⟩ := look cl _ h2
  obtain rfl := sameShape_refs scl
  obtain ⟨cx, gx, sx⟩ := look x _ h1
  obtain ⟨nv', rfl⟩ := sameShape_cnf sx
  obtain ⟨chd, ghd, shd⟩ := look hd _ h3
  obtain ⟨es', rfl⟩ := sameShape_dict shd
  obtain ⟨cgr, ggr, sgr⟩ := look gr _ h4
  obtain ⟨gs', rfl⟩ := sameShape_groups sgr
  refine ⟨⟨cl, hd, gr, nv', as, es', gs', gx, gcl, ghd, ggr, ?_⟩, by simp, ?_, ?_⟩
  · intro b hb
    obtain ⟨ys, hy⟩ := h5 b hb
    obtain ⟨cb, gb, sb⟩ := look b _ hy
    obtain ⟨ys', rfl⟩ := sameShape_ints sb
    exact ⟨ys', gb⟩
  · intro b _ hnot
    have : b ≠ a := by rintro rfl; exact hnot ha
    exact get_write_ne (Ne.symm this)
  · intro b hb
    rw [footprint_eq gx gcl] at hb
    rw [fp]; exact Or.inl hb

theorem Step.trans {s s1 s2 : Store} {x : Nat} (h1 : Step s x s1) (h2 : Step s1 x s2) : Step s x s2 := by
  refine ⟨h2.wt, Nat.le_trans h1.size_le h2.size_le, ?_, ?_⟩
  · intro a ha hnot
    have hs := h1.size_le
    rw [h2.touch a (by omega) ?_, h1.touch a ha hnot]
    intro hmem
    rcases h1.grow a hmem with h | h
    · exact hnot h
    · omega
  · intro a ha
    have hs1 := h1.size_le
    have hs2 := h2.size_le
    rcases h2.grow a ha with h | h
    · rcases h1.grow a h with h' | h'
      · exact Or.inl h'
      · right; omega
    · right; omega

theorem mem_footprint_x (s : Store) (x : Nat) : x ∈ footprint s x := r_mem_footprint s x

theorem step_updVar {s : Store} {x : Nat} (n : Int) (h : WT s x) : Step s x (updVar s x n).1 := by
  have h' := h
  obtain ⟨cl, hd, gr, nv, as, es, gs, h1, h2, h3, h4, h5⟩ := h'
  unfold updVar
  simp only [readCNF, h1]
  split
  · exact Step.refl h
  · exact step_write h (mem_footprint_x s x) h1 (by simp [sameShape])

theorem step_hdrSet {s : Store} {x : Nat} (k v : String) (h : WT s x) : Step s x (hdrSet s x k v).1 := by
  have h' := h
  obtain ⟨cl, hd, gr, nv, as, es, gs, h1, h2, h3, h4, h5⟩ := h'
  unfold hdrSet
  simp only [readCNF, h1, readDict, h3]
  exact step_write h (by rw [footprint_eq h1 h2]; simp) h3 (by simp [sameShape])

theorem step_describe {s : Store} {x : Nat} (text : String) (h : WT s x) : Step s x (describe s x text).1 := by
  have h' := h
  obtain ⟨cl, hd, gr, nv, as, es, gs, h1, h2, h3, h4, h5⟩ := h'
  unfold describe
  simp only [readCNF, h1, readDict, h3]
  exact step_write h (by rw [footprint_eq h1 h2]; simp) h3 (by simp [sameShape])

theorem step_newGroup {s : Store} {x : Nat} (spec : Vars.GroupSpec) (h : WT s x) :
    Step s x (newGroup s x spec).1 := by
  have h' := h
  obtain ⟨cl, hd, gr, nv, as, es, gs, h1, h2, h3, h4, h5⟩ := h'
  unfold newGroup
  simp only [readCNF, h1, readGroups, h4]
  split
  · exact Step.refl h
  · rename_i m _ _
    have s1 : Step s x (write s gr (.groups m.groups)) :=
      step_write h (by rw [footprint_eq h1 h2]; simp) h4 (by simp [sameShape])
    have nxgr : gr ≠ x := by rintro rfl; rw [h1] at h4; cases h4
    have e1 : (write s gr (.groups m.groups))[x]? = some (.cnf cl hd gr nv) := by
      rw [get_write_ne nxgr]; exact h1
    exact s1.trans (step_write s1.wt (mem_footprint_x _ x) e1 (by simp [sameShape]))

theorem pyIdx_mem {α : Type} {l : List α} {i : Int} {a : α} (h : pyIdx l i = .ok a) : a ∈ l := by
  simp only [pyIdx] at h
  generalize (if i < 0 then i + (l.length : Int) else i) = j at h
  by_cases hj : j < 0
  · simp [hj] at h
  · simp only [hj, if_false] at h
    cases hy : l[j.toNat]? with
    | none => simp [hy] at h
    | some y => simp [hy] at h; subst h; exact List.mem_of_getElem? hy

theorem setItem_fst (s : Store) (l : Nat) (i v : Int) :
    (setItem s l i v).1 = s ∨ ∃ ys ys', s[l]? = some (.ints ys) ∧ (setItem s l i v).1 = write s l (.ints ys') := by
  simp only [setItem, readInts]
  cases h0 : s[l]? with
  | none => exact Or.inl rfl
  | some c =>
    cases c with
    | ints ys =>
      simp only []
      generalize (if i < 0 then i + (ys.length : Int) else i) = j
      by_cases hc : j < 0 ∨ (ys.length : Int) ≤ j
      · simp [hc]
      · simp only [hc, if_false]; exact Or.inr ⟨ys, _, rfl, rfl⟩
    | _ => exact Or.inl rfl

theorem step_setLit {s : Store} {x : Nat} (i j v : Int) (h : WT s x) : Step s x ((Mut.setLit i j v).run s x).1 := by
  have h' := h
  obtain ⟨cl, hd, gr, nv, as, es, gs, h1, h2, h3, h4, h5⟩ := h'
  simp only [Mut.run, iterItem, readCNF, h1, readRefs, h2]
  cases hidx : pyIdx as i with
  | error e => exact Step.refl h
  | ok a =>
    have hmem : a ∈ as := pyIdx_mem hidx
    simp only []
    rcases setItem_fst s a j v with e | ⟨ys, ys', hy, e⟩
    · rw [e]; exact Step.refl h
    · rw [e]; exact step_write h (by rw [footprint_eq h1 h2]; simp [hmem]) hy (by simp [sameShape])

/-- every mutation of a well-typed formula is a step -/
theorem step_mut {s : Store} {x : Nat} (m : Mut) (h : WT s x) : Step s x (m.run s x).1 := by
  cases m with
  | addClause xs check => exact step_addClauseVals xs check h
  | setLit i j v => exact step_setLit i j v h
  | hdrSet k v => exact step_hdrSet k v h
  | updVar n => exact step_updVar n h
  | newGroup spec => exact step_newGroup spec h
  | describe text => exact step_describe text h

theorem step_runMuts {x : Nat} : ∀ (ms : List Mut) (s : Store), WT s x → Step s x (runMuts x s ms)
  | [], s, h => Step.refl h
  | m :: ms, s, h => by
    have h1 := step_mut m h
    exact h1.trans (step_runMuts ms _ h1.wt)

/-! ### separation -/

theorem wt_inbounds {s : Store} {x : Nat} (h : WT s x) : ∀ a : Nat, a ∈ footprint s x → a < s.size := by
  obtain ⟨S, hS⟩ := wt_iff_snap.mp h
  exact footprint_inbounds hS

/-- two well-typed formulas without a common object -/
structure Sep (s : Store) (x y : Nat) : Prop where
  wtx : WT s x
  wty : WT s y
  disj : ∀ a : Nat, a ∈ footprint s x → a ∉ footprint s y

theorem Sep.symm {s : Store} {x y : Nat} (h : Sep s x y) : Sep s y x :=
  ⟨h.wty, h.wtx, fun a hy hx => h.disj a hx hy⟩

/-- a step of `x` is invisible in `y`, and the two stay separate -/
theorem sep_step {s s' : Store} {x y : Nat} (h : Sep s x y) (st : Step s x s') :
    snap s' y = snap s y ∧ Sep s' x y := by
  have hy := wt_inbounds h.wty
  have agree : ∀ a ∈ footprint s y, s'[a]? = s[a]? :=
    fun a ha => st.touch a (hy a ha) (fun hx => h.disj a hx ha)
  obtain ⟨e1, e2⟩ := snap_congr agree
  refine ⟨e1, st.wt, ?_, ?_⟩
  · obtain ⟨S, hS⟩ := wt_iff_snap.mp h.wty
    exact wt_iff_snap.mpr ⟨S, by rw [e1]; exact hS⟩
  · intro a hx
    rw [e2]
    rcases st.grow a hx with h1 | h1
    · exact h.disj a h1
    · intro hmem; have := hy a hmem; omega

theorem sep_runMuts {s : Store} {x y : Nat} (h : Sep s x y) (ms : List Mut) :
    snap (runMuts x s ms) y = snap s y ∧ Sep (runMuts x s ms) x y :=
  sep_step h (step_runMuts ms s h.wtx)

end Heap
end Cnfgen
