/-
Helper lemmas for the translated `BinaryMappingVariables` (`Props/C11/Generated.lean`): the object as the model
describes it, `product([1,-1], repeat=bits)[j]` is the arithmetic sign pattern of the model, the loops.
-/
import Lemmas.GenBlock
import Lemmas.VarsBinary
namespace Cnfgen.GenVars
open Cnfgen Cnfgen.Vars Cnfgen.PyGen

/-- `BinaryMappingVariables(F, n, m)` on a formula with `nv` variables, as the model describes it -/
def binSelf (nv n m : Nat) : BinaryMappingVariables :=
  { domain_size := n, range_size := m, id_offset := nv, bitlength := (clog2 m : Nat), formula := ⟨nv⟩,
    ids := ⟨(nv : Int) + 1, (nv : Int) + (n : Int) * (clog2 m : Nat) + 1⟩,
    flips := productRep [1, -1] (clog2 m) }

theorem length_signs (k : Nat) : (productRep [(1 : Int), -1] k).length = 2 ^ k := by
  induction k with
  | zero => simp [productRep]
  | succ k ih => simp [productRep, ih]; omega

theorem flipPattern_succ (k j : Nat) :
    flipPattern (k + 1) j = (if (j / 2 ^ k) % 2 = 1 then (-1 : Int) else 1) :: flipPattern k j := by
  unfold flipPattern
  rw [List.range_succ_eq_map, List.map_cons, List.map_map]
  congr 1
  apply List.map_congr_left
  intro t _
  simp only [Function.comp]
  have : k + 1 - 1 - (t + 1) = k - 1 - t := by omega
  rw [this]

theorem flipPattern_add (k j : Nat) : flipPattern k (2 ^ k + j) = flipPattern k j := by
  unfold flipPattern
  apply List.map_congr_left
  intro t ht
  have ht : t < k := List.mem_range.1 ht
  have h2 : 2 ^ k = 2 ^ (k - 1 - t) * (2 * 2 ^ t) := by
    rw [← Nat.pow_succ', ← Nat.pow_add]; congr 1; omega
  have hpos : 0 < 2 ^ (k - 1 - t) := Nat.pow_pos (by omega)
  rw [h2, Nat.mul_add_div hpos]
  have : (2 * 2 ^ t + j / 2 ^ (k - 1 - t)) % 2 = (j / 2 ^ (k - 1 - t)) % 2 := by omega
  rw [this]

/-- `flips[j]`: the `j`-th tuple of `product([1,-1], repeat=bits)` is the sign pattern of the bits of `j` -/
theorem signs_get (k j : Nat) (hj : j < 2 ^ k) : (productRep [(1 : Int), -1] k)[j]? = some (flipPattern k j) := by
  induction k generalizing j with
  | zero =>
    have : j = 0 := by simpa using hj
    subst this
    simp [productRep, flipPattern]
  | succ k ih =>
    have hprod : productRep [(1 : Int), -1] (k + 1) =
        (productRep [(1 : Int), -1] k).map (1 :: ·) ++ (productRep [(1 : Int), -1] k).map (-1 :: ·) := by
      simp [productRep]
    rw [hprod, flipPattern_succ]
    by_cases hlt : j < 2 ^ k
    · rw [List.getElem?_append_left (by simpa [length_signs] using hlt), List.getElem?_map, ih j hlt]
      have : j / 2 ^ k = 0 := Nat.div_eq_of_lt hlt
      simp [this]
    · have hj' : j - 2 ^ k < 2 ^ k := by rw [Nat.pow_succ] at hj; omega
      rw [List.getElem?_append_right (by simpa [length_signs] using Nat.le_of_not_lt hlt), List.length_map, length_signs,
        List.getElem?_map, ih _ hj']
      have hdiv : j / 2 ^ k = 1 := by
        have hpos : 0 < 2 ^ k := Nat.pow_pos (by omega)
        rw [Nat.pow_succ] at hj
        apply Nat.div_eq_of_lt_le <;> omega
      have heq : flipPattern k j = flipPattern k (j - 2 ^ k) := by
        rw [← flipPattern_add k (j - 2 ^ k)]; congr 1; omega
      simp [hdiv, heq]

theorem foldl_append_singleton {α : Type} (l acc : List α) :
    List.foldl (fun (acc : List α) (x : α) => acc ++ [x]) acc l = acc ++ l := by
  induction l generalizing acc with
  | nil => simp
  | cons x xs ih => simp [ih]

theorem py_clog2_eq (m : Nat) : Py.clog2 m = clog2 m := rfl

/-- the number of bits the constructor computes -/
theorem bitlength_eq (m : Int) (hm : 0 ≤ m) :
    ((if m > 1 then (Py.ceilLog2 m) >>= fun b => Except.ok b else Except.ok 0) : Except Err Int) =
      Except.ok ((clog2 m.toNat : Nat) : Int) := by
  by_cases h : m > 1
  · rw [if_pos h]
    have : ¬ m ≤ 0 := by omega
    simp [Py.ceilLog2, this, py_clog2_eq]
  · rw [if_neg h]
    have : m.toNat ≤ 1 := by omega
    simp [clog2, this]

/-- pairs of naturals as pairs of Python integers -/
abbrev intPairs (l : List (Nat × Nat)) : List (Int × Int) := l.map (fun p => ((p.1 : Int), (p.2 : Int)))

theorem flatMap_pairs_ints (I B : List Nat) :
    (ints I).flatMap (fun i => (ints B).map (fun b => (i, b))) =
      intPairs (I.flatMap (fun i => B.map (fun b => (i, b)))) := by
  simp only [ints, intPairs, List.flatMap_map, List.map_flatMap, List.map_map]
  rfl

/-- `range(bits - 1, -1, -1)` -/
theorem rangeStep_down (bits : Nat) :
    Py.rangeStep ((bits : Int) - 1) (-1) (-1) = ints (List.range bits).reverse := by
  have h1 : ¬ ((-1 : Int) > 0) := by omega
  have h2 : (-1 : Int) < 0 := by omega
  simp only [Py.rangeStep, if_neg h1, if_pos h2]
  have hcount : (((bits : Int) - 1 - -1 + - -1 - 1) / - -1).toNat = bits := by
    simp
  rw [hcount]
  apply List.ext_getElem
  · simp [ints]
  · intro i h1 h2
    simp only [List.length_map, List.length_range] at h1
    simp only [ints, List.getElem_map, List.getElem_range, List.getElem_reverse, List.length_range]
    simp only [Int.ofNat_eq_natCast]
    omega

theorem zip_map_mul {β : Type} (a : List Int) (l : List β) (g : β → Int) :
    (a.zip (l.map g)).map (fun z => z.1 * z.2) = List.zipWith (fun s t => s * g t) a l := by
  induction a generalizing l with
  | nil => simp
  | cons x xs ih =>
    cases l with
    | nil => simp
    | cons y ys => simp [ih]

theorem reverse_range_eq_map (k : Nat) : (List.range k).reverse = (List.range k).map (fun t => k - 1 - t) := by
  apply List.ext_getElem
  · simp
  · intro i h1 h2
    simp only [List.length_reverse, List.length_range] at h1
    simp [List.getElem_reverse]

/-- `self.flips[j]` for any Python index `j` -/
theorem flips_index (bits : Nat) (j : Int) :
    Py.index (productRep [(1 : Int), -1] bits) j = flipsGet bits j := by
  unfold Py.index flipsGet
  by_cases h0 : 0 ≤ j
  · rw [if_pos h0, if_pos h0]
    by_cases hlt : j.toNat < 2 ^ bits
    · rw [signs_get bits _ hlt, if_pos hlt]
    · rw [if_neg hlt]
      have : (productRep [(1 : Int), -1] bits)[j.toNat]? = none := by
        rw [List.getElem?_eq_none_iff, length_signs]; omega
      rw [this]
  · rw [if_neg h0, if_neg h0, length_signs]
    by_cases hle : (-j).toNat ≤ 2 ^ bits
    · have h1 : -j ≤ ((2 ^ bits : Nat) : Int) := by omega
      rw [if_pos h1, if_pos hle, signs_get bits _ (by omega)]
    · have h1 : ¬ (-j ≤ ((2 ^ bits : Nat) : Int)) := by omega
      rw [if_neg h1, if_neg hle]

end Cnfgen.GenVars
