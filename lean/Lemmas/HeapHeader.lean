/-
C19 heap lemmas — `add_description` on the REAL keys (strings): which key is picked, for any header —
gaps in the numbering, keys that are not of the form `transformation <n>`, keys like `transformation 01`
that only look like one — and for a chain of any length.
-/
import CnfgenModel.Heap.Formula
import Lemmas.Shuffle
namespace Cnfgen
namespace Heap
open Cnfgen.Shuffle (tkey firstFree firstFree_spec)

theorem hasKey_eq (h : Hdr) (k : String) : hasKey h k = Shuffle.hasKey h k := rfl

/-- one step: the new entry goes to the END, under the first free number, nothing else changes -/
theorem addDescription_spec (h : Hdr) (text : String) :
    addDescription h text = h ++ [(tkey (firstFree h), text)] ∧ 1 ≤ firstFree h ∧
      hasKey h (tkey (firstFree h)) = false ∧
      ∀ j, 1 ≤ j → j < firstFree h → hasKey h (tkey j) = true := by
  obtain ⟨a, b, c⟩ := firstFree_spec h
  refine ⟨?_, a, b, c⟩
  unfold addDescription setKey
  rw [hasKey_eq, b]; simp

theorem hasKey_append (h h' : Hdr) (k : String) : hasKey (h ++ h') k = (hasKey h k || hasKey h' k) := by
  simp [hasKey, List.any_append]

/-- the number picked after a step is larger than the one just picked -/
theorem firstFree_lt_next (h : Hdr) (text : String) : firstFree h < firstFree (addDescription h text) := by
  obtain ⟨e, a, b, c⟩ := addDescription_spec h text
  obtain ⟨a', b', c'⟩ := firstFree_spec (addDescription h text)
  rw [e] at a' b' ⊢
  apply Decidable.byContradiction
  intro hge
  have hle : firstFree (h ++ [(tkey (firstFree h), text)]) ≤ firstFree h := by omega
  rw [← hasKey_eq, hasKey_append] at b'
  rcases Nat.lt_or_ge (firstFree (h ++ [(tkey (firstFree h), text)])) (firstFree h) with hlt | hge'
  · have := c _ a' hlt
    simp [this] at b'
  · have heq : firstFree (h ++ [(tkey (firstFree h), text)]) = firstFree h := by omega
    rw [heq] at b'
    simp [hasKey] at b'

/-- a chain of `add_description` calls (one per applied transformation) -/
def describeAll (h : Hdr) (texts : List String) : Hdr := texts.foldl addDescription h

/-- the numbers the chain picks -/
def pickedIdx : Hdr → List String → List Nat
  | _, [] => []
  | h, t :: ts => firstFree h :: pickedIdx (addDescription h t) ts

theorem describeAll_eq : ∀ (texts : List String) (h : Hdr),
    describeAll h texts = h ++ List.zipWith (fun i t => (tkey i, t)) (pickedIdx h texts) texts
  | [], h => by simp [describeAll, pickedIdx]
  | t :: ts, h => by
    have ih := describeAll_eq ts (addDescription h t)
    simp only [describeAll, List.foldl_cons, pickedIdx, List.zipWith_cons_cons] at ih ⊢
    rw [ih, (addDescription_spec h t).1]
    simp

theorem pickedIdx_length : ∀ (texts : List String) (h : Hdr), (pickedIdx h texts).length = texts.length
  | [], _ => rfl
  | t :: ts, h => by simp [pickedIdx, pickedIdx_length ts]

theorem pickedIdx_lower : ∀ (texts : List String) (h : Hdr), ∀ i ∈ pickedIdx h texts, firstFree h ≤ i
  | [], _ => by simp [pickedIdx]
  | t :: ts, h => by
    intro i hi
    simp only [pickedIdx, List.mem_cons] at hi
    rcases hi with rfl | hi
    · exact Nat.le_refl _
    · have := pickedIdx_lower ts _ i hi
      have := firstFree_lt_next h t
      omega

theorem pickedIdx_increasing : ∀ (texts : List String) (h : Hdr), (pickedIdx h texts).Pairwise (· < ·)
  | [], _ => by simp [pickedIdx]
  | t :: ts, h => by
    simp only [pickedIdx, List.pairwise_cons]
    refine ⟨?_, pickedIdx_increasing ts _⟩
    intro i hi
    have := pickedIdx_lower ts _ i hi
    have := firstFree_lt_next h t
    omega

theorem hasKey_mono_addDescription (h : Hdr) (t k : String) (hk : hasKey h k = true) :
    hasKey (addDescription h t) k = true := by
  rw [(addDescription_spec h t).1, hasKey_append, hk]; rfl

theorem pickedIdx_free : ∀ (texts : List String) (h : Hdr), ∀ i ∈ pickedIdx h texts, hasKey h (tkey i) = false
  | [], _ => by simp [pickedIdx]
  | t :: ts, h => by
    intro i hi
    simp only [pickedIdx, List.mem_cons] at hi
    rcases hi with rfl | hi
    · exact (addDescription_spec h t).2.2.1
    · have := pickedIdx_free ts _ i hi
      cases hh : hasKey h (tkey i) with
      | false => rfl
      | true => rw [hasKey_mono_addDescription h t _ hh] at this; cases this

end Heap
end Cnfgen
