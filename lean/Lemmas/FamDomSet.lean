/-
Helper lemmas for `Fam.uniqueNeighborhoods`, `Fam.domsetF` (both encodings) and `Fam.tiling`.
-/
import Lemmas.FamColoring
import CnfgenModel.Fam.DomSet
import Mathlib.Data.Finset.Card
namespace Cnfgen
namespace Fam
open Vars

/-! ### `unique_neighborhoods` -/

theorem insertSorted_perm (l : List Nat) (v : Nat) : (insertSorted l v).Perm (v :: l) := by
  induction l with
  | nil => simp [insertSorted]
  | cons x xs ih =>
    unfold insertSorted
    split
    · exact (List.Perm.cons x ih).trans (List.Perm.swap v x xs)
    · exact List.Perm.refl _

theorem sortNat_perm (l : List Nat) : (sortNat l).Perm l := by
  induction l with
  | nil => simp [sortNat]
  | cons x xs ih =>
    have : sortNat (x :: xs) = insertSorted (sortNat xs) x := rfl
    rw [this]
    exact (insertSorted_perm _ _).trans (List.Perm.cons x ih)

theorem mem_sortNat {l : List Nat} {a : Nat} : a ∈ sortNat l ↔ a ∈ l := (sortNat_perm l).mem_iff

theorem insertLex_perm (l : List (List Nat)) (v : List Nat) : (insertLex l v).Perm (v :: l) := by
  induction l with
  | nil => simp [insertLex]
  | cons x xs ih =>
    unfold insertLex
    split
    · exact (List.Perm.cons x ih).trans (List.Perm.swap v x xs)
    · exact List.Perm.refl _

theorem sortLex_perm (l : List (List Nat)) : (sortLex l).Perm l := by
  induction l with
  | nil => simp [sortLex]
  | cons x xs ih =>
    have : sortLex (x :: xs) = insertLex (sortLex xs) x := rfl
    rw [this]
    exact (insertLex_perm _ _).trans (List.Perm.cons x ih)

theorem mem_dedupAdj {l : List (List Nat)} {a : List Nat} : a ∈ dedupAdj l ↔ a ∈ l := by
  induction l using dedupAdj.induct with
  | case1 => simp [dedupAdj]
  | case2 x => simp [dedupAdj]
  | case3 x y r h ih =>
    rw [dedupAdj, if_pos h, ih]
    have : x = y := by simpa using h
    subst this
    simp
  | case4 x y r h ih =>
    rw [dedupAdj, if_neg h, List.mem_cons, ih, List.mem_cons (a := a) (b := x)]

/-- `unique_neighborhoods` lists exactly the (sorted) closed neighbourhoods of the vertices -/
theorem mem_uniqueNeighborhoods {G : SimpleG} {N : List Nat} :
    N ∈ uniqueNeighborhoods G ↔ ∃ v, 1 ≤ v ∧ v ≤ G.n ∧ N = closedNbr G v := by
  unfold uniqueNeighborhoods
  split
  · rename_i h0
    simp only [List.not_mem_nil, false_iff]
    rintro ⟨v, h1, h2, _⟩; omega
  · rw [mem_dedupAdj, (sortLex_perm _).mem_iff, List.mem_map]
    constructor
    · rintro ⟨v, hv, rfl⟩
      rw [mem_rangeN_one] at hv
      exact ⟨v, hv.1, hv.2, rfl⟩
    · rintro ⟨v, h1, h2, rfl⟩
      exact ⟨v, mem_rangeN_one.2 ⟨h1, h2⟩, rfl⟩

theorem mem_closedNbr {G : SimpleG} {v u : Nat} : u ∈ closedNbr G v ↔ u = v ∨ u ∈ G.nbrs v := by
  unfold closedNbr
  rw [mem_sortNat, List.mem_cons]

theorem closedNbr_range {G : SimpleG} (hG : GoodGraph G) {v u : Nat} (h1 : 1 ≤ v) (h2 : v ≤ G.n)
    (hu : u ∈ closedNbr G v) : 1 ≤ u ∧ u ≤ G.n := by
  rcases mem_closedNbr.1 hu with rfl | hu
  · exact ⟨h1, h2⟩
  · have := hG.mem h2 hu; exact ⟨this.1, this.2.1⟩

/-! ### `unique_neighborhoods`: sorted, each neighbourhood once -/

theorem lexLe_refl (a : List Nat) : lexLe a a = true := by
  induction a with
  | nil => rfl
  | cons x xs ih => simp [lexLe, ih]

theorem lexLe_total (a b : List Nat) : lexLe a b = true ∨ lexLe b a = true := by
  induction a generalizing b with
  | nil => left; rfl
  | cons x xs ih =>
    cases b with
    | nil => right; rfl
    | cons y ys =>
      simp only [lexLe, Bool.or_eq_true, decide_eq_true_eq, Bool.and_eq_true, beq_iff_eq]
      rcases Nat.lt_trichotomy x y with h | h | h
      · left; left; exact h
      · subst h
        rcases ih ys with h' | h'
        · left; right; exact ⟨rfl, h'⟩
        · right; right; exact ⟨rfl, h'⟩
      · right; left; exact h

theorem lexLe_trans {a b c : List Nat} (h1 : lexLe a b = true) (h2 : lexLe b c = true) :
    lexLe a c = true := by
  induction a generalizing b c with
  | nil => rfl
  | cons x xs ih =>
    cases b with
    | nil => simp [lexLe] at h1
    | cons y ys =>
      cases c with
      | nil => simp [lexLe] at h2
      | cons z zs =>
        simp only [lexLe, Bool.or_eq_true, decide_eq_true_eq, Bool.and_eq_true, beq_iff_eq] at h1 h2 ⊢
        rcases h1 with h1 | ⟨rfl, h1⟩
        · rcases h2 with h2 | ⟨rfl, _⟩
          · left; omega
          · left; exact h1
        · rcases h2 with h2 | ⟨rfl, h2⟩
          · left; exact h2
          · right; exact ⟨rfl, ih h1 h2⟩

theorem lexLe_antisymm {a b : List Nat} (h1 : lexLe a b = true) (h2 : lexLe b a = true) : a = b := by
  induction a generalizing b with
  | nil => cases b with
    | nil => rfl
    | cons y ys => simp [lexLe] at h2
  | cons x xs ih =>
    cases b with
    | nil => simp [lexLe] at h1
    | cons y ys =>
      simp only [lexLe, Bool.or_eq_true, decide_eq_true_eq, Bool.and_eq_true, beq_iff_eq] at h1 h2
      rcases h1 with h1 | ⟨rfl, h1⟩
      · rcases h2 with h2 | ⟨rfl, _⟩ <;> omega
      · rcases h2 with h2 | ⟨_, h2⟩
        · omega
        · rw [ih h1 h2]

theorem insertLex_sorted {l : List (List Nat)} (v : List Nat)
    (h : l.Pairwise (fun a b => lexLe a b = true)) :
    (insertLex l v).Pairwise (fun a b => lexLe a b = true) := by
  induction l with
  | nil => simp [insertLex]
  | cons x xs ih =>
    rw [List.pairwise_cons] at h
    unfold insertLex
    split
    · rename_i hxv
      rw [List.pairwise_cons]
      refine ⟨fun y hy => ?_, ih h.2⟩
      rcases List.mem_cons.1 ((insertLex_perm xs v).mem_iff.1 hy) with rfl | hy
      · exact hxv
      · exact h.1 y hy
    · rename_i hxv
      have hvx : lexLe v x = true := by
        rcases lexLe_total x v with h' | h'
        · exact absurd h' hxv
        · exact h'
      rw [List.pairwise_cons]
      refine ⟨fun y hy => ?_, List.pairwise_cons.2 h⟩
      rcases List.mem_cons.1 hy with rfl | hy
      · exact hvx
      · exact lexLe_trans hvx (h.1 y hy)

theorem sortLex_sorted (l : List (List Nat)) : (sortLex l).Pairwise (fun a b => lexLe a b = true) := by
  induction l with
  | nil => simp [sortLex]
  | cons x xs ih =>
    have : sortLex (x :: xs) = insertLex (sortLex xs) x := rfl
    rw [this]
    exact insertLex_sorted x ih

theorem dedupAdj_strict {l : List (List Nat)} (h : l.Pairwise (fun a b => lexLe a b = true)) :
    (dedupAdj l).Pairwise (fun a b => lexLe a b = true ∧ a ≠ b) := by
  induction l using dedupAdj.induct with
  | case1 => simp [dedupAdj]
  | case2 x => simp [dedupAdj]
  | case3 x y r hxy ih =>
    rw [dedupAdj, if_pos hxy]
    exact ih (List.pairwise_cons.1 h).2
  | case4 x y r hxy ih =>
    rw [dedupAdj, if_neg hxy]
    have hp := List.pairwise_cons.1 h
    have hp2 := List.pairwise_cons.1 hp.2
    rw [List.pairwise_cons]
    refine ⟨fun z hz => ?_, ih hp.2⟩
    rw [mem_dedupAdj] at hz
    refine ⟨hp.1 z hz, ?_⟩
    have hne : x ≠ y := by simpa using hxy
    rcases List.mem_cons.1 hz with rfl | hz'
    · exact hne
    · rintro rfl
      exact hne (lexLe_antisymm (hp.1 y List.mem_cons_self) (hp2.1 x hz'))

/-- "Each neighborhood is listed just once … enumerated in a sorted fashion" -/
theorem uniqueNeighborhoods_sorted (G : SimpleG) :
    (uniqueNeighborhoods G).Pairwise (fun a b => lexLe a b = true ∧ a ≠ b) := by
  unfold uniqueNeighborhoods
  split
  · exact List.Pairwise.nil
  · exact dedupAdj_strict (sortLex_sorted _)

theorem uniqueNeighborhoods_nodup (G : SimpleG) : (uniqueNeighborhoods G).Nodup :=
  (uniqueNeighborhoods_sorted G).imp (fun h => h.2)

theorem insertSorted_sorted {l : List Nat} (v : Nat) (h : l.Pairwise (· ≤ ·)) :
    (insertSorted l v).Pairwise (· ≤ ·) := by
  induction l with
  | nil => simp [insertSorted]
  | cons x xs ih =>
    rw [List.pairwise_cons] at h
    unfold insertSorted
    split
    · rename_i hxv
      rw [List.pairwise_cons]
      refine ⟨fun y hy => ?_, ih h.2⟩
      rcases List.mem_cons.1 ((insertSorted_perm xs v).mem_iff.1 hy) with rfl | hy
      · exact hxv
      · exact h.1 y hy
    · rename_i hxv
      rw [List.pairwise_cons]
      refine ⟨fun y hy => ?_, List.pairwise_cons.2 h⟩
      rcases List.mem_cons.1 hy with rfl | hy
      · omega
      · have := h.1 y hy; omega

/-- "Each one is sorted" -/
theorem closedNbr_sorted (G : SimpleG) (v : Nat) : (closedNbr G v).Pairwise (· ≤ ·) := by
  unfold closedNbr
  generalize v :: G.nbrs v = l
  induction l with
  | nil => simp [sortNat]
  | cons x xs ih =>
    have : sortNat (x :: xs) = insertSorted (sortNat xs) x := rfl
    rw [this]
    exact insertSorted_sorted x ih

/-! ### identifiers -/

theorem dId_eq (V v : Nat) (hv : 1 ≤ v) : dId V v = (v : Int) := by
  unfold dId blockId weights
  simp [weights]
  omega

theorem mId_eq (V d v i : Nat) : mId V d v i = ((mapId (V + 1) d v i : Nat) : Int) := rfl

theorem litHolds_dId (α : Assign) (V v : Nat) (hv : 1 ≤ v) : litHolds α (dId V v) = α v := by
  rw [dId_eq V v hv, litHolds_pos α v hv]

theorem litHolds_neg_dId (α : Assign) (V v : Nat) (hv : 1 ≤ v) : litHolds α (-(dId V v)) = !(α v) := by
  rw [dId_eq V v hv, litHolds_neg α v hv]

theorem litHolds_neg_mId (α : Assign) (V d v i : Nat) :
    litHolds α (-(mId V d v i)) = !(α (mapId (V + 1) d v i)) := by
  rw [mId_eq, litHolds_neg α _ (by have := mapId_ge (V + 1) d v i; omega)]

/-! ### pairs -/

theorem mem_pairs2 {l : List Nat} (h : l.Pairwise (· < ·)) {a b : Nat} :
    (a, b) ∈ pairs2 l ↔ a ∈ l ∧ b ∈ l ∧ a < b := by
  induction l with
  | nil => simp [pairs2]
  | cons x xs ih =>
    rw [List.pairwise_cons] at h
    simp only [pairs2, List.mem_append, List.mem_map, Prod.mk.injEq, ih h.2, List.mem_cons]
    constructor
    · rintro (⟨y, hy, rfl, rfl⟩ | ⟨ha, hb, hab⟩)
      · exact ⟨Or.inl rfl, Or.inr hy, h.1 y hy⟩
      · exact ⟨Or.inr ha, Or.inr hb, hab⟩
    · rintro ⟨ha | ha, hb | hb, hab⟩
      · omega
      · exact Or.inl ⟨b, hb, ha.symm, rfl⟩
      · have := h.1 a ha; omega
      · exact Or.inr ⟨ha, hb, hab⟩

theorem mem_pairs2_rangeN {n a b : Nat} :
    (a, b) ∈ pairs2 (rangeN 1 (n + 1)) ↔ 1 ≤ a ∧ a < b ∧ b ≤ n := by
  rw [mem_pairs2 (rangeN_one_sorted n), mem_rangeN_one, mem_rangeN_one]
  omega

theorem mem_prod2 {l r : List Nat} {a b : Nat} : (a, b) ∈ prod2 l r ↔ a ∈ l ∧ b ∈ r := by
  simp only [prod2, List.mem_flatMap, List.mem_map, Prod.mk.injEq]
  constructor
  · rintro ⟨x, hx, y, hy, rfl, rfl⟩; exact ⟨hx, hy⟩
  · rintro ⟨ha, hb⟩; exact ⟨a, ha, b, hb, rfl, rfl⟩

/-! ### dominating set, default encoding -/

/-- the variable `M(v,i)` -/
abbrev mVar (G : SimpleG) (d v i : Nat) : Nat := mapId (G.n + 1) d v i

/-- every closed neighbourhood contains a vertex whose `D` variable is on -/
def DomPart (G : SimpleG) (α : Assign) : Prop :=
  ∀ v, 1 ≤ v → v ≤ G.n → ∃ u, (u = v ∨ u ∈ G.nbrs v) ∧ α u = true

/-- what the variables of the default encoding say: `M` is an injective, order-preserving
relation between vertices and `1..d` whose domain is the set `D`, and `D` dominates -/
def DomSpecStd (G : SimpleG) (d : Nat) (α : Assign) : Prop :=
  (∀ i, 1 ≤ i → i ≤ d → ∀ u v, 1 ≤ u → u ≤ G.n → 1 ≤ v → v ≤ G.n →
      α (mVar G d u i) = true → α (mVar G d v i) = true → u = v) ∧
  (∀ u1 u2, 1 ≤ u1 → u1 < u2 → u2 ≤ G.n → ∀ i1 i2, 1 ≤ i2 → i2 < i1 → i1 ≤ d →
      ¬ (α (mVar G d u1 i1) = true ∧ α (mVar G d u2 i2) = true)) ∧
  (∀ v, 1 ≤ v → v ≤ G.n → (α v = true ↔ ∃ i, 1 ≤ i ∧ i ≤ d ∧ α (mVar G d v i) = true)) ∧
  DomPart G α

theorem nbhd_part_iff (G : SimpleG) (hG : GoodGraph G) (α : Assign) :
    ((uniqueNeighborhoods G).map (fun N => Con.clause (N.map (dId G.n)))).all (Con.holds α) = true ↔
      DomPart G α := by
  simp only [List.all_map, List.all_eq_true, Function.comp, Con.holds, clauseHolds, List.any_map,
    List.any_eq_true]
  constructor
  · intro h v h1 h2
    obtain ⟨u, hu, hα⟩ := h (closedNbr G v) (mem_uniqueNeighborhoods.2 ⟨v, h1, h2, rfl⟩)
    have hr := closedNbr_range hG h1 h2 hu
    rw [litHolds_dId α _ _ hr.1] at hα
    exact ⟨u, mem_closedNbr.1 hu, hα⟩
  · intro h N hN
    obtain ⟨v, h1, h2, rfl⟩ := mem_uniqueNeighborhoods.1 hN
    obtain ⟨u, hu, hα⟩ := h v h1 h2
    have hu' := mem_closedNbr.2 hu
    have hr := closedNbr_range hG h1 h2 hu'
    exact ⟨u, hu', by rw [litHolds_dId α _ _ hr.1]; exact hα⟩

theorem domsetF_std_holds_iff (G : SimpleG) (hG : GoodGraph G) (d : Nat) (α : Assign) :
    (domsetF G d false).holds α = true ↔ DomSpecStd G d α := by
  by_cases hV : G.n = 0
  · -- no vertex: empty formula, empty specification
    have : domsetF G d false = ⟨0, []⟩ := by unfold domsetF; simp [hV]
    rw [this]
    simp only [Formula.holds, List.all_nil, true_iff]
    exact ⟨fun i _ _ u v h1 h2 => by omega, fun u1 u2 h1 h2 h3 => by omega,
      fun v h1 h2 => by omega, fun v h1 h2 => by omega⟩
  · unfold Formula.holds
    rw [domsetF, if_neg hV]
    simp only [Bool.false_eq_true, if_false, List.all_append, Bool.and_eq_true, List.all_nil,
      Bool.true_and]
    unfold DomSpecStd
    rw [nbhd_part_iff G hG α]
    -- parts 3 and 4 together give the equivalence D(v) <-> some M(v,i)
    have h34 : (((rangeN 1 (d + 1)).flatMap (fun i => (rangeN 1 (G.n + 1)).map (fun v =>
            Con.clause [-(mId G.n d v i), dId G.n v]))).all (Con.holds α) = true ∧
          ((rangeN 1 (G.n + 1)).map (fun v =>
            Con.clause (-(dId G.n v) :: mapRow (G.n + 1) d v))).all (Con.holds α) = true) ↔
        (∀ v, 1 ≤ v → v ≤ G.n → (α v = true ↔ ∃ i, 1 ≤ i ∧ i ≤ d ∧ α (mVar G d v i) = true)) := by
      simp only [List.all_flatMap, List.all_map, List.all_eq_true, mem_rangeN_one, Function.comp,
        Con.holds]
      constructor
      · rintro ⟨h3, h4⟩ v h1 h2
        constructor
        · intro hα
          have := h4 v ⟨h1, h2⟩
          rw [clauseHolds, List.any_cons, litHolds_neg_dId α _ _ h1, hα] at this
          simp only [Bool.not_true, Bool.false_or] at this
          exact (clauseHolds_mapRow α (by omega) d v).1 this
        · rintro ⟨i, hi1, hi2, hm⟩
          have := h3 i ⟨hi1, hi2⟩ v ⟨h1, h2⟩
          simp only [clauseHolds, List.any_cons, List.any_nil, Bool.or_false] at this
          rw [litHolds_neg_mId, litHolds_dId α _ _ h1, hm] at this
          simpa using this
      · intro h
        constructor
        · intro i hi v hv
          simp only [clauseHolds, List.any_cons, List.any_nil, Bool.or_false]
          rw [litHolds_neg_mId, litHolds_dId α _ _ hv.1]
          cases hm : α (mapId (G.n + 1) d v i)
          · simp
          · simp only [Bool.not_true, Bool.false_or]
            exact (h v hv.1 hv.2).2 ⟨i, hi.1, hi.2, hm⟩
        · intro v hv
          rw [clauseHolds, List.any_cons, litHolds_neg_dId α _ _ hv.1]
          cases hα : α v
          · simp
          · simp only [Bool.not_true, Bool.false_or]
            exact (clauseHolds_mapRow α (by omega) d v).2 ((h v hv.1 hv.2).1 hα)
    have h1 : ((rangeN 1 (d + 1)).map (fun y => Con.lin (mapCol (G.n + 1) G.n d y) .le 1)).all
          (Con.holds α) = true ↔
        (∀ i, 1 ≤ i → i ≤ d → ∀ u v, 1 ≤ u → u ≤ G.n → 1 ≤ v → v ≤ G.n →
          α (mVar G d u i) = true → α (mVar G d v i) = true → u = v) := by
      simp only [List.all_map, List.all_eq_true, mem_rangeN_one, Function.comp, Con.holds,
        Op.denote, decide_eq_true_eq]
      constructor
      · intro h i hi1 hi2 u v hu1 hu2 hv1 hv2 ha hb
        have := h i ⟨hi1, hi2⟩
        rw [count_mapCol α (by omega)] at this
        have h' : (rangeN 1 (G.n + 1)).countP (fun v => α (mapId (G.n + 1) d v i)) ≤ 1 := by omega
        exact (countP_le_one_iff _ _ (rangeN_one_nodup G.n)).1 h' u (mem_rangeN_one.2 ⟨hu1, hu2⟩)
          v (mem_rangeN_one.2 ⟨hv1, hv2⟩) ha hb
      · intro h i hi
        rw [count_mapCol α (by omega)]
        have : (rangeN 1 (G.n + 1)).countP (fun v => α (mapId (G.n + 1) d v i)) ≤ 1 := by
          rw [countP_le_one_iff _ _ (rangeN_one_nodup G.n)]
          intro a ha b hb pa pb
          rw [mem_rangeN_one] at ha hb
          exact h i hi.1 hi.2 a b ha.1 ha.2 hb.1 hb.2 pa pb
        omega
    have h2 : ((pairs2 (rangeN 1 (G.n + 1))).flatMap (fun p =>
          (prod2 (rangeN 1 (d + 1)) (rangeN 1 (d + 1))).flatMap (fun q =>
            if q.1 > q.2 then [Con.clause [-(mId G.n d p.1 q.1), -(mId G.n d p.2 q.2)]] else []))).all
          (Con.holds α) = true ↔
        (∀ u1 u2, 1 ≤ u1 → u1 < u2 → u2 ≤ G.n → ∀ i1 i2, 1 ≤ i2 → i2 < i1 → i1 ≤ d →
          ¬ (α (mVar G d u1 i1) = true ∧ α (mVar G d u2 i2) = true)) := by
      simp only [List.all_flatMap, List.all_eq_true]
      constructor
      · intro h u1 u2 hu1 hlt hu2 i1 i2 hi2 hilt hi1 hboth
        have := h (u1, u2) (mem_pairs2_rangeN.2 ⟨hu1, hlt, hu2⟩) (i1, i2)
          (mem_prod2.2 ⟨mem_rangeN_one.2 ⟨by omega, hi1⟩, mem_rangeN_one.2 ⟨hi2, by omega⟩⟩)
        simp only [gt_iff_lt, hilt, if_true, List.mem_cons, List.not_mem_nil, or_false, forall_eq,
          Con.holds, clauseHolds, List.any_cons, List.any_nil, Bool.or_false] at this
        rw [litHolds_neg_mId, litHolds_neg_mId, hboth.1, hboth.2] at this
        simp at this
      · intro h p hp q hq
        obtain ⟨u1, u2⟩ := p
        obtain ⟨i1, i2⟩ := q
        rw [mem_pairs2_rangeN] at hp
        rw [mem_prod2, mem_rangeN_one, mem_rangeN_one] at hq
        by_cases hgt : i1 > i2
        · simp only [hgt, if_true, List.mem_cons, List.not_mem_nil, or_false, forall_eq, Con.holds,
            clauseHolds, List.any_cons, List.any_nil, Bool.or_false]
          rw [litHolds_neg_mId, litHolds_neg_mId]
          have := h u1 u2 hp.1 hp.2.1 hp.2.2 i1 i2 hq.2.1 hgt hq.1.2
          cases e1 : α (mapId (G.n + 1) d u1 i1) <;> cases e2 : α (mapId (G.n + 1) d u2 i2) <;> simp_all
        · simp [hgt]
    rw [← h34, ← h1, ← h2]
    tauto

/-! ### dominating set, alternative encoding -/

/-- what the variables of the alternative encoding say: active vertices (those in `D`) carry at
least one index, at most one index, pairwise different indices; and `D` dominates -/
def DomSpecAlt (G : SimpleG) (d : Nat) (α : Assign) : Prop :=
  (∀ u v, 1 ≤ u → u < v → v ≤ G.n → ∀ i, 1 ≤ i → i ≤ d →
      ¬ (α u = true ∧ α v = true ∧ α (mVar G d u i) = true ∧ α (mVar G d v i) = true)) ∧
  (∀ v, 1 ≤ v → v ≤ G.n → ∀ i j, 1 ≤ i → i < j → j ≤ d →
      ¬ (α v = true ∧ α (mVar G d v i) = true ∧ α (mVar G d v j) = true)) ∧
  (∀ v, 1 ≤ v → v ≤ G.n → α v = true → ∃ i, 1 ≤ i ∧ i ≤ d ∧ α (mVar G d v i) = true) ∧
  DomPart G α

theorem domsetF_alt_holds_iff (G : SimpleG) (hG : GoodGraph G) (d : Nat) (α : Assign) :
    (domsetF G d true).holds α = true ↔ DomSpecAlt G d α := by
  by_cases hV : G.n = 0
  · have : domsetF G d true = ⟨0, []⟩ := by unfold domsetF; simp [hV]
    rw [this]
    simp only [Formula.holds, List.all_nil, true_iff]
    exact ⟨fun u v h1 h2 h3 => by omega, fun v h1 h2 => by omega,
      fun v h1 h2 => by omega, fun v h1 h2 => by omega⟩
  · unfold Formula.holds
    rw [domsetF, if_neg hV]
    simp only [if_true, List.all_append, Bool.and_eq_true, List.all_nil, Bool.and_true]
    unfold DomSpecAlt
    rw [nbhd_part_iff G hG α]
    have h1 : ((pairs2 (rangeN 1 (G.n + 1))).flatMap (fun p => (rangeN 1 (d + 1)).map (fun i =>
          Con.clause [-(dId G.n p.1), -(dId G.n p.2), -(mId G.n d p.1 i), -(mId G.n d p.2 i)]))).all
          (Con.holds α) = true ↔
        (∀ u v, 1 ≤ u → u < v → v ≤ G.n → ∀ i, 1 ≤ i → i ≤ d →
          ¬ (α u = true ∧ α v = true ∧ α (mVar G d u i) = true ∧ α (mVar G d v i) = true)) := by
      simp only [List.all_flatMap, List.all_map, List.all_eq_true, mem_rangeN_one, Function.comp,
        Con.holds, clauseHolds, List.any_cons, List.any_nil, Bool.or_false]
      constructor
      · intro h u v hu1 hlt hvn i hi1 hi2 hall
        have := h (u, v) (mem_pairs2_rangeN.2 ⟨hu1, hlt, hvn⟩) i ⟨hi1, hi2⟩
        rw [litHolds_neg_dId α _ _ hu1, litHolds_neg_dId α _ _ (by omega), litHolds_neg_mId,
          litHolds_neg_mId, hall.1, hall.2.1, hall.2.2.1, hall.2.2.2] at this
        simp at this
      · intro h p hp i hi
        obtain ⟨u, v⟩ := p
        rw [mem_pairs2_rangeN] at hp
        rw [litHolds_neg_dId α _ _ hp.1, litHolds_neg_dId α _ _ (by omega), litHolds_neg_mId,
          litHolds_neg_mId]
        have := h u v hp.1 hp.2.1 hp.2.2 i hi.1 hi.2
        cases e1 : α u <;> cases e2 : α v <;> cases e3 : α (mapId (G.n + 1) d u i) <;>
          cases e4 : α (mapId (G.n + 1) d v i) <;> simp_all
    have h2 : ((rangeN 1 (G.n + 1)).flatMap (fun v => (pairs2 (rangeN 1 (d + 1))).map (fun p =>
          Con.clause [-(dId G.n v), -(mId G.n d v p.1), -(mId G.n d v p.2)]))).all
          (Con.holds α) = true ↔
        (∀ v, 1 ≤ v → v ≤ G.n → ∀ i j, 1 ≤ i → i < j → j ≤ d →
          ¬ (α v = true ∧ α (mVar G d v i) = true ∧ α (mVar G d v j) = true)) := by
      simp only [List.all_flatMap, List.all_map, List.all_eq_true, mem_rangeN_one, Function.comp,
        Con.holds, clauseHolds, List.any_cons, List.any_nil, Bool.or_false]
      constructor
      · intro h v hv1 hvn i j hi1 hlt hjd hall
        have := h v ⟨hv1, hvn⟩ (i, j) (mem_pairs2_rangeN.2 ⟨hi1, hlt, hjd⟩)
        rw [litHolds_neg_dId α _ _ hv1, litHolds_neg_mId, litHolds_neg_mId, hall.1, hall.2.1,
          hall.2.2] at this
        simp at this
      · intro h v hv p hp
        obtain ⟨i, j⟩ := p
        rw [mem_pairs2_rangeN] at hp
        rw [litHolds_neg_dId α _ _ hv.1, litHolds_neg_mId, litHolds_neg_mId]
        have := h v hv.1 hv.2 i j hp.1 hp.2.1 hp.2.2
        cases e1 : α v <;> cases e3 : α (mapId (G.n + 1) d v i) <;>
          cases e4 : α (mapId (G.n + 1) d v j) <;> simp_all
    have h4 : ((rangeN 1 (G.n + 1)).map (fun v =>
          Con.clause (-(dId G.n v) :: mapRow (G.n + 1) d v))).all (Con.holds α) = true ↔
        (∀ v, 1 ≤ v → v ≤ G.n → α v = true → ∃ i, 1 ≤ i ∧ i ≤ d ∧ α (mVar G d v i) = true) := by
      simp only [List.all_map, List.all_eq_true, mem_rangeN_one, Function.comp, Con.holds]
      constructor
      · intro h4 v h1 h2 hα
        have := h4 v ⟨h1, h2⟩
        rw [clauseHolds, List.any_cons, litHolds_neg_dId α _ _ h1, hα] at this
        simp only [Bool.not_true, Bool.false_or] at this
        exact (clauseHolds_mapRow α (by omega) d v).1 this
      · intro h v hv
        rw [clauseHolds, List.any_cons, litHolds_neg_dId α _ _ hv.1]
        cases hα : α v
        · simp
        · simp only [Bool.not_true, Bool.false_or]
          exact (clauseHolds_mapRow α (by omega) d v).2 (h v hv.1 hv.2 hα)
    rw [← h1, ← h2, ← h4]
    tauto

/-! ### dominating sets ↔ assignments -/

/-- `S` is a set (duplicate-free list) of vertices of `G` that dominates `G` -/
def Dominating (G : SimpleG) (S : List Nat) : Prop :=
  S.Nodup ∧ (∀ s ∈ S, 1 ≤ s ∧ s ≤ G.n) ∧
  ∀ v, 1 ≤ v → v ≤ G.n → ∃ u ∈ S, u = v ∨ u ∈ G.nbrs v

theorem length_le_of_inj (S : List Nat) (hnd : S.Nodup) (f : Nat → Nat) (d : Nat)
    (hm : ∀ v ∈ S, 1 ≤ f v ∧ f v ≤ d) (hi : ∀ u ∈ S, ∀ v ∈ S, f u = f v → u = v) :
    S.length ≤ d := by
  have := Finset.card_le_card_of_injOn (s := S.toFinset) (t := Finset.Icc 1 d) f
    (fun a ha => by
      have := hm a (List.mem_toFinset.1 (Finset.mem_coe.1 ha))
      exact Finset.mem_coe.2 (Finset.mem_Icc.2 this))
    (fun a ha b hb hab =>
      hi a (List.mem_toFinset.1 (Finset.mem_coe.1 ha)) b (List.mem_toFinset.1 (Finset.mem_coe.1 hb)) hab)
  rw [List.toFinset_card_of_nodup hnd, Nat.card_Icc] at this
  omega

/-- the `D` part of an assignment as a vertex list -/
def domOf (G : SimpleG) (α : Assign) : List Nat := (rangeN 1 (G.n + 1)).filter (fun v => α v)

theorem mem_domOf {G : SimpleG} {α : Assign} {v : Nat} :
    v ∈ domOf G α ↔ 1 ≤ v ∧ v ≤ G.n ∧ α v = true := by
  unfold domOf; rw [List.mem_filter, mem_rangeN_one]; tauto

theorem domOf_dominating (G : SimpleG) (hG : GoodGraph G) (α : Assign) (h : DomPart G α) :
    Dominating G (domOf G α) := by
  refine ⟨(rangeN_one_nodup G.n).filter _, fun s hs => ?_, fun v h1 h2 => ?_⟩
  · have := mem_domOf.1 hs; exact ⟨this.1, this.2.1⟩
  · obtain ⟨u, hu, hα⟩ := h v h1 h2
    have hr := closedNbr_range hG h1 h2 (mem_closedNbr.2 hu)
    exact ⟨u, mem_domOf.2 ⟨hr.1, hr.2, hα⟩, hu⟩

theorem domset_std_sound (G : SimpleG) (hG : GoodGraph G) (d : Nat) (α : Assign)
    (h : DomSpecStd G d α) : Dominating G (domOf G α) ∧ (domOf G α).length ≤ d := by
  obtain ⟨hinj, _, hiff, hdom⟩ := h
  have hD := domOf_dominating G hG α hdom
  refine ⟨hD, length_le_of_inj _ hD.1 (pickIdx (G.n + 1) d α) d ?_ ?_⟩
  · intro v hv
    have hv' := mem_domOf.1 hv
    have := pickIdx_spec ((hiff v hv'.1 hv'.2.1).1 hv'.2.2)
    exact ⟨this.1, this.2.1⟩
  · intro u hu v hv heq
    have hu' := mem_domOf.1 hu
    have hv' := mem_domOf.1 hv
    have su := pickIdx_spec ((hiff u hu'.1 hu'.2.1).1 hu'.2.2)
    have sv := pickIdx_spec ((hiff v hv'.1 hv'.2.1).1 hv'.2.2)
    rw [heq] at su
    exact hinj _ sv.1 sv.2.1 u v hu'.1 hu'.2.1 hv'.1 hv'.2.1 su.2.2 sv.2.2

theorem domset_alt_sound (G : SimpleG) (hG : GoodGraph G) (d : Nat) (α : Assign)
    (h : DomSpecAlt G d α) : Dominating G (domOf G α) ∧ (domOf G α).length ≤ d := by
  obtain ⟨hdiff, _, hex, hdom⟩ := h
  have hD := domOf_dominating G hG α hdom
  refine ⟨hD, length_le_of_inj _ hD.1 (pickIdx (G.n + 1) d α) d ?_ ?_⟩
  · intro v hv
    have hv' := mem_domOf.1 hv
    have := pickIdx_spec (hex v hv'.1 hv'.2.1 hv'.2.2)
    exact ⟨this.1, this.2.1⟩
  · intro u hu v hv heq
    have hu' := mem_domOf.1 hu
    have hv' := mem_domOf.1 hv
    have su := pickIdx_spec (hex u hu'.1 hu'.2.1 hu'.2.2)
    have sv := pickIdx_spec (hex v hv'.1 hv'.2.1 hv'.2.2)
    rw [heq] at su
    rcases Nat.lt_trichotomy u v with hlt | heq' | hgt
    · exact absurd ⟨hu'.2.2, hv'.2.2, su.2.2, sv.2.2⟩ (hdiff u v hu'.1 hlt hv'.2.1 _ sv.1 sv.2.1)
    · exact heq'
    · exact absurd ⟨hv'.2.2, hu'.2.2, sv.2.2, su.2.2⟩ (hdiff v u hv'.1 hgt hu'.2.1 _ sv.1 sv.2.1)

/-- position of `v` in the increasing enumeration of `S` -/
def rank (S : List Nat) (v : Nat) : Nat := S.countP (fun x => decide (x ≤ v))

theorem countP_lt_of_imp {l : List Nat} {p q : Nat → Bool} (himp : ∀ x, p x = true → q x = true)
    {a : Nat} (ha : a ∈ l) (hq : q a = true) (hp : p a = false) : l.countP p < l.countP q := by
  induction l with
  | nil => simp at ha
  | cons x xs ih =>
    have hmono : xs.countP p ≤ xs.countP q := List.countP_mono_left (fun x _ => himp x)
    rw [List.countP_cons, List.countP_cons]
    rcases List.mem_cons.1 ha with rfl | ha'
    · simp only [hp, hq, if_true]
      simp; omega
    · have := ih ha'
      cases hpx : p x
      · simp only [Bool.false_eq_true, if_false]; split <;> omega
      · simp only [himp x hpx, if_true]; omega

theorem rank_lt {S : List Nat} {u v : Nat} (hlt : u < v) (hv : v ∈ S) : rank S u < rank S v :=
  countP_lt_of_imp (fun x hx => by simp only [decide_eq_true_eq] at hx ⊢; omega) hv
    (by simp) (by simp; omega)

theorem rank_pos {S : List Nat} {v : Nat} (hv : v ∈ S) : 1 ≤ rank S v :=
  List.countP_pos_iff.2 ⟨v, hv, by simp⟩

theorem rank_le (S : List Nat) (v : Nat) : rank S v ≤ S.length := List.countP_le_length

theorem rank_inj {S : List Nat} {u v : Nat} (hu : u ∈ S) (hv : v ∈ S) (h : rank S u = rank S v) :
    u = v := by
  rcases Nat.lt_trichotomy u v with hlt | heq | hgt
  · have := rank_lt hlt hv; omega
  · exact heq
  · have := rank_lt hgt hu; omega

/-- the assignment describing the dominating set `S`: `D(v)` iff `v ∈ S`, `M(v,i)` iff `v` is the
`i`-th element of `S` in increasing order -/
def domAssign (V d : Nat) (S : List Nat) : Assign := fun x =>
  if x ≤ V then decide (x ∈ S)
  else decide (((x - (V + 1)) / d + 1) ∈ S ∧ rank S ((x - (V + 1)) / d + 1) = (x - (V + 1)) % d + 1)

theorem domAssign_D {V d : Nat} {S : List Nat} {v : Nat} (hv : v ≤ V) :
    domAssign V d S v = decide (v ∈ S) := by
  unfold domAssign; rw [if_pos hv]

theorem domAssign_M {V d : Nat} {S : List Nat} {v i : Nat} (hv : 1 ≤ v) (hi1 : 1 ≤ i) (hid : i ≤ d) :
    domAssign V d S (mapId (V + 1) d v i) = decide (v ∈ S ∧ rank S v = i) := by
  unfold domAssign
  have hge := mapId_ge (V + 1) d v i
  rw [if_neg (by omega)]
  have dec := mapId_decode (s := V + 1) hv hi1 hid
  rw [dec.1, dec.2]

theorem domAssign_dompart (G : SimpleG) (hG : GoodGraph G) (d : Nat) (S : List Nat)
    (hS : Dominating G S) : DomPart G (domAssign G.n d S) := by
  intro v h1 h2
  obtain ⟨u, hu, huv⟩ := hS.2.2 v h1 h2
  refine ⟨u, huv, ?_⟩
  rw [domAssign_D (hS.2.1 u hu).2]
  simpa using hu

theorem domset_std_complete (G : SimpleG) (hG : GoodGraph G) (d : Nat) (S : List Nat)
    (hS : Dominating G S) (hd : S.length ≤ d) : DomSpecStd G d (domAssign G.n d S) := by
  refine ⟨?_, ?_, ?_, domAssign_dompart G hG d S hS⟩
  · intro i hi1 hid u v hu1 _ hv1 _ ha hb
    rw [mVar, domAssign_M hu1 hi1 hid] at ha
    rw [mVar, domAssign_M hv1 hi1 hid] at hb
    simp only [decide_eq_true_eq] at ha hb
    exact rank_inj ha.1 hb.1 (by omega)
  · intro u1 u2 hu1 hlt _ i1 i2 hi2 hilt hi1 hboth
    rw [mVar, domAssign_M hu1 (by omega) hi1, mVar, domAssign_M (by omega) hi2 (by omega)] at hboth
    simp only [decide_eq_true_eq] at hboth
    have := rank_lt hlt hboth.2.1
    omega
  · intro v h1 h2
    rw [domAssign_D h2]
    simp only [decide_eq_true_eq]
    constructor
    · intro hv
      have r1 := rank_pos hv
      have r2 := rank_le S v
      exact ⟨rank S v, r1, by omega, by rw [mVar, domAssign_M h1 r1 (by omega)]; simp [hv]⟩
    · rintro ⟨i, hi1, hid, hm⟩
      rw [mVar, domAssign_M h1 hi1 hid] at hm
      simp only [decide_eq_true_eq] at hm
      exact hm.1

theorem domset_alt_complete (G : SimpleG) (hG : GoodGraph G) (d : Nat) (S : List Nat)
    (hS : Dominating G S) (hd : S.length ≤ d) : DomSpecAlt G d (domAssign G.n d S) := by
  refine ⟨?_, ?_, ?_, domAssign_dompart G hG d S hS⟩
  · intro u v hu1 hlt _ i hi1 hid hall
    rw [mVar, domAssign_M hu1 hi1 hid, mVar, domAssign_M (by omega) hi1 hid] at hall
    simp only [decide_eq_true_eq] at hall
    have := rank_lt hlt hall.2.2.2.1
    omega
  · intro v hv1 _ i j hi1 hlt hjd hall
    rw [mVar, domAssign_M hv1 hi1 (by omega), mVar, domAssign_M hv1 (by omega) hjd] at hall
    simp only [decide_eq_true_eq] at hall
    omega
  · intro v h1 h2 hα
    rw [domAssign_D h2] at hα
    simp only [decide_eq_true_eq] at hα
    have r1 := rank_pos hα
    have r2 := rank_le S v
    exact ⟨rank S v, r1, by omega, by rw [mVar, domAssign_M h1 r1 (by omega)]; simp [hα]⟩

/-! ### well-formedness -/

/-- literal `l` is legal in a formula with `N` variables -/
def LitOk (N : Nat) (l : Int) : Prop := l ≠ 0 ∧ l.natAbs ≤ N

theorem litOk_dId {V d v : Nat} (h1 : 1 ≤ v) (h2 : v ≤ V) :
    LitOk (V + V * d) (dId V v) ∧ LitOk (V + V * d) (-(dId V v)) := by
  rw [dId_eq V v h1]
  refine ⟨⟨by omega, ?_⟩, ⟨by omega, ?_⟩⟩
  · simp only [Int.natAbs_natCast]; omega
  · simp only [Int.natAbs_neg, Int.natAbs_natCast]; omega

theorem litOk_mId {V d v i : Nat} (h1 : 1 ≤ v) (h2 : v ≤ V) (hi1 : 1 ≤ i) (hid : i ≤ d) :
    LitOk (V + V * d) (mId V d v i) ∧ LitOk (V + V * d) (-(mId V d v i)) := by
  rw [mId_eq]
  have hlt := mapId_lt (s := V + 1) h1 h2 hi1 hid
  have hge := mapId_ge (V + 1) d v i
  refine ⟨⟨by omega, ?_⟩, ⟨by omega, ?_⟩⟩
  · simp only [Int.natAbs_natCast]; omega
  · simp only [Int.natAbs_neg, Int.natAbs_natCast]; omega

theorem litOk_mapRow {V d v : Nat} (h1 : 1 ≤ v) (h2 : v ≤ V) :
    ∀ l ∈ mapRow (V + 1) d v, LitOk (V + V * d) l := by
  intro l hl
  simp only [mapRow, List.mem_map, mem_rangeN_one] at hl
  obtain ⟨i, hi, rfl⟩ := hl
  exact (litOk_mId h1 h2 hi.1 hi.2).1

theorem litOk_mapCol {V d i : Nat} (hi1 : 1 ≤ i) (hid : i ≤ d) :
    ∀ l ∈ mapCol (V + 1) V d i, LitOk (V + V * d) l := by
  intro l hl
  simp only [mapCol, List.mem_map, mem_rangeN_one] at hl
  obtain ⟨v, hv, rfl⟩ := hl
  exact (litOk_mId hv.1 hv.2 hi1 hid).1

theorem domsetF_nvars (G : SimpleG) (d : Nat) (alt : Bool) :
    (domsetF G d alt).nvars = G.n + G.n * d := by
  by_cases hV : G.n = 0
  · have : domsetF G d alt = ⟨0, []⟩ := by unfold domsetF; simp [hV]
    rw [this, hV]; simp
  · rw [domsetF, if_neg hV]

theorem domsetF_wf (G : SimpleG) (hG : GoodGraph G) (d : Nat) (alt : Bool) : (domsetF G d alt).WF := by
  intro c hc l hl
  rw [domsetF_nvars]
  change LitOk _ l
  by_cases hV : G.n = 0
  · have : domsetF G d alt = ⟨0, []⟩ := by unfold domsetF; simp [hV]
    rw [this] at hc; simp at hc
  · rw [domsetF, if_neg hV] at hc
    simp only [List.mem_append] at hc
    rcases hc with (((hc | hc) | hc) | hc) | hc
    · -- part 1
      cases alt
      · simp only [Bool.false_eq_true, if_false, List.mem_map, mem_rangeN_one] at hc
        obtain ⟨i, hi, rfl⟩ := hc
        exact litOk_mapCol hi.1 hi.2 l hl
      · simp only [if_true, List.mem_flatMap, List.mem_map, mem_rangeN_one] at hc
        obtain ⟨⟨u, v⟩, hp, i, hi, rfl⟩ := hc
        rw [mem_pairs2_rangeN] at hp
        simp only [Con.lits, List.mem_cons, List.not_mem_nil, or_false] at hl
        rcases hl with rfl | rfl | rfl | rfl
        · exact (litOk_dId hp.1 (by omega)).2
        · exact (litOk_dId (by omega) hp.2.2).2
        · exact (litOk_mId hp.1 (by omega) hi.1 hi.2).2
        · exact (litOk_mId (by omega) hp.2.2 hi.1 hi.2).2
    · -- part 2
      cases alt
      · simp only [Bool.false_eq_true, if_false, List.mem_flatMap] at hc
        obtain ⟨⟨u1, u2⟩, hp, ⟨i1, i2⟩, hq, hc⟩ := hc
        rw [mem_pairs2_rangeN] at hp
        rw [mem_prod2, mem_rangeN_one, mem_rangeN_one] at hq
        split at hc
        · simp only [List.mem_cons, List.not_mem_nil, or_false] at hc
          subst hc
          simp only [Con.lits, List.mem_cons, List.not_mem_nil, or_false] at hl
          rcases hl with rfl | rfl
          · exact (litOk_mId hp.1 (by omega) hq.1.1 hq.1.2).2
          · exact (litOk_mId (by omega) hp.2.2 hq.2.1 hq.2.2).2
        · simp at hc
      · simp only [if_true, List.mem_flatMap, List.mem_map, mem_rangeN_one] at hc
        obtain ⟨v, hv, ⟨i, j⟩, hp, rfl⟩ := hc
        rw [mem_pairs2_rangeN] at hp
        simp only [Con.lits, List.mem_cons, List.not_mem_nil, or_false] at hl
        rcases hl with rfl | rfl | rfl
        · exact (litOk_dId hv.1 hv.2).2
        · exact (litOk_mId hv.1 hv.2 hp.1 (by omega)).2
        · exact (litOk_mId hv.1 hv.2 (by omega) hp.2.2).2
    · -- part 3
      cases alt
      · simp only [Bool.false_eq_true, if_false, List.mem_flatMap, List.mem_map, mem_rangeN_one] at hc
        obtain ⟨i, hi, v, hv, rfl⟩ := hc
        simp only [Con.lits, List.mem_cons, List.not_mem_nil, or_false] at hl
        rcases hl with rfl | rfl
        · exact (litOk_mId hv.1 hv.2 hi.1 hi.2).2
        · exact (litOk_dId hv.1 hv.2).1
      · simp at hc
    · -- part 4
      simp only [List.mem_map, mem_rangeN_one] at hc
      obtain ⟨v, hv, rfl⟩ := hc
      simp only [Con.lits, List.mem_cons] at hl
      rcases hl with rfl | hl
      · exact (litOk_dId hv.1 hv.2).2
      · exact litOk_mapRow hv.1 hv.2 l hl
    · -- part 5
      simp only [List.mem_map] at hc
      obtain ⟨N, hN, rfl⟩ := hc
      obtain ⟨v, h1, h2, rfl⟩ := mem_uniqueNeighborhoods.1 hN
      simp only [Con.lits, List.mem_map] at hl
      obtain ⟨u, hu, rfl⟩ := hl
      have hr := closedNbr_range hG h1 h2 hu
      exact (litOk_dId hr.1 hr.2).1

/-! ### tiling -/

/-- every closed neighbourhood contains exactly one chosen vertex -/
def TilingSpec (G : SimpleG) (α : Assign) : Prop :=
  ∀ v, 1 ≤ v → v ≤ G.n → (v :: G.nbrs v).countP (fun u => α u) = 1

theorem count_nbhd (G : SimpleG) (hG : GoodGraph G) (α : Assign) {v : Nat} (h1 : 1 ≤ v) (h2 : v ≤ G.n) :
    count α ((closedNbr G v).map (dId G.n)) = (v :: G.nbrs v).countP (fun u => α u) := by
  unfold count
  rw [List.countP_map]
  have hperm : (closedNbr G v).Perm (v :: G.nbrs v) := sortNat_perm _
  rw [← hperm.countP_eq]
  apply List.countP_congr
  intro u hu
  have hr := closedNbr_range hG h1 h2 hu
  simp only [Function.comp, litHolds_dId α _ _ hr.1]

theorem tiling_holds_iff (G : SimpleG) (hG : GoodGraph G) (α : Assign) :
    (tiling G).holds α = true ↔ TilingSpec G α := by
  unfold Formula.holds tiling TilingSpec
  simp only [List.all_map, List.all_eq_true, Function.comp, Con.holds, Op.denote, decide_eq_true_eq]
  constructor
  · intro h v h1 h2
    have := h (closedNbr G v) (mem_uniqueNeighborhoods.2 ⟨v, h1, h2, rfl⟩)
    rw [count_nbhd G hG α h1 h2] at this
    omega
  · intro h N hN
    obtain ⟨v, h1, h2, rfl⟩ := mem_uniqueNeighborhoods.1 hN
    rw [count_nbhd G hG α h1 h2, h v h1 h2]
    rfl

theorem tiling_wf (G : SimpleG) (hG : GoodGraph G) : (tiling G).WF := by
  intro c hc l hl
  simp only [tiling, List.mem_map] at hc
  obtain ⟨N, hN, rfl⟩ := hc
  obtain ⟨v, h1, h2, rfl⟩ := mem_uniqueNeighborhoods.1 hN
  simp only [Con.lits, List.mem_map] at hl
  obtain ⟨u, hu, rfl⟩ := hl
  have hr := closedNbr_range hG h1 h2 hu
  rw [dId_eq _ _ hr.1]
  have : (tiling G).nvars = G.n := rfl
  rw [this]
  constructor
  · omega
  · simp only [Int.natAbs_natCast]; exact hr.2

/-- `S` is a set of vertices meeting every closed neighbourhood exactly once -/
def IsTiling (G : SimpleG) (S : List Nat) : Prop :=
  S.Nodup ∧ (∀ s ∈ S, 1 ≤ s ∧ s ≤ G.n) ∧
  ∀ v, 1 ≤ v → v ≤ G.n → (v :: G.nbrs v).countP (fun u => decide (u ∈ S)) = 1

theorem tiling_sound (G : SimpleG) (hG : GoodGraph G) (α : Assign) (h : TilingSpec G α) :
    IsTiling G (domOf G α) := by
  refine ⟨(rangeN_one_nodup G.n).filter _, fun s hs => ?_, fun v h1 h2 => ?_⟩
  · have := mem_domOf.1 hs; exact ⟨this.1, this.2.1⟩
  · rw [← h v h1 h2]
    apply List.countP_congr
    intro u hu
    have hr := closedNbr_range hG h1 h2 (mem_closedNbr.2 (List.mem_cons.1 hu))
    simp only [decide_eq_true_eq, mem_domOf]
    constructor
    · intro h; exact h.2.2
    · intro h; exact ⟨hr.1, hr.2, h⟩

theorem tiling_complete (G : SimpleG) (S : List Nat) (h : IsTiling G S) :
    TilingSpec G (fun u => decide (u ∈ S)) := h.2.2

/-! ### the concrete example -/

theorem exG_dominating : Dominating exG [1, 4, 6] := by
  refine ⟨by decide, by decide, fun v h1 h2 => ?_⟩
  rcases exG_vertices h1 h2 with rfl | rfl | rfl | rfl | rfl | rfl <;> decide

theorem exG_tiling : IsTiling exG [1, 4, 6] := by
  refine ⟨by decide, by decide, fun v h1 h2 => ?_⟩
  rcases exG_vertices h1 h2 with rfl | rfl | rfl | rfl | rfl | rfl <;> decide

end Fam
end Cnfgen
