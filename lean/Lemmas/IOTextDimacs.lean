/-
Character level, DIMACS: lexing the text `to_dimacs_file` writes gives exactly the token rows
`renderDimacs` the token-level theorems of C06 speak about.
-/
import Lemmas.IOTextSplit
namespace Cnfgen.IO

/-- every number the DIMACS writer has to print for `F` has at most `maxStrDigits` digits
(beyond that CPython's `str()` raises instead of printing) -/
def DimacsPrintable (F : CNF) : Prop :=
  F.nvars < 10 ^ maxStrDigits ∧ F.clauses.length < 10 ^ maxStrDigits ∧
  ∀ c ∈ F.clauses, ∀ l ∈ c, l.natAbs < 10 ^ maxStrDigits

theorem isTok_natStr (n : Nat) : IsTok (natStr n) := ⟨(natStr_digits n).2.1, natStr_noWS n⟩
theorem isTok_intStr (z : Int) : IsTok (intStr z) := ⟨(intStr_noWS z).2, (intStr_noWS z).1⟩
theorem isTok_intStrPlus (z : Int) : IsTok (intStrPlus z) := ⟨(intStrPlus_noWS z).2, (intStrPlus_noWS z).1⟩
theorem isTok_opbLit (l : Int) : IsTok (opbLitText l) := ⟨(opbLitText_noWS l).2, (opbLitText_noWS l).1⟩

theorem isTok_lit (s : Str) (h : (!s.isEmpty && s.all (fun c => !isSpace c)) = true) : IsTok s := by
  simp only [Bool.and_eq_true, Bool.not_eq_true', List.all_eq_true] at h
  refine ⟨?_, fun c hc => by simpa using h.2 c hc⟩
  intro e; subst e; simp at h

theorem noNL_flatMap {α} (l : List α) (f : α → Str) (h : ∀ x ∈ l, NoNL (f x)) : NoNL (l.flatMap f) := by
  intro c hc
  obtain ⟨x, hx, hcx⟩ := List.mem_flatMap.1 hc
  exact h x hx c hcx

/-! the problem line -/

theorem pcnf_lit : "p cnf ".toList = ['p', ' ', 'c', 'n', 'f', ' '] := by decide
theorem cnf_lit : "cnf".toList = ['c', 'n', 'f'] := by decide

def dimacsSpecLine (n m : Nat) : Str := ['p', ' ', 'c', 'n', 'f', ' '] ++ natStr n ++ [' '] ++ natStr m

theorem dimacsSpecLine_toks (n m : Nat) : dimacsSpecLine n m =
    [['p'], "cnf".toList, natStr n].flatMap (fun t => t ++ [' ']) ++ natStr m := by
  rw [cnf_lit]
  simp only [dimacsSpecLine, List.flatMap_cons, List.flatMap_nil, List.append_assoc, List.append_nil,
    List.cons_append, List.nil_append]

theorem dimacsSpecLine_noNL (n m : Nat) : NoNL (dimacsSpecLine n m) :=
  (((noNL_lit _ (by decide)).append (natStr_noNL n)).append (noNL_lit _ (by decide))).append (natStr_noNL m)

theorem lexLine_dimacsSpec (n m : Nat) (hn : n < 10 ^ maxStrDigits) (hm : m < 10 ^ maxStrDigits) :
    lexLine (dimacsSpecLine n m) = specRow n m := by
  have e : dimacsSpecLine n m =
      [['p'], "cnf".toList, natStr n].flatMap (fun t => t ++ [' ']) ++ natStr m := by
    exact dimacsSpecLine_toks n m
  have h : ∀ t ∈ [['p'], "cnf".toList, natStr n], IsTok t := by
    intro t ht
    simp only [List.mem_cons, List.not_mem_nil, or_false] at ht
    rcases ht with rfl | rfl | rfl
    · exact isTok_lit _ (by decide)
    · exact isTok_lit _ (by decide)
    · exact isTok_natStr n
  have c1 : classify ['p'] = .word ['p'] := by decide
  have c2 : classify ['c', 'n', 'f'] = .word ['c', 'n', 'f'] := by decide
  rw [e, lexLine_toks _ _ h (isTok_natStr m)]
  simp [specRow, c1, c2, classify_natStr n hn, classify_natStr m hm]

/-! clause lines -/

def dimacsClauseLine (c : Clause) : Str := c.flatMap (fun l => intStr l ++ [' ']) ++ ['0']

theorem clauseText_eq (c : Clause) : clauseText c = dimacsClauseLine c ++ ['\n'] := by
  simp [clauseText, dimacsClauseLine]

theorem dimacsClauseLine_noNL (c : Clause) : NoNL (dimacsClauseLine c) :=
  (noNL_flatMap c _ (fun l _ => (intStr_noNL l).append (noNL_lit _ (by decide)))).append (noNL_lit _ (by decide))

theorem lexLine_dimacsClause (c : Clause) (h : ∀ l ∈ c, l.natAbs < 10 ^ maxStrDigits) :
    lexLine (dimacsClauseLine c) = clauseRow c := by
  have e : dimacsClauseLine c = (c.map intStr).flatMap (fun t => t ++ [' ']) ++ ['0'] := by
    simp [dimacsClauseLine, List.flatMap_map]
  have ht : ∀ t ∈ c.map intStr, IsTok t := by
    intro t ht; obtain ⟨l, _, rfl⟩ := List.mem_map.1 ht; exact isTok_intStr l
  have c0 : classify ['0'] = .int 0 := by decide
  have hm : (c.map intStr).map classify = c.map Tok.int := by
    rw [List.map_map]
    apply List.map_congr_left
    intro l hl
    exact classify_intStr l (h l hl)
  rw [e, lexLine_toks _ _ ht (isTok_lit _ (by decide)), hm, c0]; rfl

theorem lex_dimacsClauses (u : Bool) (cs : List Clause)
    (h : ∀ c ∈ cs, ∀ l ∈ c, l.natAbs < 10 ^ maxStrDigits) :
    lex u (cs.flatMap clauseText) = cs.map clauseRow := by
  induction cs with
  | nil => simp [lex_nil]
  | cons c cs ih =>
    simp only [List.flatMap_cons, List.map_cons, clauseText_eq c, List.append_assoc, List.singleton_append]
    rw [lex_cons_line u _ _ (dimacsClauseLine_noNL c), lexLine_dimacsClause c (h c (by simp)),
      ih (fun c' hc' => h c' (by simp [hc']))]

theorem renderDimacsText_eq (F : CNF) (hdr : Option Header) (names : Option (List Str)) :
    renderDimacsText F hdr names =
      (dimacsCommentChunks hdr names).flatten ++
        (dimacsSpecLine F.nvars F.clauses.length ++ '\n' :: F.clauses.flatMap clauseText) := by
  unfold renderDimacsText dimacsSpecLine
  rw [pcnf_lit]
  simp only [List.append_assoc, List.cons_append, List.nil_append]

/-- the line structure of the text, whatever the sizes of the numbers -/
theorem lex_renderDimacsText_lines (u : Bool) (F : CNF) (hdr : Option Header) (names : Option (List Str)) :
    lex u (renderDimacsText F hdr names) =
      dimacsCommentRows u hdr names ++
        lexLine (dimacsSpecLine F.nvars F.clauses.length) :: lex u (F.clauses.flatMap clauseText) := by
  rw [renderDimacsText_eq,
    lex_chunks u _ _ (fun ch hch => isLineChunk_of_comment (by decide) (dimacs_chunks hdr names ch hch)),
    lex_cons_line u _ _ (dimacsSpecLine_noNL _ _)]
  rfl

/-- lexing the characters the writer emits gives the token rows of `renderDimacs` -/
theorem lex_renderDimacsText (u : Bool) (F : CNF) (hdr : Option Header) (names : Option (List Str))
    (hp : DimacsPrintable F) : lex u (renderDimacsText F hdr names) = renderDimacs u F hdr names := by
  obtain ⟨hn, hm, hl⟩ := hp
  rw [renderDimacsText_eq,
    lex_chunks u _ _ (fun ch hch => isLineChunk_of_comment (by decide) (dimacs_chunks hdr names ch hch)),
    lex_cons_line u _ _ (dimacsSpecLine_noNL _ _), lexLine_dimacsSpec _ _ hn hm, lex_dimacsClauses u _ hl]
  rfl

/-- a well-formed formula is printable as soon as its two counts are -/
theorem dimacsPrintable_of_wf (F : CNF) (hF : F.WF) (hn : F.nvars < 10 ^ maxStrDigits)
    (hm : F.clauses.length < 10 ^ maxStrDigits) : DimacsPrintable F :=
  ⟨hn, hm, fun c hc l hl => Nat.lt_of_le_of_lt (hF c hc l hl).2 hn⟩

/-! beyond the digit limit: the text is rejected -/

theorem lexLine_dimacsSpec_big (n m : Nat) (h : 10 ^ maxStrDigits ≤ n ∨ 10 ^ maxStrDigits ≤ m) :
    ∃ a b : Tok, ((∃ w, a = .word w) ∨ (∃ w, b = .word w)) ∧
      lexLine (dimacsSpecLine n m) = [.word ['p'], .word "cnf".toList, a, b] := by
  have e : dimacsSpecLine n m =
      [['p'], "cnf".toList, natStr n].flatMap (fun t => t ++ [' ']) ++ natStr m := by
    exact dimacsSpecLine_toks n m
  have ht : ∀ t ∈ [['p'], "cnf".toList, natStr n], IsTok t := by
    intro t ht
    simp only [List.mem_cons, List.not_mem_nil, or_false] at ht
    rcases ht with rfl | rfl | rfl
    · exact isTok_lit _ (by decide)
    · exact isTok_lit _ (by decide)
    · exact isTok_natStr n
  have c1 : classify ['p'] = .word ['p'] := by decide
  have c2 : classify ['c', 'n', 'f'] = .word ['c', 'n', 'f'] := by decide
  refine ⟨classify (natStr n), classify (natStr m), ?_, ?_⟩
  · rcases h with h | h
    · exact Or.inl ⟨_, classify_natStr_big n h⟩
    · exact Or.inr ⟨_, classify_natStr_big m h⟩
  · rw [e, lexLine_toks _ _ ht (isTok_natStr m)]
    simp [c1, c2]

end Cnfgen.IO
