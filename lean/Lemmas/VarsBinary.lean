/-
Lemmas for T-C11.4 and the binary part of T-C04.6 — `BinaryMappingVariables`:
`(i, b) ↔ start - 1 + i·bits − b`, `clog2`, and `forbid`.
-/
import CnfgenModel.Vars.Patterns
import CnfgenModel.Vars.Mapping
import Lemmas.IterNodup
import Lemmas.Linear
namespace Cnfgen
namespace Vars

/-- `clog2 m` is the least `b` with `m ≤ 2^b` -/
theorem clog2_spec (m : Nat) : m ≤ 2 ^ clog2 m ∧ ∀ b, m ≤ 2 ^ b → clog2 m ≤ b := by
  unfold clog2
  by_cases h : m ≤ 1
  · simp [h]
  · rw [if_neg h]
    constructor
    · have := Nat.lt_log2_self (n := m - 1)
      omega
    · intro b hb
      have h1 : m - 1 < 2 ^ b := by
        have : 0 < 2 ^ b := Nat.two_pow_pos b
        omega
      have := (Nat.log2_lt (n := m - 1) (k := b) (by omega)).mpr h1
      omega

/-- all `(i, b)` in the order of `indices()`: `i` ascending, `b` from `bits-1` down to `0` -/
def binAll (n bits : Nat) : List (Nat × Nat) :=
  (rangeN 1 (n + 1)).flatMap (fun i => (List.range bits).reverse.map (fun b => (i, b)))

theorem mem_binAll {n bits i b : Nat} : (i, b) ∈ binAll n bits ↔ (1 ≤ i ∧ i ≤ n) ∧ b < bits := by
  simp only [binAll, List.mem_flatMap, mem_rangeN, List.mem_map, List.mem_reverse, List.mem_range,
    Prod.mk.injEq]
  constructor
  · rintro ⟨a, ha, c, hc, rfl, rfl⟩
    exact ⟨⟨ha.1, by omega⟩, hc⟩
  · rintro ⟨hi, hb⟩
    exact ⟨i, ⟨hi.1, by omega⟩, b, hb, rfl, rfl⟩

/-- closed form of `binId` on legal arguments -/
theorem binId_eq {start bits i b : Nat} (hs : 1 ≤ start) (hi : 1 ≤ i) (hb : b < bits) :
    binId start bits i b = start + (i - 1) * bits + (bits - 1 - b) := by
  unfold binId
  obtain ⟨k, rfl⟩ : ∃ k, i = k + 1 := ⟨i - 1, by omega⟩
  simp only [Nat.add_sub_cancel, Nat.add_mul, Nat.one_mul]
  omega

theorem binId_range {start n bits i b : Nat} (hs : 1 ≤ start) (hi : 1 ≤ i ∧ i ≤ n) (hb : b < bits) :
    start ≤ binId start bits i b ∧ binId start bits i b < start + n * bits := by
  rw [binId_eq hs hi.1 hb]
  obtain ⟨k, rfl⟩ : ∃ k, i = k + 1 := ⟨i - 1, by omega⟩
  obtain ⟨d, rfl⟩ : ∃ d, n = k + 1 + d := ⟨n - (k + 1), by omega⟩
  simp only [Nat.add_sub_cancel, Nat.add_mul, Nat.one_mul]
  omega

theorem binAll_succ (n bits : Nat) :
    binAll (n + 1) bits = binAll n bits ++ (List.range bits).reverse.map (fun b => (n + 1, b)) := by
  unfold binAll
  have : rangeN 1 (n + 1 + 1) = rangeN 1 (n + 1) ++ [n + 1] := by
    simp only [rangeN, Nat.add_sub_cancel, List.range_succ, List.map_append, List.map_cons,
      List.map_nil]
  rw [this, List.flatMap_append]
  simp

theorem binRow_ids {start : Nat} (hs : 1 ≤ start) (bits i : Nat) (hi : 1 ≤ i) :
    ((List.range bits).reverse.map (fun b => (i, b))).map (fun p => binId start bits p.1 p.2)
      = List.range' (start + (i - 1) * bits) bits := by
  apply List.ext_getElem
  · simp
  · intro t h1 h2
    have ht : t < bits := by simpa using h2
    simp only [List.map_map, List.getElem_map, List.getElem_reverse, List.getElem_range,
      List.length_range, Function.comp, List.getElem_range']
    rw [binId_eq hs hi (by omega)]
    omega

/-- contiguity in enumeration order -/
theorem binAll_ids {start : Nat} (hs : 1 ≤ start) (n bits : Nat) :
    (binAll n bits).map (fun p => binId start bits p.1 p.2) = List.range' start (n * bits) := by
  induction n with
  | zero => simp [binAll, rangeN]
  | succ n ih =>
    rw [binAll_succ, List.map_append, ih, binRow_ids hs bits (n + 1) (by omega)]
    simp only [Nat.add_sub_cancel, Nat.add_mul, Nat.one_mul]
    rw [List.range'_append_1]

theorem binAll_nodup (n bits : Nat) : (binAll n bits).Nodup := by
  have h := binAll_ids (start := 1) (Nat.le_refl 1) n bits
  have : ((binAll n bits).map (fun p => binId 1 bits p.1 p.2)).Nodup := by
    rw [h]; exact List.nodup_range'
  exact List.Nodup.of_map _ this

/-- index → id → index, both polarities -/
theorem binIndex_binId {start n bits i b : Nat} (hs : 1 ≤ start) (hi : 1 ≤ i ∧ i ≤ n) (hb : b < bits) :
    binIndex start n bits (binId start bits i b : Int) = .ok (i, b) ∧
    binIndex start n bits (-(binId start bits i b : Int)) = .ok (i, b) := by
  have hr := binId_range hs hi hb
  have he := binId_eq hs hi.1 hb
  have key : binIndex start n bits (binId start bits i b : Int) = .ok (i, b) := by
    unfold binIndex
    simp only [Int.natAbs_natCast]
    rw [if_pos hr]
    have h1 : binId start bits i b - (start - 1) - 1 = (bits - 1 - b) + (i - 1) * bits := by
      omega
    rw [h1, Nat.add_mul_div_right _ _ (by omega), Nat.add_mul_mod_self_right,
      Nat.div_eq_of_lt (by omega), Nat.mod_eq_of_lt (by omega)]
    congr 2 <;> omega
  refine ⟨key, ?_⟩
  rw [← key]
  unfold binIndex
  simp only [Int.natAbs_neg]

/-- id → index → id -/
theorem binId_binIndex {start n bits : Nat} {lit : Int} {i b : Nat} (hs : 1 ≤ start)
    (h : binIndex start n bits lit = .ok (i, b)) :
    (1 ≤ i ∧ i ≤ n) ∧ b < bits ∧ binId start bits i b = lit.natAbs := by
  unfold binIndex at h
  simp only at h
  split at h
  · rename_i hr
    simp only [Except.ok.injEq, Prod.mk.injEq] at h
    obtain ⟨h1, h2⟩ := h
    generalize hv : lit.natAbs = v at *
    have hbits : 0 < bits := by
      rcases Nat.eq_zero_or_pos bits with h0 | h0
      · subst h0; simp at hr; omega
      · exact h0
    obtain ⟨r, rfl⟩ : ∃ r, v = start + r := ⟨v - start, by omega⟩
    have e : start + r - (start - 1) - 1 = r := by omega
    rw [e] at h1 h2
    have hrn : r < n * bits := by omega
    have hq : r / bits < n := (Nat.div_lt_iff_lt_mul hbits).mpr hrn
    have hm : r % bits < bits := Nat.mod_lt _ hbits
    have hd := Nat.div_add_mod r bits
    generalize r / bits = q at *
    generalize r % bits = m at *
    subst h1 h2
    refine ⟨⟨by omega, by omega⟩, by omega, ?_⟩
    unfold binId
    rw [Nat.add_mul, Nat.one_mul, Nat.mul_comm q bits]
    omega
  · cases h

theorem binIndex_isOk_iff (start n bits : Nat) (lit : Int) :
    (∃ p, binIndex start n bits lit = .ok p) ↔ (start ≤ lit.natAbs ∧ lit.natAbs < start + n * bits) := by
  unfold binIndex
  simp only
  constructor
  · rintro ⟨p, hp⟩
    split at hp
    · assumption
    · cases hp
  · intro hr
    rw [if_pos hr]
    exact ⟨_, rfl⟩

theorem binIndex_error {start n bits : Nat} {lit : Int} {e : Err}
    (h : binIndex start n bits lit = .error e) : e = .valueError := by
  unfold binIndex at h
  simp only at h
  split at h
  · cases h
  · cases h; rfl


/-! ### `indices(*pattern)` -/

/-- pattern matching on pairs -/
def pairMatches (pat : Pattern) (p : Nat × Nat) : Bool :=
  match pat with
  | [] => true
  | [a, b] => (match a with | none => true | some x => decide (x = (p.1 : Int))) &&
              (match b with | none => true | some y => decide (y = (p.2 : Int)))
  | _ => false

/-- the pattern is acceptable: no argument or two, `1 ≤ i ≤ n`, `0 ≤ b < bits` where given -/
def BinLegalPat (n bits : Nat) (pat : Pattern) : Prop :=
  pat = [] ∨ ∃ a b, pat = [a, b] ∧ (∀ x, a = some x → 1 ≤ x ∧ x ≤ (n : Int)) ∧ (∀ y, b = some y → 0 ≤ y ∧ y < (bits : Int))

/-- one coordinate of a pattern, as a predicate -/
def coordMatches (a : Option Int) (z : Nat) : Bool :=
  match a with | none => true | some x => decide (x = (z : Int))

/-- one coordinate of a pattern, as a selection from the list of all values -/
def coordSelect (a : Option Int) (l : List Nat) : List Nat :=
  match a with | none => l | some x => [x.toNat]

theorem pairMatches_two (a b : Option Int) :
    pairMatches [a, b] = fun p => coordMatches a p.1 && coordMatches b p.2 := by
  funext p; cases a <;> cases b <;> rfl

theorem filter_eq_singleton {l : List Nat} (hl : l.Nodup) {a : Nat} (ha : a ∈ l) (p : Nat → Bool)
    (hp : ∀ z, p z = true ↔ z = a) : l.filter p = [a] := by
  induction l with
  | nil => cases ha
  | cons x xs ih =>
    rw [List.nodup_cons] at hl
    by_cases hx : x = a
    · subst hx
      rw [List.filter_cons_of_pos ((hp x).mpr rfl)]
      congr 1
      rw [List.filter_eq_nil_iff]
      intro z hz hpz
      exact hl.1 ((hp z).mp hpz ▸ hz)
    · rw [List.filter_cons_of_neg (fun h => hx ((hp x).mp h))]
      exact ih hl.2 ((List.mem_cons.mp ha).resolve_left (Ne.symm hx))

theorem filter_coordMatches {l : List Nat} (hl : l.Nodup) (a : Option Int)
    (ha : ∀ x, a = some x → 0 ≤ x ∧ x.toNat ∈ l) : l.filter (coordMatches a) = coordSelect a l := by
  cases a with
  | none => simp [coordMatches, coordSelect]
  | some x =>
    obtain ⟨h0, hm⟩ := ha x rfl
    apply filter_eq_singleton hl hm
    intro z
    simp only [coordMatches, decide_eq_true_eq]
    omega

theorem filter_pairs (I Bs : List Nat) (A B : Nat → Bool) :
    (I.flatMap (fun i => Bs.map (fun b => (i, b)))).filter (fun p => A p.1 && B p.2)
      = (I.filter A).flatMap (fun i => (Bs.filter B).map (fun b => (i, b))) := by
  induction I with
  | nil => rfl
  | cons i is ih =>
    rw [List.flatMap_cons, List.filter_append, ih, List.filter_map]
    cases hA : A i
    · rw [List.filter_cons_of_neg (by simp [hA])]
      simp [Function.comp_def, hA]
    · rw [List.filter_cons_of_pos hA, List.flatMap_cons]
      simp [Function.comp_def, hA]

theorem binIndices_two (n bits : Nat) (a b : Option Int)
    (ha : ∀ x, a = some x → 1 ≤ x ∧ x ≤ (n : Int)) (hb : ∀ y, b = some y → 0 ≤ y ∧ y < (bits : Int)) :
    binIndices n bits [a, b] = .ok ((coordSelect a (rangeN 1 (n + 1))).flatMap
      (fun i => (coordSelect b (List.range bits).reverse).map (fun b => (i, b)))) := by
  cases a with
  | none =>
    cases b with
    | none => simp [binIndices, coordSelect, bind, Except.bind, pure, Except.pure]
    | some y => simp [binIndices, coordSelect, bind, Except.bind, pure, Except.pure, hb y rfl]
  | some x =>
    cases b with
    | none => simp [binIndices, coordSelect, bind, Except.bind, pure, Except.pure, ha x rfl]
    | some y => simp [binIndices, coordSelect, bind, Except.bind, pure, Except.pure, ha x rfl, hb y rfl]

/-- `indices(*pattern)`: exactly the matching pairs in identifier order; ValueError otherwise -/
theorem binIndices_pattern (n bits : Nat) (pat : Pattern) :
    (BinLegalPat n bits pat → binIndices n bits pat = .ok ((binAll n bits).filter (pairMatches pat))) ∧
    (¬ BinLegalPat n bits pat → binIndices n bits pat = .error .valueError) := by
  constructor
  · rintro (rfl | ⟨a, b, rfl, ha, hb⟩)
    · have : pairMatches [] = fun _ => true := by funext p; rfl
      rw [this, List.filter_true]
      simp [binIndices, binAll, bind, Except.bind, pure, Except.pure]
    · rw [binIndices_two n bits a b ha hb, pairMatches_two, binAll, filter_pairs,
        filter_coordMatches (rangeN_nodup _ _) a, filter_coordMatches _ b]
      · intro y hy
        have := hb y hy
        simp only [List.mem_reverse, List.mem_range]
        omega
      · exact List.nodup_reverse.mpr List.nodup_range
      · intro x hx
        have := ha x hx
        rw [mem_rangeN]
        omega
  · intro hnl
    match pat, hnl with
    | [], hnl => exact absurd (Or.inl rfl) hnl
    | [a], _ => simp [binIndices]
    | [a, b], hnl =>
      have hnl' : ¬ ((∀ x, a = some x → 1 ≤ x ∧ x ≤ (n : Int)) ∧ (∀ y, b = some y → 0 ≤ y ∧ y < (bits : Int))) :=
        fun h => hnl (Or.inr ⟨a, b, rfl, h.1, h.2⟩)
      cases a with
      | none =>
        cases b with
        | none => simp at hnl'
        | some y =>
          simp at hnl'
          simp [binIndices, bind, Except.bind, pure, Except.pure, throw, throwThe, MonadExceptOf.throw]
          omega
      | some x =>
        by_cases hx : 1 ≤ x ∧ x ≤ (n : Int)
        · cases b with
          | none => simp [hx] at hnl'
          | some y =>
            simp [hx] at hnl'
            simp [binIndices, bind, Except.bind, pure, Except.pure, throw, throwThe, MonadExceptOf.throw, hx]
            omega
        · simp [binIndices, bind, Except.bind, throw, throwThe, MonadExceptOf.throw, hx]
    | a :: b :: c :: r, _ => simp [binIndices]

/-! ### `forbid` -/

/-- the clause of `forbid`, as a `map` -/
def forbidClause (start bits i j : Nat) : Clause :=
  (List.range bits).map (fun t =>
    (if (j / 2 ^ (bits - 1 - t)) % 2 = 1 then (-1 : Int) else 1) * (binId start bits i (bits - 1 - t) : Int))

theorem forbid_zipWith (start bits i j : Nat) :
    (flipPattern bits j).zipWith (fun s t => s * (binId start bits i (bits - 1 - t) : Int)) (List.range bits)
      = forbidClause start bits i j := by
  unfold flipPattern forbidClause
  rw [List.zipWith_map_left, List.zipWith_self]

theorem forbid_eq (start bits i j : Nat) :
    forbid start bits i j = if j ≥ 2 ^ bits then .error .valueError else .ok (forbidClause start bits i j) := by
  unfold forbid
  rw [forbid_zipWith]

/-- the value encoded by the bits of `i`: `Σ_b 2^b · ⟦v(i,b)⟧` -/
def binVal (α : Assign) (start bits i : Nat) : Nat :=
  ((List.range bits).map (fun b => if α (binId start bits i b) then 2 ^ b else 0)).sum

/-- `Σ_{b<n} 2^b·⟦f b⟧` -/
def bitSum (f : Nat → Bool) (n : Nat) : Nat :=
  ((List.range n).map (fun b => if f b then 2 ^ b else 0)).sum

theorem binVal_eq_bitSum (α : Assign) (start bits i : Nat) :
    binVal α start bits i = bitSum (fun b => α (binId start bits i b)) bits := rfl

theorem bitSum_succ_top (f : Nat → Bool) (n : Nat) :
    bitSum f (n + 1) = bitSum f n + (if f n then 2 ^ n else 0) := by
  simp [bitSum, List.range_succ]

theorem bitSum_lt (f : Nat → Bool) (n : Nat) : bitSum f n < 2 ^ n := by
  induction n with
  | zero => simp [bitSum]
  | succ n ih =>
    rw [bitSum_succ_top, Nat.pow_succ]
    split <;> omega

theorem sum_map_two_mul (l : List Nat) (g : Nat → Nat) :
    (l.map (fun b => 2 * g b)).sum = 2 * (l.map g).sum := by
  induction l with
  | nil => rfl
  | cons x xs ih => simp only [List.map_cons, List.sum_cons, ih]; omega

theorem bitSum_succ_low (f : Nat → Bool) (n : Nat) :
    bitSum f (n + 1) = (if f 0 then 1 else 0) + 2 * bitSum (fun b => f (b + 1)) n := by
  unfold bitSum
  rw [List.range_succ_eq_map, List.map_cons, List.sum_cons, List.map_map, ← sum_map_two_mul]
  congr 2
  apply List.map_congr_left
  intro b _
  simp only [Function.comp, Nat.succ_eq_add_one]
  split
  · rw [Nat.pow_succ]; omega
  · rfl

/-- uniqueness of the binary representation -/
theorem bitSum_eq_iff (n : Nat) : ∀ (f : Nat → Bool) (j : Nat), j < 2 ^ n →
    (bitSum f n = j ↔ ∀ b < n, (f b = true ↔ (j / 2 ^ b) % 2 = 1)) := by
  induction n with
  | zero =>
    intro f j hj
    simp only [Nat.pow_zero, Nat.lt_one_iff] at hj
    subst hj
    simp [bitSum]
  | succ n ih =>
    intro f j hj
    rw [bitSum_succ_low]
    have hj2 : j / 2 < 2 ^ n := by rw [Nat.pow_succ] at hj; omega
    have hiff := ih (fun b => f (b + 1)) (j / 2) hj2
    have hdiv : ∀ b, j / 2 / 2 ^ b = j / 2 ^ (b + 1) := by
      intro b
      rw [Nat.div_div_eq_div_mul, Nat.pow_succ, Nat.mul_comm]
    constructor
    · intro h b hb
      have hS : bitSum (fun b => f (b + 1)) n = j / 2 := by
        split at h <;> omega
      cases b with
      | zero =>
        simp only [Nat.pow_zero, Nat.div_one]
        cases hf : f 0 <;> simp [hf] at h ⊢ <;> omega
      | succ b =>
        have := (hiff.mp hS) b (by omega)
        rw [hdiv] at this
        exact this
    · intro h
      have hS : bitSum (fun b => f (b + 1)) n = j / 2 := by
        apply hiff.mpr
        intro b hb
        have := h (b + 1) (by omega)
        rw [hdiv]
        exact this
      have h0 := h 0 (by omega)
      simp only [Nat.pow_zero, Nat.div_one] at h0
      rw [hS]
      cases hf : f 0 <;> simp [hf] at h0 ⊢ <;> omega

theorem binVal_lt (α : Assign) (start bits i : Nat) : binVal α start bits i < 2 ^ bits :=
  bitSum_lt _ _

theorem forbidClause_false_iff (α : Assign) {start bits i j : Nat} (hs : 1 ≤ start) (hi : 1 ≤ i) :
    clauseHolds α (forbidClause start bits i j) = false ↔
      ∀ b < bits, (α (binId start bits i b) = true ↔ (j / 2 ^ b) % 2 = 1) := by
  unfold clauseHolds forbidClause
  rw [List.any_eq_false]
  simp only [List.mem_map, List.mem_range, forall_exists_index, and_imp, forall_apply_eq_imp_iff₂]
  have lit : ∀ b, b < bits →
      (¬ litHolds α ((if (j / 2 ^ b) % 2 = 1 then (-1 : Int) else 1) * (binId start bits i b : Int)) = true
        ↔ (α (binId start bits i b) = true ↔ (j / 2 ^ b) % 2 = 1)) := by
    intro b hb
    have hpos := (binId_range hs ⟨hi, Nat.le_refl i⟩ hb).1
    have hv : (0 : Int) < (binId start bits i b : Int) := by omega
    have hne : binId start bits i b ≠ 0 := by omega
    by_cases hbit : (j / 2 ^ b) % 2 = 1
    · rw [if_pos hbit, Int.neg_one_mul, litHolds_neg _ _ (by omega)]
      simp [litHolds, hne, hbit]
    · rw [if_neg hbit, Int.one_mul]
      simp [litHolds, hne, hbit]
  constructor
  · intro h b hb
    have := h (bits - 1 - b) (by omega)
    have e : bits - 1 - (bits - 1 - b) = b := by omega
    rw [e] at this
    exact (lit b hb).mp this
  · intro h t ht
    exact (lit (bits - 1 - t) (by omega)).mpr (h _ (by omega))

/-- `forbid(i, j)` is defined for `j < 2^bits` and is false exactly when the bits of `i` encode `j` -/
theorem forbid_spec (α : Assign) {start bits i j : Nat} (hs : 1 ≤ start) (hi : 1 ≤ i) (hj : j < 2 ^ bits) :
    ∃ c, forbid start bits i j = .ok c ∧ (∀ l ∈ c, l ≠ 0) ∧
      (clauseHolds α c = false ↔ binVal α start bits i = j) := by
  refine ⟨forbidClause start bits i j, ?_, ?_, ?_⟩
  · rw [forbid_eq, if_neg (by omega)]
  · intro l hl
    unfold forbidClause at hl
    rw [List.mem_map] at hl
    obtain ⟨t, ht, rfl⟩ := hl
    rw [List.mem_range] at ht
    have hpos := (binId_range (bits := bits) (b := bits - 1 - t) hs ⟨hi, Nat.le_refl i⟩ (by omega)).1
    split <;> omega
  · rw [forbidClause_false_iff α hs hi, binVal_eq_bitSum, bitSum_eq_iff bits _ j hj]

theorem forbid_error {start bits i j : Nat} (hj : 2 ^ bits ≤ j) : forbid start bits i j = .error .valueError := by
  rw [forbid_eq, if_pos hj]

/-- literals of `forbid(i, j)` are variables of the group (of element `i`) -/
theorem forbid_lits {start n bits i j : Nat} {c : Clause} (hs : 1 ≤ start) (hi : 1 ≤ i ∧ i ≤ n)
    (h : forbid start bits i j = .ok c) :
    ∀ l ∈ c, start ≤ l.natAbs ∧ l.natAbs < start + n * bits := by
  rw [forbid_eq] at h
  split at h
  · cases h
  · simp only [Except.ok.injEq] at h
    subst h
    intro l hl
    unfold forbidClause at hl
    rw [List.mem_map] at hl
    obtain ⟨t, ht, rfl⟩ := hl
    rw [List.mem_range] at ht
    have hr := binId_range (bits := bits) (b := bits - 1 - t) hs hi (by omega)
    split <;> omega

/-- `forbidFull` (all the checks of the code) agrees with `forbid` on its documented domain -/
theorem forbidFull_eq_forbid {start n bits : Nat} {i j : Nat} (hi : 1 ≤ i ∧ i ≤ n) :
    forbidFull start n bits (i : Int) (j : Int) = forbid start bits i j := by
  unfold forbidFull forbid
  have hc : ((j : Int) ≥ 2 ^ bits) ↔ j ≥ 2 ^ bits := by
    constructor <;> intro h <;> exact_mod_cast h
  by_cases hj : j ≥ 2 ^ bits
  · rw [if_pos (hc.mpr hj), if_pos hj]
  · rw [if_neg (fun h => hj (hc.mp h)), if_neg hj]
    have hf : flipsGet bits (j : Int) = .ok (flipPattern bits j) := by
      unfold flipsGet
      rw [if_pos (by omega)]
      simp only [Int.toNat_natCast]
      rw [if_pos (by omega)]
    rw [hf]
    have hi' : (1 : Int) ≤ (i : Int) ∧ (i : Int) ≤ (n : Int) := by omega
    simp [hi', bind, Except.bind]

end Vars
end Cnfgen
