/-
Lemmas for T-C11.4 and the binary part of T-C04.6 — `BinaryMappingVariables`:
`(i, b) ↔ start - 1 + i·bits − b`, `clog2`, and `forbid`.
-/
import CnfgenModel.Vars.Patterns
import CnfgenModel.Vars.Mapping
import Lemmas.IterNodup
import Lemmas.Linear
namespace Cnfgen
namespace Vars

/-- `clog2 m` is the least `b` with `m ≤ 2^b` -/
theorem clog2_spec (m : Nat) : m ≤ 2 ^ clog2 m ∧ ∀ b, m ≤ 2 ^ b → clog2 m ≤ b := sorry

/-- all `(i, b)` in the order of `indices()`: `i` ascending, `b` from `bits-1` down to `0` -/
def binAll (n bits : Nat) : List (Nat × Nat) :=
  (rangeN 1 (n + 1)).flatMap (fun i => (List.range bits).reverse.map (fun b => (i, b)))

theorem mem_binAll {n bits i b : Nat} : (i, b) ∈ binAll n bits ↔ (1 ≤ i ∧ i ≤ n) ∧ b < bits := sorry
theorem binAll_nodup (n bits : Nat) : (binAll n bits).Nodup := sorry

theorem binId_range {start n bits i b : Nat} (hs : 1 ≤ start) (hi : 1 ≤ i ∧ i ≤ n) (hb : b < bits) :
    start ≤ binId start bits i b ∧ binId start bits i b < start + n * bits := sorry

/-- contiguity in enumeration order -/
theorem binAll_ids {start : Nat} (hs : 1 ≤ start) (n bits : Nat) :
    (binAll n bits).map (fun p => binId start bits p.1 p.2) = List.range' start (n * bits) := sorry

/-- index → id → index, both polarities -/
theorem binIndex_binId {start n bits i b : Nat} (hs : 1 ≤ start) (hi : 1 ≤ i ∧ i ≤ n) (hb : b < bits) :
    binIndex start n bits (binId start bits i b : Int) = .ok (i, b) ∧
    binIndex start n bits (-(binId start bits i b : Int)) = .ok (i, b) := sorry

/-- id → index → id -/
theorem binId_binIndex {start n bits : Nat} {lit : Int} {i b : Nat} (hs : 1 ≤ start)
    (h : binIndex start n bits lit = .ok (i, b)) :
    (1 ≤ i ∧ i ≤ n) ∧ b < bits ∧ binId start bits i b = lit.natAbs := sorry

theorem binIndex_isOk_iff (start n bits : Nat) (lit : Int) :
    (∃ p, binIndex start n bits lit = .ok p) ↔ (start ≤ lit.natAbs ∧ lit.natAbs < start + n * bits) := sorry
theorem binIndex_error {start n bits : Nat} {lit : Int} {e : Err}
    (h : binIndex start n bits lit = .error e) : e = .valueError := sorry

/-- pattern matching on pairs -/
def pairMatches (pat : Pattern) (p : Nat × Nat) : Bool :=
  match pat with
  | [] => true
  | [a, b] => (match a with | none => true | some x => decide (x = (p.1 : Int))) &&
              (match b with | none => true | some y => decide (y = (p.2 : Int)))
  | _ => false

/-- the pattern is acceptable: no argument or two, `1 ≤ i ≤ n`, `0 ≤ b < bits` where given -/
def BinLegalPat (n bits : Nat) (pat : Pattern) : Prop :=
  pat = [] ∨ ∃ a b, pat = [a, b] ∧ (∀ x, a = some x → 1 ≤ x ∧ x ≤ (n : Int)) ∧ (∀ y, b = some y → 0 ≤ y ∧ y < (bits : Int))

/-- `indices(*pattern)`: exactly the matching pairs in identifier order; ValueError otherwise -/
theorem binIndices_pattern (n bits : Nat) (pat : Pattern) :
    (BinLegalPat n bits pat → binIndices n bits pat = .ok ((binAll n bits).filter (pairMatches pat))) ∧
    (¬ BinLegalPat n bits pat → binIndices n bits pat = .error .valueError) := sorry

/-! ### `forbid` -/

/-- the value encoded by the bits of `i`: `Σ_b 2^b · ⟦v(i,b)⟧` -/
def binVal (α : Assign) (start bits i : Nat) : Nat :=
  ((List.range bits).map (fun b => if α (binId start bits i b) then 2 ^ b else 0)).sum

theorem binVal_lt (α : Assign) (start bits i : Nat) : binVal α start bits i < 2 ^ bits := sorry

/-- `forbid(i, j)` is defined for `j < 2^bits` and is false exactly when the bits of `i` encode `j` -/
theorem forbid_spec (α : Assign) {start bits i j : Nat} (hs : 1 ≤ start) (hi : 1 ≤ i) (hj : j < 2 ^ bits) :
    ∃ c, forbid start bits i j = .ok c ∧ (∀ l ∈ c, l ≠ 0) ∧
      (clauseHolds α c = false ↔ binVal α start bits i = j) := sorry

theorem forbid_error {start bits i j : Nat} (hj : 2 ^ bits ≤ j) : forbid start bits i j = .error .valueError := sorry

/-- literals of `forbid(i, j)` are variables of the group (of element `i`) -/
theorem forbid_lits {start n bits i j : Nat} {c : Clause} (hs : 1 ≤ start) (hi : 1 ≤ i ∧ i ≤ n)
    (h : forbid start bits i j = .ok c) :
    ∀ l ∈ c, start ≤ l.natAbs ∧ l.natAbs < start + n * bits := sorry

/-- `forbidFull` (all the checks of the code) agrees with `forbid` on its documented domain -/
theorem forbidFull_eq_forbid {start n bits : Nat} {i j : Nat} (hi : 1 ≤ i ∧ i ≤ n) :
    forbidFull start n bits (i : Int) (j : Int) = forbid start bits i j := sorry

end Vars
end Cnfgen
