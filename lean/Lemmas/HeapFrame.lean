/-
C19 heap lemmas, part 1 — the region discipline.

`Good s0 s`: `s` was reached from `s0` by allocating new cells and writing only into cells that did not
exist in `s0`, and no new cell holds the address of an old one:
  * `frame`  : every cell of `s0` is still there with its old content,
  * `closed` : the new region (addresses ≥ `s0.size`) is closed under "holds the address of".
Every operation on a formula object that lives in the new region preserves `Good` (below); hence so does
any list of actions (`runActs`), hence every transformation (`Props/C19/Heap.lean`).
-/
import CnfgenModel.Heap.Trans
namespace Cnfgen
namespace Heap
local notation "Addr" => Nat

/-- the new region is closed under "holds the address of", and holds no dangling address -/
def Closed (b : Nat) (s : Store) : Prop :=
  ∀ a c, b ≤ a → s[a]? = some c → ∀ x : Nat, x ∈ c.refsOf → b ≤ x ∧ x < s.size

structure Good (s0 s : Store) : Prop where
  size_le : s0.size ≤ s.size
  frame : ∀ a, a < s0.size → s[a]? = s0[a]?
  closed : Closed s0.size s

theorem lt_size_of_getElem? {s : Store} {a : Nat} {c : Cell} (h : s[a]? = some c) : a < s.size := by
  rcases Nat.lt_or_ge a s.size with h' | h'
  · exact h'
  · simp [Array.getElem?_eq_none h'] at h

theorem Good.refl (s : Store) : Good s s := by
  refine ⟨Nat.le_refl _, fun _ _ => rfl, ?_⟩
  intro a c ha hc
  have := lt_size_of_getElem? hc
  exact absurd this (by omega)

@[simp] theorem size_alloc (s : Store) (c : Cell) : (alloc s c).1.size = s.size + 1 := by simp [alloc]
@[simp] theorem addr_alloc (s : Store) (c : Cell) : (alloc s c).2 = s.size := rfl
@[simp] theorem size_write (s : Store) (a : Addr) (c : Cell) : (write s a c).size = s.size := by simp [write]
@[simp] theorem size_appendRef (s : Store) (l x : Addr) : (appendRef s l x).size = s.size := by
  unfold appendRef; split <;> simp

theorem good_alloc {s0 s : Store} {c : Cell} (h : Good s0 s)
    (hc : ∀ x : Nat, x ∈ c.refsOf → s0.size ≤ x ∧ x < s.size) : Good s0 (alloc s c).1 := by
  have hs := h.size_le
  refine ⟨by simp; omega, ?_, ?_⟩
  · intro a ha
    simp only [alloc]
    rw [Array.getElem?_push]
    split
    · omega
    · exact h.frame a ha
  · intro a c' ha hc' x hx
    simp only [alloc] at hc'
    rw [Array.getElem?_push] at hc'
    simp only [size_alloc]
    split at hc'
    · cases hc'; have := hc x hx; omega
    · have := h.closed a c' ha hc' x hx; omega

theorem good_write {s0 s : Store} {a : Addr} {c : Cell} (h : Good s0 s) (ha : s0.size ≤ a)
    (hc : ∀ x : Nat, x ∈ c.refsOf → s0.size ≤ x ∧ x < s.size) : Good s0 (write s a c) := by
  refine ⟨by simp; exact h.size_le, ?_, ?_⟩
  · intro a' ha'
    simp only [write]
    rw [Array.getElem?_setIfInBounds_ne (by omega)]
    exact h.frame a' ha'
  · intro a' c' ha' hc' x hx
    simp only [write] at hc'
    rw [Array.getElem?_setIfInBounds] at hc'
    simp only [size_write]
    split at hc'
    · split at hc'
      · cases hc'; exact hc x hx
      · cases hc'
    · exact h.closed a' c' ha' hc' x hx

/-- an address of the new region that is in use -/
def InR (s0 s : Store) (x : Nat) : Prop := s0.size ≤ x ∧ x < s.size

/-- the slots of a formula object of the new region point into the new region -/
theorem good_slots {s0 s : Store} {r : Addr} {o : Obj} (h : Good s0 s) (hr : s0.size ≤ r)
    (ho : readCNF s r = some o) : InR s0 s o.cl ∧ InR s0 s o.hd ∧ InR s0 s o.gr := by
  unfold readCNF at ho
  split at ho
  · rename_i cl hd gr nv heq
    cases ho
    have := h.closed r _ hr heq
    simp [Cell.refsOf] at this
    exact this
  · cases ho

theorem good_appendRef {s0 s : Store} {l x : Addr} (h : Good s0 s) (hl : s0.size ≤ l) (hx : InR s0 s x) :
    Good s0 (appendRef s l x) := by
  unfold appendRef
  split
  · rename_i as heq
    apply good_write h hl
    intro y hy
    simp [Cell.refsOf] at hy
    rcases hy with hy | hy
    · exact h.closed l _ hl heq y hy
    · subst hy; exact hx
  · exact h

/-! ### every operation on a formula of the new region preserves `Good` -/

theorem good_addClauseVals {s0 s : Store} {r : Addr} (xs : List Int) (check : Bool) (h : Good s0 s)
    (hr : s0.size ≤ r) : Good s0 (addClauseVals s r xs check).1 := by
  unfold addClauseVals
  split
  · exact h
  · rename_i o ho
    obtain ⟨hcl, hhd, hgr⟩ := good_slots h hr ho
    have h1 : Good s0 (alloc s (.ints xs)).1 := good_alloc h (by simp [Cell.refsOf])
    have hs := h.size_le
    unfold InR at hcl hhd hgr
    simp only []
    split
    · exact good_appendRef h1 hcl.1 (by simp [InR]; omega)
    · split
      · split
        · exact h1
        · apply good_appendRef _ hcl.1 (by simp [InR]; omega)
          apply good_write h1 hr
          simp [Cell.refsOf]; omega
      · exact good_appendRef h1 hcl.1 (by simp [InR]; omega)

theorem good_addAllVals {s0 : Store} {r : Addr} (check : Bool) (hr : s0.size ≤ r) :
    ∀ (cs : List (List Int)) (s : Store), Good s0 s → Good s0 (addAllVals s r check cs).1
  | [], s, h => by simpa [addAllVals] using h
  | c :: cs, s, h => by
    unfold addAllVals
    have h1 := good_addClauseVals c check h hr
    split
    · rename_i s1 e heq; rw [heq] at h1; exact h1
    · rename_i s1 u heq; rw [heq] at h1; exact good_addAllVals check hr cs s1 h1

theorem good_updVar {s0 s : Store} {r : Addr} (n : Int) (h : Good s0 s) (hr : s0.size ≤ r) :
    Good s0 (updVar s r n).1 := by
  unfold updVar
  split
  · exact h
  · rename_i o ho
    obtain ⟨hcl, hhd, hgr⟩ := good_slots h hr ho
    split
    · exact h
    · apply good_write h hr; simp [Cell.refsOf]; exact ⟨hcl, hhd, hgr⟩

theorem good_newGroup {s0 s : Store} {r : Addr} (spec : Vars.GroupSpec) (h : Good s0 s) (hr : s0.size ≤ r) :
    Good s0 (newGroup s r spec).1 := by
  unfold newGroup
  split
  · exact h
  · rename_i o ho
    obtain ⟨hcl, hhd, hgr⟩ := good_slots h hr ho
    split
    · exact h
    · split
      · exact h
      · apply good_write _ hr (by simp [Cell.refsOf]; exact ⟨hcl, hhd, hgr⟩)
        exact good_write h hgr.1 (by simp [Cell.refsOf])

theorem good_hdrSet {s0 s : Store} {r : Addr} (k v : String) (h : Good s0 s) (hr : s0.size ≤ r) :
    Good s0 (hdrSet s r k v).1 := by
  unfold hdrSet
  split
  · exact h
  · rename_i o ho
    obtain ⟨hcl, hhd, hgr⟩ := good_slots h hr ho
    split
    · exact h
    · exact good_write h hhd.1 (by simp [Cell.refsOf])

theorem good_describe {s0 s : Store} {r : Addr} (text : String) (h : Good s0 s) (hr : s0.size ≤ r) :
    Good s0 (describe s r text).1 := by
  unfold describe
  split
  · exact h
  · rename_i o ho
    obtain ⟨hcl, hhd, hgr⟩ := good_slots h hr ho
    split
    · exact h
    · exact good_write h hhd.1 (by simp [Cell.refsOf])

/-- `newF.header = copy(F.header)`: whatever `src` is (an OLD formula), only `r` and a new cell are written -/
theorem good_copyHeader {s0 s : Store} {r : Addr} (src : Addr) (h : Good s0 s) (hr : s0.size ≤ r) :
    Good s0 (copyHeader s r src).1 := by
  unfold copyHeader
  split
  · rename_i o f ho hf
    obtain ⟨hcl, hhd, hgr⟩ := good_slots h hr ho
    split
    · exact h
    · rename_i es hes
      have h1 : Good s0 (alloc s (.dict es)).1 := good_alloc h (by simp [Cell.refsOf])
      have hs := h.size_le
      unfold InR at hcl hhd hgr
      apply good_write h1 hr
      simp [Cell.refsOf]; omega
  · exact h

theorem good_addLinear {s0 s : Store} {r : Addr} (lits : List Int) (op : Op) (k : Int) (h : Good s0 s)
    (hr : s0.size ≤ r) : Good s0 (addLinear s r lits op k).1 := by
  unfold addLinear
  split
  · exact h
  · rename_i o ho
    obtain ⟨hcl, hhd, hgr⟩ := good_slots h hr ho
    split
    · exact good_addAllVals false hr _ s h
    · split
      · exact h
      · apply good_addAllVals false hr
        apply good_write h hr; simp [Cell.refsOf]; exact ⟨hcl, hhd, hgr⟩
theorem good_addLinearAll {s0 : Store} {r : Addr} (op : Op) (k : Int) (hr : s0.size ≤ r) :
    ∀ (ls : List (List Int)) (s : Store), Good s0 s → Good s0 (addLinearAll s r op k ls).1
  | [], s, h => by simpa [addLinearAll] using h
  | l :: ls, s, h => by
    unfold addLinearAll
    have h1 := good_addLinear l op k h hr
    split
    · rename_i s1 e heq; rw [heq] at h1; exact h1
    · rename_i s1 u heq; rw [heq] at h1; exact good_addLinearAll op k hr ls s1 h1

theorem good_substLoop {s0 : Store} {r : Addr} (tbl : List (Option (List Clause))) (hr : s0.size ≤ r) :
    ∀ (cs : List Addr) (s : Store), Good s0 s → Good s0 (substLoop r tbl s cs).1
  | [], s, h => by simpa [substLoop] using h
  | c :: cs, s, h => by
    unfold substLoop
    split
    · exact h
    · split
      · exact h
      · rename_i block _
        have h1 := good_addAllVals true hr block s h
        split
        · rename_i s1 e heq; rw [heq] at h1; exact h1
        · rename_i s1 u heq; rw [heq] at h1; exact good_substLoop tbl hr cs s1 h1

theorem good_shuffleLoop {s0 : Store} {r : Addr} (src : Addr) (tbl : List (Option Int)) (hr : s0.size ≤ r) :
    ∀ (ms : List (Nat × Int)) (s : Store), Good s0 s → Good s0 (shuffleLoop r src tbl s ms).1
  | [], s, h => by simpa [shuffleLoop] using h
  | m :: ms, s, h => by
    unfold shuffleLoop
    split
    · split
      · split
        · exact h
        · split
          · exact h
          · split
            · exact h
            · split
              · exact h
              · rename_i c' _
                have h1 := good_addClauseVals c' true h hr
                split
                · rename_i s1 e heq; rw [heq] at h1; exact h1
                · rename_i s1 u heq; rw [heq] at h1; exact good_shuffleLoop src tbl hr ms s1 h1
      · exact h
    · exact h

theorem good_runAct {s0 s : Store} {r : Addr} (a : Act) (h : Good s0 s) (hr : s0.size ≤ r) :
    Good s0 (runAct s r a).1 := by
  cases a with
  | copyHeader src => exact good_copyHeader src h hr
  | describe text => exact good_describe text h hr
  | reshuffled =>
    simp only [runAct]
    split
    · exact h
    · rename_i o ho
      obtain ⟨hcl, hhd, hgr⟩ := good_slots h hr ho
      split
      · exact h
      · exact good_write h hhd.1 (by simp [Cell.refsOf])
  | updVar n => exact good_updVar n h hr
  | newGroup spec => exact good_newGroup spec h hr
  | liftSelectors k =>
    simp only [runAct]
    split
    · exact h
    · exact good_addLinearAll _ _ hr _ s h
  | substFrom src enc =>
    simp only [runAct]
    split
    · exact h
    · split
      · exact h
      · exact good_substLoop _ hr _ s h
  | loadShuffled src tbl mapping => exact good_shuffleLoop src tbl hr mapping s h

/-- THE GENERIC DISCIPLINE: any list of statements executed on a formula of the new region keeps `Good`,
whatever they read, and also when one of them raises -/
theorem good_runActs {s0 : Store} {r : Addr} (hr : s0.size ≤ r) :
    ∀ (as : List Act) (s : Store), Good s0 s → Good s0 (runActs r s as).1
  | [], s, h => by simpa [runActs] using h
  | a :: as, s, h => by
    unfold runActs
    have h1 := good_runAct a h hr
    split
    · rename_i s1 e heq; rw [heq] at h1; exact h1
    · rename_i s1 u heq; rw [heq] at h1; exact good_runActs hr as s1 h1

theorem good_newCNF {s0 s : Store} (cfg : Cfg) (d : Option String) (h : Good s0 s) :
    Good s0 (newCNF cfg s d).1 ∧ s0.size ≤ (newCNF cfg s d).2 := by
  unfold newCNF
  simp only []
  have hs := h.size_le
  have h1 := good_alloc (c := .dict (("description", d.getD "Formula in CNF") :: cfg.hdr0)) h (by simp [Cell.refsOf])
  have h2 := good_alloc (c := .refs []) h1 (by simp [Cell.refsOf])
  have h3 := good_alloc (c := .groups []) h2 (by simp [Cell.refsOf])
  refine ⟨good_alloc h3 ?_, by simp; omega⟩
  simp [Cell.refsOf]
  omega

end Heap
end Cnfgen
