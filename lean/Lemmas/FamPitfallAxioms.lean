/-
Readable descriptions of the axiom groups of the Pitfall model (`Fam/Pitfall.lean`) and of its
parameter check.
-/
import Lemmas.FamPitfall
import Lemmas.FamIter
namespace Cnfgen.FamPitfall
open Cnfgen Cnfgen.Fam Cnfgen.FamIter
open ShapeFacts

/-! ### parameter check -/

theorem check_iff (v d ny nz k : Int) :
    Pitfall.check v d ny nz k = .ok () ↔
      1 ≤ v ∧ 1 ≤ d ∧ 1 ≤ ny ∧ 2 ≤ nz ∧ 1 ≤ k ∧ k % 2 = 0 ∧ d < v ∧ v * d % 2 ≠ 1 := by
  refine ⟨check_ok, ?_⟩
  rintro ⟨h1, h2, h3, h4, h5, h6, h7, h8⟩
  have a1 : ¬ v < 1 := by omega
  have a2 : ¬ d < 1 := by omega
  have a3 : ¬ ny < 1 := by omega
  have a4 : ¬ nz < 1 := by omega
  have a5 : ¬ k < 1 := by omega
  have a6 : ¬ nz < 2 := by omega
  have a7 : ¬ d ≥ v := by omega
  simp [Pitfall.check, Pitfall.positiveInt, bind, Except.bind, pure, Except.pure, a1, a2, a3, a4, a5, a6, a7, h6, h8]

theorem check_ok_or_valueError (v d ny nz k : Int) :
    Pitfall.check v d ny nz k = .ok () ∨ Pitfall.check v d ny nz k = .error .valueError := by
  by_cases h : 1 ≤ v ∧ 1 ≤ d ∧ 1 ≤ ny ∧ 2 ≤ nz ∧ 1 ≤ k ∧ k % 2 = 0 ∧ d < v ∧ v * d % 2 ≠ 1
  · exact Or.inl ((check_iff v d ny nz k).2 h)
  · right
    simp only [Pitfall.check, Pitfall.positiveInt, bind, Except.bind]
    by_cases a1 : v < 1
    · simp [a1]
    by_cases a2 : d < 1
    · simp [a1, a2]
    by_cases a3 : ny < 1
    · simp [a1, a2, a3]
    by_cases a4 : nz < 1
    · simp [a1, a2, a3, a4]
    by_cases a5 : k < 1
    · simp [a1, a2, a3, a4, a5]
    by_cases a6 : k % 2 = 0
    · by_cases a7 : nz < 2
      · simp [a1, a2, a3, a4, a5, a6, a7, throw, throwThe, MonadExceptOf.throw]
      · by_cases a8 : d ≥ v ∨ v * d % 2 = 1
        · simp [a1, a2, a3, a4, a5, a6, a7, a8, throw, throwThe, MonadExceptOf.throw]
        · exfalso; apply h
          refine ⟨by omega, by omega, by omega, by omega, by omega, a6, by omega, ?_⟩
          intro h9; exact a8 (Or.inr h9)
    · simp [a1, a2, a3, a4, a5, a6, throw, throwThe, MonadExceptOf.throw]

/-! ### `combinations(l, len(l)-1)` drops the elements from the last to the first -/

theorem combos_self {β : Type} : ∀ (l : List β), combos l l.length = [l]
  | [] => by simp [combos]
  | a :: l => by
      simp [combos, combos_self l, combos_of_lt l (l.length + 1) (by omega)]

theorem combos_pred_getD {β : Type} : ∀ (l : List β) (t : Nat), t < l.length →
    (combos l (l.length - 1)).getD t [] = l.eraseIdx (l.length - 1 - t)
  | [], t, h => by simp at h
  | [a], t, h => by
      have : t = 0 := by simpa using h
      subst this; simp [combos]
  | a :: b :: l, t, h => by
      have hlen : (a :: b :: l).length - 1 = (l.length + 1) := by simp
      have hl1 : (combos (b :: l) l.length).length = l.length + 1 := by
        have := combos_length_pred (b :: l) (by simp)
        simpa using this
      rw [hlen]
      show ((combos (b :: l) l.length).map (a :: ·) ++ combos (b :: l) (l.length + 1)).getD t [] = _
      have hself : combos (b :: l) (l.length + 1) = [b :: l] := combos_self (b :: l)
      rw [hself]
      by_cases ht : t < l.length + 1
      · rw [List.getD_eq_getElem?_getD, List.getElem?_append_left (by simpa [hl1] using ht)]
        have ih := combos_pred_getD (b :: l) t (by simpa using ht)
        simp only [List.length_cons, Nat.add_sub_cancel] at ih
        rw [List.getD_eq_getElem?_getD] at ih
        rw [List.getElem?_map]
        obtain ⟨c, hc⟩ : ∃ c, (combos (b :: l) l.length)[t]? = some c :=
          ⟨_, List.getElem?_eq_getElem (by omega)⟩
        rw [hc] at ih ⊢
        simp only [Option.map_some, Option.getD_some] at ih ⊢
        rw [ih]
        obtain ⟨r, hr⟩ : ∃ r, l.length + 1 - t = r + 1 := ⟨l.length - t, by omega⟩
        rw [hr, List.eraseIdx_cons_succ]
        congr 2; omega
      · have ht' : t = l.length + 1 := by simp at h; omega
        subst ht'
        rw [List.getD_eq_getElem?_getD, List.getElem?_append_right (by simp [hl1])]
        simp [hl1]

/-! ### the five axiom groups -/

theorem pair_sublist_map {β : Type} (f : Nat → β) (n : Nat) (p : List β) :
    p ∈ combos ((rangeN 1 (n + 1)).map f) 2 ↔
      ∃ i1 i2, 1 ≤ i1 ∧ i1 < i2 ∧ i2 ≤ n ∧ p = [f i1, f i2] := by
  rw [mem_combos, List.sublist_map_iff]
  constructor
  · rintro ⟨⟨l', hsub, rfl⟩, hlen⟩
    rw [List.length_map] at hlen
    obtain ⟨i1, i2, rfl⟩ := List.length_eq_two.1 hlen
    rw [pair_sublist_iff (rangeN_pairwise _ _)] at hsub
    simp only [mem_rangeN] at hsub
    exact ⟨i1, i2, hsub.1.1, hsub.2.2, by omega, rfl⟩
  · rintro ⟨i1, i2, h1, h2, h3, rfl⟩
    refine ⟨⟨[i1, i2], ?_, rfl⟩, rfl⟩
    rw [pair_sublist_iff (rangeN_pairwise _ _)]
    simp only [mem_rangeN]
    exact ⟨⟨h1, by omega⟩, ⟨by omega, by omega⟩, h2⟩

/-- pitfall gadget: `y_{j,i1} ∨ y_{j,i2} ∨ ¬p_{j,t}` for all `i1 < i2` and all `t` -/
theorem mem_pitfallGadget (s : Pitfall.Shape) (j : Nat) (con : Con) :
    con ∈ Pitfall.pitfallGadget s j ↔
      ∃ i1 i2 t, (1 ≤ i1 ∧ i1 < i2 ∧ i2 ≤ s.ny) ∧ (1 ≤ t ∧ t ≤ s.m + s.nz) ∧
        con = Con.clause [(s.yId j i1 : Int), (s.yId j i2 : Int), -(s.pId j t : Int)] := by
  simp only [Pitfall.pitfallGadget, List.mem_flatMap]
  constructor
  · rintro ⟨pr, hpr, hcon⟩
    rw [Pitfall.Shape.ys, pair_sublist_map] at hpr
    obtain ⟨i1, i2, h1, h2, h3, rfl⟩ := hpr
    simp only [Pitfall.Shape.ps, List.map_map, List.mem_map, mem_rangeN] at hcon
    obtain ⟨t, ht, rfl⟩ := hcon
    exact ⟨i1, i2, t, ⟨h1, h2, h3⟩, ⟨ht.1, by omega⟩, rfl⟩
  · rintro ⟨i1, i2, t, ⟨h1, h2, h3⟩, ⟨ht1, ht2⟩, rfl⟩
    refine ⟨[(s.yId j i1 : Int), (s.yId j i2 : Int)], ?_, ?_⟩
    · rw [Pitfall.Shape.ys, pair_sublist_map]; exact ⟨i1, i2, h1, h2, h3, rfl⟩
    · simp only [Pitfall.Shape.ps, List.map_map, List.mem_map, mem_rangeN]
      exact ⟨t, ⟨ht1, by omega⟩, rfl⟩

/-- tail gadget: the four clauses for every `y_{j,i}`, `z_{j,r}` -/
theorem mem_tailGadget (s : Pitfall.Shape) (j : Nat) (con : Con) :
    con ∈ Pitfall.tailGadget s j ↔
      ∃ i r, (1 ≤ i ∧ i ≤ s.ny) ∧ (1 ≤ r ∧ r ≤ s.nz) ∧
        (con = Con.clause [-(s.aId j 1 : Int), (s.aId j 3 : Int), -(s.zId j r : Int)] ∨
         con = Con.clause [-(s.aId j 2 : Int), -(s.aId j 3 : Int), -(s.zId j r : Int)] ∨
         con = Con.clause [(s.aId j 1 : Int), -(s.zId j r : Int), -(s.yId j i : Int)] ∨
         con = Con.clause [(s.aId j 2 : Int), -(s.zId j r : Int), -(s.yId j i : Int)]) := by
  simp only [Pitfall.tailGadget, Pitfall.Shape.ys, Pitfall.Shape.zs, List.mem_flatMap, List.mem_map,
    mem_rangeN, List.mem_cons, List.not_mem_nil, or_false]
  constructor
  · rintro ⟨y, ⟨i, hi, rfl⟩, z, ⟨r, hr, rfl⟩, hcon⟩
    exact ⟨i, r, ⟨hi.1, by omega⟩, ⟨hr.1, by omega⟩, hcon⟩
  · rintro ⟨i, r, hi, hr, hcon⟩
    exact ⟨_, ⟨i, ⟨hi.1, by omega⟩, rfl⟩, _, ⟨r, ⟨hr.1, by omega⟩, rfl⟩, hcon⟩

/-- Γ: for `i = 1, 3, 5, … < ny` the clause `⋁_{j=1..k} (¬y_{j,i} ∨ ¬y_{j,i+1})` -/
theorem mem_gamma (s : Pitfall.Shape) (con : Con) :
    con ∈ Pitfall.gamma s ↔
      ∃ i, (1 ≤ i ∧ i % 2 = 1 ∧ i < s.ny) ∧
        con = Con.clause ((rangeN 1 (s.k + 1)).flatMap
          (fun j => [-(s.yId j i : Int), -(s.yId j (i + 1) : Int)])) := by
  simp only [Pitfall.gamma, List.mem_map, List.mem_range]
  constructor
  · rintro ⟨r, hr, rfl⟩
    exact ⟨2 * r + 1, ⟨by omega, by omega, by omega⟩, rfl⟩
  · rintro ⟨i, ⟨h1, h2, h3⟩, rfl⟩
    refine ⟨i / 2, by omega, ?_⟩
    have : 2 * (i / 2) + 1 = i := by omega
    rw [this]

/-- pipe gadget, for every `y_{j,i}`: with `S = X_j ++ Z_j` and `P = P_j` (both of length `m + nz`),
clause number `t` is `y ∨ (P without its element number m+nz-1-t) ∨ S_0 ∨ … ∨ S_{t-1} ∨ ¬S_t`,
except that in the last clause `z_{j,1}` (= `S_m`) is left out -/
theorem mem_pipeGadget (s : Pitfall.Shape) (j : Nat) (con : Con) :
    con ∈ Pitfall.pipeGadget s j ↔
      ∃ i t, (1 ≤ i ∧ i ≤ s.ny) ∧ t < s.m + s.nz ∧
        con = Con.clause ([(s.yId j i : Int)] ++ (s.ps j).eraseIdx (s.m + s.nz - 1 - t) ++
          (if t + 1 = s.m + s.nz then ((s.xs j ++ s.zs j).take t).eraseIdx s.m
            else (s.xs j ++ s.zs j).take t) ++
          [-((s.xs j ++ s.zs j).getD t 0)]) := by
  have hS : (s.xs j ++ s.zs j).length = s.m + s.nz := by simp [xs_length, zs_length]
  have hP : (s.ps j).length = s.m + s.nz := ps_length s j
  simp only [Pitfall.pipeGadget, Pitfall.pipe, List.mem_flatMap, List.mem_map, List.mem_range]
  constructor
  · rintro ⟨y, hy, t, ht, rfl⟩
    simp only [Pitfall.Shape.ys, List.mem_map, mem_rangeN] at hy
    obtain ⟨i, hi, rfl⟩ := hy
    have ht' : t < s.m + s.nz := by
      have := Nat.lt_of_lt_of_le ht (Nat.min_le_left _ _); rwa [hS] at this
    refine ⟨i, t, ⟨hi.1, by omega⟩, ht', ?_⟩
    rw [combos_pred_getD (s.ps j) t (by rw [hP]; exact ht'), hP, hS]
  · rintro ⟨i, t, hi, ht, rfl⟩
    refine ⟨(s.yId j i : Int), ?_, t, ?_, ?_⟩
    · simp only [Pitfall.Shape.ys, List.mem_map, mem_rangeN]; exact ⟨i, ⟨hi.1, by omega⟩, rfl⟩
    · have hne : s.ps j ≠ [] := by
        intro h0; rw [h0] at hP; simp at hP; omega
      rw [combos_length_pred (s.ps j) hne, hP, hS]; simpa using ht
    · rw [combos_pred_getD (s.ps j) t (by rw [hP]; exact ht), hP, hS]

/-- the constraint list is the concatenation of the five groups over the copies `j = 1..k` -/
theorem mem_build (ny nz k : Nat) (g : SimpleG) (con : Con) :
    con ∈ (Pitfall.build ny nz k g).cons ↔
      let s : Pitfall.Shape := ⟨g.edges.length, ny, nz, k⟩
      (∃ j, (1 ≤ j ∧ j ≤ k) ∧ con ∈ Pitfall.hardCopy s (PitfallTseitin.template g).clauses j) ∨
      (∃ j, (1 ≤ j ∧ j ≤ k) ∧ con ∈ Pitfall.pitfallGadget s j) ∨
      (∃ j, (1 ≤ j ∧ j ≤ k) ∧ con ∈ Pitfall.pipeGadget s j) ∨
      (∃ j, (1 ≤ j ∧ j ≤ k) ∧ con ∈ Pitfall.tailGadget s j) ∨
      con ∈ Pitfall.gamma s := by
  simp only [Pitfall.build, Pitfall.consOf, List.mem_append, List.mem_flatMap, mem_copies, or_assoc]
  rfl

end Cnfgen.FamPitfall
