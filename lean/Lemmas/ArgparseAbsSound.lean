/-
Soundness of the abstract interpreter of CnfgenModel/Cli/ArgparseAbs.lean: in every namespace that a world describes,
`aval` gives the kind of the value of an expression (`aval_sound`), `aguard` contains the truth value of a guard
(`aguard_sound`), and when `arun` says yes the helper takes a path whose call can be built (`arun_sound`).
-/
import CnfgenModel.Cli.ArgparseAbs
import Lemmas.DispatchTotal
import Lemmas.ArgparseRefine
namespace Cnfgen.Cli.AP
open Cnfgen.Gen Cnfgen.Cli

/-- the values of a kind -/
def gam : AV → Val → Prop
  | .none, v => v = .none
  | .tt, v => v = .bool true
  | .ff, v => v = .bool false
  | .bool, v => ∃ b, v = .bool b
  | .int, v => ∃ i, v = .int i
  | .intc k, v => v = .int k
  | .intOrNone, v => v = .none ∨ ∃ i, v = .int i
  | .str s, v => v = .str s
  | .strIn l, v => ∃ s ∈ l, v = .str s
  | .ints, v => ∃ l, v = .ints l
  | .graphC, v => ∃ k c r, v = .graph k (c :: r) ∧ constructed k c = true
  | .graphAny, v => ∃ k t, v = .graph k t
  | .toks Option.none, v => ∃ l, v = .toks l
  | .toks (some h), v => ∃ r, v = .toks (h :: r)
  | .param, v => ∃ n, v = .param n
  | .opq, v => ∃ s, v = .opaque s
  | .pos, v => v = .pos
  | .posOrInt, v => v = .pos ∨ ∃ i, v = .int i
  | .any, _ => True

/-- the namespaces of a world: the listed dests hold a value of their kind, the others do not exist -/
def gamW (w : World) (ns : Ns) : Prop :=
  ∀ d, match w.lookup d with
    | Option.none => ns.lookup d = Option.none
    | some a => ∃ v, ns.lookup d = some v ∧ gam a v

theorem gamW_some (w : World) (ns : Ns) (h : gamW w ns) (d : String) (a : AV) (hd : w.lookup d = some a) :
    ∃ v, ns.lookup d = some v ∧ gam a v := by
  have := h d
  rw [hd] at this
  exact this

theorem gamW_none (w : World) (ns : Ns) (h : gamW w ns) (d : String) (hd : w.lookup d = Option.none) :
    ns.lookup d = Option.none := by
  have := h d
  rw [hd] at this
  exact this

theorem gamW_isSome (w : World) (ns : Ns) (h : gamW w ns) (d : String) :
    (ns.lookup d).isSome = (w.lookup d).isSome := by
  cases hd : w.lookup d with
  | none => rw [gamW_none w ns h d hd]; rfl
  | some a => obtain ⟨v, hv, _⟩ := gamW_some w ns h d a hd; rw [hv]; rfl

/-! ### the primitive operations -/

theorem atruthy_sound (x : AV) (r : AB) (v : Val) (h : atruthy x = some r) (hg : gam x v) :
    ∃ b, truthy v = some b ∧ ∀ c, r = .const c → b = c := by
  cases x <;> simp [atruthy] at h <;> subst h <;> simp only [gam] at hg
  · subst hg; exact ⟨false, rfl, fun c hc => by cases hc; rfl⟩
  · subst hg; exact ⟨true, rfl, fun c hc => by cases hc; rfl⟩
  · subst hg; exact ⟨false, rfl, fun c hc => by cases hc; rfl⟩
  · obtain ⟨b, rfl⟩ := hg; exact ⟨b, rfl, fun c hc => by cases hc⟩
  · obtain ⟨i, rfl⟩ := hg; exact ⟨_, rfl, fun c hc => by cases hc⟩
  · subst hg; exact ⟨_, rfl, fun c hc => by cases hc; rfl⟩
  · rcases hg with rfl | ⟨i, rfl⟩
    · exact ⟨_, rfl, fun c hc => by cases hc⟩
    · exact ⟨_, rfl, fun c hc => by cases hc⟩
  · subst hg; exact ⟨_, rfl, fun c hc => by cases hc; rfl⟩
  · obtain ⟨s, _, rfl⟩ := hg; exact ⟨_, rfl, fun c hc => by cases hc⟩
  · obtain ⟨l, rfl⟩ := hg; exact ⟨_, rfl, fun c hc => by cases hc⟩

theorem aisNone_sound (x : AV) (r : AB) (v : Val) (h : aisNone x = some r) (hg : gam x v) :
    ∃ b, isNoneV v = some b ∧ ∀ c, r = .const c → b = c := by
  cases x with
  | none => simp [aisNone] at h; subst h; simp only [gam] at hg; subst hg; exact ⟨_, rfl, fun c hc => by cases hc; rfl⟩
  | tt => simp [aisNone] at h; subst h; simp only [gam] at hg; subst hg; exact ⟨_, rfl, fun c hc => by cases hc; rfl⟩
  | ff => simp [aisNone] at h; subst h; simp only [gam] at hg; subst hg; exact ⟨_, rfl, fun c hc => by cases hc; rfl⟩
  | bool =>
    simp [aisNone] at h; subst h; simp only [gam] at hg; obtain ⟨b, rfl⟩ := hg
    exact ⟨_, rfl, fun c hc => by cases hc; rfl⟩
  | int =>
    simp [aisNone] at h; subst h; simp only [gam] at hg; obtain ⟨b, rfl⟩ := hg
    exact ⟨_, rfl, fun c hc => by cases hc; rfl⟩
  | intc k => simp [aisNone] at h; subst h; simp only [gam] at hg; subst hg; exact ⟨_, rfl, fun c hc => by cases hc; rfl⟩
  | intOrNone =>
    simp [aisNone] at h; subst h; simp only [gam] at hg
    rcases hg with rfl | ⟨i, rfl⟩
    · exact ⟨_, rfl, fun c hc => by cases hc⟩
    · exact ⟨_, rfl, fun c hc => by cases hc⟩
  | str s => simp [aisNone] at h; subst h; simp only [gam] at hg; subst hg; exact ⟨_, rfl, fun c hc => by cases hc; rfl⟩
  | strIn l =>
    simp [aisNone] at h; subst h; simp only [gam] at hg; obtain ⟨s, _, rfl⟩ := hg
    exact ⟨_, rfl, fun c hc => by cases hc; rfl⟩
  | ints =>
    simp [aisNone] at h; subst h; simp only [gam] at hg; obtain ⟨l, rfl⟩ := hg
    exact ⟨_, rfl, fun c hc => by cases hc; rfl⟩
  | graphC =>
    simp [aisNone] at h; subst h; simp only [gam] at hg; obtain ⟨k, c', r', rfl, _⟩ := hg
    exact ⟨_, rfl, fun c hc => by cases hc; rfl⟩
  | graphAny =>
    simp [aisNone] at h; subst h; simp only [gam] at hg; obtain ⟨k, t, rfl⟩ := hg
    exact ⟨_, rfl, fun c hc => by cases hc; rfl⟩
  | toks hd =>
    simp [aisNone] at h; subst h
    cases hd with
    | none => simp only [gam] at hg; obtain ⟨l, rfl⟩ := hg; exact ⟨_, rfl, fun c hc => by cases hc; rfl⟩
    | some h' => simp only [gam] at hg; obtain ⟨r', rfl⟩ := hg; exact ⟨_, rfl, fun c hc => by cases hc; rfl⟩
  | param => simp [aisNone] at h
  | opq => simp [aisNone] at h
  | pos => simp [aisNone] at h; subst h; simp only [gam] at hg; subst hg; exact ⟨_, rfl, fun c hc => by cases hc; rfl⟩
  | posOrInt =>
    simp [aisNone] at h; subst h; simp only [gam] at hg
    rcases hg with rfl | ⟨i, rfl⟩
    · exact ⟨_, rfl, fun c hc => by cases hc; rfl⟩
    · exact ⟨_, rfl, fun c hc => by cases hc; rfl⟩
  | any => simp [aisNone] at h

theorem isIntLike_val (x : AV) (v : Val) (h : isIntLike x = true) (hg : gam x v) : ∃ i, v = .int i := by
  cases x <;> simp [isIntLike] at h
  · exact hg
  · exact ⟨_, hg⟩

theorem isIntNone_val (x : AV) (v : Val) (h : isIntNone x = true) (hg : gam x v) : v = .none ∨ ∃ i, v = .int i := by
  cases x <;> simp [isIntNone] at h
  · exact Or.inl hg
  · exact Or.inr hg
  · exact Or.inr ⟨_, hg⟩
  · exact hg

theorem isStrLike_val (x : AV) (v : Val) (h : isStrLike x = true) (hg : gam x v) : ∃ s, v = .str s := by
  cases x <;> simp [isStrLike] at h
  · exact ⟨_, hg⟩
  · obtain ⟨s, _, hs⟩ := hg; exact ⟨s, hs⟩

theorem evalCmp_int_int (op : String) (i j : Int) (h : cmpOpsX.contains op = true) :
    ∃ b, evalCmp op (.int i) (.int j) = some b := dtot_evalCmp_int op i j h

theorem evalCmp_eq_defined (op : String) (hop : op = "==" ∨ op = "!=") (vx vy : Val)
    (hv : ∃ b, valEq vx vy = some b) (hnp : vx ≠ .pos) : ∃ b, evalCmp op vx vy = some b := by
  obtain ⟨b, hb⟩ := hv
  unfold evalCmp
  split
  · exact absurd rfl hnp
  · rcases hop with rfl | rfl
    · exact ⟨b, by simp [hb]⟩
    · exact ⟨!b, by simp [hb]⟩

theorem acmp_sound (op : String) (x y : AV) (r : AB) (vx vy : Val) (h : acmp op x y = some r) (hx : gam x vx)
    (hy : gam y vy) : ∃ b, evalCmp op vx vy = some b ∧ ∀ c, r = .const c → b = c := by
  -- the general rule of `acmp`, used by every case that is not about `pos`
  have general :
      ((if op == "==" || op == "!=" then
        (if (isIntNone x && isIntNone y) || (isStrLike x && isStrLike y) then some AB.atom else Option.none)
      else if cmpOpsX.contains op && isIntLike x && isIntLike y then some AB.atom
      else Option.none) = some r) → ∃ b, evalCmp op vx vy = some b ∧ ∀ c, r = .const c → b = c := by
    intro hr
    by_cases heq : (op == "==" || op == "!=") = true
    · simp only [heq, if_true] at hr
      split at hr
      · rename_i hc
        simp at hr; subst hr
        simp only [Bool.or_eq_true, beq_iff_eq] at heq
        simp only [Bool.or_eq_true, Bool.and_eq_true] at hc
        have hv : (∃ b, valEq vx vy = some b) ∧ vx ≠ .pos := by
          rcases hc with ⟨h1, h2⟩ | ⟨h1, h2⟩
          · rcases isIntNone_val x vx h1 hx with rfl | ⟨i, rfl⟩ <;>
            rcases isIntNone_val y vy h2 hy with rfl | ⟨j, rfl⟩ <;> simp [valEq]
          · obtain ⟨s1, rfl⟩ := isStrLike_val x vx h1 hx
            obtain ⟨s2, rfl⟩ := isStrLike_val y vy h2 hy
            simp [valEq]
        obtain ⟨b, hb⟩ := evalCmp_eq_defined op heq vx vy hv.1 hv.2
        exact ⟨b, hb, fun c hc => by cases hc⟩
      · simp at hr
    · have heq' : (op == "==" || op == "!=") = false := by simpa using heq
      simp only [heq', Bool.false_eq_true, if_false] at hr
      split at hr
      · rename_i hc
        simp at hr; subst hr
        simp only [Bool.and_eq_true] at hc
        obtain ⟨i, rfl⟩ := isIntLike_val x vx hc.1.2 hx
        obtain ⟨j, rfl⟩ := isIntLike_val y vy hc.2 hy
        obtain ⟨b, hb⟩ := evalCmp_int_int op i j hc.1.1
        exact ⟨b, hb, fun c hc' => by cases hc'⟩
      · simp at hr
  unfold acmp at h
  split at h
  · -- pos, intc k
    rename_i k
    simp only [gam] at hx hy
    subst hx hy
    cases hc : cmpPos op k with
    | none => simp [hc] at h
    | some c =>
      simp [hc] at h; subst h
      exact ⟨c, by simp [evalCmp, hc], fun c' hc' => by cases hc'; rfl⟩
  · -- posOrInt, intc k
    rename_i k
    simp only [gam] at hx hy
    subst hy
    split at h
    · rename_i hc
      simp at h; subst h
      simp only [Bool.and_eq_true] at hc
      rcases hx with rfl | ⟨i, rfl⟩
      · cases hcp : cmpPos op k with
        | none => rw [hcp] at hc; simp at hc
        | some c => exact ⟨c, by simp [evalCmp, hcp], fun c' hc' => by cases hc'⟩
      · obtain ⟨b, hb⟩ := evalCmp_int_int op i k hc.2
        exact ⟨b, hb, fun c' hc' => by cases hc'⟩
    · simp at h
  · exact general h

theorem abinop_sound (op : String) (x y a : AV) (vx vy : Val) (h : abinop op x y = some a) (hx : gam x vx)
    (hy : gam y vy) : ∃ v, evalBinop op vx vy = some v ∧ gam a v := by
  unfold abinop at h
  split at h
  · rename_i hc
    simp only [Bool.and_eq_true] at hc
    obtain ⟨i, rfl⟩ := isIntLike_val x vx hc.1 hx
    obtain ⟨j, rfl⟩ := isIntLike_val y vy hc.2 hy
    split at h
    · rename_i hop
      simp at h; subst h
      simp only [Bool.or_eq_true, beq_iff_eq] at hop
      rcases hop with (rfl | rfl) | rfl
      · exact ⟨.int (i + j), by simp [evalBinop], ⟨_, rfl⟩⟩
      · exact ⟨.int (i - j), by simp [evalBinop], ⟨_, rfl⟩⟩
      · exact ⟨.int (i * j), by simp [evalBinop], ⟨_, rfl⟩⟩
    · split at h
      · rename_i hop
        simp only [Bool.or_eq_true, beq_iff_eq] at hop
        split at h
        · rename_i k
          simp only [gam] at hy
          split at h
          · rename_i hk
            simp at h; subst h
            have hj : j = k := by cases hy; rfl
            subst hj
            have hk0 : (j == 0) = false := by simpa using hk
            rcases hop with rfl | rfl
            · exact ⟨.int (Int.fmod i j), by simp [evalBinop, hk0], ⟨_, rfl⟩⟩
            · exact ⟨.int (Int.fdiv i j), by simp [evalBinop, hk0], ⟨_, rfl⟩⟩
          · simp at h
        · simp at h
      · simp at h
  · split at h
    · rename_i hn hc
      simp at h; subst h
      simp only [Bool.or_eq_true, beq_iff_eq] at hc
      have hnot : ¬((∃ i, vx = .int i) ∧ ∃ j, vy = .int j) := by
        rintro ⟨⟨i, rfl⟩, ⟨j, rfl⟩⟩
        rcases hc with rfl | rfl
        · simp only [gam] at hx; obtain ⟨_, hx⟩ := hx; cases hx
        · simp only [gam] at hy; obtain ⟨_, hy⟩ := hy; cases hy
      rcases hc with rfl | rfl
      · simp only [gam] at hx
        obtain ⟨s, rfl⟩ := hx
        refine ⟨.opaque "arithmetic", ?_, ⟨_, rfl⟩⟩
        cases vy <;> simp [evalBinop]
      · simp only [gam] at hy
        obtain ⟨s, rfl⟩ := hy
        refine ⟨.opaque "arithmetic", ?_, ⟨_, rfl⟩⟩
        cases vx <;> simp [evalBinop]
    · split at h
      · rename_i hc
        simp at h; subst h
        simp only [Bool.and_eq_true, beq_iff_eq] at hc
        obtain ⟨rfl, hb⟩ := hc
        simp only [gam] at hx; subst hx
        obtain ⟨j, rfl⟩ := isIntLike_val y vy hb hy
        exact ⟨.opaque "arithmetic", by simp [evalBinop], trivial⟩
      · split at h
        · rename_i hc
          simp at h; subst h
          simp only [Bool.and_eq_true, Bool.or_eq_true, beq_iff_eq] at hc
          obtain ⟨⟨rfl, hb⟩, hop⟩ := hc
          obtain ⟨j, rfl⟩ := isIntLike_val y vy hb hy
          simp only [gam] at hx
          rcases hx with rfl | ⟨i, rfl⟩
          · exact ⟨.opaque "arithmetic", by simp [evalBinop], trivial⟩
          · rcases hop with (rfl | rfl) | rfl
            · exact ⟨.int (i + j), by simp [evalBinop], trivial⟩
            · exact ⟨.int (i - j), by simp [evalBinop], trivial⟩
            · exact ⟨.int (i * j), by simp [evalBinop], trivial⟩
        · simp at h

theorem fixOrder_noOrder (ord : List String → Nat) (ns : Ns) : ∀ (e : Expr), noOrder e = true →
    fixOrder ord ns e = e := by
  intro e
  induction e with
  | order g => intro h; simp [noOrder] at h
  | getattr d e ih => intro h; simp only [noOrder] at h; simp [fixOrder, ih h]
  | not e ih => intro h; simp only [noOrder] at h; simp [fixOrder, ih h]
  | isNone e ih => intro h; simp only [noOrder] at h; simp [fixOrder, ih h]
  | isNotNone e ih => intro h; simp only [noOrder] at h; simp [fixOrder, ih h]
  | star e ih => intro h; simp only [noOrder] at h; simp [fixOrder, ih h]
  | and a b iha ihb => intro h; simp only [noOrder, Bool.and_eq_true] at h; simp [fixOrder, iha h.1, ihb h.2]
  | or a b iha ihb => intro h; simp only [noOrder, Bool.and_eq_true] at h; simp [fixOrder, iha h.1, ihb h.2]
  | cmp op a b iha ihb => intro h; simp only [noOrder, Bool.and_eq_true] at h; simp [fixOrder, iha h.1, ihb h.2]
  | ite c t e ihc iht ihe =>
    intro h; simp only [noOrder, Bool.and_eq_true] at h; simp [fixOrder, ihc h.1.1, iht h.1.2, ihe h.2]
  | binop op a b iha ihb => intro h; simp only [noOrder, Bool.and_eq_true] at h; simp [fixOrder, iha h.1, ihb h.2]
  | cons a b iha ihb => intro h; simp only [noOrder, Bool.and_eq_true] at h; simp [fixOrder, iha h.1, ihb h.2]
  | mkgraph k sp ih => intro h; simp only [noOrder] at h; simp [fixOrder, ih h]
  | arg d => intro _; rfl
  | hasattr d => intro _; rfl
  | none => intro _; rfl
  | bool b => intro _; rfl
  | int i => intro _; rfl
  | str s => intro _; rfl
  | name n => intro _; rfl
  | nil => intro _; rfl
  | «opaque» src ds => intro _; rfl

theorem orderOf_nongraph (v : Val) (h : ∀ k t, v ≠ .graph k t) : orderOf v = .opaque "order" := by
  cases v <;> simp [orderOf]
  rename_i k t
  exact absurd rfl (h k t)

/-- a kind that is not a graph kind describes no graph -/
theorem gam_nongraph (a : AV) (v : Val) (hg : gam a v) (h1 : a ≠ .graphC) (h2 : a ≠ .graphAny) (h3 : a ≠ .any) :
    ∀ k t, v ≠ .graph k t := by
  intro k t hv
  subst hv
  cases a with
  | graphC => exact h1 rfl
  | graphAny => exact h2 rfl
  | any => exact h3 rfl
  | toks hd => cases hd <;> simp only [gam] at hg <;> (obtain ⟨_, hg⟩ := hg; cases hg)
  | none => simp only [gam] at hg; cases hg
  | tt => simp only [gam] at hg; cases hg
  | ff => simp only [gam] at hg; cases hg
  | bool => simp only [gam] at hg; obtain ⟨_, hg⟩ := hg; cases hg
  | int => simp only [gam] at hg; obtain ⟨_, hg⟩ := hg; cases hg
  | intc k => simp only [gam] at hg; cases hg
  | intOrNone => simp only [gam] at hg; rcases hg with hg | ⟨_, hg⟩ <;> cases hg
  | str s => simp only [gam] at hg; cases hg
  | strIn l => simp only [gam] at hg; obtain ⟨_, _, hg⟩ := hg; cases hg
  | ints => simp only [gam] at hg; obtain ⟨_, hg⟩ := hg; cases hg
  | param => simp only [gam] at hg; obtain ⟨_, hg⟩ := hg; cases hg
  | opq => simp only [gam] at hg; obtain ⟨_, hg⟩ := hg; cases hg
  | pos => simp only [gam] at hg; cases hg
  | posOrInt => simp only [gam] at hg; rcases hg with hg | ⟨_, hg⟩ <;> cases hg

/-- THE KIND OF A VALUE.  In every namespace of the world, the expression (with the `G.order()` of graph files replaced
by their numbers) has a value, of the kind `aval` computes. -/
theorem aval_sound (ord : List String → Nat) (w : World) (ns : Ns) (hw : gamW w ns) :
    ∀ (e : Expr) (a : AV), aval w e = some a → ∃ v, evalE ns (fixOrder ord ns e) = some v ∧ gam a v := by
  intro e
  induction e with
  | arg d =>
    intro a h
    simp only [aval] at h
    obtain ⟨v, hv, hg⟩ := gamW_some w ns hw d a h
    exact ⟨v, by simp [fixOrder, evalE, hv], hg⟩
  | hasattr d =>
    intro a h
    simp only [aval] at h
    have := gamW_isSome w ns hw d
    simp only [fixOrder, evalE]
    cases hl : (w.lookup d).isSome with
    | true => rw [hl] at h this; simp at h; subst h; exact ⟨_, rfl, by simp [gam, this]⟩
    | false => rw [hl] at h this; simp at h; subst h; exact ⟨_, rfl, by simp [gam, this]⟩
  | getattr d e ih =>
    intro a h
    simp only [aval] at h
    simp only [fixOrder, evalE]
    cases hl : w.lookup d with
    | some x =>
      rw [hl] at h; simp at h; subst h
      obtain ⟨v, hv, hg⟩ := gamW_some w ns hw d x hl
      exact ⟨v, by simp [hv], hg⟩
    | none =>
      rw [hl] at h
      rw [gamW_none w ns hw d hl]
      exact ih a h
  | none => intro a h; simp [aval] at h; subst h; exact ⟨_, rfl, rfl⟩
  | bool b =>
    intro a h
    simp only [aval] at h
    cases b <;> simp at h <;> subst h <;> exact ⟨_, rfl, rfl⟩
  | int i => intro a h; simp [aval] at h; subst h; exact ⟨_, rfl, rfl⟩
  | str s => intro a h; simp [aval] at h; subst h; exact ⟨_, rfl, rfl⟩
  | name n => intro a h; simp [aval] at h; subst h; exact ⟨_, rfl, ⟨_, rfl⟩⟩
  | not e ih =>
    intro a h
    simp only [aval] at h
    cases hx : aval w e with
    | none => simp [hx] at h
    | some x =>
      cases hr : atruthy x with
      | none => simp [hx, hr] at h
      | some r =>
        simp [hx, hr] at h; subst h
        obtain ⟨v, hv, hg⟩ := ih x hx
        obtain ⟨b, hb, _⟩ := atruthy_sound x r v hr hg
        exact ⟨.bool (!b), by simp [fixOrder, evalE, hv, hb], ⟨_, rfl⟩⟩
  | isNone e ih =>
    intro a h
    simp only [aval] at h
    cases hx : aval w e with
    | none => simp [hx] at h
    | some x =>
      cases hr : aisNone x with
      | none => simp [hx, hr] at h
      | some r =>
        simp [hx, hr] at h; subst h
        obtain ⟨v, hv, hg⟩ := ih x hx
        obtain ⟨b, hb, _⟩ := aisNone_sound x r v hr hg
        exact ⟨.bool b, by simp [fixOrder, evalE, hv, hb], ⟨_, rfl⟩⟩
  | isNotNone e ih =>
    intro a h
    simp only [aval] at h
    cases hx : aval w e with
    | none => simp [hx] at h
    | some x =>
      cases hr : aisNone x with
      | none => simp [hx, hr] at h
      | some r =>
        simp [hx, hr] at h; subst h
        obtain ⟨v, hv, hg⟩ := ih x hx
        obtain ⟨b, hb, _⟩ := aisNone_sound x r v hr hg
        exact ⟨.bool (!b), by simp [fixOrder, evalE, hv, hb], ⟨_, rfl⟩⟩
  | cmp op x y ihx ihy =>
    intro a h
    simp only [aval] at h
    cases hx : aval w x with
    | none => simp [hx] at h
    | some ax =>
      cases hy : aval w y with
      | none => simp [hx, hy] at h
      | some ay =>
        cases hr : acmp op ax ay with
        | none => simp [hx, hy, hr] at h
        | some r =>
          simp [hx, hy, hr] at h; subst h
          obtain ⟨vx, hvx, hgx⟩ := ihx ax hx
          obtain ⟨vy, hvy, hgy⟩ := ihy ay hy
          obtain ⟨b, hb, _⟩ := acmp_sound op ax ay r vx vy hr hgx hgy
          exact ⟨.bool b, by simp [fixOrder, evalE, hvx, hvy, hb], ⟨_, rfl⟩⟩
  | star e ih =>
    intro a h
    simp only [aval] at h
    obtain ⟨v, hv, hg⟩ := ih a h
    exact ⟨v, by simp [fixOrder, evalE, hv], hg⟩
  | binop op x y ihx ihy =>
    intro a h
    simp only [aval] at h
    cases hx : aval w x with
    | none => simp [hx] at h
    | some ax =>
      cases hy : aval w y with
      | none => simp [hx, hy] at h
      | some ay =>
        simp [hx, hy] at h
        obtain ⟨vx, hvx, hgx⟩ := ihx ax hx
        obtain ⟨vy, hvy, hgy⟩ := ihy ay hy
        obtain ⟨v, hv, hg⟩ := abinop_sound op ax ay a vx vy h hgx hgy
        exact ⟨v, by simp [fixOrder, evalE, hvx, hvy, hv], hg⟩
  | order g ih =>
    intro a h
    simp only [aval] at h
    split at h
    · rename_i hno
      have hfix := fixOrder_noOrder ord ns g hno
      cases hx : aval w g with
      | none => simp [hx] at h
      | some ag =>
        obtain ⟨vg, hvg, hgg⟩ := ih ag hx
        rw [hfix] at hvg
        rw [hx] at h
        by_cases hC : ag = .graphC
        · subst hC
          simp at h; subst h
          simp only [gam] at hgg
          obtain ⟨k, c, r, rfl, hcon⟩ := hgg
          unfold constructed at hcon
          have hmem : c ∈ (graphConstructions.lookup k).getD [] := by simpa using hcon
          refine ⟨.pos, ?_, rfl⟩
          simp [fixOrder, hvg, hcon, hmem, evalE, orderOf]
        · by_cases hA : ag = .graphAny
          · subst hA
            simp at h; subst h
            simp only [gam] at hgg
            obtain ⟨k, t, rfl⟩ := hgg
            cases t with
            | nil => exact ⟨.int (ord []), by simp [fixOrder, hvg, evalE], Or.inr ⟨_, rfl⟩⟩
            | cons c r =>
              by_cases hcon : ((graphConstructions.lookup k).getD []).contains c = true
              · have hmem : c ∈ (graphConstructions.lookup k).getD [] := by simpa using hcon
                exact ⟨.pos, by simp [fixOrder, hvg, hcon, hmem, evalE, orderOf], Or.inl rfl⟩
              · have hmem : c ∉ (graphConstructions.lookup k).getD [] := by simpa using hcon
                exact ⟨.int (ord (c :: r)), by simp [fixOrder, hvg, hmem, evalE], Or.inr ⟨_, rfl⟩⟩
          · by_cases hY : ag = .any
            · subst hY; simp at h
            · have ha : a = .opq := by
                cases ag <;> simp at h <;> first | exact h.symm | exact absurd rfl hC | exact absurd rfl hA | exact absurd rfl hY
              subst ha
              have hng := gam_nongraph ag vg hgg hC hA hY
              refine ⟨.opaque "order", ?_, ⟨_, rfl⟩⟩
              have hfo : fixOrder ord ns (.order g) = .order g := by
                simp only [fixOrder, hvg]
                cases vg <;> first | rfl | (rename_i k t; exact absurd rfl (hng k t))
              rw [hfo]
              simp [evalE, hvg, orderOf_nongraph vg hng]
    · simp at h
  | nil => intro a h; simp [aval] at h; subst h; exact ⟨.toks [], rfl, ⟨_, rfl⟩⟩
  | cons hd tl ihh iht =>
    intro a h
    simp only [aval] at h
    cases hx : aval w hd with
    | none => simp [hx] at h
    | some ah =>
      cases hy : aval w tl with
      | none => rw [hx, hy] at h; cases ah <;> simp at h
      | some at' =>
        obtain ⟨vh, hvh, hgh⟩ := ihh ah hx
        obtain ⟨vt, hvt, hgt⟩ := iht at' hy
        rw [hx, hy] at h
        -- whatever the kinds, the value exists
        have hsome : ∃ v, evalE ns (fixOrder ord ns (.cons hd tl)) = some v := by
          simp only [fixOrder, evalE, hvh, hvt]
          cases vt with
          | toks l => cases htk : tokOf vh <;> simp [htk]
          | _ => simp
        by_cases hany : a = .any
        · subst hany
          obtain ⟨v, hv⟩ := hsome
          exact ⟨v, hv, trivial⟩
        · -- the token-list cases
          cases at' with
          | toks hd' =>
            have hvt' : ∃ l, vt = .toks l := by
              cases hd' with
              | none => exact hgt
              | some x => obtain ⟨r, hr⟩ := hgt; exact ⟨_, hr⟩
            obtain ⟨l, rfl⟩ := hvt'
            cases ah with
            | str s =>
              simp at h; subst h
              simp only [gam] at hgh; subst hgh
              exact ⟨.toks (s :: l), by simp [fixOrder, evalE, hvh, hvt, tokOf], ⟨_, rfl⟩⟩
            | int =>
              simp at h; subst h
              obtain ⟨i, rfl⟩ := hgh
              exact ⟨.toks (toString i :: l), by simp [fixOrder, evalE, hvh, hvt, tokOf], ⟨_, rfl⟩⟩
            | intc k =>
              simp at h; subst h
              simp only [gam] at hgh; subst hgh
              exact ⟨.toks (toString k :: l), by simp [fixOrder, evalE, hvh, hvt, tokOf], ⟨_, rfl⟩⟩
            | _ => simp at h; exact absurd h.symm hany
          | _ => cases ah <;> simp at h <;> exact absurd h.symm hany
  | mkgraph k sp ih =>
    intro a h
    simp only [aval] at h
    cases hx : aval w sp with
    | none => simp [hx] at h
    | some asp =>
      obtain ⟨vs, hvs, hgs⟩ := ih asp hx
      rw [hx] at h
      have hsome : ∃ v, evalE ns (fixOrder ord ns (.mkgraph k sp)) = some v := by
        simp only [fixOrder, evalE, hvs]
        cases vs <;> exact ⟨_, rfl⟩
      cases asp with
      | toks hd' =>
        cases hd' with
        | none =>
          simp at h; subst h
          obtain ⟨l, rfl⟩ := hgs
          exact ⟨.graph k l, by simp [fixOrder, evalE, hvs], ⟨_, _, rfl⟩⟩
        | some x =>
          simp at h
          obtain ⟨r, rfl⟩ := hgs
          by_cases hc : constructed k x = true
          · simp [hc] at h; subst h
            exact ⟨.graph k (x :: r), by simp [fixOrder, evalE, hvs], ⟨_, _, _, rfl, hc⟩⟩
          · simp [hc] at h; subst h
            exact ⟨.graph k (x :: r), by simp [fixOrder, evalE, hvs], ⟨_, _, rfl⟩⟩
      | _ =>
        simp at h; subst h
        obtain ⟨v, hv⟩ := hsome
        exact ⟨v, hv, trivial⟩
  | «opaque» src ds => intro a h; simp [aval] at h; subst h; exact ⟨_, rfl, ⟨_, rfl⟩⟩
  | and a b _ _ => intro a' h; simp [aval] at h
  | or a b _ _ => intro a' h; simp [aval] at h
  | ite c t e _ _ _ => intro a' h; simp [aval] at h

/-! ### what the tests taken say -/

/-- the facts hold in the namespace -/
def Cons (ord : List String → Nat) (ns : Ns) (fs : Facts) : Prop :=
  ∀ p ∈ fs, evalGuard ns (fixOrder ord ns p.1) = some p.2

theorem lookup_map_keep (w : World) (f : String × AV → String × AV) (hf : ∀ p, (f p).1 = p.1) (k : String) :
    (w.map f).lookup k = (w.lookup k).map (fun a => (f (k, a)).2) := by
  induction w with
  | nil => rfl
  | cons p rest ih =>
    obtain ⟨k', a⟩ := p
    simp only [List.map_cons, List.lookup]
    have h1 : (f (k', a)).1 = k' := hf (k', a)
    cases hk : k == k' with
    | true =>
      have hkk : k = k' := by simpa using hk
      subst hkk
      have : f (k, a) = (k, (f (k, a)).2) := by
        cases hfa : f (k, a) with
        | mk x y => rw [hfa] at h1; simp at h1; subst h1; rfl
      rw [this]
      simp
    | false =>
      have : f (k', a) = (k', (f (k', a)).2) := by
        cases hfa : f (k', a) with
        | mk x y => rw [hfa] at h1; simp at h1; subst h1; rfl
      rw [this]
      simp [hk, ih]

theorem refine_map_sound (w : World) (ns : Ns) (d : String) (a' : AV)
    (hcond : ∀ v, ns.lookup d = some v → gam .intOrNone v → gam a' v) (hw : gamW w ns) :
    gamW (w.map (fun p => if p.1 == d && p.2 == .intOrNone then (p.1, a') else p)) ns := by
  intro k
  rw [lookup_map_keep w _ (fun p => by by_cases h : (p.1 == d && p.2 == AV.intOrNone) = true <;> simp [h]) k]
  have := hw k
  cases hl : w.lookup k with
  | none => rw [hl] at this; simpa using this
  | some a =>
    rw [hl] at this
    obtain ⟨v, hv, hg⟩ := this
    simp only [Option.map_some]
    by_cases hc : (k == d && a == .intOrNone) = true
    · simp only [hc, if_true]
      simp only [Bool.and_eq_true, beq_iff_eq] at hc
      obtain ⟨rfl, rfl⟩ := hc
      exact ⟨v, hv, hcond v hv hg⟩
    · have hc' : (k == d && a == .intOrNone) = false := by simpa using hc
      simp only [hc', Bool.false_eq_true, if_false]
      exact ⟨v, hv, hg⟩

theorem refineOne_sound (ord : List String → Nat) (w : World) (ns : Ns) (f : Expr × Bool) (hw : gamW w ns)
    (hf : evalGuard ns (fixOrder ord ns f.1) = some f.2) : gamW (refineOne w f) ns := by
  obtain ⟨e, b⟩ := f
  -- only four shapes of facts change the world
  have key : ∀ (d : String) (want : Bool),
      ((ns.lookup d).bind isNoneV = some want) →
      gamW (w.map (fun p => if p.1 == d && p.2 == .intOrNone then (p.1, if want then AV.none else AV.int) else p)) ns := by
    intro d want hwant
    apply refine_map_sound w ns d _ _ hw
    intro v hv hg
    rw [hv] at hwant
    simp only [Option.bind_some] at hwant
    rcases hg with rfl | ⟨i, rfl⟩
    · simp [isNoneV] at hwant; subst hwant; rfl
    · simp [isNoneV] at hwant; subst hwant; exact ⟨i, rfl⟩
  unfold refineOne
  split
  · rename_i d heq
    simp only [Prod.mk.injEq] at heq
    obtain ⟨rfl, rfl⟩ := heq
    simp only [fixOrder, evalGuard, evalE] at hf
    have : (ns.lookup d).bind isNoneV = some false := by
      cases hl : ns.lookup d with
      | none => simp [hl] at hf
      | some v =>
        cases hn : isNoneV v with
        | none => simp [hl, hn] at hf
        | some t => simp [hl, hn, truthy] at hf; subst hf; simp [hn]
    simpa using key d false this
  · rename_i d heq
    simp only [Prod.mk.injEq] at heq
    obtain ⟨rfl, rfl⟩ := heq
    simp only [fixOrder, evalGuard, evalE] at hf
    have : (ns.lookup d).bind isNoneV = some false := by
      cases hl : ns.lookup d with
      | none => simp [hl] at hf
      | some v =>
        cases hn : isNoneV v with
        | none => simp [hl, hn] at hf
        | some t => simp [hl, hn, truthy] at hf; subst hf; simp [hn]
    simpa using key d false this
  · rename_i d heq
    simp only [Prod.mk.injEq] at heq
    obtain ⟨rfl, rfl⟩ := heq
    simp only [fixOrder, evalGuard, evalE] at hf
    have : (ns.lookup d).bind isNoneV = some true := by
      cases hl : ns.lookup d with
      | none => simp [hl] at hf
      | some v =>
        cases hn : isNoneV v with
        | none => simp [hl, hn] at hf
        | some t => simp [hl, hn, truthy] at hf; subst hf; simp [hn]
    simpa using key d true this
  · rename_i d heq
    simp only [Prod.mk.injEq] at heq
    obtain ⟨rfl, rfl⟩ := heq
    simp only [fixOrder, evalGuard, evalE] at hf
    have : (ns.lookup d).bind isNoneV = some true := by
      cases hl : ns.lookup d with
      | none => simp [hl] at hf
      | some v =>
        cases hn : isNoneV v with
        | none => simp [hl, hn] at hf
        | some t => simp [hl, hn, truthy] at hf; subst hf; simp [hn]
    simpa using key d true this
  · exact hw

theorem refine_sound (ord : List String → Nat) (ns : Ns) : ∀ (fs : Facts) (w : World), gamW w ns → Cons ord ns fs →
    gamW (refine w fs) ns := by
  intro fs
  induction fs with
  | nil => intro w hw _; exact hw
  | cons f rest ih =>
    intro w hw hc
    unfold refine
    simp only [List.foldl_cons]
    exact ih (refineOne w f) (refineOne_sound ord w ns f hw (hc f (by simp)))
      (fun p hp => hc p (by simp [hp]))

/-! ### guards -/

theorem lookup_mem_facts (fs : Facts) (e : Expr) (b : Bool) (h : fs.lookup e = some b) : (e, b) ∈ fs := by
  induction fs with
  | nil => simp at h
  | cons p rest ih =>
    obtain ⟨e', b'⟩ := p
    simp only [List.lookup] at h
    split at h
    · rename_i heq
      have : e = e' := by simpa using heq
      simp at h; subst h; subst this; simp
    · exact List.mem_cons_of_mem _ (ih h)

/-- an atomic test whose abstract value is right has one of its outcomes -/
theorem atomOut_sound (ord : List String → Nat) (ns : Ns) (e : Expr) (fs : Facts) (r : Option AB)
    (outs : List (Bool × Facts))
    (hr : ∀ rr, r = some rr → ∃ b, evalGuard ns (fixOrder ord ns e) = some b ∧ ∀ c, rr = .const c → b = c)
    (hc : Cons ord ns fs) (h : atomOut e fs r = some outs) :
    ∃ o ∈ outs, evalGuard ns (fixOrder ord ns e) = some o.1 ∧ Cons ord ns o.2 := by
  unfold atomOut at h
  cases r with
  | none => simp at h
  | some rr =>
    obtain ⟨b, hb, hcb⟩ := hr rr rfl
    cases rr with
    | const c =>
      simp at h; subst h
      exact ⟨(c, fs), by simp, by rw [hb, hcb c rfl], hc⟩
    | atom =>
      dsimp only at h
      cases hl : fs.lookup e with
      | some b' =>
        rw [hl] at h
        simp at h; subst h
        have := hc (e, b') (lookup_mem_facts fs e b' hl)
        exact ⟨(b', fs), by simp, this, hc⟩
      | none =>
        rw [hl] at h
        simp at h; subst h
        cases b with
        | true =>
          refine ⟨(true, (e, true) :: fs), by simp, hb, ?_⟩
          intro p hp
          rcases List.mem_cons.1 hp with rfl | hp
          · exact hb
          · exact hc p hp
        | false =>
          refine ⟨(false, (e, false) :: fs), by simp, hb, ?_⟩
          intro p hp
          rcases List.mem_cons.1 hp with rfl | hp
          · exact hb
          · exact hc p hp

theorem seqOuts_mem (k : Bool → Facts → Option (List (Bool × Facts))) :
    ∀ (outs L : List (Bool × Facts)), seqOuts k outs = some L →
      ∀ o ∈ outs, ∃ l', k o.1 o.2 = some l' ∧ ∀ x ∈ l', x ∈ L := by
  intro outs
  induction outs with
  | nil => intro L _ o ho; simp at ho
  | cons o' rest ih =>
    intro L h o ho
    unfold seqOuts at h
    cases hk : k o'.1 o'.2 with
    | none => simp [hk] at h
    | some l' =>
      cases hs : seqOuts k rest with
      | none => simp [hk, hs] at h
      | some l =>
        simp [hk, hs] at h; subst h
        rcases List.mem_cons.1 ho with rfl | ho
        · exact ⟨l', hk, fun x hx => List.mem_append_left _ hx⟩
        · obtain ⟨l2, h2, h3⟩ := ih l hs o ho
          exact ⟨l2, h2, fun x hx => List.mem_append_right _ (h3 x hx)⟩

theorem evalGuard_or (ns : Ns) (a c : Expr) :
    evalGuard ns (.or a c) =
      (match evalGuard ns a with
       | none => none
       | some true => some true
       | some false => evalGuard ns c) := by
  unfold evalGuard
  simp only [evalE]
  cases ha : evalE ns a with
  | none => rfl
  | some va =>
    cases ht : truthy va with
    | none => simp [ht]
    | some t => cases t <;> simp [ht]

/-- THE GUARD.  The truth value of the guard in the namespace is one of the outcomes `aguard` lists, and what that
outcome has learnt holds in the namespace. -/
theorem aguard_sound (ord : List String → Nat) (w : World) (ns : Ns) (hw : gamW w ns) :
    ∀ (e : Expr) (fs : Facts) (outs : List (Bool × Facts)), Cons ord ns fs → aguard w e fs = some outs →
      ∃ o ∈ outs, evalGuard ns (fixOrder ord ns e) = some o.1 ∧ Cons ord ns o.2 := by
  intro e
  induction e with
  | and a b iha ihb =>
    intro fs outs hc h
    simp only [aguard] at h
    cases ha : aguard w a fs with
    | none => simp [ha] at h
    | some outsA =>
      rw [ha] at h
      simp only [Option.bind_some] at h
      obtain ⟨oa, hoa, hva, hca⟩ := iha fs outsA hc ha
      obtain ⟨l', hk, hsub⟩ := seqOuts_mem _ outsA outs h oa hoa
      simp only [fixOrder]
      rw [dtot_evalGuard_and, hva]
      cases hb1 : oa.1 with
      | true =>
        rw [hb1] at hk
        simp only [if_true] at hk
        obtain ⟨ob, hob, hvb, hcb⟩ := ihb oa.2 l' hca hk
        exact ⟨ob, hsub ob hob, hvb, hcb⟩
      | false =>
        rw [hb1] at hk
        simp at hk; subst hk
        exact ⟨(false, oa.2), hsub _ (by simp), rfl, hca⟩
  | or a b iha ihb =>
    intro fs outs hc h
    simp only [aguard] at h
    cases ha : aguard w a fs with
    | none => simp [ha] at h
    | some outsA =>
      rw [ha] at h
      simp only [Option.bind_some] at h
      obtain ⟨oa, hoa, hva, hca⟩ := iha fs outsA hc ha
      obtain ⟨l', hk, hsub⟩ := seqOuts_mem _ outsA outs h oa hoa
      simp only [fixOrder]
      rw [evalGuard_or, hva]
      cases hb1 : oa.1 with
      | true =>
        rw [hb1] at hk
        simp at hk; subst hk
        exact ⟨(true, oa.2), hsub _ (by simp), rfl, hca⟩
      | false =>
        rw [hb1] at hk
        simp only [Bool.false_eq_true, if_false] at hk
        obtain ⟨ob, hob, hvb, hcb⟩ := ihb oa.2 l' hca hk
        exact ⟨ob, hsub ob hob, hvb, hcb⟩
  | not e ih =>
    intro fs outs hc h
    simp only [aguard] at h
    cases he : aguard w e fs with
    | none => simp [he] at h
    | some outsE =>
      rw [he] at h
      simp at h; subst h
      obtain ⟨o, ho, hv, hco⟩ := ih fs outsE hc he
      refine ⟨(!o.1, o.2), List.mem_map.2 ⟨o, ho, rfl⟩, ?_, hco⟩
      simp only [fixOrder]
      exact dtot_evalGuard_not ns _ o.1 hv
  | hasattr d =>
    intro fs outs hc h
    simp only [aguard] at h
    simp at h; subst h
    refine ⟨((w.lookup d).isSome, fs), by simp, ?_, hc⟩
    simp [fixOrder, evalGuard, evalE, truthy, gamW_isSome w ns hw d]
  | bool b =>
    intro fs outs hc h
    simp only [aguard] at h
    simp at h; subst h
    exact ⟨(b, fs), by simp, by simp [fixOrder, evalGuard, evalE, truthy], hc⟩
  | isNone e _ =>
    intro fs outs hc h
    simp only [aguard] at h
    have hwr := refine_sound ord ns fs w hw hc
    apply atomOut_sound ord ns (.isNone e) fs _ outs _ hc h
    intro rr hrr
    cases hx : aval (refine w fs) e with
    | none => simp [hx] at hrr
    | some x =>
      simp only [hx, Option.bind_some] at hrr
      obtain ⟨v, hv, hg⟩ := aval_sound ord (refine w fs) ns hwr e x hx
      obtain ⟨b, hb, hcb⟩ := aisNone_sound x rr v hrr hg
      exact ⟨b, by simp [fixOrder, evalGuard, evalE, hv, hb, truthy], hcb⟩
  | isNotNone e _ =>
    intro fs outs hc h
    simp only [aguard] at h
    have hwr := refine_sound ord ns fs w hw hc
    apply atomOut_sound ord ns (.isNotNone e) fs _ outs _ hc h
    intro rr hrr
    cases hx : aval (refine w fs) e with
    | none => simp [hx] at hrr
    | some x =>
      cases hr0 : aisNone x with
      | none => simp [hx, hr0] at hrr
      | some r0 =>
        simp only [hx, hr0, Option.bind_some, Option.map_some, Option.some.injEq] at hrr
        obtain ⟨v, hv, hg⟩ := aval_sound ord (refine w fs) ns hwr e x hx
        obtain ⟨b, hb, hcb⟩ := aisNone_sound x r0 v hr0 hg
        refine ⟨!b, by simp [fixOrder, evalGuard, evalE, hv, hb, truthy], ?_⟩
        intro c hc'
        cases r0 with
        | const c0 => simp at hrr; rw [← hrr] at hc'; simp at hc'; rw [hcb c0 rfl, hc']; simp
        | atom => simp at hrr; rw [← hrr] at hc'; cases hc'
  | cmp op x y _ _ =>
    intro fs outs hc h
    simp only [aguard] at h
    have hwr := refine_sound ord ns fs w hw hc
    apply atomOut_sound ord ns (.cmp op x y) fs _ outs _ hc h
    intro rr hrr
    cases hx : aval (refine w fs) x with
    | none => simp [hx] at hrr
    | some ax =>
      cases hy : aval (refine w fs) y with
      | none => simp [hx, hy] at hrr
      | some ay =>
        simp only [hx, hy] at hrr
        obtain ⟨vx, hvx, hgx⟩ := aval_sound ord (refine w fs) ns hwr x ax hx
        obtain ⟨vy, hvy, hgy⟩ := aval_sound ord (refine w fs) ns hwr y ay hy
        obtain ⟨b, hb, hcb⟩ := acmp_sound op ax ay rr vx vy hrr hgx hgy
        exact ⟨b, by simp [fixOrder, evalGuard, evalE, hvx, hvy, hb, truthy], hcb⟩
  | arg d =>
    intro fs outs hc h
    simp only [aguard] at h
    have hwr := refine_sound ord ns fs w hw hc
    apply atomOut_sound ord ns (.arg d) fs _ outs _ hc h
    intro rr hrr
    cases hx : (refine w fs).lookup d with
    | none => simp [hx] at hrr
    | some x =>
      simp only [hx, Option.bind_some] at hrr
      obtain ⟨v, hv, hg⟩ := gamW_some _ ns hwr d x hx
      obtain ⟨b, hb, hcb⟩ := atruthy_sound x rr v hrr hg
      exact ⟨b, by simp [fixOrder, evalGuard, evalE, hv, hb], hcb⟩
  | getattr d e _ => intro fs outs _ h; simp [aguard] at h
  | none => intro fs outs _ h; simp [aguard] at h
  | int i => intro fs outs _ h; simp [aguard] at h
  | str s => intro fs outs _ h; simp [aguard] at h
  | name n => intro fs outs _ h; simp [aguard] at h
  | ite c t e _ _ _ => intro fs outs _ h; simp [aguard] at h
  | star e _ => intro fs outs _ h; simp [aguard] at h
  | binop op a b _ _ => intro fs outs _ h; simp [aguard] at h
  | order g _ => intro fs outs _ h; simp [aguard] at h
  | nil => intro fs outs _ h; simp [aguard] at h
  | cons a b _ _ => intro fs outs _ h; simp [aguard] at h
  | mkgraph k sp _ => intro fs outs _ h; simp [aguard] at h
  | «opaque» src ds => intro fs outs _ h; simp [aguard] at h

/-! ### arguments, and the whole method -/

theorem fixOrder_star (ord : List String → Nat) (ns : Ns) (e x : Expr) (h : fixOrder ord ns e = .star x) :
    ∃ e', e = .star e' := by
  cases e <;> simp [fixOrder] at h
  · exact ⟨_, rfl⟩
  · rename_i g
    split at h
    · split at h <;> simp at h
    · simp at h
    · simp at h

theorem argOK_nonstar (w : World) (e : Expr) :
    (∀ e', e ≠ .star e') →
    (match e with
      | .star e' => aval w e' == some .ints
      | e => (aval w e).isSome) = (aval w e).isSome := by
  intro h
  cases e <;> first | rfl | exact absurd rfl (h _)

theorem posStep_nonstar (fe : Expr) (v : Val) (vs : List Val) :
    (∀ x, fe ≠ .star x) →
    (match fe, v with
      | .star _, .ints l => some (l.map Val.int ++ vs)
      | .star _, _ => none
      | _, _ => some (v :: vs)) = some (v :: vs) := by
  intro h
  cases fe <;> first | rfl | exact absurd rfl (h _)

theorem evalPos_sound (ord : List String → Nat) (w : World) (ns : Ns) (hw : gamW w ns) :
    ∀ (es : List Expr),
      es.all (fun e => match e with
        | .star e' => aval w e' == some .ints
        | e => (aval w e).isSome) = true →
      ∃ vs, evalPos ns (es.map (fixOrder ord ns)) = some vs := by
  intro es
  induction es with
  | nil => intro _; exact ⟨[], rfl⟩
  | cons e rest ih =>
    intro h
    simp only [List.all_cons, Bool.and_eq_true] at h
    obtain ⟨vs, hvs⟩ := ih h.2
    simp only [List.map_cons, evalPos, hvs]
    by_cases hs : ∃ e', e = .star e'
    · obtain ⟨e', rfl⟩ := hs
      have h1 : aval w e' = some .ints := by simpa using h.1
      obtain ⟨v, hv, hg⟩ := aval_sound ord w ns hw e' .ints h1
      obtain ⟨l, rfl⟩ := hg
      simp only [fixOrder, evalE, hv]
      exact ⟨_, rfl⟩
    · have hns : ∀ e', e ≠ .star e' := fun e' he => hs ⟨e', he⟩
      have h1 := h.1
      rw [argOK_nonstar w e hns] at h1
      cases ha : aval w e with
      | none => rw [ha] at h1; simp at h1
      | some a =>
        obtain ⟨v, hv, _⟩ := aval_sound ord w ns hw e a ha
        rw [hv]
        dsimp only
        have hfs : ∀ x, fixOrder ord ns e ≠ .star x := by
          intro x hx
          obtain ⟨e', he'⟩ := fixOrder_star ord ns e x hx
          exact hns e' he'
        generalize fixOrder ord ns e = fe at hfs ⊢
        cases fe <;> first | exact ⟨_, rfl⟩ | exact absurd rfl (hfs _)

theorem evalKw_sound (ord : List String → Nat) (w : World) (ns : Ns) (hw : gamW w ns) :
    ∀ (kw : List (String × Expr)), kw.all (fun p => (aval w p.2).isSome) = true →
      ∃ vs, evalKw ns (kw.map (fun p => (p.1, fixOrder ord ns p.2))) = some vs := by
  intro kw
  induction kw with
  | nil => intro _; exact ⟨[], rfl⟩
  | cons p rest ih =>
    intro h
    obtain ⟨k, e⟩ := p
    simp only [List.all_cons, Bool.and_eq_true] at h
    obtain ⟨vs, hvs⟩ := ih h.2
    cases ha : aval w e with
    | none => rw [ha] at h; simp at h
    | some a =>
      obtain ⟨v, hv, _⟩ := aval_sound ord w ns hw e a ha
      simp only [List.map_cons, evalKw, hv, hvs]
      exact ⟨_, rfl⟩

/-- the call of a path that `tmplOK` accepts can be built, or the path raises a ValueError -/
theorem tmplOK_sound (ord : List String → Nat) (w : World) (ns : Ns) (hw : gamW w ns) (t : CallTemplate)
    (h : tmplOK w t = true) :
    (∃ c, instantiate ns (fixTemplate ord ns t) = .ok c) ∨
      instantiate ns (fixTemplate ord ns t) = .error .cliError := by
  unfold tmplOK at h
  unfold instantiate fixTemplate
  dsimp only
  by_cases hr : (t.raises != "") = true
  · simp only [hr, if_true] at h ⊢
    right
    simp [h]
  · have hr' : (t.raises != "") = false := by simpa using hr
    simp only [hr', Bool.false_eq_true, if_false, Bool.and_eq_true] at h ⊢
    have hfn : (t.fn == "") = false := by simpa using h.1
    simp only [hfn, Bool.false_eq_true, if_false]
    unfold aargs at h
    simp only [Bool.and_eq_true] at h
    obtain ⟨vs, hvs⟩ := evalPos_sound ord w ns hw t.pos h.2.1
    obtain ⟨ks, hks⟩ := evalKw_sound ord w ns hw t.kw h.2.2
    left
    rw [hvs, hks]
    exact ⟨_, rfl⟩

/-- THE METHOD.  In every namespace of the world, with the facts learnt so far: when `arun` says yes, the helper's
method takes a path, and the call of that path can be built or the path raises a ValueError. -/
theorem arun_sound (ord : List String → Nat) (w : World) (ns : Ns) (hw : gamW w ns) :
    ∀ (ts : List CallTemplate) (fs : Facts), Cons ord ns fs → arun w ts fs = true →
      ∃ t, selectTemplate ns (ts.map (fixTemplate ord ns)) = .ok (fixTemplate ord ns t) ∧
        ((∃ c, instantiate ns (fixTemplate ord ns t) = .ok c) ∨
          instantiate ns (fixTemplate ord ns t) = .error .cliError) := by
  intro ts
  induction ts with
  | nil => intro fs _ h; simp [arun] at h
  | cons t rest ih =>
    intro fs hc h
    unfold arun at h
    cases hg : aguard w t.guard fs with
    | none => simp [hg] at h
    | some outs =>
      rw [hg] at h
      dsimp only at h
      obtain ⟨o, ho, hv, hco⟩ := aguard_sound ord w ns hw t.guard fs outs hc hg
      have hall := (List.all_eq_true.1 h) o ho
      have hgfix : (fixTemplate ord ns t).guard = fixOrder ord ns t.guard := rfl
      cases ho1 : o.1 with
      | true =>
        rw [ho1] at hall hv
        simp only [if_true] at hall
        refine ⟨t, ?_, tmplOK_sound ord (refine w o.2) ns (refine_sound ord ns o.2 w hw hco) t hall⟩
        simp [selectTemplate, hgfix, hv]
      | false =>
        rw [ho1] at hall hv
        simp only [Bool.false_eq_true, if_false] at hall
        obtain ⟨t', hsel, hins⟩ := ih o.2 hco hall
        refine ⟨t', ?_, hins⟩
        simp [selectTemplate, hgfix, hv, hsel]

end Cnfgen.Cli.AP
