/-
Helper lemmas for C20: Python's `str.split()`, `int()` and `sorted(key=abs)` as modelled in
`CnfgenModel/Solver/Parse.lean`.
-/
import CnfgenModel.Solver.Parse
namespace Cnfgen.Solver

/-- equality of results is decidable (used by the `decide`d examples on concrete outputs) -/
instance instDecEqExcept {ε α} [DecidableEq ε] [DecidableEq α] : DecidableEq (Except ε α) := fun a b =>
  match a, b with
  | .ok x, .ok y =>
    if h : x = y then isTrue (by rw [h]) else isFalse (by intro h'; injection h' with h'; exact h h')
  | .error x, .error y =>
    if h : x = y then isTrue (by rw [h]) else isFalse (by intro h'; injection h' with h'; exact h h')
  | .ok _, .error _ => isFalse (by intro h; cases h)
  | .error _, .ok _ => isFalse (by intro h; cases h)

/-! ### `pySplit` -/

/-- every character is whitespace -/
def AllSpace (s : Str) : Prop := ∀ c ∈ s, isSpace c = true
/-- no character is whitespace -/
def NoSpace (s : Str) : Prop := ∀ c ∈ s, isSpace c = false

theorem pySplitAux_noSpace (t rest cur : Str) (ht : NoSpace t) :
    pySplitAux (t ++ rest) cur = pySplitAux rest (cur ++ t) := by
  induction t generalizing cur with
  | nil => simp
  | cons c cs ih =>
    have hc : isSpace c = false := ht c (by simp)
    have hcs : NoSpace cs := fun d hd => ht d (by simp [hd])
    have e : cur ++ c :: cs = (cur ++ [c]) ++ cs := by simp
    rw [e, ← ih _ hcs]
    simp [pySplitAux, hc]

theorem pySplitAux_allSpace_nil (ws rest : Str) (h : AllSpace ws) :
    pySplitAux (ws ++ rest) [] = pySplitAux rest [] := by
  induction ws with
  | nil => simp
  | cons c cs ih =>
    have hc : isSpace c = true := h c (by simp)
    have hcs : AllSpace cs := fun d hd => h d (by simp [hd])
    simp [pySplitAux, hc, ih hcs]

theorem pySplitAux_allSpace_cons (ws rest cur : Str) (h : AllSpace ws) (hne : ws ≠ [])
    (hcur : cur ≠ []) : pySplitAux (ws ++ rest) cur = cur :: pySplitAux rest [] := by
  cases ws with
  | nil => exact absurd rfl hne
  | cons c cs =>
    have hc : isSpace c = true := h c (by simp)
    have hcs : AllSpace cs := fun d hd => h d (by simp [hd])
    simp [pySplitAux, hc, hcur, pySplitAux_allSpace_nil cs rest hcs]

theorem pySplitAux_allSpace_end (ws cur : Str) (h : AllSpace ws) :
    pySplitAux ws cur = if cur = [] then [] else [cur] := by
  by_cases hcur : cur = []
  · subst hcur
    have := pySplitAux_allSpace_nil ws [] h
    simp only [List.append_nil] at this
    simp [this, pySplitAux]
  · by_cases hws : ws = []
    · subst hws; simp [pySplitAux, hcur]
    · have := pySplitAux_allSpace_cons ws [] cur h hws hcur
      simp only [List.append_nil] at this
      simp [this, pySplitAux, hcur]

/-- tokens glued with their leading separators: `sep₁ tok₁ sep₂ tok₂ …` -/
def glue : List (Str × Str) → Str
  | [] => []
  | p :: r => p.1 ++ p.2 ++ glue r

/-- separators are non-empty whitespace, tokens are non-empty and whitespace-free -/
def GoodSegs (segs : List (Str × Str)) : Prop :=
  ∀ p ∈ segs, AllSpace p.1 ∧ p.1 ≠ [] ∧ NoSpace p.2 ∧ p.2 ≠ []

theorem pySplitAux_glue (segs : List (Str × Str)) (h : GoodSegs segs) (tail : Str)
    (ht : AllSpace tail) (cur : Str) :
    pySplitAux (glue segs ++ tail) cur = (if cur = [] then [] else [cur]) ++ segs.map (·.2) := by
  induction segs generalizing cur with
  | nil => simp [glue, pySplitAux_allSpace_end tail cur ht]
  | cons p r ih =>
    obtain ⟨h1, h2, h3, h4⟩ := h p (by simp)
    have hr : GoodSegs r := fun q hq => h q (by simp [hq])
    have e : glue (p :: r) ++ tail = p.1 ++ (p.2 ++ (glue r ++ tail)) := by simp [glue]
    rw [e]
    by_cases hcur : cur = []
    · subst hcur
      rw [pySplitAux_allSpace_nil _ _ h1, pySplitAux_noSpace _ _ _ h3, ih hr]
      simp [h4]
    · rw [pySplitAux_allSpace_cons _ _ _ h1 h2 hcur, pySplitAux_noSpace _ _ _ h3, ih hr]
      simp [h4, hcur]

theorem pySplit_glue (segs : List (Str × Str)) (h : GoodSegs segs) (tail : Str) (ht : AllSpace tail) :
    pySplit (glue segs ++ tail) = segs.map (·.2) := by
  simp [pySplit, pySplitAux_glue segs h tail ht]

/-- a first word `w` written at the very start of the text, then glued tokens -/
theorem pySplit_word_glue (w : Str) (hw : NoSpace w) (hne : w ≠ []) (segs : List (Str × Str))
    (h : GoodSegs segs) (tail : Str) (ht : AllSpace tail) :
    pySplit (w ++ (glue segs ++ tail)) = w :: segs.map (·.2) := by
  unfold pySplit
  rw [pySplitAux_noSpace _ _ _ hw, pySplitAux_glue segs h tail ht]
  simp [hne]

/-! ### `pyInt` and decimal rendering -/

def IsDigit (c : Char) : Prop := 48 ≤ c.toNat ∧ c.toNat ≤ 57

theorem digitChar_toNat : ∀ d, d < 10 → (digitChar d).toNat = 48 + d := by decide

theorem isDigit_digitChar (d : Nat) (h : d < 10) : IsDigit (digitChar d) := by
  unfold IsDigit; rw [digitChar_toNat d h]; omega

theorem pyNatAux_digits (ds ys : Str) (acc nd : Nat) (b : Bool) (h : ∀ c ∈ ds, IsDigit c) :
    pyNatAux (ds ++ ys) acc nd b =
      pyNatAux ys (ds.foldl (fun a c => a * 10 + (c.toNat - 48)) acc) (nd + ds.length)
        (if ds = [] then b else true) := by
  induction ds generalizing acc nd b with
  | nil => simp
  | cons c cs ih =>
    have hc : IsDigit c := h c (by simp)
    have hcs : ∀ d ∈ cs, IsDigit d := fun d hd => h d (by simp [hd])
    have h95 : (c.toNat == 95) = false := by
      unfold IsDigit at hc; simp; omega
    have hdv : digitVal c = some (c.toNat - 48) := by
      unfold IsDigit at hc; unfold digitVal; simp [hc.1, hc.2]
    have step : pyNatAux (c :: cs ++ ys) acc nd b
        = pyNatAux (cs ++ ys) (acc * 10 + (c.toNat - 48)) (nd + 1) true := by
      simp [pyNatAux, h95, hdv]
    rw [step, ih _ _ _ hcs]
    have : nd + 1 + cs.length = nd + (c :: cs).length := by simp; omega
    rw [this]
    by_cases hcs' : cs = [] <;> simp [hcs']

theorem showNatF_digits (fuel n : Nat) : ∀ c ∈ showNatF fuel n, IsDigit c := by
  induction fuel generalizing n with
  | zero => simp [showNatF]
  | succ f ih =>
    intro c hc
    unfold showNatF at hc
    split at hc
    · simp at hc; subst hc; exact isDigit_digitChar n (by omega)
    · simp only [List.mem_append, List.mem_singleton] at hc
      rcases hc with hc | hc
      · exact ih _ c hc
      · subst hc; exact isDigit_digitChar _ (Nat.mod_lt _ (by omega))

theorem showNatF_value (fuel n : Nat) (h : n < fuel) :
    (showNatF fuel n).foldl (fun a c => a * 10 + (c.toNat - 48)) 0 = n := by
  induction fuel generalizing n with
  | zero => omega
  | succ f ih =>
    unfold showNatF
    split
    · rename_i hn; simp [digitChar_toNat n hn]
    · rename_i hn
      have h1 : n / 10 < f := by omega
      simp only [List.foldl_append, List.foldl_cons, List.foldl_nil, ih _ h1]
      rw [digitChar_toNat _ (Nat.mod_lt _ (by omega))]
      omega

theorem showNatF_ne_nil (fuel n : Nat) : showNatF (fuel + 1) n ≠ [] := by
  unfold showNatF; split <;> simp

theorem showNatF_length (fuel n k : Nat) (hk : n < 10 ^ k) (hk1 : 1 ≤ k) :
    (showNatF fuel n).length ≤ k := by
  induction fuel generalizing n k with
  | zero => simp [showNatF]
  | succ f ih =>
    unfold showNatF
    split
    · simpa using hk1
    · rename_i hn
      have hk2 : 2 ≤ k := by
        rcases Nat.lt_or_ge k 2 with h | h
        · have : k = 1 := by omega
          subst this; omega
        · exact h
      have : n / 10 < 10 ^ (k - 1) := by
        have e : 10 ^ k = 10 ^ (k - 1) * 10 := by
          rw [← Nat.pow_succ]; congr 1; omega
        rw [e] at hk
        exact Nat.div_lt_of_lt_mul (by rw [Nat.mul_comm]; exact hk)
      have := ih (n / 10) (k - 1) this (by omega)
      simp only [List.length_append, List.length_singleton]
      omega

theorem pyNatAux_showNat (n : Nat) :
    pyNatAux (showNat n) 0 0 false = some (n, (showNat n).length) := by
  have h := pyNatAux_digits (showNat n) [] 0 0 false (showNatF_digits _ _)
  simp only [List.append_nil] at h
  rw [h]
  have hv : (showNat n).foldl (fun a c => a * 10 + (c.toNat - 48)) 0 = n :=
    showNatF_value (n + 1) n (by omega)
  have hne : showNat n ≠ [] := showNatF_ne_nil n n
  simp [hv, hne, pyNatAux]

theorem showNat_head (n : Nat) : ∃ c cs, showNat n = c :: cs ∧ IsDigit c := by
  have hne : showNat n ≠ [] := showNatF_ne_nil n n
  cases h : showNat n with
  | nil => exact absurd h hne
  | cons c cs =>
    exact ⟨c, cs, rfl, by have := showNatF_digits (n + 1) n c (by unfold showNat at h; rw [h]; simp); exact this⟩

/-- `int(str(i)) == i` for integers below the `int()` digit limit -/
theorem pyInt_showInt (i : Int) (h : i.natAbs < 10 ^ maxStrDigits) : pyInt (showInt i) = some i := by
  have hl : (showNat i.natAbs).length ≤ maxStrDigits :=
    showNatF_length _ _ _ h (by decide)
  have hgt : ¬ (showNat i.natAbs).length > maxStrDigits := by omega
  unfold showInt
  by_cases hi : i < 0
  · simp only [hi, if_true]
    show pyInt ('-' :: showNat i.natAbs) = some i
    unfold pyInt
    have : ('-' : Char).toNat == 45 := by decide
    simp only [this, if_true]
    rw [pyNatAux_showNat]
    simp only [hgt, if_false]
    congr 1; omega
  · simp only [hi, if_false]
    obtain ⟨c, cs, hcs, hd⟩ := showNat_head i.natAbs
    have h45 : (c.toNat == 45) = false := by unfold IsDigit at hd; simp; omega
    have h43 : (c.toNat == 43) = false := by unfold IsDigit at hd; simp; omega
    have := pyNatAux_showNat i.natAbs
    rw [hcs] at this ⊢
    unfold pyInt
    simp only [h45, h43, this]
    rw [← hcs]
    simp only [hgt, if_false]
    simp
    omega

theorem isSpace_of_digit (c : Char) (h : IsDigit c) : isSpace c = false := by
  unfold IsDigit at h
  unfold isSpace
  simp
  omega

theorem noSpace_showNat (n : Nat) : NoSpace (showNat n) :=
  fun c hc => isSpace_of_digit c (showNatF_digits _ _ c hc)

theorem noSpace_showInt (i : Int) : NoSpace (showInt i) := by
  unfold showInt
  split
  · intro c hc
    simp only [List.mem_cons] at hc
    rcases hc with rfl | hc
    · decide
    · exact noSpace_showNat _ c hc
  · exact noSpace_showNat _

theorem showInt_ne_nil (i : Int) : showInt i ≠ [] := by
  unfold showInt
  split
  · simp
  · exact showNatF_ne_nil _ _

theorem showInt_ne_tokV (i : Int) : showInt i ≠ tokV := by
  unfold showInt tokV
  split
  · intro h; injection h with h1 _; revert h1; decide
  · obtain ⟨c, cs, hcs, hd⟩ := showNat_head i.natAbs
    rw [hcs]; intro h; injection h with h1 _
    subst h1; unfold IsDigit at hd; revert hd; decide

theorem showInt_ne_tok0 (i : Int) (hi : i ≠ 0) : showInt i ≠ tok0 := by
  unfold showInt tok0
  split
  · intro h; injection h with h1 _; revert h1; decide
  · have hn : i.natAbs ≠ 0 := by omega
    unfold showNat showNatF
    split
    · rename_i h10
      intro h; injection h with h1 _
      have := digitChar_toNat i.natAbs h10
      rw [h1] at this
      have h0 : ('0' : Char).toNat = 48 := by decide
      omega
    · intro h
      have hlen := congrArg List.length h
      simp only [List.length_append, List.length_singleton] at hlen
      have : showNatF i.natAbs (i.natAbs / 10) ≠ [] := by
        cases hh : i.natAbs with
        | zero => omega
        | succ m => exact showNatF_ne_nil _ _
      have : (showNatF i.natAbs (i.natAbs / 10)).length ≠ 0 := by
        intro h0; exact this (List.length_eq_zero_iff.mp h0)
      omega

/-! ### `mapE` -/

theorem mapE_ok_map {α β} (f : α → Except Err β) (g : α → β) (l : List α)
    (h : ∀ x ∈ l, f x = .ok (g x)) : mapE f l = .ok (l.map g) := by
  induction l with
  | nil => rfl
  | cons x xs ih =>
    have hx := h x (by simp)
    have hxs := ih (fun y hy => h y (by simp [hy]))
    simp [mapE, hx, hxs]

theorem mapE_pyIntE_error (l : List Str) (e : Err) (h : mapE pyIntE l = .error e) : e = .valueError := by
  induction l with
  | nil => simp [mapE] at h
  | cons t ts ih =>
    simp only [mapE] at h
    cases hp : pyIntE t with
    | error e1 =>
      rw [hp] at h
      unfold pyIntE at hp
      split at hp
      · cases hp
      · injection hp with hp; injection h with h; rw [← h, ← hp]
    | ok i =>
      rw [hp] at h
      cases hm : mapE pyIntE ts with
      | error e2 => rw [hm] at h; injection h with h; subst h; exact ih hm
      | ok ys => rw [hm] at h; cases h

theorem catchValueError_ok {α} (x : Except Err α) (a : α) : catchValueError x = .ok a ↔ x = .ok a := by
  cases x with
  | ok b => simp [catchValueError]
  | error e => cases e <;> simp [catchValueError]

/-- what is caught was a ValueError, what comes out is the RuntimeError -/
theorem catchValueError_mapE (l : List Str) (e : Err)
    (h : catchValueError (mapE pyIntE l) = .error e) : e = .runtimeError := by
  cases hm : mapE pyIntE l with
  | ok ys => rw [hm] at h; simp [catchValueError] at h
  | error e1 =>
    have := mapE_pyIntE_error l e1 hm
    subst this
    rw [hm] at h
    simp [catchValueError] at h
    exact h.symm

/-! ### `sortByVar` -/

theorem insertByVar_perm (x : Int) (l : List Int) : (insertByVar x l).Perm (x :: l) := by
  induction l with
  | nil => simp [insertByVar]
  | cons y ys ih =>
    unfold insertByVar
    split
    · exact List.Perm.refl _
    · exact (List.Perm.cons y ih).trans (List.Perm.swap x y ys)

theorem sortByVar_perm (l : List Int) : (sortByVar l).Perm l := by
  induction l with
  | nil => simp [sortByVar]
  | cons x xs ih =>
    have : sortByVar (x :: xs) = insertByVar x (sortByVar xs) := rfl
    rw [this]
    exact (insertByVar_perm x _).trans (List.Perm.cons x ih)

/-- ordered by variable -/
def ByVar (l : List Int) : Prop := l.Pairwise (fun a b => a.natAbs ≤ b.natAbs)

theorem insertByVar_sorted (x : Int) (l : List Int) (h : ByVar l) : ByVar (insertByVar x l) := by
  induction l with
  | nil => simp [insertByVar, ByVar]
  | cons y ys ih =>
    unfold ByVar at h ih ⊢
    unfold insertByVar
    split
    · rename_i hxy
      rw [List.pairwise_cons]
      refine ⟨?_, h⟩
      intro b hb
      simp only [List.mem_cons] at hb
      rcases hb with rfl | hb
      · exact hxy
      · exact Nat.le_trans hxy (List.rel_of_pairwise_cons h hb)
    · rename_i hxy
      rw [List.pairwise_cons] at h ⊢
      refine ⟨?_, ih h.2⟩
      intro b hb
      have hb' := (insertByVar_perm x ys).subset hb
      simp only [List.mem_cons] at hb'
      rcases hb' with rfl | hb'
      · omega
      · exact h.1 b hb'

theorem sortByVar_sorted (l : List Int) : ByVar (sortByVar l) := by
  induction l with
  | nil => simp [sortByVar, ByVar]
  | cons x xs ih =>
    have : sortByVar (x :: xs) = insertByVar x (sortByVar xs) := rfl
    rw [this]; exact insertByVar_sorted x _ ih

theorem sortByVar_eq_nil (l : List Int) : sortByVar l = [] ↔ l = [] := by
  constructor
  · intro h
    have := (sortByVar_perm l).length_eq
    rw [h] at this
    exact List.length_eq_zero_iff.mp this.symm
  · rintro rfl; rfl

theorem mem_sortByVar (l : List Int) (x : Int) : x ∈ sortByVar l ↔ x ∈ l :=
  (sortByVar_perm l).mem_iff

/-- a total assignment of `1..n` (one literal per variable, in any order) comes out with the
literal of variable `i` at position `i` -/
theorem sortByVar_total (l : List Int) (n : Nat)
    (h : (l.map Int.natAbs).Perm (List.range' 1 n)) :
    (sortByVar l).map Int.natAbs = List.range' 1 n := by
  have hp : ((sortByVar l).map Int.natAbs).Perm (List.range' 1 n) :=
    ((sortByVar_perm l).map _).trans h
  have hs1 : ((sortByVar l).map Int.natAbs).Pairwise (· ≤ ·) := by
    have := sortByVar_sorted l
    unfold ByVar at this
    exact List.pairwise_map.mpr this
  have hs2 : (List.range' 1 n).Pairwise (· ≤ ·) := by
    have := List.pairwise_lt_range' (s := 1) (n := n) (step := 1)
    exact this.imp (fun h => Nat.le_of_lt h)
  exact List.Perm.eq_of_pairwise (fun a b _ _ h1 h2 => Nat.le_antisymm h1 h2) hs1 hs2 hp

end Cnfgen.Solver
