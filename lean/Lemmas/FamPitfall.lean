/-
Lemmas about the Pitfall model (`CnfgenModel/Fam/Pitfall.lean`): the hard part is a renamed
copy of the Tseitin template, what the gadgets force, and unsatisfiability of the whole
formula for `ny ≥ 2`.
-/
import CnfgenModel.Fam.Pitfall
import Lemmas.Linear
import Lemmas.Constr
import Lemmas.FamPitfallTseitin
namespace Cnfgen.FamPitfall
open Cnfgen Cnfgen.Fam

/-! ### `combos` -/

theorem combos_subset {β : Type} : ∀ (l : List β) (k : Nat) (c : List β),
    c ∈ combos l k → ∀ x ∈ c, x ∈ l
  | _, 0, c, hc, x, hx => by simp [combos] at hc; subst hc; simp at hx
  | [], _ + 1, c, hc, _, _ => by simp [combos] at hc
  | a :: l, k + 1, c, hc, x, hx => by
    simp only [combos, List.mem_append, List.mem_map] at hc
    rcases hc with ⟨c', hc', rfl⟩ | hc
    · rcases List.mem_cons.1 hx with rfl | hx
      · simp
      · exact List.mem_cons_of_mem _ (combos_subset l k c' hc' x hx)
    · exact List.mem_cons_of_mem _ (combos_subset l (k + 1) c hc x hx)

theorem combos_one {β : Type} (l : List β) (i : Nat) (h : i < l.length) : [l[i]] ∈ combos l 1 := by
  induction l generalizing i with
  | nil => simp at h
  | cons a l ih =>
    simp only [combos, List.mem_append, List.mem_map]
    cases i with
    | zero => left; exact ⟨[], by simp, rfl⟩
    | succ i => right; simpa using ih i (by simpa using h)

/-- two different positions of a list, in order, form a 2-combination -/
theorem combos_pair {β : Type} (l : List β) (i1 i2 : Nat) (h12 : i1 < i2) (h2 : i2 < l.length) :
    [l[i1], l[i2]] ∈ combos l 2 := by
  induction l generalizing i1 i2 with
  | nil => simp at h2
  | cons a l ih =>
    simp only [combos, List.mem_append, List.mem_map]
    cases i2 with
    | zero => omega
    | succ i2 =>
      have h2' : i2 < l.length := by simpa using h2
      cases i1 with
      | zero => left; exact ⟨[l[i2]], combos_one l i2 h2', by simp⟩
      | succ i1 => right; simpa using ih i1 i2 (by omega) h2'

theorem combos_of_lt {β : Type} (l : List β) (k : Nat) (h : l.length < k) : combos l k = [] := by
  induction l generalizing k with
  | nil => cases k with
    | zero => omega
    | succ k => simp [combos]
  | cons a l ih =>
    cases k with
    | zero => omega
    | succ k =>
      simp only [List.length_cons] at h
      simp [combos, ih k (by omega), ih (k + 1) (by omega)]

theorem combos_length_self {β : Type} (l : List β) : (combos l l.length).length = 1 := by
  induction l with
  | nil => simp [combos]
  | cons a l ih => simp [combos, ih, combos_of_lt l (l.length + 1) (by omega)]

/-- `combinations(l, len(l) - 1)` has `len(l)` elements -/
theorem combos_length_pred {β : Type} (l : List β) (h : l ≠ []) :
    (combos l (l.length - 1)).length = l.length := by
  induction l with
  | nil => exact absurd rfl h
  | cons a l ih =>
    cases l with
    | nil => simp [combos]
    | cons b l =>
      have := ih (by simp)
      simp only [List.length_cons, Nat.add_sub_cancel] at this ⊢
      simp only [combos, List.length_append, List.length_map] at this ⊢
      have hs := combos_length_self (b :: l)
      simp only [List.length_cons, combos, List.length_append, List.length_map] at hs
      omega


/-! ### identifiers are positive -/

theorem blockId_ge (start : Nat) (r idx : List Nat) : start ≤ Vars.blockId start r idx := by
  simp [Vars.blockId]

theorem blockId_two (start k r j i : Nat) :
    Vars.blockId start [k, r] [j, i] = start + (j - 1) * r + (i - 1) := by
  simp [Vars.blockId, Vars.weights]; omega

namespace ShapeFacts
open Pitfall
theorem yStart_pos (s : Shape) : 1 ≤ s.yStart := by simp [Shape.yStart]
theorem zStart_pos (s : Shape) : 1 ≤ s.zStart := by have := yStart_pos s; simp only [Shape.zStart]; omega
theorem pStart_pos (s : Shape) : 1 ≤ s.pStart := by have := zStart_pos s; simp only [Shape.pStart]; omega
theorem aStart_pos (s : Shape) : 1 ≤ s.aStart := by have := pStart_pos s; simp only [Shape.aStart]; omega
theorem xStart_pos (s : Shape) (j : Nat) : 1 ≤ s.xStart j := by simp [Shape.xStart]
theorem yId_pos (s : Shape) (j i : Nat) : 1 ≤ s.yId j i :=
  Nat.le_trans (yStart_pos s) (blockId_ge _ _ _)
theorem zId_pos (s : Shape) (j i : Nat) : 1 ≤ s.zId j i :=
  Nat.le_trans (zStart_pos s) (blockId_ge _ _ _)
theorem pId_pos (s : Shape) (j i : Nat) : 1 ≤ s.pId j i :=
  Nat.le_trans (pStart_pos s) (blockId_ge _ _ _)
theorem aId_pos (s : Shape) (j i : Nat) : 1 ≤ s.aId j i :=
  Nat.le_trans (aStart_pos s) (blockId_ge _ _ _)

theorem ys_pos (s : Shape) (j : Nat) : ∀ y ∈ s.ys j, ∃ n : Nat, 1 ≤ n ∧ y = (n : Int) := by
  intro y hy; simp only [Shape.ys, List.mem_map] at hy
  obtain ⟨i, _, rfl⟩ := hy; exact ⟨_, yId_pos s j i, rfl⟩
theorem zs_pos (s : Shape) (j : Nat) : ∀ z ∈ s.zs j, ∃ n : Nat, 1 ≤ n ∧ z = (n : Int) := by
  intro z hz; simp only [Shape.zs, List.mem_map] at hz
  obtain ⟨i, _, rfl⟩ := hz; exact ⟨_, zId_pos s j i, rfl⟩
theorem ps_pos (s : Shape) (j : Nat) : ∀ p ∈ s.ps j, ∃ n : Nat, 1 ≤ n ∧ p = (n : Int) := by
  intro p hp; simp only [Shape.ps, List.mem_map] at hp
  obtain ⟨i, _, rfl⟩ := hp; exact ⟨_, pId_pos s j i, rfl⟩
theorem xs_pos (s : Shape) (j : Nat) : ∀ x ∈ s.xs j, ∃ n : Nat, 1 ≤ n ∧ x = (n : Int) := by
  intro x hx; simp only [Shape.xs, List.mem_map] at hx
  obtain ⟨t, _, rfl⟩ := hx; exact ⟨_, by have := xStart_pos s j; omega, rfl⟩

theorem ys_length (s : Shape) (j : Nat) : (s.ys j).length = s.ny := by simp [Shape.ys, rangeN]
theorem zs_length (s : Shape) (j : Nat) : (s.zs j).length = s.nz := by simp [Shape.zs, rangeN]
theorem ps_length (s : Shape) (j : Nat) : (s.ps j).length = s.m + s.nz := by simp [Shape.ps, rangeN]
theorem xs_length (s : Shape) (j : Nat) : (s.xs j).length = s.m := by simp [Shape.xs]
end ShapeFacts
open ShapeFacts

theorem ne_zero_of_pos {l : Int} (h : ∃ n : Nat, 1 ≤ n ∧ l = (n : Int)) : l ≠ 0 := by
  obtain ⟨n, hn, rfl⟩ := h; omega

/-! ### C. the hard part is a renamed copy of the template -/

theorem pitfall_hard_part_is_copy (s : Pitfall.Shape) (T : List Clause) (j : Nat) (con : Con) :
    con ∈ Pitfall.hardCopy s T j ↔
      ∃ cl ∈ T, con = Con.clause (cl.map (Pitfall.shiftLit ((s.xStart j : Int) - 1)) ++ s.zs j) := by
  simp only [Pitfall.hardCopy, List.mem_map]
  constructor
  · rintro ⟨cl, h, rfl⟩; exact ⟨cl, h, rfl⟩
  · rintro ⟨cl, h, rfl⟩; exact ⟨cl, h, rfl⟩

theorem shiftLit_holds (α : Assign) (off : Nat) (l : Int) :
    litHolds α (Pitfall.shiftLit off l) = litHolds (fun a => α (a + off)) l := by
  unfold Pitfall.shiftLit litHolds
  by_cases hp : 0 < l
  · have h1 : 0 < l + (off : Int) := by omega
    have h2 : (l + (off : Int)).natAbs = l.natAbs + off := by omega
    simp only [hp, h1, h2, if_true]
  · have h1 : ¬ 0 < l - (off : Int) := by omega
    have h2 : (l - (off : Int)).natAbs = l.natAbs + off := by omega
    simp only [hp, h1, h2, if_false]

/-- a shifted template clause means the template clause under the shifted assignment
(no hypothesis on the literals is needed: the equation even holds for the non-literal `0`) -/
theorem shift_holds (α : Assign) (off : Nat) (cl : Clause) :
    clauseHolds α (cl.map (Pitfall.shiftLit off)) = clauseHolds (fun a => α (a + off)) cl := by
  induction cl with
  | nil => simp [clauseHolds]
  | cons x xs ih =>
    rw [List.map_cons, clauseHolds_cons, clauseHolds_cons, shiftLit_holds α off x, ih]

/-- the offset of copy `j` is the natural number `X_j[0] − 1 = (j − 1)·m` -/
theorem xStart_off (s : Pitfall.Shape) (j : Nat) :
    ((s.xStart j : Int) - 1) = (((j - 1) * s.m : Nat) : Int) := by
  simp only [Pitfall.Shape.xStart]; omega

/-- every variable of a shifted template clause lies in the block of copy `j` -/
theorem shift_vars_in_block (s : Pitfall.Shape) (j : Nat) (cl : Clause)
    (h : ∀ l ∈ cl, l ≠ 0 ∧ l.natAbs ≤ s.m) :
    ∀ l ∈ cl.map (Pitfall.shiftLit ((s.xStart j : Int) - 1)),
      l ≠ 0 ∧ s.xStart j ≤ l.natAbs ∧ l.natAbs ≤ s.xStart j + s.m - 1 := by
  intro l hl
  simp only [List.mem_map] at hl
  obtain ⟨a, ha, rfl⟩ := hl
  have := h a ha
  rw [xStart_off]
  simp only [Pitfall.shiftLit, Pitfall.Shape.xStart]
  generalize (j - 1) * s.m = o
  by_cases hp : 0 < a
  · simp only [hp, if_true]; omega
  · simp only [hp, if_false]; omega

/-! ### D. what the gadgets force -/

theorem clause_holds_iff (α : Assign) (c : Clause) :
    (Con.clause c).holds α = clauseHolds α c := rfl

/-- tail gadget: no safety variable and easy variable of the same copy are both true -/
theorem tail_forces (s : Pitfall.Shape) (j : Nat) (α : Assign)
    (h : ∀ c ∈ Pitfall.tailGadget s j, c.holds α = true) :
    ∀ y ∈ s.ys j, ∀ z ∈ s.zs j, ¬ (litHolds α z = true ∧ litHolds α y = true) := by
  rintro y hy z hz ⟨hzt, hyt⟩
  have hmem : ∀ c ∈ [Con.clause [-(s.aId j 1 : Int), (s.aId j 3 : Int), -z],
      Con.clause [-(s.aId j 2 : Int), -(s.aId j 3 : Int), -z],
      Con.clause [(s.aId j 1 : Int), -z, -y],
      Con.clause [(s.aId j 2 : Int), -z, -y]], c.holds α = true := by
    intro c hc
    apply h c
    simp only [Pitfall.tailGadget, List.mem_flatMap]
    exact ⟨y, hy, z, hz, hc⟩
  have hy0 := ne_zero_of_pos (ys_pos s j y hy)
  have hz0 := ne_zero_of_pos (zs_pos s j z hz)
  have ha1 := aId_pos s j 1
  have ha2 := aId_pos s j 2
  have ha3 := aId_pos s j 3
  simp only [List.mem_cons, List.not_mem_nil, or_false, forall_eq_or_imp, forall_eq,
    clause_holds_iff, clauseHolds_cons, litHolds_neg α z hz0, litHolds_neg α y hy0,
    litHolds_negNat α _ ha1, litHolds_negNat α _ ha2, litHolds_negNat α _ ha3,
    litHolds_pos α _ ha1, litHolds_pos α _ ha2, litHolds_pos α _ ha3, hzt, hyt] at hmem
  obtain ⟨h1, h2, h3, h4⟩ := hmem
  simp [clauseHolds] at h1 h2 h3 h4
  simp [h3, h4] at h1 h2
  simp [h1] at h2

/-- pitfall gadget: two false easy variables (different positions) falsify every `p` -/
theorem pitfall_forces (s : Pitfall.Shape) (j : Nat) (α : Assign)
    (h : ∀ c ∈ Pitfall.pitfallGadget s j, c.holds α = true)
    (i1 i2 : Nat) (h12 : i1 < i2) (h2 : i2 < (s.ys j).length)
    (hf1 : litHolds α (s.ys j)[i1] = false) (hf2 : litHolds α (s.ys j)[i2] = false) :
    ∀ p ∈ s.ps j, litHolds α p = false := by
  intro p hp
  have hc := h (Con.clause [(s.ys j)[i1], (s.ys j)[i2], -p]) (by
    simp only [Pitfall.pitfallGadget, List.mem_flatMap]
    exact ⟨_, combos_pair (s.ys j) i1 i2 h12 h2, by simp [hp]⟩)
  have hp0 := ne_zero_of_pos (ps_pos s j p hp)
  simpa [clause_holds_iff, clauseHolds_cons, hf1, hf2, litHolds_neg α p hp0, clauseHolds] using hc

/-- pipe gadget: a false `y` and all-false `PP` falsify `XX ++ ZZ`, one position after the other -/
theorem pipe_forces (y : Int) (PP XX ZZ : List Int) (nx : Nat) (α : Assign)
    (h : ∀ c ∈ Pitfall.pipe y PP XX ZZ nx, c.holds α = true)
    (hy : litHolds α y = false) (hP : ∀ p ∈ PP, litHolds α p = false)
    (hlen : PP.length = (XX ++ ZZ).length) (hS : ∀ l ∈ XX ++ ZZ, l ≠ 0) :
    ∀ l ∈ XX ++ ZZ, litHolds α l = false := by
  generalize hSdef : XX ++ ZZ = S at *
  have hmin : min S.length (combos PP (PP.length - 1)).length = S.length := by
    by_cases hPP : PP = []
    · subst hPP; simp at hlen; simp [← hlen]
    · rw [combos_length_pred PP hPP, hlen]; simp
  have key : ∀ t, t < S.length → ∀ (ht : t < S.length), litHolds α S[t] = false := by
    intro t
    induction t using Nat.strongRecOn with
    | _ t ih =>
      intro _ ht
      have hc := h _ (by
        simp only [Pitfall.pipe, List.mem_map, List.mem_range, hSdef]
        exact ⟨t, by rw [hmin]; exact ht, rfl⟩)
      simp only [clause_holds_iff, clauseHolds, List.any_append, Bool.or_eq_true, List.any_eq_true]
        at hc
      rcases hc with ((⟨l, hl, hlt⟩ | ⟨l, hl, hlt⟩) | ⟨l, hl, hlt⟩) | ⟨l, hl, hlt⟩
      · simp only [List.mem_singleton] at hl; subst hl; rw [hy] at hlt; cases hlt
      · have hin : l ∈ PP := by
          rw [List.getD_eq_getElem?_getD] at hl
          by_cases htc : t < (combos PP (PP.length - 1)).length
          · rw [List.getElem?_eq_getElem htc] at hl
            exact combos_subset PP _ _ (List.getElem_mem htc) l hl
          · rw [List.getElem?_eq_none (by omega)] at hl; simp at hl
        rw [hP l hin] at hlt; cases hlt
      · have hin : l ∈ S.take t := by
          split at hl
          · exact (List.eraseIdx_sublist _ _).subset hl
          · exact hl
        obtain ⟨i, hi, rfl⟩ := List.mem_iff_getElem.1 hin
        rw [List.getElem_take] at hlt
        have hit : i < t := by simp at hi; omega
        rw [ih i hit (by omega) (by omega)] at hlt; cases hlt
      · simp only [List.mem_singleton] at hl; subst hl
        rw [List.getD_eq_getElem?_getD, List.getElem?_eq_getElem ht, Option.getD_some,
          litHolds_neg α _ (hS _ (List.getElem_mem ht))] at hlt
        simpa using hlt
  intro l hl
  obtain ⟨i, hi, rfl⟩ := List.mem_iff_getElem.1 hl
  exact key i hi hi


/-! ### E. the formula is unsatisfiable -/

theorem mem_copies (s : Pitfall.Shape) (j : Nat) : j ∈ Pitfall.copies s ↔ 1 ≤ j ∧ j ≤ s.k := by
  simp only [Pitfall.copies, rangeN, List.mem_map, List.mem_range]
  constructor
  · rintro ⟨a, ha, rfl⟩; omega
  · intro h; exact ⟨j - 1, by omega, by omega⟩

/-- all constraints of copy `j` are constraints of the formula -/
theorem consOf_parts (s : Pitfall.Shape) (T : List Clause) (j : Nat) (hj : j ∈ Pitfall.copies s)
    (c : Con) (hc : c ∈ Pitfall.hardCopy s T j ∨ c ∈ Pitfall.pitfallGadget s j ∨
      c ∈ Pitfall.pipeGadget s j ∨ c ∈ Pitfall.tailGadget s j) : c ∈ Pitfall.consOf s T := by
  simp only [Pitfall.consOf, List.mem_append, List.mem_flatMap]
  rcases hc with h | h | h | h
  · exact Or.inl (Or.inl (Or.inl (Or.inl ⟨j, hj, h⟩)))
  · exact Or.inl (Or.inl (Or.inl (Or.inr ⟨j, hj, h⟩)))
  · exact Or.inl (Or.inl (Or.inr ⟨j, hj, h⟩))
  · exact Or.inl (Or.inr ⟨j, hj, h⟩)

/-- The constraints of one copy `j` (hard part over an unsatisfiable template, pitfall, pipe and
tail gadgets) are already contradictory when there are at least two easy variables. -/
theorem copy_unsat (s : Pitfall.Shape) (T : List Clause) (j : Nat) (hny : 2 ≤ s.ny)
    (hT : ∀ β : Assign, ¬ (∀ cl ∈ T, clauseHolds β cl = true)) (α : Assign)
    (hh : ∀ c ∈ Pitfall.hardCopy s T j, c.holds α = true)
    (hpf : ∀ c ∈ Pitfall.pitfallGadget s j, c.holds α = true)
    (hpi : ∀ c ∈ Pitfall.pipeGadget s j, c.holds α = true)
    (hta : ∀ c ∈ Pitfall.tailGadget s j, c.holds α = true) : False := by
  -- (1) some safety variable is true
  have hz : ∃ z ∈ s.zs j, litHolds α z = true := by
    refine Classical.byContradiction (fun hno => ?_)
    have hzf : ∀ z ∈ s.zs j, litHolds α z = false := by
      intro z hz
      cases hv : litHolds α z
      · rfl
      · exact absurd ⟨z, hz, hv⟩ hno
    apply hT (fun a => α (a + (j - 1) * s.m))
    intro cl hcl
    have := hh _ ((pitfall_hard_part_is_copy s T j _).2 ⟨cl, hcl, rfl⟩)
    rw [clause_holds_iff, xStart_off] at this
    rw [← shift_holds α ((j - 1) * s.m) cl]
    simp only [clauseHolds, List.any_append, Bool.or_eq_true] at this ⊢
    rcases this with h | h
    · exact h
    · obtain ⟨z, hz, hzt⟩ := List.any_eq_true.1 h
      rw [hzf z hz] at hzt; cases hzt
  obtain ⟨z, hz, hzt⟩ := hz
  -- (2) every easy variable is false
  have hyf : ∀ y ∈ s.ys j, litHolds α y = false := by
    intro y hy
    cases hv : litHolds α y
    · rfl
    · exact absurd ⟨hzt, hv⟩ (tail_forces s j α hta y hy z hz)
  -- (3) every pitfall variable is false
  have hlen : (s.ys j).length = s.ny := ys_length s j
  have h0 : 0 < (s.ys j).length := by omega
  have h1 : 1 < (s.ys j).length := by omega
  have hpfalse := pitfall_forces s j α hpf 0 1 (by omega) h1
    (hyf _ (List.getElem_mem h0)) (hyf _ (List.getElem_mem h1))
  -- (4) the pipe of the first easy variable falsifies every safety variable
  have hall := pipe_forces (s.ys j)[0] (s.ps j) (s.xs j) (s.zs j) s.m α
    (fun c hc => hpi c (by
      simp only [Pitfall.pipeGadget, List.mem_flatMap]
      exact ⟨_, List.getElem_mem h0, hc⟩))
    (hyf _ (List.getElem_mem h0)) hpfalse
    (by simp [ps_length, xs_length, zs_length])
    (by
      intro l hl
      rcases List.mem_append.1 hl with hl | hl
      · exact ne_zero_of_pos (xs_pos s j l hl)
      · exact ne_zero_of_pos (zs_pos s j l hl))
  have := hall z (List.mem_append_right _ hz)
  rw [hzt] at this; cases this

/-- **Pitfall formulas with at least two easy variables per copy are unsatisfiable**
(any number `nz` of safety variables, any `k ≥ 1`, any well-formed non-empty graph). -/
theorem build_unsat (ny nz k : Nat) (g : SimpleG) (hg : GraphOK g) (hn : 1 ≤ g.n) (hny : 2 ≤ ny)
    (hk : 1 ≤ k) (α : Assign) : (Pitfall.build ny nz k g).holds α = false := by
  rw [Bool.eq_false_iff]
  intro hall
  simp only [Pitfall.build, Formula.holds, List.all_eq_true] at hall
  let s : Pitfall.Shape := ⟨(PitfallTseitin.template g).nvars, ny, nz, k⟩
  have hj : 1 ∈ Pitfall.copies s := (mem_copies s 1).2 ⟨Nat.le_refl 1, hk⟩
  have part := consOf_parts s (PitfallTseitin.template g).clauses 1 hj
  refine copy_unsat s (PitfallTseitin.template g).clauses 1 hny ?_ α
    (fun c hc => hall c (part c (Or.inl hc)))
    (fun c hc => hall c (part c (Or.inr (Or.inl hc))))
    (fun c hc => hall c (part c (Or.inr (Or.inr (Or.inl hc)))))
    (fun c hc => hall c (part c (Or.inr (Or.inr (Or.inr hc)))))
  intro β hβ
  have := template_unsat g hg hn β
  rw [CNF.holds, List.all_eq_true.2 hβ] at this
  cases this

theorem check_ok {v d ny nz k : Int} (h : Pitfall.check v d ny nz k = .ok ()) :
    1 ≤ v ∧ 1 ≤ d ∧ 1 ≤ ny ∧ 2 ≤ nz ∧ 1 ≤ k ∧ k % 2 = 0 ∧ d < v ∧ v * d % 2 ≠ 1 := by
  simp only [Pitfall.check, Pitfall.positiveInt, bind, Except.bind] at h
  repeat' split at h
  all_goals (try cases h)
  all_goals simp_all

/-- the checked entry point: whatever graph `g` (well-formed, non-empty) was drawn, the formula
returned for `ny ≥ 2` is unsatisfiable -/
theorem pitfall_unsat (v d ny nz k : Int) (g : SimpleG) (hg : GraphOK g) (hn : 1 ≤ g.n)
    (hny : 2 ≤ ny) (F : Formula) (h : Pitfall.pitfall v d ny nz k g = .ok F) :
    ∀ α, F.holds α = false := by
  intro α
  simp only [Pitfall.pitfall, bind, Except.bind] at h
  split at h
  · cases h
  · rename_i u hu
    cases u
    have hc := check_ok hu
    simp only [pure, Except.pure, Except.ok.injEq] at h
    subst h
    exact build_unsat _ _ _ g hg hn (by omega) (by omega) α


/-! ### G. the hypotheses are satisfiable -/

example : Pitfall.check 4 3 2 2 2 = .ok () := by decide

/-- `K₄` (the only 3-regular graph on 4 vertices) is well formed, so `pitfall 4 3 2 2 2` on it is
unsatisfiable -/
example : ∃ g F, SimpleG.ofEdges 4 [(1,2),(1,3),(1,4),(2,3),(2,4),(3,4)] = .ok g ∧
    Pitfall.pitfall 4 3 2 2 2 g = .ok F ∧ ∀ α, F.holds α = false :=
  ⟨_, _, rfl, rfl, pitfall_unsat 4 3 2 2 2 _ ((graphOKb_iff _).1 (by decide)) (by decide)
    (by decide) _ rfl⟩

/-! ### F. counting and well-formedness -/

theorem build_nvars (ny nz k : Nat) (g : SimpleG) :
    (Pitfall.build ny nz k g).nvars
      = k * g.edges.length + k * ny + k * nz + k * (g.edges.length + nz) + k * 3 := rfl

/-- legal literal over the variables `1..N` -/
def InRange (N : Nat) (l : Int) : Prop := l ≠ 0 ∧ l.natAbs ≤ N

theorem InRange.neg {N : Nat} {l : Int} (h : InRange N l) : InRange N (-l) := by
  unfold InRange at *; omega

theorem InRange.ofNat {N n : Nat} (h1 : 1 ≤ n) (h2 : n ≤ N) : InRange N (n : Int) := by
  unfold InRange; omega

theorem block_le {k r j i : Nat} (hj1 : 1 ≤ j) (hjk : j ≤ k) (hi1 : 1 ≤ i) (hir : i ≤ r) :
    (j - 1) * r + (i - 1) + 1 ≤ k * r := by
  have h1 : (j - 1) * r + r = j * r := by
    have : j = (j - 1) + 1 := by omega
    conv => rhs; rw [this, Nat.add_mul, Nat.one_mul]
  have h2 : j * r ≤ k * r := Nat.mul_le_mul_right r hjk
  omega

section ranges
open Pitfall
variable (s : Shape) (j : Nat) (hj : j ∈ copies s)
include hj

theorem xs_range : ∀ l ∈ s.xs j, InRange s.nvars l := by
  intro l hl
  simp only [Shape.xs, List.mem_map, List.mem_range] at hl
  obtain ⟨t, ht, rfl⟩ := hl
  obtain ⟨h1, h2⟩ := (mem_copies s j).1 hj
  have := block_le h1 h2 (show 1 ≤ t + 1 by omega) (show t + 1 ≤ s.m by omega)
  apply InRange.ofNat
  · simp only [Shape.xStart]; omega
  · simp only [Shape.xStart, Shape.nvars]
    simp only [Nat.add_sub_cancel] at this
    generalize (j - 1) * s.m = a at *
    generalize s.k * s.m = b at *
    omega

theorem yId_range (i : Nat) (hi1 : 1 ≤ i) (hi : i ≤ s.ny) : InRange s.nvars (s.yId j i : Int) := by
  obtain ⟨h1, h2⟩ := (mem_copies s j).1 hj
  have := block_le h1 h2 hi1 hi
  apply InRange.ofNat (yId_pos s j i)
  simp only [Shape.yId, blockId_two, Shape.yStart, Shape.nvars]
  generalize (j - 1) * s.ny = a at *
  generalize s.k * s.ny = b at *
  omega

theorem zId_range (i : Nat) (hi1 : 1 ≤ i) (hi : i ≤ s.nz) : InRange s.nvars (s.zId j i : Int) := by
  obtain ⟨h1, h2⟩ := (mem_copies s j).1 hj
  have := block_le h1 h2 hi1 hi
  apply InRange.ofNat (zId_pos s j i)
  simp only [Shape.zId, blockId_two, Shape.zStart, Shape.yStart, Shape.nvars]
  generalize (j - 1) * s.nz = a at *
  generalize s.k * s.nz = b at *
  omega

theorem pId_range (i : Nat) (hi1 : 1 ≤ i) (hi : i ≤ s.m + s.nz) :
    InRange s.nvars (s.pId j i : Int) := by
  obtain ⟨h1, h2⟩ := (mem_copies s j).1 hj
  have := block_le h1 h2 hi1 hi
  apply InRange.ofNat (pId_pos s j i)
  simp only [Shape.pId, blockId_two, Shape.pStart, Shape.zStart, Shape.yStart, Shape.nvars]
  generalize (j - 1) * (s.m + s.nz) = a at *
  generalize s.k * (s.m + s.nz) = b at *
  omega

theorem aId_range (i : Nat) (hi1 : 1 ≤ i) (hi : i ≤ 3) : InRange s.nvars (s.aId j i : Int) := by
  obtain ⟨h1, h2⟩ := (mem_copies s j).1 hj
  have := block_le h1 h2 hi1 hi
  apply InRange.ofNat (aId_pos s j i)
  simp only [Shape.aId, blockId_two, Shape.aStart, Shape.pStart, Shape.zStart, Shape.yStart,
    Shape.nvars]
  omega

theorem ys_range : ∀ l ∈ s.ys j, InRange s.nvars l := by
  intro l hl
  simp only [Shape.ys, rangeN, List.mem_map, List.mem_range] at hl
  obtain ⟨i, ⟨t, ht, rfl⟩, rfl⟩ := hl
  exact yId_range s j hj _ (by omega) (by omega)

theorem zs_range : ∀ l ∈ s.zs j, InRange s.nvars l := by
  intro l hl
  simp only [Shape.zs, rangeN, List.mem_map, List.mem_range] at hl
  obtain ⟨i, ⟨t, ht, rfl⟩, rfl⟩ := hl
  exact zId_range s j hj _ (by omega) (by omega)

theorem ps_range : ∀ l ∈ s.ps j, InRange s.nvars l := by
  intro l hl
  simp only [Shape.ps, rangeN, List.mem_map, List.mem_range] at hl
  obtain ⟨i, ⟨t, ht, rfl⟩, rfl⟩ := hl
  exact pId_range s j hj _ (by omega) (by omega)

theorem hardCopy_wf (T : List Clause) (hT : ∀ cl ∈ T, ∀ l ∈ cl, l ≠ 0 ∧ l.natAbs ≤ s.m) :
    ∀ c ∈ hardCopy s T j, ∀ l ∈ c.lits, InRange s.nvars l := by
  intro c hc l hl
  obtain ⟨cl, hcl, rfl⟩ := (pitfall_hard_part_is_copy s T j c).1 hc
  simp only [Con.lits, List.mem_append] at hl
  rcases hl with hl | hl
  · obtain ⟨h0, h1, h2⟩ := shift_vars_in_block s j cl (hT cl hcl) l hl
    refine ⟨h0, ?_⟩
    obtain ⟨hj1, hj2⟩ := (mem_copies s j).1 hj
    have hm : 1 ≤ s.m := by
      simp only [List.mem_map] at hl
      obtain ⟨a, ha, -⟩ := hl
      have := hT cl hcl a ha; omega
    have := block_le hj1 hj2 hm (Nat.le_refl s.m)
    simp only [Shape.xStart, Shape.nvars] at h2 ⊢
    generalize (j - 1) * s.m = a at *
    generalize s.k * s.m = b at *
    omega
  · exact zs_range s j hj l hl

theorem pitfallGadget_wf : ∀ c ∈ pitfallGadget s j, ∀ l ∈ c.lits, InRange s.nvars l := by
  intro c hc l hl
  simp only [pitfallGadget, List.mem_flatMap] at hc
  obtain ⟨pr, hpr, hc⟩ := hc
  split at hc
  · rename_i y1 y2
    simp only [List.mem_map] at hc
    obtain ⟨p, hp, rfl⟩ := hc
    have hsub := combos_subset _ _ _ hpr
    simp only [Con.lits, List.mem_cons, List.not_mem_nil, or_false] at hl
    rcases hl with rfl | rfl | rfl
    · exact ys_range s j hj _ (hsub _ (by simp))
    · exact ys_range s j hj _ (hsub _ (by simp))
    · exact (ps_range s j hj _ hp).neg
  · simp at hc

theorem tailGadget_wf : ∀ c ∈ tailGadget s j, ∀ l ∈ c.lits, InRange s.nvars l := by
  intro c hc l hl
  simp only [tailGadget, List.mem_flatMap] at hc
  obtain ⟨y, hy, z, hz, hc⟩ := hc
  have hY := ys_range s j hj y hy
  have hZ := zs_range s j hj z hz
  have h1 := aId_range s j hj 1 (by omega) (by omega)
  have h2 := aId_range s j hj 2 (by omega) (by omega)
  have h3 := aId_range s j hj 3 (by omega) (by omega)
  simp only [List.mem_cons, List.not_mem_nil, or_false] at hc
  rcases hc with rfl | rfl | rfl | rfl <;>
    simp only [Con.lits, List.mem_cons, List.not_mem_nil, or_false] at hl <;>
    rcases hl with rfl | rfl | rfl <;>
    first | assumption | exact InRange.neg ‹_›

end ranges

/-- the literals of a pipe clause -/
theorem pipe_lits (y : Int) (PP XX ZZ : List Int) (nx : Nat) :
    ∀ c ∈ Pitfall.pipe y PP XX ZZ nx, ∀ l ∈ c.lits,
      l = y ∨ l ∈ PP ∨ l ∈ XX ++ ZZ ∨ ∃ x ∈ XX ++ ZZ, l = -x := by
  intro c hc l hl
  simp only [Pitfall.pipe, List.mem_map, List.mem_range] at hc
  obtain ⟨t, ht, rfl⟩ := hc
  generalize XX ++ ZZ = S at *
  simp only [Con.lits, List.mem_append, List.mem_singleton] at hl
  rcases hl with ((hl | hl) | hl) | hl
  · exact Or.inl hl
  · right; left
    rw [List.getD_eq_getElem?_getD] at hl
    by_cases htc : t < (combos PP (PP.length - 1)).length
    · rw [List.getElem?_eq_getElem htc] at hl
      exact combos_subset PP _ _ (List.getElem_mem htc) l hl
    · rw [List.getElem?_eq_none (by omega)] at hl; simp at hl
  · right; right; left
    have hin : l ∈ S.take t := by
      split at hl
      · exact (List.eraseIdx_sublist _ _).subset hl
      · exact hl
    exact List.mem_of_mem_take hin
  · right; right; right
    have htS : t < S.length := by omega
    rw [List.getD_eq_getElem?_getD, List.getElem?_eq_getElem htS, Option.getD_some] at hl
    exact ⟨_, List.getElem_mem htS, hl⟩

theorem pipeGadget_wf (s : Pitfall.Shape) (j : Nat) (hj : j ∈ Pitfall.copies s) :
    ∀ c ∈ Pitfall.pipeGadget s j, ∀ l ∈ c.lits, InRange s.nvars l := by
  intro c hc l hl
  simp only [Pitfall.pipeGadget, List.mem_flatMap] at hc
  obtain ⟨y, hy, hc⟩ := hc
  have hS : ∀ x ∈ s.xs j ++ s.zs j, InRange s.nvars x := by
    intro x hx
    rcases List.mem_append.1 hx with hx | hx
    · exact xs_range s j hj x hx
    · exact zs_range s j hj x hx
  rcases pipe_lits _ _ _ _ _ c hc l hl with rfl | h | h | ⟨x, hx, rfl⟩
  · exact ys_range s j hj _ hy
  · exact ps_range s j hj _ h
  · exact hS _ h
  · exact (hS _ hx).neg

theorem gamma_wf (s : Pitfall.Shape) :
    ∀ c ∈ Pitfall.gamma s, ∀ l ∈ c.lits, InRange s.nvars l := by
  intro c hc l hl
  simp only [Pitfall.gamma, List.mem_map, List.mem_range] at hc
  obtain ⟨r, hr, rfl⟩ := hc
  simp only [Con.lits, List.mem_flatMap, List.mem_cons, List.not_mem_nil, or_false] at hl
  obtain ⟨j, hj, rfl | rfl⟩ := hl
  · exact (yId_range s j hj _ (by omega) (by omega)).neg
  · exact (yId_range s j hj _ (by omega) (by omega)).neg

/-- the constraints are well formed as soon as the template is -/
theorem consOf_wf (s : Pitfall.Shape) (T : List Clause)
    (hT : ∀ cl ∈ T, ∀ l ∈ cl, l ≠ 0 ∧ l.natAbs ≤ s.m) :
    ∀ c ∈ Pitfall.consOf s T, ∀ l ∈ c.lits, l ≠ 0 ∧ l.natAbs ≤ s.nvars := by
  intro c hc
  simp only [Pitfall.consOf, List.mem_append, List.mem_flatMap] at hc
  rcases hc with (((⟨j, hj, h⟩ | ⟨j, hj, h⟩) | ⟨j, hj, h⟩) | ⟨j, hj, h⟩) | h
  · exact hardCopy_wf s j hj T hT c h
  · exact pitfallGadget_wf s j hj c h
  · exact pipeGadget_wf s j hj c h
  · exact tailGadget_wf s j hj c h
  · exact gamma_wf s c h


/-- the built formula only uses legal literals over its `nvars` variables (for every `ny`, `nz`, `k`) -/
theorem build_wf (ny nz k : Nat) (g : SimpleG) (hg : GraphOK g) : (Pitfall.build ny nz k g).WF := by
  intro c hc l hl
  exact consOf_wf ⟨(PitfallTseitin.template g).nvars, ny, nz, k⟩ (PitfallTseitin.template g).clauses
    (template_wf g hg) c hc l hl

/-- unsatisfiability transfers to the clauses written by the `CNF` class … -/
theorem build_toCNF_unsat (ny nz k : Nat) (g : SimpleG) (hg : GraphOK g) (hn : 1 ≤ g.n)
    (hny : 2 ≤ ny) (hk : 1 ≤ k) (α : Assign) : (Pitfall.build ny nz k g).toCNF.holds α = false := by
  rw [Formula.toCNF_holds α _ (build_wf ny nz k g hg)]
  exact build_unsat ny nz k g hg hn hny hk α

/-- … and to the constraints written by the `OPB` class -/
theorem build_toOPB_unsat (ny nz k : Nat) (g : SimpleG) (hg : GraphOK g) (hn : 1 ≤ g.n)
    (hny : 2 ≤ ny) (hk : 1 ≤ k) (α : Assign) : (Pitfall.build ny nz k g).toOPB.holds α = false := by
  rw [Formula.toOPB_holds α _ (build_wf ny nz k g hg)]
  exact build_unsat ny nz k g hg hn hny hk α

/-- for graphs produced by the model's own constructor no well-formedness hypothesis is left -/
theorem build_unsat_ofEdges (n : Nat) (es : List (Nat × Nat)) (g : SimpleG)
    (h : SimpleG.ofEdges n es = .ok g) (hn : 1 ≤ n) (ny nz k : Nat) (hny : 2 ≤ ny) (hk : 1 ≤ k)
    (α : Assign) : (Pitfall.build ny nz k g).holds α = false := by
  obtain ⟨hg, hgn⟩ := ofEdges_ok n es g h
  exact build_unsat ny nz k g hg (by omega) hny hk α

/-- `ny ≥ 2` cannot be dropped (and the model has no trivially false constraint): on the 4-cycle
with one easy variable per copy, setting exactly the `z` and `p` variables (identifiers
`11..26`) satisfies every constraint. -/
theorem ny1_sat_example : ∃ g, SimpleG.ofEdges 4 [(1,2),(2,3),(3,4),(1,4)] = .ok g ∧ GraphOK g ∧
    (Pitfall.build 1 2 2 g).holds (fun n => decide (11 ≤ n ∧ n < 27)) = true :=
  ⟨_, rfl, (graphOKb_iff _).1 (by decide), by decide⟩

end Cnfgen.FamPitfall
