/-
Lemmas for the translated `GraphOrderingPrinciple`: the two word groups (`new_combinations(n, 2)`, `new_permutations(n, 2)`)
seen through the closed forms of the model (`combId`, `permId`: Lemmas/GenOrderIter.lean), the clause built by the inner
loop of the smart encoding, loops that skip some iterations.
-/
import Lemmas.GenFamWord
import Lemmas.GenOrderIter
set_option linter.unusedSimpArgs false
namespace Cnfgen.GenFam
open Cnfgen Cnfgen.Vars Cnfgen.PyGen Cnfgen.GenVars Cnfgen.PyF Cnfgen.C11 Cnfgen.Fam Cnfgen.Fam.Ordering
open Cnfgen.GenOrderIter

theorem wordEnum_permutations (n k : Nat) : wordEnum "permutations" n k = some (permsSeqs n k) := by
  have h1 : ¬ ("permutations" = "combinations") := by decide
  have h2 : ¬ ("permutations" = "combinations_with_replacement") := by decide
  simp only [wordEnum, h1, h2, if_false, if_true]

/-- `new_permutations(n, k, label=…)` with a label that formats -/
theorem new_permutations_eq (s : FState) (nv : Nat) (hs : s.numvar = nv) (n k : Nat) :
    VariablesManager.new_permutations s (n : Int) (some (k : Int)) (Except.ok ()) =
      Except.ok (wordSelf nv n k "permutations" (permsSeqs n k),
        { s with numvar := ((nv + (permsSeqs n k).length : Nat) : Int) }) := by
  unfold VariablesManager.new_permutations
  simp only []
  rw [hs, gen_word_init_eq]
  have hneg : ¬ ((n : Int) < 0 ∨ (k : Int) < 0) := by omega
  simp only [Py.tryExcept, hneg, if_false, wordEnum_permutations, Int.toNat_natCast, Py.ok_bind]
  rw [add_variable_group_word_eq s nv _ _ _ _ hs, Py.ok_bind]

/-- `X(u, v)`, `u < v`, of the smart encoding -/
theorem comb_call (n u v : Nat) (h : 1 ≤ u ∧ u < v ∧ v ≤ n) :
    WordOfIndicesVariables.call (wordSelf 0 (n : Int) ((2 : Nat) : Int) "combinations" (combosSeqs n 2))
        [some (u : Int), some (v : Int)] = Except.ok (Sum.inl (Xs n u v)) := by
  have := word_call_word 0 (n : Int) ((2 : Nat) : Int) "combinations" (FamRamsey.pairs_nodup n) [u, v] (by simp)
    (FamRamsey.mem_pairs.2 h)
  simp only [natPat, List.map_cons, List.map_nil] at this
  rw [this, Nat.zero_add, combId_eq_idxOf h.1 h.2.1 h.2.2]
  rfl

/-- `X(u, v)`, `u ≠ v`, of the other encodings -/
theorem perm_call (n u v : Nat) (hu : 1 ≤ u ∧ u ≤ n) (hv : 1 ≤ v ∧ v ≤ n) (hne : u ≠ v) :
    WordOfIndicesVariables.call (wordSelf 0 (n : Int) ((2 : Nat) : Int) "permutations" (permsSeqs n 2))
        [some (u : Int), some (v : Int)] = Except.ok (Sum.inl (X n u v)) := by
  have := word_call_word 0 (n : Int) ((2 : Nat) : Int) "permutations" (permsSeqs_nodup n 2) [u, v] (by simp)
    (mem_permsSeqs_two.2 ⟨hu, hv, hne⟩)
  simp only [natPat, List.map_cons, List.map_nil] at this
  rw [this, Nat.zero_add, permId_eq_idxOf hu hv hne]
  rfl

/-- the clause of the smart encoding: `X(u, v)` for the smaller neighbours, `-X(v, u)` for the larger ones -/
theorem smart_clause_loop (n v : Nat) (hv : 1 ≤ v ∧ v ≤ n) (L : List Nat) (hL : ∀ u ∈ L, 1 ≤ u ∧ u ≤ n ∧ u ≠ v)
    (body : List (Sum Int (List Int)) → Int → Except Err (List (Sum Int (List Int))))
    (hbody : ∀ clause u, body clause u =
        ((if u < (v : Int) then
          (WordOfIndicesVariables.call (wordSelf 0 (n : Int) ((2 : Nat) : Int) "combinations" (combosSeqs n 2))
            [some u, some (v : Int)]) >>= fun r =>
          Except.ok (clause ++ [r])
        else
          (WordOfIndicesVariables.call (wordSelf 0 (n : Int) ((2 : Nat) : Int) "combinations" (combosSeqs n 2))
            [some (v : Int), some u]) >>= fun r =>
          ((match r with | .inl v => Except.ok v | .inr _ => Except.error Err.typeError)) >>= fun w =>
          Except.ok (clause ++ [(Sum.inl (-w))])) >>= fun clause =>
        Except.ok clause))
    (acc : List (Sum Int (List Int))) :
    List.foldlM body acc (ints L) =
      Except.ok (acc ++ L.map (fun u => Sum.inl (below n u v))) := by
  rw [Py.foldlM_ext body _ hbody]
  show List.foldlM (fun (clause : List (Sum Int (List Int))) (u : Int) =>
        (if u < (v : Int) then
          (WordOfIndicesVariables.call (wordSelf 0 (n : Int) ((2 : Nat) : Int) "combinations" (combosSeqs n 2))
            [some u, some (v : Int)]) >>= fun r =>
          Except.ok (clause ++ [r])
        else
          (WordOfIndicesVariables.call (wordSelf 0 (n : Int) ((2 : Nat) : Int) "combinations" (combosSeqs n 2))
            [some (v : Int), some u]) >>= fun r =>
          ((match r with | .inl v => Except.ok v | .inr _ => Except.error Err.typeError)) >>= fun w =>
          Except.ok (clause ++ [(Sum.inl (-w))])) >>= fun clause =>
        Except.ok clause) acc (ints L) =
      Except.ok (acc ++ L.map (fun u => Sum.inl (below n u v)))
  induction L generalizing acc with
  | nil => simp [ints]
  | cons u L ih =>
    have hu := hL u (by simp)
    simp only [ints, List.map_cons, List.foldlM_cons, Int.ofNat_eq_natCast]
    by_cases hlt : u < v
    · have hlt' : (u : Int) < (v : Int) := by omega
      rw [if_pos hlt', comb_call n u v ⟨hu.1, hlt, hv.2⟩]
      simp only [Py.ok_bind]
      have := ih (fun w hw => hL w (by simp [hw])) (acc ++ [Sum.inl (Xs n u v)])
      simp only [ints, Int.ofNat_eq_natCast] at this
      rw [this]
      simp [below, hlt]
    · have hlt' : ¬ ((u : Int) < (v : Int)) := by omega
      have hgt : v < u := by omega
      rw [if_neg hlt', comb_call n v u ⟨hv.1, hgt, hu.2.1⟩]
      simp only [Py.ok_bind]
      have := ih (fun w hw => hL w (by simp [hw])) (acc ++ [Sum.inl (-Xs n v u)])
      simp only [ints, Int.ofNat_eq_natCast] at this
      rw [this]
      simp [below, hlt]

theorem flatMap_ite_nil {α β : Type} (l : List α) (p : α → Bool) (f : α → β) :
    l.flatMap (fun a => if p a = true then [] else [f a]) = (l.filter (fun a => !p a)).map f := by
  induction l with
  | nil => rfl
  | cons a l ih => cases h : p a <;> simp [h, ih]

theorem flatMap_ite_keep {α β : Type} (l : List α) (p : α → Bool) (f : α → β) :
    l.flatMap (fun a => if p a = true then [f a] else []) = (l.filter p).map f := by
  induction l with
  | nil => rfl
  | cons a l ih => cases h : p a <;> simp [h, ih]

theorem flatMap_single {α β : Type} (l : List α) (f : α → β) : l.flatMap (fun a => [f a]) = l.map f := by
  induction l with
  | nil => rfl
  | cons a l ih => simp [ih]

/-- `combinations(V, 2)` as pairs is the model's `comb2` -/
theorem pairs_verts (n : Nat) : pairs (rangeN 1 (n + 1)) = comb2 n := by
  have h := combosSeqs_two_eq n
  rw [combosSeqs, ← pairs_eq_combos] at h
  exact List.map_injective_iff.2 (fun a b hab => by
    cases a; cases b; simp only [List.cons.injEq, and_true] at hab; simp [hab.1, hab.2]) h

end Cnfgen.GenFam
