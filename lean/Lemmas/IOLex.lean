/-
Lemmas about the lexer on the comment lines the writers emit: a chunk `<a> <body>\n` whose body
contains no line break lexes to exactly one row, and that row starts with the word `<a>`.
-/
import CnfgenModel.IO.Lex
import CnfgenModel.IO.Dimacs
import CnfgenModel.IO.Opb
namespace Cnfgen.IO

/-- no character at which a text reader would start a new physical line -/
def NoNL (s : Str) : Prop := ∀ c ∈ s, c ≠ '\n' ∧ c ≠ '\r'

theorem noNL_of_noBreak {s : Str} (h : ∀ c ∈ s, isLineBreak c = false) : NoNL s := by
  intro c hc
  have := h c hc
  constructor <;> (intro e; subst e; revert this; decide)

theorem NoNL.append {a b : Str} (ha : NoNL a) (hb : NoNL b) : NoNL (a ++ b) := by
  intro c hc; rcases List.mem_append.1 hc with h | h
  · exact ha c h
  · exact hb c h

theorem splitLB_noBreak (s : Str) : ∀ (b : Bool), ∀ p ∈ splitLB b s, ∀ c ∈ p, isLineBreak c = false := by
  induction s with
  | nil => intro b p hp c hc; simp [splitLB] at hp; subst hp; simp at hc
  | cons x xs ih =>
    intro b p hp c hc
    unfold splitLB at hp
    split at hp
    · exact ih _ p hp c hc
    · split at hp
      · rcases List.mem_cons.1 hp with h | h
        · subst h; simp at hc
        · exact ih _ p h c hc
      · rename_i hx
        split at hp
        · rename_i l ls heq
          rcases List.mem_cons.1 hp with h | h
          · subst h
            rcases List.mem_cons.1 hc with h' | h'
            · subst h'; simpa using hx
            · exact ih false l (by rw [heq]; simp) c h'
          · exact ih false p (by rw [heq]; simp [h]) c hc
        · simp at hp; subst hp
          simp at hc; subst hc; simpa using hx

theorem splitlines_noBreak (s : Str) : ∀ p ∈ splitlines s, ∀ c ∈ p, isLineBreak c = false := by
  intro p hp
  unfold splitlines at hp
  simp only at hp
  split at hp
  · exact splitLB_noBreak s false p ((List.dropLast_sublist _).subset hp)
  · exact splitLB_noBreak s false p hp

theorem mem_join {sep : Str} : ∀ {l : List Str} {c : Char}, c ∈ join sep l → c ∈ sep ∨ ∃ p ∈ l, c ∈ p
  | [], c, h => by simp [join] at h
  | [x], c, h => by simp [join] at h; exact Or.inr ⟨x, by simp, h⟩
  | x :: y :: rest, c, h => by
    simp only [join, List.mem_append] at h
    rcases h with (h | h) | h
    · exact Or.inr ⟨x, by simp, h⟩
    · exact Or.inl h
    · rcases mem_join h with h' | ⟨p, hp, hc⟩
      · exact Or.inl h'
      · exact Or.inr ⟨p, List.mem_cons_of_mem _ hp, hc⟩

theorem flatLabel_noNL (label : Str) : NoNL (flatLabel label) := by
  apply noNL_of_noBreak
  intro c hc
  rcases mem_join hc with h | ⟨p, hp, hcp⟩
  · simp at h; subst h; decide
  · exact splitlines_noBreak label p hp c hcp

theorem digitChar_noNL (d : Nat) : digitChar d ≠ '\n' ∧ digitChar d ≠ '\r' := by
  unfold digitChar; split <;> decide

theorem natStrAux_noNL : ∀ (f n : Nat) (acc : Str), NoNL acc → NoNL (natStrAux f n acc)
  | 0, _, acc, h => by simpa [natStrAux] using h
  | f + 1, n, acc, h => by
    unfold natStrAux
    split
    · intro c hc; rcases List.mem_cons.1 hc with e | e
      · subst e; exact digitChar_noNL n
      · exact h c e
    · apply natStrAux_noNL
      intro c hc; rcases List.mem_cons.1 hc with e | e
      · subst e; exact digitChar_noNL _
      · exact h c e

theorem natStr_noNL (n : Nat) : NoNL (natStr n) := natStrAux_noNL _ _ [] (by intro c hc; simp at hc)

/-! physical lines -/

theorem universalNLAux_id : ∀ (s : Str), (∀ c ∈ s, c ≠ '\r') → universalNLAux false s = s
  | [], _ => by simp [universalNLAux]
  | c :: cs, h => by
    have hc : c ≠ '\r' := h c (by simp)
    have ih := universalNLAux_id cs (fun d hd => h d (by simp [hd]))
    unfold universalNLAux
    simp only [hc, ih, if_false]
    split <;> simp_all

theorem splitNL_line : ∀ (s : Str), (∀ c ∈ s, c ≠ '\n') → splitNL (s ++ ['\n']) = [s, []]
  | [], _ => by simp [splitNL]
  | c :: cs, h => by
    have hc : c ≠ '\n' := h c (by simp)
    have ih := splitNL_line cs (fun d hd => h d (by simp [hd]))
    simp [splitNL, hc, ih]

theorem physLines_line (u : Bool) (s : Str) (h : NoNL s) : physLines u (s ++ ['\n']) = [s] := by
  have h1 : ∀ c ∈ s ++ ['\n'], c ≠ '\r' := by
    intro c hc; rcases List.mem_append.1 hc with e | e
    · exact (h c e).2
    · simp at e; subst e; decide
  have h2 : readlines (s ++ ['\n']) = [s] := by
    unfold readlines
    rw [splitNL_line s (fun c hc => (h c hc).1)]
    simp
  unfold physLines universalNL
  cases u
  · simpa using h2
  · simp only [if_true]; rw [universalNLAux_id _ h1]; exact h2

/-- a chunk `<a><blank><body>\n` is one physical line; its first token is `<a>` -/
theorem lex_prefixed (u : Bool) (a : Char) (body : Str) (ha : isSpace a = false)
    (ha' : a ≠ '\n' ∧ a ≠ '\r') (hb : NoNL body) :
    lex u (a :: ' ' :: body ++ ['\n']) = [classify [a] :: lexLine body] := by
  have hn : NoNL (a :: ' ' :: body) := by
    intro c hc
    rcases List.mem_cons.1 hc with e | e
    · subst e; exact ha'
    · rcases List.mem_cons.1 e with e | e
      · subst e; decide
      · exact hb c e
  have : a :: ' ' :: body ++ ['\n'] = (a :: ' ' :: body) ++ ['\n'] := by simp
  unfold lex
  rw [this, physLines_line u _ hn]
  have hs : isSpace ' ' = true := by decide
  simp [lexLine, splitWS, ha, hs]

end Cnfgen.IO
