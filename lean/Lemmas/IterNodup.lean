/-
Duplicate-freeness and membership characterisations of the Python-order
iterators of `CnfgenModel.Core.Iter`.
-/
import CnfgenModel.Core.Iter
import Mathlib.Data.List.Nodup
import Mathlib.Data.List.Forall2
import Mathlib.Data.List.Perm.Basic

namespace Cnfgen

open List

/-! ### `rangeN` -/

theorem rangeN_eq_range' (a b : Nat) : rangeN a b = List.range' a (b - a) := by
  unfold rangeN
  rw [List.range'_eq_map_range]
  apply List.map_congr_left
  intro x _
  exact Nat.add_comm x a

theorem mem_rangeN {a b x : Nat} : x ∈ rangeN a b ↔ a ≤ x ∧ x < b := by
  rw [rangeN_eq_range', List.mem_range'_1]
  omega

theorem rangeN_sorted (a b : Nat) : (rangeN a b).Pairwise (· < ·) := by
  rw [rangeN_eq_range']
  exact List.pairwise_lt_range' 1

theorem rangeN_nodup (a b : Nat) : (rangeN a b).Nodup := by
  rw [List.nodup_iff_pairwise_ne]
  exact (rangeN_sorted a b).imp (fun h => Nat.ne_of_lt h)

theorem length_rangeN (a b : Nat) : (rangeN a b).length = b - a := by
  simp [rangeN]

/-! ### generic helper -/

/-- A `flatMap` whose blocks are tagged by pairwise distinct heads is duplicate-free. -/
theorem nodup_flatMap_cons {α β : Type} {l : List β} (g : β → α) (L : β → List (List α))
    (hl : (l.map g).Nodup) (hL : ∀ b ∈ l, (L b).Nodup) :
    (l.flatMap (fun b => (L b).map (g b :: ·))).Nodup := by
  rw [List.nodup_flatMap]
  refine ⟨?_, ?_⟩
  · intro b hb
    exact (hL b hb).map (fun u v h => (List.cons.inj h).2)
  · rw [List.nodup_iff_pairwise_ne, List.pairwise_map] at hl
    refine hl.imp ?_
    intro a b hab
    show List.Disjoint _ _
    rw [List.disjoint_left]
    intro w hwa hwb
    rw [List.mem_map] at hwa hwb
    obtain ⟨u, _, rfl⟩ := hwa
    obtain ⟨v, _, hv⟩ := hwb
    exact hab (List.cons.inj hv).1.symm

/-! ### `combos` -/

theorem mem_combos {α : Type} {l : List α} {k : Nat} {c : List α} :
    c ∈ combos l k ↔ c.Sublist l ∧ c.length = k := by
  induction l generalizing k c with
  | nil =>
    cases k with
    | zero => simp [combos]
    | succ k =>
      simp only [combos, List.not_mem_nil, List.sublist_nil, false_iff, not_and]
      rintro rfl
      simp
  | cons x xs ih =>
    cases k with
    | zero =>
      simp only [combos, List.mem_singleton, List.length_eq_zero_iff]
      constructor
      · rintro rfl; simp
      · exact fun h => h.2
    | succ k =>
      simp only [combos, List.mem_append, List.mem_map, ih, List.sublist_cons_iff]
      constructor
      · rintro (⟨c', ⟨hs, hlen⟩, rfl⟩ | ⟨hs, hlen⟩)
        · exact ⟨Or.inr ⟨c', rfl, hs⟩, by simp [hlen]⟩
        · exact ⟨Or.inl hs, hlen⟩
      · rintro ⟨hs | ⟨r, rfl, hs⟩, hlen⟩
        · exact Or.inr ⟨hs, hlen⟩
        · exact Or.inl ⟨r, ⟨hs, by simpa using hlen⟩, rfl⟩

theorem length_of_mem_combos {α : Type} {l : List α} {k : Nat} {c : List α}
    (h : c ∈ combos l k) : c.length = k := (mem_combos.1 h).2

theorem sublist_of_mem_combos {α : Type} {l : List α} {k : Nat} {c : List α}
    (h : c ∈ combos l k) : c.Sublist l := (mem_combos.1 h).1

theorem combos_nodup {α : Type} {l : List α} (hl : l.Nodup) (k : Nat) : (combos l k).Nodup := by
  induction l generalizing k with
  | nil => cases k <;> simp [combos]
  | cons x xs ih =>
    cases k with
    | zero => simp [combos]
    | succ k =>
      rw [List.nodup_cons] at hl
      simp only [combos]
      rw [List.nodup_append]
      refine ⟨(ih hl.2 k).map (fun u v h => (List.cons.inj h).2), ih hl.2 (k + 1), ?_⟩
      intro a ha b hb hab
      rw [List.mem_map] at ha
      obtain ⟨a', _, rfl⟩ := ha
      subst hab
      exact hl.1 ((sublist_of_mem_combos hb).subset (List.mem_cons_self))

/-! ### `productRep` -/

theorem mem_productRep {α : Type} {l : List α} {k : Nat} {w : List α} :
    w ∈ productRep l k ↔ w.length = k ∧ ∀ x ∈ w, x ∈ l := by
  induction k generalizing w with
  | zero =>
    simp only [productRep, List.mem_singleton, List.length_eq_zero_iff]
    constructor
    · rintro rfl; simp
    · exact fun h => h.1
  | succ k ih =>
    simp only [productRep, List.mem_flatMap, List.mem_map, ih]
    constructor
    · rintro ⟨x, hx, w', ⟨hlen, hall⟩, rfl⟩
      refine ⟨by simp [hlen], ?_⟩
      intro y hy
      rcases List.mem_cons.1 hy with rfl | hy
      · exact hx
      · exact hall y hy
    · rintro ⟨hlen, hall⟩
      cases w with
      | nil => simp at hlen
      | cons y w' =>
        exact ⟨y, hall y List.mem_cons_self, w',
          ⟨by simpa using hlen, fun z hz => hall z (List.mem_cons_of_mem _ hz)⟩, rfl⟩

theorem length_of_mem_productRep {α : Type} {l : List α} {k : Nat} {w : List α}
    (h : w ∈ productRep l k) : w.length = k := (mem_productRep.1 h).1

theorem productRep_nodup {α : Type} {l : List α} (hl : l.Nodup) (k : Nat) :
    (productRep l k).Nodup := by
  induction k with
  | zero => simp [productRep]
  | succ k ih =>
    simp only [productRep]
    exact nodup_flatMap_cons (fun x => x) (fun _ => productRep l k) (by simpa using hl)
      (fun _ _ => ih)

/-! ### `product` -/

theorem mem_product {α : Type} {ls : List (List α)} {w : List α} :
    w ∈ product ls ↔ List.Forall₂ (fun x l => x ∈ l) w ls := by
  induction ls generalizing w with
  | nil => simp [product]
  | cons l ls ih =>
    simp only [product, List.mem_flatMap, List.mem_map, ih, List.forall₂_cons_right_iff]
    constructor
    · rintro ⟨x, hx, w', hw', rfl⟩
      exact ⟨x, w', hx, hw', rfl⟩
    · rintro ⟨x, w', hx, hw', rfl⟩
      exact ⟨x, hx, w', hw', rfl⟩

theorem length_of_mem_product {α : Type} {ls : List (List α)} {w : List α}
    (h : w ∈ product ls) : w.length = ls.length := (mem_product.1 h).length_eq

theorem product_nodup {α : Type} {ls : List (List α)} (h : ∀ l ∈ ls, l.Nodup) :
    (product ls).Nodup := by
  induction ls with
  | nil => simp [product]
  | cons l ls ih =>
    simp only [product]
    have hl : l.Nodup := h l List.mem_cons_self
    have hls : (product ls).Nodup := ih (fun l' hl' => h l' (List.mem_cons_of_mem _ hl'))
    exact nodup_flatMap_cons (fun x => x) (fun _ => product ls) (by simpa using hl)
      (fun _ _ => hls)

/-! ### `picks` -/

theorem picks_map_fst {α : Type} (l : List α) : (picks l).map Prod.fst = l := by
  induction l with
  | nil => simp [picks]
  | cons x xs ih =>
    simp only [picks, List.map_cons, List.map_map]
    congr 1

theorem picks_perm {α : Type} {l : List α} {p : α × List α} (h : p ∈ picks l) :
    (p.1 :: p.2).Perm l := by
  induction l generalizing p with
  | nil => simp [picks] at h
  | cons x xs ih =>
    simp only [picks, List.mem_cons, List.mem_map] at h
    rcases h with rfl | ⟨q, hq, rfl⟩
    · exact List.Perm.refl _
    · exact (List.Perm.swap x q.1 q.2).trans ((ih hq).cons x)

theorem length_picks {α : Type} (l : List α) : (picks l).length = l.length := by
  rw [← List.length_map (f := Prod.fst), picks_map_fst]

theorem fst_mem_of_mem_picks {α : Type} {l : List α} {p : α × List α} (h : p ∈ picks l) :
    p.1 ∈ l := (picks_perm h).subset List.mem_cons_self

theorem mem_iff_of_mem_picks {α : Type} {l : List α} {p : α × List α} (h : p ∈ picks l)
    (y : α) : y ∈ l ↔ y = p.1 ∨ y ∈ p.2 := by
  rw [← (picks_perm h).mem_iff, List.mem_cons]

theorem nodup_of_mem_picks {α : Type} {l : List α} (hl : l.Nodup) {p : α × List α}
    (h : p ∈ picks l) : p.1 ∉ p.2 ∧ p.2.Nodup := by
  have := (picks_perm h).nodup_iff.2 hl
  exact List.nodup_cons.1 this

theorem exists_mem_picks_of_mem {α : Type} {l : List α} {x : α} (hx : x ∈ l) :
    ∃ p ∈ picks l, p.1 = x := by
  rw [← picks_map_fst l, List.mem_map] at hx
  exact hx

/-! ### `permsK` -/

theorem permsK_zero {α : Type} (l : List α) : permsK 0 l = [[]] := by
  simp [permsK]

theorem permsK_succ {α : Type} (k : Nat) (l : List α) :
    permsK (k + 1) l = (picks l).flatMap (fun p => (permsK k p.2).map (p.1 :: ·)) := by
  rw [permsK]
  rw [List.flatMap_subtype (g := fun p => (permsK k p.2).map (p.1 :: ·)) (fun _ _ => rfl)]
  simp

theorem mem_permsK {α : Type} [DecidableEq α] {l : List α} (hl : l.Nodup) {k : Nat}
    {w : List α} : w ∈ permsK k l ↔ w.length = k ∧ w.Nodup ∧ ∀ x ∈ w, x ∈ l := by
  induction k generalizing l w with
  | zero =>
    simp only [permsK_zero, List.mem_singleton, List.length_eq_zero_iff]
    constructor
    · rintro rfl; simp
    · exact fun h => h.1
  | succ k ih =>
    simp only [permsK_succ, List.mem_flatMap, List.mem_map]
    constructor
    · rintro ⟨p, hp, w', hw', rfl⟩
      obtain ⟨hnot, hnd⟩ := nodup_of_mem_picks hl hp
      obtain ⟨hlen, hwnd, hall⟩ := (ih hnd).1 hw'
      refine ⟨by simp [hlen], ?_, ?_⟩
      · rw [List.nodup_cons]
        exact ⟨fun hmem => hnot (hall _ hmem), hwnd⟩
      · intro y hy
        rw [mem_iff_of_mem_picks hp]
        rcases List.mem_cons.1 hy with rfl | hy
        · exact Or.inl rfl
        · exact Or.inr (hall y hy)
    · rintro ⟨hlen, hwnd, hall⟩
      cases w with
      | nil => simp at hlen
      | cons y w' =>
        obtain ⟨p, hp, rfl⟩ := exists_mem_picks_of_mem (hall y List.mem_cons_self)
        obtain ⟨_, hnd⟩ := nodup_of_mem_picks hl hp
        rw [List.nodup_cons] at hwnd
        refine ⟨p, hp, w', (ih hnd).2 ⟨by simpa using hlen, hwnd.2, ?_⟩, rfl⟩
        intro z hz
        rcases (mem_iff_of_mem_picks hp z).1 (hall z (List.mem_cons_of_mem _ hz)) with rfl | h
        · exact absurd hz hwnd.1
        · exact h

theorem length_of_mem_permsK {α : Type} {l : List α} {k : Nat} {w : List α}
    (h : w ∈ permsK k l) : w.length = k := by
  induction k generalizing l w with
  | zero =>
    rw [permsK_zero, List.mem_singleton] at h
    simp [h]
  | succ k ih =>
    simp only [permsK_succ, List.mem_flatMap, List.mem_map] at h
    obtain ⟨p, _, w', hw', rfl⟩ := h
    simp [ih hw']

theorem permsK_nodup {α : Type} {l : List α} (hl : l.Nodup) (k : Nat) : (permsK k l).Nodup := by
  induction k generalizing l with
  | zero => simp [permsK_zero]
  | succ k ih =>
    rw [permsK_succ]
    refine nodup_flatMap_cons (fun p : α × List α => p.1)
      (fun p : α × List α => permsK k p.2) ?_ ?_
    · have : (picks l).map (fun p => p.1) = l := picks_map_fst l
      rw [this]
      exact hl
    · intro p hp
      exact ih (nodup_of_mem_picks hl hp).2

/-! ### `combosRepl` -/

theorem mem_of_mem_combosRepl {α : Type} {l : List α} {k : Nat} {w : List α}
    (h : w ∈ combosRepl l k) : ∀ x ∈ w, x ∈ l := by
  induction l, k using combosRepl.induct generalizing w with
  | case1 l =>
    simp only [combosRepl, List.mem_singleton] at h
    simp [h]
  | case2 k => simp [combosRepl] at h
  | case3 x xs k ih1 ih2 =>
    simp only [combosRepl, List.mem_append, List.mem_map] at h
    rcases h with ⟨w', hw', rfl⟩ | h
    · intro y hy
      rcases List.mem_cons.1 hy with rfl | hy
      · exact List.mem_cons_self
      · exact ih1 hw' y hy
    · intro y hy
      exact List.mem_cons_of_mem _ (ih2 h y hy)

theorem length_of_mem_combosRepl {α : Type} {l : List α} {k : Nat} {w : List α}
    (h : w ∈ combosRepl l k) : w.length = k := by
  induction l, k using combosRepl.induct generalizing w with
  | case1 l =>
    simp only [combosRepl, List.mem_singleton] at h
    simp [h]
  | case2 k => simp [combosRepl] at h
  | case3 x xs k ih1 ih2 =>
    simp only [combosRepl, List.mem_append, List.mem_map] at h
    rcases h with ⟨w', hw', rfl⟩ | h
    · simp [ih1 hw']
    · exact ih2 h

theorem combosRepl_nodup {α : Type} {l : List α} (hl : l.Nodup) (k : Nat) :
    (combosRepl l k).Nodup := by
  induction l, k using combosRepl.induct with
  | case1 l => simp [combosRepl]
  | case2 k => simp [combosRepl]
  | case3 x xs k ih1 ih2 =>
    have hl' := List.nodup_cons.1 hl
    simp only [combosRepl]
    rw [List.nodup_append]
    refine ⟨(ih1 hl).map (fun u v h => (List.cons.inj h).2), ih2 hl'.2, ?_⟩
    intro a ha b hb hab
    rw [List.mem_map] at ha
    obtain ⟨a', _, rfl⟩ := ha
    subst hab
    exact hl'.1 (mem_of_mem_combosRepl hb x List.mem_cons_self)

theorem mem_combosRepl_sorted {l : List Nat} (hl : l.Pairwise (· < ·)) {k : Nat}
    {w : List Nat} :
    w ∈ combosRepl l k ↔ w.length = k ∧ w.Pairwise (· ≤ ·) ∧ ∀ x ∈ w, x ∈ l := by
  induction l, k using combosRepl.induct generalizing w with
  | case1 l =>
    simp only [combosRepl, List.mem_singleton, List.length_eq_zero_iff]
    constructor
    · rintro rfl; simp
    · exact fun h => h.1
  | case2 k =>
    simp only [combosRepl, List.not_mem_nil, false_iff, not_and]
    intro hlen _ hall
    cases w with
    | nil => simp at hlen
    | cons y w' => exact hall y List.mem_cons_self
  | case3 x xs k ih1 ih2 =>
    have hl' := List.pairwise_cons.1 hl
    simp only [combosRepl, List.mem_append, List.mem_map, ih1 hl, ih2 hl'.2]
    constructor
    · rintro (⟨w', ⟨hlen, hs, hall⟩, rfl⟩ | ⟨hlen, hs, hall⟩)
      · refine ⟨by simp [hlen], ?_, ?_⟩
        · rw [List.pairwise_cons]
          refine ⟨?_, hs⟩
          intro y hy
          rcases List.mem_cons.1 (hall y hy) with rfl | hy'
          · exact Nat.le_refl _
          · exact Nat.le_of_lt (hl'.1 y hy')
        · intro y hy
          rcases List.mem_cons.1 hy with rfl | hy
          · exact List.mem_cons_self
          · exact hall y hy
      · exact ⟨hlen, hs, fun y hy => List.mem_cons_of_mem _ (hall y hy)⟩
    · rintro ⟨hlen, hs, hall⟩
      cases w with
      | nil => simp at hlen
      | cons y w' =>
        have hs' := List.pairwise_cons.1 hs
        rcases List.mem_cons.1 (hall y List.mem_cons_self) with rfl | hy
        · exact Or.inl ⟨w', ⟨by simpa using hlen, hs'.2,
            fun z hz => hall z (List.mem_cons_of_mem _ hz)⟩, rfl⟩
        · refine Or.inr ⟨hlen, hs, ?_⟩
          intro z hz
          rcases List.mem_cons.1 hz with rfl | hz'
          · exact hy
          · rcases List.mem_cons.1 (hall z hz) with rfl | h
            · have h1 := hs'.1 z hz'
              have h2 := hl'.1 y hy
              omega
            · exact h

end Cnfgen
