import CnfgenModel.Build.OPB
import Lemmas.Linear
namespace Cnfgen
open PB

theorem pbSum_cons (α : Assign) (t : Int × Int) (ts : List (Int × Int)) :
    pbSum α (t :: ts) = (if litHolds α t.2 then t.1 else 0) + pbSum α ts := by
  simp [pbSum]

/-- flipping the negative coefficients adds their absolute values to both sides -/
theorem normTerms_sum (α : Assign) (ts : List (Int × Int)) (v : Int)
    (h : ∀ t ∈ ts, t.2 ≠ 0) :
    pbSum α (normTerms ts v).1 - (normTerms ts v).2 = pbSum α ts - v := by
  induction ts generalizing v with
  | nil => simp [normTerms]
  | cons t ts ih =>
    obtain ⟨c, l⟩ := t
    have hl : l ≠ 0 := h (c, l) (by simp)
    have ih' := fun v => ih v (fun t ht => h t (by simp [ht]))
    unfold normTerms
    by_cases hc : c < 0
    · simp only [hc, if_true, pbSum_cons]
      rw [litHolds_neg α l hl]
      have := ih' (v + -c)
      by_cases hh : litHolds α l <;> simp [hh] <;> omega
    · by_cases hz : c = 0
      · simp only [hc, if_false, hz, if_true, pbSum_cons]
        have := ih' v
        subst hz
        by_cases hh : litHolds α l <;> simp [hh] <;> omega
      · simp only [hc, if_false, hz, pbSum_cons]
        have := ih' v
        by_cases hh : litHolds α l <;> simp [hh] <;> omega

theorem normTerms_nonneg (ts : List (Int × Int)) (v : Int) :
    ∀ t ∈ (normTerms ts v).1, 0 ≤ t.1 := by
  induction ts generalizing v with
  | nil => simp [normTerms]
  | cons t ts ih =>
    obtain ⟨c, l⟩ := t
    unfold normTerms
    by_cases hc : c < 0
    · simp only [hc, if_true]
      intro t ht
      rcases List.mem_cons.1 ht with rfl | ht
      · simp; omega
      · exact ih _ t ht
    · by_cases hz : c = 0
      · simp only [hc, if_false, hz, if_true]
        exact ih _
      · simp only [hc, if_false, hz]
        intro t ht
        rcases List.mem_cons.1 ht with rfl | ht
        · simp; omega
        · exact ih _ t ht

theorem normTerms_pos (ts : List (Int × Int)) (v : Int) :
    ∀ t ∈ (normTerms ts v).1, 0 < t.1 := by
  induction ts generalizing v with
  | nil => simp [normTerms]
  | cons t ts ih =>
    obtain ⟨c, l⟩ := t
    unfold normTerms
    by_cases hc : c < 0
    · simp only [hc, if_true]
      intro t ht
      rcases List.mem_cons.1 ht with rfl | ht
      · simp; omega
      · exact ih _ t ht
    · by_cases hz : c = 0
      · simp only [hc, if_false, hz, if_true]
        exact ih _
      · simp only [hc, if_false, hz]
        intro t ht
        rcases List.mem_cons.1 ht with rfl | ht
        · simp; omega
        · exact ih _ t ht

theorem normTerms_lits_ne (ts : List (Int × Int)) (v : Int) (h : ∀ t ∈ ts, t.2 ≠ 0) :
    ∀ t ∈ (normTerms ts v).1, t.2 ≠ 0 := by
  induction ts generalizing v with
  | nil => simp [normTerms]
  | cons t ts ih =>
    obtain ⟨c, l⟩ := t
    have hl : l ≠ 0 := h (c, l) (by simp)
    have ih' := fun v => ih v (fun t ht => h t (by simp [ht]))
    unfold normTerms
    by_cases hc : c < 0
    · simp only [hc, if_true]
      intro t ht
      rcases List.mem_cons.1 ht with rfl | ht
      · simp; omega
      · exact ih' _ t ht
    · by_cases hz : c = 0
      · simp only [hc, if_false, hz, if_true]
        exact ih' _
      · simp only [hc, if_false, hz]
        intro t ht
        rcases List.mem_cons.1 ht with rfl | ht
        · simpa using hl
        · exact ih' _ t ht

theorem pbSum_map_neg (α : Assign) (ts : List (Int × Int)) :
    pbSum α (ts.map (fun t => (-t.1, t.2))) = - pbSum α ts := by
  induction ts with
  | nil => simp [pbSum]
  | cons t ts ih =>
    rw [List.map_cons, pbSum_cons, pbSum_cons, ih]
    by_cases hh : litHolds α t.2 <;> simp [hh] <;> omega

theorem pbSum_unit (α : Assign) (ls : List Int) : pbSum α (unit ls) = (count α ls : Int) := by
  induction ls with
  | nil => simp [pbSum, unit, count]
  | cons x xs ih =>
    have : unit (x :: xs) = (1, x) :: unit xs := by simp [unit]
    rw [this, pbSum_cons, ih, count_cons]
    by_cases hh : litHolds α x <;> simp [hh] <;> omega

/-- a clause, as the constraint `Σ lits ≥ 1`, has the clause's meaning -/
theorem ofClause_holds (α : Assign) (c : Clause) :
    (PBC.ofClause c).holds α = clauseHolds α c := by
  have h1 := pbSum_unit α c
  simp only [PB.unit] at h1
  simp only [PBC.holds, PBC.ofClause, Op.denote, h1, clauseHolds]
  rw [Bool.eq_iff_iff, decide_eq_true_iff, List.any_eq_true]
  unfold count
  rw [← List.countP_pos_iff]
  omega

end Cnfgen
