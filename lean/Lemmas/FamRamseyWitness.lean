/-
Ramsey-witness formula (`RamseyWitnessFormula(G, k, s)`, code after the fix of D25): one unary mapping of
`max k s` rows; the selector `C` (variable 1) says which prefix is in use — the first `k` rows (a clique) under
`C`, the first `s` rows (an independent set) under `¬C`.  The meaning of each block of constraints in terms of
the relation `i ↦ j :⇔ α (mapId 2 N i j)`, on the table of the rows in use, and well-formedness.
-/
import CnfgenModel.Fam.Subgraph
import Lemmas.FamSubgraph
namespace Cnfgen
namespace Fam
namespace G2
open Vars

/-! ### small facts about clauses with a selector literal -/

theorem clause3_holds (α : Assign) (c : Int) {a b : Nat} (ha : 0 < a) (hb : 0 < b) :
    Con.holds α (.clause [c, -((a : Nat) : Int), -((b : Nat) : Int)]) = true ↔
      (litHolds α c = true ∨ ¬ (α a = true ∧ α b = true)) := by
  simp only [Con.holds, clauseHolds, List.any_cons, List.any_nil, Bool.or_false, Bool.or_eq_true,
    litHolds_neg_nat α ha, litHolds_neg_nat α hb]
  cases litHolds α c <;> cases α a <;> cases α b <;> simp

theorem litHolds_edgeLit (α : Assign) (e : Bool) :
    litHolds α (if e = true then (1 : Int) else -1) = true ↔ α 1 = e := by
  cases e <;> simp [litHolds]

theorem clauseHolds_cons (α : Assign) (c : Int) (cs : Clause) :
    clauseHolds α (c :: cs) = (litHolds α c || clauseHolds α cs) := by simp [clauseHolds]

/-- the number of rows in use when the selector has the value `C` -/
def ramRows (k s : Nat) (C : Bool) : Nat := if C then k else s

theorem ramRows_le_max (k s : Nat) (C : Bool) : ramRows k s C ≤ max k s := by
  cases C <;> simp [ramRows] <;> omega

theorem ramseyGuard_spec (e : Bool) (i2 k s : Nat) :
    ramseyGuard e i2 k s = if i2 ≤ ramRows k s (!e) then some (if e = true then 1 else -1) else none := by
  cases e <;> simp [ramseyGuard, ramRows]

theorem ramseyGuarded_holds (α : Assign) (e : Bool) (i2 k s : Nat) {a b : Nat} (ha : 0 < a) (hb : 0 < b) :
    (∀ c ∈ ramseyGuarded (ramseyGuard e i2 k s) ((a : Nat) : Int) ((b : Nat) : Int), Con.holds α c = true) ↔
      (i2 ≤ ramRows k s (!e) → α a = true → α b = true → α 1 = e) := by
  rw [ramseyGuard_spec]
  by_cases h : i2 ≤ ramRows k s (!e)
  · simp only [h, if_true, ramseyGuarded, List.mem_singleton, forall_eq, forall_const]
    rw [clause3_holds α _ ha hb, litHolds_edgeLit]
    constructor
    · rintro (h1 | h1) pa pb
      · exact h1
      · exact absurd ⟨pa, pb⟩ h1
    · intro h1
      by_cases hr : α a = true ∧ α b = true
      · exact Or.inl (h1 hr.1 hr.2)
      · exact Or.inr hr
  · simp [h, ramseyGuarded]

/-! ### the totality clauses -/

theorem mRow_holds (α : Assign) (N i : Nat) :
    clauseHolds α (mRow 2 N i) = true ↔ ∃ j, 1 ≤ j ∧ j ≤ N ∧ α (mapId 2 N i j) = true := by
  rw [mRow_eq, clauseHolds_map_nat α _ _ (fun v _ => mapId_pos (by omega))]
  simp only [mem_verts]
  constructor
  · rintro ⟨j, ⟨a, b⟩, c⟩; exact ⟨j, a, b, c⟩
  · rintro ⟨j, a, b, c⟩; exact ⟨j, ⟨a, b⟩, c⟩

/-- the guarded totality clauses say: every row in use has an image -/
theorem ramseyCompleteCons_holds (α : Assign) (k s N : Nat) :
    (∀ c ∈ ramseyCompleteCons k s N, Con.holds α c = true) ↔
      ∀ i, 1 ≤ i → i ≤ ramRows k s (α 1) → ∃ j, 1 ≤ j ∧ j ≤ N ∧ α (mapId 2 N i j) = true := by
  rw [ramseyCompleteCons, List.forall_mem_map]
  simp only [mem_verts]
  have l1 : litHolds α 1 = α 1 := by simp [litHolds]
  have l2 : litHolds α (-1) = !α 1 := by simp [litHolds]
  constructor
  · intro h i h1 hi
    have hM : i ≤ max k s := Nat.le_trans hi (ramRows_le_max k s _)
    have := h i ⟨h1, hM⟩
    split at this
    · exact (mRow_holds α N i).1 this
    · split at this
      · simp only [Con.holds, clauseHolds_cons, l2, Bool.or_eq_true] at this
        rcases this with hc | hr
        · exfalso
          have : α 1 = false := by simpa using hc
          simp only [ramRows, this] at hi
          simp at hi; omega
        · exact (mRow_holds α N i).1 hr
      · simp only [Con.holds, clauseHolds_cons, l1, Bool.or_eq_true] at this
        rcases this with hc | hr
        · exfalso
          simp only [ramRows, hc, if_true] at hi
          omega
        · exact (mRow_holds α N i).1 hr
  · rintro h i ⟨h1, hM⟩
    split
    · exact (mRow_holds α N i).2 (h i h1 (by cases α 1 <;> simp [ramRows] <;> omega))
    · split
      · simp only [Con.holds, clauseHolds_cons, l2, Bool.or_eq_true]
        cases e : α 1
        · left; rfl
        · right; exact (mRow_holds α N i).2 (h i h1 (by simp [ramRows, e]; omega))
      · simp only [Con.holds, clauseHolds_cons, l1, Bool.or_eq_true]
        cases e : α 1
        · right; exact (mRow_holds α N i).2 (h i h1 (by simp [ramRows, e]; omega))
        · left; rfl

/-! ### the "local consistency" clauses -/

/-- the condition the Ramsey-witness clauses put on two pairs `i ↦ j`, `i' ↦ j'` with `i < i'`; `C` is the
value of the selector.  The (non-)adjacency of `j`, `j'` matters only when row `i'` is in use under the
selector value that forbids that kind of pair (`i' ≤ k` for a non-edge, `i' ≤ s` for an edge); with symmetry
breaking `j' < j` is excluded on EVERY pair of rows. -/
def RamP (G : SimpleG) (k s : Nat) (symbreak : Bool) (C : Bool) (i' j j' : Nat) : Prop :=
  (j < j' → i' ≤ ramRows k s (!adj G j j') → C = adj G j j') ∧
  (j' < j → if symbreak then False else (i' ≤ ramRows k s (!adj G j' j) → C = adj G j' j))

theorem ramseyPairCons_holds (α : Assign) (G : SimpleG) (k s : Nat) (symbreak : Bool) (i i' a b : Nat) :
    (∀ c ∈ ramseyPairCons G k s symbreak (i, i') (a, b), Con.holds α c = true) ↔
      ((i' ≤ ramRows k s (!adj G a b) → α (mapId 2 G.n i a) = true → α (mapId 2 G.n i' b) = true →
          α 1 = adj G a b) ∧
       (if symbreak then ¬ (α (mapId 2 G.n i b) = true ∧ α (mapId 2 G.n i' a) = true)
        else (i' ≤ ramRows k s (!adj G a b) → α (mapId 2 G.n i b) = true → α (mapId 2 G.n i' a) = true →
          α 1 = adj G a b))) := by
  have h2 : 1 ≤ 2 := by omega
  unfold ramseyPairCons
  simp only [List.forall_mem_append]
  unfold mlit
  rw [ramseyGuarded_holds α _ _ k s (mapId_pos h2) (mapId_pos h2)]
  cases symbreak
  · simp only [Bool.false_eq_true, if_false]
    rw [ramseyGuarded_holds α _ _ k s (mapId_pos h2) (mapId_pos h2)]
  · simp only [if_true, List.mem_singleton, forall_eq]
    have := clause_two_neg_mlit α (st := 2) (N := G.n) (a := i) (b := b) (c := i') (d := a) h2
    unfold mlit at this
    rw [this]

theorem ramseyEdgeCons_holds (α : Assign) (G : SimpleG) (k s : Nat) (symbreak : Bool) :
    (∀ c ∈ ramseyEdgeCons G k s symbreak, Con.holds α c = true) ↔
      ∀ i, 1 ≤ i → ∀ i', i < i' → i' ≤ max k s → ∀ j, 1 ≤ j → j ≤ G.n → ∀ j', 1 ≤ j' → j' ≤ G.n →
        α (mapId 2 G.n i j) = true → α (mapId 2 G.n i' j') = true → RamP G k s symbreak (α 1) i' j j' := by
  have key : (∀ c ∈ ramseyEdgeCons G k s symbreak, Con.holds α c = true) ↔
      ∀ i i', 1 ≤ i → i < i' → i' ≤ max k s → ∀ a b, 1 ≤ a → a < b → b ≤ G.n →
        ∀ c ∈ ramseyPairCons G k s symbreak (i, i') (a, b), Con.holds α c = true := by
    simp only [ramseyEdgeCons, List.mem_flatMap, Prod.exists, mem_pairs2_verts, forall_exists_index, and_imp]
    constructor
    · intro h i i' h1 h2 h3 a b h4 h5 h6 c hc
      exact h c i i' h1 h2 h3 a b h4 h5 h6 hc
    · intro h c i i' h1 h2 h3 a b h4 h5 h6 hc
      exact h i i' h1 h2 h3 a b h4 h5 h6 c hc
  rw [key]
  simp only [ramseyPairCons_holds]
  constructor
  · intro h i hi i' hii' hi' j hj1 hj2 j' hj1' hj2' r r'
    constructor
    · intro hlt hrow
      exact ((h i i' hi hii' hi' j j' hj1 hlt hj2').1 hrow r r')
    · intro hlt
      have := (h i i' hi hii' hi' j' j hj1' hlt hj2).2
      cases symbreak
      · simp only [Bool.false_eq_true, if_false] at this ⊢
        intro hrow
        exact this hrow r r'
      · simp only [if_true] at this ⊢
        exact this ⟨r, r'⟩
  · intro h i i' hi hii' hi' a b ha hab hb
    constructor
    · intro hrow r r'
      exact (h i hi i' hii' hi' a ha (by omega) b (by omega) hb r r').1 hab hrow
    · cases symbreak
      · simp only [Bool.false_eq_true, if_false]
        intro hrow r r'
        have := (h i hi i' hii' hi' b (by omega) hb a ha (by omega) r r').2 hab
        simp only [Bool.false_eq_true, if_false] at this
        exact this hrow
      · simp only [if_true]
        rintro ⟨r, r'⟩
        have := (h i hi i' hii' hi' b (by omega) hb a ha (by omega) r r').2 hab
        simp at this

/-! ### well-formedness -/

theorem ramseyCompleteCons_in (k s N : Nat) :
    ConsIn 1 (2 + max k s * N - 1) (ramseyCompleteCons k s N) := by
  have h2 : 1 ≤ 2 := by omega
  have row : ∀ i, 1 ≤ i → i ≤ max k s → ∀ l ∈ mRow 2 N i, l ≠ 0 ∧ 1 ≤ l.natAbs ∧ l.natAbs ≤ 2 + max k s * N - 1 := by
    intro i h1 hM l hl
    simp only [mRow, List.mem_map, mem_verts] at hl
    obtain ⟨v, hv, rfl⟩ := hl
    have := (mlit_in (st := 2) (k := max k s) h2 h1 hM hv.1 hv.2).1
    omega
  intro c hc l hl
  simp only [ramseyCompleteCons, List.mem_map, mem_verts] at hc
  obtain ⟨i, ⟨h1, hM⟩, rfl⟩ := hc
  have hpos : 1 ≤ 2 + max k s * N - 1 := by omega
  split at hl
  · exact row i h1 hM l hl
  · split at hl
    · simp only [Con.lits, List.mem_cons] at hl
      rcases hl with rfl | hl
      · omega
      · exact row i h1 hM l hl
    · simp only [Con.lits, List.mem_cons] at hl
      rcases hl with rfl | hl
      · omega
      · exact row i h1 hM l hl

theorem ramseyGuarded_in {M N : Nat} (g : Option Int) (hg : ∀ c, g = some c → c = 1 ∨ c = -1)
    {a b a' b' : Nat} (ha1 : 1 ≤ a) (ha : a ≤ M) (hb1 : 1 ≤ b) (hb : b ≤ N)
    (ha1' : 1 ≤ a') (ha' : a' ≤ M) (hb1' : 1 ≤ b') (hb' : b' ≤ N) :
    ConsIn 1 (2 + M * N - 1) (ramseyGuarded g (mlit 2 N a b) (mlit 2 N a' b')) := by
  have h2 : 1 ≤ 2 := by omega
  intro c hc l hl
  cases g with
  | none => simp [ramseyGuarded] at hc
  | some x =>
    simp only [ramseyGuarded, List.mem_singleton] at hc
    subst hc
    simp only [Con.lits, List.mem_cons, List.not_mem_nil, or_false] at hl
    have m1 := (mlit_in (st := 2) h2 ha1 ha hb1 hb).2
    have m2 := (mlit_in (st := 2) h2 ha1' ha' hb1' hb').2
    rcases hl with rfl | rfl | rfl
    · rcases hg _ rfl with rfl | rfl <;> omega
    · omega
    · omega

theorem ramseyGuard_pm (e : Bool) (i2 k s : Nat) : ∀ c, ramseyGuard e i2 k s = some c → c = 1 ∨ c = -1 := by
  intro c hc
  rw [ramseyGuard_spec] at hc
  split at hc
  · cases e <;> simp at hc <;> omega
  · simp at hc

theorem ramseyEdgeCons_in (G : SimpleG) (k s : Nat) (symbreak : Bool) :
    ConsIn 1 (2 + max k s * G.n - 1) (ramseyEdgeCons G k s symbreak) := by
  have h2 : 1 ≤ 2 := by omega
  intro c hc
  simp only [ramseyEdgeCons, List.mem_flatMap, Prod.exists, mem_pairs2_verts] at hc
  obtain ⟨i, i', ⟨hi, hii', hi'⟩, a, b, ⟨ha, hab, hb⟩, hc⟩ := hc
  unfold ramseyPairCons at hc
  rcases List.mem_append.1 hc with hc | hc
  · exact ramseyGuarded_in _ (ramseyGuard_pm _ _ _ _) hi (by omega) ha (by omega) (by omega) hi' (by omega) hb c hc
  · cases symbreak
    · simp only [Bool.false_eq_true, if_false] at hc
      exact ramseyGuarded_in _ (ramseyGuard_pm _ _ _ _) hi (by omega) (by omega) hb (by omega) hi' ha (by omega) c hc
    · simp only [if_true, List.mem_singleton] at hc
      subst hc
      intro l hl
      have := clause_neg2_in (st := 2) (k := max k s) h2 hi (by omega) (by omega) hb (by omega) hi' ha (by omega) l hl
      omega

theorem ramseyWitnessCore_consIn (G : SimpleG) (k s : Nat) (symbreak : Bool) :
    ConsIn 1 (1 + max k s * G.n) (ramseyWitnessCore G k s symbreak).cons := by
  have e : 2 + max k s * G.n - 1 = 1 + max k s * G.n := by omega
  have a := (forceFunctional_in (st := 2) (max k s) G.n (by omega)).mono (lo' := 1) (hi' := 2 + max k s * G.n - 1)
    (by omega) (Nat.le_refl _)
  have b := (forceInjective_in (st := 2) (max k s) G.n (by omega)).mono (lo' := 1) (hi' := 2 + max k s * G.n - 1)
    (by omega) (Nat.le_refl _)
  have := (((ramseyCompleteCons_in k s G.n).append a).append b).append (ramseyEdgeCons_in G k s symbreak)
  rw [e] at this
  exact this

/-! ### the rows in use, read on their table -/

/-- what the formula says about the rows beyond the ones in use (and, for injectivity and symmetry breaking,
about all `M = max k s` rows together): each row has at most one image, no vertex is the image of two rows,
and with symmetry breaking the images increase with the row -/
structure RamSide (M N : Nat) (symbreak : Bool) (α : Assign) : Prop where
  functional : ∀ i, 1 ≤ i → i ≤ M → ∀ j, 1 ≤ j → j ≤ N → ∀ j', 1 ≤ j' → j' ≤ N →
    α (mapId 2 N i j) = true → α (mapId 2 N i j') = true → j = j'
  injective : ∀ j, 1 ≤ j → j ≤ N → ∀ i, 1 ≤ i → i ≤ M → ∀ i', 1 ≤ i' → i' ≤ M →
    α (mapId 2 N i j) = true → α (mapId 2 N i' j) = true → i = i'
  increasing : symbreak = true → ∀ i, 1 ≤ i → ∀ i', i < i' → i' ≤ M → ∀ j, 1 ≤ j → j ≤ N → ∀ j', 1 ≤ j' → j' ≤ N →
    α (mapId 2 N i j) = true → α (mapId 2 N i' j') = true → j < j'

/-- on the table `l` of the `r` rows in use (`r = k` under `C`, `r = s` under `¬C`): the Ramsey clauses on
the rows in use say that the listed vertices are pairwise adjacent if `C`, pairwise non-adjacent if `¬C`
(and increasing with symmetry breaking) -/
theorem ramP_table_iff {G : SimpleG} (hG : GoodGraph G) {k s : Nat} {symbreak : Bool} {C : Bool} {l : List Nat}
    (hlen : l.length = ramRows k s C) (hnd : l.Nodup) :
    (∀ i, 1 ≤ i → ∀ i', i < i' → i' ≤ ramRows k s C → RamP G k s symbreak C i' (img l i) (img l i')) ↔
      Shape symbreak l ∧ l.Pairwise (fun a b => adj G a b = C) := by
  -- inside the rows in use the row condition of `RamP` is the plain one
  have plain : ∀ i' a b, i' ≤ ramRows k s C → ((i' ≤ ramRows k s (!adj G a b) → C = adj G a b) ↔ C = adj G a b) := by
    intro i' a b hi'
    constructor
    · intro h
      cases e : adj G a b <;> cases hC : C
      · rfl
      · rw [e, hC] at h; rw [hC] at hi'; simp only [ramRows] at h hi'; exact h (by simpa using hi')
      · rw [e, hC] at h; rw [hC] at hi'; simp only [ramRows] at h hi'; exact h (by simpa using hi')
      · rfl
    · intro h _; exact h
  have step : (∀ i, 1 ≤ i → ∀ i', i < i' → i' ≤ ramRows k s C → RamP G k s symbreak C i' (img l i) (img l i')) ↔
      (∀ i, 1 ≤ i → ∀ i', i < i' → i' ≤ ramRows k s C →
        ((img l i < img l i' → C = adj G (img l i) (img l i')) ∧
         (img l i' < img l i → if symbreak then False else C = adj G (img l i') (img l i)))) := by
    constructor
    · intro h i hi i' hii' hi'
      obtain ⟨p1, p2⟩ := h i hi i' hii' hi'
      refine ⟨fun hlt => (plain i' _ _ hi').1 (p1 hlt), fun hlt => ?_⟩
      have := p2 hlt
      cases symbreak
      · simp only [Bool.false_eq_true, if_false] at this ⊢
        exact (plain i' _ _ hi').1 this
      · simp at this
    · intro h i hi i' hii' hi'
      obtain ⟨p1, p2⟩ := h i hi i' hii' hi'
      refine ⟨fun hlt _ => p1 hlt, fun hlt => ?_⟩
      have := p2 hlt
      cases symbreak
      · simp only [Bool.false_eq_true, if_false] at this ⊢
        exact fun _ => this
      · simp at this
  rw [step, pairwise_img_iff hlen
    (fun x y => (x < y → C = adj G x y) ∧ (y < x → if symbreak then False else C = adj G y x))]
  have hne := hnd
  rw [List.nodup_iff_pairwise_ne] at hne
  constructor
  · intro hp
    cases symbreak
    · refine ⟨hnd, (hp.and hne).imp ?_⟩
      rintro a b ⟨⟨p1, p2⟩, hab⟩
      rcases Nat.lt_or_gt_of_ne hab with hlt | hgt
      · exact (p1 hlt).symm
      · rw [hG.symm]; exact (by simpa using p2 hgt : C = adj G b a).symm
    · have hs : l.Pairwise (· < ·) := by
        refine (hp.and hne).imp ?_
        rintro a b ⟨⟨_, p2⟩, hab⟩
        rcases Nat.lt_or_gt_of_ne hab with hlt | hgt
        · exact hlt
        · exact absurd (p2 hgt) (by simp)
      refine ⟨hs, (hp.and hs).imp ?_⟩
      rintro a b ⟨⟨p1, _⟩, hlt⟩
      exact (p1 hlt).symm
  · rintro ⟨hs, hp⟩
    cases symbreak
    · refine hp.imp ?_
      intro a b hab
      exact ⟨fun _ => hab.symm, fun _ => by simp only [Bool.false_eq_true, if_false]; rw [hG.symm]; exact hab.symm⟩
    · have hs' : l.Pairwise (· < ·) := hs
      refine (hp.and hs').imp ?_
      rintro a b ⟨hab, hlt⟩
      exact ⟨fun _ => hab.symm, fun h' => by omega⟩

end G2
end Fam
end Cnfgen
