/-
C19 heap lemmas — the result of a transformation is a well-typed formula, separate from its input.
-/
import Lemmas.HeapMut
namespace Cnfgen
namespace Heap
local notation "Addr" => Nat

theorem step_addAllVals {x : Nat} (check : Bool) :
    ∀ (cs : List (List Int)) (s : Store), WT s x → Step s x (addAllVals s x check cs).1
  | [], s, h => by simpa [addAllVals] using Step.refl h
  | c :: cs, s, h => by
    unfold addAllVals
    have h1 := step_addClauseVals c check h
    split
    · rename_i s1 e heq; rw [heq] at h1; exact h1
    · rename_i s1 u heq; rw [heq] at h1; exact h1.trans (step_addAllVals check cs s1 h1.wt)

theorem step_copyHeader {s : Store} {x : Nat} (src : Nat) (h : WT s x) : Step s x (copyHeader s x src).1 := by
  have h' := h
  obtain ⟨cl, hd, gr, nv, as, es, gs, h1, h2, h3, h4, h5⟩ := h'
  unfold copyHeader
  simp only [readCNF, h1]
  split
  · rename_i o f ho hf
    cases ho
    split
    · exact Step.refl h
    · rename_i es' _
      have bx := lt_size_of_getElem? h1
      have bcl := lt_size_of_getElem? h2
      have bgr := lt_size_of_getElem? h4
      have nxcl : x ≠ cl := by rintro rfl; simp_all
      have nxgr : x ≠ gr := by rintro rfl; simp_all
      have nxas : ∀ a ∈ as, x ≠ a := by rintro a ha rfl; obtain ⟨_, h⟩ := h5 _ ha; simp_all
      have fp := footprint_eq h1 h2
      have f1 : (write (alloc s (.dict es')).1 x (.cnf cl s.size gr nv))[x]? = some (.cnf cl s.size gr nv) :=
        get_write_eq (by simp; omega)
      have f2 : (write (alloc s (.dict es')).1 x (.cnf cl s.size gr nv))[cl]? = some (.refs as) := by
        rw [get_write_ne nxcl, get_alloc_lt bcl]; exact h2
      show Step s x (write (alloc s (.dict es')).1 x (.cnf cl s.size gr nv))
      refine ⟨⟨cl, s.size, gr, nv, as, es', gs, f1, f2, ?_, ?_, ?_⟩, by simp, ?_, ?_⟩
      · rw [get_write_ne (by omega)]; exact get_alloc_eq
      · rw [get_write_ne nxgr, get_alloc_lt bgr]; exact h4
      · intro a ha
        obtain ⟨ys, hy⟩ := h5 a ha
        exact ⟨ys, by rw [get_write_ne (nxas a ha), get_alloc_lt (lt_size_of_getElem? hy)]; exact hy⟩
      · intro a ha hnot
        rw [fp] at hnot; simp at hnot
        rw [get_write_ne (Ne.symm hnot.1), get_alloc_lt ha]
      · intro a ha
        rw [footprint_eq f1 f2] at ha
        rw [fp]
        simp at ha ⊢
        rcases ha with ha | ha | ha | ha | ha
        · simp [ha]
        · simp [ha]
        · right; omega
        · simp [ha]
        · simp [ha]
  · exact Step.refl h

theorem step_addLinear {s : Store} {x : Nat} (lits : List Int) (op : Op) (k : Int) (h : WT s x) :
    Step s x (addLinear s x lits op k).1 := by
  have h' := h
  obtain ⟨cl, hd, gr, nv, as, es, gs, h1, h2, h3, h4, h5⟩ := h'
  unfold addLinear
  simp only [readCNF, h1]
  split
  · exact step_addAllVals false _ s h
  · split
    · exact Step.refl h
    · rename_i nv' _
      have s1 := step_write h (mem_footprint_x s x) h1 (c := .cnf cl hd gr nv') (by simp [sameShape])
      exact s1.trans (step_addAllVals false _ _ s1.wt)

theorem step_addLinearAll {x : Nat} (op : Op) (k : Int) :
    ∀ (ls : List (List Int)) (s : Store), WT s x → Step s x (addLinearAll s x op k ls).1
  | [], s, h => by simpa [addLinearAll] using Step.refl h
  | l :: ls, s, h => by
    unfold addLinearAll
    have h1 := step_addLinear l op k h
    split
    · rename_i s1 e heq; rw [heq] at h1; exact h1
    · rename_i s1 u heq; rw [heq] at h1; exact h1.trans (step_addLinearAll op k ls s1 h1.wt)

theorem step_substLoop {x : Nat} (tbl : List (Option (List Clause))) :
    ∀ (cs : List Addr) (s : Store), WT s x → Step s x (substLoop x tbl s cs).1
  | [], s, h => by simpa [substLoop] using Step.refl h
  | c :: cs, s, h => by
    unfold substLoop
    split
    · exact Step.refl h
    · split
      · exact Step.refl h
      · rename_i block _
        have h1 := step_addAllVals true block s h
        split
        · rename_i s1 e heq; rw [heq] at h1; exact h1
        · rename_i s1 u heq; rw [heq] at h1; exact h1.trans (step_substLoop tbl cs s1 h1.wt)

theorem step_shuffleLoop {x : Nat} (src : Nat) (tbl : List (Option Int)) :
    ∀ (ms : List (Nat × Int)) (s : Store), WT s x → Step s x (shuffleLoop x src tbl s ms).1
  | [], s, h => by simpa [shuffleLoop] using Step.refl h
  | m :: ms, s, h => by
    unfold shuffleLoop
    split
    · split
      · split
        · exact Step.refl h
        · split
          · exact Step.refl h
          · split
            · exact Step.refl h
            · split
              · exact Step.refl h
              · rename_i c' _
                have h1 := step_addClauseVals c' true h
                split
                · rename_i s1 e heq; rw [heq] at h1; exact h1
                · rename_i s1 u heq; rw [heq] at h1; exact h1.trans (step_shuffleLoop src tbl ms s1 h1.wt)
      · exact Step.refl h
    · exact Step.refl h

theorem step_runAct {s : Store} {x : Nat} (a : Act) (h : WT s x) : Step s x (runAct s x a).1 := by
  cases a with
  | copyHeader src => exact step_copyHeader src h
  | describe text => exact step_describe text h
  | reshuffled =>
    have h' := h
    obtain ⟨cl, hd, gr, nv, as, es, gs, h1, h2, h3, h4, h5⟩ := h'
    simp only [runAct, readCNF, h1, readDict, h3]
    exact step_write h (by rw [footprint_eq h1 h2]; simp) h3 (by simp [sameShape])
  | updVar n => exact step_updVar n h
  | newGroup spec => exact step_newGroup spec h
  | liftSelectors k =>
    simp only [runAct]
    split
    · exact Step.refl h
    · exact step_addLinearAll _ _ _ s h
  | substFrom src enc =>
    simp only [runAct]
    split
    · exact Step.refl h
    · split
      · exact Step.refl h
      · exact step_substLoop _ _ s h
  | loadShuffled src tbl mapping => exact step_shuffleLoop src tbl mapping s h

theorem step_runActs {x : Nat} : ∀ (as : List Act) (s : Store), WT s x → Step s x (runActs x s as).1
  | [], s, h => by simpa [runActs] using Step.refl h
  | a :: as, s, h => by
    unfold runActs
    have h1 := step_runAct a h
    split
    · rename_i s1 e heq; rw [heq] at h1; exact h1
    · rename_i s1 u heq; rw [heq] at h1; exact h1.trans (step_runActs as s1 h1.wt)

theorem wt_newCNF (cfg : Cfg) (s : Store) (d : Option String) : WT (newCNF cfg s d).1 (newCNF cfg s d).2 := by
  refine ⟨s.size + 1, s.size, s.size + 2, 0, [], ("description", d.getD "Formula in CNF") :: cfg.hdr0, [],
    ?_, ?_, ?_, ?_, by simp⟩ <;>
    simp only [newCNF, alloc, Array.getElem?_push, Array.size_push] <;>
    repeat' (first | rfl | omega | split)

/-- a returned formula is well typed -/
theorem wt_build (cfg : Cfg) (s : Store) (acts : List Act) (r : Nat) (h : (build cfg s acts).2 = .ok r) :
    WT (build cfg s acts).1 r := by
  unfold build at h ⊢
  have h1 := step_runActs acts _ (wt_newCNF cfg s none)
  simp only [] at h ⊢
  split at h
  · cases h
  · rename_i s2 u heq
    cases h
    simp only [heq] at h1 ⊢
    exact h1.wt

theorem wt_kSubst (cfg : Cfg) (s : Store) (f : Nat) (k : Int) (text : String) (enc : Nat → Int → List Clause)
    (r : Nat) (h : (kSubst cfg s f k text enc).2 = .ok r) : WT (kSubst cfg s f k text enc).1 r := by
  unfold kSubst at h ⊢
  split
  · rename_i hk; simp [hk] at h
  · rename_i hk
    simp only [hk, if_false] at h
    split
    · rename_i heq; simp [heq] at h
    · rename_i labels heq
      simp only [heq] at h
      exact wt_build cfg s _ r h

theorem wt_apply (cfg : Cfg) (t : Tr) (s : Store) (f : Nat) (r : Nat) (h : (t.apply cfg s f).2 = .ok r) :
    WT (t.apply cfg s f).1 r := by
  unfold Tr.apply at h ⊢
  split
  · rename_i heq; simp [heq] at h
  · rename_i F heq
    simp only [heq] at h
    cases t with
    | flip => exact wt_build cfg s _ r h
    | xor k => exact wt_kSubst _ _ _ _ _ _ r h
    | or k => exact wt_kSubst _ _ _ _ _ _ r h
    | maj k => exact wt_kSubst _ _ _ _ _ _ r h
    | allEqual k => exact wt_kSubst _ _ _ _ _ _ r h
    | notAllEqual k => exact wt_kSubst _ _ _ _ _ _ r h
    | exactlyOne k => exact wt_kSubst _ _ _ _ _ _ r h
    | linear k o C => exact wt_kSubst _ _ _ _ _ _ r h
    | ite =>
      simp only [] at h ⊢
      split
      · rename_i he; simp [he] at h
      · rename_i labels he
        simp only [he] at h
        exact wt_build cfg s _ r h
    | lift k =>
      simp only [] at h ⊢
      split
      · rename_i hk; simp [hk] at h
      · rename_i hk
        simp only [hk, if_false] at h
        split
        · rename_i he; simp [he] at h
        · rename_i labels he
          simp only [he] at h
          exact wt_build cfg s _ r h
    | compress b fn =>
      simp only [] at h ⊢
      split
      · rename_i hk; simp [hk] at h
      · rename_i hk
        simp only [hk, if_false] at h
        split
        · rename_i he; simp [he] at h
        · rename_i B he
          simp only [he] at h
          split
          · rename_i hl; simp [hl] at h
          · rename_i hl
            simp only [hl, if_false] at h
            exact wt_build cfg s _ r h
    | shuffle fl vp cp =>
      simp only [] at h ⊢
      split
      · rename_i fl' vp' cp' e1 e2 e3
        simp only [e1, e2, e3] at h
        have h1 := fun acts => step_runActs acts _ (wt_newCNF cfg s none)
        split
        · rename_i s2 e heq2; simp [heq2] at h
        · rename_i s2 u heq2
          have h2 := congrArg Prod.fst heq2 ▸ h1 _
          simp only [heq2] at h
          split
          · rename_i hc; simp [hc] at h
          · rename_i hc
            simp only [hc] at h
            cases h
            exact h2.wt
      · rename_i hne
        exfalso
        revert h
        cases e1 : readArg s fl <;> cases e2 : readArg s vp <;> cases e3 : readArg s cp <;> simp
        exact fun h => hne _ _ _ e1 e2 e3

theorem mem_footprint_reach {s : Store} {x a : Nat} (h : a ∈ footprint s x) : Reach s x a := by
  unfold footprint at h
  cases ho : readCNF s x with
  | none => simp [ho] at h; subst h; exact Reach.refl _
  | some o =>
    simp only [ho] at h
    unfold readCNF at ho
    split at ho
    · rename_i cl hd gr nv hx
      cases ho
      simp at h
      rcases h with h | h | h | h | h
      · subst h; exact Reach.refl _
      · subst h; exact Reach.step hx (by simp [Cell.refsOf]) (Reach.refl _)
      · subst h; exact Reach.step hx (by simp [Cell.refsOf]) (Reach.refl _)
      · subst h; exact Reach.step hx (by simp [Cell.refsOf]) (Reach.refl _)
      · cases hr : readRefs s cl with
        | none => simp [hr] at h
        | some as =>
          simp [hr] at h
          unfold readRefs at hr
          split at hr
          · rename_i as' hcl
            cases hr
            exact Reach.step hx (c := .cnf cl hd gr nv) (x := cl) (by simp [Cell.refsOf])
              (Reach.step hcl (by simpa [Cell.refsOf] using h) (Reach.refl _))
          · cases hr
    · cases ho

/-- after a successful call the result is separate from EVERY formula that existed before (the input is one
of them), and each of them looks exactly as before -/
theorem sep_apply_any (cfg : Cfg) (t : Tr) (s : Store) (f r y : Nat) (h : (t.apply cfg s f).2 = .ok r)
    (hy : WT s y) : Sep (t.apply cfg s f).1 r y ∧ snap (t.apply cfg s f).1 y = snap s y := by
  obtain ⟨hg, hge⟩ := good_apply cfg t s f
  obtain ⟨Y, hY⟩ := wt_iff_snap.mp hy
  have hin := footprint_inbounds hY
  obtain ⟨e1, e2⟩ := snap_congr (s := s) (s' := (t.apply cfg s f).1) (r := y)
    (fun a ha => hg.frame a (hin a ha))
  refine ⟨⟨wt_apply cfg t s f r h, wt_iff_snap.mpr ⟨Y, by rw [e1]; exact hY⟩, ?_⟩, e1⟩
  intro a har haf
  rw [e2] at haf
  have h1 := hin a haf
  have h2 := reach_closed hg.closed (mem_footprint_reach har) (hge r h).1
  omega

theorem wt_input_of_ok (cfg : Cfg) (t : Tr) (s : Store) (f r : Nat) (h : (t.apply cfg s f).2 = .ok r) :
    WT s f := by
  cases hS : snap s f with
  | none => rw [apply_of_snap_none cfg t hS] at h; cases h
  | some F => exact wt_iff_snap.mpr ⟨F, hS⟩

end Heap
end Cnfgen
