/-
C15, `grid` / `torus`: the edge relation of `networkx.grid_graph(dims, periodic)` as modelled in
`Nx.gridProduct` (paths / cycles, iterated `cartesian_product`), in terms of mixed-radix coordinates
of the node positions (first dimension least significant), the number of edges, and the degrees.
-/
import Lemmas.C15NxBase
import Mathlib.Tactic.Ring
namespace Cnfgen.Nx
open Cnfgen

/-! ### arithmetic of positions -/
theorem mul_add_div' {u n x : Nat} (hx : x < n) : (u * n + x) / n = u := by
  rw [Nat.mul_comm, Nat.mul_add_div (by omega)]; simp [Nat.div_eq_of_lt hx]

theorem mul_add_mod' {u n x : Nat} (hx : x < n) : (u * n + x) % n = x := by
  rw [Nat.mul_comm, Nat.mul_add_mod]; exact Nat.mod_eq_of_lt hx

theorem div_mul_add_mod (r n : Nat) : r / n * n + r % n = r := by
  rw [Nat.mul_comm]; exact Nat.div_add_mod r n

theorem mul_add_lt {a u n x : Nat} (hu : u < a) (hx : x < n) : u * n + x < a * n := by
  have : (u + 1) * n ≤ a * n := Nat.mul_le_mul_right n hu
  rw [Nat.add_mul] at this; omega

/-! ### paths and cycles -/

/-- positions `a`, `b` are neighbours on the path (`periodic = false`) / cycle of length `d` -/
def LineAdj (periodic : Bool) (d a b : Nat) : Prop :=
  a + 1 = b ∨ b + 1 = a ∨ (periodic = true ∧ ((a + 1 = d ∧ b = 0) ∨ (b + 1 = d ∧ a = 0)))

instance (p : Bool) (d a b : Nat) : Decidable (LineAdj p d a b) := by unfold LineAdj; exact inferInstance

theorem mem_pathPairs {d a b : Nat} : (a, b) ∈ pathPairs d ↔ a + 1 = b ∧ b < d := by
  simp only [pathPairs, List.mem_map, List.mem_range, Prod.mk.injEq]
  constructor
  · rintro ⟨i, hi, rfl, rfl⟩; omega
  · rintro ⟨h1, h2⟩; exact ⟨a, by omega, rfl, h1⟩

theorem lineGraph_n (p : Bool) (d : Nat) : (lineGraph p d).n = d := by
  unfold lineGraph; split <;> rfl

theorem lineGraph_E {p : Bool} {d a b : Nat} :
    (lineGraph p d).E a b ↔ a < d ∧ b < d ∧ LineAdj p d a b := by
  unfold lineGraph NxG.E LineAdj
  cases p
  · simp only [Bool.false_eq_true, ↓reduceIte, pathGraph, mem_pathPairs, false_and, or_false]
    omega
  · simp only [↓reduceIte, cycleGraph, List.mem_append, mem_pathPairs, true_and]
    by_cases hd : d = 0
    · subst hd; simp
    · simp only [hd, ↓reduceIte, List.mem_singleton, Prod.mk.injEq]
      omega

theorem lineGraph_WF (p : Bool) (d : Nat) : (lineGraph p d).WF := by
  intro e he
  have h : (lineGraph p d).E e.1 e.2 := Or.inl he
  rw [lineGraph_E] at h
  rw [lineGraph_n]; exact ⟨h.1, h.2.1⟩

theorem lineGraph_loopless {p : Bool} {d : Nat} (h : ¬ (p = true ∧ d = 1)) : (lineGraph p d).Loopless := by
  intro e he
  have hE : (lineGraph p d).E e.1 e.2 := Or.inl he
  rw [lineGraph_E] at hE
  obtain ⟨h1, h2, h3⟩ := hE
  unfold LineAdj at h3
  intro heq
  rw [heq] at h3 h1
  rcases h3 with h3 | h3 | ⟨hp, h3⟩
  · omega
  · omega
  · apply h; refine ⟨hp, ?_⟩; omega

theorem cycle_one_loop : (0, 0) ∈ (lineGraph true 1).tedges := by decide

/-! ### cartesian product -/

theorem mem_product_tedges {A B : NxG} {r s : Nat} :
    (r, s) ∈ (cartesianProduct A B).tedges ↔
      (∃ u v x, (u, v) ∈ A.edges ∧ x < B.n ∧ r = u * B.n + x ∧ s = v * B.n + x) ∨
      (∃ x u v, x < A.n ∧ (u, v) ∈ B.edges ∧ r = x * B.n + u ∧ s = x * B.n + v) := by
  simp only [cartesianProduct, List.mem_append, List.mem_flatMap, List.mem_map, List.mem_range, Prod.mk.injEq]
  constructor
  · rintro (⟨⟨u, v⟩, he, x, hx, rfl, rfl⟩ | ⟨x, hx, ⟨u, v⟩, he, rfl, rfl⟩)
    · exact Or.inl ⟨u, v, x, he, hx, rfl, rfl⟩
    · exact Or.inr ⟨x, u, v, hx, he, rfl, rfl⟩
  · rintro (⟨u, v, x, he, hx, rfl, rfl⟩ | ⟨x, u, v, hx, he, rfl, rfl⟩)
    · exact Or.inl ⟨(u, v), he, x, hx, rfl, rfl⟩
    · exact Or.inr ⟨x, hx, (u, v), he, rfl, rfl⟩

theorem product_n (A B : NxG) : (cartesianProduct A B).n = A.n * B.n := rfl

theorem product_WF {A B : NxG} (hA : A.WF) (hB : B.WF) : (cartesianProduct A B).WF := by
  rintro ⟨r, s⟩ he
  rw [product_n]
  rcases mem_product_tedges.1 he with ⟨u, v, x, hm, hx, rfl, rfl⟩ | ⟨x, u, v, hx, hm, rfl, rfl⟩
  · have h := NxG.mem_edges.1 hm
    have hr := hA.of_E h.2.2
    exact ⟨mul_add_lt hr.1 hx, mul_add_lt hr.2 hx⟩
  · have h := NxG.mem_edges.1 hm
    have hr := hB.of_E h.2.2
    exact ⟨mul_add_lt hx hr.1, mul_add_lt hx hr.2⟩

/-- two nodes of the product are joined iff they agree in one component and are joined in the other -/
theorem product_E {A B : NxG} (hA : A.WF) (hB : B.WF) {r s : Nat} :
    (cartesianProduct A B).E r s ↔ r < A.n * B.n ∧ s < A.n * B.n ∧
      ((A.E (r / B.n) (s / B.n) ∧ r % B.n = s % B.n) ∨ (r / B.n = s / B.n ∧ B.E (r % B.n) (s % B.n))) := by
  constructor
  · intro hE
    have hr := (product_WF hA hB).of_E hE
    rw [product_n] at hr
    refine ⟨hr.1, hr.2, ?_⟩
    have key : ∀ r s, (r, s) ∈ (cartesianProduct A B).tedges →
        ((A.E (r / B.n) (s / B.n) ∧ r % B.n = s % B.n) ∨ (r / B.n = s / B.n ∧ B.E (r % B.n) (s % B.n))) := by
      intro r s he
      rcases mem_product_tedges.1 he with ⟨u, v, x, hm, hx, rfl, rfl⟩ | ⟨x, u, v, hx, hm, rfl, rfl⟩
      · left
        rw [mul_add_div' hx, mul_add_div' hx, mul_add_mod' hx, mul_add_mod' hx]
        exact ⟨(NxG.mem_edges.1 hm).2.2, rfl⟩
      · right
        have h := NxG.mem_edges.1 hm
        have hr := hB.of_E h.2.2
        rw [mul_add_div' hr.1, mul_add_div' hr.2, mul_add_mod' hr.1, mul_add_mod' hr.2]
        exact ⟨rfl, h.2.2⟩
    rcases hE with he | he
    · exact key r s he
    · rcases key s r he with ⟨h1, h2⟩ | ⟨h1, h2⟩
      · exact Or.inl ⟨NxG.E_comm.1 h1, h2.symm⟩
      · exact Or.inr ⟨h1.symm, NxG.E_comm.1 h2⟩
  · rintro ⟨hr, hs, h⟩
    have hpos : 0 < B.n := by
      rcases Nat.eq_zero_or_pos B.n with h0 | h0
      · rw [h0] at hr; simp at hr
      · exact h0
    have key : ∀ r s, r < A.n * B.n → s < A.n * B.n → r / B.n ≤ s / B.n → r % B.n ≤ s % B.n →
        ((A.E (r / B.n) (s / B.n) ∧ r % B.n = s % B.n) ∨ (r / B.n = s / B.n ∧ B.E (r % B.n) (s % B.n))) →
        (r, s) ∈ (cartesianProduct A B).tedges := by
      intro r s hr hs hle1 hle2 h
      rw [mem_product_tedges]
      rcases h with ⟨h1, h2⟩ | ⟨h1, h2⟩
      · left
        refine ⟨r / B.n, s / B.n, r % B.n, ?_, Nat.mod_lt _ hpos, (div_mul_add_mod r B.n).symm, ?_⟩
        · exact NxG.mem_edges.2 ⟨(hA.of_E h1).1, hle1, h1⟩
        · rw [h2]; exact (div_mul_add_mod s B.n).symm
      · right
        refine ⟨r / B.n, r % B.n, s % B.n, ?_, ?_, (div_mul_add_mod r B.n).symm, ?_⟩
        · rw [Nat.mul_comm] at hr; exact Nat.div_lt_of_lt_mul hr
        · exact NxG.mem_edges.2 ⟨(hB.of_E h2).1, hle2, h2⟩
        · rw [h1]; exact (div_mul_add_mod s B.n).symm
    rcases h with ⟨h1, h2⟩ | ⟨h1, h2⟩
    · rcases Nat.le_total (r / B.n) (s / B.n) with hle | hle
      · exact Or.inl (key r s hr hs hle (by omega) (Or.inl ⟨h1, h2⟩))
      · exact Or.inr (key s r hs hr hle (by omega) (Or.inl ⟨NxG.E_comm.1 h1, h2.symm⟩))
    · rcases Nat.le_total (r % B.n) (s % B.n) with hle | hle
      · exact Or.inl (key r s hr hs (by omega) hle (Or.inr ⟨h1, h2⟩))
      · exact Or.inr (key s r hs hr (by omega) hle (Or.inr ⟨h1.symm, NxG.E_comm.1 h2⟩))

theorem product_loopless {A B : NxG} (hA : A.WF) (hB : B.WF) (lA : A.Loopless) (lB : B.Loopless) :
    (cartesianProduct A B).Loopless := by
  rintro ⟨r, s⟩ he heq
  simp only at heq
  subst heq
  have hE : (cartesianProduct A B).E r r := Or.inl he
  rw [product_E hA hB] at hE
  rcases hE.2.2 with ⟨h, _⟩ | ⟨_, h⟩
  · exact lA.of_E h rfl
  · exact lB.of_E h rfl

/-! ### coordinates -/

/-- the product of the dimensions -/
def prodL : List Nat → Nat
  | [] => 1
  | d :: ds => d * prodL ds

/-- mixed-radix digits of a position, first dimension least significant: the node of
`networkx.grid_graph(dims)` at position `r` of the sorted order is the tuple `(x_k, …, x_1)` with
`coords dims r = [x_1, …, x_k]` -/
def coords : List Nat → Nat → List Nat
  | [], _ => []
  | d :: ds, r => (r % d) :: coords ds (r / d)

theorem length_coords (ds : List Nat) (r : Nat) : (coords ds r).length = ds.length := by
  induction ds generalizing r with
  | nil => rfl
  | cons d ds ih => simp [coords, ih]

theorem prodL_append (xs ys : List Nat) : prodL (xs ++ ys) = prodL xs * prodL ys := by
  induction xs with
  | nil => simp [prodL]
  | cons x xs ih => simp [prodL, ih, Nat.mul_assoc]

theorem prodL_snoc (ds : List Nat) (d : Nat) : prodL (ds ++ [d]) = d * prodL ds := by
  rw [prodL_append]; simp [prodL, Nat.mul_comm]

theorem coords_snoc (ds : List Nat) (d r : Nat) :
    coords (ds ++ [d]) r = coords ds (r % prodL ds) ++ [(r / prodL ds) % d] := by
  induction ds generalizing r with
  | nil => simp [coords, prodL, Nat.mod_one]
  | cons x xs ih =>
    simp only [List.cons_append, coords, prodL, ih]
    rw [Nat.mod_mul_right_mod, Nat.mod_mul_right_div_self, Nat.div_div_eq_div_mul]

theorem coords_inj {ds : List Nat} {r s : Nat} (hr : r < prodL ds) (hs : s < prodL ds)
    (h : coords ds r = coords ds s) : r = s := by
  induction ds generalizing r s with
  | nil => simp [prodL] at hr hs; omega
  | cons d ds ih =>
    simp only [coords, List.cons.injEq] at h
    simp only [prodL] at hr hs
    have h2 := ih (Nat.div_lt_of_lt_mul hr) (Nat.div_lt_of_lt_mul hs) h.2
    have e1 := Nat.div_add_mod r d
    have e2 := Nat.div_add_mod s d
    rw [h2, h.1] at e1
    omega

theorem coords_lt {ds : List Nat} {r : Nat} (hpos : ∀ d ∈ ds, 0 < d) :
    List.Forall₂ (fun x d => x < d) (coords ds r) ds := by
  induction ds generalizing r with
  | nil => exact List.Forall₂.nil
  | cons d ds ih =>
    exact List.Forall₂.cons (Nat.mod_lt _ (hpos d (by simp))) (ih (fun x hx => hpos x (by simp [hx])))

theorem prodL_pos {ds : List Nat} (h : ∀ d ∈ ds, 0 < d) : 0 < prodL ds := by
  induction ds with
  | nil => simp [prodL]
  | cons x xs ih =>
    simp only [prodL]
    exact Nat.mul_pos (h x (by simp)) (ih (fun y hy => h y (by simp [hy])))

/-- coordinate vectors `x`, `y` differ in exactly one coordinate, and there by a step along the
path / cycle of that dimension -/
def GridAdj (p : Bool) : List Nat → List Nat → List Nat → Prop
  | d :: ds, a :: x, b :: y => (LineAdj p d a b ∧ x = y) ∨ (a = b ∧ GridAdj p ds x y)
  | _, _, _ => False

theorem snoc_eq_snoc {xs ys : List Nat} {a b : Nat} (h : xs.length = ys.length) :
    xs ++ [a] = ys ++ [b] ↔ xs = ys ∧ a = b := by
  constructor
  · intro he
    have := List.append_inj he h
    exact ⟨this.1, by simpa using this.2⟩
  · rintro ⟨rfl, rfl⟩; rfl

theorem gridAdj_snoc (p : Bool) (ds : List Nat) (d : Nat) (x y : List Nat) (a b : Nat)
    (hx : x.length = ds.length) (hy : y.length = ds.length) :
    GridAdj p (ds ++ [d]) (x ++ [a]) (y ++ [b]) ↔ (GridAdj p ds x y ∧ a = b) ∨ (x = y ∧ LineAdj p d a b) := by
  induction ds generalizing x y with
  | nil =>
    have hx0 : x = [] := List.eq_nil_of_length_eq_zero hx
    have hy0 : y = [] := List.eq_nil_of_length_eq_zero hy
    subst hx0 hy0
    simp [GridAdj]
  | cons e es ih =>
    match x, y, hx, hy with
    | x0 :: xs, y0 :: ys, hx, hy =>
      simp only [List.length_cons, Nat.add_right_cancel_iff] at hx hy
      simp only [List.cons_append, GridAdj, ih xs ys hx hy, List.cons.injEq, snoc_eq_snoc (hx.trans hy.symm)]
      constructor
      · rintro (⟨h1, h2, h3⟩ | ⟨h1, (⟨h2, h3⟩ | ⟨h2, h3⟩)⟩)
        · exact Or.inl ⟨Or.inl ⟨h1, h2⟩, h3⟩
        · exact Or.inl ⟨Or.inr ⟨h1, h2⟩, h3⟩
        · exact Or.inr ⟨⟨h1, h2⟩, h3⟩
      · rintro (⟨(⟨h1, h2⟩ | ⟨h1, h2⟩), h3⟩ | ⟨⟨h1, h2⟩, h3⟩)
        · exact Or.inl ⟨h1, h2, h3⟩
        · exact Or.inr ⟨h1, Or.inl ⟨h2, h3⟩⟩
        · exact Or.inr ⟨h1, Or.inr ⟨h2, h3⟩⟩

/-! ### the grid -/

theorem gridProduct_single (p : Bool) (d : Nat) : gridProduct p [d] = lineGraph p d := rfl

theorem gridProduct_snoc (p : Bool) {ds : List Nat} (hne : ds ≠ []) (d : Nat) :
    gridProduct p (ds ++ [d]) = cartesianProduct (lineGraph p d) (gridProduct p ds) := by
  match ds, hne with
  | d0 :: rest, _ => simp [gridProduct, List.foldl_append]

/-- induction on a list from the right -/
theorem snoc_induction {P : List Nat → Prop} (h0 : P []) (h1 : ∀ ds d, P ds → P (ds ++ [d])) : ∀ ds, P ds := by
  intro ds
  have : ∀ l : List Nat, P l.reverse := by
    intro l
    induction l with
    | nil => exact h0
    | cons x xs ih => rw [List.reverse_cons]; exact h1 _ _ ih
  have h := this ds.reverse
  rwa [List.reverse_reverse] at h

/-- `grid_graph(dims, periodic)` before relabelling: `prod dims` nodes; two positions are joined iff
their coordinate vectors are neighbours in the grid / torus -/
theorem gridProduct_spec (p : Bool) : ∀ ds : List Nat, ds ≠ [] →
    (gridProduct p ds).n = prodL ds ∧ (gridProduct p ds).WF ∧
    ∀ r s, (gridProduct p ds).E r s ↔ r < prodL ds ∧ s < prodL ds ∧ GridAdj p ds (coords ds r) (coords ds s) := by
  apply snoc_induction
  · intro h; exact absurd rfl h
  · intro ds d ih _
    by_cases hne : ds = []
    · subst hne
      simp only [List.nil_append, gridProduct_single, lineGraph_n, prodL, Nat.mul_one]
      refine ⟨trivial, lineGraph_WF p d, ?_⟩
      intro r s
      rw [lineGraph_E]
      constructor
      · rintro ⟨h1, h2, h3⟩
        refine ⟨h1, h2, ?_⟩
        simp only [coords, GridAdj, Nat.mod_eq_of_lt h1, Nat.mod_eq_of_lt h2]
        exact Or.inl ⟨h3, trivial⟩
      · rintro ⟨h1, h2, h3⟩
        refine ⟨h1, h2, ?_⟩
        simp only [coords, GridAdj, Nat.mod_eq_of_lt h1, Nat.mod_eq_of_lt h2] at h3
        rcases h3 with ⟨h3, _⟩ | ⟨_, h3⟩
        · exact h3
        · exact absurd h3 id
    · obtain ⟨hn, hW, hE⟩ := ih hne
      rw [gridProduct_snoc p hne, prodL_snoc]
      refine ⟨by rw [product_n, lineGraph_n, hn], product_WF (lineGraph_WF p d) hW, ?_⟩
      intro r s
      rw [product_E (lineGraph_WF p d) hW, lineGraph_n, hn, lineGraph_E]
      constructor
      · rintro ⟨hr, hs, h⟩
        refine ⟨hr, hs, ?_⟩
        rw [coords_snoc, coords_snoc, gridAdj_snoc p ds d _ _ _ _ (length_coords _ _) (length_coords _ _)]
        rcases h with ⟨⟨h1, h2, h3⟩, h4⟩ | ⟨h1, h2⟩
        · right
          rw [Nat.mod_eq_of_lt h1, Nat.mod_eq_of_lt h2, h4]
          exact ⟨rfl, h3⟩
        · left
          rw [h1]
          exact ⟨((hE _ _).1 h2).2.2, rfl⟩
      · rintro ⟨hr, hs, h⟩
        refine ⟨hr, hs, ?_⟩
        have hP : 0 < prodL ds := by
          rcases Nat.eq_zero_or_pos (prodL ds) with h0 | h0
          · rw [h0] at hr; simp at hr
          · exact h0
        have hrd : r / prodL ds < d := Nat.div_lt_of_lt_mul (by rw [Nat.mul_comm]; exact hr)
        have hsd : s / prodL ds < d := Nat.div_lt_of_lt_mul (by rw [Nat.mul_comm]; exact hs)
        rw [coords_snoc, coords_snoc, gridAdj_snoc p ds d _ _ _ _ (length_coords _ _) (length_coords _ _),
          Nat.mod_eq_of_lt hrd, Nat.mod_eq_of_lt hsd] at h
        rcases h with ⟨h1, h2⟩ | ⟨h1, h2⟩
        · right
          exact ⟨h2, (hE _ _).2 ⟨Nat.mod_lt _ hP, Nat.mod_lt _ hP, h1⟩⟩
        · left
          exact ⟨⟨hrd, hsd, h2⟩, coords_inj (Nat.mod_lt _ hP) (Nat.mod_lt _ hP) h1⟩

theorem gridProduct_loopless (p : Bool) : ∀ ds : List Nat, ds ≠ [] → ¬ (p = true ∧ 1 ∈ ds) →
    (gridProduct p ds).Loopless := by
  apply snoc_induction
  · intro h; exact absurd rfl h
  · intro ds d ih _ h1
    have hd : ¬ (p = true ∧ d = 1) := fun h => h1 ⟨h.1, by simp [h.2]⟩
    by_cases hne : ds = []
    · subst hne; exact lineGraph_loopless hd
    · rw [gridProduct_snoc p hne]
      exact product_loopless (lineGraph_WF p d) (gridProduct_spec p ds hne).2.1 (lineGraph_loopless hd)
        (ih hne (fun h => h1 ⟨h.1, by simp [h.2]⟩))

/-- a periodic dimension of size 1 puts a self-loop on node 0 … -/
theorem gridProduct_loop (ds : List Nat) (h1 : 1 ∈ ds) (hpos : ∀ d ∈ ds, 0 < d) :
    (gridProduct true ds).E 0 0 := by
  have hne : ds ≠ [] := by intro h; rw [h] at h1; cases h1
  revert h1 hpos hne
  induction ds using snoc_induction with
  | h0 => intro h; cases h
  | h1 ds d ih =>
    intro h1 hpos _
    by_cases hne : ds = []
    · subst hne
      simp only [List.nil_append, List.mem_singleton] at h1
      subst h1
      exact Or.inl cycle_one_loop
    · have hW := (gridProduct_spec true ds hne).2.1
      have hn := (gridProduct_spec true ds hne).1
      have hP : 0 < prodL ds := prodL_pos (fun x hx => hpos x (by simp [hx]))
      have hd : 0 < d := hpos d (by simp)
      rw [gridProduct_snoc true hne, product_E (lineGraph_WF true d) hW, lineGraph_n, hn]
      refine ⟨Nat.mul_pos hd hP, Nat.mul_pos hd hP, ?_⟩
      simp only [Nat.zero_div, Nat.zero_mod]
      rcases List.mem_append.1 h1 with h | h
      · exact Or.inr ⟨trivial, ih h (fun x hx => hpos x (by simp [hx])) hne⟩
      · simp only [List.mem_singleton] at h
        subst h
        exact Or.inl ⟨Or.inl cycle_one_loop, trivial⟩

/-! ### counting edges -/

theorem length_flatMap_const {α β} (l : List α) (f : α → List β) (c : Nat) (h : ∀ a ∈ l, (f a).length = c) :
    (l.flatMap f).length = l.length * c := by
  induction l with
  | nil => simp
  | cons a as ih =>
    rw [List.flatMap_cons, List.length_append, h a (by simp), ih (fun b hb => h b (by simp [hb])), List.length_cons]
    rw [Nat.add_mul, Nat.one_mul, Nat.add_comm]

theorem product_oriented {A B : NxG} (lA : A.Loopless) (lB : B.Loopless) : (cartesianProduct A B).Oriented := by
  rintro ⟨r, s⟩ he
  rcases mem_product_tedges.1 he with ⟨u, v, x, hm, hx, rfl, rfl⟩ | ⟨x, u, v, hx, hm, rfl, rfl⟩
  · have h := NxG.mem_edges.1 hm
    have hne := lA.of_E h.2.2
    have hlt : u < v := by omega
    have : u * B.n < v * B.n := Nat.mul_lt_mul_of_pos_right hlt (by omega)
    simp only; omega
  · have h := NxG.mem_edges.1 hm
    have hne := lB.of_E h.2.2
    simp only; omega

theorem product_tedges_nodup {A B : NxG} (hB : B.WF) (lA : A.Loopless) :
    (cartesianProduct A B).tedges.Nodup := by
  unfold cartesianProduct
  simp only
  apply List.Nodup.append
  · rw [List.nodup_flatMap]
    constructor
    · intro e _
      apply List.nodup_range.map
      intro x y h
      simp only [Prod.mk.injEq] at h
      omega
    · apply (NxG.nodup_edges A).pairwise_of_forall_ne
      intro e he f hf hne
      simp only [Function.onFun]
      intro z hz1 hz2
      simp only [List.mem_map, List.mem_range] at hz1 hz2
      obtain ⟨x, hx, rfl⟩ := hz1
      obtain ⟨y, hy, h⟩ := hz2
      simp only [Prod.mk.injEq] at h
      apply hne
      have h1 := congrArg (· / B.n) h.1
      have h2 := congrArg (· / B.n) h.2
      simp only [mul_add_div' hx, mul_add_div' hy] at h1 h2
      exact Prod.ext h1.symm h2.symm
  · rw [List.nodup_flatMap]
    constructor
    · intro x _
      apply (NxG.nodup_edges B).map
      intro e f h
      simp only [Prod.mk.injEq] at h
      exact Prod.ext (by omega) (by omega)
    · apply List.nodup_range.pairwise_of_forall_ne
      intro x _ y _ hne
      simp only [Function.onFun]
      intro z hz1 hz2
      simp only [List.mem_map] at hz1 hz2
      obtain ⟨e, he, rfl⟩ := hz1
      obtain ⟨f, hf, h⟩ := hz2
      simp only [Prod.mk.injEq] at h
      apply hne
      have he1 := (hB.of_E (NxG.mem_edges'.1 he).2.2).1
      have hf1 := (hB.of_E (NxG.mem_edges'.1 hf).2.2).1
      have h1 := congrArg (· / B.n) h.1
      simp only [mul_add_div' he1, mul_add_div' hf1] at h1
      exact h1.symm
  · intro z hz1 hz2
    simp only [List.mem_flatMap, List.mem_map, List.mem_range] at hz1 hz2
    obtain ⟨e, he, x, hx, rfl⟩ := hz1
    obtain ⟨y, _, f, hf, h⟩ := hz2
    simp only [Prod.mk.injEq] at h
    have hE := NxG.mem_edges'.1 he
    have hne := lA.of_E hE.2.2
    have hf1 := hB.of_E (NxG.mem_edges'.1 hf).2.2
    have h1 := congrArg (· / B.n) h.1
    have h2 := congrArg (· / B.n) h.2
    simp only [mul_add_div' hx, mul_add_div' hf1.1, mul_add_div' hf1.2] at h1 h2
    exact hne (h1.symm.trans h2)

/-- |E(A □ B)| = |E(A)|·|V(B)| + |V(A)|·|E(B)| -/
theorem product_edges_length {A B : NxG} (hA : A.WF) (hB : B.WF) (lA : A.Loopless) (lB : B.Loopless) :
    (cartesianProduct A B).edges.length = A.edges.length * B.n + A.n * B.edges.length := by
  rw [NxG.length_edges (product_WF hA hB) (product_oriented lA lB) (product_tedges_nodup hB lA)]
  unfold cartesianProduct
  simp only [List.length_append]
  rw [length_flatMap_const _ _ B.n (by intro a _; simp), length_flatMap_const _ _ B.edges.length (by intro a _; simp)]
  simp

/-- number of edges of the path / cycle on `d` nodes (the cycle on 2 nodes is one edge) -/
def lineEdges (p : Bool) (d : Nat) : Nat := if p = true ∧ 3 ≤ d then d else d - 1

/-- `Σ_i lineEdges d_i · Π_{j≠i} d_j` -/
def gridEdgeCount (p : Bool) : List Nat → Nat
  | [] => 0
  | d :: ds => lineEdges p d * prodL ds + d * gridEdgeCount p ds

theorem gridEdgeCount_snoc (p : Bool) (ds : List Nat) (d : Nat) :
    gridEdgeCount p (ds ++ [d]) = lineEdges p d * prodL ds + d * gridEdgeCount p ds := by
  induction ds with
  | nil => simp [gridEdgeCount, prodL]
  | cons x xs ih =>
    simp only [List.cons_append, gridEdgeCount, ih, prodL, prodL_snoc]
    ring

theorem nodup_pathPairs (d : Nat) : (pathPairs d).Nodup := by
  apply List.nodup_range.map
  intro a b h
  simp only [Prod.mk.injEq] at h
  exact h.1

theorem lineGraph_edges_length {p : Bool} {d : Nat} (h : ¬ (p = true ∧ d = 1)) :
    (lineGraph p d).edges.length = lineEdges p d := by
  by_cases hp : p = true ∧ 3 ≤ d
  · -- the cycle on at least three nodes
    obtain ⟨rfl, hd⟩ := hp
    have hE : ∀ u v, (lineGraph true d).E u v ↔ NxG.E ⟨d, pathPairs d ++ [(0, d - 1)]⟩ u v := by
      intro u v
      rw [lineGraph_E]
      simp only [NxG.E, LineAdj, List.mem_append, mem_pathPairs, List.mem_singleton, Prod.mk.injEq, true_and]
      omega
    rw [NxG.edges_length_congr (H := ⟨d, pathPairs d ++ [(0, d - 1)]⟩) (lineGraph_n true d) hE]
    rw [NxG.length_edges]
    · simp [lineEdges, hd, pathPairs]; omega
    · intro e he
      simp only [List.mem_append, List.mem_singleton] at he
      rcases he with he | he
      · obtain ⟨a, b⟩ := e; have := mem_pathPairs.1 he; simp only; omega
      · subst he; simp only; omega
    · intro e he
      simp only [List.mem_append, List.mem_singleton] at he
      rcases he with he | he
      · obtain ⟨a, b⟩ := e; have := mem_pathPairs.1 he; simp only; omega
      · subst he; simp only; omega
    · apply List.Nodup.append (nodup_pathPairs d) (by simp)
      intro z hz1 hz2
      simp only [List.mem_singleton] at hz2
      subst hz2
      have := mem_pathPairs.1 hz1
      omega
  · have hle : lineEdges p d = d - 1 := by simp [lineEdges, hp]
    rw [hle]
    by_cases hp2 : p = true
    · subst hp2
      have hd : d = 0 ∨ d = 2 := by
        have : ¬ 3 ≤ d := fun h3 => hp ⟨rfl, h3⟩
        have : d ≠ 1 := fun h1 => h ⟨rfl, h1⟩
        omega
      rcases hd with rfl | rfl <;> decide
    · have hpf : p = false := by cases p <;> simp_all
      subst hpf
      have hG : lineGraph false d = ⟨d, pathPairs d⟩ := rfl
      rw [hG, NxG.length_edges]
      · simp [pathPairs]
      · intro e he
        obtain ⟨a, b⟩ := e; have := mem_pathPairs.1 he; simp only; omega
      · intro e he
        obtain ⟨a, b⟩ := e; have := mem_pathPairs.1 he; simp only; omega
      · exact nodup_pathPairs d

/-- the number of edges of `grid_graph(dims, periodic)` -/
theorem gridProduct_edges_length (p : Bool) : ∀ ds : List Nat, ds ≠ [] → ¬ (p = true ∧ 1 ∈ ds) →
    (gridProduct p ds).edges.length = gridEdgeCount p ds := by
  apply snoc_induction
  · intro h; exact absurd rfl h
  · intro ds d ih _ h1
    have hd : ¬ (p = true ∧ d = 1) := fun h => h1 ⟨h.1, by simp [h.2]⟩
    rw [gridEdgeCount_snoc]
    by_cases hne : ds = []
    · subst hne
      simp [gridProduct_single, lineGraph_edges_length hd, gridEdgeCount, prodL]
    · have h1' : ¬ (p = true ∧ 1 ∈ ds) := fun h => h1 ⟨h.1, by simp [h.2]⟩
      obtain ⟨hn, hW, _⟩ := gridProduct_spec p ds hne
      rw [gridProduct_snoc p hne, product_edges_length (lineGraph_WF p d) hW (lineGraph_loopless hd)
        (gridProduct_loopless p ds hne h1'), lineGraph_edges_length hd, hn, lineGraph_n, ih hne h1']

/-! ### degrees -/

/-- deg_{A □ B}(a, b) = deg_A(a) + deg_B(b) -/
theorem product_deg {A B : NxG} (hA : A.WF) (hB : B.WF) (lA : A.Loopless) {r : Nat} (hr : r < A.n * B.n) :
    (cartesianProduct A B).deg r = A.deg (r / B.n) + B.deg (r % B.n) := by
  have hpos : 0 < B.n := by
    rcases Nat.eq_zero_or_pos B.n with h0 | h0
    · rw [h0] at hr; simp at hr
    · exact h0
  have hg : r % B.n < B.n := Nat.mod_lt _ hpos
  unfold NxG.deg
  rw [← List.length_map (f := fun a' => a' * B.n + r % B.n) (as := A.nbrList (r / B.n)),
    ← List.length_map (f := fun g' => r / B.n * B.n + g') (as := B.nbrList (r % B.n)), ← List.length_append]
  apply List.Perm.length_eq
  rw [List.perm_ext_iff_of_nodup (NxG.nodup_nbrList _ _)]
  · intro s
    rw [NxG.mem_nbrList, product_E hA hB, product_n]
    simp only [List.mem_append, List.mem_map, NxG.mem_nbrList]
    constructor
    · rintro ⟨hs, _, _, h⟩
      rcases h with ⟨h1, h2⟩ | ⟨h1, h2⟩
      · left
        refine ⟨s / B.n, ⟨(hA.of_E h1).2, h1⟩, ?_⟩
        rw [h2]; exact div_mul_add_mod s B.n
      · right
        refine ⟨s % B.n, ⟨Nat.mod_lt _ hpos, h2⟩, ?_⟩
        rw [h1]; exact div_mul_add_mod s B.n
    · rintro (⟨a', ⟨ha', hE⟩, rfl⟩ | ⟨g', ⟨hg', hE⟩, rfl⟩)
      · have hlt := mul_add_lt ha' hg
        refine ⟨hlt, hr, hlt, Or.inl ?_⟩
        rw [mul_add_div' hg, mul_add_mod' hg]
        exact ⟨hE, rfl⟩
      · have hlt : r / B.n * B.n + g' < A.n * B.n :=
          mul_add_lt (Nat.div_lt_of_lt_mul (by rw [Nat.mul_comm]; exact hr)) hg'
        refine ⟨hlt, hr, hlt, Or.inr ?_⟩
        rw [mul_add_div' hg', mul_add_mod' hg']
        exact ⟨rfl, hE⟩
  · apply List.Nodup.append
    · apply (NxG.nodup_nbrList _ _).map
      intro x y h
      simp only at h
      have := Nat.add_right_cancel h
      exact Nat.eq_of_mul_eq_mul_right hpos this
    · apply (NxG.nodup_nbrList _ _).map
      intro x y h
      simp only at h
      omega
    · intro z hz1 hz2
      simp only [List.mem_map, NxG.mem_nbrList] at hz1 hz2
      obtain ⟨a', ⟨_, hE⟩, rfl⟩ := hz1
      obtain ⟨g', ⟨hg', _⟩, h⟩ := hz2
      have h1 := congrArg (· / B.n) h
      simp only [mul_add_div' hg, mul_add_div' hg'] at h1
      exact lA.of_E hE h1

/-- on a cycle of length at least 3 every node has exactly two neighbours -/
theorem cycle_deg {d a : Nat} (hd : 3 ≤ d) (ha : a < d) : (lineGraph true d).deg a = 2 := by
  unfold NxG.deg
  have : (lineGraph true d).nbrList a |>.Perm [if a + 1 = d then 0 else a + 1, if a = 0 then d - 1 else a - 1] := by
    rw [List.perm_ext_iff_of_nodup (NxG.nodup_nbrList _ _)]
    · intro s
      rw [NxG.mem_nbrList, lineGraph_n, lineGraph_E]
      simp only [LineAdj, true_and, List.mem_cons, List.not_mem_nil, or_false]
      split <;> split <;> omega
    · simp only [List.nodup_cons, List.mem_singleton, List.not_mem_nil, not_false_eq_true, List.nodup_nil, and_true]
      split <;> split <;> omega
  rw [this.length_eq]; rfl

/-- the torus with all dimensions at least 3 is `2k`-regular -/
theorem torus_deg : ∀ ds : List Nat, ds ≠ [] → (∀ d ∈ ds, 3 ≤ d) → ∀ r, r < prodL ds →
    (gridProduct true ds).deg r = 2 * ds.length := by
  apply snoc_induction
  · intro h; exact absurd rfl h
  · intro ds d ih _ h3 r hr
    have hd : 3 ≤ d := h3 d (by simp)
    rw [prodL_snoc] at hr
    by_cases hne : ds = []
    · subst hne
      simp only [prodL, Nat.mul_one] at hr
      simp [gridProduct_single, cycle_deg hd hr]
    · have h3' : ∀ x ∈ ds, 3 ≤ x := fun x hx => h3 x (by simp [hx])
      obtain ⟨hn, hW, _⟩ := gridProduct_spec true ds hne
      have hP : 0 < prodL ds := prodL_pos (fun x hx => by have := h3' x hx; omega)
      rw [gridProduct_snoc true hne, product_deg (lineGraph_WF true d) hW
        (lineGraph_loopless (by omega)) (by rw [lineGraph_n, hn]; exact hr), hn,
        cycle_deg hd (Nat.div_lt_of_lt_mul (by rw [Nat.mul_comm]; exact hr)), ih hne h3' _ (Nat.mod_lt _ hP)]
      simp only [List.length_append, List.length_singleton]
      omega

/-! ### coordinates by index -/

/-- coordinate `i` of position `r`: `(r / (d_1 ⋯ d_i)) % d_{i+1}` -/
theorem coords_getD (ds : List Nat) (r i : Nat) (hi : i < ds.length) :
    (coords ds r).getD i 0 = r / prodL (ds.take i) % ds.getD i 0 := by
  induction ds generalizing r i with
  | nil => simp at hi
  | cons d ds ih =>
    cases i with
    | zero => simp [coords, prodL]
    | succ j =>
      have hj : j < ds.length := by simpa using hi
      simp only [coords, List.getD_cons_succ, List.take_succ_cons, prodL, ih (r / d) j hj, Nat.div_div_eq_div_mul]

/-- `GridAdj` spelled out: exactly one coordinate differs, and there by a step on the line of that dimension -/
theorem gridAdj_iff_index (p : Bool) : ∀ (ds x y : List Nat), x.length = ds.length → y.length = ds.length →
    (GridAdj p ds x y ↔ ∃ i, i < ds.length ∧ LineAdj p (ds.getD i 0) (x.getD i 0) (y.getD i 0) ∧
      ∀ j, j < ds.length → j ≠ i → x.getD j 0 = y.getD j 0) := by
  intro ds
  induction ds with
  | nil => intro x y _ _; simp [GridAdj]
  | cons d ds ih =>
    intro x y hx hy
    match x, y, hx, hy with
    | a :: x, b :: y, hx, hy =>
      simp only [List.length_cons, Nat.add_right_cancel_iff] at hx hy
      simp only [GridAdj]
      constructor
      · rintro (⟨h1, rfl⟩ | ⟨rfl, h2⟩)
        · refine ⟨0, by simp, by simpa using h1, ?_⟩
          intro j _ hj
          cases j with
          | zero => exact absurd rfl hj
          | succ k => simp
        · obtain ⟨i, hi, h3, h4⟩ := (ih x y hx hy).1 h2
          refine ⟨i + 1, by simpa using hi, by simpa using h3, ?_⟩
          intro j hj hne
          cases j with
          | zero => simp
          | succ k =>
            simp only [List.getD_cons_succ]
            exact h4 k (by simpa using hj) (by omega)
      · rintro ⟨i, hi, h3, h4⟩
        cases i with
        | zero =>
          left
          refine ⟨by simpa using h3, ?_⟩
          apply List.ext_getElem (hx.trans hy.symm)
          intro k hk1 hk2
          have := h4 (k + 1) (by simp; omega) (by omega)
          simp only [List.getD_cons_succ] at this
          simpa [List.getD_eq_getElem?_getD, hk1, hk2] using this
        | succ k =>
          right
          have hab := h4 0 (by simp) (by omega)
          simp only [List.getD_cons_zero] at hab
          refine ⟨hab, (ih x y hx hy).2 ⟨k, by simpa using hi, by simpa using h3, ?_⟩⟩
          intro j hj hne
          have := h4 (j + 1) (by simpa using hj) (by omega)
          simpa using this

end Cnfgen.Nx
