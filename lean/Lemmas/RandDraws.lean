/-
Helper lemmas for the draw-consuming monad `Rand.RandM` and its primitives.
-/
import CnfgenModel.Rand.Draws
namespace Cnfgen.Rand

theorem Legal.cons {d : Draw} {ds : List Draw} : Legal (d :: ds) ↔ d.Legal ∧ Legal ds := by
  simp [Legal]

theorem Legal.nil : Legal [] := by simp [Legal]

theorem Legal.append {a b : List Draw} : Legal (a ++ b) ↔ Legal a ∧ Legal b := by
  simp [Legal, List.mem_append, or_imp, forall_and]

namespace RandM
variable {α β : Type}

theorem pure_apply (a : α) (ds : List Draw) : (pure a : RandM α) ds = .ok (a, ds) := rfl

theorem bind_apply (x : RandM α) (f : α → RandM β) (ds : List Draw) :
    (x >>= f) ds = match x ds with
      | .error e => .error e
      | .ok (a, ds') => f a ds' := rfl

theorem bind_eq_ok {x : RandM α} {f : α → RandM β} {ds : List Draw} {r : β × List Draw} :
    (x >>= f) ds = .ok r ↔ ∃ a ds', x ds = .ok (a, ds') ∧ f a ds' = .ok r := by
  rw [bind_apply]
  cases h : x ds with
  | error e => simp
  | ok p =>
    obtain ⟨a, ds'⟩ := p
    simp only [Except.ok.injEq, Prod.mk.injEq]
    constructor
    · intro h; exact ⟨a, ds', ⟨rfl, rfl⟩, h⟩
    · rintro ⟨_, _, ⟨rfl, rfl⟩, h⟩; exact h

theorem bind_eq_error {x : RandM α} {f : α → RandM β} {ds : List Draw} {e : RErr} :
    (x >>= f) ds = .error e ↔
      x ds = .error e ∨ ∃ a ds', x ds = .ok (a, ds') ∧ f a ds' = .error e := by
  rw [bind_apply]
  cases h : x ds with
  | error e' => simp
  | ok p =>
    obtain ⟨a, ds'⟩ := p
    simp only [Except.ok.injEq, Prod.mk.injEq, reduceCtorEq, false_or]
    constructor
    · intro h; exact ⟨a, ds', ⟨rfl, rfl⟩, h⟩
    · rintro ⟨_, _, ⟨rfl, rfl⟩, h⟩; exact h

theorem pure_eq_ok {a : α} {ds : List Draw} {r : α × List Draw} :
    (pure a : RandM α) ds = .ok r ↔ r = (a, ds) := by
  rw [pure_apply]; constructor
  · intro h; cases h; rfl
  · intro h; rw [h]

theorem pure_ne_error {a : α} {ds : List Draw} {e : RErr} : (pure a : RandM α) ds ≠ .error e := by
  rw [pure_apply]; intro h; cases h

theorem raise_apply (e : Err) (ds : List Draw) : (raise e : RandM α) ds = .error (.py e) := rfl

theorem lift_ok (a : α) : (lift (.ok a) : RandM α) = pure a := rfl
theorem lift_error (e : Err) : (lift (.error e) : RandM α) = raise e := rfl

end RandM

/-! ### primitives -/

theorem sample_eq_ok {n k : Nat} {ds : List Draw} {idx : List Nat} {ds' : List Draw} :
    sample n k ds = .ok (idx, ds') ↔ k ≤ n ∧ ds = .sample n k idx :: ds' := by
  unfold sample
  by_cases h : n < k
  · simp [h]; omega
  · simp only [h, if_false]
    cases ds with
    | nil => simp
    | cons d rest =>
      cases d <;> simp
      case sample n' k' idx' =>
        by_cases h2 : n' = n ∧ k' = k
        · obtain ⟨rfl, rfl⟩ := h2
          simp; intros; omega
        · simp [h2]; intro _ h3 h4; exact absurd ⟨h3, h4⟩ h2

theorem sample_eq_error {n k : Nat} {ds : List Draw} {e : RErr} (h : sample n k ds = .error e) :
    (e = .py .valueError ∧ n < k) ∨ (e = .outOfDraws ∧ ds = []) ∨ e = .mismatch := by
  unfold sample at h
  by_cases hk : n < k
  · simp [hk] at h; left; exact ⟨h.symm, hk⟩
  · simp only [hk, if_false] at h
    cases ds with
    | nil => simp at h; right; left; exact ⟨h.symm, rfl⟩
    | cons d rest =>
      right; right
      cases d <;> simp at h <;> try exact h.symm
      case sample n' k' idx' =>
        by_cases h2 : n' = n ∧ k' = k
        · simp [h2] at h
        · simp [h2] at h; exact h.symm

theorem choice_eq_ok {len : Nat} {ds : List Draw} {i : Nat} {ds' : List Draw} :
    choice len ds = .ok (i, ds') ↔ len ≠ 0 ∧ ds = .choice len i :: ds' := by
  unfold choice
  by_cases h : len = 0
  · simp [h]
  · simp only [h, if_false]
    cases ds with
    | nil => simp
    | cons d rest =>
      cases d <;> simp [h]
      case choice len' i' =>
        by_cases h2 : len' = len
        · subst h2; simp
        · simp [h2]

theorem choice_eq_error {len : Nat} {ds : List Draw} {e : RErr} (h : choice len ds = .error e) :
    (e = .py .indexError ∧ len = 0) ∨ (e = .outOfDraws ∧ ds = []) ∨ e = .mismatch := by
  unfold choice at h
  by_cases hk : len = 0
  · simp [hk] at h; left; exact ⟨h.symm, hk⟩
  · simp only [hk, if_false] at h
    cases ds with
    | nil => simp at h; right; left; exact ⟨h.symm, rfl⟩
    | cons d rest =>
      right; right
      cases d <;> simp at h <;> try exact h.symm
      case choice len' i' =>
        by_cases h2 : len' = len
        · simp [h2] at h
        · simp [h2] at h; exact h.symm

theorem randint_eq_ok {a b : Int} {ds : List Draw} {v : Int} {ds' : List Draw} :
    randint a b ds = .ok (v, ds') ↔ a ≤ b ∧ ds = .randint a b v :: ds' := by
  unfold randint
  by_cases h : b < a
  · simp [h]; omega
  · simp only [h, if_false]
    cases ds with
    | nil => simp
    | cons d rest =>
      cases d <;> simp
      case randint a' b' v' =>
        by_cases h2 : a' = a ∧ b' = b
        · obtain ⟨rfl, rfl⟩ := h2
          simp; intros; omega
        · simp [h2]; intro _ h3 h4; exact absurd ⟨h3, h4⟩ h2

theorem randint_eq_error {a b : Int} {ds : List Draw} {e : RErr} (h : randint a b ds = .error e) :
    (e = .py .valueError ∧ b < a) ∨ (e = .outOfDraws ∧ ds = []) ∨ e = .mismatch := by
  unfold randint at h
  by_cases hk : b < a
  · simp [hk] at h; left; exact ⟨h.symm, hk⟩
  · simp only [hk, if_false] at h
    cases ds with
    | nil => simp at h; right; left; exact ⟨h.symm, rfl⟩
    | cons d rest =>
      right; right
      cases d <;> simp at h <;> try exact h.symm
      case randint a' b' v' =>
        by_cases h2 : a' = a ∧ b' = b
        · simp [h2] at h
        · simp [h2] at h; exact h.symm

theorem reseed_apply (σ : Int → List Draw) (seed : Option Int) (rng : List Draw) :
    reseed σ seed rng = .ok ((), match seed with | some s => σ s | none => rng) := by
  cases seed <;> rfl

end Cnfgen.Rand
