/-
Every graph object built by `add_edge` calls is consistent: the hypotheses `GoodBip` /
`GoodSimple` of the family theorems hold for every `BipG.ofEdges` / `SimpleG.ofEdges` value
(that is, for every graph the real classes can represent).
-/
import Lemmas.C01Graph
namespace Cnfgen.Fam
open Cnfgen

theorem getD_modify (l : List (List Nat)) (i j : Nat) (f : List Nat → List Nat) (hi : i < l.length) :
    (l.modify i f).getD j [] = if i = j then f (l.getD j []) else l.getD j [] := by
  rw [List.getD_eq_getElem?_getD, List.getD_eq_getElem?_getD, List.getElem?_modify]
  by_cases h : i = j
  · subst h
    simp [List.getElem?_eq_getElem hi]
  · cases l[j]? <;> simp [h]

theorem mem_insertSorted (l : List Nat) (v x : Nat) : x ∈ insertSorted l v ↔ x = v ∨ x ∈ l := by
  induction l with
  | nil => simp [insertSorted]
  | cons y ys ih =>
    simp only [insertSorted]
    split
    · simp only [List.mem_cons, ih]
      constructor
      · rintro (h | h | h)
        · exact Or.inr (Or.inl h)
        · exact Or.inl h
        · exact Or.inr (Or.inr h)
      · rintro (h | h | h)
        · exact Or.inr (Or.inl h)
        · exact Or.inl h
        · exact Or.inr (Or.inr h)
    · simp

theorem nodup_insertSorted (l : List Nat) (v : Nat) (hl : l.Nodup) (hv : v ∉ l) : (insertSorted l v).Nodup := by
  induction l with
  | nil => simp [insertSorted]
  | cons y ys ih =>
    have hy := List.nodup_cons.1 hl
    simp only [insertSorted]
    split
    · rw [List.nodup_cons]
      refine ⟨?_, ih hy.2 (fun h => hv (by simp [h]))⟩
      rw [mem_insertSorted]
      rintro (h | h)
      · exact hv (by simp [h])
      · exact hy.1 h
    · exact List.nodup_cons.2 ⟨hv, hl⟩

theorem length_insertSorted (l : List Nat) (v : Nat) : (insertSorted l v).length = l.length + 1 := by
  induction l with
  | nil => simp [insertSorted]
  | cons y ys ih => simp only [insertSorted]; split <;> simp [ih]

/-! ### bipartite graphs -/

structure BipInv (B : BipG) : Prop where
  llen : B.ladj.length = B.l + 1
  rlen : B.radj.length = B.r + 1
  rmem : ∀ u v, v ∈ B.rnbrs u ↔ (u, v) ∈ B.edgeset
  lmem : ∀ u v, u ∈ B.lnbrs v ↔ (u, v) ∈ B.edgeset
  range : ∀ u v, (u, v) ∈ B.edgeset → 1 ≤ u ∧ u ≤ B.l ∧ 1 ≤ v ∧ v ≤ B.r
  rnodup : ∀ u, (B.rnbrs u).Nodup
  lnodup : ∀ v, (B.lnbrs v).Nodup
  card : B.edgeset.length = degSum B B.l

theorem getD_replicate_nil (n u : Nat) : (List.replicate n ([] : List Nat)).getD u [] = [] := by
  rw [List.getD_eq_getElem?_getD, List.getElem?_replicate]; split <;> rfl

theorem degSum_congr (B B' : BipG) (n : Nat) (h : ∀ u, 1 ≤ u → u ≤ n → (B'.rnbrs u).length = (B.rnbrs u).length) :
    degSum B' n = degSum B n := by
  induction n with
  | zero => rfl
  | succ n ih =>
    simp only [degSum, ih (fun u a b => h u a (by omega)), h (n + 1) (by omega) (by omega)]

theorem degSum_bump (B B' : BipG) (a n : Nat) (ha1 : 1 ≤ a) (ha : a ≤ n)
    (h : ∀ u, u ≠ a → (B'.rnbrs u).length = (B.rnbrs u).length)
    (h' : (B'.rnbrs a).length = (B.rnbrs a).length + 1) :
    degSum B' n = degSum B n + 1 := by
  induction n with
  | zero => omega
  | succ n ih =>
    simp only [degSum]
    by_cases hn : a = n + 1
    · subst hn
      rw [degSum_congr B B' n (fun u _ hu => h u (by omega)), h']; omega
    · rw [ih (by omega), h (n + 1) (fun e => hn e.symm)]; omega

theorem rnbrs_init (l r u : Nat) : (BipG.init l r).rnbrs u = [] := getD_replicate_nil _ _
theorem lnbrs_init (l r v : Nat) : (BipG.init l r).lnbrs v = [] := getD_replicate_nil _ _

theorem bipInv_init (l r : Nat) : BipInv (BipG.init l r) where
  llen := by simp [BipG.init]
  rlen := by simp [BipG.init]
  rmem u v := by rw [rnbrs_init]; simp [BipG.init]
  lmem u v := by rw [lnbrs_init]; simp [BipG.init]
  range u v h := by simp [BipG.init] at h
  rnodup u := by rw [rnbrs_init]; exact List.nodup_nil
  lnodup v := by rw [lnbrs_init]; exact List.nodup_nil
  card := by
    have : ∀ n, degSum (BipG.init l r) n = 0 := by
      intro n; induction n with
      | zero => rfl
      | succ n ih => simp only [degSum, ih, rnbrs_init, List.length_nil]
    rw [this]; simp [BipG.init]

theorem bipInv_addEdge (B B' : BipG) (u v : Int) (hB : BipInv B) (h : B.addEdge u v = .ok B') :
    BipInv B' := by
  unfold BipG.addEdge at h
  split at h
  · cases h
  · rename_i hr
    have hr : 1 ≤ u ∧ u ≤ B.l ∧ 1 ≤ v ∧ v ≤ B.r := by
      by_cases h' : 1 ≤ u ∧ u ≤ B.l ∧ 1 ≤ v ∧ v ≤ B.r
      · exact h'
      · exact absurd h' hr
    split at h
    · cases h; exact hB
    · rename_i he
      cases h
      have ha1 : 1 ≤ u.toNat := by omega
      have ha2 : u.toNat ≤ B.l := by omega
      have hb1 : 1 ≤ v.toNat := by omega
      have hb2 : v.toNat ≤ B.r := by omega
      have hne : (u.toNat, v.toNat) ∉ B.edgeset := by
        intro hmem
        apply he
        simp only [BipG.hasEdge, Bool.and_eq_true, decide_eq_true_eq, List.contains_iff_mem]
        exact ⟨⟨by omega, by omega⟩, hmem⟩
      have hrn : ∀ x, BipG.rnbrs ⟨B.l, B.r, B.ladj.modify u.toNat (insertSorted · v.toNat),
          B.radj.modify v.toNat (insertSorted · u.toNat), (u.toNat, v.toNat) :: B.edgeset⟩ x
          = if u.toNat = x then insertSorted (B.rnbrs x) v.toNat else B.rnbrs x := by
        intro x; simp only [BipG.rnbrs]; exact getD_modify _ _ _ _ (by rw [hB.llen]; omega)
      have hln : ∀ y, BipG.lnbrs ⟨B.l, B.r, B.ladj.modify u.toNat (insertSorted · v.toNat),
          B.radj.modify v.toNat (insertSorted · u.toNat), (u.toNat, v.toNat) :: B.edgeset⟩ y
          = if v.toNat = y then insertSorted (B.lnbrs y) u.toNat else B.lnbrs y := by
        intro y; simp only [BipG.lnbrs]; exact getD_modify _ _ _ _ (by rw [hB.rlen]; omega)
      refine ⟨by simp [hB.llen], by simp [hB.rlen], ?_, ?_, ?_, ?_, ?_, ?_⟩
      · intro x y
        rw [hrn]
        by_cases hx : u.toNat = x
        · subst hx
          simp only [if_true, mem_insertSorted, hB.rmem, List.mem_cons, Prod.mk.injEq, true_and]
        · simp only [hx, if_false, hB.rmem, List.mem_cons, Prod.mk.injEq]
          constructor
          · exact fun h => Or.inr h
          · rintro (⟨h1, _⟩ | h)
            · exact absurd h1.symm hx
            · exact h
      · intro x y
        rw [hln]
        by_cases hy : v.toNat = y
        · subst hy
          simp only [if_true, mem_insertSorted, hB.lmem, List.mem_cons, Prod.mk.injEq, and_true]
        · simp only [hy, if_false, hB.lmem, List.mem_cons, Prod.mk.injEq]
          constructor
          · exact fun h => Or.inr h
          · rintro (⟨_, h2⟩ | h)
            · exact absurd h2.symm hy
            · exact h
      · intro x y hxy
        simp only [List.mem_cons, Prod.mk.injEq] at hxy
        rcases hxy with ⟨rfl, rfl⟩ | hxy
        · exact ⟨ha1, ha2, hb1, hb2⟩
        · exact hB.range x y hxy
      · intro x
        rw [hrn]
        split
        · rename_i hx; subst hx
          exact nodup_insertSorted _ _ (hB.rnodup _) (fun hm => hne ((hB.rmem _ _).1 hm))
        · exact hB.rnodup x
      · intro y
        rw [hln]
        split
        · rename_i hy; subst hy
          exact nodup_insertSorted _ _ (hB.lnodup _) (fun hm => hne ((hB.lmem _ _).1 hm))
        · exact hB.lnodup y
      · simp only [List.length_cons, hB.card]
        symm
        apply degSum_bump B _ u.toNat B.l ha1 ha2
        · intro x hx
          rw [hrn, if_neg (fun e => hx e.symm)]
        · rw [hrn, if_pos rfl, length_insertSorted]

theorem bipInv_addEdgesFrom (es : List (Int × Int)) (B B' : BipG) (hB : BipInv B)
    (h : B.addEdgesFrom es = .ok B') : BipInv B' := by
  induction es generalizing B with
  | nil => simp only [BipG.addEdgesFrom, List.foldlM_nil, pure, Except.pure] at h; cases h; exact hB
  | cons e es ih =>
    simp only [BipG.addEdgesFrom, List.foldlM_cons, bind, Except.bind] at h
    cases h1 : B.addEdge e.1 e.2 with
    | error err => rw [h1] at h; cases h
    | ok B1 =>
      rw [h1] at h
      exact ih B1 (bipInv_addEdge B B1 _ _ hB h1) h

theorem goodBip_of_inv (B : BipG) (h : BipInv B) : GoodBip B where
  rnodup := h.rnodup
  lnodup := h.lnodup
  adj u v := by
    constructor
    · rintro ⟨_, _, h3⟩
      have he := (h.rmem u v).1 h3
      have := h.range u v he
      exact ⟨this.2.2.1, this.2.2.2, (h.lmem u v).2 he⟩
    · rintro ⟨_, _, h3⟩
      have he := (h.lmem u v).1 h3
      have := h.range u v he
      exact ⟨this.1, this.2.1, (h.rmem u v).2 he⟩
  card := h.card

/-- every bipartite graph object that `BipartiteGraph(l, r)` + `add_edge` calls can produce -/
theorem goodBip_ofEdges (l r : Nat) (es : List (Nat × Nat)) (B : BipG) (h : BipG.ofEdges l r es = .ok B) :
    GoodBip B :=
  goodBip_of_inv B (bipInv_addEdgesFrom _ _ B (bipInv_init l r) h)

end Cnfgen.Fam

namespace Cnfgen.Fam
open Cnfgen

/-! ### simple graphs -/

structure SimpleInv (G : SimpleG) : Prop where
  alen : G.adj.length = G.n + 1
  mem : ∀ u v, v ∈ G.nbrs u ↔ (u, v) ∈ G.edgeset
  range : ∀ u v, (u, v) ∈ G.edgeset → 1 ≤ u ∧ u ≤ G.n ∧ 1 ≤ v ∧ v ≤ G.n ∧ u ≠ v ∧ (v, u) ∈ G.edgeset
  nodup : ∀ u, (G.nbrs u).Nodup

theorem nbrs_init (n u : Nat) : (SimpleG.init n).nbrs u = [] := getD_replicate_nil _ _

theorem simpleInv_init (n : Nat) : SimpleInv (SimpleG.init n) where
  alen := by simp [SimpleG.init]
  mem u v := by rw [nbrs_init]; simp [SimpleG.init]
  range u v h := by simp [SimpleG.init] at h
  nodup u := by rw [nbrs_init]; exact List.nodup_nil

theorem simpleInv_addEdge (G G' : SimpleG) (u v : Int) (hG : SimpleInv G) (h : G.addEdge u v = .ok G') :
    SimpleInv G' := by
  unfold SimpleG.addEdge at h
  split at h
  · cases h
  · rename_i hr
    have hr : 1 ≤ u ∧ u ≤ G.n ∧ 1 ≤ v ∧ v ≤ G.n ∧ u ≠ v := by
      by_cases h' : 1 ≤ u ∧ u ≤ G.n ∧ 1 ≤ v ∧ v ≤ G.n ∧ u ≠ v
      · exact h'
      · exact absurd h' hr
    simp only at h
    split at h
    · cases h; exact hG
    · rename_i he
      cases h
      have hab : u.toNat ≠ v.toNat := by omega
      have hxy : min u.toNat v.toNat ≠ max u.toNat v.toNat := by omega
      have hx1 : 1 ≤ min u.toNat v.toNat := by omega
      have hx2 : min u.toNat v.toNat ≤ G.n := by omega
      have hy1 : 1 ≤ max u.toNat v.toNat := by omega
      have hy2 : max u.toNat v.toNat ≤ G.n := by omega
      have hne0 : (u.toNat, v.toNat) ∉ G.edgeset := by
        intro hm; apply he; simpa using hm
      have hne0' : (v.toNat, u.toNat) ∉ G.edgeset := fun hm => hne0 (hG.range _ _ hm).2.2.2.2.2
      have hne : (min u.toNat v.toNat, max u.toNat v.toNat) ∉ G.edgeset := by
        rcases Nat.lt_or_ge u.toNat v.toNat with hlt | hge
        · rw [Nat.min_eq_left (by omega), Nat.max_eq_right (by omega)]; exact hne0
        · rw [Nat.min_eq_right hge, Nat.max_eq_left hge]; exact hne0'
      have hne' : (max u.toNat v.toNat, min u.toNat v.toNat) ∉ G.edgeset :=
        fun hm => hne (hG.range _ _ hm).2.2.2.2.2
      generalize min u.toNat v.toNat = x at *
      generalize max u.toNat v.toNat = y at *
      have hnb : ∀ w, SimpleG.nbrs ⟨G.n, G.m + 1,
          (G.adj.modify x (insertSorted · y)).modify y (insertSorted · x),
          (y, x) :: (x, y) :: G.edgeset⟩ w
          = if w = y then insertSorted (G.nbrs y) x else if w = x then insertSorted (G.nbrs x) y
            else G.nbrs w := by
        intro w
        simp only [SimpleG.nbrs]
        rw [getD_modify _ _ _ _ (by rw [List.length_modify, hG.alen]; omega),
          getD_modify _ _ _ _ (by rw [hG.alen]; omega)]
        by_cases h1 : w = y
        · subst h1; simp [hxy]
        · have h1' : ¬ y = w := fun e => h1 e.symm
          by_cases h2 : w = x
          · subst h2; simp only [h1, h1', if_false, if_true]
          · have h2' : ¬ x = w := fun e => h2 e.symm
            simp only [h1, h1', h2, h2', if_false]
      refine ⟨by simp [hG.alen], ?_, ?_, ?_⟩
      · intro w z
        rw [hnb]
        simp only [List.mem_cons, Prod.mk.injEq]
        by_cases h1 : w = y
        · subst h1
          simp only [if_true, mem_insertSorted, hG.mem, true_and]
          constructor
          · rintro (h | h)
            · exact Or.inl h
            · exact Or.inr (Or.inr h)
          · rintro (h | ⟨h, _⟩ | h)
            · exact Or.inl h
            · exact absurd h.symm hxy
            · exact Or.inr h
        · by_cases h2 : w = x
          · subst h2
            simp only [h1, if_false, if_true, mem_insertSorted, hG.mem, true_and]
            constructor
            · rintro (h | h)
              · exact Or.inr (Or.inl h)
              · exact Or.inr (Or.inr h)
            · rintro (h | h | h)
              · exact absurd h (by simp [h1])
              · exact Or.inl h
              · exact Or.inr h
          · simp only [h1, h2, if_false, hG.mem, false_and, false_or]
      · intro w z hwz
        simp only [List.mem_cons, Prod.mk.injEq] at hwz ⊢
        rcases hwz with ⟨rfl, rfl⟩ | ⟨rfl, rfl⟩ | hwz
        · exact ⟨hy1, hy2, hx1, hx2, fun e => hxy e.symm, Or.inr (Or.inl ⟨rfl, rfl⟩)⟩
        · exact ⟨hx1, hx2, hy1, hy2, hxy, Or.inl ⟨rfl, rfl⟩⟩
        · have := hG.range w z hwz
          exact ⟨this.1, this.2.1, this.2.2.1, this.2.2.2.1, this.2.2.2.2.1, Or.inr (Or.inr this.2.2.2.2.2)⟩
      · intro w
        rw [hnb]
        split
        · exact nodup_insertSorted _ _ (hG.nodup _) (fun hm => hne' ((hG.mem _ _).1 hm))
        · split
          · exact nodup_insertSorted _ _ (hG.nodup _) (fun hm => hne ((hG.mem _ _).1 hm))
          · exact hG.nodup w

theorem simpleInv_addEdgesFrom (es : List (Int × Int)) (G G' : SimpleG) (hG : SimpleInv G)
    (h : G.addEdgesFrom es = .ok G') : SimpleInv G' := by
  induction es generalizing G with
  | nil => simp only [SimpleG.addEdgesFrom, List.foldlM_nil, pure, Except.pure] at h; cases h; exact hG
  | cons e es ih =>
    simp only [SimpleG.addEdgesFrom, List.foldlM_cons, bind, Except.bind] at h
    cases h1 : G.addEdge e.1 e.2 with
    | error err => rw [h1] at h; cases h
    | ok G1 =>
      rw [h1] at h
      exact ih G1 (simpleInv_addEdge G G1 _ _ hG h1) h

theorem goodSimple_of_inv (G : SimpleG) (h : SimpleInv G) : GoodSimple G where
  nodup := h.nodup
  noloop u hu := (h.range u u ((h.mem u u).1 hu)).2.2.2.2.1 rfl
  sym u v := by
    rintro ⟨_, _, h3⟩
    have := h.range u v ((h.mem u v).1 h3)
    exact ⟨this.2.2.1, this.2.2.2.1, (h.mem v u).2 this.2.2.2.2.2⟩

/-- every simple graph object that `Graph(n)` + `add_edge` calls can produce -/
theorem goodSimple_ofEdges (n : Nat) (es : List (Nat × Nat)) (G : SimpleG) (h : SimpleG.ofEdges n es = .ok G) :
    GoodSimple G :=
  goodSimple_of_inv G (simpleInv_addEdgesFrom _ _ G (simpleInv_init n) h)

end Cnfgen.Fam
