/-
Generic machinery for the "exactly one assignment per object" statements: a numbering of an
index type `I` by the variables `1..N` turns assignments `Fin N → Bool` into Boolean functions
on `I` and back; and the numbering of the edges of a consistent bipartite graph object by the
identifiers of `BipartiteEdgesVariables`.
-/
import Lemmas.C01Bij
import Lemmas.C01Bip
import Lemmas.C01Graph
import Mathlib.Data.List.Nodup
import Mathlib.Logic.ExistsUnique
namespace Cnfgen.Fam
open Cnfgen

/-- a numbering of the index type `I` by the variables `1..N`: `var` is injective, its values
are exactly `1..N` (`inv` is the decoding, `to_index`) -/
structure VarIndex (I : Type) (N : Nat) where
  var : I → Nat
  inv : Fin N → I
  var_pos : ∀ i, 1 ≤ var i
  var_le : ∀ i, var i ≤ N
  var_inv : ∀ x, var (inv x) = x.val + 1
  var_inj : ∀ i j, var i = var j → i = j

namespace VarIndex
variable {I : Type} {N : Nat} (ν : VarIndex I N)

theorem var_sub_lt (i : I) : ν.var i - 1 < N := by
  have := ν.var_pos i; have := ν.var_le i; omega

/-- the Boolean function on `I` described by an assignment to `1..N` -/
def toObj (a : Fin N → Bool) : I → Bool := fun i => a ⟨ν.var i - 1, ν.var_sub_lt i⟩

/-- the assignment describing a Boolean function on `I` -/
def ofObj (T : I → Bool) : Fin N → Bool := fun x => T (ν.inv x)

theorem ofObj_toObj (a : Fin N → Bool) : ν.ofObj (ν.toObj a) = a := by
  funext x
  simp only [ofObj, toObj]
  congr 1
  apply Fin.ext
  simp only [ν.var_inv x, Nat.add_sub_cancel]

theorem inv_var (i : I) : ν.inv ⟨ν.var i - 1, ν.var_sub_lt i⟩ = i := by
  apply ν.var_inj
  rw [ν.var_inv]
  have := ν.var_pos i
  simp only []; omega

theorem toObj_ofObj (T : I → Bool) : ν.toObj (ν.ofObj T) = T := by
  funext i
  simp only [toObj, ofObj, ν.inv_var i]

/-- the value of the variable `var i` under the extended assignment is the object's value at `i` -/
theorem extend_var (a : Fin N → Bool) (i : I) : extend a (ν.var i) = ν.toObj a i :=
  extend_apply a (ν.var_pos i) (ν.var_le i)

theorem toObj_restrict (α : Assign) (i : I) : ν.toObj (restrict N α) i = α (ν.var i) := by
  have := ν.var_pos i
  simp only [toObj, restrict]
  congr 1; omega

/-- two assignments that describe the same object agree on every variable `1..N` -/
theorem agree_of_toObj_eq (α β : Assign)
    (h : ∀ i, α (ν.var i) = β (ν.var i)) : ∀ x, 1 ≤ x → x ≤ N → α x = β x := by
  intro x h1 h2
  have := h (ν.inv ⟨x - 1, by omega⟩)
  rw [ν.var_inv] at this
  simp only [] at this
  rw [show x - 1 + 1 = x by omega] at this
  exact this

/-- the packaged bijection: if `P` (on assignments) says what `Q` says on the described object,
then every `P`-assignment is described by exactly one `Q`-object and vice versa -/
theorem existsUnique (P : (Fin N → Bool) → Prop) (Q : (I → Bool) → Prop)
    (h : ∀ a, P a ↔ Q (ν.toObj a)) :
    (∀ a, P a → ∃! T, Q T ∧ ν.ofObj T = a) ∧ (∀ T, Q T → ∃! a, P a ∧ ν.toObj a = T) := by
  refine ⟨?_, ?_⟩
  · intro a ha
    refine ⟨ν.toObj a, ⟨(h a).1 ha, ν.ofObj_toObj a⟩, ?_⟩
    rintro T ⟨_, hT⟩
    rw [← hT, ν.toObj_ofObj]
  · intro T hT
    refine ⟨ν.ofObj T, ⟨(h _).2 (by rw [ν.toObj_ofObj]; exact hT), ν.toObj_ofObj T⟩, ?_⟩
    rintro a ⟨_, ha⟩
    rw [← ha, ν.ofObj_toObj]

end VarIndex

/-! ### the edges of a bipartite graph object, numbered by `BipartiteEdgesVariables` -/

/-- the edges of the left vertices `1..k`, in the order of `BipartiteEdgeList.__iter__` -/
def edgesUpTo (B : BipG) (k : Nat) : List (Nat × Nat) :=
  (List.range k).flatMap (fun i => (B.rnbrs (i + 1)).map (fun v => (i + 1, v)))

theorem edgesUpTo_succ (B : BipG) (k : Nat) :
    edgesUpTo B (k + 1) = edgesUpTo B k ++ (B.rnbrs (k + 1)).map (fun v => (k + 1, v)) := by
  simp [edgesUpTo, List.range_succ, List.flatMap_append]

theorem edges_eq_upTo (B : BipG) : B.edges = edgesUpTo B B.l := rfl

theorem mem_edgesUpTo (B : BipG) (k u v : Nat) :
    (u, v) ∈ edgesUpTo B k ↔ 1 ≤ u ∧ u ≤ k ∧ v ∈ B.rnbrs u := by
  simp only [edgesUpTo, List.mem_flatMap, List.mem_range, List.mem_map, Prod.mk.injEq]
  constructor
  · rintro ⟨i, hi, w, hw, rfl, rfl⟩; exact ⟨by omega, by omega, hw⟩
  · rintro ⟨h1, h2, h3⟩
    exact ⟨u - 1, by omega, v, by rw [show u - 1 + 1 = u by omega]; exact h3, by omega, rfl⟩

theorem length_edgesUpTo (B : BipG) (k : Nat) : (edgesUpTo B k).length = degSum B k := by
  induction k with
  | zero => simp [edgesUpTo, degSum]
  | succ k ih => rw [edgesUpTo_succ, List.length_append, ih, List.length_map]; rfl

theorem nodup_edgesUpTo (B : BipG) (hnd : ∀ u, (B.rnbrs u).Nodup) (k : Nat) :
    (edgesUpTo B k).Nodup := by
  induction k with
  | zero => simp [edgesUpTo]
  | succ k ih =>
    rw [edgesUpTo_succ, List.nodup_append]
    refine ⟨ih, (hnd (k + 1)).map (fun a b h => by simpa using h), ?_⟩
    rintro ⟨u, v⟩ h1 ⟨u', v'⟩ h2 he
    rw [mem_edgesUpTo] at h1
    simp only [List.mem_map, Prod.mk.injEq] at h2
    obtain ⟨w, _, rfl, rfl⟩ := h2
    have := congrArg Prod.fst he
    simp only [] at this
    omega

theorem idxOf_map_pair (c : Nat) (l : List Nat) (v : Nat) :
    (l.map (fun w => (c, w))).idxOf (c, v) = l.idxOf v := by
  induction l with
  | nil => simp
  | cons x xs ih =>
    simp only [List.map_cons, List.idxOf_cons, ih]
    by_cases h : x = v
    · simp [h]
    · have : ((c, x) == (c, v)) = false := by simp [h]
      have h' : (x == v) = false := by simp [h]
      simp [this, h']

/-- the identifier of an edge is its position in the edge list -/
theorem idxOf_edgesUpTo (B : BipG) (k u v : Nat) (h1 : 1 ≤ u) (h2 : u ≤ k) (hv : v ∈ B.rnbrs u) :
    (edgesUpTo B k).idxOf (u, v) = degSum B (u - 1) + (B.rnbrs u).idxOf v := by
  induction k with
  | zero => omega
  | succ k ih =>
    rw [edgesUpTo_succ]
    rcases Nat.lt_or_ge u (k + 1) with hlt | hge
    · rw [List.idxOf_append_of_mem ((mem_edgesUpTo B k u v).2 ⟨h1, by omega, hv⟩)]
      exact ih (by omega)
    · have hu : u = k + 1 := by omega
      subst hu
      have hnot : (k + 1, v) ∉ edgesUpTo B k := by
        rw [mem_edgesUpTo]; omega
      rw [List.idxOf_append_of_notMem hnot, length_edgesUpTo, Nat.add_sub_cancel]
      congr 1
      exact idxOf_map_pair (k + 1) (B.rnbrs (k + 1)) v

theorem bipId_eq_idxOf (B : BipG) (start u v : Nat) (h1 : 1 ≤ u) (h2 : u ≤ B.l) (hv : v ∈ B.rnbrs u) :
    Vars.bipId B start u v = start + B.edges.idxOf (u, v) := by
  rw [bipId_eq B start u v h1 h2, edges_eq_upTo, idxOf_edgesUpTo B B.l u v h1 h2 hv]; omega

/-- an edge of the graph object `B` (an entry of `B.edges()`) -/
abbrev BEdge (B : BipG) := {e : Nat × Nat // e ∈ B.edges}

theorem BEdge.spec {B : BipG} (e : BEdge B) : 1 ≤ e.1.1 ∧ e.1.1 ≤ B.l ∧ e.1.2 ∈ B.rnbrs e.1.1 :=
  (mem_bip_edges B e.1.1 e.1.2).1 e.2

theorem length_edges (B : BipG) (hg : GoodBip B) : B.edges.length = B.numberOfEdges := by
  rw [edges_eq_upTo, length_edgesUpTo, hg.card]

/-- the numbering of the edges of `B` by the variables of `new_sparse_mapping(B)` /
`new_bipartite_edges(B)` created on an empty formula: `1 + position in B.edges()` -/
def edgeIndex (B : BipG) (hg : GoodBip B) : VarIndex (BEdge B) B.numberOfEdges where
  var e := Vars.bipId B 1 e.1.1 e.1.2
  inv x := ⟨B.edges[x.val]'(by rw [length_edges B hg]; exact x.isLt), List.getElem_mem _⟩
  var_pos e := bipId_ge B 1 _ _ e.spec.1 e.spec.2.1
  var_le e := by
    have := bipId_lt B 1 _ _ e.spec.1 e.spec.2.1 e.spec.2.2
    have := hg.card
    omega
  var_inv x := by
    have hx : x.val < B.edges.length := by rw [length_edges B hg]; exact x.isLt
    have hm : B.edges[x.val] ∈ B.edges := List.getElem_mem _
    have hs := (mem_bip_edges B (B.edges[x.val]).1 (B.edges[x.val]).2).1 hm
    show Vars.bipId B 1 (B.edges[x.val]).1 (B.edges[x.val]).2 = x.val + 1
    rw [bipId_eq_idxOf B 1 _ _ hs.1 hs.2.1 hs.2.2]
    have hnd : B.edges.Nodup := nodup_edgesUpTo B hg.rnodup B.l
    have := hnd.idxOf_getElem x.val hx
    have he : (B.edges[x.val].1, B.edges[x.val].2) = B.edges[x.val] := rfl
    rw [he, this]
    omega
  var_inj e e' h := by
    obtain ⟨rfl', rfl''⟩ := bipId_inj B 1 e.spec.1 e.spec.2.1 e.spec.2.2
      e'.spec.1 e'.spec.2.1 e'.spec.2.2 h
    exact Subtype.ext (Prod.ext rfl' rfl'')

theorem edgeIndex_var (B : BipG) (hg : GoodBip B) (e : BEdge B) :
    (edgeIndex B hg).var e = Vars.bipId B 1 e.1.1 e.1.2 := rfl

/-- the Boolean function on vertex pairs given by a set of edges (`false` off the edges) -/
def edgeFn {B : BipG} (T : BEdge B → Bool) (u v : Nat) : Bool :=
  if h : (u, v) ∈ B.edges then T ⟨(u, v), h⟩ else false

theorem edgeFn_mem {B : BipG} (T : BEdge B → Bool) {u v : Nat} (h : edgeFn T u v = true) :
    (u, v) ∈ B.edges := by
  unfold edgeFn at h
  split at h
  · assumption
  · exact absurd h (by simp)

theorem edgeFn_edge {B : BipG} (T : BEdge B → Bool) {u v : Nat} (h : (u, v) ∈ B.edges) :
    edgeFn T u v = T ⟨(u, v), h⟩ := by
  simp only [edgeFn, dif_pos h]

/-- on an edge, the variable of the edge under the extended assignment is the object's value -/
theorem extend_bipId (B : BipG) (hg : GoodBip B) (a : Fin B.numberOfEdges → Bool) {u v : Nat}
    (h1 : 1 ≤ u) (h2 : u ≤ B.l) (hv : v ∈ B.rnbrs u) :
    extend a (Vars.bipId B 1 u v) = edgeFn ((edgeIndex B hg).toObj a) u v := by
  have hm : (u, v) ∈ B.edges := (mem_bip_edges B u v).2 ⟨h1, h2, hv⟩
  rw [edgeFn_edge _ hm, ← (edgeIndex B hg).extend_var a ⟨(u, v), hm⟩]
  rfl

end Cnfgen.Fam
