/-
C14 (GML) — cnfgen's part after the parser (`normalize`, the relabelling, `from_networkx`) on the
object that was written: read(write(G)) is G, for the three classes.
-/
import Lemmas.GmlBuild
import Lemmas.C15NxBase
import Lemmas.GraphIORelabel
namespace Cnfgen.Gml
open Cnfgen GraphLex GraphFmt Nx

/-! ### the relabelling of the ids `0..n-1` -/

theorem labelsFrom_eq_map (n : Nat) : labelsFrom 0 n = (List.range n).map (fun j : Nat => Label.int (j : Int)) := by
  simp [labelsFrom, List.range_eq_range']

theorem labelsFrom_sorted (n : Nat) : (labelsFrom 0 n).Pairwise (fun a b => Label.le a b = true) := by
  rw [labelsFrom_eq_map, List.pairwise_map]
  have : (List.range n).Pairwise (· < ·) := List.pairwise_lt_range
  refine this.imp ?_
  intro a b hab
  simp only [Label.le, decide_eq_true_eq]
  omega

theorem ranks_labelsFrom (n : Nat) : ranks (labelsFrom 0 n) = (List.range n).map (· + 1) := by
  have hall : (labelsFrom 0 n).all Label.isInt = true := by
    rw [labelsFrom_eq_map]; simp [Label.isInt]
  unfold ranks
  simp only [hall, Bool.true_or, if_true]
  rw [sortBy_sorted Label.le _ (labelsFrom_sorted n)]
  conv => lhs; arg 2; rw [labelsFrom_eq_map]
  rw [List.map_map]
  apply List.map_congr_left
  intro j hj
  have hj' : j < n := List.mem_range.1 hj
  have := (idxOf_labelsFrom n 0 j hj').1
  simp only [Nat.zero_add] at this
  simp only [Function.comp, rank, this]

theorem getD_ranks (n i : Nat) (h : i < n) : ((List.range n).map (· + 1)).getD i 0 = i + 1 := by
  simp [List.getD, h]

/-! ### `DiGraph.edges()` -/

theorem mem_diEdges {n : Nat} {T : List (Nat × Nat)} {u v : Nat} :
    (u, v) ∈ diEdges n T ↔ u < n ∧ (u, v) ∈ T := by
  simp only [diEdges, List.mem_flatMap, List.mem_range, List.mem_map, Prod.mk.injEq]
  constructor
  · rintro ⟨w, hw, x, hx, rfl, rfl⟩
    rw [mem_dedup] at hx
    simp only [List.mem_map, List.mem_filter, beq_iff_eq] at hx
    obtain ⟨e, ⟨he, rfl⟩, rfl⟩ := hx
    exact ⟨hw, he⟩
  · rintro ⟨hu, he⟩
    refine ⟨u, hu, v, ?_, rfl, rfl⟩
    rw [mem_dedup]
    simp only [List.mem_map, List.mem_filter, beq_iff_eq]
    exact ⟨(u, v), ⟨he, rfl⟩, rfl⟩

theorem nodup_diEdges (n : Nat) (T : List (Nat × Nat)) : (diEdges n T).Nodup := by
  unfold diEdges
  rw [List.nodup_flatMap]
  refine ⟨?_, ?_⟩
  · intro w _
    exact (nodup_dedup _).map (fun a b h => by simpa using h)
  · have hnd : (List.range n).Nodup := List.nodup_range
    refine List.Pairwise.imp ?_ hnd
    intro a b hab x h1 h2
    simp only [List.mem_map] at h1 h2
    obtain ⟨_, _, rfl⟩ := h1
    obtain ⟨_, _, h⟩ := h2
    injection h with h _
    exact hab h.symm

theorem edgesDistinct_of_nodup_le {es : List (Nat × Nat)} (hn : es.Nodup) (hle : ∀ e ∈ es, e.1 ≤ e.2) :
    EdgesDistinct false es := by
  unfold EdgesDistinct
  have h2 : es.Pairwise (fun a b => a ≠ b) := hn
  refine List.Pairwise.imp_of_mem ?_ h2
  intro a b ha hb hab
  refine ⟨hab, fun _ e => ?_⟩
  have h1 := hle a ha
  have h3 := hle b hb
  rw [e] at h1
  simp only at h1
  apply hab
  rw [e]
  exact Prod.ext (by simp only; omega) (by simp only; omega)

theorem edgesDistinct_of_nodup {es : List (Nat × Nat)} (hn : es.Nodup) : EdgesDistinct true es := by
  unfold EdgesDistinct
  have h2 : es.Pairwise (fun a b => a ≠ b) := hn
  exact h2.imp (fun hab => ⟨hab, fun h => by cases h⟩)

/-- the ranks of the positions, applied to edges between existing nodes -/
theorem map_ranks_edges (n : Nat) (es : List (Nat × Nat)) (h : ∀ e ∈ es, e.1 < n ∧ e.2 < n) :
    es.map (fun e => (((List.range n).map (· + 1)).getD e.1 0, ((List.range n).map (· + 1)).getD e.2 0)) =
    es.map (fun e => (e.1 + 1, e.2 + 1)) := by
  apply List.map_congr_left
  intro e he
  rw [getD_ranks n e.1 (h e he).1, getD_ranks n e.2 (h e he).2]

/-! ### simple graphs -/

section simple
variable {G : SimpleG} (hI : SimpleG.Inv G)
include hI

/-- the `add_edge` calls of `to_networkx`, as positions -/
theorem simple_T_mem {a b : Nat} : (a, b) ∈ G.edges.map (fun e => (e.1 - 1, e.2 - 1)) ↔ (a + 1, b + 1) ∈ G.edges := by
  simp only [List.mem_map, Prod.mk.injEq]
  constructor
  · rintro ⟨⟨u, v⟩, he, rfl, rfl⟩
    have := hI.edges_range he
    simp only
    rwa [show u - 1 + 1 = u by omega, show v - 1 + 1 = v by omega]
  · intro he
    exact ⟨(a + 1, b + 1), he, by simp⟩

theorem simple_N0_WF : (NxG.mk G.n (G.edges.map (fun e => (e.1 - 1, e.2 - 1)))).WF := by
  intro e he
  obtain ⟨a, b⟩ := e
  have := hI.edges_range ((simple_T_mem hI).1 he)
  simp only; omega

theorem simple_N0_oriented : (NxG.mk G.n (G.edges.map (fun e => (e.1 - 1, e.2 - 1)))).Oriented := by
  intro e he
  obtain ⟨a, b⟩ := e
  have := hI.edges_range ((simple_T_mem hI).1 he)
  simp only; omega

end simple

theorem labelsFrom_length (a n : Nat) : (labelsFrom a n).length = n := by simp [labelsFrom]

theorem nxEdges_false (n : Nat) (T : List (Nat × Nat)) : nxEdges false n T = (NxG.mk n T).edges := by
  simp [nxEdges]

theorem nxEdges_true (n : Nat) (T : List (Nat × Nat)) : nxEdges true n T = diEdges n T := by
  simp [nxEdges]

/-- write then read, class `Graph` -/
theorem readGml_writeGml_simple (u : Bool) (name : Str) {G : SimpleG} (hI : SimpleG.Inv G)
    (hp : (natStr G.n).length ≤ maxStrDigits) :
    ∃ G', readGml u .simple (writeGml name (.simple G)) = .ok (.simple G', .one (.str [])) ∧ SimpleG.Same G G' := by
  have hW0 := simple_N0_WF hI
  have hO0 := simple_N0_oriented hI
  generalize hT : G.edges.map (fun e => (e.1 - 1, e.2 - 1)) = T at hW0 hO0
  have hTm : ∀ {a b : Nat}, (a, b) ∈ T ↔ (a + 1, b + 1) ∈ G.edges := by
    intro a b; rw [← hT]; exact simple_T_mem hI
  let N0 : NxG := ⟨G.n, T⟩
  let N1 : NxG := N0.relabelCopy
  let N2 : NxG := N1.relabelCopy
  have hW1 : N1.WF := NxG.relabelCopy_WF hW0
  have hW2 : N2.WF := NxG.relabelCopy_WF hW1
  have hE2 : ∀ {a b : Nat}, N2.E a b ↔ N0.E a b := by
    intro a b
    exact (NxG.relabelCopy_E hW1).trans (NxG.relabelCopy_E hW0)
  have hlen : (toNxSimple G).nodes.length = G.n := by simp [toNxSimple]
  have hX : toNxSimple G = ⟨false, none, (toNxSimple G).nodes, T⟩ := by simp [toNxSimple, hT]
  have hPr : Printable (toNxSimple G) := by
    refine ⟨by rw [hlen]; exact hp, ?_⟩
    rw [hlen, hX, nxEdges_false]
    rintro ⟨a, b⟩ he
    obtain ⟨h1, _, h3⟩ := NxG.mem_edges.1 he
    exact ⟨h1, (hW0.of_E h3).2⟩
  have hDist : EdgesDistinct (toNxSimple G).directed
      (nxEdges (toNxSimple G).directed (toNxSimple G).nodes.length (toNxSimple G).tedges) := by
    rw [hlen, hX, nxEdges_false]
    exact edgesDistinct_of_nodup_le (NxG.nodup_edges _) (fun e he => (NxG.mem_edges'.1 he).2.1)
  have hparse := parseGml_gmlText u (toNxSimple G) hPr hDist
  -- the calls of `from_networkx`
  have hcalls : fromNxCalls (parsedOf (toNxSimple G)) = N2.edges.map (fun e => (e.1 + 1, e.2 + 1)) := by
    simp only [fromNxCalls, parsedOf, labelsFrom_length, hlen, ranks_labelsFrom]
    rw [hX, nxEdges_false, nxEdges_false, nxEdges_false]
    apply map_ranks_edges
    rintro ⟨a, b⟩ he
    obtain ⟨h1, _, h3⟩ := NxG.mem_edges.1 he
    exact ⟨h1, (hW2.of_E h3).2⟩
  have hlist := SimpleG.fromNx_listing hI (es := N2.edges.map (fun e => (e.1 + 1, e.2 + 1))) (by
      intro e he
      obtain ⟨⟨a, b⟩, hab, rfl⟩ := List.mem_map.1 he
      obtain ⟨h1, h2, h3⟩ := NxG.mem_edges.1 hab
      have h4 : a < G.n ∧ b < G.n := hW0.of_E (hE2.1 h3)
      have h5 := hO0.loopless.of_E (hE2.1 h3)
      simp only; omega) (by
      rintro ⟨x, y⟩
      constructor
      · intro hp
        have hxy := (SimpleG.mem_abs.1 hp)
        have hed : (x, y) ∈ G.edges := hI.mem_edges'.2 ⟨hxy.1, hxy.2⟩
        have hr := hI.edges_range hed
        have hT' : (x - 1, y - 1) ∈ T := hTm.2 (by rwa [show x - 1 + 1 = x by omega, show y - 1 + 1 = y by omega])
        refine ⟨(x, y), ?_, ?_⟩
        · refine List.mem_map.2 ⟨(x - 1, y - 1), ?_, by simp only; exact Prod.ext (by simp only; omega) (by simp only; omega)⟩
          exact NxG.mem_edges.2 ⟨by show x - 1 < G.n; omega, by omega, hE2.2 (Or.inl hT')⟩
        · simp only [SimpleG.norm]
          exact Prod.ext (by simp only; omega) (by simp only; omega)
      · rintro ⟨e, he, hpe⟩
        obtain ⟨⟨a, b⟩, hab, rfl⟩ := List.mem_map.1 he
        obtain ⟨h1, h2, h3⟩ := NxG.mem_edges.1 hab
        have h4 : (a, b) ∈ T := by
          rcases hE2.1 h3 with h | h
          · exact h
          · have := hO0 _ h; simp only at this; omega
        have h5 := hO0 _ h4
        simp only at h5
        have hed : (a + 1, b + 1) ∈ G.edges := hTm.1 h4
        have hm := hI.mem_edges'.1 hed
        simp only [SimpleG.norm] at hpe
        have : (x, y) = (a + 1, b + 1) := by
          rw [hpe]; exact Prod.ext (by simp only; omega) (by simp only; omega)
        rw [this]
        exact SimpleG.mem_abs.2 hm)
  obtain ⟨G', h1, h2, h3, h4, h5, h6⟩ := hlist
  refine ⟨G', ?_, ⟨h3, h4, h5, h6⟩⟩
  have hof : SimpleG.ofEdges G.n (N2.edges.map (fun e => (e.1 + 1, e.2 + 1))) = .ok G' := h1
  have hnorm : normalize .simple (parsedOf (toNxSimple G)) = .ok (.simple G') := by
    simp only [normalize, hcalls]
    simp only [parsedOf, labelsFrom_length, hlen, hof, liftE, Res.bind]
  have hname : nameOf (parsedOf (toNxSimple G)) = .one (.str []) := by
    simp [nameOf, parsedOf, nameField, toNxSimple]
  show readGml u .simple (gmlText (toNxSimple G)) = _
  simp only [readGml, hparse, Res.bind, hnorm, hname]

/-! ### directed graphs -/

theorem di_T_mem {G : DiG} (hI : DiG.Inv G) {a b : Nat} :
    (a, b) ∈ G.edges.map (fun e => (e.1 - 1, e.2 - 1)) ↔ (a + 1, b + 1) ∈ G.edgeset := by
  simp only [List.mem_map, Prod.mk.injEq]
  constructor
  · rintro ⟨⟨x, y⟩, he, rfl, rfl⟩
    have hm := hI.mem_edges.1 he
    have := hI.range _ _ hm
    simp only
    rwa [show x - 1 + 1 = x by omega, show y - 1 + 1 = y by omega]
  · intro he
    exact ⟨(a + 1, b + 1), hI.mem_edges.2 he, by simp⟩

/-- write then read, class `DirectedGraph` (types `digraph` and `dag`) -/
theorem readGml_writeGml_di (u : Bool) (name : Str) (ty : GType) (hty : ty = .digraph ∨ ty = .dag)
    {G : DiG} (hI : DiG.Inv G) (hp : (natStr G.n).length ≤ maxStrDigits) (hdag : ty = .dag → G.stillDag = true) :
    ∃ G', readGml u ty (writeGml name (.di G)) = .ok (.di G', .one (.str [])) ∧ DiG.Same G G' := by
  generalize hT : G.edges.map (fun e => (e.1 - 1, e.2 - 1)) = T
  have hTm : ∀ {a b : Nat}, (a, b) ∈ T ↔ (a + 1, b + 1) ∈ G.edgeset := by
    intro a b; rw [← hT]; exact di_T_mem hI
  have hTr : ∀ {a b : Nat}, (a, b) ∈ T → a < G.n ∧ b < G.n := by
    intro a b h
    have := hI.range _ _ (hTm.1 h)
    omega
  have hlen : (toNxDi G).nodes.length = G.n := by simp [toNxDi]
  have hX : toNxDi G = ⟨true, none, (toNxDi G).nodes, T⟩ := by simp [toNxDi, hT]
  have hPr : Printable (toNxDi G) := by
    refine ⟨by rw [hlen]; exact hp, ?_⟩
    rw [hlen, hX, nxEdges_true]
    rintro ⟨a, b⟩ he
    exact hTr (mem_diEdges.1 he).2
  have hDist : EdgesDistinct (toNxDi G).directed
      (nxEdges (toNxDi G).directed (toNxDi G).nodes.length (toNxDi G).tedges) := by
    rw [hlen, hX, nxEdges_true]
    exact edgesDistinct_of_nodup (nodup_diEdges _ _)
  have hparse := parseGml_gmlText u (toNxDi G) hPr hDist
  have hm3 : ∀ {a b : Nat}, (a, b) ∈ diEdges G.n (diEdges G.n (diEdges G.n T)) ↔ (a, b) ∈ T := by
    intro a b
    simp only [mem_diEdges]
    constructor
    · intro h; exact h.2.2.2
    · intro h; have := (hTr h).1; exact ⟨this, this, this, h⟩
  have hcalls : fromNxCalls (parsedOf (toNxDi G)) =
      (diEdges G.n (diEdges G.n (diEdges G.n T))).map (fun e => (e.1 + 1, e.2 + 1)) := by
    simp only [fromNxCalls, parsedOf, labelsFrom_length, hlen, ranks_labelsFrom]
    rw [hX, nxEdges_true, nxEdges_true, nxEdges_true]
    apply map_ranks_edges
    rintro ⟨a, b⟩ he
    exact hTr (hm3.1 he)
  have hlist := DiG.fromNx_listing hI (es := (diEdges G.n (diEdges G.n (diEdges G.n T))).map (fun e => (e.1 + 1, e.2 + 1))) (by
      rintro ⟨x, y⟩
      constructor
      · intro hxy
        have hr := hI.range _ _ hxy
        refine List.mem_map.2 ⟨(x - 1, y - 1), hm3.2 (hTm.2 ?_), ?_⟩
        · rwa [show x - 1 + 1 = x by omega, show y - 1 + 1 = y by omega]
        · exact Prod.ext (by simp only; omega) (by simp only; omega)
      · intro he
        obtain ⟨⟨a, b⟩, hab, e⟩ := List.mem_map.1 he
        rw [← e]
        exact hTm.1 (hm3.1 hab))
  obtain ⟨G', h1, h2, h3, h4, h5, h6, h7, h8⟩ := hlist
  refine ⟨G', ?_, ⟨h3, h4, h6, h5, h7, h8⟩⟩
  have hof : DiG.ofEdges G.n ((diEdges G.n (diEdges G.n (diEdges G.n T))).map (fun e => (e.1 + 1, e.2 + 1))) = .ok G' := h1
  have hdir : (parsedOf (toNxDi G)).directed = true := rfl
  have hname : nameOf (parsedOf (toNxDi G)) = .one (.str []) := by
    simp [nameOf, parsedOf, nameField, toNxDi]
  show readGml u ty (gmlText (toNxDi G)) = _
  rcases hty with rfl | rfl
  · have hnorm : normalize .digraph (parsedOf (toNxDi G)) = .ok (.di G') := by
      simp only [normalize, hcalls, hdir]
      simp only [parsedOf, labelsFrom_length, hlen, hof, liftE, Res.bind, Bool.not_true, Bool.false_eq_true, if_false]
    simp only [readGml, hparse, Res.bind, hnorm, hname]
  · have hnorm : normalize .dag (parsedOf (toNxDi G)) = .ok (.di G') := by
      simp only [normalize, hcalls, hdir]
      simp only [parsedOf, labelsFrom_length, hlen, hof, liftE, Res.bind, Bool.not_true, Bool.false_eq_true, if_false]
    have hsd : G'.stillDag = true := by rw [h7]; exact hdag rfl
    simp only [readGml, hparse, Res.bind, hnorm, hname, hsd, if_true]

/-! ### bipartite graphs -/

theorem zip_map_map {α β γ : Type} (xs : List α) (f : α → β) (g : α → γ) :
    (xs.map f).zip (xs.map g) = xs.map (fun x => (f x, g x)) := by
  induction xs with
  | nil => rfl
  | cons x xs ih => simp [ih]

/-- the nodes `BipartiteGraph.from_networkx` sees after write and parse: positions with their sides -/
theorem bip_nodes (l r : Nat) :
    (List.range (l + r)).zip (((List.range l).map (fun i => (i + 1, some false)) ++
        (List.range r).map (fun j => (l + j + 1, some true))).map (fun p : Nat × Option Bool => colourBool (colourOfAttr p.2))) =
    (List.range l).map (fun i => (i, some false)) ++ (List.range r).map (fun j => (l + j, some true)) := by
  rw [List.range_add, List.map_append, List.map_map, List.map_map]
  rw [List.zip_append (by simp)]
  have h1 := zip_map_map (List.range l) (fun i => i) (fun _ => some false)
  have h2 := zip_map_map (List.range r) (fun j => l + j) (fun _ => some true)
  simp only [List.map_id'] at h1
  have h1' : (List.range l).zip (List.replicate l (some false)) = List.map (fun x => (x, some false)) (List.range l) := by
    simpa using h1
  have h2' : (List.map (fun j => l + j) (List.range r)).zip (List.replicate r (some true)) =
      List.map (fun x => (l + x, some true)) (List.range r) := by
    simpa using h2
  simp [Function.comp_def, colourBool, colourOfAttr, h1', h2']

theorem bip_left (l r : Nat) :
    ((((List.range l).map (fun i => (i, some false)) ++ (List.range r).map (fun j => (l + j, some true))).filter
      (fun p : Nat × Option Bool => p.2 == some false)).map (·.1)) = List.range l := by
  simp [List.filter_append, List.filter_map, Function.comp_def, filter_const_true, filter_const_false]

theorem bip_right (l r : Nat) :
    ((((List.range l).map (fun i => (i, some false)) ++ (List.range r).map (fun j => (l + j, some true))).filter
      (fun p : Nat × Option Bool => p.2 == some true)).map (·.1)) = (List.range r).map (fun j => l + j) := by
  simp [List.filter_append, List.filter_map, Function.comp_def, filter_const_true, filter_const_false]

theorem bip_anyNone (l r : Nat) :
    (((List.range l).map (fun i => (i, some false)) ++ (List.range r).map (fun j => (l + j, some true))).any
      (fun p : Nat × Option Bool => p.2.isNone)) = false := by
  simp

theorem idxOf_range (n i : Nat) (h : i < n) : (List.range n).idxOf i = i := by
  have := idxOf_range_map n 0 i h
  simpa using this

theorem idxOf_range_shift (l r j : Nat) (h : j < r) : ((List.range r).map (fun j => l + j)).idxOf (l + j) = j := by
  have := idxOf_range_map r l j h
  have e : (List.range r).map (fun j => l + j) = (List.range r).map (· + l) := by
    apply List.map_congr_left; intro a _; omega
  rw [e, show l + j = j + l by omega]; exact this

/-- the loop of `BipartiteGraph.from_networkx` over edges that go from a left to a right position -/
theorem bip_fold (l r : Nat) (es : List (Nat × Nat)) (h : ∀ e ∈ es, e.1 < l ∧ l ≤ e.2 ∧ e.2 < l + r) (g : BipG) :
    es.foldlM (fun g e =>
        let ucolor := !((List.range l).contains e.1)
        let vcolor := ((List.range r).map (fun j => l + j)).contains e.2
        if ucolor == vcolor then Except.error Err.valueError
        else if !ucolor then g.addEdge (rank (List.range l) e.1 : Nat) (rank ((List.range r).map (fun j => l + j)) e.2 : Nat)
        else g.addEdge (rank (List.range l) e.2 : Nat) (rank ((List.range r).map (fun j => l + j)) e.1 : Nat)) g =
      g.addEdgesFrom (es.map (fun e => (((e.1 + 1 : Nat) : Int), ((e.2 - l + 1 : Nat) : Int)))) := by
  induction es generalizing g with
  | nil => rfl
  | cons e es ih =>
    obtain ⟨h1, h2, h3⟩ := h e (List.mem_cons_self ..)
    have hc1 : (List.range l).contains e.1 = true := by
      rw [List.contains_iff_mem]; exact List.mem_range.2 h1
    have hc2 : ((List.range r).map (fun j => l + j)).contains e.2 = true := by
      rw [List.contains_iff_mem, List.mem_map]
      exact ⟨e.2 - l, List.mem_range.2 (by omega), by omega⟩
    have hr1 : rank (List.range l) e.1 = e.1 + 1 := by simp only [rank, idxOf_range l e.1 h1]
    have hr2 : rank ((List.range r).map (fun j => l + j)) e.2 = e.2 - l + 1 := by
      have := idxOf_range_shift l r (e.2 - l) (by omega)
      rw [show l + (e.2 - l) = e.2 by omega] at this
      simp only [rank, this]
    simp only [List.map_cons, List.foldlM_cons, hc1, hc2, Bool.not_true, hr1, hr2, BipG.addEdgesFrom_cons_io]
    simp only [show ((false == true) = false) from rfl, Bool.false_eq_true, if_false, Bool.not_false, if_true]
    cases g.addEdge ((e.1 + 1 : Nat) : Int) ((e.2 - l + 1 : Nat) : Int) with
    | error x => rfl
    | ok g₁ => exact ih (fun x hx => h x (List.mem_cons_of_mem _ hx)) g₁

theorem colourOfAttr_ne_unknown (b : Option Bool) : colourOfAttr b ≠ .unknown := by
  cases b with
  | none => simp [colourOfAttr]
  | some b => cases b <;> simp [colourOfAttr]

/-- write then read, class `BipartiteGraph`; the name comes back as networkx reads it -/
theorem readGml_writeGml_bip (u : Bool) (name : Str) {G : BipG} (hI : BipG.Inv G)
    (hp : (natStr (G.l + G.r)).length ≤ maxStrDigits) :
    ∃ G', readGml u .bipartite (writeGml name (.bip G)) = .ok (.bip G', .one (nameVal name)) ∧ BipG.Same G G' := by
  generalize hT : G.edges.map (fun e => (e.1 - 1, e.2 + G.l - 1)) = T
  have hTm : ∀ {a b : Nat}, (a, b) ∈ T ↔ a < G.l ∧ G.l ≤ b ∧ (a + 1, b - G.l + 1) ∈ G.edgeset := by
    intro a b
    rw [← hT]
    simp only [List.mem_map, Prod.mk.injEq]
    constructor
    · rintro ⟨⟨x, y⟩, he, rfl, rfl⟩
      have hm := hI.mem_edges.1 he
      have := hI.range _ _ hm
      simp only
      refine ⟨by omega, by omega, ?_⟩
      rwa [show x - 1 + 1 = x by omega, show y + G.l - 1 - G.l + 1 = y by omega]
    · rintro ⟨h1, h2, h3⟩
      exact ⟨(a + 1, b - G.l + 1), hI.mem_edges.2 h3, by simp only; omega, by simp only; omega⟩
  have hTr : ∀ {a b : Nat}, (a, b) ∈ T → a < G.l ∧ G.l ≤ b ∧ b < G.l + G.r := by
    intro a b h
    obtain ⟨h1, h2, h3⟩ := hTm.1 h
    have := hI.range _ _ h3
    omega
  let N0 : NxG := ⟨G.l + G.r, T⟩
  let N1 : NxG := N0.relabelCopy
  have hW0 : N0.WF := by
    rintro ⟨a, b⟩ he
    have := hTr he
    show a < G.l + G.r ∧ b < G.l + G.r
    omega
  have hE1 : ∀ {a b : Nat}, N1.E a b ↔ N0.E a b := NxG.relabelCopy_E hW0
  have hN1 : ∀ {a b : Nat}, (a, b) ∈ N1.edges ↔ (a, b) ∈ T := by
    intro a b
    rw [NxG.mem_edges, hE1]
    constructor
    · rintro ⟨_, h2, h3 | h3⟩
      · exact h3
      · have := hTr h3; omega
    · intro h
      have := hTr h
      exact ⟨by show a < G.l + G.r; omega, by omega, Or.inl h⟩
  have hlen : (toNxBip name G).nodes.length = G.l + G.r := by simp [toNxBip]
  have hX : toNxBip name G = ⟨false, some name, (toNxBip name G).nodes, T⟩ := by simp [toNxBip, hT]
  have hPr : Printable (toNxBip name G) := by
    refine ⟨by rw [hlen]; exact hp, ?_⟩
    rw [hlen, hX, nxEdges_false]
    rintro ⟨a, b⟩ he
    obtain ⟨h1, _, h3⟩ := NxG.mem_edges.1 he
    exact ⟨h1, (hW0.of_E h3).2⟩
  have hDist : EdgesDistinct (toNxBip name G).directed
      (nxEdges (toNxBip name G).directed (toNxBip name G).nodes.length (toNxBip name G).tedges) := by
    rw [hlen, hX, nxEdges_false]
    exact edgesDistinct_of_nodup_le (NxG.nodup_edges _) (fun e he => (NxG.mem_edges'.1 he).2.1)
  have hparse := parseGml_gmlText u (toNxBip name G) hPr hDist
  -- the object built from the edges networkx reports
  have hv : ∀ e ∈ N1.edges.map (fun e => (e.1 + 1, e.2 - G.l + 1)), 1 ≤ e.1 ∧ e.1 ≤ G.l ∧ 1 ≤ e.2 ∧ e.2 ≤ G.r := by
    intro e he
    obtain ⟨⟨a, b⟩, hab, rfl⟩ := List.mem_map.1 he
    have := hTr (hN1.1 hab)
    simp only; omega
  obtain ⟨G', h1, h2, h3, h4, h5⟩ := BipG.ofEdges_spec hv
  have hes : ∀ p, p ∈ G'.edgeset ↔ p ∈ G.edgeset := by
    rintro ⟨x, y⟩
    rw [h5]
    constructor
    · intro he
      obtain ⟨⟨a, b⟩, hab, e⟩ := List.mem_map.1 he
      rw [← e]
      exact (hTm.1 (hN1.1 hab)).2.2
    · intro hxy
      have hr := hI.range _ _ hxy
      refine List.mem_map.2 ⟨(x - 1, y + G.l - 1), hN1.2 (hTm.2 ⟨by omega, by omega, ?_⟩), ?_⟩
      · rwa [show x - 1 + 1 = x by omega, show y + G.l - 1 - G.l + 1 = y by omega]
      · exact Prod.ext (by simp only; omega) (by simp only; omega)
  refine ⟨G', ?_, BipG.same_of_inv hI h2 h3 h4 hes⟩
  have hnorm : normalize .bipartite (parsedOf (toNxBip name G)) = .ok (.bip G') := by
    have hunk : ((toNxBip name G).nodes.map (fun p => colourOfAttr p.2)).contains Colour.unknown = false := by
      rw [Bool.eq_false_iff]
      intro hc
      rw [List.contains_iff_mem] at hc
      obtain ⟨p, _, e⟩ := List.mem_map.1 hc
      exact colourOfAttr_ne_unknown _ e
    simp only [normalize, parsedOf, hunk, Bool.false_eq_true, if_false, labelsFrom_length, hlen]
    rw [hX, nxEdges_false, nxEdges_false]
    have hnodes : (List.range (G.l + G.r)).zip
        (((toNxBip name G).nodes.map (fun p => colourOfAttr p.2)).map colourBool) =
        (List.range G.l).map (fun i => (i, some false)) ++ (List.range G.r).map (fun j => (G.l + j, some true)) := by
      rw [List.map_map]
      exact bip_nodes G.l G.r
    rw [hnodes]
    unfold bipOfNx
    rw [bip_anyNone]
    simp only [Bool.false_eq_true, if_false, bip_left, bip_right, List.length_range, List.length_map]
    have hf := bip_fold G.l G.r N1.edges (fun e he => by
      obtain ⟨a, b⟩ := e
      exact hTr (hN1.1 he)) (BipG.init G.l G.r)
    have hof : (BipG.init G.l G.r).addEdgesFrom
        (N1.edges.map (fun e => (((e.1 + 1 : Nat) : Int), ((e.2 - G.l + 1 : Nat) : Int)))) = .ok G' := by
      have := h1
      simp only [BipG.ofEdges, List.map_map] at this
      exact this
    show (liftE (List.foldlM _ (BipG.init G.l G.r) N1.edges)).bind _ = _
    rw [hf, hof]
    rfl
  have hname : nameOf (parsedOf (toNxBip name G)) = .one (nameVal name) := by
    simp [nameOf, parsedOf, nameField, toNxBip]
  show readGml u .bipartite (gmlText (toNxBip name G)) = _
  simp only [readGml, hparse, Res.bind, hnorm, hname]

end Cnfgen.Gml
