/-
C14 (GML) — cnfgen's part after the parser (`normalize`, the relabelling, `from_networkx`) on the
object that was written: read(write(G)) is G, for the three classes.
-/
import Lemmas.GmlBuild
import Lemmas.C15NxBase
import Lemmas.GraphIORelabel
namespace Cnfgen.Gml
open Cnfgen GraphLex GraphFmt Nx

/-! ### the relabelling of the ids `0..n-1` -/

theorem labelsFrom_eq_map (n : Nat) : labelsFrom 0 n = (List.range n).map (fun j : Nat => Label.int (j : Int)) := by
  simp [labelsFrom, List.range_eq_range']

theorem labelsFrom_sorted (n : Nat) : (labelsFrom 0 n).Pairwise (fun a b => Label.le a b = true) := by
  rw [labelsFrom_eq_map, List.pairwise_map]
  have : (List.range n).Pairwise (· < ·) := List.pairwise_lt_range
  refine this.imp ?_
  intro a b hab
  simp only [Label.le, decide_eq_true_eq]
  omega

theorem ranks_labelsFrom (n : Nat) : ranks (labelsFrom 0 n) = (List.range n).map (· + 1) := by
  have hall : (labelsFrom 0 n).all Label.isInt = true := by
    rw [labelsFrom_eq_map]; simp [Label.isInt]
  unfold ranks
  simp only [hall, Bool.true_or, if_true]
  rw [sortBy_sorted Label.le _ (labelsFrom_sorted n)]
  conv => lhs; arg 2; rw [labelsFrom_eq_map]
  rw [List.map_map]
  apply List.map_congr_left
  intro j hj
  have hj' : j < n := List.mem_range.1 hj
  have := (idxOf_labelsFrom n 0 j hj').1
  simp only [Nat.zero_add] at this
  simp only [Function.comp, rank, this]

theorem getD_ranks (n i : Nat) (h : i < n) : ((List.range n).map (· + 1)).getD i 0 = i + 1 := by
  simp [List.getD, h]

/-! ### `DiGraph.edges()` -/

theorem mem_diEdges {n : Nat} {T : List (Nat × Nat)} {u v : Nat} :
    (u, v) ∈ diEdges n T ↔ u < n ∧ (u, v) ∈ T := by
  simp only [diEdges, List.mem_flatMap, List.mem_range, List.mem_map, Prod.mk.injEq]
  constructor
  · rintro ⟨w, hw, x, hx, rfl, rfl⟩
    rw [mem_dedup] at hx
    simp only [List.mem_map, List.mem_filter, beq_iff_eq] at hx
    obtain ⟨e, ⟨he, rfl⟩, rfl⟩ := hx
    exact ⟨hw, he⟩
  · rintro ⟨hu, he⟩
    refine ⟨u, hu, v, ?_, rfl, rfl⟩
    rw [mem_dedup]
    simp only [List.mem_map, List.mem_filter, beq_iff_eq]
    exact ⟨(u, v), ⟨he, rfl⟩, rfl⟩

theorem nodup_diEdges (n : Nat) (T : List (Nat × Nat)) : (diEdges n T).Nodup := by
  unfold diEdges
  rw [List.nodup_flatMap]
  refine ⟨?_, ?_⟩
  · intro w _
    exact (nodup_dedup _).map (fun a b h => by simpa using h)
  · have hnd : (List.range n).Nodup := List.nodup_range
    refine List.Pairwise.imp ?_ hnd
    intro a b hab x h1 h2
    simp only [List.mem_map] at h1 h2
    obtain ⟨_, _, rfl⟩ := h1
    obtain ⟨_, _, h⟩ := h2
    injection h with h _
    exact hab h.symm

theorem edgesDistinct_of_nodup_le {es : List (Nat × Nat)} (hn : es.Nodup) (hle : ∀ e ∈ es, e.1 ≤ e.2) :
    EdgesDistinct false es := by
  unfold EdgesDistinct
  have h2 : es.Pairwise (fun a b => a ≠ b) := hn
  refine List.Pairwise.imp_of_mem ?_ h2
  intro a b ha hb hab
  refine ⟨hab, fun _ e => ?_⟩
  have h1 := hle a ha
  have h3 := hle b hb
  rw [e] at h1
  simp only at h1
  apply hab
  rw [e]
  exact Prod.ext (by simp only; omega) (by simp only; omega)

theorem edgesDistinct_of_nodup {es : List (Nat × Nat)} (hn : es.Nodup) : EdgesDistinct true es := by
  unfold EdgesDistinct
  have h2 : es.Pairwise (fun a b => a ≠ b) := hn
  exact h2.imp (fun hab => ⟨hab, fun h => by cases h⟩)

/-- the ranks of the positions, applied to edges between existing nodes -/
theorem map_ranks_edges (n : Nat) (es : List (Nat × Nat)) (h : ∀ e ∈ es, e.1 < n ∧ e.2 < n) :
    es.map (fun e => (((List.range n).map (· + 1)).getD e.1 0, ((List.range n).map (· + 1)).getD e.2 0)) =
    es.map (fun e => (e.1 + 1, e.2 + 1)) := by
  apply List.map_congr_left
  intro e he
  rw [getD_ranks n e.1 (h e he).1, getD_ranks n e.2 (h e he).2]

/-! ### simple graphs -/

section simple
variable {G : SimpleG} (hI : SimpleG.Inv G)
include hI

/-- the `add_edge` calls of `to_networkx`, as positions -/
theorem simple_T_mem {a b : Nat} : (a, b) ∈ G.edges.map (fun e => (e.1 - 1, e.2 - 1)) ↔ (a + 1, b + 1) ∈ G.edges := by
  simp only [List.mem_map, Prod.mk.injEq]
  constructor
  · rintro ⟨⟨u, v⟩, he, rfl, rfl⟩
    have := hI.edges_range he
    simp only
    rwa [show u - 1 + 1 = u by omega, show v - 1 + 1 = v by omega]
  · intro he
    exact ⟨(a + 1, b + 1), he, by simp⟩

theorem simple_N0_WF : (NxG.mk G.n (G.edges.map (fun e => (e.1 - 1, e.2 - 1)))).WF := by
  intro e he
  obtain ⟨a, b⟩ := e
  have := hI.edges_range ((simple_T_mem hI).1 he)
  simp only; omega

theorem simple_N0_oriented : (NxG.mk G.n (G.edges.map (fun e => (e.1 - 1, e.2 - 1)))).Oriented := by
  intro e he
  obtain ⟨a, b⟩ := e
  have := hI.edges_range ((simple_T_mem hI).1 he)
  simp only; omega

end simple

theorem labelsFrom_length (a n : Nat) : (labelsFrom a n).length = n := by simp [labelsFrom]

theorem nxEdges_false (n : Nat) (T : List (Nat × Nat)) : nxEdges false n T = (NxG.mk n T).edges := by
  simp [nxEdges]

theorem nxEdges_true (n : Nat) (T : List (Nat × Nat)) : nxEdges true n T = diEdges n T := by
  simp [nxEdges]

/-- write then read, class `Graph` -/
theorem readGml_writeGml_simple (u : Bool) (name : Str) {G : SimpleG} (hI : SimpleG.Inv G)
    (hp : (natStr G.n).length ≤ maxStrDigits) :
    ∃ G', readGml u .simple (writeGml name (.simple G)) = .ok (.simple G', .one (.str [])) ∧ SimpleG.Same G G' := by
  have hW0 := simple_N0_WF hI
  have hO0 := simple_N0_oriented hI
  generalize hT : G.edges.map (fun e => (e.1 - 1, e.2 - 1)) = T at hW0 hO0
  have hTm : ∀ {a b : Nat}, (a, b) ∈ T ↔ (a + 1, b + 1) ∈ G.edges := by
    intro a b; rw [← hT]; exact simple_T_mem hI
  let N0 : NxG := ⟨G.n, T⟩
  let N1 : NxG := N0.relabelCopy
  let N2 : NxG := N1.relabelCopy
  have hW1 : N1.WF := NxG.relabelCopy_WF hW0
  have hW2 : N2.WF := NxG.relabelCopy_WF hW1
  have hE2 : ∀ {a b : Nat}, N2.E a b ↔ N0.E a b := by
    intro a b
    exact (NxG.relabelCopy_E hW1).trans (NxG.relabelCopy_E hW0)
  have hlen : (toNxSimple G).nodes.length = G.n := by simp [toNxSimple]
  have hX : toNxSimple G = ⟨false, none, (toNxSimple G).nodes, T⟩ := by simp [toNxSimple, hT]
  have hPr : Printable (toNxSimple G) := by
    refine ⟨by rw [hlen]; exact hp, ?_⟩
    rw [hlen, hX, nxEdges_false]
    rintro ⟨a, b⟩ he
    obtain ⟨h1, _, h3⟩ := NxG.mem_edges.1 he
    exact ⟨h1, (hW0.of_E h3).2⟩
  have hDist : EdgesDistinct (toNxSimple G).directed
      (nxEdges (toNxSimple G).directed (toNxSimple G).nodes.length (toNxSimple G).tedges) := by
    rw [hlen, hX, nxEdges_false]
    exact edgesDistinct_of_nodup_le (NxG.nodup_edges _) (fun e he => (NxG.mem_edges'.1 he).2.1)
  have hparse := parseGml_gmlText u (toNxSimple G) hPr hDist
  -- the calls of `from_networkx`
  have hcalls : fromNxCalls (parsedOf (toNxSimple G)) = N2.edges.map (fun e => (e.1 + 1, e.2 + 1)) := by
    simp only [fromNxCalls, parsedOf, labelsFrom_length, hlen, ranks_labelsFrom]
    rw [hX, nxEdges_false, nxEdges_false, nxEdges_false]
    apply map_ranks_edges
    rintro ⟨a, b⟩ he
    obtain ⟨h1, _, h3⟩ := NxG.mem_edges.1 he
    exact ⟨h1, (hW2.of_E h3).2⟩
  have hlist := SimpleG.fromNx_listing hI (es := N2.edges.map (fun e => (e.1 + 1, e.2 + 1))) (by
      intro e he
      obtain ⟨⟨a, b⟩, hab, rfl⟩ := List.mem_map.1 he
      obtain ⟨h1, h2, h3⟩ := NxG.mem_edges.1 hab
      have h4 : a < G.n ∧ b < G.n := hW0.of_E (hE2.1 h3)
      have h5 := hO0.loopless.of_E (hE2.1 h3)
      simp only; omega) (by
      rintro ⟨x, y⟩
      constructor
      · intro hp
        have hxy := (SimpleG.mem_abs.1 hp)
        have hed : (x, y) ∈ G.edges := hI.mem_edges'.2 ⟨hxy.1, hxy.2⟩
        have hr := hI.edges_range hed
        have hT' : (x - 1, y - 1) ∈ T := hTm.2 (by rwa [show x - 1 + 1 = x by omega, show y - 1 + 1 = y by omega])
        refine ⟨(x, y), ?_, ?_⟩
        · refine List.mem_map.2 ⟨(x - 1, y - 1), ?_, by simp only; exact Prod.ext (by simp only; omega) (by simp only; omega)⟩
          exact NxG.mem_edges.2 ⟨by show x - 1 < G.n; omega, by omega, hE2.2 (Or.inl hT')⟩
        · simp only [SimpleG.norm]
          exact Prod.ext (by simp only; omega) (by simp only; omega)
      · rintro ⟨e, he, hpe⟩
        obtain ⟨⟨a, b⟩, hab, rfl⟩ := List.mem_map.1 he
        obtain ⟨h1, h2, h3⟩ := NxG.mem_edges.1 hab
        have h4 : (a, b) ∈ T := by
          rcases hE2.1 h3 with h | h
          · exact h
          · have := hO0 _ h; simp only at this; omega
        have h5 := hO0 _ h4
        simp only at h5
        have hed : (a + 1, b + 1) ∈ G.edges := hTm.1 h4
        have hm := hI.mem_edges'.1 hed
        simp only [SimpleG.norm] at hpe
        have : (x, y) = (a + 1, b + 1) := by
          rw [hpe]; exact Prod.ext (by simp only; omega) (by simp only; omega)
        rw [this]
        exact SimpleG.mem_abs.2 hm)
  obtain ⟨G', h1, h2, h3, h4, h5, h6⟩ := hlist
  refine ⟨G', ?_, ⟨h3, h4, h5, h6⟩⟩
  have hof : SimpleG.ofEdges G.n (N2.edges.map (fun e => (e.1 + 1, e.2 + 1))) = .ok G' := h1
  have hnorm : normalize .simple (parsedOf (toNxSimple G)) = .ok (.simple G') := by
    simp only [normalize, hcalls]
    simp only [parsedOf, labelsFrom_length, hlen, hof, liftE, Res.bind]
  have hname : nameOf (parsedOf (toNxSimple G)) = .one (.str []) := by
    simp [nameOf, parsedOf, nameField, toNxSimple]
  show readGml u .simple (gmlText (toNxSimple G)) = _
  simp only [readGml, hparse, Res.bind, hnorm, hname]

end Cnfgen.Gml
