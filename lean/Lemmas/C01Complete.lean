/-
`new_mapping(m, n)` is `new_sparse_mapping(CompleteBipartiteGraph(m, n))`: on the complete
bipartite graph the edge identifiers are `Vars.mapId`, rows and columns are full index ranges.
-/
import Lemmas.C01Bip
import Lemmas.GraphComplete
import CnfgenModel.Fam.Php
namespace Cnfgen.Fam
open Cnfgen

theorem oneTo_eq_idx (k : Nat) : oneTo k = idx k := by
  simp [oneTo, idx, rangeN]

theorem degSum_complete (m n k : Nat) (hk : k ≤ m) : degSum (BipG.complete m n) k = k * n := by
  induction k with
  | zero => simp [degSum]
  | succ k ih =>
    simp only [degSum, ih (by omega), BipG.complete_rnbrs (l := m) (r := n) (u := k + 1) ⟨by omega, hk⟩,
      length_oneTo, Nat.add_mul, Nat.one_mul]

theorem idxOf_idx {n v : Nat} (h1 : 1 ≤ v) (h2 : v ≤ n) : (idx n).idxOf v = v - 1 := by
  have hlt : v - 1 < (idx n).length := by rw [length_idx]; omega
  have hget : (idx n)[v - 1]'hlt = v := by
    simp only [idx, rangeN, List.getElem_map, List.getElem_range]; omega
  have := (idx_nodup n).idxOf_getElem (v - 1) hlt
  rw [hget] at this; exact this

theorem bipId_complete (m n u v : Nat) (hu1 : 1 ≤ u) (hu : u ≤ m) (hv1 : 1 ≤ v) (hv : v ≤ n) :
    Vars.bipId (BipG.complete m n) 1 u v = Vars.mapId 1 n u v := by
  rw [bipId_eq _ _ _ _ hu1 hu, degSum_complete m n (u - 1) (by omega),
    BipG.complete_rnbrs ⟨hu1, hu⟩, oneTo_eq_idx, idxOf_idx hv1 hv]
  rfl

theorem numberOfEdges_complete (m n : Nat) : (BipG.complete m n).numberOfEdges = m * n := by
  simp only [BipG.numberOfEdges, BipG.complete, List.length_flatMap, List.length_map, List.length_range,
    List.map_const']
  induction m with
  | zero => simp
  | succ m ih => simp [List.replicate_succ, ih, Nat.succ_mul, Nat.add_comm]

theorem smap_row_complete (m n u : Nat) (hu : u ∈ idx m) :
    (SMap.mk (BipG.complete m n) 1).row u = (UMap.mk 1 m n).row u := by
  rw [mem_idx] at hu
  simp only [SMap.row, UMap.row, BipG.complete_rnbrs hu, oneTo_eq_idx]
  apply List.map_congr_left
  intro v hv
  rw [mem_idx] at hv
  simp only [SMap.lit, SMap.var, UMap.lit, UMap.var, bipId_complete m n u v hu.1 hu.2 hv.1 hv.2]

theorem smap_col_complete (m n v : Nat) (hv : v ∈ idx n) :
    (SMap.mk (BipG.complete m n) 1).col v = (UMap.mk 1 m n).col v := by
  rw [mem_idx] at hv
  simp only [SMap.col, UMap.col, BipG.complete_lnbrs hv, oneTo_eq_idx]
  apply List.map_congr_left
  intro u hu
  rw [mem_idx] at hu
  simp only [SMap.lit, SMap.var, UMap.lit, UMap.var, bipId_complete m n u v hu.1 hu.2 hv.1 hv.2]

/-- the pigeonhole principle is the graph pigeonhole principle of the complete bipartite graph -/
theorem phpF_eq_gphp_complete (m n : Nat) (f o : Bool) :
    phpF m n f o = gphp (BipG.complete m n) f o := by
  have hC : (UMap.mk 1 m n).forceComplete = (SMap.mk (BipG.complete m n) 1).forceComplete := by
    simp only [UMap.forceComplete, SMap.forceComplete]
    exact List.map_congr_left (fun u hu => by rw [smap_row_complete m n u hu])
  have hF : (UMap.mk 1 m n).forceFunctional = (SMap.mk (BipG.complete m n) 1).forceFunctional := by
    simp only [UMap.forceFunctional, SMap.forceFunctional]
    exact List.map_congr_left (fun u hu => by rw [smap_row_complete m n u hu])
  have hS : (UMap.mk 1 m n).forceSurjective = (SMap.mk (BipG.complete m n) 1).forceSurjective := by
    simp only [UMap.forceSurjective, SMap.forceSurjective]
    exact List.map_congr_left (fun v hv => by rw [smap_col_complete m n v hv])
  have hI : (UMap.mk 1 m n).forceInjective = (SMap.mk (BipG.complete m n) 1).forceInjective := by
    simp only [UMap.forceInjective, SMap.forceInjective]
    exact List.map_congr_left (fun v hv => by rw [smap_col_complete m n v hv])
  simp only [phpF, gphp, hC, hF, hS, hI, numberOfEdges_complete]

end Cnfgen.Fam
