/-
Lemmas for the translated family generators that use the edge variables of a simple graph (`new_graph_edges`):
creation on the formula object, `e(u, None)` (the edges at a vertex: first those to smaller, then those to larger
neighbours).
-/
import Lemmas.GenFamRphp
import Lemmas.GenAuxBip
import Props.C11.GeneratedGraph
set_option linter.unusedSimpArgs false
namespace Cnfgen.GenFam
open Cnfgen Cnfgen.Vars Cnfgen.PyGen Cnfgen.GenVars Cnfgen.PyF Cnfgen.C11 Cnfgen.Fam

theorem graph_ids (nv : Nat) (B : BipG) :
    (graphSelf nv B).ids = ⟨(nv : Int) + 1, (nv : Int) + ((B.numberOfEdges : Nat) : Int) + 1⟩ := rfl

theorem add_variable_group_graph_eq (s : FState) (nv : Nat) (B : BipG) (hs : s.numvar = nv) :
    VariablesManager.add_variable_group_graph s (graphSelf nv B) =
      Except.ok { s with numvar := ((nv + B.numberOfEdges : Nat) : Int) } := by
  simp only [VariablesManager.add_variable_group_graph, GraphEdgesVariables.len, GraphEdgesVariables.getitem,
    graph_ids, range_len']
  by_cases hE : B.numberOfEdges = 0
  · have : ((B.numberOfEdges : Nat) : Int) = 0 := by omega
    rw [if_pos this]
    cases s
    simp only at hs
    simp [hs, hE]
  · have h0 : ¬ (((B.numberOfEdges : Nat) : Int) = 0) := by omega
    rw [if_neg h0, range_get_first _ _ (by omega), range_get_last _ _ (by omega)]
    simp only [Py.ok_bind, PyF.number_of_variables, PyF.update_variable_number, hs]
    have h1 : (nv : Int) + ((B.numberOfEdges : Nat) : Int) ≥ (nv : Int) + 1 := by omega
    have h2 : ¬ ((nv : Int) + 1 ≤ (nv : Int)) := by omega
    have h3 : ¬ ((nv : Int) + ((B.numberOfEdges : Nat) : Int) < 0) := by omega
    have h4 : (nv : Int) + ((B.numberOfEdges : Nat) : Int) > (nv : Int) := by omega
    simp only [h1, if_true, h2, if_false, h3, h4]
    congr 2

/-- `new_graph_edges(G, label=…)` with a label that formats, on a graph object whose auxiliary graph is `B` -/
theorem new_graph_edges_eq (s : FState) (nv : Nat) (hs : s.numvar = nv) {G : SimpleG} {B : BipG}
    (hB : graphAux G = .ok B) :
    VariablesManager.new_graph_edges s (absGraph G) (Except.ok ()) =
      Except.ok (graphSelf nv B, { s with numvar := ((nv + B.numberOfEdges : Nat) : Int) }) := by
  unfold VariablesManager.new_graph_edges
  simp only []
  rw [hs, gen_graph_init_ok nv hB, Py.ok_bind, add_variable_group_graph_eq s nv B hs, Py.ok_bind]

/-- `e(w, None)`: the variables of the edges at `w` — the column of `w` (smaller neighbours), then its row -/
theorem graph_call_row (nv : Nat) {B : BipG} (h : B.WF) (hlt : ∀ a b, (a, b) ∈ B.edgeset → a < b) (w : Nat)
    (hw : (1 ≤ w ∧ w ≤ B.l) ∧ (1 ≤ w ∧ w ≤ B.r)) :
    GraphEdgesVariables.call (graphSelf nv B) [some (w : Int), none] =
      Except.ok (Sum.inr ((SMap.mk B (nv + 1)).col w ++ (SMap.mk B (nv + 1)).row w)) := by
  rw [gen_graph_call_eq_model nv h (fun a b hab => Nat.le_of_lt (hlt a b hab))]
  have hw1 : (1 : Int) ≤ (w : Int) ∧ (w : Int) ≤ (B.l : Int) := by omega
  have hw2 : (1 : Int) ≤ (w : Int) ∧ (w : Int) ≤ (B.r : Int) := by omega
  have hcol : ∀ u ∈ B.lnbrs w, bipId B (nv + 1) (min u w) (max u w) = bipId B (nv + 1) u w := by
    intro u hu
    have := hlt u w ((h.mem_col _ _).1 hu)
    rw [Nat.min_eq_left (by omega), Nat.max_eq_right (by omega)]
  have hrow : ∀ v ∈ B.rnbrs w, bipId B (nv + 1) (min w v) (max w v) = bipId B (nv + 1) w v ∧ v ≠ w := by
    intro v hv
    have := hlt w v ((h.mem_row _ _).1 hv)
    rw [Nat.min_eq_left (by omega), Nat.max_eq_right (by omega)]
    exact ⟨rfl, by omega⟩
  have hidx : graphIndices B [some (w : Int), none] =
      .ok ((B.lnbrs w).map (fun u => (u, w)) ++ (B.rnbrs w).map (fun v => (w, v))) := by
    have hf : ((B.rnbrs w).map (fun v => (w, v))).filter (fun e => decide ((e.2 : Int) ≠ (w : Int))) =
        (B.rnbrs w).map (fun v => (w, v)) := by
      apply List.filter_eq_self.2
      intro e he
      obtain ⟨v, hv, rfl⟩ := List.mem_map.1 he
      have := (hrow v hv).2
      simp only [ne_eq, decide_eq_true_eq]; omega
    have ht : ¬ ¬ (True ∧ True) := by simp
    simp only [graphIndices, bipIndices, hw1, hw2, if_neg ht, Int.toNat_natCast, bind, Except.bind,
      pure, Except.pure, hf]
  have hproj : isProjection [some (w : Int), none] = true := by simp [isProjection]
  simp only [Group.baseCall, Group.indices, hidx, Py.map_ok, bind, Except.bind, pure, Except.pure, hproj, if_true,
    Except.map, resSum, pairList, List.map_append, List.map_map, Function.comp_def, Group.unsafeId,
    List.getD_cons_zero, List.getD_cons_succ, ints, SMap.col, SMap.row, SMap.lit, SMap.var]
  congr 2
  congr 1
  · apply List.map_congr_left
    intro u hu
    rw [hcol u hu]; rfl
  · apply List.map_congr_left
    intro v hv
    rw [(hrow v hv).1]; rfl

/-- `e(u, v)` on an edge (either orientation): its identifier -/
theorem graph_call_pair (nv : Nat) {B : BipG} (h : B.WF) (hlt : ∀ a b, (a, b) ∈ B.edgeset → a < b) (u v : Nat)
    (he : (min u v, max u v) ∈ B.edgeset) :
    GraphEdgesVariables.call (graphSelf nv B) [some (u : Int), some (v : Int)] =
      Except.ok (Sum.inl ((bipId B (nv + 1) (min u v) (max u v) : Nat) : Int)) := by
  rw [gen_graph_call_eq_model nv h (fun a b hab => Nat.le_of_lt (hlt a b hab))]
  have hmin : min (u : Int) (v : Int) = ((min u v : Nat) : Int) := by omega
  have hmax : max (u : Int) (v : Int) = ((max u v : Nat) : Int) := by omega
  have hh : B.hasEdge ((min u v : Nat) : Int) ((max u v : Nat) : Int) = true := by
    rw [BipG.hasEdge_iff_mem]
    exact ⟨by omega, by omega, by rw [Int.toNat_natCast, Int.toNat_natCast]; exact he⟩
  have hnn : ¬ ¬ (B.hasEdge ((min u v : Nat) : Int) ((max u v : Nat) : Int) = true) := not_not.2 hh
  have hidx : graphIndices B [some (u : Int), some (v : Int)] = .ok [(min u v, max u v)] := by
    simp only [graphIndices, bipIndices, hmin, hmax, if_neg hnn, Int.toNat_natCast]
  have hproj : isProjection [some (u : Int), some (v : Int)] = false := by simp [isProjection]
  have hmm : min (min u v) (max u v) = min u v ∧ max (min u v) (max u v) = max u v := by omega
  simp only [Group.baseCall, Group.indices, hidx, Py.map_ok, bind, Except.bind, pure, Except.pure, hproj,
    Except.map, resSum, pairList, List.map_cons, List.map_nil, Group.unsafeId, List.getD_cons_zero,
    List.getD_cons_succ, hmm.1, hmm.2, Bool.false_eq_true, if_false]

theorem add_parity_checked (s : FState) (c : List Int) (v : Int)
    (h : ∀ l ∈ c, l ≠ 0 ∧ (l.natAbs : Int) ≤ s.numvar) :
    PyF.add_parity s c v true = Except.ok (push s (.parity c v)) := by
  simp [PyF.add_parity, PyF.checked, check_and_update_noop s c h]

theorem add_parity_wf {F : Formula} (hF : F.WF) (s : FState) (hs : s.numvar = F.nvars) (c : List Int) (v : Int)
    (hc : Con.parity c v ∈ F.cons) :
    ((PyF.add_parity s c v true) >>= fun x => Except.ok x) = Except.ok (push s (.parity c v)) := by
  rw [add_parity_checked s c v (lits_ok_of_wf hF hc s hs)]; rfl

/-- `e.indices(w, None)`: the edges at `w`, first those from smaller then those to larger neighbours -/
theorem graph_indices_row (nv : Nat) {B : BipG} (h : B.WF) (hlt : ∀ a b, (a, b) ∈ B.edgeset → a < b) (w : Nat)
    (hw : (1 ≤ w ∧ w ≤ B.l) ∧ (1 ≤ w ∧ w ≤ B.r)) :
    GraphEdgesVariables.indices (graphSelf nv B) [some (w : Int), none] =
      Except.ok (intPairs ((B.lnbrs w).map (fun u => (u, w)) ++ (B.rnbrs w).map (fun v => (w, v)))) := by
  rw [gen_graph_indices_eq_model]
  have hw1 : (1 : Int) ≤ (w : Int) ∧ (w : Int) ≤ (B.l : Int) := by omega
  have hw2 : (1 : Int) ≤ (w : Int) ∧ (w : Int) ≤ (B.r : Int) := by omega
  have hf : ((B.rnbrs w).map (fun v => (w, v))).filter (fun e => decide ((e.2 : Int) ≠ (w : Int))) =
      (B.rnbrs w).map (fun v => (w, v)) := by
    apply List.filter_eq_self.2
    intro e he
    obtain ⟨v, hv, rfl⟩ := List.mem_map.1 he
    have := hlt w v ((h.mem_row _ _).1 hv)
    simp only [ne_eq, decide_eq_true_eq]; omega
  have ht : ¬ ¬ (True ∧ True) := by simp
  simp only [graphIndices, bipIndices, hw1, hw2, if_neg ht, Int.toNat_natCast, bind, Except.bind,
    pure, Except.pure, hf, Py.map_ok]

/-- a loop that fails at some element after succeeding (with the number of variables unchanged) on the earlier ones -/
theorem foldlM_error_at {α : Type} (N : Int) (pre : List α) (x : α) (post : List α)
    (body : FState → α → Except Err FState) (c : α → Con) (e : Err)
    (hpre : ∀ s y, y ∈ pre → s.numvar = N → body s y = Except.ok (push s (c y)))
    (hx : ∀ s, s.numvar = N → body s x = Except.error e) (s : FState) (hs : s.numvar = N) :
    List.foldlM body s (pre ++ x :: post) = Except.error e := by
  induction pre generalizing s with
  | nil => simp [List.foldlM_cons, hx s hs, bind, Except.bind]
  | cons y ys ih =>
    rw [List.cons_append, List.foldlM_cons, hpre s y (by simp) hs, Py.ok_bind]
    exact ih (fun s z hz hs => hpre s z (by simp [hz]) hs) (push s (c y)) (by simpa [push] using hs)

end Cnfgen.GenFam
