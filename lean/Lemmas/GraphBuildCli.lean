/-
Lemmas for C15, command-line layer: which exception classes can leave `obtain_graph`.
No Mathlib.
-/
import Lemmas.GraphBuildRegular
import Lemmas.GraphBuildMods
import CnfgenModel.Cli.GraphArgs
namespace Cnfgen
open GRand GCli

namespace GRand

/-- every exception the computation can raise satisfies `P` -/
def Only {α} (P : Err → Prop) (x : RM α) : Prop := ∀ ds e, x ds = .exc e → P e

theorem Only.pure {α} {P : Err → Prop} (a : α) : Only P (pure a : RM α) :=
  fun _ _ h => absurd h (pure_ne_exc _ _ _)

theorem Only.raise {α} {P : Err → Prop} (e : Err) (h : P e) : Only P (RM.raise e : RM α) := by
  intro ds e' h'; rw [raise_exc] at h'; exact h' ▸ h

theorem Only.bind {α β} {P : Err → Prop} {x : RM α} {f : α → RM β} (hx : Only P x) (hf : ∀ a, Only P (f a)) :
    Only P (x >>= f) := by
  intro ds e h
  rw [bind_exc] at h
  rcases h with h | ⟨a, mid, _, h⟩
  · exact hx ds e h
  · exact hf a mid e h

theorem Only.ite {α} {P : Err → Prop} {c : Prop} [Decidable c] {x y : RM α} (hx : Only P x) (hy : Only P y) :
    Only P (if c then x else y) := by
  split <;> assumption

theorem Only.lift {α} {P : Err → Prop} (x : Except Err α) (h : ∀ e, x = .error e → P e) :
    Only P (RM.lift x) := by
  intro ds e h'; rw [lift_exc] at h'; exact h e h'

theorem Only.stuck {α} {P : Err → Prop} : Only P (fun _ => (.stuck : Out α)) := by
  intro ds e h; simp at h

theorem Only.foreign {α} {P : Err → Prop} : Only P (fun _ => (.foreign : Out α)) := by
  intro ds e h; simp at h

theorem Only.mono {α} {P Q : Err → Prop} {x : RM α} (h : Only P x) (hpq : ∀ e, P e → Q e) : Only Q x :=
  fun ds e he => hpq e (h ds e he)

abbrev VE : Err → Prop := fun e => e = .valueError

end GRand

namespace DiG
theorem addEdge_error (G : DiG) (u v : Int) (e : Err) (h : G.addEdge u v = .error e) : e = .valueError := by
  unfold addEdge at h
  split at h
  · simp at h; exact h.symm
  · split at h <;> simp at h

theorem addEdgesFrom_error_gb (es : List (Int × Int)) (G : DiG) (e : Err)
    (h : G.addEdgesFrom es = .error e) : e = .valueError := by
  induction es generalizing G with
  | nil => simp [addEdgesFrom, List.foldlM, pure, Except.pure] at h
  | cons x es ih =>
    simp only [addEdgesFrom, List.foldlM] at h
    rw [except_bind_error] at h
    rcases h with h | ⟨G1, _, h⟩
    · exact addEdge_error _ _ _ _ h
    · exact ih G1 h
end DiG

namespace GCli

theorem argInt_only (a : Arg) : Only VE (argInt a) := by
  unfold argInt
  split
  · exact Only.pure _
  · exact Only.raise _ rfl

theorem argInt_noForeign (a : Arg) : NoForeign (argInt a) := by
  unfold argInt
  split
  · exact NoForeign.pure _
  · exact NoForeign.raise _

theorem guard_only (b : Bool) : Only VE (GCli.guard b) := by
  unfold GCli.guard; split
  · exact Only.pure _
  · exact Only.raise _ rfl

theorem guard_noForeign (b : Bool) : NoForeign (GCli.guard b) := by
  unfold GCli.guard; split
  · exact NoForeign.pure _
  · exact NoForeign.raise _

theorem guard_ok (b : Bool) (ds rest : List Draw) (u : Unit) (h : GCli.guard b ds = .ok u rest) : b = true := by
  unfold GCli.guard at h
  split at h
  · assumption
  · simp [valueError, RM.raise] at h

theorem ext_only (e : Option CG) : Only VE (ext e) := by
  intro ds err h; unfold ext at h; split at h <;> simp at h

theorem ext_noForeign (e : Option CG) : NoForeign (ext e) := by
  intro ds h; unfold ext at h; split at h <;> simp at h

theorem argInts_only (as : List Arg) : Only VE (argInts as) := by
  induction as with
  | nil => exact Only.pure _
  | cons a as ih =>
    simp only [argInts]
    exact Only.bind (argInt_only a) (fun i => Only.bind ih (fun is => Only.pure _))

theorem argInts_noForeign (as : List Arg) : NoForeign (argInts as) := by
  induction as with
  | nil => exact NoForeign.pure _
  | cons a as ih =>
    simp only [argInts]
    exact NoForeign.bind (argInt_noForeign a) (fun i => NoForeign.bind ih (fun is => NoForeign.pure _))

theorem valueError_only {α} : Only VE (valueError : RM α) := Only.raise _ rfl
theorem valueError_noForeign {α} : NoForeign (valueError : RM α) := NoForeign.raise _

/-! closed forms raise `ValueError` only -/
theorem pyramid_error (h : Int) (e : Err) (he : GBuild.pyramid h = .error e) : e = .valueError := by
  unfold GBuild.pyramid at he
  split at he
  · simp at he; exact he.symm
  · exact DiG.addEdgesFrom_error_gb _ _ _ he

theorem tree_error (h : Int) (e : Err) (he : GBuild.tree h = .error e) : e = .valueError := by
  unfold GBuild.tree at he
  split at he
  · simp at he; exact he.symm
  · exact DiG.addEdgesFrom_error_gb _ _ _ he

theorem path_error (h : Int) (e : Err) (he : GBuild.path h = .error e) : e = .valueError := by
  unfold GBuild.path at he
  split at he
  · simp at he; exact he.symm
  · exact DiG.addEdgesFrom_error_gb _ _ _ he

theorem completeGraph_error (n : Int) (e : Err) (he : GBuild.completeGraph n = .error e) : e = .valueError := by
  unfold GBuild.completeGraph at he
  split at he
  · simp at he; exact he.symm
  · exact SimpleG.addEdgesFrom_error_gb _ _ _ he

theorem emptyGraph_error (n : Int) (e : Err) (he : GBuild.emptyGraph n = .error e) : e = .valueError := by
  unfold GBuild.emptyGraph at he
  split at he <;> simp at he
  exact he.symm

theorem shift_error (N M : Int) (p : List Int) (e : Err) (he : GBuild.shift N M p = .error e) :
    e = .valueError := by
  unfold GBuild.shift at he
  split at he
  · simp at he; exact he.symm
  · rw [except_bind_error] at he
    rcases he with he | ⟨G, _, he⟩
    · exact (BipG.addEdgesFrom_error_gb _ _ _ he).1
    · simp [pure, Except.pure] at he

theorem coinLoopS_only (lt : Nat → Bool) (ps : List (Nat × Nat)) (G : SimpleG) : Only VE (coinLoopS lt ps G) := by
  induction ps generalizing G with
  | nil => exact Only.pure _
  | cons p ps ih =>
    obtain ⟨u, v⟩ := p
    simp only [coinLoopS]
    refine Only.bind (fun ds e h => absurd h (random_ne_exc _ _)) (fun x => Only.ite ?_ (ih G))
    exact Only.bind (Only.lift _ (fun e he => SimpleG.addEdge_error _ _ _ _ he)) (fun G1 => ih G1)

theorem coinLoopS_noForeign (lt : Nat → Bool) (ps : List (Nat × Nat)) (G : SimpleG) :
    NoForeign (coinLoopS lt ps G) := by
  induction ps generalizing G with
  | nil => exact NoForeign.pure _
  | cons p ps ih =>
    obtain ⟨u, v⟩ := p
    simp only [coinLoopS]
    exact NoForeign.bind NoForeign.random (fun x => NoForeign.ite
      (NoForeign.bind (NoForeign.lift _) (fun G1 => ih G1)) (ih G))

/-- exceptions that `regular` may raise on the command line: `ValueError`, or `RecursionError`
when every attempt within the restart budget failed -/
abbrev VEorRec : Err → Prop := fun e => e = .valueError ∨ e = .recursion

/-- T-C15.4: `networkx.random_regular_graph`'s own refusal is never reached: what `obtain_gnd`
accepts satisfies its documented precondition (before the fix of D16 the guard was `n >= d` and
this failed for `N = d`) -/
theorem gnd_accepted_pre (n d : Int) (hg : gndGuard n d = true) (ho : gndOdd n d = false) :
    nxRegularPre d n = true := by
  simp only [gndGuard, gndOdd, nxRegularPre, Bool.and_eq_true, decide_eq_true_eq, beq_eq_false_iff_ne,
    beq_iff_eq, ne_eq] at *
  omega

theorem obtainGnd_noForeign (args : List Arg) (e : Option CG) : NoForeign (obtainGnd args e) := by
  unfold obtainGnd
  split
  · rename_i a b
    intro ds h
    rw [bind_foreign] at h
    rcases h with h | ⟨n, m1, _, h⟩
    · exact argInt_noForeign _ _ h
    · rw [bind_foreign] at h
      rcases h with h | ⟨d, m2, _, h⟩
      · exact argInt_noForeign _ _ h
      · rw [bind_foreign] at h
        rcases h with h | ⟨u, m3, hg, h⟩
        · exact guard_noForeign _ _ h
        · have hg' := guard_ok _ _ _ _ hg
          split at h
          · exact valueError_noForeign _ h
          · rename_i hodd
            have hpre := gnd_accepted_pre n d hg' (by simpa using hodd)
            rw [hpre] at h
            simp only [Bool.not_true, Bool.false_eq_true, if_false] at h
            exact ext_noForeign _ _ h
  · exact valueError_noForeign

theorem construct_only (c : Cons) (args : List Arg) (e : Option CG) (fuel : Nat) :
    Only (fun err => err = .valueError ∨ (c = .regular ∧ err = .recursion)) (construct c args e fuel) := by
  have lift : ∀ {α} {x : RM α}, Only VE x →
      Only (fun err => err = .valueError ∨ (c = .regular ∧ err = .recursion)) x :=
    fun h => h.mono (fun e he => Or.inl he)
  cases c <;> simp only [construct]
  case gnp =>
    apply lift; unfold obtainGnp
    have hgo : ∀ a p t?, Only VE (obtainGnpGo e a p t?) := by
      intro a p t?
      unfold obtainGnpGo
      refine Only.bind (argInt_only _) (fun n => ?_)
      split
      · split
        · exact Only.bind (argInt_only _) (fun _ => valueError_only)
        · exact valueError_only
      · refine Only.bind ?_ (fun t => Only.bind (guard_only _) (fun _ => Only.ite (ext_only _) ?_))
        · split
          · exact argInt_only _
          · exact Only.pure _
        · exact Only.bind (coinLoopS_only _ _ _) (fun _ => Only.pure _)
    split
    · exact hgo _ _ _
    · exact hgo _ _ _
    · exact valueError_only
  case gnm =>
    apply lift; unfold obtainGnm; split
    · exact Only.bind (argInt_only _) (fun _ => Only.bind (argInt_only _) (fun _ =>
        Only.bind (guard_only _) (fun _ => ext_only _)))
    · exact valueError_only
  case gnd =>
    apply lift; unfold obtainGnd; split
    · exact Only.bind (argInt_only _) (fun _ => Only.bind (argInt_only _) (fun _ =>
        Only.bind (guard_only _) (fun _ => Only.ite valueError_only (Only.ite Only.foreign (ext_only _)))))
    · exact valueError_only
  case grid =>
    apply lift; unfold obtainGridOrTorus
    exact Only.bind (argInts_only _) (fun _ => Only.bind (guard_only _) (fun _ => Only.bind (guard_only _) (fun _ =>
      Only.ite valueError_only (ext_only _))))
  case torus =>
    apply lift; unfold obtainGridOrTorus
    exact Only.bind (argInts_only _) (fun _ => Only.bind (guard_only _) (fun _ => Only.bind (guard_only _) (fun _ =>
      Only.ite valueError_only (ext_only _))))
  case completeS =>
    apply lift; unfold obtainCompleteSimple; split
    · exact Only.bind (argInt_only _) (fun _ => Only.bind (guard_only _) (fun _ =>
        Only.bind (Only.lift _ (completeGraph_error _)) (fun _ => Only.pure _)))
    · exact Only.bind (argInt_only _) (fun _ => Only.bind (argInt_only _) (fun _ =>
        Only.bind (guard_only _) (fun _ => ext_only _)))
    · exact valueError_only
  case emptyS =>
    apply lift; unfold obtainEmptySimple; split
    · exact Only.bind (argInt_only _) (fun _ => Only.bind (guard_only _) (fun _ =>
        Only.bind (Only.lift _ (emptyGraph_error _)) (fun _ => Only.pure _)))
    · exact valueError_only
  case path =>
    apply lift; unfold obtainPath; split
    · exact Only.bind (argInt_only _) (fun _ => Only.bind (guard_only _) (fun _ =>
        Only.bind (Only.lift _ (path_error _)) (fun _ => Only.pure _)))
    · exact valueError_only
  case tree =>
    apply lift; unfold obtainTree; split
    · exact Only.bind (argInt_only _) (fun _ => Only.bind (guard_only _) (fun _ =>
        Only.bind (Only.lift _ (tree_error _)) (fun _ => Only.pure _)))
    · exact valueError_only
  case pyramid =>
    apply lift; unfold obtainPyramid; split
    · exact Only.bind (argInt_only _) (fun _ => Only.bind (guard_only _) (fun _ =>
        Only.bind (Only.lift _ (pyramid_error _)) (fun _ => Only.pure _)))
    · exact valueError_only
  case glrp =>
    apply lift; unfold obtainGlrp; split
    · refine Only.bind (argInt_only _) (fun l => Only.bind (argInt_only _) (fun r => ?_))
      split
      · exact valueError_only
      · exact Only.bind (guard_only _) (fun _ => Only.bind
          (fun ds e h => (bipRandom_exc _ _ _ _ _ _ h).1) (fun _ => Only.pure _))
    · exact valueError_only
  case glrm =>
    apply lift; unfold obtainGlrm; split
    · exact Only.bind (argInt_only _) (fun _ => Only.bind (argInt_only _) (fun _ =>
        Only.bind (argInt_only _) (fun _ => Only.bind (guard_only _) (fun _ => Only.bind
          (fun ds e h => (randomMEdges_exc _ _ _ _ _ h).1) (fun _ => Only.pure _)))))
    · exact valueError_only
  case glrd =>
    apply lift; unfold obtainGlrd; split
    · exact Only.bind (argInt_only _) (fun _ => Only.bind (argInt_only _) (fun _ =>
        Only.bind (argInt_only _) (fun _ => Only.bind (guard_only _) (fun _ => Only.bind
          (fun ds e h => (leftRegular_exc _ _ _ _ _ h).1) (fun _ => Only.pure _)))))
    · exact valueError_only
  case regular =>
    unfold obtainRegular; split
    · refine Only.bind ((argInt_only _).mono (fun e he => Or.inl he)) (fun l =>
        Only.bind ((argInt_only _).mono (fun e he => Or.inl he)) (fun r =>
        Only.bind ((argInt_only _).mono (fun e he => Or.inl he)) (fun d => ?_)))
      intro ds err h
      rw [bind_exc] at h
      rcases h with h | ⟨u, mid, hg, h⟩
      · exact Or.inl (guard_only _ _ _ h)
      · have hg' := guard_ok _ _ _ _ hg
        rw [bind_exc] at h
        rcases h with h | ⟨G, mid2, _, h⟩
        · rcases randomRegular_exc _ _ _ _ _ _ h with ⟨he, _⟩ | ⟨he, _⟩
          · exact Or.inl he
          · exact Or.inr ⟨trivial, he⟩
        · exact absurd h (pure_ne_exc _ _ _)
    · exact valueError_only.mono (fun e he => Or.inl he)
  case shift =>
    apply lift; unfold obtainShift; split
    · exact Only.bind (argInt_only _) (fun _ => Only.bind (argInt_only _) (fun _ =>
        Only.bind (argInts_only _) (fun _ => Only.bind (guard_only _) (fun _ =>
          Only.bind (Only.lift _ (shift_error _ _ _)) (fun _ => Only.pure _)))))
    · exact valueError_only
  case completeB =>
    apply lift; unfold obtainCompleteBip; split
    · exact Only.bind (argInt_only _) (fun _ => Only.bind (argInt_only _) (fun _ =>
        Only.bind (guard_only _) (fun _ => Only.pure _)))
    · exact valueError_only
  case emptyB =>
    apply lift; unfold obtainEmptyBip; split
    · exact Only.bind (argInt_only _) (fun _ => Only.bind (argInt_only _) (fun _ =>
        Only.bind (guard_only _) (fun _ => Only.pure _)))
    · exact valueError_only

theorem construct_noForeign (c : Cons) (args : List Arg) (e : Option CG) (fuel : Nat) :
    NoForeign (construct c args e fuel) := by
  cases c <;> simp only [construct]
  case gnp =>
    unfold obtainGnp
    have hgo : ∀ a p t?, NoForeign (obtainGnpGo e a p t?) := by
      intro a p t?
      unfold obtainGnpGo
      refine NoForeign.bind (argInt_noForeign _) (fun n => ?_)
      split
      · split
        · exact NoForeign.bind (argInt_noForeign _) (fun _ => valueError_noForeign)
        · exact valueError_noForeign
      · refine NoForeign.bind ?_ (fun t => NoForeign.bind (guard_noForeign _) (fun _ =>
          NoForeign.ite (ext_noForeign _) ?_))
        · split
          · exact argInt_noForeign _
          · exact NoForeign.pure _
        · exact NoForeign.bind (coinLoopS_noForeign _ _ _) (fun _ => NoForeign.pure _)
    split
    · exact hgo _ _ _
    · exact hgo _ _ _
    · exact valueError_noForeign
  case gnm =>
    unfold obtainGnm; split
    · exact NoForeign.bind (argInt_noForeign _) (fun _ => NoForeign.bind (argInt_noForeign _) (fun _ =>
        NoForeign.bind (guard_noForeign _) (fun _ => ext_noForeign _)))
    · exact valueError_noForeign
  case gnd => exact obtainGnd_noForeign _ _
  case grid =>
    unfold obtainGridOrTorus
    exact NoForeign.bind (argInts_noForeign _) (fun _ => NoForeign.bind (guard_noForeign _) (fun _ =>
      NoForeign.bind (guard_noForeign _) (fun _ => NoForeign.ite valueError_noForeign (ext_noForeign _))))
  case torus =>
    unfold obtainGridOrTorus
    exact NoForeign.bind (argInts_noForeign _) (fun _ => NoForeign.bind (guard_noForeign _) (fun _ =>
      NoForeign.bind (guard_noForeign _) (fun _ => NoForeign.ite valueError_noForeign (ext_noForeign _))))
  case completeS =>
    unfold obtainCompleteSimple; split
    · exact NoForeign.bind (argInt_noForeign _) (fun _ => NoForeign.bind (guard_noForeign _) (fun _ =>
        NoForeign.bind (NoForeign.lift _) (fun _ => NoForeign.pure _)))
    · exact NoForeign.bind (argInt_noForeign _) (fun _ => NoForeign.bind (argInt_noForeign _) (fun _ =>
        NoForeign.bind (guard_noForeign _) (fun _ => ext_noForeign _)))
    · exact valueError_noForeign
  case emptyS =>
    unfold obtainEmptySimple; split
    · exact NoForeign.bind (argInt_noForeign _) (fun _ => NoForeign.bind (guard_noForeign _) (fun _ =>
        NoForeign.bind (NoForeign.lift _) (fun _ => NoForeign.pure _)))
    · exact valueError_noForeign
  case path =>
    unfold obtainPath; split
    · exact NoForeign.bind (argInt_noForeign _) (fun _ => NoForeign.bind (guard_noForeign _) (fun _ =>
        NoForeign.bind (NoForeign.lift _) (fun _ => NoForeign.pure _)))
    · exact valueError_noForeign
  case tree =>
    unfold obtainTree; split
    · exact NoForeign.bind (argInt_noForeign _) (fun _ => NoForeign.bind (guard_noForeign _) (fun _ =>
        NoForeign.bind (NoForeign.lift _) (fun _ => NoForeign.pure _)))
    · exact valueError_noForeign
  case pyramid =>
    unfold obtainPyramid; split
    · exact NoForeign.bind (argInt_noForeign _) (fun _ => NoForeign.bind (guard_noForeign _) (fun _ =>
        NoForeign.bind (NoForeign.lift _) (fun _ => NoForeign.pure _)))
    · exact valueError_noForeign
  case glrp =>
    unfold obtainGlrp; split
    · refine NoForeign.bind (argInt_noForeign _) (fun l => NoForeign.bind (argInt_noForeign _) (fun r => ?_))
      split
      · exact valueError_noForeign
      · exact NoForeign.bind (guard_noForeign _) (fun _ => NoForeign.bind
          (bipRandom_noForeign _ _ _ _) (fun _ => NoForeign.pure _))
    · exact valueError_noForeign
  case glrm =>
    unfold obtainGlrm; split
    · exact NoForeign.bind (argInt_noForeign _) (fun _ => NoForeign.bind (argInt_noForeign _) (fun _ =>
        NoForeign.bind (argInt_noForeign _) (fun _ => NoForeign.bind (guard_noForeign _) (fun _ =>
          NoForeign.bind (randomMEdges_noForeign _ _ _) (fun _ => NoForeign.pure _)))))
    · exact valueError_noForeign
  case glrd =>
    unfold obtainGlrd; split
    · exact NoForeign.bind (argInt_noForeign _) (fun _ => NoForeign.bind (argInt_noForeign _) (fun _ =>
        NoForeign.bind (argInt_noForeign _) (fun _ => NoForeign.bind (guard_noForeign _) (fun _ =>
          NoForeign.bind (leftRegular_noForeign _ _ _) (fun _ => NoForeign.pure _)))))
    · exact valueError_noForeign
  case regular =>
    unfold obtainRegular; split
    · exact NoForeign.bind (argInt_noForeign _) (fun _ => NoForeign.bind (argInt_noForeign _) (fun _ =>
        NoForeign.bind (argInt_noForeign _) (fun _ => NoForeign.bind (guard_noForeign _) (fun _ =>
          NoForeign.bind (randomRegular_noForeign _ _ _ _) (fun _ => NoForeign.pure _)))))
    · exact valueError_noForeign
  case shift =>
    unfold obtainShift; split
    · exact NoForeign.bind (argInt_noForeign _) (fun _ => NoForeign.bind (argInt_noForeign _) (fun _ =>
        NoForeign.bind (argInts_noForeign _) (fun _ => NoForeign.bind (guard_noForeign _) (fun _ =>
          NoForeign.bind (NoForeign.lift _) (fun _ => NoForeign.pure _)))))
    · exact valueError_noForeign
  case completeB =>
    unfold obtainCompleteBip; split
    · exact NoForeign.bind (argInt_noForeign _) (fun _ => NoForeign.bind (argInt_noForeign _) (fun _ =>
        NoForeign.bind (guard_noForeign _) (fun _ => NoForeign.pure _)))
    · exact valueError_noForeign
  case emptyB =>
    unfold obtainEmptyBip; split
    · exact NoForeign.bind (argInt_noForeign _) (fun _ => NoForeign.bind (argInt_noForeign _) (fun _ =>
        NoForeign.bind (guard_noForeign _) (fun _ => NoForeign.pure _)))
    · exact valueError_noForeign

/-! ### modifications -/
theorem sparseSimple_noForeign (goal : Int) (t : Nat) (G : SimpleG) : NoForeign (sparseSimple goal t G) := by
  induction t generalizing G with
  | zero => exact NoForeign.pure _
  | succ t ih =>
    simp only [sparseSimple]
    refine NoForeign.ite (NoForeign.pure _) (NoForeign.bind (NoForeign.sample _ _) (fun s => ?_))
    split
    · exact NoForeign.ite (ih _) (NoForeign.bind (NoForeign.lift _) (fun G1 => ih G1))
    · exact NoForeign.stuck

theorem addMissingSimple_noForeign (G : SimpleG) (m : Int) : NoForeign (addMissingSimple G m) := by
  unfold addMissingSimple
  refine NoForeign.ite (NoForeign.raise _) ?_
  simp only
  refine NoForeign.ite (NoForeign.raise _) (NoForeign.bind (sparseSimple_noForeign _ _ _) (fun G1 => ?_))
  exact NoForeign.ite (NoForeign.bind (NoForeign.samplePairs _ _) (fun _ => NoForeign.lift _)) (NoForeign.pure _)

theorem sparseBip_noForeign (goal : Int) (t : Nat) (G : BipG) : NoForeign (sparseBip goal t G) := by
  induction t generalizing G with
  | zero => exact NoForeign.pure _
  | succ t ih =>
    simp only [sparseBip]
    refine NoForeign.ite (NoForeign.pure _) (NoForeign.bind (NoForeign.sample _ _) (fun su =>
      NoForeign.bind (NoForeign.sample _ _) (fun sv => ?_)))
    split
    · exact NoForeign.ite (ih _) (NoForeign.bind (NoForeign.lift _) (fun G1 => ih G1))
    · exact NoForeign.stuck

theorem addMissingBip_noForeign (G : BipG) (m : Int) : NoForeign (addMissingBip G m) := by
  unfold addMissingBip
  refine NoForeign.ite (NoForeign.raise _) ?_
  simp only
  refine NoForeign.ite (NoForeign.raise _) (NoForeign.bind (sparseBip_noForeign _ _ _) (fun G1 => ?_))
  exact NoForeign.ite (NoForeign.bind (NoForeign.samplePairs _ _) (fun _ => NoForeign.lift _)) (NoForeign.pure _)

theorem addMissingCBip_noForeign (l r : Nat) (m : Int) : NoForeign (addMissingCBip l r m) := by
  unfold addMissingCBip
  exact NoForeign.ite (NoForeign.raise _) (NoForeign.ite (NoForeign.raise _) (NoForeign.pure _))

theorem addMissingCBip_only (l r : Nat) (m : Int) : Only VE (addMissingCBip l r m) := by
  unfold addMissingCBip
  exact Only.ite (Only.raise _ rfl) (Only.ite (Only.raise _ rfl) (Only.pure _))

theorem splitEdges_noForeign (G : SimpleG) (k : Int) : NoForeign (splitEdges G k) := by
  unfold splitEdges
  exact NoForeign.ite (NoForeign.raise _) (NoForeign.ite (NoForeign.raise _)
    (NoForeign.bind (NoForeign.samplePairs _ _) (fun _ => NoForeign.bind (NoForeign.lift _) (fun _ => NoForeign.lift _))))

theorem plantClique_noForeign (G : SimpleG) (k : Int) : NoForeign (plantClique G k) := by
  unfold plantClique
  exact NoForeign.ite (NoForeign.raise _) (NoForeign.bind (NoForeign.sample _ _) (fun _ => NoForeign.lift _))

theorem plantBiclique_noForeign (G : BipG) (a b : Int) : NoForeign (plantBiclique G a b) := by
  unfold plantBiclique
  exact NoForeign.ite (NoForeign.raise _) (NoForeign.bind (NoForeign.sample _ _) (fun _ =>
    NoForeign.bind (NoForeign.sample _ _) (fun _ => NoForeign.lift _)))

theorem plantBicliqueCBip_noForeign (l r : Nat) (a b : Int) : NoForeign (plantBicliqueCBip l r a b) := by
  unfold plantBicliqueCBip
  exact NoForeign.ite (NoForeign.raise _) (NoForeign.bind (NoForeign.sample _ _) (fun _ =>
    NoForeign.bind (NoForeign.sample _ _) (fun _ => NoForeign.pure _)))

theorem plantBicliqueCBip_only (l r : Nat) (a b : Int) : Only VE (plantBicliqueCBip l r a b) := by
  unfold plantBicliqueCBip
  exact Only.ite (Only.raise _ rfl) (Only.bind (fun ds e h => (sample_exc _ _ _ _ h).1) (fun _ =>
    Only.bind (fun ds e h => (sample_exc _ _ _ _ h).1) (fun _ => Only.pure _)))

theorem modifyPlantclique_only (opt : List Arg) (G : CG) : Only VE (modifyPlantclique opt G) := by
  unfold modifyPlantclique; split
  · refine Only.bind (argInt_only _) (fun k => Only.bind (guard_only _) (fun _ => ?_))
    split
    · exact Only.bind (fun ds e h => plantClique_exc _ _ _ _ h) (fun _ => Only.pure _)
    · exact Only.stuck
  · exact valueError_only

theorem modifyPlantclique_noForeign (opt : List Arg) (G : CG) : NoForeign (modifyPlantclique opt G) := by
  unfold modifyPlantclique; split
  · refine NoForeign.bind (argInt_noForeign _) (fun k => NoForeign.bind (guard_noForeign _) (fun _ => ?_))
    split
    · exact NoForeign.bind (plantClique_noForeign _ _) (fun _ => NoForeign.pure _)
    · exact NoForeign.stuck
  · exact valueError_noForeign

theorem modifyPlantbiclique_only (opt : List Arg) (G : CG) : Only VE (modifyPlantbiclique opt G) := by
  unfold modifyPlantbiclique; split
  · refine Only.bind (argInt_only _) (fun a => Only.bind (argInt_only _) (fun b =>
      Only.bind (guard_only _) (fun _ => ?_)))
    split
    · exact Only.bind (fun ds e h => plantBiclique_exc _ _ _ _ _ h) (fun _ => Only.pure _)
    · exact Only.bind (plantBicliqueCBip_only _ _ _ _) (fun _ => Only.pure _)
    · exact Only.stuck
  · exact valueError_only

theorem modifyPlantbiclique_noForeign (opt : List Arg) (G : CG) : NoForeign (modifyPlantbiclique opt G) := by
  unfold modifyPlantbiclique; split
  · refine NoForeign.bind (argInt_noForeign _) (fun a => NoForeign.bind (argInt_noForeign _) (fun b =>
      NoForeign.bind (guard_noForeign _) (fun _ => ?_)))
    split
    · exact NoForeign.bind (plantBiclique_noForeign _ _ _) (fun _ => NoForeign.pure _)
    · exact NoForeign.bind (plantBicliqueCBip_noForeign _ _ _ _) (fun _ => NoForeign.pure _)
    · exact NoForeign.stuck
  · exact valueError_noForeign

theorem modifyAddedges_only (opt : List Arg) (G : CG) : Only VE (modifyAddedges opt G) := by
  unfold modifyAddedges; split
  · refine Only.bind (argInt_only _) (fun k => Only.bind (guard_only _) (fun _ => ?_))
    split
    · exact Only.bind (fun ds e h => addMissingSimple_exc _ _ _ _ h) (fun _ => Only.pure _)
    · exact Only.bind (fun ds e h => addMissingBip_exc _ _ _ _ h) (fun _ => Only.pure _)
    · exact Only.bind (addMissingCBip_only _ _ _) (fun _ => Only.pure _)
    · exact Only.stuck
  · exact valueError_only

theorem modifyAddedges_noForeign (opt : List Arg) (G : CG) : NoForeign (modifyAddedges opt G) := by
  unfold modifyAddedges; split
  · refine NoForeign.bind (argInt_noForeign _) (fun k => NoForeign.bind (guard_noForeign _) (fun _ => ?_))
    split
    · exact NoForeign.bind (addMissingSimple_noForeign _ _) (fun _ => NoForeign.pure _)
    · exact NoForeign.bind (addMissingBip_noForeign _ _) (fun _ => NoForeign.pure _)
    · exact NoForeign.bind (addMissingCBip_noForeign _ _ _) (fun _ => NoForeign.pure _)
    · exact NoForeign.stuck
  · exact valueError_noForeign

/-- `splitedges`: `ValueError`, or the `TypeError` of `split_random_edges` for a graph that is not
a `Graph` (the parser offers the option for simple graphs only) -/
theorem modifySplitedges_only (opt : List Arg) (G : CG) :
    Only (fun e => e = .valueError ∨ (e = .typeError ∧ ∀ S, G ≠ .simple S)) (modifySplitedges opt G) := by
  unfold modifySplitedges; split
  · refine Only.bind ((argInt_only _).mono (fun e he => Or.inl he)) (fun k =>
      Only.bind ((guard_only _).mono (fun e he => Or.inl he)) (fun _ => ?_))
    split
    · exact Only.bind (fun ds e h => Or.inl (splitEdges_exc _ _ _ _ h)) (fun _ => Only.pure _)
    · rename_i hns
      exact Only.raise _ (Or.inr ⟨rfl, fun S hS => hns S hS⟩)
  · exact valueError_only.mono (fun e he => Or.inl he)

theorem modifySplitedges_noForeign (opt : List Arg) (G : CG) : NoForeign (modifySplitedges opt G) := by
  unfold modifySplitedges; split
  · refine NoForeign.bind (argInt_noForeign _) (fun k => NoForeign.bind (guard_noForeign _) (fun _ => ?_))
    split
    · exact NoForeign.bind (splitEdges_noForeign _ _) (fun _ => NoForeign.pure _)
    · exact NoForeign.raise _
  · exact valueError_noForeign

theorem applyOpt_noForeign (o : Option (List Arg)) (f : List Arg → CG → RM CG) (G : CG)
    (hf : ∀ a G, NoForeign (f a G)) : NoForeign (applyOpt o f G) := by
  unfold applyOpt; split
  · exact hf _ _
  · exact NoForeign.pure _

theorem applyOpt_only {P : Err → Prop} (o : Option (List Arg)) (f : List Arg → CG → RM CG) (G : CG)
    (hf : ∀ a, Only P (f a G)) : Only P (applyOpt o f G) := by
  unfold applyOpt; split
  · exact hf _
  · exact Only.pure _

/-- exception classes that can leave `obtain_graph` -/
def CleanExc (p : Parsed) (e : Err) : Prop :=
  e = .valueError ∨ (p.cons = .regular ∧ e = .recursion) ∨ (e = .typeError ∧ p.splitedges.isSome)

theorem obtainGraph_only (gt : GType) (p : Parsed) (e : Option CG) (fuel : Nat) :
    Only (CleanExc p) (obtainGraph gt p e fuel) := by
  unfold obtainGraph
  have ve : ∀ {α} {x : RM α}, Only VE x → Only (CleanExc p) x := fun h => h.mono (fun e he => Or.inl he)
  refine Only.bind ((construct_only _ _ _ _).mono (fun err he => ?_)) (fun G0 => Only.bind ?_ (fun G1 =>
    Only.bind (ve (applyOpt_only _ _ _ (fun a => modifyAddedges_only a G1))) (fun G2 => Only.bind ?_ (fun G3 => ?_))))
  · rcases he with he | he
    · exact Or.inl he
    · exact Or.inr (Or.inl he)
  · split
    · exact ve (applyOpt_only _ _ _ (fun a => modifyPlantclique_only a G0))
    · exact ve (applyOpt_only _ _ _ (fun a => modifyPlantbiclique_only a G0))
    · exact Only.pure _
  · unfold applyOpt
    split
    · rename_i a hsome
      refine (modifySplitedges_only a G2).mono (fun err he => ?_)
      rcases he with he | ⟨he, _⟩
      · exact Or.inl he
      · exact Or.inr (Or.inr ⟨he, by simp [hsome]⟩)
    · exact Only.pure _
  · split
    · exact Only.pure _
    · exact Only.pure _
    · exact ve valueError_only

theorem obtainGraph_noForeign (gt : GType) (p : Parsed) (e : Option CG) (fuel : Nat) :
    NoForeign (obtainGraph gt p e fuel) := by
  unfold obtainGraph
  refine NoForeign.bind (construct_noForeign _ _ _ _) (fun G0 => NoForeign.bind ?_ (fun G1 =>
    NoForeign.bind (applyOpt_noForeign _ _ _ modifyAddedges_noForeign) (fun G2 =>
    NoForeign.bind (applyOpt_noForeign _ _ _ modifySplitedges_noForeign) (fun G3 => ?_))))
  · split
    · exact applyOpt_noForeign _ _ _ modifyPlantclique_noForeign
    · exact applyOpt_noForeign _ _ _ modifyPlantbiclique_noForeign
    · exact NoForeign.pure _
  · split
    · exact NoForeign.pure _
    · exact NoForeign.pure _
    · exact valueError_noForeign

/-! ### the class of the object that is built -/
/-- every value the computation can return satisfies `Q` -/
def Returns {α} (Q : α → Prop) (x : RM α) : Prop := ∀ ds a rest, x ds = .ok a rest → Q a

theorem Returns.pure {α} {Q : α → Prop} (a : α) (h : Q a) : Returns Q (pure a : RM α) := by
  intro ds b rest hb; rw [pure_ok] at hb; exact hb.1 ▸ h

theorem Returns.raise {α} {Q : α → Prop} (e : Err) : Returns Q (RM.raise e : RM α) := by
  intro ds b rest hb; exact absurd hb (raise_ne_ok _ _ _ _)

theorem Returns.bind {α β} {Q : β → Prop} {x : RM α} {f : α → RM β} (hf : ∀ a, Returns Q (f a)) :
    Returns Q (x >>= f) := by
  intro ds b rest hb
  rw [bind_ok] at hb
  obtain ⟨a, mid, _, hb⟩ := hb
  exact hf a mid b rest hb

theorem Returns.ite {α} {Q : α → Prop} {c : Prop} [Decidable c] {x y : RM α} (hx : Returns Q x) (hy : Returns Q y) :
    Returns Q (if c then x else y) := by
  split <;> assumption

theorem Returns.stuck {α} {Q : α → Prop} : Returns Q (fun _ => (.stuck : Out α)) := by
  intro ds b rest hb; simp at hb

theorem Returns.foreign {α} {Q : α → Prop} : Returns Q (fun _ => (.foreign : Out α)) := by
  intro ds b rest hb; simp at hb

/-- the graph classes of a graph type (`CompleteBipartiteGraph` is a `BipartiteGraph`) -/
def kindOK : GType → CG → Prop
  | .simple, .simple _ => True
  | .dag, .dag _ => True
  | .bipartite, .bip _ => True
  | .bipartite, .cbip _ _ => True
  | _, _ => False

theorem ext_returns (e : Option CG) (he : ∀ g, e = some g → kindOK .simple g) :
    Returns (kindOK .simple) (ext e) := by
  intro ds g rest h
  unfold ext at h
  split at h
  · rename_i g' ; simp only [Out.ok.injEq] at h; exact h.1 ▸ he g' rfl
  · simp at h

theorem valueError_returns {α} {Q : α → Prop} : Returns Q (valueError : RM α) := Returns.raise _

/-- every construction returns an object of the class of its graph type (third-party results
are assumed to be `Graph` objects: that is what `Graph.from_networkx` / `normalize` return) -/
theorem construct_kind (c : Cons) (args : List Arg) (e : Option CG) (fuel : Nat)
    (he : ∀ g, e = some g → kindOK .simple g) : Returns (kindOK c.gtype) (construct c args e fuel) := by
  have hext := ext_returns e he
  cases c <;> simp only [construct, Cons.gtype]
  case gnp =>
    have hgo : ∀ a p t?, Returns (kindOK .simple) (obtainGnpGo e a p t?) := by
      intro a p t?
      unfold obtainGnpGo
      refine Returns.bind (fun n => ?_)
      split
      · split
        · exact Returns.bind (fun _ => valueError_returns)
        · exact valueError_returns
      · exact Returns.bind (fun t => Returns.bind (fun _ => Returns.ite hext
          (Returns.bind (fun G => Returns.pure _ trivial))))
    unfold obtainGnp; split
    · exact hgo _ _ _
    · exact hgo _ _ _
    · exact valueError_returns
  case gnm =>
    unfold obtainGnm; split
    · exact Returns.bind (fun _ => Returns.bind (fun _ => Returns.bind (fun _ => hext)))
    · exact valueError_returns
  case gnd =>
    unfold obtainGnd; split
    · exact Returns.bind (fun _ => Returns.bind (fun _ => Returns.bind (fun _ =>
        Returns.ite valueError_returns (Returns.ite Returns.foreign hext))))
    · exact valueError_returns
  case grid =>
    unfold obtainGridOrTorus
    exact Returns.bind (fun _ => Returns.bind (fun _ => Returns.bind (fun _ => Returns.ite valueError_returns hext)))
  case torus =>
    unfold obtainGridOrTorus
    exact Returns.bind (fun _ => Returns.bind (fun _ => Returns.bind (fun _ => Returns.ite valueError_returns hext)))
  case completeS =>
    unfold obtainCompleteSimple; split
    · exact Returns.bind (fun _ => Returns.bind (fun _ => Returns.bind (fun _ => Returns.pure _ trivial)))
    · exact Returns.bind (fun _ => Returns.bind (fun _ => Returns.bind (fun _ => hext)))
    · exact valueError_returns
  case emptyS =>
    unfold obtainEmptySimple; split
    · exact Returns.bind (fun _ => Returns.bind (fun _ => Returns.bind (fun _ => Returns.pure _ trivial)))
    · exact valueError_returns
  case path =>
    unfold obtainPath; split
    · exact Returns.bind (fun _ => Returns.bind (fun _ => Returns.bind (fun _ => Returns.pure _ trivial)))
    · exact valueError_returns
  case tree =>
    unfold obtainTree; split
    · exact Returns.bind (fun _ => Returns.bind (fun _ => Returns.bind (fun _ => Returns.pure _ trivial)))
    · exact valueError_returns
  case pyramid =>
    unfold obtainPyramid; split
    · exact Returns.bind (fun _ => Returns.bind (fun _ => Returns.bind (fun _ => Returns.pure _ trivial)))
    · exact valueError_returns
  case glrp =>
    unfold obtainGlrp; split
    · refine Returns.bind (fun _ => Returns.bind (fun _ => ?_))
      split
      · exact valueError_returns
      · exact Returns.bind (fun _ => Returns.bind (fun _ => Returns.pure _ trivial))
    · exact valueError_returns
  case glrm =>
    unfold obtainGlrm; split
    · exact Returns.bind (fun _ => Returns.bind (fun _ => Returns.bind (fun _ => Returns.bind (fun _ =>
        Returns.bind (fun _ => Returns.pure _ trivial)))))
    · exact valueError_returns
  case glrd =>
    unfold obtainGlrd; split
    · exact Returns.bind (fun _ => Returns.bind (fun _ => Returns.bind (fun _ => Returns.bind (fun _ =>
        Returns.bind (fun _ => Returns.pure _ trivial)))))
    · exact valueError_returns
  case regular =>
    unfold obtainRegular; split
    · exact Returns.bind (fun _ => Returns.bind (fun _ => Returns.bind (fun _ => Returns.bind (fun _ =>
        Returns.bind (fun _ => Returns.pure _ trivial)))))
    · exact valueError_returns
  case shift =>
    unfold obtainShift; split
    · exact Returns.bind (fun _ => Returns.bind (fun _ => Returns.bind (fun _ => Returns.bind (fun _ =>
        Returns.bind (fun _ => Returns.pure _ trivial)))))
    · exact valueError_returns
  case completeB =>
    unfold obtainCompleteBip; split
    · exact Returns.bind (fun _ => Returns.bind (fun _ => Returns.bind (fun _ => Returns.pure _ trivial)))
    · exact valueError_returns
  case emptyB =>
    unfold obtainEmptyBip; split
    · exact Returns.bind (fun _ => Returns.bind (fun _ => Returns.bind (fun _ => Returns.pure _ trivial)))
    · exact valueError_returns

theorem modifyPlantclique_kind (opt : List Arg) (G : CG) (t : GType) (hk : kindOK t G) :
    Returns (kindOK t) (modifyPlantclique opt G) := by
  unfold modifyPlantclique; split
  · refine Returns.bind (fun _ => Returns.bind (fun _ => ?_))
    split
    · exact Returns.bind (fun _ => Returns.pure _ (by cases t <;> simp_all [kindOK]))
    · exact Returns.stuck
  · exact valueError_returns

theorem modifyPlantbiclique_kind (opt : List Arg) (G : CG) (t : GType) (hk : kindOK t G) :
    Returns (kindOK t) (modifyPlantbiclique opt G) := by
  unfold modifyPlantbiclique; split
  · refine Returns.bind (fun _ => Returns.bind (fun _ => Returns.bind (fun _ => ?_)))
    split
    · exact Returns.bind (fun _ => Returns.pure _ (by cases t <;> simp_all [kindOK]))
    · exact Returns.bind (fun _ => Returns.pure _ (by cases t <;> simp_all [kindOK]))
    · exact Returns.stuck
  · exact valueError_returns

theorem modifyAddedges_kind (opt : List Arg) (G : CG) (t : GType) (hk : kindOK t G) :
    Returns (kindOK t) (modifyAddedges opt G) := by
  unfold modifyAddedges; split
  · refine Returns.bind (fun _ => Returns.bind (fun _ => ?_))
    split
    · exact Returns.bind (fun _ => Returns.pure _ (by cases t <;> simp_all [kindOK]))
    · exact Returns.bind (fun _ => Returns.pure _ (by cases t <;> simp_all [kindOK]))
    · exact Returns.bind (fun _ => Returns.pure _ (by cases t <;> simp_all [kindOK]))
    · exact Returns.stuck
  · exact valueError_returns

theorem applyOpt_kind (o : Option (List Arg)) (f : List Arg → CG → RM CG) (G : CG) (t : GType)
    (hk : kindOK t G) (hf : ∀ a, Returns (kindOK t) (f a G)) : Returns (kindOK t) (applyOpt o f G) := by
  unfold applyOpt; split
  · exact hf _
  · exact Returns.pure _ hk

/-- the request comes out of `parse_graph_argument`: the construction belongs to the graph type,
`splitedges` is an option of simple graphs only, and a third-party generator returns a `Graph` -/
structure FromParser (gt : GType) (p : Parsed) (e : Option CG) : Prop where
  cons : p.cons.gtype = gt
  split : gt ≠ .simple → p.splitedges = none
  ext : ∀ g, e = some g → kindOK .simple g

/-- for a request that comes out of the parser, `obtain_graph` raises `ValueError`, or — for
`regular` only — `RecursionError`; nothing else -/
theorem obtainGraph_only_parsed (gt : GType) (p : Parsed) (e : Option CG) (fuel : Nat)
    (hp : FromParser gt p e) :
    Only (fun err => err = .valueError ∨ (p.cons = .regular ∧ err = .recursion)) (obtainGraph gt p e fuel) := by
  intro ds err h
  unfold obtainGraph at h
  rw [bind_exc] at h
  rcases h with h | ⟨G0, m0, h0, h⟩
  · exact construct_only _ _ _ _ ds err h
  have hk0 : kindOK gt G0 := hp.cons ▸ construct_kind _ _ _ _ hp.ext ds G0 m0 h0
  rw [bind_exc] at h
  rcases h with h | ⟨G1, m1, h1, h⟩
  · left
    cases gt
    · exact applyOpt_only _ _ _ (fun a => modifyPlantclique_only a G0) _ _ h
    · exact absurd h (pure_ne_exc _ _ _)
    · exact applyOpt_only _ _ _ (fun a => modifyPlantbiclique_only a G0) _ _ h
  have hk1 : kindOK gt G1 := by
    cases gt
    · exact applyOpt_kind _ _ _ _ hk0 (fun a => modifyPlantclique_kind a G0 _ hk0) _ _ _ h1
    · have h1' : (pure G0 : RM CG) m0 = .ok G1 m1 := h1
      rw [pure_ok] at h1'; exact h1'.1 ▸ hk0
    · exact applyOpt_kind _ _ _ _ hk0 (fun a => modifyPlantbiclique_kind a G0 _ hk0) _ _ _ h1
  rw [bind_exc] at h
  rcases h with h | ⟨G2, m2, h2, h⟩
  · exact Or.inl (applyOpt_only _ _ _ (fun a => modifyAddedges_only a G1) _ _ h)
  have hk2 : kindOK gt G2 := applyOpt_kind _ _ _ _ hk1 (fun a => modifyAddedges_kind a G1 _ hk1) _ _ _ h2
  rw [bind_exc] at h
  rcases h with h | ⟨G3, m3, _, h⟩
  · left
    by_cases hs : gt = .simple
    · subst hs
      rcases hsp : p.splitedges with _ | a
      · rw [hsp] at h; exact absurd h (pure_ne_exc _ _ _)
      · rw [hsp] at h
        rcases modifySplitedges_only a G2 _ _ h with he | ⟨_, hns⟩
        · exact he
        · exfalso
          cases G2 <;> simp [kindOK] at hk2
          exact hns _ rfl
    · rw [hp.split hs] at h
      exact absurd h (pure_ne_exc _ _ _)
  · left
    rcases hs : p.save with _ | b
    · simp only [hs] at h; exact absurd h (pure_ne_exc _ _ _)
    · cases b
      · simp only [hs] at h; exact valueError_only _ _ h
      · simp only [hs] at h; exact absurd h (pure_ne_exc _ _ _)


/-- T-C15.3: the graph handed to `writeGraph` is the graph that is returned -/
theorem obtainGraph_save (gt : GType) (p : Parsed) (e : Option CG) (fuel : Nat) (ds rest : List Draw)
    (G : CG) (W : Option CG) (h : obtainGraph gt p e fuel ds = .ok (G, W) rest) :
    (p.save = none ∧ W = none) ∨ (p.save = some true ∧ W = some G) := by
  unfold obtainGraph at h
  rw [bind_ok] at h; obtain ⟨G0, m0, _, h⟩ := h
  rw [bind_ok] at h; obtain ⟨G1, m1, _, h⟩ := h
  rw [bind_ok] at h; obtain ⟨G2, m2, _, h⟩ := h
  rw [bind_ok] at h; obtain ⟨G3, m3, _, h⟩ := h
  rcases hs : p.save with _ | b
  · simp only [hs, pure_ok, Prod.mk.injEq] at h
    obtain ⟨⟨rfl, rfl⟩, _⟩ := h
    exact Or.inl ⟨rfl, rfl⟩
  · cases b
    · simp [hs, valueError, RM.raise] at h
    · simp only [hs, pure_ok, Prod.mk.injEq] at h
      obtain ⟨⟨rfl, rfl⟩, _⟩ := h
      exact Or.inr ⟨rfl, rfl⟩

end GCli
end Cnfgen
