/-
Counting lemmas for xor-linear maps between spaces of Boolean vectors (used for the model count
of the Tseitin formula, `Lemmas/FamTseitinCount.lean`): every non-empty fibre of such a map is a
translate of the kernel, hence `2^|A| = |kernel| · |image|`.
-/
import Mathlib.Data.Fintype.BigOperators
import Mathlib.Data.Fintype.Card
import Mathlib.Data.Finset.Card
import Mathlib.Algebra.BigOperators.Group.Finset.Basic
namespace Cnfgen
namespace Fam

/-- pointwise xor of two Boolean vectors -/
def bxor {A : Type} (x y : A → Bool) : A → Bool := fun a => (x a != y a)

/-- the zero vector -/
def bzero {A : Type} : A → Bool := fun _ => false

theorem bxor_self {A : Type} (x : A → Bool) : bxor x x = bzero := by
  funext a; simp [bxor, bzero]

theorem bxor_bzero {A : Type} (x : A → Bool) : bxor x bzero = x := by
  funext a; simp [bxor, bzero]

theorem bxor_cancel {A : Type} (x y : A → Bool) : bxor (bxor x y) y = x := by
  funext a; simp [bxor]

/-- `f` is additive for pointwise xor -/
def XorHom {A B : Type} (f : (A → Bool) → (B → Bool)) : Prop :=
  ∀ x y, f (bxor x y) = bxor (f x) (f y)

theorem countP_bxor_mod2 {ι : Type} (l : List ι) (p q : ι → Bool) :
    (l.countP (fun u => (p u != q u))) % 2 = (l.countP p + l.countP q) % 2 := by
  induction l with
  | nil => simp
  | cons a l ih =>
    simp only [List.countP_cons]
    cases p a <;> cases q a <;> simp <;> omega

section
variable {A B : Type} [Fintype A] [DecidableEq A] [Fintype B]

/-- translation by a fixed vector is a bijection between the fibre through that vector and the
kernel -/
theorem xorHom_fiber_card (f : (A → Bool) → (B → Bool)) (hf : XorHom f) (x₀ : A → Bool) :
    (Finset.univ.filter (fun x => f x = f x₀)).card =
      (Finset.univ.filter (fun x => f x = bzero)).card := by
  apply Finset.card_nbij' (fun x => bxor x x₀) (fun x => bxor x x₀)
  · intro x hx
    simp only [Finset.coe_filter, Finset.mem_univ, true_and, Set.mem_ofPred_eq] at hx ⊢
    rw [hf, hx, bxor_self]
  · intro x hx
    simp only [Finset.coe_filter, Finset.mem_univ, true_and, Set.mem_ofPred_eq] at hx ⊢
    rw [hf, hx]
    funext b; simp [bxor, bzero]
  · intro x _; exact bxor_cancel x x₀
  · intro x _; exact bxor_cancel x x₀

/-- `2^|A| = |ker f| · |im f|` -/
theorem xorHom_card (f : (A → Bool) → (B → Bool)) (hf : XorHom f) :
    2 ^ Fintype.card A =
      (Finset.univ.filter (fun x => f x = bzero)).card * (Finset.univ.image f).card := by
  have h1 : Fintype.card (A → Bool) = 2 ^ Fintype.card A := by
    rw [Fintype.card_fun, Fintype.card_bool]
  rw [← h1, ← Finset.card_univ, Finset.card_eq_sum_card_image f Finset.univ]
  rw [Finset.sum_congr rfl (g := fun _ => (Finset.univ.filter (fun x => f x = bzero)).card)]
  · rw [Finset.sum_const, Nat.nsmul_eq_mul, Nat.mul_comm]
  · intro y hy
    obtain ⟨x₀, _, rfl⟩ := Finset.mem_image.1 hy
    exact xorHom_fiber_card f hf x₀

end
end Fam
end Cnfgen
