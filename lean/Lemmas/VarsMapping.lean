/-
Lemmas for T-C04.6 — `force_{complete,functional,surjective,injective,nondecreasing}_mapping`
mean the functional condition they are named after, for unary / sparse mappings (a bipartite
graph `G` of admissible pairs) and binary mappings.
-/
import CnfgenModel.Vars.Mapping
import Lemmas.VarsBip
import Lemmas.VarsBinary
import Lemmas.Constr
namespace Cnfgen
namespace Vars

/-! ### helpers -/

theorem combos_one {β : Type} (l : List β) : combos l 1 = l.map (fun y => [y]) := by
  induction l with
  | nil => rfl
  | cons x xs ih => cases xs <;> simp_all [combos]

theorem mem_pairs2_of_sorted {l : List Nat} (hl : l.Pairwise (· < ·)) {a b : Nat} :
    (a, b) ∈ pairs2 l ↔ a ∈ l ∧ b ∈ l ∧ a < b := by
  induction l with
  | nil => simp [pairs2]
  | cons x xs ih =>
    rw [List.pairwise_cons] at hl
    simp only [pairs2, List.mem_append, List.mem_map, Prod.mk.injEq, List.mem_cons, ih hl.2]
    constructor
    · rintro (⟨y, hy, rfl, rfl⟩ | ⟨ha, hb, hab⟩)
      · exact ⟨Or.inl rfl, Or.inr hy, hl.1 _ hy⟩
      · exact ⟨Or.inr ha, Or.inr hb, hab⟩
    · rintro ⟨rfl | ha, rfl | hb, hab⟩
      · omega
      · exact Or.inl ⟨b, hb, rfl, rfl⟩
      · have := hl.1 _ ha; omega
      · exact Or.inr ⟨ha, hb, hab⟩

/-- `(a, b) ∈ combinations(l, 2)` -/
theorem pairs2_eq_combos (l : List Nat) : (pairs2 l).map (fun p => [p.1, p.2]) = combos l 2 := by
  induction l with
  | nil => rfl
  | cons x xs ih => simp [pairs2, combos, ih, combos_one, Function.comp_def]

theorem mem_pairs2_rangeN {a b lo hi : Nat} : (a, b) ∈ pairs2 (rangeN lo hi) ↔ lo ≤ a ∧ a < b ∧ b < hi := by
  rw [mem_pairs2_of_sorted (rangeN_sorted lo hi), mem_rangeN, mem_rangeN]
  omega

/-- the atom "u is mapped to v" of a unary / sparse mapping -/
def atom (α : Assign) (G : BipG) (s : Nat) (u v : Nat) : Prop := α (bipId G s u v) = true

/-- all constraints of a list hold -/
def allHold (α : Assign) (cons : List Con) : Prop := ∀ c ∈ cons, c.holds α = true

/-- the clause / PB renderings of a constraint list whose literals are non-zero mean `allHold` -/
theorem allHold_toCNF (α : Assign) (cons : List Con) (h : ∀ c ∈ cons, ∀ l ∈ c.lits, l ≠ 0) :
    (∀ cl ∈ cons.flatMap Con.toCNF, clauseHolds α cl = true) ↔ allHold α cons := by
  simp only [List.mem_flatMap, allHold]
  constructor
  · intro hh c hc
    exact (Con.toCNF_holds α c (h c hc)).1 (fun cl hcl => hh cl ⟨c, hc, hcl⟩)
  · rintro hh cl ⟨c, hc, hcl⟩
    exact (Con.toCNF_holds α c (h c hc)).2 (hh c hc) cl hcl

theorem allHold_toOPB (α : Assign) (cons : List Con) (h : ∀ c ∈ cons, ∀ l ∈ c.lits, l ≠ 0) :
    (∀ p ∈ cons.flatMap Con.toOPB, p.holds α = true) ↔ allHold α cons := by
  simp only [List.mem_flatMap, allHold]
  constructor
  · intro hh c hc
    exact (Con.toOPB_holds α c (h c hc)).1 (fun p hp => hh p ⟨c, hc, hp⟩)
  · rintro hh p ⟨c, hc, hp⟩
    exact (Con.toOPB_holds α c (h c hc)).2 (hh c hc) p hp

theorem allHold_map (α : Assign) {β : Type} (l : List β) (g : β → Con) :
    allHold α (l.map g) ↔ ∀ x ∈ l, (g x).holds α = true := by
  simp [allHold]

theorem allHold_flatten_map (α : Assign) {β : Type} (l : List β) (g : β → List Con) :
    allHold α (l.map g).flatten ↔ ∀ x ∈ l, allHold α (g x) := by
  simp only [allHold, List.mem_flatten, List.mem_map]
  constructor
  · intro hh x hx c hc
    exact hh c ⟨g x, ⟨x, hx, rfl⟩, hc⟩
  · rintro hh c ⟨_, ⟨x, hx, rfl⟩, hc⟩
    exact hh x hx c hc

theorem litHolds_ofNat (α : Assign) {v : Nat} (hv : 1 ≤ v) : litHolds α (Int.ofNat v) = α v := by
  unfold litHolds
  rw [if_pos (by simp; omega)]
  simp

theorem litHolds_negLit (α : Assign) {v : Nat} (hv : 1 ≤ v) : litHolds α (negLit v) = !α v := by
  unfold litHolds negLit
  rw [if_neg (by omega)]
  simp

theorem countP_map_le_one {β γ : Type} (p : γ → Bool) (f : β → γ) {l : List β} (hl : l.Nodup) :
    (l.map f).countP p ≤ 1 ↔ ∀ a ∈ l, ∀ b ∈ l, p (f a) = true → p (f b) = true → a = b := by
  induction l with
  | nil => simp
  | cons x xs ih =>
    rw [List.nodup_cons] at hl
    rw [List.map_cons, List.countP_cons]
    by_cases hx : p (f x) = true
    · rw [if_pos hx]
      constructor
      · intro hc
        have h0 : (xs.map f).countP p = 0 := by omega
        rw [List.countP_eq_zero] at h0
        have hno : ∀ b ∈ xs, ¬ p (f b) = true := fun b hb => h0 (f b) (List.mem_map_of_mem hb)
        intro a ha b hb hpa hpb
        rcases List.mem_cons.1 ha with rfl | ha
        · rcases List.mem_cons.1 hb with rfl | hb
          · rfl
          · exact absurd hpb (hno b hb)
        · exact absurd hpa (hno a ha)
      · intro hh
        have h0 : (xs.map f).countP p = 0 := by
          rw [List.countP_eq_zero]
          intro y hy
          obtain ⟨b, hb, rfl⟩ := List.mem_map.1 hy
          intro hpb
          have := hh x (List.mem_cons_self) b (List.mem_cons_of_mem _ hb) hx hpb
          exact hl.1 (this ▸ hb)
        omega
    · rw [if_neg hx, Nat.add_zero, ih hl.2]
      constructor
      · intro hh a ha b hb hpa hpb
        rcases List.mem_cons.1 ha with rfl | ha
        · exact absurd hpa hx
        · rcases List.mem_cons.1 hb with rfl | hb
          · exact absurd hpb hx
          · exact hh a ha b hb hpa hpb
      · intro hh a ha b hb
        exact hh a (List.mem_cons_of_mem _ ha) b (List.mem_cons_of_mem _ hb)

/-- "at most one" over positive literals -/
theorem lin_le_one_holds (α : Assign) {l : List Nat} (hl : l.Nodup) (f : Nat → Nat)
    (hf : ∀ a ∈ l, 1 ≤ f a) :
    Con.holds α (.lin ((l.map f).map Int.ofNat) .le 1) = true ↔
      ∀ a ∈ l, ∀ b ∈ l, α (f a) = true → α (f b) = true → a = b := by
  have h1 : Con.holds α (.lin ((l.map f).map Int.ofNat) .le 1) = true ↔
      (l.map (fun a => Int.ofNat (f a))).countP (litHolds α) ≤ 1 := by
    simp only [Con.holds, Op.denote, count, decide_eq_true_eq, List.map_map, Function.comp_def]
    omega
  rw [h1, countP_map_le_one _ _ hl]
  constructor
  · intro hh a ha b hb hpa hpb
    exact hh a ha b hb (by rw [litHolds_ofNat α (hf a ha)]; exact hpa)
      (by rw [litHolds_ofNat α (hf b hb)]; exact hpb)
  · intro hh a ha b hb hpa hpb
    rw [litHolds_ofNat α (hf a ha)] at hpa
    rw [litHolds_ofNat α (hf b hb)] at hpb
    exact hh a ha b hb hpa hpb

/-- "at least one" over positive literals -/
theorem clause_pos_holds (α : Assign) {l : List Nat} (f : Nat → Nat) (hf : ∀ a ∈ l, 1 ≤ f a) :
    Con.holds α (.clause ((l.map f).map Int.ofNat)) = true ↔ ∃ a ∈ l, α (f a) = true := by
  simp only [Con.holds, clauseHolds, List.any_eq_true, List.mem_map, exists_exists_and_eq_and]
  constructor
  · rintro ⟨a, ha, hp⟩
    exact ⟨a, ha, by rw [← litHolds_ofNat α (hf a ha)]; exact hp⟩
  · rintro ⟨a, ha, hp⟩
    exact ⟨a, ha, by rw [litHolds_ofNat α (hf a ha)]; exact hp⟩

theorem clause_neg2_holds (α : Assign) {a b : Nat} (ha : 1 ≤ a) (hb : 1 ≤ b) :
    Con.holds α (.clause [negLit a, negLit b]) = true ↔ ¬ (α a = true ∧ α b = true) := by
  simp only [Con.holds, clauseHolds, List.any_cons, List.any_nil, litHolds_negLit α ha,
    litHolds_negLit α hb]
  cases α a <;> cases α b <;> simp

theorem natAbs_ofNat' (v : Nat) : (Int.ofNat v).natAbs = v := rfl
theorem natAbs_negLit (v : Nat) : (negLit v).natAbs = v := by simp [negLit]

/-! ### unary and sparse mappings (`G` well formed, first identifier `s ≥ 1`) -/

theorem rnbrs_nodup {G : BipG} (h : G.WF) (u : Nat) : (G.rnbrs u).Nodup :=
  nodup_of_pairwise_lt (h.row_sorted u)
theorem lnbrs_nodup {G : BipG} (h : G.WF) (v : Nat) : (G.lnbrs v).Nodup :=
  nodup_of_pairwise_lt (h.col_sorted v)

theorem bipId_row_range {G : BipG} (h : G.WF) (s : Nat) {u v : Nat} (hv : v ∈ G.rnbrs u) :
    s ≤ bipId G s u v ∧ bipId G s u v < s + G.numberOfEdges :=
  bipId_range h s ((h.mem_row u v).1 hv)
theorem bipId_col_range {G : BipG} (h : G.WF) (s : Nat) {u v : Nat} (hu : u ∈ G.lnbrs v) :
    s ≤ bipId G s u v ∧ bipId G s u v < s + G.numberOfEdges :=
  bipId_range h s ((h.mem_col u v).1 hu)

theorem mem_rangeN_succ {x n : Nat} : x ∈ rangeN 1 (n + 1) ↔ 1 ≤ x ∧ x ≤ n := by
  rw [mem_rangeN]; omega

set_option linter.unusedVariables false in
/-- every literal of the constraints is a (non-zero) variable of the group -/
theorem unary_lits {G : BipG} (h : G.WF) {s : Nat} (hs : 1 ≤ s) :
    (∀ cons, forceComplete (.unary s G) = .ok cons → ∀ c ∈ cons, ∀ l ∈ c.lits, s ≤ l.natAbs ∧ l.natAbs < s + G.numberOfEdges) ∧
    (∀ cons, forceFunctional (.unary s G) = .ok cons → ∀ c ∈ cons, ∀ l ∈ c.lits, s ≤ l.natAbs ∧ l.natAbs < s + G.numberOfEdges) ∧
    (∀ cons, forceSurjective (.unary s G) = .ok cons → ∀ c ∈ cons, ∀ l ∈ c.lits, s ≤ l.natAbs ∧ l.natAbs < s + G.numberOfEdges) ∧
    (∀ cons, forceInjective (.unary s G) = .ok cons → ∀ c ∈ cons, ∀ l ∈ c.lits, s ≤ l.natAbs ∧ l.natAbs < s + G.numberOfEdges) ∧
    (∀ cons, forceNondecreasing (.unary s G) = .ok cons → ∀ c ∈ cons, ∀ l ∈ c.lits, s ≤ l.natAbs ∧ l.natAbs < s + G.numberOfEdges) := by
  refine ⟨?_, ?_, ?_, ?_, ?_⟩
  · intro cons hc c hcm l hl
    simp only [forceComplete, Except.ok.injEq] at hc
    subst hc
    obtain ⟨x, _, rfl⟩ := List.mem_map.1 hcm
    simp only [Con.lits, bipRow, List.mem_map, exists_exists_and_eq_and] at hl
    obtain ⟨v, hv, rfl⟩ := hl
    rw [natAbs_ofNat']; exact bipId_row_range h s hv
  · intro cons hc c hcm l hl
    simp only [forceFunctional, Except.ok.injEq] at hc
    subst hc
    obtain ⟨x, _, rfl⟩ := List.mem_map.1 hcm
    simp only [Con.lits, bipRow, List.mem_map, exists_exists_and_eq_and] at hl
    obtain ⟨v, hv, rfl⟩ := hl
    rw [natAbs_ofNat']; exact bipId_row_range h s hv
  · intro cons hc c hcm l hl
    simp only [forceSurjective, Except.ok.injEq] at hc
    subst hc
    obtain ⟨x, _, rfl⟩ := List.mem_map.1 hcm
    simp only [Con.lits, bipCol, List.mem_map, exists_exists_and_eq_and] at hl
    obtain ⟨v, hv, rfl⟩ := hl
    rw [natAbs_ofNat']; exact bipId_col_range h s hv
  · intro cons hc c hcm l hl
    simp only [forceInjective, Except.ok.injEq] at hc
    subst hc
    obtain ⟨x, _, rfl⟩ := List.mem_map.1 hcm
    simp only [Con.lits, bipCol, List.mem_map, exists_exists_and_eq_and] at hl
    obtain ⟨v, hv, rfl⟩ := hl
    rw [natAbs_ofNat']; exact bipId_col_range h s hv
  · intro cons hc c hcm l hl
    simp only [forceNondecreasing, Except.ok.injEq] at hc
    subst hc
    simp only [List.mem_flatMap, List.mem_filterMap] at hcm
    obtain ⟨p, _, v1, hv1, v2, hv2, hif⟩ := hcm
    split at hif
    · simp only [Option.some.injEq] at hif
      subst hif
      simp only [Con.lits, List.mem_cons, List.not_mem_nil, or_false] at hl
      rcases hl with rfl | rfl
      · rw [natAbs_negLit]; exact bipId_row_range h s hv1
      · rw [natAbs_negLit]; exact bipId_row_range h s hv2
    · exact absurd hif (by simp)

/-- complete: every `u` of the domain is mapped to some admissible `v` -/
theorem unary_complete (α : Assign) {G : BipG} (h : G.WF) {s : Nat} (hs : 1 ≤ s) :
    ∃ cons, forceComplete (.unary s G) = .ok cons ∧
      (allHold α cons ↔ ∀ u, 1 ≤ u → u ≤ G.l → ∃ v ∈ G.rnbrs u, atom α G s u v) := by
  refine ⟨_, rfl, ?_⟩
  rw [allHold_map]
  have key : ∀ u, Con.holds α (.clause ((bipRow G s u).map Int.ofNat)) = true ↔
      ∃ v ∈ G.rnbrs u, atom α G s u v := fun u =>
    clause_pos_holds α (bipId G s u) (fun v hv => by have := bipId_row_range h s hv; omega)
  constructor
  · intro hh u h1 h2
    exact (key u).1 (hh u (mem_rangeN_succ.2 ⟨h1, h2⟩))
  · intro hh u hu
    have := mem_rangeN_succ.1 hu
    exact (key u).2 (hh u this.1 this.2)

/-- functional: every `u` is mapped to at most one `v` -/
theorem unary_functional (α : Assign) {G : BipG} (h : G.WF) {s : Nat} (hs : 1 ≤ s) :
    ∃ cons, forceFunctional (.unary s G) = .ok cons ∧
      (allHold α cons ↔ ∀ u, 1 ≤ u → u ≤ G.l → ∀ v ∈ G.rnbrs u, ∀ v' ∈ G.rnbrs u,
        atom α G s u v → atom α G s u v' → v = v') := by
  refine ⟨_, rfl, ?_⟩
  rw [allHold_map]
  have key : ∀ u, Con.holds α (.lin ((bipRow G s u).map Int.ofNat) .le 1) = true ↔
      ∀ v ∈ G.rnbrs u, ∀ v' ∈ G.rnbrs u, atom α G s u v → atom α G s u v' → v = v' := fun u =>
    lin_le_one_holds α (rnbrs_nodup h u) (bipId G s u)
      (fun v hv => by have := bipId_row_range h s hv; omega)
  constructor
  · intro hh u h1 h2
    exact (key u).1 (hh u (mem_rangeN_succ.2 ⟨h1, h2⟩))
  · intro hh u hu
    have := mem_rangeN_succ.1 hu
    exact (key u).2 (hh u this.1 this.2)

/-- surjective: every `v` of the range has some admissible `u` mapped to it -/
theorem unary_surjective (α : Assign) {G : BipG} (h : G.WF) {s : Nat} (hs : 1 ≤ s) :
    ∃ cons, forceSurjective (.unary s G) = .ok cons ∧
      (allHold α cons ↔ ∀ v, 1 ≤ v → v ≤ G.r → ∃ u ∈ G.lnbrs v, atom α G s u v) := by
  refine ⟨_, rfl, ?_⟩
  rw [allHold_map]
  have key : ∀ v, Con.holds α (.clause ((bipCol G s v).map Int.ofNat)) = true ↔
      ∃ u ∈ G.lnbrs v, atom α G s u v := fun v =>
    clause_pos_holds α (fun u => bipId G s u v)
      (fun u hu => by have := bipId_col_range h s hu; omega)
  constructor
  · intro hh v h1 h2
    exact (key v).1 (hh v (mem_rangeN_succ.2 ⟨h1, h2⟩))
  · intro hh v hv
    have := mem_rangeN_succ.1 hv
    exact (key v).2 (hh v this.1 this.2)

/-- injective: every `v` has at most one `u` mapped to it -/
theorem unary_injective (α : Assign) {G : BipG} (h : G.WF) {s : Nat} (hs : 1 ≤ s) :
    ∃ cons, forceInjective (.unary s G) = .ok cons ∧
      (allHold α cons ↔ ∀ v, 1 ≤ v → v ≤ G.r → ∀ u ∈ G.lnbrs v, ∀ u' ∈ G.lnbrs v,
        atom α G s u v → atom α G s u' v → u = u') := by
  refine ⟨_, rfl, ?_⟩
  rw [allHold_map]
  have key : ∀ v, Con.holds α (.lin ((bipCol G s v).map Int.ofNat) .le 1) = true ↔
      ∀ u ∈ G.lnbrs v, ∀ u' ∈ G.lnbrs v, atom α G s u v → atom α G s u' v → u = u' := fun v =>
    lin_le_one_holds α (lnbrs_nodup h v) (fun u => bipId G s u v)
      (fun u hu => by have := bipId_col_range h s hu; omega)
  constructor
  · intro hh v h1 h2
    exact (key v).1 (hh v (mem_rangeN_succ.2 ⟨h1, h2⟩))
  · intro hh v hv
    have := mem_rangeN_succ.1 hv
    exact (key v).2 (hh v this.1 this.2)

/-- non-decreasing: no `u₁ < u₂` mapped to `v₁ > v₂` -/
theorem unary_nondecreasing (α : Assign) {G : BipG} (h : G.WF) {s : Nat} (hs : 1 ≤ s) :
    ∃ cons, forceNondecreasing (.unary s G) = .ok cons ∧
      (allHold α cons ↔ ∀ u₁ u₂, 1 ≤ u₁ → u₁ < u₂ → u₂ ≤ G.l → ∀ v₁ ∈ G.rnbrs u₁, ∀ v₂ ∈ G.rnbrs u₂,
        v₂ < v₁ → ¬ (atom α G s u₁ v₁ ∧ atom α G s u₂ v₂)) := by
  refine ⟨_, rfl, ?_⟩
  have key : ∀ u₁ u₂ v₁ v₂, v₁ ∈ G.rnbrs u₁ → v₂ ∈ G.rnbrs u₂ →
      (Con.holds α (.clause [negLit (bipId G s u₁ v₁), negLit (bipId G s u₂ v₂)]) = true ↔
        ¬ (atom α G s u₁ v₁ ∧ atom α G s u₂ v₂)) := fun u₁ u₂ v₁ v₂ h1 h2 =>
    clause_neg2_holds α (by have := bipId_row_range h s h1; omega)
      (by have := bipId_row_range h s h2; omega)
  constructor
  · intro hh u₁ u₂ hu1 hlt hu2 v₁ hv1 v₂ hv2 hv
    refine (key u₁ u₂ v₁ v₂ hv1 hv2).1 (hh _ ?_)
    simp only [List.mem_flatMap, List.mem_filterMap]
    exact ⟨(u₁, u₂), mem_pairs2_rangeN.2 ⟨hu1, hlt, by omega⟩, v₁, hv1, v₂, hv2, by
      show (if v₁ > v₂ then _ else _) = _
      rw [if_pos hv]⟩
  · intro hh c hc
    simp only [List.mem_flatMap, List.mem_filterMap] at hc
    obtain ⟨⟨u₁, u₂⟩, hp, v₁, hv1, v₂, hv2, hif⟩ := hc
    have hp' := mem_pairs2_rangeN.1 hp
    split at hif
    · rename_i hv
      simp only [Option.some.injEq] at hif
      subst hif
      exact (key u₁ u₂ v₁ v₂ hv1 hv2).2 (hh u₁ u₂ hp'.1 hp'.2.1 (by omega) v₁ hv1 v₂ hv2 hv)
    · exact absurd hif (by simp)

/-! ### binary mappings (`n` elements, range `0 … m-1`, `bits = clog2 m`, first identifier `s ≥ 1`) -/

/-- `List.mapM` in `Except` when every call succeeds -/
theorem mapM_ok {β γ : Type} (f : β → Except Err γ) (g : β → γ) (l : List β)
    (h : ∀ a ∈ l, f a = .ok (g a)) : l.mapM f = .ok (l.map g) := by
  induction l with
  | nil => rfl
  | cons x xs ih =>
    rw [List.mapM_cons, h x List.mem_cons_self, ih (fun a ha => h a (List.mem_cons_of_mem _ ha))]
    rfl

/-- the clause `forbid(i, j)` returns when `j < 2^bits` -/
def forbidCl (s bits i j : Nat) : Clause :=
  (flipPattern bits j).zipWith (fun sg t => sg * (binId s bits i (bits - 1 - t) : Int)) (List.range bits)

theorem forbid_ok {s bits i j : Nat} (hj : j < 2 ^ bits) :
    forbid s bits i j = .ok (forbidCl s bits i j) := by
  unfold forbid forbidCl
  rw [if_neg (by omega)]

theorem forbidC_ok {s m i j : Nat} (hj : j < 2 ^ clog2 m) :
    forbidC s m i j = .ok (forbidCl s (clog2 m) i j) := forbid_ok hj

theorem forbidCl_spec (α : Assign) {s bits i j : Nat} (hs : 1 ≤ s) (hi : 1 ≤ i) (hj : j < 2 ^ bits) :
    (clauseHolds α (forbidCl s bits i j) = false ↔ binVal α s bits i = j) := by
  obtain ⟨c, hc, _, h2⟩ := forbid_spec α hs hi hj
  rw [forbid_ok hj] at hc
  cases hc
  exact h2

theorem forbidCl_lits {s n bits i j : Nat} (hs : 1 ≤ s) (hi : 1 ≤ i ∧ i ≤ n) (hj : j < 2 ^ bits) :
    ∀ l ∈ forbidCl s bits i j, l ≠ 0 ∧ s ≤ l.natAbs ∧ l.natAbs < s + n * bits := by
  intro l hl
  have := forbid_lits hs hi (forbid_ok (i := i) hj) l hl
  refine ⟨?_, this⟩
  intro h0
  rw [h0] at this
  simp at this
  omega

theorem forbid_holds (α : Assign) {s bits i j : Nat} (hs : 1 ≤ s) (hi : 1 ≤ i) (hj : j < 2 ^ bits) :
    Con.holds α (.clause (forbidCl s bits i j)) = true ↔ ¬ binVal α s bits i = j := by
  rw [← forbidCl_spec α hs hi hj]
  simp [Con.holds]

theorem forbid_pair_holds (α : Assign) {s bits i j i' j' : Nat} (hs : 1 ≤ s) (hi : 1 ≤ i) (hi' : 1 ≤ i')
    (hj : j < 2 ^ bits) (hj' : j' < 2 ^ bits) :
    Con.holds α (.clause (forbidCl s bits i j ++ forbidCl s bits i' j')) = true ↔
      ¬ (binVal α s bits i = j ∧ binVal α s bits i' = j') := by
  rw [← forbidCl_spec α hs hi hj, ← forbidCl_spec α hs hi' hj']
  simp only [Con.holds, clauseHolds, List.any_append]
  cases (forbidCl s bits i j).any (litHolds α) <;> cases (forbidCl s bits i' j').any (litHolds α) <;> simp

theorem lt_pow_clog2 {y m : Nat} (h : y < m) : y < 2 ^ clog2 m :=
  Nat.lt_of_lt_of_le h (clog2_spec m).1

/-- the explicit lists of constraints -/
def binCompleteCons (s n m : Nat) : List Con :=
  ((rangeN 1 (n + 1)).map (fun i =>
    (rangeN m (2 ^ clog2 m)).map (fun j => Con.clause (forbidCl s (clog2 m) i j)))).flatten

def binInjectiveCons (s n m : Nat) : List Con :=
  ((rangeN 0 m).map (fun y =>
    (pairs2 (rangeN 1 (n + 1))).map (fun (p : Nat × Nat) =>
      Con.clause (forbidCl s (clog2 m) p.1 y ++ forbidCl s (clog2 m) p.2 y)))).flatten

def binNondecreasingCons (s n m : Nat) : List Con :=
  ((pairs2 (rangeN 1 (n + 1))).map (fun (p : Nat × Nat) =>
    (pairs2 (rangeN 0 m)).map (fun (q : Nat × Nat) =>
      Con.clause (forbidCl s (clog2 m) p.1 q.2 ++ forbidCl s (clog2 m) p.2 q.1)))).flatten

theorem forceComplete_binary (s n m : Nat) :
    forceComplete (.binary s n m) = .ok (binCompleteCons s n m) := by
  simp only [forceComplete, binCompleteCons]
  rw [mapM_ok _ (fun i => (rangeN m (2 ^ clog2 m)).map (fun j => Con.clause (forbidCl s (clog2 m) i j)))]
  · rfl
  · intro i _
    apply mapM_ok
    intro j hj
    rw [forbidC_ok (mem_rangeN.1 hj).2]
    rfl

theorem forceInjective_binary (s n m : Nat) :
    forceInjective (.binary s n m) = .ok (binInjectiveCons s n m) := by
  simp only [forceInjective, binInjectiveCons]
  rw [mapM_ok _ (fun y => (pairs2 (rangeN 1 (n + 1))).map (fun (p : Nat × Nat) =>
      Con.clause (forbidCl s (clog2 m) p.1 y ++ forbidCl s (clog2 m) p.2 y)))]
  · rfl
  · intro y hy
    apply mapM_ok
    intro p _
    have hy' := lt_pow_clog2 (mem_rangeN.1 hy).2
    rw [forbidC_ok hy', forbidC_ok hy']
    rfl

theorem forceNondecreasing_binary (s n m : Nat) :
    forceNondecreasing (.binary s n m) = .ok (binNondecreasingCons s n m) := by
  simp only [forceNondecreasing, binNondecreasingCons]
  rw [mapM_ok _ (fun (p : Nat × Nat) => (pairs2 (rangeN 0 m)).map (fun (q : Nat × Nat) =>
      Con.clause (forbidCl s (clog2 m) p.1 q.2 ++ forbidCl s (clog2 m) p.2 q.1)))]
  · rfl
  · intro p _
    apply mapM_ok
    rintro ⟨v₁, v₂⟩ hq
    have hq' := mem_pairs2_rangeN.1 hq
    rw [forbidC_ok (lt_pow_clog2 hq'.2.2), forbidC_ok (lt_pow_clog2 (by omega : v₁ < m))]
    rfl

theorem binary_lits {s n m : Nat} (hs : 1 ≤ s) :
    (∀ cons, forceComplete (.binary s n m) = .ok cons → ∀ c ∈ cons, ∀ l ∈ c.lits, l ≠ 0 ∧ s ≤ l.natAbs ∧ l.natAbs < s + n * clog2 m) ∧
    (∀ cons, forceInjective (.binary s n m) = .ok cons → ∀ c ∈ cons, ∀ l ∈ c.lits, l ≠ 0 ∧ s ≤ l.natAbs ∧ l.natAbs < s + n * clog2 m) ∧
    (∀ cons, forceNondecreasing (.binary s n m) = .ok cons → ∀ c ∈ cons, ∀ l ∈ c.lits, l ≠ 0 ∧ s ≤ l.natAbs ∧ l.natAbs < s + n * clog2 m) := by
  refine ⟨?_, ?_, ?_⟩
  · intro cons hc c hcm l hl
    rw [forceComplete_binary] at hc
    cases hc
    simp only [binCompleteCons, List.mem_flatten, List.mem_map] at hcm
    obtain ⟨_, ⟨i, hi, rfl⟩, hcm⟩ := hcm
    obtain ⟨j, hj, rfl⟩ := List.mem_map.1 hcm
    exact forbidCl_lits hs (mem_rangeN_succ.1 hi) (mem_rangeN.1 hj).2 l hl
  · intro cons hc c hcm l hl
    rw [forceInjective_binary] at hc
    cases hc
    simp only [binInjectiveCons, List.mem_flatten, List.mem_map] at hcm
    obtain ⟨_, ⟨y, hy, rfl⟩, hcm⟩ := hcm
    obtain ⟨⟨i, j⟩, hp, rfl⟩ := List.mem_map.1 hcm
    have hp' := mem_pairs2_rangeN.1 hp
    have hy' := lt_pow_clog2 (mem_rangeN.1 hy).2
    rcases List.mem_append.1 hl with hl | hl
    · exact forbidCl_lits hs ⟨hp'.1, by omega⟩ hy' l hl
    · exact forbidCl_lits hs ⟨by omega, by omega⟩ hy' l hl
  · intro cons hc c hcm l hl
    rw [forceNondecreasing_binary] at hc
    cases hc
    simp only [binNondecreasingCons, List.mem_flatten, List.mem_map] at hcm
    obtain ⟨_, ⟨⟨i, j⟩, hp, rfl⟩, hcm⟩ := hcm
    obtain ⟨⟨v₁, v₂⟩, hq, rfl⟩ := List.mem_map.1 hcm
    have hp' := mem_pairs2_rangeN.1 hp
    have hq' := mem_pairs2_rangeN.1 hq
    rcases List.mem_append.1 hl with hl | hl
    · exact forbidCl_lits hs ⟨hp'.1, by omega⟩ (lt_pow_clog2 hq'.2.2) l hl
    · exact forbidCl_lits hs ⟨by omega, by omega⟩ (lt_pow_clog2 (by omega : v₁ < m)) l hl

/-- complete: the bits of every `i` encode a value below `m` -/
theorem binary_complete (α : Assign) {s n m : Nat} (hs : 1 ≤ s) :
    ∃ cons, forceComplete (.binary s n m) = .ok cons ∧
      (allHold α cons ↔ ∀ i, 1 ≤ i → i ≤ n → binVal α s (clog2 m) i < m) := by
  refine ⟨_, forceComplete_binary s n m, ?_⟩
  unfold binCompleteCons
  rw [allHold_flatten_map]
  constructor
  · intro hh i h1 h2
    have hi := hh i (mem_rangeN_succ.2 ⟨h1, h2⟩)
    rw [allHold_map] at hi
    by_cases hlt : binVal α s (clog2 m) i < m
    · exact hlt
    · have hb := binVal_lt α s (clog2 m) i
      have := hi (binVal α s (clog2 m) i) (mem_rangeN.2 ⟨by omega, hb⟩)
      exact absurd rfl ((forbid_holds α hs h1 hb).1 this)
  · intro hh i hi
    have hi' := mem_rangeN_succ.1 hi
    rw [allHold_map]
    intro j hj
    have hj' := mem_rangeN.1 hj
    rw [forbid_holds α hs hi'.1 hj'.2]
    have := hh i hi'.1 hi'.2
    omega

/-- functional: nothing to add (a bit string always encodes exactly one value) -/
theorem binary_functional (s n m : Nat) : forceFunctional (.binary s n m) = .ok [] := rfl

/-- surjective: not offered for binary mappings (the code raises ValueError) -/
theorem binary_surjective (s n m : Nat) : forceSurjective (.binary s n m) = .error .valueError := rfl

/-- injective: no two elements encode the same value of the range -/
theorem binary_injective (α : Assign) {s n m : Nat} (hs : 1 ≤ s) :
    ∃ cons, forceInjective (.binary s n m) = .ok cons ∧
      (allHold α cons ↔ ∀ i j, 1 ≤ i → i < j → j ≤ n → ∀ y, y < m →
        ¬ (binVal α s (clog2 m) i = y ∧ binVal α s (clog2 m) j = y)) := by
  refine ⟨_, forceInjective_binary s n m, ?_⟩
  unfold binInjectiveCons
  rw [allHold_flatten_map]
  constructor
  · intro hh i j h1 h2 h3 y hy
    have hy' := lt_pow_clog2 hy
    have := hh y (mem_rangeN.2 ⟨Nat.zero_le _, hy⟩)
    rw [allHold_map] at this
    exact (forbid_pair_holds α hs h1 (by omega) hy' hy').1
      (this (i, j) (mem_pairs2_rangeN.2 ⟨h1, h2, by omega⟩))
  · intro hh y hy
    have hy1 := (mem_rangeN.1 hy).2
    have hy' := lt_pow_clog2 hy1
    rw [allHold_map]
    rintro ⟨i, j⟩ hp
    have hp' := mem_pairs2_rangeN.1 hp
    exact (forbid_pair_holds α hs hp'.1 (by omega) hy' hy').2
      (hh i j hp'.1 hp'.2.1 (by omega) y hy1)

/-- non-decreasing: no `i < j` with values `v₂ > v₁` of the range in the wrong order -/
theorem binary_nondecreasing (α : Assign) {s n m : Nat} (hs : 1 ≤ s) :
    ∃ cons, forceNondecreasing (.binary s n m) = .ok cons ∧
      (allHold α cons ↔ ∀ i j, 1 ≤ i → i < j → j ≤ n → ∀ v₁ v₂, v₁ < v₂ → v₂ < m →
        ¬ (binVal α s (clog2 m) i = v₂ ∧ binVal α s (clog2 m) j = v₁)) := by
  refine ⟨_, forceNondecreasing_binary s n m, ?_⟩
  unfold binNondecreasingCons
  rw [allHold_flatten_map]
  constructor
  · intro hh i j h1 h2 h3 v₁ v₂ hv hv2
    have := hh (i, j) (mem_pairs2_rangeN.2 ⟨h1, h2, by omega⟩)
    rw [allHold_map] at this
    exact (forbid_pair_holds α hs h1 (by omega) (lt_pow_clog2 hv2)
      (lt_pow_clog2 (by omega : v₁ < m))).1
      (this (v₁, v₂) (mem_pairs2_rangeN.2 ⟨Nat.zero_le _, hv, hv2⟩))
  · rintro hh ⟨i, j⟩ hp
    have hp' := mem_pairs2_rangeN.1 hp
    rw [allHold_map]
    rintro ⟨v₁, v₂⟩ hq
    have hq' := mem_pairs2_rangeN.1 hq
    exact (forbid_pair_holds α hs hp'.1 (by omega) (lt_pow_clog2 hq'.2.2)
      (lt_pow_clog2 (by omega : v₁ < m))).2
      (hh i j hp'.1 hp'.2.1 (by omega) v₁ v₂ hq'.2.1 hq'.2.2)

/-! ### the three readings of a constraint list: arithmetic, clauses (CNF class), PB (OPB class) -/

/-- `cons` constrains to exactly `P`: in its arithmetic meaning, as the clauses the CNF class
stores, and as the pseudo-Boolean constraints the OPB class stores -/
def Means (α : Assign) (cons : List Con) (P : Prop) : Prop :=
  (allHold α cons ↔ P) ∧
  ((∀ cl ∈ cons.flatMap Con.toCNF, clauseHolds α cl = true) ↔ P) ∧
  ((∀ p ∈ cons.flatMap Con.toOPB, p.holds α = true) ↔ P)

theorem means_of {α : Assign} {cons : List Con} {P : Prop} {s N : Nat} (hs : 1 ≤ s)
    (hl : ∀ c ∈ cons, ∀ l ∈ c.lits, s ≤ l.natAbs ∧ l.natAbs < s + N) (h : allHold α cons ↔ P) :
    Means α cons P := by
  have hnz : ∀ c ∈ cons, ∀ l ∈ c.lits, l ≠ 0 := by
    intro c hc l hlm h0
    have := (hl c hc l hlm).1
    subst h0
    simp at this; omega
  exact ⟨h, (allHold_toCNF α cons hnz).trans h, (allHold_toOPB α cons hnz).trans h⟩

end Vars
end Cnfgen
