/-
Lemmas for T-C04.6 — `force_{complete,functional,surjective,injective,nondecreasing}_mapping`
mean the functional condition they are named after, for unary / sparse mappings (a bipartite
graph `G` of admissible pairs) and binary mappings.
-/
import CnfgenModel.Vars.Mapping
import Lemmas.VarsBip
import Lemmas.VarsBinary
import Lemmas.Constr
namespace Cnfgen
namespace Vars

/-- `(a, b) ∈ combinations(l, 2)` -/
theorem pairs2_eq_combos (l : List Nat) : (pairs2 l).map (fun p => [p.1, p.2]) = combos l 2 := sorry
theorem mem_pairs2_rangeN {a b lo hi : Nat} : (a, b) ∈ pairs2 (rangeN lo hi) ↔ lo ≤ a ∧ a < b ∧ b < hi := sorry

/-- the atom "u is mapped to v" of a unary / sparse mapping -/
def atom (α : Assign) (G : BipG) (s : Nat) (u v : Nat) : Prop := α (bipId G s u v) = true

/-- all constraints of a list hold -/
def allHold (α : Assign) (cons : List Con) : Prop := ∀ c ∈ cons, c.holds α = true

/-- the clause / PB renderings of a constraint list whose literals are non-zero mean `allHold` -/
theorem allHold_toCNF (α : Assign) (cons : List Con) (h : ∀ c ∈ cons, ∀ l ∈ c.lits, l ≠ 0) :
    (∀ cl ∈ cons.flatMap Con.toCNF, clauseHolds α cl = true) ↔ allHold α cons := sorry
theorem allHold_toOPB (α : Assign) (cons : List Con) (h : ∀ c ∈ cons, ∀ l ∈ c.lits, l ≠ 0) :
    (∀ p ∈ cons.flatMap Con.toOPB, p.holds α = true) ↔ allHold α cons := sorry

/-! ### unary and sparse mappings (`G` well formed, first identifier `s ≥ 1`) -/

/-- every literal of the constraints is a (non-zero) variable of the group -/
theorem unary_lits {G : BipG} (h : G.WF) {s : Nat} (hs : 1 ≤ s) :
    (∀ cons, forceComplete (.unary s G) = .ok cons → ∀ c ∈ cons, ∀ l ∈ c.lits, s ≤ l.natAbs ∧ l.natAbs < s + G.numberOfEdges) ∧
    (∀ cons, forceFunctional (.unary s G) = .ok cons → ∀ c ∈ cons, ∀ l ∈ c.lits, s ≤ l.natAbs ∧ l.natAbs < s + G.numberOfEdges) ∧
    (∀ cons, forceSurjective (.unary s G) = .ok cons → ∀ c ∈ cons, ∀ l ∈ c.lits, s ≤ l.natAbs ∧ l.natAbs < s + G.numberOfEdges) ∧
    (∀ cons, forceInjective (.unary s G) = .ok cons → ∀ c ∈ cons, ∀ l ∈ c.lits, s ≤ l.natAbs ∧ l.natAbs < s + G.numberOfEdges) ∧
    (∀ cons, forceNondecreasing (.unary s G) = .ok cons → ∀ c ∈ cons, ∀ l ∈ c.lits, s ≤ l.natAbs ∧ l.natAbs < s + G.numberOfEdges) := sorry

/-- complete: every `u` of the domain is mapped to some admissible `v` -/
theorem unary_complete (α : Assign) {G : BipG} (h : G.WF) {s : Nat} (hs : 1 ≤ s) :
    ∃ cons, forceComplete (.unary s G) = .ok cons ∧
      (allHold α cons ↔ ∀ u, 1 ≤ u → u ≤ G.l → ∃ v ∈ G.rnbrs u, atom α G s u v) := sorry

/-- functional: every `u` is mapped to at most one `v` -/
theorem unary_functional (α : Assign) {G : BipG} (h : G.WF) {s : Nat} (hs : 1 ≤ s) :
    ∃ cons, forceFunctional (.unary s G) = .ok cons ∧
      (allHold α cons ↔ ∀ u, 1 ≤ u → u ≤ G.l → ∀ v ∈ G.rnbrs u, ∀ v' ∈ G.rnbrs u,
        atom α G s u v → atom α G s u v' → v = v') := sorry

/-- surjective: every `v` of the range has some admissible `u` mapped to it -/
theorem unary_surjective (α : Assign) {G : BipG} (h : G.WF) {s : Nat} (hs : 1 ≤ s) :
    ∃ cons, forceSurjective (.unary s G) = .ok cons ∧
      (allHold α cons ↔ ∀ v, 1 ≤ v → v ≤ G.r → ∃ u ∈ G.lnbrs v, atom α G s u v) := sorry

/-- injective: every `v` has at most one `u` mapped to it -/
theorem unary_injective (α : Assign) {G : BipG} (h : G.WF) {s : Nat} (hs : 1 ≤ s) :
    ∃ cons, forceInjective (.unary s G) = .ok cons ∧
      (allHold α cons ↔ ∀ v, 1 ≤ v → v ≤ G.r → ∀ u ∈ G.lnbrs v, ∀ u' ∈ G.lnbrs v,
        atom α G s u v → atom α G s u' v → u = u') := sorry

/-- non-decreasing: no `u₁ < u₂` mapped to `v₁ > v₂` -/
theorem unary_nondecreasing (α : Assign) {G : BipG} (h : G.WF) {s : Nat} (hs : 1 ≤ s) :
    ∃ cons, forceNondecreasing (.unary s G) = .ok cons ∧
      (allHold α cons ↔ ∀ u₁ u₂, 1 ≤ u₁ → u₁ < u₂ → u₂ ≤ G.l → ∀ v₁ ∈ G.rnbrs u₁, ∀ v₂ ∈ G.rnbrs u₂,
        v₂ < v₁ → ¬ (atom α G s u₁ v₁ ∧ atom α G s u₂ v₂)) := sorry

/-! ### binary mappings (`n` elements, range `0 … m-1`, `bits = clog2 m`, first identifier `s ≥ 1`) -/

theorem binary_lits {s n m : Nat} (hs : 1 ≤ s) :
    (∀ cons, forceComplete (.binary s n m) = .ok cons → ∀ c ∈ cons, ∀ l ∈ c.lits, l ≠ 0 ∧ s ≤ l.natAbs ∧ l.natAbs < s + n * clog2 m) ∧
    (∀ cons, forceInjective (.binary s n m) = .ok cons → ∀ c ∈ cons, ∀ l ∈ c.lits, l ≠ 0 ∧ s ≤ l.natAbs ∧ l.natAbs < s + n * clog2 m) ∧
    (∀ cons, forceNondecreasing (.binary s n m) = .ok cons → ∀ c ∈ cons, ∀ l ∈ c.lits, l ≠ 0 ∧ s ≤ l.natAbs ∧ l.natAbs < s + n * clog2 m) := sorry

/-- complete: the bits of every `i` encode a value below `m` -/
theorem binary_complete (α : Assign) {s n m : Nat} (hs : 1 ≤ s) :
    ∃ cons, forceComplete (.binary s n m) = .ok cons ∧
      (allHold α cons ↔ ∀ i, 1 ≤ i → i ≤ n → binVal α s (clog2 m) i < m) := sorry

/-- functional: nothing to add (a bit string always encodes exactly one value) -/
theorem binary_functional (s n m : Nat) : forceFunctional (.binary s n m) = .ok [] := sorry

/-- surjective: not offered for binary mappings (the code raises ValueError) -/
theorem binary_surjective (s n m : Nat) : forceSurjective (.binary s n m) = .error .valueError := sorry

/-- injective: no two elements encode the same value of the range -/
theorem binary_injective (α : Assign) {s n m : Nat} (hs : 1 ≤ s) :
    ∃ cons, forceInjective (.binary s n m) = .ok cons ∧
      (allHold α cons ↔ ∀ i j, 1 ≤ i → i < j → j ≤ n → ∀ y, y < m →
        ¬ (binVal α s (clog2 m) i = y ∧ binVal α s (clog2 m) j = y)) := sorry

/-- non-decreasing: no `i < j` with values `v₂ > v₁` of the range in the wrong order -/
theorem binary_nondecreasing (α : Assign) {s n m : Nat} (hs : 1 ≤ s) :
    ∃ cons, forceNondecreasing (.binary s n m) = .ok cons ∧
      (allHold α cons ↔ ∀ i j, 1 ≤ i → i < j → j ≤ n → ∀ v₁ v₂, v₁ < v₂ → v₂ < m →
        ¬ (binVal α s (clog2 m) i = v₂ ∧ binVal α s (clog2 m) j = v₁)) := sorry

end Vars
end Cnfgen
