/-
One more `VarIndex` (numberings of an index type by the variables `1..N`, `Lemmas/C01Bij2.lean`):
the positions of a duplicate-free list.  Together with the grid and concatenation combinators of
`Lemmas/C01BijSum.lean` it numbers the variables of CliqueColoring, three consecutive groups
(`e` : pairs, `q` : grid, `r` : grid).
-/
import Lemmas.C01Bij2
import Lemmas.C01BijSum
namespace Cnfgen.Fam
open Cnfgen

/-- the elements of a duplicate-free list, numbered `1 + position` -/
def ccListIndex {α : Type} [BEq α] [LawfulBEq α] (l : List α) (hnd : l.Nodup) :
    VarIndex {e : α // e ∈ l} l.length where
  var e := 1 + l.idxOf e.1
  inv x := ⟨l[x.val]'x.isLt, List.getElem_mem _⟩
  var_pos e := by omega
  var_le e := by
    have := List.idxOf_lt_length_iff.2 e.2
    omega
  var_inv x := by
    have := hnd.idxOf_getElem x.val x.isLt
    simp only [this]; omega
  var_inj e e' h := by
    apply Subtype.ext
    exact (List.idxOf_inj e.2).1 (by omega)

theorem ccListIndex_var {α : Type} [BEq α] [LawfulBEq α] (l : List α) (hnd : l.Nodup)
    (e : {e : α // e ∈ l}) : (ccListIndex l hnd).var e = 1 + l.idxOf e.1 := rfl

end Cnfgen.Fam
