/-
Helper lemmas for `Fam.coloringF` / `Fam.evenColoringF`: identifier arithmetic of a complete
unary mapping, the specification, colourings ↔ assignments.
-/
import Lemmas.FamTseitin
namespace Cnfgen
namespace Fam
open Vars

/-! ### complete mapping identifiers -/

theorem mapId_eq (s k v c : Nat) : mapId s k v c = s + (v - 1) * k + (c - 1) := rfl

theorem mapId_ge (s k v c : Nat) : s ≤ mapId s k v c := by rw [mapId_eq]; omega

theorem mapId_lt {s n k v c : Nat} (hv1 : 1 ≤ v) (hvn : v ≤ n) (hc1 : 1 ≤ c) (hck : c ≤ k) :
    mapId s k v c < s + n * k := by
  rw [mapId_eq]
  have h1 : (v - 1) * k + k = v * k := by
    obtain ⟨w, rfl⟩ : ∃ w, v = w + 1 := ⟨v - 1, by omega⟩
    simp [Nat.succ_mul]
  have h2 : v * k ≤ n * k := Nat.mul_le_mul_right k hvn
  omega

theorem mapId_decode {s k v c : Nat} (hv1 : 1 ≤ v) (hc1 : 1 ≤ c) (hck : c ≤ k) :
    (mapId s k v c - s) / k + 1 = v ∧ (mapId s k v c - s) % k + 1 = c := by
  rw [mapId_eq]
  have hk : 0 < k := by omega
  have e : s + (v - 1) * k + (c - 1) - s = (c - 1) + k * (v - 1) := by
    rw [Nat.mul_comm]; omega
  rw [e, Nat.add_mul_div_left _ _ hk, Nat.add_mul_mod_self_left,
    Nat.div_eq_of_lt (by omega), Nat.mod_eq_of_lt (by omega)]
  omega

theorem mapId_inj {s k v c v' c' : Nat} (hv1 : 1 ≤ v) (hc1 : 1 ≤ c) (hck : c ≤ k)
    (hv1' : 1 ≤ v') (hc1' : 1 ≤ c') (hck' : c' ≤ k) (h : mapId s k v c = mapId s k v' c') :
    v = v' ∧ c = c' := by
  have d := mapId_decode (s := s) hv1 hc1 hck
  have d' := mapId_decode (s := s) hv1' hc1' hck'
  rw [h] at d
  omega

/-- encode/decode in the other direction: every identifier of the block is `mapId` of its index -/
theorem mapId_of_decode {s k x : Nat} (hk : 0 < k) (hx : s ≤ x) :
    mapId s k ((x - s) / k + 1) ((x - s) % k + 1) = x := by
  rw [mapId_eq]
  have := Nat.div_add_mod (x - s) k
  simp only [Nat.add_sub_cancel]
  rw [Nat.mul_comm] at this
  omega

theorem rangeN_one_nodup (k : Nat) : (rangeN 1 (k + 1)).Nodup := by
  rw [rangeN_one]
  exact List.Nodup.map (fun a b h => by simpa using h) List.nodup_range

theorem clauseHolds_mapRow (α : Assign) {s : Nat} (hs : 1 ≤ s) (k v : Nat) :
    clauseHolds α (mapRow s k v) = true ↔ ∃ c, 1 ≤ c ∧ c ≤ k ∧ α (mapId s k v c) = true := by
  unfold clauseHolds mapRow
  simp only [List.any_map, List.any_eq_true, mem_rangeN_one, Function.comp]
  constructor
  · rintro ⟨c, ⟨h1, h2⟩, h⟩
    rw [litHolds_pos α _ (by have := mapId_ge s k v c; omega)] at h
    exact ⟨c, h1, h2, h⟩
  · rintro ⟨c, h1, h2, h⟩
    exact ⟨c, ⟨h1, h2⟩, by rw [litHolds_pos α _ (by have := mapId_ge s k v c; omega)]; exact h⟩

theorem count_mapRow (α : Assign) {s : Nat} (hs : 1 ≤ s) (k v : Nat) :
    count α (mapRow s k v) = (rangeN 1 (k + 1)).countP (fun c => α (mapId s k v c)) := by
  unfold count mapRow
  rw [List.countP_map]
  congr 1
  funext c
  simp [litHolds_pos α _ (show 1 ≤ mapId s k v c by have := mapId_ge s k v c; omega)]

theorem count_mapCol (α : Assign) {s : Nat} (hs : 1 ≤ s) (n k i : Nat) :
    count α (mapCol s n k i) = (rangeN 1 (n + 1)).countP (fun v => α (mapId s k v i)) := by
  unfold count mapCol
  rw [List.countP_map]
  congr 1
  funext c
  simp [litHolds_pos α _ (show 1 ≤ mapId s k c i by have := mapId_ge s k c i; omega)]

/-- "at most one" over a duplicate-free index list -/
theorem countP_le_one_iff {β : Type} (l : List β) (p : β → Bool) (hnd : l.Nodup) :
    l.countP p ≤ 1 ↔ ∀ a ∈ l, ∀ b ∈ l, p a = true → p b = true → a = b := by
  induction l with
  | nil => simp
  | cons x xs ih =>
    rw [List.nodup_cons] at hnd
    rw [List.countP_cons]
    constructor
    · intro h a ha b hb pa pb
      by_cases hx : p x = true
      · simp only [hx, if_true] at h
        have h0 : xs.countP p = 0 := by omega
        rw [List.countP_eq_zero] at h0
        simp only [List.mem_cons] at ha hb
        rcases ha with rfl | ha
        · rcases hb with rfl | hb
          · rfl
          · exact absurd pb (h0 b hb)
        · exact absurd pa (h0 a ha)
      · simp only [hx] at h
        simp only [List.mem_cons] at ha hb
        rcases ha with rfl | ha
        · exact absurd pa hx
        · rcases hb with rfl | hb
          · exact absurd pb hx
          · exact (ih hnd.2).1 (by simpa using h) a ha b hb pa pb
    · intro h
      by_cases hx : p x = true
      · simp only [hx, if_true]
        have : xs.countP p = 0 := by
          rw [List.countP_eq_zero]
          intro a ha pa
          have := h a (List.mem_cons_of_mem _ ha) x (List.mem_cons_self) pa hx
          subst this
          exact hnd.1 ha
        omega
      · simp only [hx]
        have := (ih hnd.2).2 (fun a ha b hb => h a (List.mem_cons_of_mem _ ha) b (List.mem_cons_of_mem _ hb))
        simpa using this

/-! ### k-colouring -/

/-- what the variables `x_{v,c}` say -/
def ColoringSpec (G : SimpleG) (k : Nat) (functional : Bool) (α : Assign) : Prop :=
  (∀ v, 1 ≤ v → v ≤ G.n → ∃ c, 1 ≤ c ∧ c ≤ k ∧ α (mapId 1 k v c) = true) ∧
  (functional = true → ∀ v, 1 ≤ v → v ≤ G.n → ∀ c c', 1 ≤ c → c ≤ k → 1 ≤ c' → c' ≤ k →
    α (mapId 1 k v c) = true → α (mapId 1 k v c') = true → c = c') ∧
  (∀ e ∈ G.edges, ∀ c, 1 ≤ c → c ≤ k →
    ¬ (α (mapId 1 k e.1 c) = true ∧ α (mapId 1 k e.2 c) = true))

theorem coloringF_holds_iff (G : SimpleG) (k : Nat) (fn : Bool) (α : Assign) :
    (coloringF G k fn).holds α = true ↔ ColoringSpec G k fn α := by
  unfold Formula.holds coloringF ColoringSpec
  simp only [List.all_append, Bool.and_eq_true]
  rw [and_assoc]
  apply and_congr _ (and_congr _ _)
  · -- complete
    simp only [List.all_map, List.all_eq_true, mem_rangeN_one, Function.comp, Con.holds]
    constructor
    · intro h v h1 h2; exact (clauseHolds_mapRow α (Nat.le_refl 1) k v).1 (h v ⟨h1, h2⟩)
    · intro h v hv; exact (clauseHolds_mapRow α (Nat.le_refl 1) k v).2 (h v hv.1 hv.2)
  · -- functional
    cases fn
    · simp
    · simp only [if_true, List.all_map, List.all_eq_true, mem_rangeN_one, Function.comp, Con.holds,
        Op.denote, decide_eq_true_eq, forall_const]
      constructor
      · intro h v h1 h2 c c' hc1 hck hc1' hck' ha ha'
        have := h v ⟨h1, h2⟩
        rw [count_mapRow α (Nat.le_refl 1)] at this
        have h' : (rangeN 1 (k + 1)).countP (fun c => α (mapId 1 k v c)) ≤ 1 := by omega
        exact (countP_le_one_iff _ _ (rangeN_one_nodup k)).1 h' c (mem_rangeN_one.2 ⟨hc1, hck⟩)
          c' (mem_rangeN_one.2 ⟨hc1', hck'⟩) ha ha'
      · intro h v hv
        rw [count_mapRow α (Nat.le_refl 1)]
        have : (rangeN 1 (k + 1)).countP (fun c => α (mapId 1 k v c)) ≤ 1 := by
          rw [countP_le_one_iff _ _ (rangeN_one_nodup k)]
          intro a ha b hb pa pb
          rw [mem_rangeN_one] at ha hb
          exact h v hv.1 hv.2 a b ha.1 ha.2 hb.1 hb.2 pa pb
        omega
  · -- proper
    simp only [List.all_flatMap, List.all_map, List.all_eq_true, mem_rangeN_one, Function.comp,
      Con.holds, clauseHolds, List.any_cons, List.any_nil, Bool.or_false, Bool.or_eq_true]
    constructor
    · intro h e he c hc1 hck hboth
      have := h e he c ⟨hc1, hck⟩
      rw [litHolds_neg α _ (mapId_ge 1 k e.1 c), litHolds_neg α _ (mapId_ge 1 k e.2 c)] at this
      simp [hboth.1, hboth.2] at this
    · intro h e he c hc
      rw [litHolds_neg α _ (mapId_ge 1 k e.1 c), litHolds_neg α _ (mapId_ge 1 k e.2 c)]
      have := h e he c hc.1 hc.2
      cases h1 : α (mapId 1 k e.1 c) <;> cases h2 : α (mapId 1 k e.2 c) <;> simp_all

theorem coloringF_wf (G : SimpleG) (hG : GoodGraph G) (k : Nat) (fn : Bool) : (coloringF G k fn).WF := by
  have hrow : ∀ v, 1 ≤ v → v ≤ G.n → ∀ l ∈ mapRow 1 k v, l ≠ 0 ∧ l.natAbs ≤ G.n * k := by
    intro v h1 h2 l hl
    simp only [mapRow, List.mem_map, mem_rangeN_one] at hl
    obtain ⟨c, ⟨hc1, hck⟩, rfl⟩ := hl
    have := mapId_lt (s := 1) h1 h2 hc1 hck
    have := mapId_ge 1 k v c
    constructor
    · omega
    · simp only [Int.natAbs_natCast]; omega
  intro con hcon l hl
  have hnv : (coloringF G k fn).nvars = G.n * k := rfl
  rw [hnv]
  simp only [coloringF, List.mem_append, List.mem_map, mem_rangeN_one, List.mem_flatMap] at hcon
  rcases hcon with (⟨v, hv, rfl⟩ | hcon) | ⟨e, he, c, hc, rfl⟩
  · exact hrow v hv.1 hv.2 l hl
  · cases fn
    · simp at hcon
    · simp only [if_true, List.mem_map, mem_rangeN_one] at hcon
      obtain ⟨v, hv, rfl⟩ := hcon
      exact hrow v hv.1 hv.2 l hl
  · obtain ⟨u, v⟩ := e
    have hm := (mem_edges hG).1 he
    have hv := hG.mem hm.2.2 hm.2.1
    have hu1 := hG.pos_of_mem hm.2.2 hm.2.1
    simp only [Con.lits, List.mem_cons, List.mem_nil_iff, or_false] at hl
    have b1 := mapId_lt (s := 1) hu1 hm.2.2 hc.1 hc.2
    have b2 := mapId_lt (s := 1) hv.1 hv.2.1 hc.1 hc.2
    have g1 := mapId_ge 1 k u c
    have g2 := mapId_ge 1 k v c
    rcases hl with rfl | rfl
    · constructor
      · omega
      · simp only [Int.natAbs_neg, Int.natAbs_natCast]; omega
    · constructor
      · omega
      · simp only [Int.natAbs_neg, Int.natAbs_natCast]; omega

/-! ### colourings ↔ assignments -/

/-- a proper colouring with colours `1..k` (of the listed edges) -/
def ProperColoring (G : SimpleG) (k : Nat) (col : Nat → Nat) : Prop :=
  (∀ v, 1 ≤ v → v ≤ G.n → 1 ≤ col v ∧ col v ≤ k) ∧ ∀ e ∈ G.edges, col e.1 ≠ col e.2

/-- the first index `c` in `1..k` whose variable `f(v)=c` is switched on (0 if none) -/
def pickIdx (s k : Nat) (α : Assign) (v : Nat) : Nat :=
  ((rangeN 1 (k + 1)).find? (fun c => α (mapId s k v c))).getD 0

theorem pickIdx_spec {s k : Nat} {α : Assign} {v : Nat}
    (h : ∃ c, 1 ≤ c ∧ c ≤ k ∧ α (mapId s k v c) = true) :
    1 ≤ pickIdx s k α v ∧ pickIdx s k α v ≤ k ∧ α (mapId s k v (pickIdx s k α v)) = true := by
  unfold pickIdx
  obtain ⟨c, h1, h2, h3⟩ := h
  cases hf : (rangeN 1 (k + 1)).find? (fun c => α (mapId s k v c)) with
  | none =>
    rw [List.find?_eq_none] at hf
    exact absurd h3 (hf c (mem_rangeN_one.2 ⟨h1, h2⟩))
  | some c0 =>
    have hm := List.mem_of_find?_eq_some hf
    have hp := List.find?_some hf
    rw [mem_rangeN_one] at hm
    exact ⟨hm.1, hm.2, hp⟩

/-- the colouring read off an assignment: the first colour switched on -/
def toCol (k : Nat) (α : Assign) (v : Nat) : Nat := pickIdx 1 k α v

/-- the assignment describing a colouring -/
def ofCol (k : Nat) (col : Nat → Nat) : Assign :=
  fun x => col ((x - 1) / k + 1) == (x - 1) % k + 1

theorem ofCol_mapId {k v c : Nat} (col : Nat → Nat) (hv1 : 1 ≤ v) (hc1 : 1 ≤ c) (hck : c ≤ k) :
    ofCol k col (mapId 1 k v c) = (col v == c) := by
  unfold ofCol
  have d := mapId_decode (s := 1) hv1 hc1 hck
  rw [d.1, d.2]

theorem toCol_spec {k : Nat} {α : Assign} {v : Nat}
    (h : ∃ c, 1 ≤ c ∧ c ≤ k ∧ α (mapId 1 k v c) = true) :
    1 ≤ toCol k α v ∧ toCol k α v ≤ k ∧ α (mapId 1 k v (toCol k α v)) = true :=
  pickIdx_spec h

theorem coloring_toCol_proper (G : SimpleG) (hG : GoodGraph G) (k : Nat) (fn : Bool) (α : Assign)
    (h : ColoringSpec G k fn α) : ProperColoring G k (toCol k α) := by
  obtain ⟨htot, _, hprop⟩ := h
  constructor
  · intro v h1 h2
    have := toCol_spec (htot v h1 h2)
    exact ⟨this.1, this.2.1⟩
  · intro e he heq
    obtain ⟨u, v⟩ := e
    have hm := (mem_edges hG).1 he
    have hv := hG.mem hm.2.2 hm.2.1
    have hu1 := hG.pos_of_mem hm.2.2 hm.2.1
    have su := toCol_spec (htot u hu1 hm.2.2)
    have sv := toCol_spec (htot v hv.1 hv.2.1)
    simp only at heq
    exact hprop (u, v) he (toCol k α u) su.1 su.2.1 ⟨su.2.2, by rw [heq]; exact sv.2.2⟩

theorem coloring_ofCol_spec (G : SimpleG) (hG : GoodGraph G) (k : Nat) (fn : Bool) (col : Nat → Nat)
    (h : ProperColoring G k col) : ColoringSpec G k fn (ofCol k col) := by
  obtain ⟨hr, hp⟩ := h
  refine ⟨?_, ?_, ?_⟩
  · intro v h1 h2
    have := hr v h1 h2
    exact ⟨col v, this.1, this.2, by rw [ofCol_mapId col h1 this.1 this.2]; simp⟩
  · intro _ v h1 _ c c' hc1 hck hc1' hck' ha ha'
    rw [ofCol_mapId col h1 hc1 hck] at ha
    rw [ofCol_mapId col h1 hc1' hck'] at ha'
    simp only [beq_iff_eq] at ha ha'
    omega
  · intro e he c hc1 hck hboth
    obtain ⟨u, v⟩ := e
    have hm := (mem_edges hG).1 he
    have hv := hG.mem hm.2.2 hm.2.1
    have hu1 := hG.pos_of_mem hm.2.2 hm.2.1
    rw [ofCol_mapId col hu1 hc1 hck, ofCol_mapId col hv.1 hc1 hck] at hboth
    simp only [beq_iff_eq] at hboth
    exact hp (u, v) he (by simp only; omega)

/-- reading the colouring off the assignment that describes `col` gives `col` back -/
theorem toCol_ofCol (G : SimpleG) (k : Nat) (col : Nat → Nat)
    (h : ∀ v, 1 ≤ v → v ≤ G.n → 1 ≤ col v ∧ col v ≤ k) (v : Nat) (h1 : 1 ≤ v) (h2 : v ≤ G.n) :
    toCol k (ofCol k col) v = col v := by
  have hc := h v h1 h2
  have sp := toCol_spec (k := k) (α := ofCol k col) (v := v)
    ⟨col v, hc.1, hc.2, by rw [ofCol_mapId col h1 hc.1 hc.2]; simp⟩
  rw [ofCol_mapId col h1 sp.1 sp.2.1] at sp
  simp only [beq_iff_eq] at sp
  omega

/-- describing the colouring read off a model of the functional formula gives the model back
(on the variables of the formula) -/
theorem ofCol_toCol (G : SimpleG) (k : Nat) (α : Assign) (h : ColoringSpec G k true α)
    (x : Nat) (hx1 : 1 ≤ x) (hxn : x ≤ G.n * k) : ofCol k (toCol k α) x = α x := by
  obtain ⟨htot, hfun, _⟩ := h
  have hk : 0 < k := by
    rcases Nat.eq_zero_or_pos k with rfl | hk
    · simp at hxn; omega
    · exact hk
  have hmap := mapId_of_decode (s := 1) hk hx1
  have hv1 : 1 ≤ (x - 1) / k + 1 := Nat.le_add_left 1 _
  have hvn : (x - 1) / k + 1 ≤ G.n := by
    have : (x - 1) / k < G.n := (Nat.div_lt_iff_lt_mul hk).2 (by omega)
    omega
  have hc1 : 1 ≤ (x - 1) % k + 1 := Nat.le_add_left 1 _
  have hck : (x - 1) % k + 1 ≤ k := by have := Nat.mod_lt (x - 1) hk; omega
  have sp := toCol_spec (htot _ hv1 hvn)
  unfold ofCol
  cases hα : α x
  · rw [beq_eq_false_iff_ne]
    intro heq
    rw [heq, hmap, hα] at sp
    exact Bool.noConfusion sp.2.2
  · rw [beq_iff_eq]
    exact hfun rfl _ hv1 hvn _ _ sp.1 sp.2.1 hc1 hck sp.2.2 (by rw [hmap]; exact hα)

/-! ### even colouring -/

theorem filter_lt_append_filter_gt (l : List Nat) (w : Nat) (hs : l.Pairwise (· < ·)) (hw : w ∉ l) :
    l.filter (fun x => x < w) ++ l.filter (fun x => w < x) = l := by
  induction l with
  | nil => simp
  | cons x xs ih =>
    rw [List.pairwise_cons] at hs
    have hxw : x ≠ w := fun h => hw (by simp [h])
    have hw' : w ∉ xs := fun h => hw (List.mem_cons_of_mem _ h)
    by_cases hlt : x < w
    · simp only [List.filter_cons, hlt, decide_true, if_true, Nat.lt_asymm hlt, decide_false]
      simp only [Bool.false_eq_true, if_false, List.cons_append]
      rw [ih hs.2 hw']
    · have hgt : w < x := by omega
      have h1 : (x :: xs).filter (fun y => y < w) = [] := by
        rw [List.filter_eq_nil_iff]
        intro a ha
        simp only [List.mem_cons] at ha
        rcases ha with rfl | ha
        · simp; omega
        · have := hs.1 a ha; simp; omega
      have h2 : (x :: xs).filter (fun y => w < y) = x :: xs := by
        rw [List.filter_eq_self]
        intro a ha
        simp only [List.mem_cons] at ha
        rcases ha with rfl | ha
        · simp; omega
        · have := hs.1 a ha; simp; omega
      rw [h1, h2]; rfl

theorem loNbrs_eq (hG : GoodGraph G) {w : Nat} (hwn : w ≤ G.n) :
    loNbrs G w = (G.nbrs w).filter (fun x => x < w) := by
  apply List.Pairwise.eq_of_mem_iff (r := (· < ·))
  · exact (rangeN_one_sorted G.n).sublist List.filter_sublist
  · exact (hG.sorted hwn).sublist List.filter_sublist
  · intro u
    simp only [loNbrs, List.mem_filter, mem_rangeN_one, List.contains_iff_mem, decide_eq_true_eq,
      mem_upNbrs hG]
    constructor
    · rintro ⟨_, hlt, hw, hun⟩
      exact ⟨hG.symm hun hw, hlt⟩
    · rintro ⟨hu, hlt⟩
      have hm := hG.mem hwn hu
      exact ⟨⟨hm.1, hm.2.1⟩, hlt, hm.2.2.2, hm.2.1⟩

theorem upNbrs_eq' (hG : GoodGraph G) {w : Nat} (hw1 : 1 ≤ w) (hwn : w ≤ G.n) :
    upNbrs G w = (G.nbrs w).filter (fun x => w < x) := by
  apply List.Pairwise.eq_of_mem_iff (r := (· < ·))
  · exact upNbrs_sorted hG w
  · exact (hG.sorted hwn).sublist List.filter_sublist
  · intro u
    simp only [List.mem_filter, decide_eq_true_eq, mem_upNbrs hG]
    constructor
    · rintro ⟨h1, h2, _⟩; exact ⟨h2, h1⟩
    · rintro ⟨h1, h2⟩; exact ⟨h2, h1, hwn⟩

/-- `e.indices(w, None)` enumerates the edges at `w` in the order of `G.neighbors(w)` -/
theorem incidentLits_eq (hG : GoodGraph G) {w : Nat} (hw1 : 1 ≤ w) (hwn : w ≤ G.n) :
    incidentLits G w = tseitinLits G w := by
  unfold incidentLits incidentPairs tseitinLits
  have hup : (upNbrs G w).filter (fun x => x != w) = upNbrs G w := by
    rw [List.filter_eq_self]
    intro a ha
    have := ((mem_upNbrs hG).1 ha).1
    simp; omega
  have hnot : w ∉ G.nbrs w := fun h => (hG.mem hwn h).2.2.1 rfl
  rw [hup, loNbrs_eq hG hwn, upNbrs_eq' hG hw1 hwn, List.map_append, List.map_map, List.map_map]
  conv_rhs => rw [← filter_lt_append_filter_gt (G.nbrs w) w (hG.sorted hwn) hnot]
  rw [List.map_append]
  congr 1
  apply List.map_congr_left
  intro x _
  simp only [Function.comp]
  rw [edgeId_comm]

/-- at every vertex exactly half of the incident edge variables are true -/
def EvenColoringSpec (G : SimpleG) (α : Assign) : Prop :=
  ∀ v, 1 ≤ v → v ≤ G.n →
    (G.nbrs v).countP (fun u => α (edgeId G 1 u v)) = (G.nbrs v).length / 2

theorem evenColoringF_holds_iff (G : SimpleG) (hG : GoodGraph G) (α : Assign) :
    (evenColoringF G).holds α = true ↔ EvenColoringSpec G α := by
  unfold Formula.holds evenColoringF EvenColoringSpec
  simp only [List.all_map, List.all_eq_true, mem_rangeN_one, Function.comp, Con.holds, Op.denote,
    decide_eq_true_eq]
  constructor
  · intro h v h1 h2
    have := h v ⟨h1, h2⟩
    rw [incidentLits_eq hG h1 h2, count_tseitinLits] at this
    simp only [tseitinLits, List.length_map] at this
    omega
  · intro h v hv
    rw [incidentLits_eq hG hv.1 hv.2, count_tseitinLits, h v hv.1 hv.2]
    simp only [tseitinLits, List.length_map]

theorem evenColoringF_wf (G : SimpleG) (hG : GoodGraph G) : (evenColoringF G).WF := by
  intro c hc l hl
  simp only [evenColoringF, List.mem_map, mem_rangeN_one] at hc
  obtain ⟨v, hv, rfl⟩ := hc
  simp only [Con.lits] at hl
  rw [incidentLits_eq hG hv.1 hv.2] at hl
  simp only [tseitinLits, List.mem_map] at hl
  obtain ⟨u, hu, rfl⟩ := hl
  have hb := edgeId_bounds hG 1 hv.2 hu
  rw [edgeId_comm] at hb
  have : (evenColoringF G).nvars = G.edges.length := rfl
  rw [this]
  constructor
  · omega
  · simp only [Int.natAbs_natCast]; omega

/-- the generator accepts exactly the graphs without a vertex of odd degree -/
theorem evenColoring_ok_iff (G : SimpleG) :
    (∃ F, evenColoring G = .ok F) ↔ ∀ v, 1 ≤ v → v ≤ G.n → (G.nbrs v).length % 2 = 0 := by
  unfold evenColoring
  constructor
  · rintro ⟨F, hF⟩ v h1 h2
    split at hF
    · cases hF
    · rename_i hany
      simp only [List.any_eq_true, mem_rangeN_one, beq_iff_eq, not_exists, not_and] at hany
      have := hany v ⟨h1, h2⟩
      omega
  · intro h
    refine ⟨evenColoringF G, ?_⟩
    rw [if_neg]
    simp only [List.any_eq_true, mem_rangeN_one, beq_iff_eq, not_exists, not_and]
    intro v hv
    have := h v hv.1 hv.2
    omega

/-- summing the vertex equations over a vertex set closed under adjacency: the half-degrees
add up to an even number.  When all degrees are even this sum is the number of edges inside the
set, so every connected component of a satisfiable instance has an even number of edges. -/
theorem evenColoring_parity (G : SimpleG) (hG : GoodGraph G) (α : Assign)
    (h : EvenColoringSpec G α) (C : Nat → Bool)
    (hC : ∀ v u, C v = true → u ∈ G.nbrs v → C u = true) :
    Even (∑ v ∈ (Finset.Icc 1 G.n).filter (fun v => C v = true), (G.nbrs v).length / 2) := by
  have heven := closed_count_even G hG α C hC
  have : ∑ v ∈ (Finset.Icc 1 G.n).filter (fun v => C v = true), (G.nbrs v).length / 2 =
      ∑ a ∈ Finset.range (G.n + 1),
        (if C a = true then (G.nbrs a).countP (fun u => α (edgeId G 1 u a)) else 0) := by
    rw [Finset.sum_filter]
    have hsub : Finset.Icc 1 G.n ⊆ Finset.range (G.n + 1) := by
      intro x hx; simp only [Finset.mem_Icc] at hx; simp only [Finset.mem_range]; omega
    rw [← Finset.sum_subset hsub]
    · apply Finset.sum_congr rfl
      intro v hv
      simp only [Finset.mem_Icc] at hv
      by_cases hc : C v = true
      · simp only [hc, if_true]; exact (h v hv.1 hv.2).symm
      · simp only [hc, Bool.false_eq_true, if_false]
    · intro x hx hnx
      simp only [Finset.mem_range] at hx
      simp only [Finset.mem_Icc, not_and, not_le] at hnx
      have : x = 0 := by
        rcases Nat.eq_zero_or_pos x with h0 | h0
        · exact h0
        · have := hnx h0; omega
      subst this
      simp [hG.1]
  rw [this]
  exact heven

end Fam
end Cnfgen
