/-
Character level, splitting: (b) `str.split()` of blank-separated tokens returns the tokens;
(c) `readlines()` of lines each closed by "\n" returns the lines (universal-newline mode or not),
and hence the lexer distributes over the `write()` calls of the writers.
-/
import Lemmas.IOTextNum
import Lemmas.IOComments
namespace Cnfgen.IO

/-- a token: non-empty and without blanks -/
def IsTok (t : Str) : Prop := t ≠ [] ∧ NoWS t

theorem isSpace_blank : isSpace ' ' = true := by decide

theorem splitWS_cons_cons (c d : Char) (r : Str) (hc : isSpace c = false) (hd : isSpace d = false) :
    splitWS (c :: d :: r) = (match splitWS (d :: r) with | t :: ts => (c :: t) :: ts | [] => [[c]]) := by
  rw [splitWS.eq_def]; simp only [hc, hd]
  cases splitWS (d :: r) <;> simp

theorem splitWS_cons_blank (c : Char) (r : Str) (hc : isSpace c = false) :
    splitWS (c :: ' ' :: r) = [c] :: splitWS r := by
  rw [splitWS.eq_def]; simp only [hc, isSpace_blank]
  have : splitWS (' ' :: r) = splitWS r := by rw [splitWS.eq_def]; simp [isSpace_blank]
  simp [this]

/-- a token alone -/
theorem splitWS_tok : ∀ (t : Str), IsTok t → splitWS t = [t]
  | [], h => absurd rfl h.1
  | [c], h => by simp [splitWS, h.2 c (by simp)]
  | c :: d :: r, h => by
    have hc : isSpace c = false := h.2 c (by simp)
    have hd : isSpace d = false := h.2 d (by simp)
    have ih := splitWS_tok (d :: r) ⟨by simp, fun x hx => h.2 x (by simp [hx])⟩
    rw [splitWS_cons_cons c d r hc hd, ih]

/-- a token followed by a blank and more text -/
theorem splitWS_tok_blank : ∀ (t rest : Str), IsTok t → splitWS (t ++ ' ' :: rest) = t :: splitWS rest
  | [], _, h => absurd rfl h.1
  | [c], rest, h => splitWS_cons_blank c rest (h.2 c (by simp))
  | c :: d :: r, rest, h => by
    have hc : isSpace c = false := h.2 c (by simp)
    have hd : isSpace d = false := h.2 d (by simp)
    have ih := splitWS_tok_blank (d :: r) rest ⟨by simp, fun x hx => h.2 x (by simp [hx])⟩
    show splitWS (c :: d :: (r ++ ' ' :: rest)) = _
    rw [splitWS_cons_cons c d _ hc hd]
    simp only [List.cons_append] at ih
    rw [ih]

/-- (b) tokens each followed by one blank, then more text -/
theorem splitWS_toks (toks : List Str) (rest : Str) (h : ∀ t ∈ toks, IsTok t) :
    splitWS (toks.flatMap (fun t => t ++ [' ']) ++ rest) = toks ++ splitWS rest := by
  induction toks with
  | nil => simp
  | cons t ts ih =>
    have := splitWS_tok_blank t (ts.flatMap (fun t => t ++ [' ']) ++ rest) (h t (by simp))
    simp only [List.flatMap_cons, List.append_assoc, List.cons_append, List.nil_append]
    rw [this, ih (fun x hx => h x (by simp [hx]))]

/-- (b) for a line: tokens each followed by one blank, then a last token -/
theorem lexLine_toks (toks : List Str) (last : Str) (h : ∀ t ∈ toks, IsTok t) (hl : IsTok last) :
    lexLine (toks.flatMap (fun t => t ++ [' ']) ++ last) = toks.map classify ++ [classify last] := by
  simp [lexLine, splitWS_toks toks last h, splitWS_tok last hl]

/-! ### lines -/

theorem splitNL_ne_nil : ∀ (s : Str), splitNL s ≠ []
  | [] => by simp [splitNL]
  | c :: cs => by
    unfold splitNL
    split
    · simp
    · split <;> simp

theorem splitNL_cons_line : ∀ (s rest : Str), (∀ c ∈ s, c ≠ '\n') → splitNL (s ++ '\n' :: rest) = s :: splitNL rest
  | [], rest, _ => by simp [splitNL]
  | c :: cs, rest, h => by
    have hc : c ≠ '\n' := h c (by simp)
    have ih := splitNL_cons_line cs rest (fun d hd => h d (by simp [hd]))
    simp [splitNL, hc, ih]

theorem readlines_cons_line (s rest : Str) (h : ∀ c ∈ s, c ≠ '\n') :
    readlines (s ++ '\n' :: rest) = s :: readlines rest := by
  unfold readlines
  simp only [splitNL_cons_line s rest h]
  have hne := splitNL_ne_nil rest
  cases hsp : splitNL rest with
  | nil => exact absurd hsp hne
  | cons a as =>
    have h1 : (s :: a :: as).getLast? = (a :: as).getLast? := by simp [List.getLast?_cons_cons]
    have h2 : (s :: a :: as).dropLast = s :: (a :: as).dropLast := by simp [List.dropLast]
    rw [h1, h2]
    split <;> rfl

theorem universalNLAux_cons_line : ∀ (s rest : Str), (∀ c ∈ s, c ≠ '\r') →
    universalNLAux false (s ++ '\n' :: rest) = s ++ '\n' :: universalNLAux false rest
  | [], rest, _ => by
    show universalNLAux false ('\n' :: rest) = _
    rw [universalNLAux]
    have : ¬ ('\n' = '\r') := by decide
    simp [this]
  | c :: cs, rest, h => by
    have hc : c ≠ '\r' := h c (by simp)
    have ih := universalNLAux_cons_line cs rest (fun d hd => h d (by simp [hd]))
    show universalNLAux false (c :: (cs ++ '\n' :: rest)) = _
    rw [universalNLAux]
    simp only [hc, if_false, ih]
    split <;> simp_all

/-- (c) a line without line terminator inside, closed by "\n": the reader sees that line, then the rest -/
theorem physLines_cons_line (u : Bool) (s rest : Str) (h : NoNL s) :
    physLines u (s ++ '\n' :: rest) = s :: physLines u rest := by
  unfold physLines universalNL
  cases u
  · simpa using readlines_cons_line s rest (fun c hc => (h c hc).1)
  · simp only [if_true]
    rw [universalNLAux_cons_line s rest (fun c hc => (h c hc).2)]
    exact readlines_cons_line s _ (fun c hc => (h c hc).1)

theorem physLines_nil (u : Bool) : physLines u [] = [] := by cases u <;> decide

theorem lex_cons_line (u : Bool) (s rest : Str) (h : NoNL s) :
    lex u (s ++ '\n' :: rest) = lexLine s :: lex u rest := by
  simp [lex, physLines_cons_line u s rest h]

theorem lex_nil (u : Bool) : lex u [] = [] := by simp [lex, physLines_nil]

/-- what one `write()` call of the writers emits: a line without terminator inside, then "\n" -/
def IsLineChunk (ch : Str) : Prop := ∃ s, NoNL s ∧ ch = s ++ ['\n']

theorem lex_chunk_append (u : Bool) (ch rest : Str) (h : IsLineChunk ch) :
    lex u (ch ++ rest) = lex u ch ++ lex u rest := by
  obtain ⟨s, hs, rfl⟩ := h
  have h1 := lex_cons_line u s rest hs
  have h2 := lex_cons_line u s [] hs
  rw [lex_nil] at h2
  simp only [List.append_assoc, List.singleton_append]
  rw [h1, h2]; rfl

/-- (c) the lexer distributes over a sequence of `write()` calls of whole lines -/
theorem lex_chunks (u : Bool) (chunks : List Str) (rest : Str) (h : ∀ ch ∈ chunks, IsLineChunk ch) :
    lex u (chunks.flatten ++ rest) = chunks.flatMap (lex u) ++ lex u rest := by
  induction chunks with
  | nil => simp
  | cons ch chs ih =>
    simp only [List.flatten_cons, List.append_assoc, List.flatMap_cons]
    rw [lex_chunk_append u ch _ (h ch (by simp)), ih (fun x hx => h x (by simp [hx]))]

theorem isLineChunk_of_comment {a : Char} (ha : a ≠ '\n' ∧ a ≠ '\r') {ch : Str} (h : IsCommentChunk a ch) :
    IsLineChunk ch := by
  rcases h with rfl | ⟨body, hb, rfl⟩
  · exact ⟨[a], by intro c hc; simp at hc; subst hc; exact ha, rfl⟩
  · refine ⟨a :: ' ' :: body, ?_, by simp⟩
    intro c hc
    rcases List.mem_cons.1 hc with e | e
    · subst e; exact ha
    · rcases List.mem_cons.1 e with e | e
      · subst e; decide
      · exact hb c e

end Cnfgen.IO
