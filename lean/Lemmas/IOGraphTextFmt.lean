/-
Character level, graph formats — the three in-house writers: the text `_write_graph_kthlist_*`,
`_write_graph_dimacs_format`, `_write_graph_matrix_format` produce (`kthText`, `dimacsText`,
`matrixText` of `IO/GraphFmt.lean`) is a sequence of newline-closed lines, and the graph lexer maps
it — read from a `StringIO` or from a text-mode file — to exactly the rows of the row-level writers
(`kthRows`, `dimacsRows`, `writeMatrix`), for every graph name and all numbers below CPython's
digit limit.
-/
import Lemmas.IOGraphText
import Lemmas.IOTextDimacs
namespace Cnfgen.GraphFmt
open Cnfgen Cnfgen.GraphLex

theorem natStr_zero : natStr 0 = ['0'] := by decide

theorem noNL_nil : IO.NoNL ([] : Str) := by intro c hc; simp at hc

theorem noNL_cons {c : Char} {s : Str} (hc : c ≠ '\n' ∧ c ≠ '\r') (hs : IO.NoNL s) : IO.NoNL (c :: s) := by
  intro d hd
  rcases List.mem_cons.1 hd with e | e
  · subst e; exact hc
  · exact hs d e

/-! ## kthlist -/

/-- `str(v) + " :" + "".join(' ' + str(i) for i in nbors) + " 0"` -/
def kthListLine (p : Nat × List Nat) : Str :=
  natStr p.1 ++ ' ' :: ':' :: ((p.2 ++ [0]).flatMap (fun i => ' ' :: natStr i))

/-- the lines of a kthlist file: one `c ` line per line of the name, the order, one list per vertex,
and the empty line that `print(output.getvalue())` appends -/
def kthLines (name : Str) (n : Nat) (lists : List (Nat × List Nat)) : List Str :=
  (nameLines name).map (fun l => 'c' :: ' ' :: l) ++ natStr n :: (lists.map kthListLine ++ [[]])

theorem kthListText_eq (p : Nat × List Nat) : kthListText p = kthListLine p ++ ['\n'] := by
  have h1 : " :".toList = [' ', ':'] := by decide
  have h2 : " 0\n".toList = [' ', '0', '\n'] := by decide
  simp [kthListText, kthListLine, h1, h2, List.flatMap_append, natStr_zero]

theorem kthText_eq (name : Str) (n : Nat) (lists : List (Nat × List Nat)) :
    kthText name n lists = unlines (kthLines name n lists) := by
  have h1 : "c ".toList = ['c', ' '] := by decide
  have h3 : lists.flatMap kthListText = unlines (lists.map kthListLine) := by
    have : kthListText = fun p => kthListLine p ++ ['\n'] := funext kthListText_eq
    rw [this]; simp only [unlines, List.flatMap_map]
  unfold kthText kthLines
  rw [h3, unlines_append, unlines_cons, unlines_append]
  simp [unlines, h1, List.flatMap_map]

theorem kthListLine_noNL (p : Nat × List Nat) : IO.NoNL (kthListLine p) := by
  unfold kthListLine
  refine (IO.natStr_noNL _).append (noNL_cons (by decide) (noNL_cons (by decide) ?_))
  exact IO.noNL_flatMap _ _ (fun i _ => noNL_cons (by decide) (IO.natStr_noNL i))

theorem kthLines_noNL (name : Str) (n : Nat) (lists : List (Nat × List Nat)) :
    ∀ l ∈ kthLines name n lists, IO.NoNL l := by
  intro l hl
  unfold kthLines at hl
  simp only [List.mem_append, List.mem_map, List.mem_cons, List.not_mem_nil, or_false] at hl
  rcases hl with ⟨x, hx, rfl⟩ | rfl | ⟨p, _, rfl⟩ | rfl
  · exact noNL_cons (by decide) (noNL_cons (by decide) (nameLines_noNL name x hx))
  · exact IO.natStr_noNL n
  · exact kthListLine_noNL p
  · exact noNL_nil

theorem lexKthLine_comment (l : Str) : lexKthLine ('c' :: l) = .comment := by
  simp [lexKthLine]

theorem lexKthLine_blank : lexKthLine ['\n'] = .blank := by decide

/-- the size line -/
theorem lexKthLine_spec (n : Nat) (h : Small n) : lexKthLine (natStr n ++ ['\n']) = .spec (some (n : Int)) := by
  obtain ⟨c, cs, hs, hc⟩ := IO.natStr_cons n
  have hne := isDigit_ne' hc
  have hstrip : strip (natStr n ++ ['\n']) = natStr n := by
    rw [strip_append_ws _ _ isSpace_nl, IO.strip_noWS _ (IO.natStr_noWS n)]
  have hcolon : (natStr n ++ ['\n']).contains ':' = false := by
    apply contains_false_of_forall_ne
    intro d hd
    rcases List.mem_append.1 hd with e | e
    · exact natStr_ne n ':' (by unfold IO.IsDigit; decide) d e
    · simp at e; subst e; decide
  have hhead : (natStr n ++ ['\n']).head? ≠ some 'c' := by
    rw [hs]; simp; exact hne.1
  unfold lexKthLine
  rw [if_neg hhead, hstrip, hcolon]
  have : (natStr n).isEmpty = false := by rw [hs]; rfl
  simp [this, pyInt_natStr n h]

/-- the size line beyond the digit limit: `int()` raises -/
theorem lexKthLine_spec_big (n : Nat) (h : 10 ^ maxStrDigits ≤ n) : lexKthLine (natStr n ++ ['\n']) = .spec none := by
  obtain ⟨c, cs, hs, hc⟩ := IO.natStr_cons n
  have hne := isDigit_ne' hc
  have hstrip : strip (natStr n ++ ['\n']) = natStr n := by
    rw [strip_append_ws _ _ isSpace_nl, IO.strip_noWS _ (IO.natStr_noWS n)]
  have hcolon : (natStr n ++ ['\n']).contains ':' = false := by
    apply contains_false_of_forall_ne
    intro d hd
    rcases List.mem_append.1 hd with e | e
    · exact natStr_ne n ':' (by unfold IO.IsDigit; decide) d e
    · simp at e; subst e; decide
  have hhead : (natStr n ++ ['\n']).head? ≠ some 'c' := by
    rw [hs]; simp; exact hne.1
  unfold lexKthLine
  rw [if_neg hhead, hstrip, hcolon]
  have : (natStr n).isEmpty = false := by rw [hs]; rfl
  simp [this, pyInt_natStr_big n h]

/-- an adjacency line -/
theorem lexKthLine_adj (p : Nat × List Nat) (h1 : Small p.1) (h2 : ∀ i ∈ p.2, Small i) :
    lexKthLine (kthListLine p ++ ['\n']) = kthAdjRow p.1 p.2 := by
  obtain ⟨c, cs, hs, hc⟩ := IO.natStr_cons p.1
  have hne := isDigit_ne' hc
  have hsp := (IO.isDigit_ne hc).1
  -- the line, split at the colon
  have hline : kthListLine p ++ ['\n'] =
      (natStr p.1 ++ [' ']) ++ ':' :: (((p.2 ++ [0]).map natStr).flatMap (fun t => ' ' :: t) ++ '\n' :: []) := by
    simp [kthListLine, List.flatMap_map]
  have hhead : (kthListLine p ++ ['\n']).head? ≠ some 'c' := by
    unfold kthListLine; rw [hs]; simp; exact hne.1
  have hstrip : (strip (kthListLine p ++ ['\n'])).isEmpty = false := by
    unfold kthListLine; rw [hs]
    obtain ⟨z, hz⟩ := strip_cons c (cs ++ ' ' :: ':' :: ((p.2 ++ [0]).flatMap (fun i => ' ' :: natStr i)) ++ ['\n']) hsp
    simp only [List.cons_append, List.append_assoc] at hz ⊢
    rw [hz]; rfl
  have hcolon : (kthListLine p ++ ['\n']).contains ':' = true := by
    rw [hline]; simp
  have hleft : ∀ d ∈ natStr p.1 ++ [' '], d ≠ ':' := by
    intro d hd
    rcases List.mem_append.1 hd with e | e
    · exact natStr_ne _ ':' (by unfold IO.IsDigit; decide) d e
    · simp at e; subst e; decide
  have hright : ∀ d ∈ ((p.2 ++ [0]).map natStr).flatMap (fun t => ' ' :: t) ++ '\n' :: [], d ≠ ':' := by
    intro d hd
    rcases List.mem_append.1 hd with e | e
    · obtain ⟨t, ht, hdt⟩ := List.mem_flatMap.1 e
      obtain ⟨i, _, rfl⟩ := List.mem_map.1 ht
      rcases List.mem_cons.1 hdt with e' | e'
      · subst e'; decide
      · exact natStr_ne _ ':' (by unfold IO.IsDigit; decide) d e'
    · simp at e; subst e; decide
  have hsplit : splitOn ':' (kthListLine p ++ ['\n']) =
      [natStr p.1 ++ [' '], ((p.2 ++ [0]).map natStr).flatMap (fun t => ' ' :: t) ++ '\n' :: []] := by
    rw [hline, splitOn_first ':' _ _ hleft, splitOn_none ':' _ hright]
  have hl : pyInt? (strip (natStr p.1 ++ [' '])) = some (p.1 : Int) := by
    rw [strip_append_ws _ _ IO.isSpace_blank, IO.strip_noWS _ (IO.natStr_noWS _)]
    exact pyInt_natStr _ h1
  have htoks : splitWS (((p.2 ++ [0]).map natStr).flatMap (fun t => ' ' :: t) ++ '\n' :: []) =
      (p.2 ++ [0]).map natStr := by
    rw [splitWS_blank_toks _ '\n' [] (fun t ht => by
      obtain ⟨i, _, rfl⟩ := List.mem_map.1 ht; exact IO.isTok_natStr i) isSpace_nl]
    simp [IO.splitWS]
  have hr : ((p.2 ++ [0]).map natStr).mapM pyInt? = some (p.2.map Int.ofNat ++ [0]) := by
    rw [mapM_pyInt_natStr _ (fun i hi => by
      rcases List.mem_append.1 hi with e | e
      · exact h2 i e
      · simp at e; subst e; exact IO.lt_limit_of_le (by decide))]
    simp
  unfold lexKthLine
  rw [if_neg hhead]
  simp only [hstrip, hcolon, hsplit, hl, htoks, hr, kthAdjRow]
  simp

/-- lexing the characters of a kthlist file gives the rows of the row-level writer — both media -/
theorem lexKth_kthText (u : Bool) (name : Str) (n : Nat) (lists : List (Nat × List Nat)) (hn : Small n)
    (hl : ∀ p ∈ lists, Small p.1 ∧ ∀ i ∈ p.2, Small i) :
    lexKth (if u then universalNL (kthText name n lists) else kthText name n lists) =
      kthRows (nameLines name).length n lists := by
  unfold lexKth
  rw [kthText_eq, lines_of_text u _ (kthLines_noNL name n lists), List.map_map]
  unfold kthLines kthRows
  simp only [List.map_append, List.map_cons, List.map_map, List.map_nil, Function.comp_def, List.nil_append,
    List.cons_append, lexKthLine_comment, lexKthLine_blank, lexKthLine_spec n hn]
  have hmap : lists.map (fun x => lexKthLine (kthListLine x ++ ['\n'])) = lists.map (fun p => kthAdjRow p.1 p.2) :=
    List.map_congr_left (fun p hp => lexKthLine_adj p (hl p hp).1 (hl p hp).2)
  rw [hmap, List.map_const']

theorem kthHeader_comments (k : Nat) (rs : List KRow) :
    kthHeader (List.replicate k .comment ++ rs) = kthHeader rs := by
  induction k with
  | zero => rfl
  | succ k ih => simp only [List.replicate_succ, List.cons_append, kthHeader, ih]

/-- beyond the digit limit the readers refuse the size line the writer lays out (whatever follows) -/
theorem kthHeader_kthText_big (u : Bool) (name : Str) (n : Nat) (lists : List (Nat × List Nat))
    (h : 10 ^ maxStrDigits ≤ n) :
    kthHeader (lexKth (if u then universalNL (kthText name n lists) else kthText name n lists)) =
      .error .valueError := by
  unfold lexKth
  rw [kthText_eq, lines_of_text u _ (kthLines_noNL name n lists), List.map_map]
  unfold kthLines
  simp only [List.map_append, List.map_cons, List.map_map, Function.comp_def, List.cons_append,
    lexKthLine_comment, lexKthLine_spec_big n h]
  rw [List.map_const', kthHeader_comments]
  rfl

/-! ## DIMACS edge format -/

def probLine (n m : Nat) : Str := ['p', ' ', 'e', 'd', 'g', 'e', ' '] ++ natStr n ++ ' ' :: natStr m

def edgeLine (e : Nat × Nat) : Str := 'e' :: ' ' :: (natStr e.1 ++ ' ' :: natStr e.2)

/-- the lines of a DIMACS graph file: `"c {}".format(line).strip()` per line of the name, the
problem line, one line per edge -/
def dimacsLines (name : Str) (n m : Nat) (edges : List (Nat × Nat)) : List Str :=
  (nameLines name).map (fun l => strip ('c' :: ' ' :: l)) ++ probLine n m :: edges.map edgeLine

theorem dimacsText_eq (name : Str) (n m : Nat) (edges : List (Nat × Nat)) :
    dimacsText name n m edges = unlines (dimacsLines name n m edges) := by
  have h1 : "c ".toList = ['c', ' '] := by decide
  have h2 : "p edge ".toList = ['p', ' ', 'e', 'd', 'g', 'e', ' '] := by decide
  have h3 : "e ".toList = ['e', ' '] := by decide
  unfold dimacsText dimacsLines
  rw [unlines_append, unlines_cons]
  simp [unlines, h1, h2, h3, List.flatMap_map, probLine, edgeLine]

theorem probLine_noNL (n m : Nat) : IO.NoNL (probLine n m) :=
  ((IO.noNL_lit _ (by decide)).append (IO.natStr_noNL n)).append (noNL_cons (by decide) (IO.natStr_noNL m))

theorem edgeLine_noNL (e : Nat × Nat) : IO.NoNL (edgeLine e) :=
  noNL_cons (by decide) (noNL_cons (by decide) ((IO.natStr_noNL _).append (noNL_cons (by decide) (IO.natStr_noNL _))))

theorem dimacsLines_noNL (name : Str) (n m : Nat) (edges : List (Nat × Nat)) :
    ∀ l ∈ dimacsLines name n m edges, IO.NoNL l := by
  intro l hl
  unfold dimacsLines at hl
  simp only [List.mem_append, List.mem_map, List.mem_cons] at hl
  rcases hl with ⟨x, hx, rfl⟩ | rfl | ⟨e, _, rfl⟩
  · intro c hc
    exact noNL_cons (by decide) (noNL_cons (by decide) (nameLines_noNL name x hx)) c (mem_of_mem_strip hc)
  · exact probLine_noNL n m
  · exact edgeLine_noNL e

theorem lexDimacsLine_comment (l : Str) : lexDimacsLine (strip ('c' :: l) ++ ['\n']) = .comment := by
  obtain ⟨z, hz⟩ := strip_cons 'c' l (by decide)
  obtain ⟨z', hz'⟩ := strip_cons 'c' z (by decide)
  unfold lexDimacsLine
  simp only [strip_append_ws _ _ isSpace_nl, hz, hz']
  simp

theorem strip_line (c : Char) (body : Str) (k : Nat) (hc : isSpace c = false) :
    strip (c :: (body ++ natStr k) ++ ['\n']) = c :: (body ++ natStr k) := by
  obtain ⟨mm, d, hm, hd⟩ := natStr_last k
  rw [strip_append_ws _ _ isSpace_nl, hm, ← List.append_assoc]
  exact strip_id c _ d hc (IO.isDigit_ne hd).1

theorem lexDimacsLine_prob (n m : Nat) (hn : Small n) (hm : Small m) :
    lexDimacsLine (probLine n m ++ ['\n']) = .prob (some ((n : Int), (m : Int))) := by
  have e1 : probLine n m = 'p' :: (([' ', 'e', 'd', 'g', 'e', ' '] ++ natStr n ++ [' ']) ++ natStr m) := by
    simp [probLine]
  have e2 : 'p' :: (([' ', 'e', 'd', 'g', 'e', ' '] ++ natStr n ++ [' ']) ++ natStr m) =
      [['p'], ['e', 'd', 'g', 'e'], natStr n].flatMap (fun t => t ++ [' ']) ++ natStr m := by
    simp
  have htok : ∀ t ∈ [['p'], ['e', 'd', 'g', 'e'], natStr n], IO.IsTok t := by
    intro t ht
    simp only [List.mem_cons, List.not_mem_nil, or_false] at ht
    rcases ht with rfl | rfl | rfl
    · exact IO.isTok_lit _ (by decide)
    · exact IO.isTok_lit _ (by decide)
    · exact IO.isTok_natStr n
  have hsplit : splitWS ('p' :: (([' ', 'e', 'd', 'g', 'e', ' '] ++ natStr n ++ [' ']) ++ natStr m)) =
      [['p'], ['e', 'd', 'g', 'e'], natStr n, natStr m] := by
    rw [e2, IO.splitWS_toks _ _ htok, IO.splitWS_tok _ (IO.isTok_natStr m)]; rfl
  unfold lexDimacsLine
  rw [e1, strip_line 'p' _ m (by decide)]
  simp only [hsplit, pyInt_natStr n hn, pyInt_natStr m hm]
  simp

theorem lexDimacsLine_edge (e : Nat × Nat) (h1 : Small e.1) (h2 : Small e.2) :
    lexDimacsLine (edgeLine e ++ ['\n']) = .edge (some ((e.1 : Int), (e.2 : Int))) := by
  have e1 : edgeLine e = 'e' :: (([' '] ++ natStr e.1 ++ [' ']) ++ natStr e.2) := by
    simp [edgeLine]
  have e2 : 'e' :: (([' '] ++ natStr e.1 ++ [' ']) ++ natStr e.2) =
      [['e'], natStr e.1].flatMap (fun t => t ++ [' ']) ++ natStr e.2 := by
    simp
  have htok : ∀ t ∈ [['e'], natStr e.1], IO.IsTok t := by
    intro t ht
    simp only [List.mem_cons, List.not_mem_nil, or_false] at ht
    rcases ht with rfl | rfl
    · exact IO.isTok_lit _ (by decide)
    · exact IO.isTok_natStr _
  have hsplit : splitWS ('e' :: (([' '] ++ natStr e.1 ++ [' ']) ++ natStr e.2)) =
      [['e'], natStr e.1, natStr e.2] := by
    rw [e2, IO.splitWS_toks _ _ htok, IO.splitWS_tok _ (IO.isTok_natStr _)]; rfl
  unfold lexDimacsLine
  rw [e1, strip_line 'e' _ e.2 (by decide)]
  simp only [hsplit, pyInt_natStr _ h1, pyInt_natStr _ h2]
  simp

/-- lexing the characters of a DIMACS graph file gives the rows of the row-level writer — both media -/
theorem lexDimacs_dimacsText (u : Bool) (name : Str) (n m : Nat) (edges : List (Nat × Nat)) (hn : Small n)
    (hm : Small m) (he : ∀ e ∈ edges, Small e.1 ∧ Small e.2) :
    lexDimacs (if u then universalNL (dimacsText name n m edges) else dimacsText name n m edges) =
      dimacsRows (nameLines name).length n m edges := by
  unfold lexDimacs
  rw [dimacsText_eq, lines_of_text u _ (dimacsLines_noNL name n m edges), List.map_map]
  unfold dimacsLines dimacsRows
  simp only [List.map_append, List.map_cons, List.map_map, Function.comp_def, lexDimacsLine_comment,
    lexDimacsLine_prob n m hn hm]
  have hmap : edges.map (fun x => lexDimacsLine (edgeLine x ++ ['\n'])) =
      edges.map (fun e => DRow.edge (some ((e.1 : Int), (e.2 : Int)))) :=
    List.map_congr_left (fun e hin => lexDimacsLine_edge e (he e hin).1 (he e hin).2)
  rw [hmap, List.map_const']

/-! ## matrix -/

def bitStr (b : Bool) : Str := if b then ['1'] else ['0']

def matrixRowLine (G : BipG) (i : Nat) : Str :=
  join [' '] ((List.range G.r).map (fun j => bitStr (G.hasEdge ((i + 1 : Nat) : Int) ((j + 1 : Nat) : Int))))

def matrixLines (G : BipG) : List Str :=
  (natStr G.l ++ ' ' :: natStr G.r) :: (List.range G.l).map (matrixRowLine G)

theorem matrixText_eq (G : BipG) : matrixText G = unlines (matrixLines G) := by
  unfold matrixText matrixLines
  rw [unlines_cons]
  simp only [unlines, List.flatMap_map, matrixRowLine, bitStr, List.append_assoc, List.cons_append,
    List.nil_append]

theorem bitStr_noNL (b : Bool) : IO.NoNL (bitStr b) := by cases b <;> exact IO.noNL_lit _ (by decide)

theorem matrixLines_noNL (G : BipG) : ∀ l ∈ matrixLines G, IO.NoNL l := by
  intro l hl
  unfold matrixLines at hl
  simp only [List.mem_cons, List.mem_map] at hl
  rcases hl with rfl | ⟨i, _, rfl⟩
  · exact (IO.natStr_noNL _).append (noNL_cons (by decide) (IO.natStr_noNL _))
  · intro c hc
    rcases IO.mem_join hc with h | ⟨p, hp, hcp⟩
    · simp at h; subst h; decide
    · obtain ⟨j, _, rfl⟩ := List.mem_map.1 hp
      exact bitStr_noNL _ c hcp

theorem lexMatrixLine_dims (l r : Nat) (hl : Small l) (hr : Small r) :
    lexMatrixLine ((natStr l ++ ' ' :: natStr r) ++ ['\n']) = .nums (some [(l : Int), (r : Int)]) := by
  obtain ⟨c, cs, hs, hc⟩ := IO.natStr_cons l
  have hsplit : splitWS ((natStr l ++ ' ' :: natStr r) ++ ['\n']) = [natStr l, natStr r] := by
    have : (natStr l ++ ' ' :: natStr r) ++ ['\n'] = natStr l ++ ' ' :: (natStr r ++ '\n' :: []) := by simp
    rw [this, splitWS_tok_ws _ ' ' _ (IO.isTok_natStr l) IO.isSpace_blank,
      splitWS_tok_ws _ '\n' [] (IO.isTok_natStr r) isSpace_nl]
    simp [IO.splitWS]
  have hhash : (natStr l).head? ≠ some '#' := by
    rw [hs]; simp; exact (isDigit_ne' hc).2.2.1
  unfold lexMatrixLine
  rw [hsplit]
  simp only [if_neg hhash]
  simp [List.mapM_cons, pyInt_natStr l hl, pyInt_natStr r hr]

theorem mapM_pyInt_bits (bs : List Bool) :
    (bs.map bitStr).mapM pyInt? = some (bs.map (fun b => if b then (1 : Int) else 0)) := by
  induction bs with
  | nil => rfl
  | cons b bs ih =>
    have h1 : pyInt? ['1'] = some 1 := by decide
    have h0 : pyInt? ['0'] = some 0 := by decide
    cases b <;> simp [List.mapM_cons, bitStr, h1, h0, ih]

theorem isTok_bitStr (b : Bool) : IO.IsTok (bitStr b) := by cases b <;> exact IO.isTok_lit _ (by decide)

theorem lexMatrixLine_row (G : BipG) (i : Nat) : lexMatrixLine (matrixRowLine G i ++ ['\n']) = matrixRow G (i + 1) := by
  unfold matrixRow matrixRowLine
  by_cases hr : G.r = 0
  · rw [if_pos hr, hr]; rfl
  · rw [if_neg hr]
    obtain ⟨k, hk⟩ : ∃ k, G.r = k + 1 := ⟨G.r - 1, by omega⟩
    let bs := (List.range G.r).map (fun j => G.hasEdge ((i + 1 : Nat) : Int) ((j + 1 : Nat) : Int))
    have hbs : (List.range G.r).map (fun j => bitStr (G.hasEdge ((i + 1 : Nat) : Int) ((j + 1 : Nat) : Int))) =
        bs.map bitStr := by simp [bs]
    have hne : bs.map bitStr ≠ [] := by simp [bs, hk, List.range_succ]
    have hsplit : splitWS (join [' '] (bs.map bitStr) ++ ['\n']) = bs.map bitStr := by
      rw [splitWS_join _ '\n' [] hne (fun t ht => by
        obtain ⟨b, _, rfl⟩ := List.mem_map.1 ht; exact isTok_bitStr b) isSpace_nl]
      simp [IO.splitWS]
    rw [hbs]
    unfold lexMatrixLine
    rw [hsplit]
    cases hb : bs.map bitStr with
    | nil => exact absurd hb hne
    | cons t ts =>
      have hhash : t.head? ≠ some '#' := by
        have ht : t ∈ bs.map bitStr := by rw [hb]; simp
        obtain ⟨b, _, rfl⟩ := List.mem_map.1 ht
        cases b <;> decide
      simp only [if_neg hhash]
      rw [← hb, mapM_pyInt_bits]
      simp [bs]

/-- lexing the characters of a matrix file gives the rows of the row-level writer — both media -/
theorem lexMatrix_matrixText (u : Bool) (G : BipG) (hl : Small G.l) (hr : Small G.r) :
    lexMatrix (if u then universalNL (matrixText G) else matrixText G) = writeMatrix G := by
  unfold lexMatrix
  rw [matrixText_eq, lines_of_text u _ (matrixLines_noNL G), List.map_map]
  unfold matrixLines writeMatrix
  simp only [List.map_cons, List.map_map, Function.comp_def, lexMatrixLine_dims _ _ hl hr, lexMatrixLine_row]

end Cnfgen.GraphFmt
